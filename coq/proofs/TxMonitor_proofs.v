(* Proofs about model/TxMonitor.v (property C09): the invariant of the monitor, provenance of the
   history variables in the event history, resolution and pending-list lemmas, refutations for the
   three pre-fix variants, non-vacuity examples. *)
From Coq Require Import String List NArith Bool Lia.
From MevVerif Require Import lib.Bytes gen.Generated model.TxMonitor.
Import ListNotations.
Open Scope N_scope.

(* ------------------------------------------------------------------------------------ *)
Definition with_wcd (s : mon) (w : list (N*N*N)) (c : list N) (d : list (N * wout)) : mon :=
  {| wait := w; closed := closed s; wl_exited := wl_exited s; drained := drained s;
     last_block := last_block s; last_conf := last_conf s; chk := chk s; closedch := c; pending := pending s;
     internal := internal s; flagged := flagged s; next := next s; delivered := d; watchers := watchers s; refused := refused s;
     sent := sent s; confs := confs s; answers := answers s; panicked := panicked s |}.

Lemma memN_false a l : ~ In a l -> memN a l = false.
Proof.
  unfold memN. intro H. destruct (existsb (N.eqb a) l) eqn:E; [|reflexivity].
  apply existsb_exists in E. destruct E as (y & Hy & Heq). apply N.eqb_eq in Heq. subst. contradiction.
Qed.
Lemma memN_true a l : In a l -> memN a l = true.
Proof. intro H. unfold memN. apply existsb_exists. exists a. split; [exact H|apply N.eqb_refl]. Qed.

Lemma send_ok s w o : ~ In w (closedch s) ->
  send s w o = with_wcd s (wait s) (closedch s ++ [w]) (delivered s ++ [(w, o)]).
Proof. intro H. unfold send. rewrite (memN_false _ _ H). reflexivity. Qed.

Lemma send_fold o : forall ws s, (forall w, In w ws -> ~ In w (closedch s)) -> NoDup ws ->
  fold_left (fun s w => send s w o) ws s =
  with_wcd s (wait s) (closedch s ++ ws) (delivered s ++ map (fun w => (w, o)) ws).
Proof.
  induction ws as [|a ws IH]; intros s Hn Hd.
  - destruct s; cbn. rewrite !app_nil_r. reflexivity.
  - cbn [fold_left]. rewrite send_ok by (apply Hn; left; reflexivity).
    inversion Hd as [|? ? Ha Hd']; subst.
    rewrite IH; [| |exact Hd'].
    + destruct s; cbn. rewrite <- !app_assoc. reflexivity.
    + intros w Hw. cbn [closedch with_wcd]. intro Hin. apply in_app_or in Hin. destruct Hin as [Hin|[->|[]]].
      * exact (Hn w (or_intror Hw) Hin).
      * exact (Ha Hw).
Qed.

(* ------------------------------------------------------------------------------------ *)
Definition just (s : mon) (o : wout) (n h : N) : Prop :=
  match o with
  | OReceipt h' st => h' = h /\ exists c, In (c, h, RReceipt st) (answers s)
  | OCancelled => exists c r, In (c, h, r) (answers s) /\ no_receipt r = true /\ n < c /\ In c (confs s)
  | OClosed => closed s = true
  end.

Definition chk_ok (s : mon) : Prop :=
  match chk s with
  | Idle => True
  | Handed c => In c (confs s)
  | InFlight c snap q => In c (confs s) /\ (forall n h, In (n, h) snap -> n < c) /\
                         (forall n h r, In (n, h, r) q -> n < c)
  end.

Record Inv (s : mon) : Prop := {
  i_nopanic : panicked s = false;
  i_open : forall e, In e (wait s) -> ~ In (waiter_of e) (closedch s);
  i_nodupw : NoDup (map waiter_of (wait s));
  i_deliv : map fst (delivered s) = closedch s;
  i_nodupc : NoDup (closedch s);
  i_ltw : forall e, In e (wait s) -> waiter_of e < next s;
  i_ltc : forall w, In w (closedch s) -> w < next s;
  i_drained : drained s = true -> wait s = [] /\ wl_exited s = true;
  i_exited : wl_exited s = true -> closed s = true;
  i_wait_watch : forall n h w, In (n, h, w) (wait s) -> In (w, h, n) (watchers s);
  i_watch_acc : forall w h n, In (w, h, n) (watchers s) -> In (n, h, w) (wait s) \/ In w (closedch s);
  i_ltwatch : forall w h n, In (w, h, n) (watchers s) -> w < next s;
  i_nodupwatch : NoDup (map (fun e => fst (fst e)) (watchers s));
  i_receipt : forall w h st, In (w, OReceipt h st) (delivered s) ->
     exists n c, In (w, h, n) (watchers s) /\ In (c, h, RReceipt st) (answers s);
  i_cancel : forall w, In (w, OCancelled) (delivered s) ->
     exists h n c r, In (w, h, n) (watchers s) /\ In (c, h, r) (answers s) /\ no_receipt r = true /\
                     n < c /\ In c (confs s);
  i_closed : forall w, In (w, OClosed) (delivered s) -> closed s = true;
  i_chk : chk_ok s;
  i_pending : forall h n, In (h, n) (pending s) -> In h (sent s);
  i_exdr : wl_exited s = true -> drained s = true
}.

Lemma NoDup_map_inj {A B} (f : A -> B) l a b :
  NoDup (map f l) -> In a l -> In b l -> f a = f b -> a = b.
Proof.
  induction l as [|x l IH]; cbn; intros Hd Ha Hb Hf; [contradiction|].
  inversion Hd as [|? ? Hx Hd']; subst.
  destruct Ha as [->|Ha], Hb as [->|Hb].
  - reflexivity.
  - exfalso. apply Hx. rewrite Hf. apply in_map, Hb.
  - exfalso. apply Hx. rewrite <- Hf. apply in_map, Ha.
  - exact (IH Hd' Ha Hb Hf).
Qed.

Lemma NoDup_map_filter {A B} (f : A -> B) (p : A -> bool) l :
  NoDup (map f l) -> NoDup (map f (filter p l)).
Proof.
  induction l as [|x l IH]; cbn; intro Hd; [constructor|].
  inversion Hd as [|? ? Hx Hd']; subst.
  destruct (p x); cbn; [constructor|]; auto.
  intro Hin. apply Hx. apply in_map_iff in Hin. destruct Hin as (y & Hy & Hyl).
  apply filter_In in Hyl. apply in_map_iff. exists y. tauto.
Qed.

Lemma NoDup_app_intro {A} (l1 l2 : list A) :
  NoDup l1 -> NoDup l2 -> (forall a, In a l1 -> ~ In a l2) -> NoDup (l1 ++ l2).
Proof.
  induction l1 as [|x l1 IH]; cbn; intros H1 H2 Hd; [exact H2|].
  inversion H1 as [|? ? Hx H1']; subst. constructor.
  - intro Hin. apply in_app_or in Hin. destruct Hin as [Hin|Hin]; [exact (Hx Hin)|].
    exact (Hd x (or_introl eq_refl) Hin).
  - apply IH; auto.
Qed.

Lemma deliver_inv s (sel : N * N * N -> bool) o :
  Inv s ->
  (forall n h w, In (n, h, w) (wait s) -> sel (n, h, w) = true -> just s o n h) ->
  let ws := map waiter_of (filter sel (wait s)) in
  Inv (with_wcd s (filter (fun e => negb (sel e)) (wait s)) (closedch s ++ ws)
                (delivered s ++ map (fun w => (w, o)) ws)).
Proof.
  intros I J ws. destruct I as [i_nopanic0 i_open0 i_nodupw0 i_deliv0 i_nodupc0 i_ltw0 i_ltc0 i_drained0 i_exited0 i_wait_watch0 i_watch_acc0 i_ltwatch0 i_nodupwatch0 i_receipt0 i_cancel0 i_closed0 i_chk0 i_pending0 i_exdr0].
  assert (Hws : forall w, In w ws -> exists n h, In (n, h, w) (wait s) /\ sel (n, h, w) = true).
  { intros w Hw. apply in_map_iff in Hw. destruct Hw as ([[n h] w'] & Heq & Hin). cbn in Heq. subst w'.
    apply filter_In in Hin. exists n, h. exact Hin. }
  constructor; cbn [with_wcd wait closedch delivered panicked next drained wl_exited closed watchers
                    answers confs chk pending sent].
  - assumption.
  - intros e He Hin. apply filter_In in He. destruct He as [He Hs].
    apply in_app_or in Hin. destruct Hin as [Hin|Hin]; [exact (i_open0 e He Hin)|].
    destruct (Hws _ Hin) as (n & h & Hin' & Hsel).
    assert (e = (n, h, waiter_of e)).
    { apply (NoDup_map_inj waiter_of (wait s)); auto. }
    rewrite H in Hs. rewrite Hsel in Hs. discriminate.
  - apply NoDup_map_filter. assumption.
  - rewrite map_app, map_map. cbn. rewrite map_id. f_equal. assumption.
  - apply NoDup_app_intro; [assumption| |].
    + unfold ws. apply NoDup_map_filter. assumption.
    + intros a Ha Hin. destruct (Hws _ Hin) as (n & h & Hin' & _). exact (i_open0 _ Hin' Ha).
  - intros e He. apply filter_In in He. apply i_ltw0. tauto.
  - intros w Hw. apply in_app_or in Hw. destruct Hw as [Hw|Hw]; [auto|].
    destruct (Hws _ Hw) as (n & h & Hin' & _). exact (i_ltw0 _ Hin').
  - intro Hd. destruct (i_drained0 Hd) as [Hw He]. rewrite Hw. cbn. auto.
  - assumption.
  - intros n h w Hin. apply filter_In in Hin. apply i_wait_watch0. tauto.
  - intros w h n Hw. destruct (i_watch_acc0 _ _ _ Hw) as [Hin|Hin].
    + destruct (sel (n, h, w)) eqn:Hs.
      * right. apply in_or_app. right. unfold ws. apply in_map_iff. exists (n, h, w). split; [reflexivity|].
        apply filter_In. auto.
      * left. apply filter_In. rewrite Hs. auto.
    + right. apply in_or_app. auto.
  - assumption.
  - assumption.
  - intros w h st Hin. apply in_app_or in Hin. destruct Hin as [Hin|Hin]; [auto|].
    apply in_map_iff in Hin. destruct Hin as (w' & Heq & Hw'). inversion Heq; subst.
    destruct (Hws _ Hw') as (n & h' & Hin' & Hsel). specialize (J _ _ _ Hin' Hsel). cbn in J.
    destruct J as [<- [c Hc]]. exists n, c. split; auto.
  - intros w Hin. apply in_app_or in Hin. destruct Hin as [Hin|Hin]; [auto|].
    apply in_map_iff in Hin. destruct Hin as (w' & Heq & Hw'). inversion Heq; subst.
    destruct (Hws _ Hw') as (n & h' & Hin' & Hsel). specialize (J _ _ _ Hin' Hsel). cbn in J.
    destruct J as (c & r & Hc & Hr & Hlt & Hcf). exists h', n, c, r. repeat split; auto.
  - intros w Hin. apply in_app_or in Hin. destruct Hin as [Hin|Hin]; [eauto|].
    apply in_map_iff in Hin. destruct Hin as (w' & Heq & Hw'). inversion Heq; subst.
    destruct (Hws _ Hw') as (n & h' & Hin' & Hsel). exact (J _ _ _ Hin' Hsel).
  - exact i_chk0.
  - assumption.
  - assumption.
Qed.

(* ------------------------------------------------------------------------------------ *)
Lemma notify_eq s n h o : Inv s ->
  notify s n h o =
  let ws := map waiter_of (filter (key_is n h) (wait s)) in
  with_wcd s (filter (fun e => negb (key_is n h e)) (wait s)) (closedch s ++ ws)
           (delivered s ++ map (fun w => (w, o)) ws).
Proof.
  intro I. unfold notify. rewrite send_fold.
  - destruct s; reflexivity.
  - intros w Hw. apply in_map_iff in Hw. destruct Hw as (e & <- & He). apply filter_In in He.
    apply (i_open _ I). tauto.
  - apply NoDup_map_filter. apply (i_nodupw _ I).
Qed.

Lemma key_is_spec n h n' h' w : key_is n h (n', h', w) = true -> n' = n /\ h' = h.
Proof. cbn. intro H. apply andb_prop in H. destruct H as [H1 H2]. apply N.eqb_eq in H1, H2. auto. Qed.

Lemma notify_inv s n h o : Inv s -> just s o n h -> Inv (notify s n h o).
Proof.
  intros I J. rewrite notify_eq by exact I. cbv zeta. apply deliver_inv; [exact I|].
  intros n' h' w _ Hk. apply key_is_spec in Hk. destruct Hk as [-> ->]. exact J.
Qed.

(* states that differ only in fields the core invariant does not read, or read monotonically *)
Lemma add_answer_inv s a : Inv s -> Inv (add_answer s a).
Proof.
  intro I. destruct I as [i_nopanic0 i_open0 i_nodupw0 i_deliv0 i_nodupc0 i_ltw0 i_ltc0 i_drained0 i_exited0 i_wait_watch0 i_watch_acc0 i_ltwatch0 i_nodupwatch0 i_receipt0 i_cancel0 i_closed0 i_chk0 i_pending0 i_exdr0]. constructor; cbn [add_answer wait closedch delivered panicked next drained wl_exited closed
    watchers answers confs chk pending sent]; auto.
  - intros w h st Hin. destruct (i_receipt0 _ _ _ Hin) as (n & c & H1 & H2). exists n, c. split; auto.
    apply in_or_app. auto.
  - intros w Hin. destruct (i_cancel0 _ Hin) as (h & n & c & r & H1 & H2 & H3). exists h, n, c, r.
    split; auto. split; [apply in_or_app; auto|exact H3].
Qed.

Lemma set_chk_inv s k : Inv s ->
  match k with
  | Idle => True
  | Handed c => In c (confs s)
  | InFlight c snap q => In c (confs s) /\ (forall n h, In (n, h) snap -> n < c) /\
                         (forall n h r, In (n, h, r) q -> n < c)
  end -> Inv (set_chk s k).
Proof.
  intros I Hk. destruct I as [i_nopanic0 i_open0 i_nodupw0 i_deliv0 i_nodupc0 i_ltw0 i_ltc0 i_drained0 i_exited0 i_wait_watch0 i_watch_acc0 i_ltwatch0 i_nodupwatch0 i_receipt0 i_cancel0 i_closed0 i_chk0 i_pending0 i_exdr0]. constructor; cbn [set_chk wait closedch delivered panicked next drained wl_exited closed
    watchers answers confs chk pending sent]; auto.
Qed.

Lemma finish_ok (s : mon) c snap q :
  In c (confs s) -> (forall n h, In (n, h) snap -> n < c) -> (forall n h r, In (n, h, r) q -> n < c) ->
  match finish c snap q with
  | Idle => True
  | Handed c => In c (confs s)
  | InFlight c snap q => In c (confs s) /\ (forall n h, In (n, h) snap -> n < c) /\
                         (forall n h r, In (n, h, r) q -> n < c)
  end.
Proof. intros. unfold finish. destruct snap; destruct q; auto. Qed.

Lemma set_pending_inv s p : Inv s -> (forall h n, In (h, n) p -> In h (sent s)) -> Inv (set_pending s p).
Proof.
  intros I Hp. destruct I as [i_nopanic0 i_open0 i_nodupw0 i_deliv0 i_nodupc0 i_ltw0 i_ltc0 i_drained0 i_exited0 i_wait_watch0 i_watch_acc0 i_ltwatch0 i_nodupwatch0 i_receipt0 i_cancel0 i_closed0 i_chk0 i_pending0 i_exdr0]. constructor; cbn [set_pending wait closedch delivered panicked next drained wl_exited closed
    watchers answers confs chk pending sent]; auto.
Qed.
Lemma set_internal_inv s p : Inv s -> Inv (set_internal s p).
Proof.
  intros I. destruct I as [i_nopanic0 i_open0 i_nodupw0 i_deliv0 i_nodupc0 i_ltw0 i_ltc0 i_drained0 i_exited0 i_wait_watch0 i_watch_acc0 i_ltwatch0 i_nodupwatch0 i_receipt0 i_cancel0 i_closed0 i_chk0 i_pending0 i_exdr0]. constructor; cbn [set_internal wait closedch delivered panicked next drained wl_exited closed
    watchers answers confs chk pending sent]; auto.
Qed.

Lemma set_flagged_inv s p : Inv s -> Inv (set_flagged s p).
Proof.
  intros I. destruct I as [i_nopanic0 i_open0 i_nodupw0 i_deliv0 i_nodupc0 i_ltw0 i_ltc0 i_drained0 i_exited0 i_wait_watch0 i_watch_acc0 i_ltwatch0 i_nodupwatch0 i_receipt0 i_cancel0 i_closed0 i_chk0 i_pending0 i_exdr0]. constructor; cbn [set_flagged wait closedch delivered panicked next drained wl_exited closed
    watchers answers confs chk pending sent]; auto.
Qed.

Lemma remove_key_sub h l a : In a (remove_key h l) -> In a l.
Proof. unfold remove_key. intro H. apply filter_In in H. tauto. Qed.

(* a fresh waiter identity, with arbitrary changes to the client-side bookkeeping *)
Definition side (s : mon) p i r st fl : mon :=
  {| wait := wait s; closed := closed s; wl_exited := wl_exited s; drained := drained s;
     last_block := last_block s; last_conf := last_conf s; chk := chk s; closedch := closedch s; pending := p;
     internal := i; flagged := fl; next := next s + 1; delivered := delivered s; watchers := watchers s; refused := r;
     sent := st; confs := confs s; answers := answers s; panicked := panicked s |}.

Lemma side_inv s p i r st fl : Inv s -> (forall h n, In (h, n) p -> In h st) -> Inv (side s p i r st fl).
Proof.
  intros I Hp. destruct I as [i_nopanic0 i_open0 i_nodupw0 i_deliv0 i_nodupc0 i_ltw0 i_ltc0 i_drained0 i_exited0 i_wait_watch0 i_watch_acc0 i_ltwatch0 i_nodupwatch0 i_receipt0 i_cancel0 i_closed0 i_chk0 i_pending0 i_exdr0]. constructor; cbn [side wait closedch delivered panicked next drained wl_exited closed
    watchers answers confs chk pending sent]; auto.
  - intros e He. specialize (i_ltw0 e He). lia.
  - intros w Hw. specialize (i_ltc0 w Hw). lia.
  - intros w h n Hw. specialize (i_ltwatch0 w h n Hw). lia.
Qed.

Lemma watch_tx_inv s w h n : Inv s -> next s = w + 1 ->
  (forall e, In e (wait s) -> waiter_of e < w) -> (forall x, In x (closedch s) -> x < w) ->
  (forall w' h' n', In (w', h', n') (watchers s) -> w' < w) ->
  Inv (watch_tx current s w h n).
Proof.
  intros I Hn Hw Hc Hwa. unfold watch_tx. cbn [fix_drain current andb drained].
  destruct I as [i_nopanic0 i_open0 i_nodupw0 i_deliv0 i_nodupc0 i_ltw0 i_ltc0 i_drained0 i_exited0 i_wait_watch0 i_watch_acc0 i_ltwatch0 i_nodupwatch0 i_receipt0 i_cancel0 i_closed0 i_chk0 i_pending0 i_exdr0]. destruct (drained s) eqn:Hd.
  - destruct (i_drained0 eq_refl) as [Hwt Hex]. rewrite send_ok.
    2:{ cbn [closedch]. intro Hin. specialize (Hc _ Hin). lia. }
    constructor; cbn [with_wcd wait closedch delivered panicked next drained wl_exited closed
      watchers answers confs chk pending sent]; auto.
    + rewrite Hwt. intros e [].
    + rewrite map_app. cbn. f_equal. assumption.
    + apply NoDup_app_intro; auto. { constructor; [intros []|constructor]. }
      intros a Ha [<-|[]]. specialize (Hc _ Ha). lia.
    + intros x Hx. apply in_app_or in Hx. destruct Hx as [Hx|[<-|[]]]; [auto|lia].
    + intros n0 h0 w0 Hin. apply in_or_app. left. auto.
    + intros w0 h0 n0 Hin. apply in_app_or in Hin. destruct Hin as [Hin|[Heq|[]]].
      * destruct (i_watch_acc0 _ _ _ Hin); [left; assumption|right; apply in_or_app; auto].
      * inversion Heq; subst. right. apply in_or_app. right. left. reflexivity.
    + intros w0 h0 n0 Hin. apply in_app_or in Hin. destruct Hin as [Hin|[Heq|[]]]; [eauto|].
      inversion Heq; subst. lia.
    + rewrite map_app. cbn. apply NoDup_app_intro; auto. { constructor; [intros []|constructor]. }
      intros a Ha [<-|[]]. apply in_map_iff in Ha. destruct Ha as ([[w1 h1] n1] & Heq & Hin). cbn in Heq. subst.
      specialize (Hwa _ _ _ Hin). lia.
    + intros w0 h0 st Hin. apply in_app_or in Hin. destruct Hin as [Hin|[Heq|[]]]; [|discriminate].
      destruct (i_receipt0 _ _ _ Hin) as (n1 & c & H1 & H2). exists n1, c. split; [apply in_or_app; auto|auto].
    + intros w0 Hin. apply in_app_or in Hin. destruct Hin as [Hin|[Heq|[]]]; [|discriminate].
      destruct (i_cancel0 _ Hin) as (h1 & n1 & c & r & H1 & H2). exists h1, n1, c, r.
      split; [apply in_or_app; auto|auto].
  - constructor; cbn [set_wait wait closedch delivered panicked next drained wl_exited closed
      watchers answers confs chk pending sent]; auto.
    + intros e He Hin. apply in_app_or in He. destruct He as [He|[<-|[]]]; [exact (i_open0 e He Hin)|].
      cbn in Hin. specialize (Hc _ Hin). lia.
    + rewrite map_app. cbn. apply NoDup_app_intro; auto. { constructor; [intros []|constructor]. }
      intros a Ha [<-|[]]. apply in_map_iff in Ha. destruct Ha as (e & Heq & Hin). specialize (Hw _ Hin). lia.
    + intros e He. apply in_app_or in He. destruct He as [He|[<-|[]]]; [auto|]. cbn. lia.
    + intro Hd'. try rewrite Hd in Hd'. discriminate.
    + intros n0 h0 w0 Hin. apply in_app_or in Hin. destruct Hin as [Hin|[Heq|[]]].
      * apply in_or_app. left. auto.
      * inversion Heq; subst. apply in_or_app. right. left. reflexivity.
    + intros w0 h0 n0 Hin. apply in_app_or in Hin. destruct Hin as [Hin|[Heq|[]]].
      * destruct (i_watch_acc0 _ _ _ Hin); [left; apply in_or_app; auto|right; assumption].
      * inversion Heq; subst. left. apply in_or_app. right. left. reflexivity.
    + intros w0 h0 n0 Hin. apply in_app_or in Hin. destruct Hin as [Hin|[Heq|[]]]; [eauto|].
      inversion Heq; subst. lia.
    + rewrite map_app. cbn. apply NoDup_app_intro; auto. { constructor; [intros []|constructor]. }
      intros a Ha [<-|[]]. apply in_map_iff in Ha. destruct Ha as ([[w1 h1] n1] & Heq & Hin). cbn in Heq. subst.
      specialize (Hwa _ _ _ Hin). lia.
    + intros w0 h0 st Hin. destruct (i_receipt0 _ _ _ Hin) as (n1 & c & H1 & H2). exists n1, c.
      split; [apply in_or_app; auto|auto].
    + intros w0 Hin. destruct (i_cancel0 _ Hin) as (h1 & n1 & c & r & H1 & H2). exists h1, n1, c, r.
      split; [apply in_or_app; auto|auto].
Qed.

(* ------------------------------------------------------------------------------------ *)
Ltac dI I := destruct I as [i_nopanic0 i_open0 i_nodupw0 i_deliv0 i_nodupc0 i_ltw0 i_ltc0 i_drained0 i_exited0
  i_wait_watch0 i_watch_acc0 i_ltwatch0 i_nodupwatch0 i_receipt0 i_cancel0 i_closed0 i_chk0 i_pending0 i_exdr0].
Ltac projs := cbn [with_wcd set_flagged flagged set_wait set_chk set_pending set_internal add_answer side wait closedch delivered
  panicked next drained wl_exited closed watchers answers confs chk pending sent internal refused last_block last_conf].

Lemma dedup_sub l a : In a (dedup l) -> In a l.
Proof.
  induction l as [|[n h] l IH]; cbn; [tauto|]. intros [<-|H]; [auto|].
  apply filter_In in H. right. apply IH. tauto.
Qed.
Lemma older_lt c w n h : In (n, h) (older c w) -> n < c.
Proof.
  unfold older. intro H. apply dedup_sub in H. apply in_map_iff in H. destruct H as ([[n' h'] w'] & Heq & Hin).
  cbn in Heq. inversion Heq; subst. apply filter_In in Hin. destruct Hin as [_ Hlt]. cbn in Hlt.
  apply N.ltb_lt. exact Hlt.
Qed.

Lemma find_hash_in h snap n : find_hash h snap = Some n -> In (n, h) snap.
Proof.
  induction snap as [|[n' h'] snap IH]; cbn; [discriminate|].
  destruct (h' =? h) eqn:E; [|auto]. apply N.eqb_eq in E. subst. intros [= ->]. auto.
Qed.
Lemma drop_hash_sub h snap a : In a (drop_hash h snap) -> In a snap.
Proof. unfold drop_hash. intro H. apply filter_In in H. tauto. Qed.

Lemma take_batch_ok c : forall rs snap snap' q,
  (forall n h, In (n, h) snap -> n < c) -> take_batch snap rs = (snap', q) ->
  (forall n h, In (n, h) snap' -> n < c) /\ (forall n h r, In (n, h, r) q -> n < c).
Proof.
  induction rs as [|[h r] rs IH]; cbn; intros snap snap' q Hs Ht.
  - inversion Ht; subst. split; [exact Hs|intros ? ? ? []].
  - destruct (find_hash h snap) as [n|] eqn:Ef.
    + destruct (take_batch (drop_hash h snap) rs) as [s2 q2] eqn:Et. inversion Ht; subst.
      destruct (IH _ _ _ (fun n0 h0 Hin => Hs n0 h0 (drop_hash_sub _ _ _ Hin)) Et) as [H1 H2].
      split; [exact H1|]. intros n0 h0 r0 [Heq|Hin]; [|eauto]. inversion Heq; subst.
      apply (Hs n0 h0). apply find_hash_in. exact Ef.
    + eauto.
Qed.

Lemma send_confs s w o : confs (send s w o) = confs s /\ answers (send s w o) = answers s /\ chk (send s w o) = chk s.
Proof. unfold send. destruct (memN w (closedch s)); auto. Qed.
Lemma send_fold_confs o : forall ws s,
  confs (fold_left (fun s w => send s w o) ws s) = confs s.
Proof. induction ws; cbn; intros; [reflexivity|]. rewrite IHws. apply send_confs. Qed.
Lemma notify_confs s n h o : confs (notify s n h o) = confs s.
Proof. unfold notify. cbv zeta. cbn [set_wait confs]. apply send_fold_confs. Qed.

Lemma proc_confs s c n h r fb : confs (proc current s c n h r fb) = confs s.
Proof.
  unfold proc. cbn [fix_fallback current].
  destruct r; [| |destruct fb as [[]|]..]; rewrite ?notify_confs; reflexivity.
Qed.

Lemma in_answers_add s a : In a (answers (add_answer s a)).
Proof. cbn. apply in_or_app. right. left. reflexivity. Qed.

Lemma proc_inv s c n h r fb : Inv s -> n < c -> In c (confs s) -> Inv (proc current s c n h r fb).
Proof.
  intros I Hlt Hc. unfold proc. cbn [fix_fallback current].
  pose proof (add_answer_inv s (c, h, r) I) as I1.
  destruct r.
  - apply notify_inv; [exact I1|]. cbn [just]. split; [reflexivity|]. exists c. apply in_answers_add.
  - apply notify_inv; [exact I1|]. cbn [just]. exists c, RNotFound. split; [apply in_answers_add|]. auto.
  - destruct fb as [[st| | |]|]; try exact I1.
    + apply notify_inv; [apply add_answer_inv; exact I1|]. cbn [just]. split; [reflexivity|]. exists c. apply in_answers_add.
    + apply notify_inv; [apply add_answer_inv; exact I1|]. cbn [just]. exists c, RNotFound.
      split; [apply in_answers_add|]. auto.
  - destruct fb as [[st| | |]|]; try exact I1.
    + apply notify_inv; [apply add_answer_inv; exact I1|]. cbn [just]. split; [reflexivity|]. exists c. apply in_answers_add.
    + apply notify_inv; [apply add_answer_inv; exact I1|]. cbn [just]. exists c, RNotFound.
      split; [apply in_answers_add|]. auto.
Qed.

Lemma filter_all {A} (l : list A) : filter (fun _ => true) l = l.
Proof. induction l; cbn; congruence. Qed.
Lemma filter_none {A} (l : list A) : filter (fun _ => negb true) l = [].
Proof. induction l; cbn; auto. Qed.

Lemma step_inv s e : Inv s -> Inv (step current s e).
Proof.
  intro I. unfold step. rewrite (i_nopanic _ I).
  destruct e as [h n|h|h n|blk nonce newtx| |rs| |fb|w| | |h n|b c newtx|gw].
  - (* Sent *)
    dI I. constructor; projs; auto.
    intros h0 n0 [Heq|Hin].
    + inversion Heq; subst. apply in_or_app. right. left. reflexivity.
    + apply in_or_app. left. apply remove_key_sub in Hin. exact (i_pending0 _ _ Hin).
  - (* Watch *)
    cbn [fresh]. cbv zeta. projs. destruct (lookup h (pending s)) as [n|].
    + change (Inv (watch_tx current (side s (pending s) (internal s) (refused s) (sent s) (flagged s)) (next s) h n)).
      apply watch_tx_inv; [apply side_inv; [exact I|exact (i_pending _ I)]|reflexivity|exact (i_ltw _ I)|
                           exact (i_ltc _ I)|exact (i_ltwatch _ I)].
    + change (Inv (side s (pending s) (internal s) (refused s ++ [next s]) (sent s) (flagged s))).
      apply side_inv; [exact I|exact (i_pending _ I)].
  - (* WatchRaw *)
    cbn [fresh]. cbv zeta.
    change (Inv (watch_tx current (side s (pending s) (internal s) (refused s) (sent s) (flagged s)) (next s) h n)).
    apply watch_tx_inv; [apply side_inv; [exact I|exact (i_pending _ I)]|reflexivity|exact (i_ltw _ I)|
                         exact (i_ltc _ I)|exact (i_ltwatch _ I)].
  - (* Poll *)
    destruct (wl_exited s) eqn:Hex; [exact I|]. destruct blk as [b|]; [|exact I].
    destruct ((b <=? last_block s) && negb newtx); [exact I|]. destruct nonce as [c|]; [|exact I].
    dI I. constructor; projs; auto.
    + intro Hd. destruct (i_drained0 Hd) as [_ H]. rewrite Hex in H. discriminate.
    + discriminate.
    + intros w Hin. destruct (i_cancel0 _ Hin) as (h1 & n1 & c1 & r & H1 & H2 & H3 & H4 & H5).
      exists h1, n1, c1, r. repeat split; auto. apply in_or_app. auto.
    + unfold chk_ok in *. projs. destruct (chk s) as [|c0|c0 snap q].
      * apply in_or_app. right. left. reflexivity.
      * apply in_or_app. auto.
      * destruct i_chk0 as (H1 & H2 & H3). split; [apply in_or_app; auto|auto].
    + discriminate.
  - (* CheckBegin *)
    pose proof (i_chk _ I) as Hk. unfold chk_ok in Hk. destruct (chk s) as [|c|c snap q]; try exact I.
    apply set_chk_inv; [exact I|]. apply finish_ok; [exact Hk| |intros ? ? ? []].
    intros n h. apply older_lt.
  - (* BatchReply *)
    pose proof (i_chk _ I) as Hk. unfold chk_ok in Hk. destruct (chk s) as [|c|c snap q]; try exact I.
    destruct q; [|exact I]. destruct (take_batch snap rs) as [snap' q] eqn:Et.
    destruct Hk as (H1 & H2 & _). destruct (take_batch_ok c _ _ _ _ H2 Et) as [H3 H4].
    apply set_chk_inv; [exact I|]. apply finish_ok; auto.
  - (* BatchFail *)
    destruct (chk s) as [|c|c snap q]; try exact I. destruct q; [|exact I].
    apply set_chk_inv; [exact I|exact Logic.I].
  - (* Proc *)
    pose proof (i_chk _ I) as Hk. unfold chk_ok in Hk. destruct (chk s) as [|c|c snap q]; try exact I.
    destruct q as [|[[n h] r] q]; [exact I|]. destruct Hk as (H1 & H2 & H3).
    apply set_chk_inv.
    + apply proc_inv; [exact I| |exact H1]. apply (H3 n h r). left. reflexivity.
    + rewrite proc_confs. apply finish_ok; [exact H1|exact H2|]. intros n0 h0 r0 Hin. apply (H3 n0 h0 r0). right. exact Hin.
  - (* InternalRun *)
    destruct (lookup w (internal s)) as [h|]; [|exact I]. destruct (out_of w (delivered s)) as [o|]; [|exact I].
    pose proof (set_internal_inv s (remove_key w (internal s)) I) as I1.
    assert (Hrm : Inv (set_pending (set_internal s (remove_key w (internal s)))
                          (remove_key h (pending (set_internal s (remove_key w (internal s))))))).
    { apply set_pending_inv; [exact I1|]. intros h0 n0 Hin. apply remove_key_sub in Hin. exact (i_pending _ I1 _ _ Hin). }
    destruct o; cbn [fix_pending current]; [exact Hrm| |exact I1].
    destruct (lookup h (pending (set_internal s (remove_key w (internal s))))); [apply set_flagged_inv|]; exact I1.
  - (* Close *)
    dI I. constructor; projs; auto.
  - (* Drain *)
    destruct (closed s) eqn:Hcl; [|exact I]. destruct (wl_exited s) eqn:Hex; [exact I|]. cbn [andb negb].
    rewrite send_fold.
    2:{ intros w Hw. apply in_map_iff in Hw. destruct Hw as (e & <- & He). exact (i_open _ I e He). }
    2:{ exact (i_nodupw _ I). }
    cbn [fix_drain current]. projs.
    pose proof (deliver_inv s (fun _ => true) OClosed I) as D. cbv zeta in D.
    rewrite filter_all, filter_none in D.
    assert (J : forall n h w, In (n, h, w) (wait s) -> true = true -> just s OClosed n h).
    { intros. cbn. exact Hcl. }
    specialize (D J). clear J. dI D. revert i_nopanic0 i_open0 i_nodupw0 i_deliv0 i_nodupc0 i_ltw0 i_ltc0 i_drained0
      i_exited0 i_wait_watch0 i_watch_acc0 i_ltwatch0 i_nodupwatch0 i_receipt0 i_cancel0 i_closed0 i_chk0 i_pending0 i_exdr0.
    projs. intros. constructor; projs; auto.
  - (* InternalWatch *)
    cbn [fresh]. cbv zeta. projs.
    change (Inv (watch_tx current (side s (pending s) (internal s ++ [(next s, h)])
                                       (refused s) (sent s) (flagged s)) (next s) h n)).
    apply watch_tx_inv; [apply side_inv; [exact I|exact (i_pending _ I)]|reflexivity|exact (i_ltw _ I)|
                         exact (i_ltc _ I)|exact (i_ltwatch _ I)].
  - (* PollLost *)
    destruct (wl_exited s) eqn:Hex; [exact I|].
    destruct ((b <=? last_block s) && negb newtx); [exact I|].
    dI I. constructor; projs; auto.
    + intro Hd. destruct (i_drained0 Hd) as [_ H]. rewrite Hex in H. discriminate.
    + discriminate.
    + intros w Hin. destruct (i_cancel0 _ Hin) as (h1 & n1 & c1 & r & H1 & H2 & H3 & H4 & H5).
      exists h1, n1, c1, r. repeat split; auto. apply in_or_app. auto.
    + unfold chk_ok in *. projs. destruct (chk s) as [|c0|c0 snap q].
      * exact Logic.I.
      * apply in_or_app. auto.
      * destruct i_chk0 as (H1 & H2 & H3). split; [apply in_or_app; auto|auto].
    + discriminate.
  - exact I.
Qed.

Theorem inv_init : Inv init.
Proof.
  constructor; cbn; try (intros; contradiction); try constructor; auto; try discriminate.
Qed.

Theorem inv_run : forall evs, Inv (run current evs).
Proof.
  intro evs. unfold run. assert (H : forall s, Inv s -> Inv (fold_left (step current) evs s)).
  { induction evs as [|e evs IH]; cbn; intros s Hs; [exact Hs|]. apply IH, step_inv, Hs. }
  apply H, inv_init.
Qed.

(* ------------------------------------------------------------------------------------ *)
(* ---- provenance: every history variable is explained by an event of the history ---------- *)
Definition frame (s s' : mon) : Prop :=
  closed s' = closed s /\ confs s' = confs s /\ answers s' = answers s /\ chk s' = chk s /\ sent s' = sent s.

Lemma frame_refl s : frame s s. Proof. repeat split. Qed.
Lemma frame_trans a b c : frame a b -> frame b c -> frame a c.
Proof. unfold frame. intros (A1 & A2 & A3 & A4 & A5) (B1 & B2 & B3 & B4 & B5). repeat split; congruence. Qed.
Lemma frame_send s w o : frame s (send s w o).
Proof. unfold send. destruct (memN w (closedch s)); repeat split. Qed.
Lemma frame_fold o : forall ws s, frame s (fold_left (fun s w => send s w o) ws s).
Proof.
  induction ws; cbn; intro s; [apply frame_refl|]. eapply frame_trans; [apply frame_send|apply IHws].
Qed.
Lemma frame_notify s n h o : frame s (notify s n h o).
Proof.
  unfold notify. cbv zeta. destruct (frame_fold o (map waiter_of (filter (key_is n h) (wait s))) s) as (A & B & C & D & E).
  repeat split; cbn [set_wait closed confs answers chk sent]; assumption.
Qed.
Lemma frame_watch v s w h n : frame s (watch_tx v s w h n).
Proof.
  unfold watch_tx. cbv zeta. cbn [drained]. destruct (fix_drain v && drained s).
  - eapply frame_trans; [|apply frame_send]. repeat split.
  - repeat split.
Qed.

Definition from_node (evs : list event) (h : N) (r : reply) : Prop :=
  (exists rs, In (BatchReply rs) evs /\ In (h, r) rs) \/ In (Proc (Some r)) evs.

(* the node reported confirmed nonce c to some iteration of the watch loop *)
Definition polled (evs : list event) (c : N) : Prop :=
  exists b nt, In (Poll (Some b) (Some c) nt) evs \/ In (PollLost b c nt) evs.
Lemma polled_app evs e c : polled evs c -> polled (evs ++ [e]) c.
Proof. intros (b & nt & [H|H]); exists b, nt; [left|right]; apply in_or_app; auto. Qed.

Record Src (evs : list event) (s : mon) : Prop := {
  s_closed : closed s = true -> In Close evs;
  s_confs : forall c, In c (confs s) -> polled evs c;
  s_answers : forall c h r, In (c, h, r) (answers s) -> from_node evs h r;
  s_queue : match chk s with
            | InFlight c snap q => forall n h r, In (n, h, r) q -> exists rs, In (BatchReply rs) evs /\ In (h, r) rs
            | _ => True
            end;
  s_sent : forall h, In h (sent s) -> exists n, In (Sent h n) evs
}.

Lemma src_weaken evs e s s' : Src evs s -> frame s s' -> Src (evs ++ [e]) s'.
Proof.
  intros [A B C D E] (F1 & F2 & F3 & F4 & F5). constructor.
  - rewrite F1. intro H. apply in_or_app. auto.
  - rewrite F2. intros c Hc. apply polled_app. exact (B c Hc).
  - rewrite F3. intros c h r H. destruct (C c h r H) as [(rs & H1 & H2)|H1].
    + left. exists rs. split; [apply in_or_app; auto|exact H2].
    + right. apply in_or_app. auto.
  - rewrite F4. destruct (chk s); auto. intros n h r H. destruct (D n h r H) as (rs & H1 & H2). exists rs.
    split; [apply in_or_app; auto|exact H2].
  - rewrite F5. intros h H. destruct (E h H) as (n & Hn). exists n. apply in_or_app. auto.
Qed.

Lemma take_batch_src : forall rs snap snap' q, take_batch snap rs = (snap', q) ->
  forall n h r, In (n, h, r) q -> In (h, r) rs.
Proof.
  induction rs as [|[h0 r0] rs IH]; cbn; intros snap snap' q Ht n h r Hin.
  - inversion Ht; subst. destruct Hin.
  - destruct (find_hash h0 snap) as [n0|].
    + destruct (take_batch (drop_hash h0 snap) rs) as [s2 q2] eqn:Et. inversion Ht; subst.
      destruct Hin as [Heq|Hin]; [inversion Heq; subst; auto|]. right. eapply IH; eauto.
    + right. eapply IH; eauto.
Qed.

Lemma proc_frame s c n h r fb :
  closed (proc current s c n h r fb) = closed s /\ confs (proc current s c n h r fb) = confs s /\
  sent (proc current s c n h r fb) = sent s /\
  (forall a, In a (answers (proc current s c n h r fb)) ->
     In a (answers s) \/ a = (c, h, r) \/ exists r', fb = Some r' /\ a = (c, h, r')).
Proof.
  unfold proc. cbn [fix_fallback current].
  assert (G : forall t o, frame t (notify t n h o)) by (intros; apply frame_notify).
  assert (A1 : forall a, In a (answers (add_answer s (c, h, r))) -> In a (answers s) \/ a = (c, h, r)).
  { cbn. intros a Ha. apply in_app_or in Ha. destruct Ha as [Ha|[<-|[]]]; auto. }
  destruct r; [| |destruct fb as [[st| | |]|]..];
    repeat match goal with |- context [notify ?t n h ?o] =>
      let F := fresh in destruct (G t o) as (?F1 & ?F2 & ?F3 & ?F4 & ?F5); rewrite ?F1, ?F2, ?F3, ?F5; clear G end;
    cbn [add_answer closed confs sent answers]; repeat split; intros a Ha;
    repeat (apply in_app_or in Ha; destruct Ha as [Ha|Ha]); auto;
    try (destruct Ha as [<-|[]]; auto); right; right; eexists; split; reflexivity.
Qed.

Lemma src_step evs s e : Inv s -> Src evs s -> Src (evs ++ [e]) (step current s e).
Proof.
  intros I S. unfold step. rewrite (i_nopanic _ I).
  assert (W : forall s', frame s s' -> Src (evs ++ [e]) s') by (intros; eapply src_weaken; eauto).
  destruct e as [h n|h|h n|blk nonce newtx| |rs| |fb|w| | |h n|b c newtx|gw].
  - destruct (src_weaken evs (Sent h n) s s S (frame_refl s)) as [A B C D E].
    constructor; cbn [closed confs answers chk sent]; auto.
    intros h0 H. apply in_app_or in H. destruct H as [H|[<-|[]]]; [exact (E h0 H)|].
    exists n. apply in_or_app. right. left. reflexivity.
  - cbn [fresh]. cbv zeta. cbn [pending]. destruct (lookup h (pending s)).
    + apply W. eapply frame_trans; [|apply frame_watch]. repeat split.
    + apply W. repeat split.
  - cbn [fresh]. cbv zeta. apply W. eapply frame_trans; [|apply frame_watch]. repeat split.
  - destruct (wl_exited s); [apply W, frame_refl|]. destruct blk as [b|]; [|apply W, frame_refl].
    destruct ((b <=? last_block s) && negb newtx); [apply W, frame_refl|]. destruct nonce as [c|]; [|apply W, frame_refl].
    destruct S as [A B C D E]. constructor; cbn [closed confs answers chk sent].
    + intro H. apply in_or_app. auto.
    + intros c0 Hc. apply in_app_or in Hc. destruct Hc as [Hc|[<-|[]]].
      * apply polled_app. exact (B c0 Hc).
      * exists b, newtx. left. apply in_or_app. right. left. reflexivity.
    + intros c0 h r H. destruct (C c0 h r H) as [(rs & H1 & H2)|H1].
      * left. exists rs. split; [apply in_or_app; auto|exact H2].
      * right. apply in_or_app. auto.
    + destruct (chk s); auto. intros n0 h0 r H. destruct (D n0 h0 r H) as (rs & H1 & H2). exists rs.
      split; [apply in_or_app; auto|exact H2].
    + intros h H. destruct (E h H) as (n & Hn). exists n. apply in_or_app. auto.
  - destruct (chk s) as [|c|c snap q] eqn:Ek; try (apply W, frame_refl).
    destruct (src_weaken evs CheckBegin s s S (frame_refl s)) as [A B C D E].
    constructor; cbn [set_chk closed confs answers chk sent]; auto.
    unfold finish. destruct (older c (wait s)); auto. intros ? ? ? [].
  - destruct (chk s) as [|c|c snap q] eqn:Ek; try (apply W, frame_refl).
    destruct q; [|apply W, frame_refl]. destruct (take_batch snap rs) as [snap' q] eqn:Et.
    destruct (src_weaken evs (BatchReply rs) s s S (frame_refl s)) as [A B C D E].
    constructor; cbn [set_chk closed confs answers chk sent]; auto.
    unfold finish. destruct snap'; destruct q; auto; intros n h r Hin; exists rs;
      (split; [apply in_or_app; right; left; reflexivity|eapply take_batch_src; eauto]).
  - destruct (chk s) as [|c|c snap q] eqn:Ek; try (apply W, frame_refl).
    destruct q; [|apply W, frame_refl].
    destruct (src_weaken evs BatchFail s s S (frame_refl s)) as [A B C D E].
    constructor; cbn [set_chk closed confs answers chk sent]; auto.
  - destruct (chk s) as [|c|c snap q] eqn:Ek; try (apply W, frame_refl).
    destruct q as [|[[n h] r] q]; [apply W, frame_refl|].
    destruct (proc_frame s c n h r fb) as (P1 & P2 & P3 & P4).
    destruct (src_weaken evs (Proc fb) s s S (frame_refl s)) as [A B C D E]. rewrite Ek in D.
    constructor; cbn [set_chk closed confs answers chk sent]; rewrite ?P1, ?P2, ?P3; auto.
    + intros c0 h0 r0 Hin. destruct (P4 _ Hin) as [H|[H|(r' & -> & H)]].
      * eauto.
      * inversion H; subst. left. apply (D n h r). left. reflexivity.
      * inversion H; subst. right. apply in_or_app. right. left. reflexivity.
    + unfold finish. destruct snap; destruct q; auto; intros n0 h0 r0 Hin; apply (D n0 h0 r0); right; exact Hin.
  - destruct (lookup w (internal s)) as [hh|]; [|apply W, frame_refl]. destruct (out_of w (delivered s)) as [o|]; [|apply W, frame_refl].
    destruct o; cbn [fix_pending current]; [apply W; repeat split| |apply W; repeat split].
    destruct (lookup hh (pending (set_internal s (remove_key w (internal s))))); apply W; repeat split.
  - destruct (src_weaken evs Close s s S (frame_refl s)) as [A B C D E].
    constructor; cbn [closed confs answers chk sent]; auto. intros _. apply in_or_app. right. left. reflexivity.
  - destruct (closed s && negb (wl_exited s)); [|apply W, frame_refl].
    destruct (frame_fold OClosed (map waiter_of (wait s)) s) as (F1 & F2 & F3 & F4 & F5).
    apply W. repeat split; cbn [closed confs answers chk sent]; assumption.
  - cbn [fresh]. cbv zeta. apply W. eapply frame_trans; [|apply frame_watch]. repeat split.
  - destruct (wl_exited s); [apply W, frame_refl|].
    destruct ((b <=? last_block s) && negb newtx); [apply W, frame_refl|].
    destruct (src_weaken evs (PollLost b c newtx) s s S (frame_refl s)) as [A B C D E].
    constructor; cbn [closed confs answers chk sent]; auto.
    intros c0 Hc. apply in_app_or in Hc. destruct Hc as [Hc|[<-|[]]]; [exact (B c0 Hc)|].
    exists b, newtx. right. apply in_or_app. right. left. reflexivity.
  - apply W, frame_refl.
Qed.

Lemma run_snoc v evs e : run v (evs ++ [e]) = step v (run v evs) e.
Proof. unfold run. rewrite fold_left_app. reflexivity. Qed.

Theorem src_run : forall evs, Src evs (run current evs).
Proof.
  intro evs. induction evs as [|e evs IH] using rev_ind.
  - constructor; cbn; try discriminate; try (intros; contradiction); auto.
  - rewrite run_snoc. apply src_step; [apply inv_run|exact IH].
Qed.

(* ------------------------------------------------------------------------------------ *)
(* ================= the property, over unbounded event histories ========================= *)

Theorem no_panic : forall evs, panicked (run current evs) = false.
Proof. intro evs. apply (i_nopanic _ (inv_run evs)). Qed.

Theorem at_most_one : forall evs, NoDup (map fst (delivered (run current evs))).
Proof. intro evs. pose proof (inv_run evs) as I. rewrite (i_deliv _ I). apply (i_nodupc _ I). Qed.

Lemma in_closedch_delivered s w : Inv s -> In w (closedch s) -> exists o, In (w, o) (delivered s).
Proof.
  intros I H. rewrite <- (i_deliv _ I) in H. apply in_map_iff in H. destruct H as ([w' o] & Heq & Hin).
  cbn in Heq. subst. eauto.
Qed.

Lemma in_delivered_closedch s w o : Inv s -> In (w, o) (delivered s) -> In w (closedch s).
Proof. intros I H. rewrite <- (i_deliv _ I). apply in_map_iff. exists (w, o). auto. Qed.

Lemma NoDup_fst_unique {A B} (l : list (A * B)) a b1 b2 :
  NoDup (map fst l) -> In (a, b1) l -> In (a, b2) l -> b1 = b2.
Proof.
  intros Hd H1 H2. assert (E : (a, b1) = (a, b2)).
  { apply (NoDup_map_inj fst l); auto. }
  inversion E. reflexivity.
Qed.

(* every registered waiter is either still registered, with an empty channel, or holds exactly
   one outcome and is no longer registered *)
Theorem one_outcome_or_waiting : forall evs w h n, let s := run current evs in
  In (w, h, n) (watchers s) ->
  (In (n, h, w) (wait s) /\ forall o, ~ In (w, o) (delivered s)) \/
  ((forall n' h', ~ In (n', h', w) (wait s)) /\
   exists o, In (w, o) (delivered s) /\ forall o', In (w, o') (delivered s) -> o' = o).
Proof.
  intros evs w h n s Hw. pose proof (inv_run evs) as I. fold s in I.
  destruct (i_watch_acc _ I _ _ _ Hw) as [Hin|Hc].
  - left. split; [exact Hin|]. intros o Ho. apply (i_open _ I _ Hin). cbn. eapply in_delivered_closedch; eauto.
  - right. split.
    + intros n' h' Hin. apply (i_open _ I _ Hin). exact Hc.
    + destruct (in_closedch_delivered s w I Hc) as (o & Ho). exists o. split; [exact Ho|].
      intros o' Ho'. eapply NoDup_fst_unique; [|exact Ho'|exact Ho]. rewrite (i_deliv _ I). apply (i_nodupc _ I).
Qed.

(* waiter identities are not reused: "its" transaction is well defined *)
Theorem waiter_tx_unique : forall evs w h n h' n', let s := run current evs in
  In (w, h, n) (watchers s) -> In (w, h', n') (watchers s) -> h = h' /\ n = n'.
Proof.
  intros evs w h n h' n' s H1 H2. pose proof (inv_run evs) as I. fold s in I.
  assert (E : (w, h, n) = (w, h', n')).
  { apply (NoDup_map_inj (fun e => fst (fst e)) (watchers s)); auto. apply (i_nodupwatch _ I). }
  inversion E. auto.
Qed.

Theorem truthful_receipt : forall evs w h st, In (w, OReceipt h st) (delivered (run current evs)) ->
  (exists n, In (w, h, n) (watchers (run current evs))) /\ from_node evs h (RReceipt st).
Proof.
  intros evs w h st H. destruct (i_receipt _ (inv_run evs) _ _ _ H) as (n & c & H1 & H2).
  split; [eauto|]. exact (s_answers _ _ (src_run evs) _ _ _ H2).
Qed.

Theorem truthful_cancel : forall evs w, In (w, OCancelled) (delivered (run current evs)) ->
  exists h n c r, In (w, h, n) (watchers (run current evs)) /\
    polled evs c /\ n < c /\
    from_node evs h r /\ no_receipt r = true.
Proof.
  intros evs w H. destruct (i_cancel _ (inv_run evs) _ H) as (h & n & c & r & H1 & H2 & H3 & H4 & H5).
  exists h, n, c, r. repeat split; auto.
  - exact (s_confs _ _ (src_run evs) _ H5).
  - exact (s_answers _ _ (src_run evs) _ _ _ H2).
Qed.

Theorem truthful_closed : forall evs w, In (w, OClosed) (delivered (run current evs)) -> In Close evs.
Proof. intros evs w H. apply (s_closed _ _ (src_run evs)). exact (i_closed _ (inv_run evs) _ H). Qed.

(* ---- resolution ---------------------------------------------------------------------------- *)
Lemma dedup_complete l a : In a l -> In a (dedup l).
Proof.
  induction l as [|[n h] l IH]; cbn; [tauto|]. intros [<-|H]; [auto|].
  destruct a as [n' h']. destruct ((n' =? n) && (h' =? h)) eqn:E.
  - apply andb_prop in E. destruct E as [E1 E2]. apply N.eqb_eq in E1, E2. subst. auto.
  - right. apply filter_In. split; [auto|]. cbn. rewrite E. reflexivity.
Qed.

Theorem snapshot_covers : forall s c n h w, panicked s = false -> chk s = Handed c ->
  In (n, h, w) (wait s) -> n < c ->
  exists snap, chk (step current s CheckBegin) = InFlight c snap [] /\ In (n, h) snap.
Proof.
  intros s c n h w Hp Hk Hin Hlt. unfold step. rewrite Hp, Hk. cbn [set_chk chk].
  assert (Ho : In (n, h) (older c (wait s))).
  { unfold older. apply dedup_complete. apply in_map_iff. exists (n, h, w). split; [reflexivity|].
    apply filter_In. split; [exact Hin|]. cbn. apply N.ltb_lt. exact Hlt. }
  unfold finish. destruct (older c (wait s)) as [|a l]; [destruct Ho|]. exists (a :: l). auto.
Qed.

Lemma key_is_true n h w : key_is n h (n, h, w) = true.
Proof. cbn. rewrite !N.eqb_refl. reflexivity. Qed.

Lemma notify_resolves s n h o : Inv s ->
  (forall w, In (n, h, w) (wait s) -> In (w, o) (delivered (notify s n h o))) /\
  (forall w, ~ In (n, h, w) (wait (notify s n h o))).
Proof.
  intro I. rewrite notify_eq by exact I. cbv zeta. cbn [with_wcd delivered wait]. split.
  - intros w Hin. apply in_or_app. right. apply in_map_iff. exists w. split; [reflexivity|].
    apply in_map_iff. exists (n, h, w). split; [reflexivity|]. apply filter_In. split; [exact Hin|apply key_is_true].
  - intros w Hin. apply filter_In in Hin. destruct Hin as [_ Hk]. rewrite key_is_true in Hk. discriminate.
Qed.

Theorem proc_resolves : forall s c snap n h r q fb o, Inv s ->
  chk s = InFlight c snap ((n, h, r) :: q) -> resolves h r fb = Some o ->
  let s' := step current s (Proc fb) in
  (forall w, In (n, h, w) (wait s) -> In (w, o) (delivered s')) /\ (forall w, ~ In (n, h, w) (wait s')).
Proof.
  intros s c snap n h r q fb o I Hk Hr s'. unfold s', step. rewrite (i_nopanic _ I), Hk.
  cbn [set_chk delivered wait]. unfold proc. cbn [fix_fallback current].
  pose proof (add_answer_inv s (c, h, r) I) as I1.
  destruct r; cbn in Hr.
  - inversion Hr; subst. apply (notify_resolves _ n h _ I1).
  - inversion Hr; subst. apply (notify_resolves _ n h _ I1).
  - destruct fb as [[st| | |]|]; inversion Hr; subst.
    + apply (notify_resolves _ n h _ (add_answer_inv _ _ I1)).
    + apply (notify_resolves _ n h _ (add_answer_inv _ _ I1)).
  - destruct fb as [[st| | |]|]; inversion Hr; subst.
    + apply (notify_resolves _ n h _ (add_answer_inv _ _ I1)).
    + apply (notify_resolves _ n h _ (add_answer_inv _ _ I1)).
Qed.

(* after the shutdown drain every waiter ever registered -- before or after it -- holds exactly
   one outcome, at every later point of the history *)
Theorem drained_all_answered : forall evs w h n, let s := run current evs in
  drained s = true -> In (w, h, n) (watchers s) ->
  exists o, In (w, o) (delivered s) /\ forall o', In (w, o') (delivered s) -> o' = o.
Proof.
  intros evs w h n s Hd Hw. destruct (one_outcome_or_waiting evs w h n Hw) as [[Hin _]|[_ H]]; [|exact H].
  fold s in Hin. destruct (i_drained _ (inv_run evs) Hd) as [Hwt _]. fold s in Hwt. rewrite Hwt in Hin. destruct Hin.
Qed.

Theorem drain_completes : forall evs, closed (run current evs) = true ->
  drained (run current (evs ++ [Drain])) = true /\ wait (run current (evs ++ [Drain])) = [].
Proof.
  intros evs Hc. pose proof (inv_run (evs ++ [Drain])) as I. rewrite run_snoc in *.
  set (s := run current evs) in *. pose proof (inv_run evs) as I0. fold s in I0.
  assert (Hd : drained (step current s Drain) = true).
  { unfold step. rewrite (i_nopanic _ I0), Hc. destruct (wl_exited s) eqn:Hex; cbn [andb negb].
    - exact (i_exdr _ I0 Hex).
    - reflexivity. }
  split; [exact Hd|]. exact (proj1 (i_drained _ I Hd)).
Qed.

Lemma drained_step s e : Inv s -> drained s = true -> drained (step current s e) = true.
Proof.
  intros I Hd. pose proof (step_inv s e I) as I'.
  destruct (i_drained _ I Hd) as [_ Hex]. apply (i_exdr _ I').
  (* wl_exited is never reset *)
  unfold step. rewrite (i_nopanic _ I).
  assert (Fs : forall t w o, wl_exited (send t w o) = wl_exited t).
  { intros. unfold send. destruct (memN w (closedch t)); reflexivity. }
  assert (Ff : forall o ws t, wl_exited (fold_left (fun s w => send s w o) ws t) = wl_exited t).
  { intros o ws. induction ws; cbn; intros; [reflexivity|]. rewrite IHws. apply Fs. }
  assert (Fn : forall t n h o, wl_exited (notify t n h o) = wl_exited t).
  { intros. unfold notify. cbv zeta. cbn [set_wait wl_exited]. apply Ff. }
  assert (Fw : forall t w h n, wl_exited (watch_tx current t w h n) = wl_exited t).
  { intros. unfold watch_tx. cbv zeta. cbn [drained]. destruct (fix_drain current && drained t); [rewrite Fs|]; reflexivity. }
  destruct e as [h n|h|h n|blk nonce newtx| |rs| |fb|w| | |h n|b c newtx|gw].
  - exact Hex.
  - cbn [fresh]. cbv zeta. cbn [pending]. destruct (lookup h (pending s)); [rewrite Fw|]; exact Hex.
  - cbn [fresh]. cbv zeta. rewrite Fw. exact Hex.
  - rewrite Hex. exact Hex.
  - destruct (chk s); exact Hex.
  - destruct (chk s) as [| |c snap q]; try exact Hex. destruct q; [|exact Hex]. destruct (take_batch snap rs). exact Hex.
  - destruct (chk s) as [| |c snap q]; try exact Hex. destruct q; exact Hex.
  - destruct (chk s) as [| |c snap q]; try exact Hex. destruct q as [|[[n h] r] q]; [exact Hex|].
    cbn [set_chk wl_exited]. unfold proc. cbn [fix_fallback current].
    destruct r; [| |destruct fb as [[]|]..]; rewrite ?Fn; exact Hex.
  - destruct (lookup w (internal s)) as [hh|]; [|exact Hex]. destruct (out_of w (delivered s)) as [o|]; [|exact Hex].
    destruct o; cbn [fix_pending current]; try exact Hex.
    destruct (lookup hh (pending (set_internal s (remove_key w (internal s))))); exact Hex.
  - exact Hex.
  - rewrite Hex. rewrite andb_false_r. exact Hex.
  - cbn [fresh]. cbv zeta. rewrite Fw. exact Hex.
  - rewrite Hex. exact Hex.
  - exact Hex.
Qed.

Theorem drained_forever : forall evs evs', drained (run current evs) = true ->
  drained (run current (evs ++ evs')) = true.
Proof.
  intros evs evs'. induction evs' as [|e evs' IH] using rev_ind; intro Hd.
  - rewrite app_nil_r. exact Hd.
  - rewrite app_assoc, run_snoc. apply drained_step; [apply inv_run|auto].
Qed.

(* a waiter that registers after the drain is answered "monitor closed" inside watchTx *)
Theorem late_waiter_closed : forall evs h n, drained (run current evs) = true ->
  let s' := run current (evs ++ [WatchRaw h n]) in
  In (next (run current evs), h, n) (watchers s') /\ In (next (run current evs), OClosed) (delivered s').
Proof.
  intros evs h n Hd s'. unfold s'. rewrite run_snoc. set (s := run current evs) in *.
  pose proof (inv_run evs) as I. fold s in I.
  unfold step. rewrite (i_nopanic _ I). cbn [fresh]. cbv zeta. unfold watch_tx. cbv zeta.
  cbn [drained fix_drain current andb]. rewrite Hd. rewrite send_ok.
  - cbn [with_wcd watchers delivered]. split; apply in_or_app; right; left; reflexivity.
  - cbn [closedch]. intro Hin. pose proof (i_ltc _ I _ Hin). lia.
Qed.

(* ---- the pending list ------------------------------------------------------------------------ *)
Theorem pending_sent : forall evs h n, In (h, n) (pending (run current evs)) -> exists n', In (Sent h n') evs.
Proof.
  intros evs h n H. apply (s_sent _ _ (src_run evs)). exact (i_pending _ (inv_run evs) _ _ H).
Qed.

Lemma remove_key_not h l n : ~ In (h, n) (remove_key h l).
Proof. unfold remove_key. intro H. apply filter_In in H. destruct H as [_ H]. cbn in H. rewrite N.eqb_refl in H. discriminate. Qed.

Lemma lookup_none h l : lookup h l = None -> ~ In h (map fst l).
Proof.
  induction l as [|[k v] l IH]; cbn; [tauto|]. destruct (k =? h) eqn:E; [discriminate|].
  intros Hl [Hk|Hin]; [subst; rewrite N.eqb_refl in E; discriminate|exact (IH Hl Hin)].
Qed.

Theorem pending_listed_sent : forall evs h, In h (pending_hashes (run current evs)) -> exists n, In (Sent h n) evs.
Proof.
  intros evs h H. unfold pending_hashes in H. apply filter_In in H. destruct H as [H _].
  apply in_map_iff in H. destruct H as ([h' n] & Heq & Hin). cbn in Heq. subst. eapply pending_sent; eauto.
Qed.

(* once the client's own waiter has consumed a receipt or a cancellation, the transaction is not listed *)
Theorem internal_run_clears : forall s w h o, panicked s = false ->
  lookup w (internal s) = Some h -> out_of w (delivered s) = Some o -> o <> OClosed ->
  ~ In h (pending_hashes (step current s (InternalRun w))).
Proof.
  intros s w h o Hp Hl Ho Hne. unfold step. rewrite Hp, Hl, Ho. unfold pending_hashes.
  destruct o; cbn [fix_pending current]; [| |congruence].
  - cbn [set_pending set_internal pending flagged]. intro H. apply filter_In in H. destruct H as [H _].
    apply in_map_iff in H. destruct H as ([h' n] & Heq & Hin). cbn in Heq. subst. exact (remove_key_not _ _ _ Hin).
  - cbn [set_internal pending]. destruct (lookup h (pending s)) eqn:El.
    + cbn [set_flagged set_internal pending flagged]. intro H. apply filter_In in H. destruct H as [_ H].
      cbn [memN existsb] in H. rewrite N.eqb_refl in H. discriminate.
    + cbn [set_internal pending flagged]. intro H. apply filter_In in H. destruct H as [H _].
      exact (lookup_none _ _ El H).
Qed.

(* a flagged (cancelled) entry keeps its nonce: a late WaitForReceipt still registers a waiter *)
Theorem late_watch_registers : forall s h n, panicked s = false -> drained s = false ->
  lookup h (pending s) = Some n ->
  In (n, h, next s) (wait (step current s (Watch h))).
Proof.
  intros s h n Hp Hd Hl. unfold step. rewrite Hp. cbn [fresh]. cbv zeta. cbn [pending]. rewrite Hl.
  unfold watch_tx. cbv zeta. cbn [drained fix_drain current andb]. rewrite Hd. cbn [set_wait wait].
  apply in_or_app. right. left. reflexivity.
Qed.

(* ---- the code before the three repairs ------------------------------------------------------- *)
Example no_panic_refuted :
  panicked (run v0_drain [Sent 1 0; InternalWatch 1 0; Poll (Some 1) (Some 1) true; CheckBegin; Close; Drain;
                          BatchReply [(1, RReceipt 1)]; Proc None]) = true.
Proof. vm_compute. reflexivity. Qed.

Example late_waiter_refuted :
  let s := run v0_drain [Close; Drain; WatchRaw 1 0] in
  In (0, 1, 0) (watchers s) /\ delivered s = [] /\ wl_exited s = true.
Proof. vm_compute. auto. Qed.

Example resolved_refuted :
  let s := run v0_fallback [Sent 1 0; InternalWatch 1 0; Poll (Some 1) (Some 1) true; CheckBegin;
                            BatchReply [(1, RNullOverWire)]; Proc (Some RNotFound)] in
  chk s = Idle /\ wait s = [(0, 1, 0)] /\ delivered s = [].
Proof. vm_compute. auto. Qed.

Example pending_refuted :
  let s := run v0_pending [Sent 1 0; InternalWatch 1 0; Poll (Some 1) (Some 1) true; CheckBegin;
                           BatchReply [(1, RNotFound)]; Proc None; InternalRun 0] in
  delivered s = [(0, OCancelled)] /\ internal s = [] /\ pending_hashes s = [1].
Proof. vm_compute. auto. Qed.

(* the same histories on the current code *)
Example no_panic_now :
  let s := run current [Sent 1 0; InternalWatch 1 0; Poll (Some 1) (Some 1) true; CheckBegin; Close; Drain;
                        BatchReply [(1, RReceipt 1)]; Proc None] in
  panicked s = false /\ delivered s = [(0, OClosed)].
Proof. vm_compute. auto. Qed.
Example resolved_now :
  let s := run current [Sent 1 0; InternalWatch 1 0; Poll (Some 1) (Some 1) true; CheckBegin;
                        BatchReply [(1, RNullOverWire)]; Proc (Some RNotFound)] in
  wait s = [] /\ delivered s = [(0, OCancelled)].
Proof. vm_compute. auto. Qed.
Example pending_now :
  let s := run current [Sent 1 0; InternalWatch 1 0; Poll (Some 1) (Some 1) true; CheckBegin;
                        BatchReply [(1, RNotFound)]; Proc None; InternalRun 0] in
  pending_hashes s = [] /\ pending s = [(1, 0)] /\ flagged s = [1].
Proof. vm_compute. auto. Qed.

(* ---- non-vacuity: histories that exercise every outcome kind ------------------------------ *)
Definition demo : list event :=
  [Sent 1 0; InternalWatch 1 0; Sent 2 1; InternalWatch 2 1; Sent 3 2; InternalWatch 3 2; Watch 1; WatchRaw 2 1; Watch 9;
   Poll (Some 5) (Some 2) false; CheckBegin; Watch 2;
   BatchReply [(2, RNullOverWire); (1, RReceipt 1)]; Proc (Some RNotFound); Proc None;
   InternalRun 0; InternalRun 1; Close; Watch 3; Drain; WatchRaw 3 2; InternalRun 2].
Example demo_delivered :
  delivered (run current demo) =
  [(1, OCancelled); (4, OCancelled); (6, OCancelled); (0, OReceipt 1 1); (3, OReceipt 1 1);
   (2, OClosed); (7, OClosed); (8, OClosed)] /\
  refused (run current demo) = [5] /\ pending_hashes (run current demo) = [3] /\ flagged (run current demo) = [2] /\
  drained (run current demo) = true.
Proof. vm_compute. auto. Qed.

(* ------------------------------------------------------------------------------------ *)
(* ---- facts about the current source text (gen/Generated.v is rewritten from /repo on every run):
   the model's [current] variant is the code that has all three repairs ------------------------ *)
Lemma src_batch_size : c09_batchSize = 64.
Proof. reflexivity. Qed.
(* waitForTxn tests the receipt's error, not the watch error (877a545) *)
Lemma src_wait_tests_receipt_err :
  c09_waitForTxn_errors_is = [[bos "receipt.Err"; bos "ErrTxnCancelled"]].
Proof. reflexivity. Qed.
(* check() asks for the receipt individually when a batch element fails (0a270d8) *)
Lemma src_check_has_fallback : c09_check_has_fallback = fix_fallback current.
Proof. reflexivity. Qed.
(* the three notify call sites of check(): fallback receipt, cancelled, batch receipt *)
Lemma src_check_notifies :
  map (fun a => nth 2 a []) c09_check_notify_calls =
  [bos "Result{receipt, nil}"; bos "Result{nil, ErrTxnCancelled}"; bos "Result{result.Result.(*types.Receipt), nil}"].
Proof. reflexivity. Qed.
(* the shutdown drain re-creates the wait map (49ec96f) *)
Lemma src_drain_resets_map : c09_drain_resets_map = fix_drain current.
Proof. reflexivity. Qed.

(* ==================== deepening: complete checks, persistence, liveness ==================== *)
Lemma chk_adv s c snap q e : Inv s -> chk s = InFlight c snap q -> chk (step current s e) = adv c snap q e.
Proof.
  intros I Hk. unfold step. rewrite (i_nopanic _ I).
  destruct e as [h n|h|h n|blk nonce newtx| |rs| |fb|w| | |h n|b c1 newtx|gw]; cbn [adv].
  - exact Hk.
  - cbn [fresh]. cbv zeta. cbn [pending]. destruct (lookup h (pending s)).
    + match goal with |- chk (watch_tx ?v ?t ?w ?h ?n) = _ => destruct (frame_watch v t w h n) as (_ & _ & _ & F & _); rewrite F end.
      exact Hk.
    + exact Hk.
  - cbn [fresh]. cbv zeta.
    match goal with |- chk (watch_tx ?v ?t ?w ?h ?n) = _ => destruct (frame_watch v t w h n) as (_ & _ & _ & F & _); rewrite F end.
    exact Hk.
  - destruct (wl_exited s); [exact Hk|]. destruct blk as [b|]; [|exact Hk].
    destruct ((b <=? last_block s) && negb newtx); [exact Hk|]. destruct nonce; [|exact Hk].
    cbn [chk]. rewrite Hk. reflexivity.
  - rewrite Hk. exact Hk.
  - rewrite Hk. destruct q; [|exact Hk]. destruct (take_batch snap rs). reflexivity.
  - rewrite Hk. destruct q; [reflexivity|exact Hk].
  - rewrite Hk. destruct q as [|[[n h] r] q]; [exact Hk|]. reflexivity.
  - destruct (lookup w (internal s)) as [hh|]; [|exact Hk]. destruct (out_of w (delivered s)) as [o|]; [|exact Hk].
    destruct o; cbn [fix_pending current]; try exact Hk.
    destruct (lookup hh (pending (set_internal s (remove_key w (internal s))))); exact Hk.
  - exact Hk.
  - destruct (closed s && negb (wl_exited s)); [|exact Hk]. cbn [chk].
    destruct (frame_fold OClosed (map waiter_of (wait s)) s) as (_ & _ & _ & F & _). rewrite F. exact Hk.
  - cbn [fresh]. cbv zeta.
    match goal with |- chk (watch_tx ?v ?t ?w ?h ?n) = _ => destruct (frame_watch v t w h n) as (_ & _ & _ & F & _); rewrite F end.
    exact Hk.
  - destruct (wl_exited s); [exact Hk|]. destruct ((b <=? last_block s) && negb newtx); exact Hk.
  - exact Hk.
Qed.

(* ---- outcomes, once delivered, stay -------------------------------------------------------- *)
Definition dext (s s' : mon) : Prop := exists l, delivered s' = delivered s ++ l.
Lemma dext_same s s' : delivered s' = delivered s -> dext s s'.
Proof. intro H. exists []. rewrite app_nil_r. exact H. Qed.
Lemma dext_refl s : dext s s. Proof. apply dext_same. reflexivity. Qed.
Lemma dext_trans a b c : dext a b -> dext b c -> dext a c.
Proof. intros [l1 H1] [l2 H2]. exists (l1 ++ l2). rewrite H2, H1, app_assoc. reflexivity. Qed.
Lemma dext_send s w o : dext s (send s w o).
Proof. unfold send. destruct (memN w (closedch s)); [apply dext_same; reflexivity|]. exists [(w, o)]. reflexivity. Qed.
Lemma dext_fold o : forall ws s, dext s (fold_left (fun s w => send s w o) ws s).
Proof. induction ws; cbn; intro s; [apply dext_refl|]. eapply dext_trans; [apply dext_send|apply IHws]. Qed.
Lemma dext_notify s n h o : dext s (notify s n h o).
Proof. unfold notify. cbv zeta. destruct (dext_fold o (map waiter_of (filter (key_is n h) (wait s))) s) as [l H]. exists l. exact H. Qed.
Lemma dext_watch v s w h n : dext s (watch_tx v s w h n).
Proof.
  unfold watch_tx. cbv zeta. cbn [drained]. destruct (fix_drain v && drained s).
  - eapply dext_trans; [|apply dext_send]. apply dext_same. reflexivity.
  - apply dext_same. reflexivity.
Qed.
Lemma dext_proc s c n h r fb : dext s (proc current s c n h r fb).
Proof.
  unfold proc. cbn [fix_fallback current].
  destruct r; [| |destruct fb as [[]|]..];
    try (eapply dext_trans; [|apply dext_notify]); apply dext_same; reflexivity.
Qed.

Lemma dext_step s e : dext s (step current s e).
Proof.
  unfold step. destruct (panicked s); [apply dext_same; reflexivity|].
  destruct e as [h n|h|h n|blk nonce newtx| |rs| |fb|w| | |h n|b c1 newtx|gw].
  - apply dext_same; reflexivity.
  - cbn [fresh]. cbv zeta. cbn [pending]. destruct (lookup h (pending s)).
    + eapply dext_trans; [|apply dext_watch]. apply dext_same; reflexivity.
    + apply dext_same; reflexivity.
  - cbn [fresh]. cbv zeta. eapply dext_trans; [|apply dext_watch]. apply dext_same; reflexivity.
  - destruct (wl_exited s); [apply dext_same; reflexivity|]. destruct blk as [b|]; [|apply dext_same; reflexivity].
    destruct ((b <=? last_block s) && negb newtx); [apply dext_same; reflexivity|]. destruct nonce; apply dext_same; reflexivity.
  - destruct (chk s); apply dext_same; reflexivity.
  - destruct (chk s) as [| |c snap q]; try (apply dext_same; reflexivity). destruct q; [|apply dext_same; reflexivity].
    destruct (take_batch snap rs). apply dext_same; reflexivity.
  - destruct (chk s) as [| |c snap q]; try (apply dext_same; reflexivity). destruct q; apply dext_same; reflexivity.
  - destruct (chk s) as [| |c snap q]; try (apply dext_same; reflexivity). destruct q as [|[[n h] r] q]; [apply dext_same; reflexivity|].
    destruct (dext_proc s c n h r fb) as [l H]. exists l. exact H.
  - destruct (lookup w (internal s)) as [hh|]; [|apply dext_same; reflexivity]. destruct (out_of w (delivered s)) as [o|]; [|apply dext_same; reflexivity].
    destruct o; cbn [fix_pending current]; try (apply dext_same; reflexivity).
    destruct (lookup hh (pending (set_internal s (remove_key w (internal s))))); apply dext_same; reflexivity.
  - apply dext_same; reflexivity.
  - destruct (closed s && negb (wl_exited s)); [|apply dext_same; reflexivity].
    destruct (dext_fold OClosed (map waiter_of (wait s)) s) as [l H]. exists l. exact H.
  - cbn [fresh]. cbv zeta. eapply dext_trans; [|apply dext_watch]. apply dext_same; reflexivity.
  - destruct (wl_exited s); [apply dext_same; reflexivity|].
    destruct ((b <=? last_block s) && negb newtx); apply dext_same; reflexivity.
  - apply dext_same; reflexivity.
Qed.

Lemma dext_run_from : forall evs s, dext s (run_from current s evs).
Proof.
  induction evs as [|e evs IH]; cbn; intro s; [apply dext_refl|].
  eapply dext_trans; [apply dext_step|apply IH].
Qed.

Theorem delivered_stays : forall evs evs' w o,
  In (w, o) (delivered (run current evs)) -> In (w, o) (delivered (run current (evs ++ evs'))).
Proof.
  intros evs evs' w o H. unfold run. rewrite fold_left_app.
  destruct (dext_run_from evs' (fold_left (step current) evs init)) as [l Hl]. unfold run_from in Hl.
  rewrite Hl. apply in_or_app. left. exact H.
Qed.

Lemma inv_run_from : forall evs s, Inv s -> Inv (run_from current s evs).
Proof. induction evs as [|e evs IH]; cbn; intros s I; [exact I|]. apply IH, step_inv, I. Qed.

Lemma wait_send s w o : wait (send s w o) = wait s.
Proof. unfold send. destruct (memN w (closedch s)); reflexivity. Qed.
Lemma wait_fold o : forall ws s, wait (fold_left (fun s w => send s w o) ws s) = wait s.
Proof. induction ws; cbn; intro s; [reflexivity|]. rewrite IHws. apply wait_send. Qed.
Lemma wait_notify s n h o : wait (notify s n h o) = filter (fun e => negb (key_is n h e)) (wait s).
Proof. unfold notify. cbv zeta. cbn [set_wait wait]. rewrite wait_fold. reflexivity. Qed.
Lemma wait_watch v s w h n e : In e (wait s) -> In e (wait (watch_tx v s w h n)).
Proof.
  intro H. unfold watch_tx. cbv zeta. cbn [drained]. destruct (fix_drain v && drained s).
  - rewrite wait_send. exact H.
  - cbn [set_wait wait]. apply in_or_app. left. exact H.
Qed.

Lemma key_other n h n' h' w : (n' =? n) && (h' =? h) = false -> negb (key_is n' h' (n, h, w)) = true.
Proof.
  intro H. cbn. destruct (n =? n') eqn:E1; destruct (h =? h') eqn:E2; try reflexivity.
  apply N.eqb_eq in E1, E2. subst. rewrite !N.eqb_refl in H. discriminate.
Qed.

Lemma wait_proc s c n h w n' h' r fb : In (n, h, w) (wait s) -> (n' =? n) && (h' =? h) = false ->
  In (n, h, w) (wait (proc current s c n' h' r fb)).
Proof.
  intros Hin Hk. unfold proc. cbn [fix_fallback current].
  assert (N1 : forall t o, In (n, h, w) (wait t) -> In (n, h, w) (wait (notify t n' h' o))).
  { intros t o Ht. rewrite wait_notify. apply filter_In. split; [exact Ht|apply key_other, Hk]. }
  destruct r; [| |destruct fb as [[]|]..]; try (apply N1); exact Hin.
Qed.

(* a registered waiter stays registered unless its own element is processed or the drain runs *)
Lemma wait_step s c snap q e n h w : Inv s -> chk s = InFlight c snap q -> In (n, h, w) (wait s) ->
  is_proc e && head_is n h q = false ->
  In (n, h, w) (wait (step current s e)) \/ (e = Drain /\ In (w, OClosed) (delivered (step current s e))).
Proof.
  intros I Hk Hin Hh. unfold step. rewrite (i_nopanic _ I).
  destruct e as [h0 n0|h0|h0 n0|blk nonce newtx| |rs| |fb|w0| | |h0 n0|b c1 newtx|gw].
  - left. exact Hin.
  - left. cbn [fresh]. cbv zeta. cbn [pending]. destruct (lookup h0 (pending s)); [apply wait_watch|]; exact Hin.
  - left. cbn [fresh]. cbv zeta. apply wait_watch. exact Hin.
  - left. destruct (wl_exited s); [exact Hin|]. destruct blk as [b|]; [|exact Hin].
    destruct ((b <=? last_block s) && negb newtx); [exact Hin|]. destruct nonce; exact Hin.
  - left. destruct (chk s); exact Hin.
  - left. destruct (chk s) as [| |c0 snap0 q0]; try exact Hin. destruct q0; [|exact Hin].
    destruct (take_batch snap0 rs). exact Hin.
  - left. destruct (chk s) as [| |c0 snap0 q0]; try exact Hin. destruct q0; exact Hin.
  - left. rewrite Hk. destruct q as [|[[n' h'] r] q]; [exact Hin|]. cbn [set_chk wait].
    apply wait_proc; [exact Hin|]. cbn in Hh. exact Hh.
  - left. destruct (lookup w0 (internal s)) as [hh|]; [|exact Hin]. destruct (out_of w0 (delivered s)) as [o|]; [|exact Hin].
    destruct o; cbn [fix_pending current]; try exact Hin.
    destruct (lookup hh (pending (set_internal s (remove_key w0 (internal s))))); exact Hin.
  - left. exact Hin.
  - destruct (closed s && negb (wl_exited s)); [|left; exact Hin]. right. split; [reflexivity|].
    rewrite send_fold.
    + cbn [with_wcd delivered]. apply in_or_app. right. apply in_map_iff. exists w. split; [reflexivity|].
      apply in_map_iff. exists (n, h, w). split; [reflexivity|exact Hin].
    + intros w1 Hw. apply in_map_iff in Hw. destruct Hw as (e & <- & He). exact (i_open _ I e He).
    + exact (i_nodupw _ I).
  - left. cbn [fresh]. cbv zeta. apply wait_watch. exact Hin.
  - left. destruct (wl_exited s); [exact Hin|]. destruct ((b <=? last_block s) && negb newtx); exact Hin.
  - left. exact Hin.
Qed.

Lemma in_delivered_run_from evs s w o : In (w, o) (delivered s) -> In (w, o) (delivered (run_from current s evs)).
Proof. intro H. destruct (dext_run_from evs s) as [l Hl]. rewrite Hl. apply in_or_app. left. exact H. Qed.

(* the check follows [drive]; the waiter stays registered, or a drain inside [mid] answered it *)
Lemma drive_run n h w c : forall mid s snap q snap' q',
  Inv s -> chk s = InFlight c snap q -> In (n, h, w) (wait s) ->
  drive n h c snap q mid = Some (snap', q') ->
  let s2 := run_from current s mid in
  chk s2 = InFlight c snap' q' /\
  (In (n, h, w) (wait s2) \/ (In Drain mid /\ In (w, OClosed) (delivered s2))).
Proof.
  induction mid as [|e mid IH]; intros s snap q snap' q' I Hk Hin Hd; cbn [drive] in Hd; cbn [run_from fold_left].
  - inversion Hd; subst. split; [exact Hk|left; exact Hin].
  - destruct (is_proc e && head_is n h q) eqn:Hh; [discriminate|].
    pose proof (chk_adv s c snap q e I Hk) as Ha.
    destruct (adv c snap q e) as [| |c1 snap1 q1] eqn:Ea; try discriminate.
    assert (c1 = c).
    { destruct e; cbn in Ea; try (inversion Ea; reflexivity).
      - destruct q; [|inversion Ea; reflexivity]. destruct (take_batch snap rs) as [a b]. unfold finish in Ea.
        destruct a; destruct b; inversion Ea; reflexivity.
      - destruct q; inversion Ea; reflexivity.
      - destruct q; [inversion Ea; reflexivity|]. unfold finish in Ea. destruct snap; destruct q; inversion Ea; reflexivity. }
    subst c1.
    pose proof (step_inv s e I) as I1.
    destruct (wait_step s c snap q e n h w I Hk Hin Hh) as [Hin1|[-> Hcl]].
    + destruct (IH (step current s e) snap1 q1 snap' q' I1 Ha Hin1 Hd) as [K1 K2]. split; [exact K1|].
      destruct K2 as [K2|[K2 K3]]; [left; exact K2|right; split; [right; exact K2|exact K3]].
    + (* the drain answered the waiter; the check goes on *)
      assert (G : forall mid' t sn qn, Inv t -> chk t = InFlight c sn qn -> drive n h c sn qn mid' = Some (snap', q') ->
                   chk (run_from current t mid') = InFlight c snap' q').
      { clear. induction mid' as [|e mid' IH']; intros t sn qn It Hkt Hdt; cbn [drive] in Hdt; cbn [run_from fold_left].
        - inversion Hdt; subst. exact Hkt.
        - destruct (is_proc e && head_is n h qn); [discriminate|].
          pose proof (chk_adv t c sn qn e It Hkt) as Ha.
          destruct (adv c sn qn e) as [| |c1 sn1 qn1] eqn:Ea; try discriminate.
          assert (c1 = c).
          { destruct e; cbn in Ea; try (inversion Ea; reflexivity).
            - destruct qn; [|inversion Ea; reflexivity]. destruct (take_batch sn rs) as [a b]. unfold finish in Ea.
              destruct a; destruct b; inversion Ea; reflexivity.
            - destruct qn; inversion Ea; reflexivity.
            - destruct qn; [inversion Ea; reflexivity|]. unfold finish in Ea. destruct sn; destruct qn; inversion Ea; reflexivity. }
          subst c1. exact (IH' _ _ _ (step_inv t e It) Ha Hdt). }
      split; [exact (G mid _ _ _ I1 Ha Hd)|]. right. split; [left; reflexivity|].
      apply in_delivered_run_from. exact Hcl.
Qed.

(* THE composition: a complete check resolves every waiter registered before its snapshot *)
Theorem complete_check_resolves : forall pre mid fb post c n h w r o,
  let s0 := run current pre in
  chk s0 = Handed c -> In (n, h, w) (wait s0) -> n < c ->
  complete_check n h c (older c (wait s0)) mid r ->
  resolves h r fb = Some o ->
  let s' := run current (pre ++ CheckBegin :: mid ++ Proc fb :: post) in
  exists o', In (w, o') (delivered s') /\ (forall o'', In (w, o'') (delivered s') -> o'' = o') /\
             (o' = o \/ (In Drain mid /\ o' = OClosed)).
Proof.
  intros pre mid fb post c n h w r o s0 Hk Hin Hlt (snap' & q' & Hd) Hr s'.
  pose proof (inv_run pre) as I0. fold s0 in I0.
  destruct (snapshot_covers s0 c n h w (i_nopanic _ I0) Hk Hin Hlt) as (snap & Hk1 & Hsn).
  set (s1 := step current s0 CheckBegin) in *.
  assert (Hsnap : snap = older c (wait s0)).
  { unfold s1, step in Hk1. rewrite (i_nopanic _ I0), Hk in Hk1. cbn [set_chk chk] in Hk1. unfold finish in Hk1.
    destruct (older c (wait s0)); [discriminate|]. inversion Hk1. reflexivity. }
  assert (Hw1 : wait s1 = wait s0).
  { unfold s1, step. rewrite (i_nopanic _ I0), Hk. reflexivity. }
  pose proof (step_inv s0 CheckBegin I0) as I1. fold s1 in I1.
  rewrite <- Hsnap in Hd.
  assert (Hin1 : In (n, h, w) (wait s1)) by (rewrite Hw1; exact Hin).
  destruct (drive_run n h w c mid s1 snap [] snap' ((n, h, r) :: q') I1 Hk1 Hin1 Hd) as [K1 K2].
  set (s2 := run_from current s1 mid) in *.
  pose proof (inv_run_from mid s1 I1) as I2. fold s2 in I2.
  assert (Es' : s' = run_from current (step current s2 (Proc fb)) post).
  { unfold s', s2, s1, s0, run, run_from. rewrite fold_left_app. cbn [fold_left]. rewrite fold_left_app. reflexivity. }
  assert (U : forall o1 o2, In (w, o1) (delivered s') -> In (w, o2) (delivered s') -> o1 = o2).
  { intros o1 o2 H1 H2. eapply NoDup_fst_unique; [|exact H1|exact H2]. apply at_most_one. }
  destruct K2 as [K2|[K2 K3]].
  - destruct (proc_resolves s2 c snap' n h r q' fb o I2 K1 Hr) as [P1 _]. specialize (P1 w K2).
    exists o. split; [rewrite Es'; apply in_delivered_run_from; exact P1|]. split; [|left; reflexivity].
    intros o'' H. apply (U o'' o); [exact H|]. rewrite Es'. apply in_delivered_run_from. exact P1.
  - assert (P : In (w, OClosed) (delivered s')).
    { rewrite Es'. apply in_delivered_run_from. destruct (dext_step s2 (Proc fb)) as [l Hl]. rewrite Hl. apply in_or_app. left. exact K3. }
    exists OClosed. split; [exact P|]. split; [|right; split; [exact K2|reflexivity]].
    intros o'' H. apply (U o'' OClosed); [exact H|exact P].
Qed.

(* non-vacuity of [complete_check]: two transactions, batches of one, a new waiter and a send in
   between; transaction 2 (nonce 1) is answered "null" in the batch and NotFound individually *)
Example complete_check_demo :
  let pre := [Sent 1 0; InternalWatch 1 0; Sent 2 1; InternalWatch 2 1; WatchRaw 2 1; Poll (Some 7) (Some 2) false] in
  let mid := [BatchReply [(1, RReceipt 1)]; Watch 2; Proc None; Sent 3 2; InternalWatch 3 2; BatchReply [(2, RNullOverWire)]] in
  chk (run current pre) = Handed 2 /\ In (1, 2, 2) (wait (run current pre)) /\
  complete_check 1 2 2 (older 2 (wait (run current pre))) mid RNullOverWire /\
  resolves 2 RNullOverWire (Some RNotFound) = Some OCancelled /\
  outcomes_of (run current (pre ++ CheckBegin :: mid ++ [Proc (Some RNotFound)])) 2 = [OCancelled].
Proof. vm_compute. repeat split; auto. eexists. eexists. reflexivity. Qed.

(* ---- what drives a check: liveness is tied to chain progress ------------------------------- *)

(* a poll that sees no new block and did not receive the new-transaction signal does nothing *)
Theorem poll_without_news_is_noop : forall s b c, b <= last_block s ->
  step current s (Poll (Some b) c false) = s.
Proof.
  intros s b c Hb. unfold step. destruct (panicked s); [reflexivity|]. destruct (wl_exited s); [reflexivity|].
  assert (E : (b <=? last_block s) = true) by (apply N.leb_le; exact Hb). rewrite E. reflexivity.
Qed.

Definition stale_poll (lb : N) (e : event) : Prop := exists b c, e = Poll (Some b) c false /\ b <= lb.

(* hence no number of such polls resolves anybody: without a new block (or a received signal)
   the state does not move at all *)
Theorem stalled_without_new_block : forall evs polls,
  Forall (stale_poll (last_block (run current evs))) polls ->
  run current (evs ++ polls) = run current evs.
Proof.
  intros evs polls H. unfold run. rewrite fold_left_app. fold (run current evs).
  induction H as [|e polls (b & c & -> & Hb) _ IH]; [reflexivity|].
  cbn [fold_left]. rewrite poll_without_news_is_noop by exact Hb. exact IH.
Qed.

(* "eventually resolved" without chain progress is false: the waiter registers after the poll
   of block 5 (its signal to the busy watch loop is lost), the chain already has its receipt and
   the confirmed nonce has passed, yet k further polls of block 5 leave it waiting; the poll of
   block 6 resolves it *)
Example resolution_without_new_block_refuted : forall k,
  let pre := [Poll (Some 5) (Some 1) false; CheckBegin; Sent 1 0; InternalWatch 1 0; WatchRaw 1 0] in
  let s := run current (pre ++ repeat (Poll (Some 5) (Some 1) false) k) in
  wait s = [(0, 1, 0); (0, 1, 1)] /\ delivered s = [] /\ chk s = Idle /\
  delivered (run current ((pre ++ repeat (Poll (Some 5) (Some 1) false) k) ++
                          [Poll (Some 6) (Some 1) false; CheckBegin; BatchReply [(1, RReceipt 1)]; Proc None]))
  = [(0, OReceipt 1 1); (1, OReceipt 1 1)].
Proof.
  intros k pre s.
  assert (E : run current (pre ++ repeat (Poll (Some 5) (Some 1) false) k) = run current pre).
  { apply stalled_without_new_block. apply Forall_forall. intros e He. apply repeat_spec in He. subst e.
    exists 5, (Some 1). split; [reflexivity|]. vm_compute. discriminate. }
  unfold s. rewrite E. repeat split; try (vm_compute; reflexivity).
  unfold run. rewrite fold_left_app. fold (run current (pre ++ repeat (Poll (Some 5) (Some 1) false) k)).
  rewrite E. vm_compute. reflexivity.
Qed.

(* what IS guaranteed: the first poll that sees a new block while the checker is idle hands the
   check over (its snapshot then covers every waiter below the confirmed nonce:
   snapshot_covers, complete_check_resolves) *)
Theorem new_block_starts_check : forall s b c nt, panicked s = false -> wl_exited s = false ->
  chk s = Idle -> last_block s < b ->
  let s' := step current s (Poll (Some b) (Some c) nt) in
  chk s' = Handed c /\ wait s' = wait s /\ last_block s' = b.
Proof.
  intros s b c nt Hp Hx Hk Hb s'. unfold s', step. rewrite Hp, Hx.
  assert (E : (b <=? last_block s) = false) by (apply N.leb_gt; exact Hb). rewrite E. cbn [andb].
  cbn [chk wait last_block]. rewrite Hk. auto.
Qed.

(* ... whereas a new block polled while a check is still in flight is consumed without a check:
   the hand-off is dropped (select/default) and lastBlock advances all the same *)
Theorem new_block_during_check_dropped : forall s b c nt c0 snap q, panicked s = false -> wl_exited s = false ->
  chk s = InFlight c0 snap q -> last_block s < b ->
  let s' := step current s (Poll (Some b) (Some c) nt) in
  chk s' = InFlight c0 snap q /\ last_block s' = b.
Proof.
  intros s b c nt c0 snap q Hp Hx Hk Hb s'. unfold s', step. rewrite Hp, Hx.
  assert (E : (b <=? last_block s) = false) by (apply N.leb_gt; exact Hb). rewrite E. cbn [andb].
  cbn [chk last_block]. rewrite Hk. auto.
Qed.

(* ==================== audit round: strong provenance, refusals, lost hand-over, pending ==================== *)
Lemma notify_new s n h o w o' : Inv s -> In (w, o') (delivered (notify s n h o)) -> ~ In (w, o') (delivered s) ->
  o' = o /\ In (n, h, w) (wait s).
Proof.
  intros I H Hn. rewrite notify_eq in H by exact I. cbv zeta in H. cbn [with_wcd delivered] in H.
  apply in_app_or in H. destruct H as [H|H]; [contradiction|].
  apply in_map_iff in H. destruct H as (w1 & Heq & Hw). inversion Heq; subst. split; [reflexivity|].
  apply in_map_iff in Hw. destruct Hw as ([[n1 h1] w1] & Hq & Hin). cbn in Hq. subst w1.
  apply filter_In in Hin. destruct Hin as [Hin Hk]. apply key_is_spec in Hk. destruct Hk as [-> ->]. exact Hin.
Qed.

Lemma watch_new s w0 h n w o : (forall x, In x (closedch s) -> x < w0) ->
  In (w, o) (delivered (watch_tx current s w0 h n)) -> ~ In (w, o) (delivered s) ->
  drained s = true /\ w = w0 /\ o = OClosed.
Proof.
  intros Hc H Hn. unfold watch_tx in H. cbv zeta in H. cbn [drained fix_drain current andb] in H.
  destruct (drained s) eqn:Hd.
  - rewrite send_ok in H.
    + cbn [with_wcd delivered] in H. apply in_app_or in H. destruct H as [H|[H|[]]]; [contradiction|].
      inversion H; subst. auto.
    + cbn [closedch]. intro Hin. specialize (Hc _ Hin). lia.
  - cbn [set_wait delivered] in H. contradiction.
Qed.

Lemma step_delivers s e w o : Inv s ->
  In (w, o) (delivered (step current s e)) -> ~ In (w, o) (delivered s) -> cause s e w o.
Proof.
  intros I H Hn. unfold step in H. rewrite (i_nopanic _ I) in H.
  assert (Hlt : forall x, In x (closedch s) -> x < next s) by exact (i_ltc _ I).
  assert (Hcl : drained s = true -> closed s = true).
  { intro Hd. apply (i_exited _ I). exact (proj2 (i_drained _ I Hd)). }
  destruct e as [h n|h|h n|blk nonce newtx| |rs| |fb|w0| | |h n|b c1 newtx|gw].
  - contradiction.
  - cbn [fresh] in H. cbv zeta in H. cbn [pending] in H. destruct (lookup h (pending s)) as [n|]; [|contradiction].
    match type of H with In _ (delivered (watch_tx _ ?t ?w1 ?h1 ?n1)) => destruct (watch_new t w1 h1 n1 w o Hlt H Hn) as (Hd & -> & ->) end. cbn [drained] in Hd.
    right. repeat split; auto. exists h, 0. auto.
  - cbn [fresh] in H. cbv zeta in H. match type of H with In _ (delivered (watch_tx _ ?t ?w1 ?h1 ?n1)) => destruct (watch_new t w1 h1 n1 w o Hlt H Hn) as (Hd & -> & ->) end. cbn [drained] in Hd.
    right. repeat split; auto. exists h, n. auto.
  - destruct (wl_exited s); [contradiction|]. destruct blk; [|contradiction].
    destruct ((n <=? last_block s) && negb newtx); [contradiction|]. destruct nonce; contradiction.
  - destruct (chk s); contradiction.
  - destruct (chk s) as [| |c snap q]; try contradiction. destruct q; [|contradiction].
    destruct (take_batch snap rs). contradiction.
  - destruct (chk s) as [| |c snap q]; try contradiction. destruct q; contradiction.
  - destruct (chk s) as [| |c snap q] eqn:Hk; try contradiction. destruct q as [|[[n h] r] q]; [contradiction|].
    cbn [set_chk delivered] in H. unfold proc in H. cbn [fix_fallback current] in H.
    pose proof (i_chk _ I) as Hc. unfold chk_ok in Hc. rewrite Hk in Hc. destruct Hc as (_ & _ & Hq).
    assert (Hnc : n < c) by (apply (Hq n h r); left; reflexivity).
    pose proof (add_answer_inv s (c, h, r) I) as I1.
    assert (K : forall t o1, Inv t -> delivered t = delivered s -> wait t = wait s ->
                 In (w, o) (delivered (notify t n h o1)) -> resolves h r fb = Some o1 -> cause s (Proc fb) w o).
    { intros t o1 It Hdt Hwt Hin Hr. destruct (notify_new t n h o1 w o It Hin) as [-> Hw]; [rewrite Hdt; exact Hn|].
      rewrite Hwt in Hw.
      assert (C : exists fb0 c0 snap0 n0 h0 r0 q0, Proc fb = Proc fb0 /\ chk s = InFlight c0 snap0 ((n0, h0, r0) :: q0) /\
                    In (n0, h0, w) (wait s) /\ In (w, h0, n0) (watchers s) /\ n0 < c0 /\ resolves h0 r0 fb0 = Some o1).
      { exists fb, c, snap, n, h, r, q. repeat split; auto. exact (i_wait_watch _ I _ _ _ Hw). }
      destruct o1; cbn [cause]; try exact C. exfalso. clear - Hr. unfold resolves in Hr. destruct r; try (destruct fb as [[]|]); discriminate. }
    destruct r.
    + eapply K; [exact I1|reflexivity|reflexivity|exact H|reflexivity].
    + eapply K; [exact I1|reflexivity|reflexivity|exact H|reflexivity].
    + destruct fb as [[st| | |]|]; try contradiction.
      * eapply K; [apply add_answer_inv; exact I1|reflexivity|reflexivity|exact H|reflexivity].
      * eapply K; [apply add_answer_inv; exact I1|reflexivity|reflexivity|exact H|reflexivity].
    + destruct fb as [[st| | |]|]; try contradiction.
      * eapply K; [apply add_answer_inv; exact I1|reflexivity|reflexivity|exact H|reflexivity].
      * eapply K; [apply add_answer_inv; exact I1|reflexivity|reflexivity|exact H|reflexivity].
  - destruct (lookup w0 (internal s)) as [hh|]; [|contradiction]. destruct (out_of w0 (delivered s)) as [o1|]; [|contradiction].
    destruct o1; cbn [fix_pending current] in H; try contradiction.
    destruct (lookup hh (pending (set_internal s (remove_key w0 (internal s))))); contradiction.
  - contradiction.
  - destruct (closed s) eqn:Hc; [|contradiction]. destruct (wl_exited s); [contradiction|]. cbn [andb negb] in H.
    rewrite send_fold in H.
    + cbn [with_wcd delivered] in H. apply in_app_or in H. destruct H as [H|H]; [contradiction|].
      apply in_map_iff in H. destruct H as (w1 & Heq & Hw). inversion Heq; subst.
      apply in_map_iff in Hw. destruct Hw as ([[n1 h1] w1] & Hq & Hin). cbn in Hq. subst w1.
      left. repeat split; auto. exists n1, h1. exact Hin.
    + intros w1 Hw. apply in_map_iff in Hw. destruct Hw as (e & <- & He). exact (i_open _ I e He).
    + exact (i_nodupw _ I).
  - cbn [fresh] in H. cbv zeta in H. match type of H with In _ (delivered (watch_tx _ ?t ?w1 ?h1 ?n1)) => destruct (watch_new t w1 h1 n1 w o Hlt H Hn) as (Hd & -> & ->) end. cbn [drained] in Hd.
    right. repeat split; auto. exists h, n. auto.
  - destruct (wl_exited s); [contradiction|]. destruct ((b <=? last_block s) && negb newtx); contradiction.
  - contradiction.
Qed.

Lemma poll_src_app evs e c : poll_src evs c -> poll_src (evs ++ [e]) c.
Proof. intros (pre & b & nt & post & -> & H1 & H2). exists pre, b, nt, (post ++ [e]). rewrite <- app_assoc. auto. Qed.
Lemma batch_src_app evs e c n h r : batch_src evs c n h r -> batch_src (evs ++ [e]) c n h r.
Proof. intros (pre & rs & post & snap & -> & H1 & H2 & H3). exists pre, rs, (post ++ [e]), snap. rewrite <- app_assoc. auto. Qed.

Definition chk_src (evs : list event) (k : checker) : Prop :=
  match k with
  | Idle => True
  | Handed c => poll_src evs c
  | InFlight c snap q => poll_src evs c /\ forall n h r, In (n, h, r) q -> batch_src evs c n h r
  end.

Ltac fw := match goal with |- context [chk (watch_tx ?v ?t ?w ?h ?n)] =>
             let F := fresh "F" in destruct (frame_watch v t w h n) as (_ & _ & _ & F & _); rewrite F; clear F end.

Lemma chk_not_inflight s e : Inv s -> (chk s = Idle \/ exists c, chk s = Handed c) ->
  chk (step current s e) = chk s \/
  (chk s = Idle /\ exists b c nt, e = Poll (Some b) (Some c) nt /\ chk (step current s e) = Handed c) \/
  (exists c, chk s = Handed c /\ e = CheckBegin /\ chk (step current s e) = finish c (older c (wait s)) []).
Proof.
  intros I Hk. unfold step. rewrite (i_nopanic _ I).
  destruct e as [h n|h|h n|blk nonce newtx| |rs| |fb|w| | |h n|b c1 newtx|gw].
  - left. reflexivity.
  - left. cbn [fresh]. cbv zeta. cbn [pending]. destruct (lookup h (pending s)); [fw|]; reflexivity.
  - left. cbn [fresh]. cbv zeta. fw. reflexivity.
  - destruct (wl_exited s); [left; reflexivity|]. destruct blk as [b|]; [|left; reflexivity].
    destruct ((b <=? last_block s) && negb newtx); [left; reflexivity|]. destruct nonce as [c|]; [|left; reflexivity].
    cbn [chk]. destruct Hk as [Hk|[c0 Hk]]; rewrite Hk.
    + right. left. split; [reflexivity|]. exists b, c, newtx. auto.
    + left. reflexivity.
  - destruct Hk as [Hk|[c0 Hk]]; rewrite Hk.
    + left. cbn. exact Hk.
    + right. right. exists c0. auto.
  - left. destruct Hk as [Hk|[c0 Hk]]; rewrite Hk; cbn; exact Hk.
  - left. destruct Hk as [Hk|[c0 Hk]]; rewrite Hk; cbn; exact Hk.
  - left. destruct Hk as [Hk|[c0 Hk]]; rewrite Hk; cbn; exact Hk.
  - left. destruct (lookup w (internal s)) as [hh|]; [|reflexivity]. destruct (out_of w (delivered s)) as [o|]; [|reflexivity].
    destruct o; cbn [fix_pending current]; try reflexivity.
    destruct (lookup hh (pending (set_internal s (remove_key w (internal s))))); reflexivity.
  - left. reflexivity.
  - left. destruct (closed s && negb (wl_exited s)); [|reflexivity]. cbn [chk].
    destruct (frame_fold OClosed (map waiter_of (wait s)) s) as (_ & _ & _ & F & _). exact F.
  - left. cbn [fresh]. cbv zeta. fw. reflexivity.
  - left. destruct (wl_exited s); [reflexivity|]. destruct ((b <=? last_block s) && negb newtx); reflexivity.
  - left. reflexivity.
Qed.

Lemma take_batch_in_snap : forall rs snap snap' q, take_batch snap rs = (snap', q) ->
  forall n h r, In (n, h, r) q -> In (n, h) snap.
Proof.
  induction rs as [|[h0 r0] rs IH]; cbn; intros snap snap' q Ht n h r Hin.
  - inversion Ht; subst. destruct Hin.
  - destruct (find_hash h0 snap) as [n0|] eqn:Ef.
    + destruct (take_batch (drop_hash h0 snap) rs) as [s2 q2] eqn:Et. inversion Ht; subst.
      destruct Hin as [Heq|Hin].
      * inversion Heq; subst. apply find_hash_in. exact Ef.
      * eapply drop_hash_sub. eapply IH; eauto.
    + eapply IH; eauto.
Qed.

Lemma chk_src_step evs e : chk_src evs (chk (run current evs)) -> chk_src (evs ++ [e]) (chk (run current (evs ++ [e]))).
Proof.
  intro P. rewrite run_snoc. pose proof (inv_run evs) as I. set (s := run current evs) in *.
  destruct (chk s) as [|c|c snap q] eqn:Hk.
  - destruct (chk_not_inflight s e I (or_introl Hk)) as [H|[(_ & b & c & nt & -> & H)|(c & Hc & _)]].
    + rewrite H, Hk. exact Logic.I.
    + rewrite H. cbn [chk_src]. exists evs, b, nt, []. repeat split; [exact Hk|]. rewrite run_snoc. exact H.
    + rewrite Hk in Hc. discriminate.
  - destruct (chk_not_inflight s e I (or_intror (ex_intro _ c Hk))) as [H|[(Hc & _)|(c0 & Hc & -> & H)]].
    + rewrite H, Hk. cbn [chk_src] in *. apply poll_src_app. exact P.
    + rewrite Hk in Hc. discriminate.
    + rewrite Hk in Hc. inversion Hc; subst c0. rewrite H. cbn [chk_src] in P.
      unfold finish. destruct (older c (wait s)); cbn [chk_src]; [exact Logic.I|].
      split; [apply poll_src_app; exact P|intros ? ? ? []].
  - rewrite (chk_adv s c snap q e I Hk). cbn [chk_src] in P. destruct P as [P1 P2].
    assert (M : forall n h r, In (n, h, r) q -> batch_src (evs ++ [e]) c n h r) by (intros; apply batch_src_app; auto).
    pose proof (poll_src_app evs e c P1) as P1'.
    assert (Same : chk_src (evs ++ [e]) (InFlight c snap q)) by (split; assumption).
    destruct e; cbn [adv]; try exact Same.
    + destruct q; [|exact Same]. destruct (take_batch snap rs) as [snap' q'] eqn:Et.
      unfold finish. destruct snap'; destruct q'; cbn [chk_src]; try exact Logic.I;
        (split; [exact P1'|]); intros n h r Hin; exists evs, rs, [], snap;
        (split; [reflexivity|]); (split; [exact Hk|]);
        (split; [eapply take_batch_in_snap; eauto|eapply take_batch_src; eauto]).
    + destruct q; [exact Logic.I|exact Same].
    + destruct q as [|x q']; [exact Same|]. unfold finish. destruct snap; destruct q'; cbn [chk_src]; try exact Logic.I;
        (split; [exact P1'|]); intros n h r Hin; apply M; right; exact Hin.
Qed.

Theorem chk_src_run : forall evs, chk_src evs (chk (run current evs)).
Proof.
  intro evs. induction evs as [|e evs IH] using rev_ind; [exact Logic.I|]. apply chk_src_step. exact IH.
Qed.

Lemma deliv_dec : forall a b : N * wout, {a = b} + {a <> b}.
Proof. repeat decide equality; apply N.eq_dec. Qed.

(* ---- the delivery step of an outcome ------------------------------------------------------------ *)
Theorem delivery_step : forall evs w o, In (w, o) (delivered (run current evs)) ->
  exists pre e post, evs = pre ++ e :: post /\
    (forall o', ~ In (w, o') (delivered (run current pre))) /\
    In (w, o) (delivered (run current (pre ++ [e]))) /\
    cause (run current pre) e w o.
Proof.
  intro evs. induction evs as [|e evs IH] using rev_ind; intros w o H; [destruct H|].
  destruct (in_dec deliv_dec (w, o) (delivered (run current evs))) as [Hold|Hnew].
  - destruct (IH w o Hold) as (pre & e0 & post & -> & H1 & H2 & H3).
    exists pre, e0, (post ++ [e]). rewrite <- app_assoc. auto.
  - exists evs, e, []. split; [reflexivity|]. rewrite run_snoc in H.
    split; [|split; [rewrite run_snoc; exact H|]].
    + intros o' Ho'. (* w already had an outcome: it cannot get another one *)
      pose proof (delivered_stays evs [e] w o' Ho') as Hs. rewrite run_snoc in Hs.
      assert (o' = o).
      { eapply NoDup_fst_unique; [|exact Hs|exact H]. rewrite <- run_snoc. apply at_most_one. }
      subst. contradiction.
    + apply step_delivers; [apply inv_run|exact H|exact Hnew].
Qed.

(* ================= truthfulness, strong form ================================================= *)
Theorem truthful_strong : forall evs w o, In (w, o) (delivered (run current evs)) -> o <> OClosed ->
  exists pre fb post c snap n h r q, evs = pre ++ Proc fb :: post /\
    let s := run current pre in
    (forall o', ~ In (w, o') (delivered s)) /\
    chk s = InFlight c snap ((n, h, r) :: q) /\ In (n, h, w) (wait s) /\ In (w, h, n) (watchers s) /\
    n < c /\ resolves h r fb = Some o /\
    poll_src pre c /\ batch_src pre c n h r.
Proof.
  intros evs w o H Hne. destruct (delivery_step evs w o H) as (pre & e & post & -> & H1 & H2 & H3).
  destruct o; [| |congruence]; cbn [cause] in H3;
    destruct H3 as (fb & c & snap & n & h0 & r & q & -> & Hk & Hw & Hwa & Hlt & Hr);
    pose proof (chk_src_run pre) as P; rewrite Hk in P; destruct P as [P1 P2];
    exists pre, fb, post, c, snap, n, h0, r, q; (split; [reflexivity|]); cbv zeta;
    repeat split; auto; apply P2; left; reflexivity.
Qed.

Lemma resolves_receipt h r fb h' st : resolves h r fb = Some (OReceipt h' st) ->
  h' = h /\ (r = RReceipt st \/ ((r = RNullOverWire \/ r = RRpcErr) /\ fb = Some (RReceipt st))).
Proof.
  unfold resolves. destruct r; try (destruct fb as [[]|]); intro H; inversion H; subst; auto.
Qed.
Lemma resolves_cancel h r fb : resolves h r fb = Some OCancelled ->
  r = RNotFound \/ ((r = RNullOverWire \/ r = RRpcErr) /\ fb = Some RNotFound).
Proof.
  unfold resolves. destruct r; try (destruct fb as [[]|]); intro H; inversion H; subst; auto.
Qed.

Theorem truthful_closed_strong : forall evs w, In (w, OClosed) (delivered (run current evs)) ->
  exists pre e post, evs = pre ++ e :: post /\ In Close pre /\
    let s := run current pre in
    (forall o', ~ In (w, o') (delivered s)) /\
    ((e = Drain /\ exists n h, In (n, h, w) (wait s)) \/
     (drained s = true /\ w = next s /\ exists h n, e = Watch h \/ e = WatchRaw h n \/ e = InternalWatch h n)).
Proof.
  intros evs w H. destruct (delivery_step evs w OClosed H) as (pre & e & post & -> & H1 & H2 & H3).
  exists pre, e, post. split; [reflexivity|]. cbn [cause] in H3.
  assert (Hc : closed (run current pre) = true) by (destruct H3 as [(_ & Hc & _)|(_ & Hc & _)]; exact Hc).
  split; [exact (s_closed _ _ (src_run pre) Hc)|]. cbv zeta. split; [exact H1|].
  destruct H3 as [(-> & _ & Hw)|(Hd & _ & -> & Hx)]; [left|right]; auto.
Qed.

(* ================= the fourth answer: WaitForReceipt refused ("tx not found") ================== *)
Lemma lookup_in (k : N) : forall (l : list (N * N)) (v : N), lookup k l = Some v -> In (k, v) l.
Proof.
  induction l as [|[k' v'] l IH]; cbn; intros v H; [discriminate|].
  destruct (k' =? k) eqn:E; [apply N.eqb_eq in E; inversion H; subst; auto|auto].
Qed.
Lemma out_of_in w : forall d o, out_of w d = Some o -> In (w, o) d.
Proof.
  induction d as [|[w' o'] d IH]; cbn; intros o H; [discriminate|].
  destruct (w' =? w) eqn:E; [apply N.eqb_eq in E; inversion H; subst; auto|auto].
Qed.
Lemma lookup_remove_other h h' l : h <> h' -> lookup h (remove_key h' l) = lookup h l.
Proof.
  intro Hne. induction l as [|[k v] l IH]; cbn; [reflexivity|].
  destruct (k =? h') eqn:E1; cbn.
  - apply N.eqb_eq in E1. subst. destruct (h' =? h) eqn:E2; [apply N.eqb_eq in E2; congruence|exact IH].
  - destruct (k =? h); [reflexivity|exact IH].
Qed.

Definition cframe (s s' : mon) : Prop :=
  internal s' = internal s /\ pending s' = pending s /\ sent s' = sent s /\ watchers s' = watchers s /\
  refused s' = refused s /\ next s' = next s.
Lemma cframe_refl s : cframe s s. Proof. repeat split. Qed.
Lemma cframe_trans a b c : cframe a b -> cframe b c -> cframe a c.
Proof. unfold cframe. intros (A1 & A2 & A3 & A4 & A5 & A6) (B1 & B2 & B3 & B4 & B5 & B6). repeat split; congruence. Qed.
Lemma cframe_send s w o : cframe s (send s w o).
Proof. unfold send. destruct (memN w (closedch s)); repeat split. Qed.
Lemma cframe_fold o : forall ws s, cframe s (fold_left (fun s w => send s w o) ws s).
Proof. induction ws; cbn; intro s; [apply cframe_refl|]. eapply cframe_trans; [apply cframe_send|apply IHws]. Qed.
Lemma cframe_notify s n h o : cframe s (notify s n h o).
Proof.
  unfold notify. cbv zeta. destruct (cframe_fold o (map waiter_of (filter (key_is n h) (wait s))) s) as (A1 & A2 & A3 & A4 & A5 & A6).
  repeat split; cbn [set_wait internal pending sent watchers refused next]; assumption.
Qed.
Lemma cframe_proc s c n h r fb : cframe s (proc current s c n h r fb).
Proof.
  unfold proc. cbn [fix_fallback current].
  destruct r; [| |destruct fb as [[]|]..];
    try (eapply cframe_trans; [|apply cframe_notify]); repeat split.
Qed.
(* watchTx: the client fields stay, the watcher is recorded *)
Lemma watch_fields v s w h n :
  let s' := watch_tx v s w h n in
  internal s' = internal s /\ pending s' = pending s /\ sent s' = sent s /\ refused s' = refused s /\ next s' = next s /\
  watchers s' = watchers s ++ [(w, h, n)].
Proof.
  unfold watch_tx. cbv zeta. cbn [drained]. destruct (fix_drain v && drained s).
  - match goal with |- context [send ?t ?w ?o] => destruct (cframe_send t w o) as (A1 & A2 & A3 & A4 & A5 & A6) end.
    rewrite A1, A2, A3, A4, A5, A6. repeat split.
  - repeat split.
Qed.

(* [Inv2]: the client's own waiters are watchers of their transaction; a sent transaction leaves
   sentTxs only when its own waiter has consumed a receipt *)
Record Inv2 (s : mon) : Prop := {
  j_internal : forall w0 h0, In (w0, h0) (internal s) -> exists n, In (w0, h0, n) (watchers s);
  j_gone : forall h, In h (sent s) -> lookup h (pending s) = None ->
           exists w0 n st, In (w0, h, n) (watchers s) /\ In (w0, OReceipt h st) (delivered s)
}.

Lemma inv2_mono s s' : Inv2 s -> internal s' = internal s -> pending s' = pending s -> sent s' = sent s ->
  incl (watchers s) (watchers s') -> incl (delivered s) (delivered s') -> Inv2 s'.
Proof.
  intros [A B] E1 E2 E3 Hw Hd. constructor.
  - rewrite E1. intros w0 h0 H. destruct (A w0 h0 H) as (n & Hn). exists n. apply Hw. exact Hn.
  - rewrite E2, E3. intros h H1 H2. destruct (B h H1 H2) as (w0 & n & st & Hx & Hy). exists w0, n, st. split; [apply Hw|apply Hd]; assumption.
Qed.

Lemma dext_incl s s' : dext s s' -> incl (delivered s) (delivered s').
Proof. intros [l H] x Hx. rewrite H. apply in_or_app. auto. Qed.

Lemma inv2_step s e : Inv s -> Inv2 s -> Inv2 (step current s e).
Proof.
  intros I J. pose proof (dext_incl _ _ (dext_step s e)) as Hd. revert Hd. unfold step. rewrite (i_nopanic _ I).
  assert (Same : forall s', cframe s s' -> incl (delivered s) (delivered s') -> Inv2 s').
  { intros s' (A1 & A2 & A3 & A4 & A5 & A6) Hd. apply (inv2_mono s s' J A1 A2 A3); [rewrite A4; apply incl_refl|exact Hd]. }
  destruct e as [h n|h|h n|blk nonce newtx| |rs| |fb|w| | |h n|b c1 newtx|gw]; intro Hd.
  - (* Sent *) destruct J as [A B]. constructor; cbn [internal watchers sent pending delivered].
    + exact A.
    + intros h0 H1 H2. cbn [lookup] in H2. destruct (h =? h0) eqn:E; [discriminate|].
      assert (Hne : h0 <> h) by (intro; subst; rewrite N.eqb_refl in E; discriminate).
      rewrite lookup_remove_other in H2 by exact Hne.
      apply in_app_or in H1. destruct H1 as [H1|[H1|[]]]; [exact (B h0 H1 H2)|congruence].
  - (* Watch *) cbn [fresh] in *. cbv zeta in *. cbn [pending] in *. destruct (lookup h (pending s)) as [n|].
    + match goal with |- Inv2 (watch_tx ?v ?t ?w ?h ?n) => destruct (watch_fields v t w h n) as (A1 & A2 & A3 & A4 & A5 & A6) end.
      eapply (inv2_mono s); [exact J|exact A1|exact A2|exact A3| |exact Hd].
      rewrite A6. cbn [watchers]. apply incl_appl, incl_refl.
    + eapply (inv2_mono s); [exact J|reflexivity|reflexivity|reflexivity|apply incl_refl|exact Hd].
  - (* WatchRaw *) cbn [fresh] in *. cbv zeta in *.
    match goal with |- Inv2 (watch_tx ?v ?t ?w ?h ?n) => destruct (watch_fields v t w h n) as (A1 & A2 & A3 & A4 & A5 & A6) end.
    eapply (inv2_mono s); [exact J|exact A1|exact A2|exact A3| |exact Hd].
    rewrite A6. cbn [watchers]. apply incl_appl, incl_refl.
  - destruct (wl_exited s); [exact J|]. destruct blk; [|exact J].
    destruct ((n <=? last_block s) && negb newtx); [exact J|]. destruct nonce; [|exact J]. apply Same; [repeat split|exact Hd].
  - destruct (chk s); try exact J. apply Same; [repeat split|exact Hd].
  - destruct (chk s) as [| |c snap q]; try exact J. destruct q; [|exact J]. destruct (take_batch snap rs).
    apply Same; [repeat split|exact Hd].
  - destruct (chk s) as [| |c snap q]; try exact J. destruct q; [|exact J]. apply Same; [repeat split|exact Hd].
  - destruct (chk s) as [| |c snap q]; try exact J. destruct q as [|[[n h] r] q]; [exact J|].
    apply Same; [|exact Hd]. destruct (cframe_proc s c n h r fb) as (A1 & A2 & A3 & A4 & A5 & A6). repeat split; assumption.
  - (* InternalRun *)
    destruct (lookup w (internal s)) as [hh|] eqn:El; [|exact J]. destruct (out_of w (delivered s)) as [o|] eqn:Eo; [|exact J].
    destruct J as [A B].
    assert (A' : forall w0 h0, In (w0, h0) (remove_key w (internal s)) -> exists n, In (w0, h0, n) (watchers s)).
    { intros w0 h0 H. apply A. eapply remove_key_sub. exact H. }
    destruct o as [h1 st| |]; cbn [fix_pending current].
    + constructor; cbn [set_pending set_internal internal watchers sent pending delivered]; [exact A'|].
      intros h0 H1 H2. destruct (N.eq_dec h0 hh) as [->|Hne].
      * apply lookup_in in El. destruct (A w hh El) as (n & Hn).
        apply out_of_in in Eo. destruct (i_receipt _ I _ _ _ Eo) as (n' & c & Hw' & _).
        assert (E : (w, h1, n') = (w, hh, n)).
        { apply (NoDup_map_inj (fun e => fst (fst e)) (watchers s)); auto. apply (i_nodupwatch _ I). }
        inversion E; subst. exists w, n, st. auto.
      * rewrite lookup_remove_other in H2 by exact Hne. exact (B h0 H1 H2).
    + destruct (lookup hh (pending (set_internal s (remove_key w (internal s)))));
        constructor; cbn [set_flagged set_internal internal watchers sent pending delivered]; auto.
    + constructor; cbn [set_internal internal watchers sent pending delivered]; auto.
  - apply Same; [repeat split|exact Hd].
  - destruct (closed s && negb (wl_exited s)); [|exact J]. apply Same; [|exact Hd].
    destruct (cframe_fold OClosed (map waiter_of (wait s)) s) as (A1 & A2 & A3 & A4 & A5 & A6).
    repeat split; cbn [internal pending sent watchers refused next]; assumption.
  - (* InternalWatch *) cbn [fresh] in *. cbv zeta in *.
    match goal with |- Inv2 (watch_tx ?v ?t ?w ?h ?n) => destruct (watch_fields v t w h n) as (A1 & A2 & A3 & A4 & A5 & A6) end.
    destruct J as [A B]. constructor.
    + rewrite A1, A6. cbn [internal watchers]. intros w0 h0 H. apply in_app_or in H. destruct H as [H|[H|[]]].
      * destruct (A w0 h0 H) as (n0 & Hn). exists n0. apply in_or_app. auto.
      * inversion H; subst. exists n. apply in_or_app. right. left. reflexivity.
    + rewrite A2, A3, A6. cbn [pending sent watchers]. intros h0 H1 H2. destruct (B h0 H1 H2) as (w0 & n0 & st & Hx & Hy).
      exists w0, n0, st. split; [apply in_or_app; auto|apply Hd; exact Hy].
  - destruct (wl_exited s); [exact J|]. destruct ((b <=? last_block s) && negb newtx); [exact J|].
    apply Same; [repeat split|exact Hd].
  - exact J.
Qed.

Theorem inv2_run : forall evs, Inv2 (run current evs).
Proof.
  intro evs. induction evs as [|e evs IH] using rev_ind.
  - constructor; cbn; intros; contradiction.
  - rewrite run_snoc. apply inv2_step; [apply inv_run|exact IH].
Qed.

(* who is refused: the step that refuses *)
Lemma refused_step s e w : Inv s -> In w (refused (step current s e)) -> ~ In w (refused s) ->
  exists h, e = Watch h /\ w = next s /\ lookup h (pending s) = None.
Proof.
  intros I H Hn. unfold step in H. rewrite (i_nopanic _ I) in H.
  destruct e as [h n|h|h n|blk nonce newtx| |rs| |fb|w0| | |h n|b c1 newtx|gw].
  - contradiction.
  - cbn [fresh] in H. cbv zeta in H. cbn [pending] in H. destruct (lookup h (pending s)) as [n|] eqn:El.
    + match type of H with In _ (refused (watch_tx ?v ?t ?w1 ?h1 ?n1)) => destruct (watch_fields v t w1 h1 n1) as (_ & _ & _ & A4 & _); rewrite A4 in H end.
      contradiction.
    + cbn [refused] in H. apply in_app_or in H. destruct H as [H|[<-|[]]]; [contradiction|]. exists h. auto.
  - cbn [fresh] in H. cbv zeta in H.
    match type of H with In _ (refused (watch_tx ?v ?t ?w1 ?h1 ?n1)) => destruct (watch_fields v t w1 h1 n1) as (_ & _ & _ & A4 & _); rewrite A4 in H end.
    contradiction.
  - destruct (wl_exited s); [contradiction|]. destruct blk; [|contradiction].
    destruct ((n <=? last_block s) && negb newtx); [contradiction|]. destruct nonce; contradiction.
  - destruct (chk s); contradiction.
  - destruct (chk s) as [| |c snap q]; try contradiction. destruct q; [|contradiction]. destruct (take_batch snap rs). contradiction.
  - destruct (chk s) as [| |c snap q]; try contradiction. destruct q; contradiction.
  - destruct (chk s) as [| |c snap q]; try contradiction. destruct q as [|[[n h] r] q]; [contradiction|].
    cbn [set_chk refused] in H. destruct (cframe_proc s c n h r fb) as (_ & _ & _ & _ & A5 & _). rewrite A5 in H. contradiction.
  - destruct (lookup w0 (internal s)) as [hh|]; [|contradiction]. destruct (out_of w0 (delivered s)) as [o|]; [|contradiction].
    destruct o; cbn [fix_pending current] in H; try contradiction.
    destruct (lookup hh (pending (set_internal s (remove_key w0 (internal s))))); contradiction.
  - contradiction.
  - destruct (closed s && negb (wl_exited s)); [|contradiction]. cbn [refused] in H.
    destruct (cframe_fold OClosed (map waiter_of (wait s)) s) as (_ & _ & _ & _ & A5 & _). rewrite A5 in H. contradiction.
  - cbn [fresh] in H. cbv zeta in H.
    match type of H with In _ (refused (watch_tx ?v ?t ?w1 ?h1 ?n1)) => destruct (watch_fields v t w1 h1 n1) as (_ & _ & _ & A4 & _); rewrite A4 in H end.
    contradiction.
  - destruct (wl_exited s); [contradiction|]. destruct ((b <=? last_block s) && negb newtx); contradiction.
  - contradiction.
Qed.

Lemma refused_lt : forall evs w, In w (refused (run current evs)) -> w < next (run current evs).
Proof.
  intro evs. induction evs as [|e evs IH] using rev_ind; intros w H; [destruct H|].
  destruct (in_dec N.eq_dec w (refused (run current evs))) as [Ho|Hn].
  - specialize (IH w Ho). rewrite run_snoc.
    assert (Mono : next (run current evs) <= next (step current (run current evs) e)).
    { set (s := run current evs). unfold step. destruct (panicked s); [lia|].
      destruct e as [h n|h|h n|blk nonce newtx| |rs| |fb|w0| | |h n|b c1 newtx|gw]; cbn [next]; try lia.
      - cbn [fresh]. cbv zeta. cbn [pending]. destruct (lookup h (pending s)).
        + match goal with |- _ <= next (watch_tx ?v ?t ?w1 ?h1 ?n1) => destruct (watch_fields v t w1 h1 n1) as (_ & _ & _ & _ & A5 & _); rewrite A5 end. cbn [next set_pending set_internal set_flagged set_chk set_wait]. lia.
        + cbn [next set_pending set_internal set_flagged set_chk set_wait]. lia.
      - cbn [fresh]. cbv zeta. match goal with |- _ <= next (watch_tx ?v ?t ?w1 ?h1 ?n1) => destruct (watch_fields v t w1 h1 n1) as (_ & _ & _ & _ & A5 & _); rewrite A5 end. cbn [next set_pending set_internal set_flagged set_chk set_wait]. lia.
      - destruct (wl_exited s); [lia|]. destruct blk; [|lia]. destruct ((n <=? last_block s) && negb newtx); [lia|]. destruct nonce; cbn [next set_pending set_internal set_flagged set_chk set_wait]; lia.
      - destruct (chk s); cbn [next set_pending set_internal set_flagged set_chk set_wait]; lia.
      - destruct (chk s) as [| |c snap q]; try lia. destruct q; [|lia]. destruct (take_batch snap rs). cbn [next set_pending set_internal set_flagged set_chk set_wait]. lia.
      - destruct (chk s) as [| |c snap q]; try lia. destruct q; cbn [next set_pending set_internal set_flagged set_chk set_wait]; lia.
      - destruct (chk s) as [| |c snap q]; try lia. destruct q as [|[[n h] r] q]; [lia|]. cbn [set_chk next].
        destruct (cframe_proc s c n h r fb) as (_ & _ & _ & _ & _ & A6). rewrite A6. lia.
      - destruct (lookup w0 (internal s)) as [hh|]; [|lia]. destruct (out_of w0 (delivered s)) as [o|]; [|lia].
        destruct o; cbn [fix_pending current]; cbn [next set_pending set_internal set_flagged set_chk set_wait]; try lia.
        destruct (lookup hh (pending (set_internal s (remove_key w0 (internal s))))); cbn [next set_pending set_internal set_flagged set_chk set_wait]; lia.
      - destruct (closed s && negb (wl_exited s)); [|lia]. cbn [next].
        destruct (cframe_fold OClosed (map waiter_of (wait s)) s) as (_ & _ & _ & _ & _ & A6). rewrite A6. lia.
      - cbn [fresh]. cbv zeta. match goal with |- _ <= next (watch_tx ?v ?t ?w1 ?h1 ?n1) => destruct (watch_fields v t w1 h1 n1) as (_ & _ & _ & _ & A5 & _); rewrite A5 end. cbn [next set_pending set_internal set_flagged set_chk set_wait]. lia.
      - destruct (wl_exited s); [lia|]. destruct ((b <=? last_block s) && negb newtx); cbn [next set_pending set_internal set_flagged set_chk set_wait]; lia. }
    lia.
  - rewrite run_snoc in H. destruct (refused_step _ e w (inv_run evs) H Hn) as (h & -> & -> & _).
    rewrite run_snoc. pose proof (i_nopanic _ (inv_run evs)) as Hp. set (s := run current evs) in *. unfold step. rewrite Hp.
    cbn [fresh]. cbv zeta. cbn [pending]. destruct (lookup h (pending s)).
    + match goal with |- _ < next (watch_tx ?v ?t ?w1 ?h1 ?n1) => destruct (watch_fields v t w1 h1 n1) as (_ & _ & _ & _ & A5 & _); rewrite A5 end. cbn [next set_pending set_internal set_flagged set_chk set_wait]. lia.
    + cbn [next set_pending set_internal set_flagged set_chk set_wait]. lia.
Qed.

(* A WaitForReceipt call is answered "tx not found" -- and its caller is never registered, never
   gets a channel outcome -- only for a hash the client never sent, or for a transaction whose
   receipt the client's own waiter has already consumed (mined); never for a transaction that is
   still listed or that was cancelled (its entry is kept). *)
Theorem refused_only_unsent_or_mined : forall evs w, In w (refused (run current evs)) ->
  exists pre h post, evs = pre ++ Watch h :: post /\ w = next (run current pre) /\
    (forall h' n', ~ In (w, h', n') (watchers (run current evs))) /\
    (~ In h (sent (run current pre)) \/
     exists w0 n st, In (w0, h, n) (watchers (run current pre)) /\ In (w0, OReceipt h st) (delivered (run current pre))).
Proof.
  intro evs. induction evs as [|e evs IH] using rev_ind; intros w H; [destruct H|].
  assert (Keep : forall x, In x (watchers (run current (evs ++ [e]))) -> In x (watchers (run current evs)) \/ fst (fst x) = next (run current evs)).
  { intros x Hx. rewrite run_snoc in Hx. pose proof (inv_run evs) as I. set (s := run current evs) in *.
    unfold step in Hx. rewrite (i_nopanic _ I) in Hx.
    destruct e as [h n|h|h n|blk nonce newtx| |rs| |fb|w0| | |h n|b c1 newtx|gw]; try (left; exact Hx).
    - cbn [fresh] in Hx. cbv zeta in Hx. cbn [pending] in Hx. destruct (lookup h (pending s)) as [n|]; [|left; exact Hx].
      match type of Hx with In _ (watchers (watch_tx ?v ?t ?w1 ?h1 ?n1)) => destruct (watch_fields v t w1 h1 n1) as (_ & _ & _ & _ & _ & A6); rewrite A6 in Hx end.
      apply in_app_or in Hx. destruct Hx as [Hx|[<-|[]]]; auto.
    - cbn [fresh] in Hx. cbv zeta in Hx.
      match type of Hx with In _ (watchers (watch_tx ?v ?t ?w1 ?h1 ?n1)) => destruct (watch_fields v t w1 h1 n1) as (_ & _ & _ & _ & _ & A6); rewrite A6 in Hx end.
      apply in_app_or in Hx. destruct Hx as [Hx|[<-|[]]]; auto.
    - left. destruct (wl_exited s); [exact Hx|]. destruct blk; [|exact Hx].
      destruct ((n <=? last_block s) && negb newtx); [exact Hx|]. destruct nonce; exact Hx.
    - left. destruct (chk s); exact Hx.
    - left. destruct (chk s) as [| |c snap q]; try exact Hx. destruct q; [|exact Hx]. destruct (take_batch snap rs). exact Hx.
    - left. destruct (chk s) as [| |c snap q]; try exact Hx. destruct q; exact Hx.
    - left. destruct (chk s) as [| |c snap q]; try exact Hx. destruct q as [|[[n h] r] q]; [exact Hx|].
      cbn [set_chk watchers] in Hx. destruct (cframe_proc s c n h r fb) as (_ & _ & _ & A4 & _). rewrite A4 in Hx. exact Hx.
    - left. destruct (lookup w0 (internal s)) as [hh|]; [|exact Hx]. destruct (out_of w0 (delivered s)) as [o|]; [|exact Hx].
      destruct o; cbn [fix_pending current] in Hx; try exact Hx.
      destruct (lookup hh (pending (set_internal s (remove_key w0 (internal s))))); exact Hx.
    - left. destruct (closed s && negb (wl_exited s)); [|exact Hx]. cbn [watchers] in Hx.
      destruct (cframe_fold OClosed (map waiter_of (wait s)) s) as (_ & _ & _ & A4 & _). rewrite A4 in Hx. exact Hx.
    - cbn [fresh] in Hx. cbv zeta in Hx.
      match type of Hx with In _ (watchers (watch_tx ?v ?t ?w1 ?h1 ?n1)) => destruct (watch_fields v t w1 h1 n1) as (_ & _ & _ & _ & _ & A6); rewrite A6 in Hx end.
      apply in_app_or in Hx. destruct Hx as [Hx|[<-|[]]]; auto.
    - left. destruct (wl_exited s); [exact Hx|]. destruct ((b <=? last_block s) && negb newtx); exact Hx. }
  destruct (in_dec N.eq_dec w (refused (run current evs))) as [Hold|Hnew].
  - destruct (IH w Hold) as (pre & h & post & Eq & Hw & Hnot & Hwhy).
    exists pre, h, (post ++ [e]). split; [rewrite Eq, <- app_assoc; reflexivity|]. repeat split; auto.
    intros h' n' Hx. destruct (Keep _ Hx) as [Hx'|Hx']; [exact (Hnot _ _ Hx')|]. cbn in Hx'.
    pose proof (refused_lt evs _ Hold). lia.
  - rewrite run_snoc in H. destruct (refused_step _ e w (inv_run evs) H Hnew) as (h & -> & -> & Hl).
    exists evs, h, []. split; [reflexivity|]. split; [reflexivity|]. split.
    + intros h' n' Hx. destruct (Keep _ Hx) as [Hx'|Hx'].
      * pose proof (i_ltwatch _ (inv_run evs) _ _ _ Hx'). lia.
      * (* the Watch step itself registered nobody: lookup = None *)
        rewrite run_snoc in Hx. pose proof (i_nopanic _ (inv_run evs)) as Hp. set (s := run current evs) in *. unfold step in Hx. rewrite Hp in Hx.
        cbn [fresh] in Hx. cbv zeta in Hx. cbn [pending] in Hx. rewrite Hl in Hx. cbn [watchers] in Hx.
        pose proof (i_ltwatch _ (inv_run evs)) as Hl2. fold s in Hl2. specialize (Hl2 _ _ _ Hx). lia.
    + destruct (in_dec N.eq_dec h (sent (run current evs))) as [Hs|Hs]; [right|left; exact Hs].
      exact (j_gone _ (inv2_run evs) h Hs Hl).
Qed.

(* ---- idle but not yet receiving: the hand-over of a new block can be lost -------------------- *)
Theorem handoff_lost_consumes_block : forall s b c nt, panicked s = false -> wl_exited s = false ->
  last_block s < b ->
  let s' := step current s (PollLost b c nt) in
  chk s' = chk s /\ wait s' = wait s /\ delivered s' = delivered s /\ last_block s' = b.
Proof.
  intros s b c nt Hp Hx Hb s'. unfold s', step. rewrite Hp, Hx.
  assert (E : (b <=? last_block s) = false) by (apply N.leb_gt; exact Hb). rewrite E. cbn [andb]. auto.
Qed.

(* the waiter of a mined transaction is not looked at when the poll of the new block hits the
   checker between two rounds (check() returned, checkLoop not yet back in its select); later
   polls of the same block do nothing; the next block resolves it *)
Example handoff_lost_demo : forall k,
  let pre := [Sent 1 0; InternalWatch 1 0; WatchRaw 1 0; PollLost 6 1 false] in
  let s := run current (pre ++ repeat (Poll (Some 6) (Some 1) false) k) in
  wait s = [(0, 1, 0); (0, 1, 1)] /\ delivered s = [] /\ chk s = Idle /\ last_block s = 6 /\
  delivered (run current ((pre ++ repeat (Poll (Some 6) (Some 1) false) k) ++
                          [Poll (Some 7) (Some 1) false; CheckBegin; BatchReply [(1, RReceipt 1)]; Proc None]))
  = [(0, OReceipt 1 1); (1, OReceipt 1 1)].
Proof.
  intros k pre s.
  assert (E : run current (pre ++ repeat (Poll (Some 6) (Some 1) false) k) = run current pre).
  { apply stalled_without_new_block. apply Forall_forall. intros e He. apply repeat_spec in He. subst e.
    exists 6, (Some 1). split; [reflexivity|]. vm_compute. discriminate. }
  unfold s. rewrite E. repeat split; try (vm_compute; reflexivity).
  unfold run. rewrite fold_left_app. fold (run current (pre ++ repeat (Poll (Some 6) (Some 1) false) k)).
  rewrite E. vm_compute. reflexivity.
Qed.

(* ---- the pending list: a resolved transaction stays out ------------------------------------- *)
Definition pframe (s s' : mon) : Prop := pending s' = pending s /\ flagged s' = flagged s.
Lemma pframe_refl s : pframe s s. Proof. split; reflexivity. Qed.
Lemma pframe_trans a b c : pframe a b -> pframe b c -> pframe a c.
Proof. intros [A1 A2] [B1 B2]. split; congruence. Qed.
Lemma pframe_send s w o : pframe s (send s w o).
Proof. unfold send. destruct (memN w (closedch s)); split; reflexivity. Qed.
Lemma pframe_fold o : forall ws s, pframe s (fold_left (fun s w => send s w o) ws s).
Proof. induction ws; cbn; intro s; [apply pframe_refl|]. eapply pframe_trans; [apply pframe_send|apply IHws]. Qed.
Lemma pframe_notify s n h o : pframe s (notify s n h o).
Proof.
  unfold notify. cbv zeta. destruct (pframe_fold o (map waiter_of (filter (key_is n h) (wait s))) s) as [A1 A2].
  split; cbn [set_wait pending flagged]; assumption.
Qed.
Lemma pframe_proc s c n h r fb : pframe s (proc current s c n h r fb).
Proof.
  unfold proc. cbn [fix_fallback current].
  destruct r; [| |destruct fb as [[]|]..]; try (eapply pframe_trans; [|apply pframe_notify]); split; reflexivity.
Qed.
Lemma pframe_watch v s w h n : pframe s (watch_tx v s w h n).
Proof.
  unfold watch_tx. cbv zeta. cbn [drained]. destruct (fix_drain v && drained s).
  - eapply pframe_trans; [|apply pframe_send]. split; reflexivity.
  - split; reflexivity.
Qed.

Lemma ph_frame s s' h : pframe s s' -> In h (pending_hashes s') -> In h (pending_hashes s).
Proof. intros [A1 A2]. unfold pending_hashes. rewrite A1, A2. auto. Qed.

Lemma memN_filter_other h h' l : h <> h' -> memN h (filter (fun k => negb (k =? h')) l) = memN h l.
Proof.
  intro Hne. unfold memN. induction l as [|k l IH]; [reflexivity|]. cbn [filter existsb].
  destruct (k =? h') eqn:E; cbn [negb existsb].
  - apply N.eqb_eq in E. subst. destruct (h =? h') eqn:E2; [apply N.eqb_eq in E2; congruence|exact IH].
  - rewrite IH. reflexivity.
Qed.

Lemma pending_hashes_step s e h : In h (pending_hashes (step current s e)) ->
  In h (pending_hashes s) \/ exists n, e = Sent h n.
Proof.
  unfold step. destruct (panicked s); [auto|].
  destruct e as [h0 n|h0|h0 n|blk nonce newtx| |rs| |fb|w| | |h0 n|b c1 newtx|gw]; intro H.
  - destruct (N.eq_dec h h0) as [->|Hne]; [right; eauto|left].
    unfold pending_hashes in *. cbn [pending flagged] in H. apply filter_In in H. destruct H as [H1 H2].
    apply filter_In. rewrite memN_filter_other in H2 by exact Hne. split; [|exact H2].
    cbn [map] in H1. destruct H1 as [H1|H1]; [cbn in H1; congruence|].
    apply in_map_iff in H1. destruct H1 as (x & <- & Hx). apply in_map. eapply remove_key_sub. exact Hx.
  - left. cbn [fresh] in H. cbv zeta in H. cbn [pending] in H. destruct (lookup h0 (pending s)); [|exact H].
    eapply ph_frame; [|exact H]. eapply pframe_trans; [|apply pframe_watch]. split; reflexivity.
  - left. cbn [fresh] in H. cbv zeta in H. eapply ph_frame; [|exact H]. eapply pframe_trans; [|apply pframe_watch]. split; reflexivity.
  - left. destruct (wl_exited s); [exact H|]. destruct blk; [|exact H].
    destruct ((n <=? last_block s) && negb newtx); [exact H|]. destruct nonce; exact H.
  - left. destruct (chk s); exact H.
  - left. destruct (chk s) as [| |c snap q]; try exact H. destruct q; [|exact H]. destruct (take_batch snap rs). exact H.
  - left. destruct (chk s) as [| |c snap q]; try exact H. destruct q; exact H.
  - left. destruct (chk s) as [| |c snap q]; try exact H. destruct q as [|[[n h1] r] q]; [exact H|].
    eapply ph_frame; [|exact H]. destruct (pframe_proc s c n h1 r fb) as [A1 A2]. split; cbn [set_chk pending flagged]; assumption.
  - left. destruct (lookup w (internal s)) as [hh|]; [|exact H]. destruct (out_of w (delivered s)) as [o|]; [|exact H].
    unfold pending_hashes in *. destruct o; cbn [fix_pending current] in H.
    + cbn [set_pending set_internal pending flagged] in H. apply filter_In in H. destruct H as [H1 H2].
      apply filter_In. split; [|exact H2]. apply in_map_iff in H1. destruct H1 as (x & <- & Hx). apply in_map.
      eapply remove_key_sub. exact Hx.
    + destruct (lookup hh (pending (set_internal s (remove_key w (internal s))))); [|exact H].
      cbn [set_flagged set_internal pending flagged] in H. apply filter_In in H. destruct H as [H1 H2].
      apply filter_In. split; [exact H1|]. cbn [memN existsb] in H2. apply negb_true_iff in H2. apply orb_false_iff in H2.
      apply negb_true_iff. exact (proj2 H2).
    + exact H.
  - left. exact H.
  - left. destruct (closed s && negb (wl_exited s)); [|exact H]. eapply ph_frame; [|exact H].
    destruct (pframe_fold OClosed (map waiter_of (wait s)) s) as [A1 A2]. split; cbn [pending flagged]; assumption.
  - left. cbn [fresh] in H. cbv zeta in H. eapply ph_frame; [|exact H]. eapply pframe_trans; [|apply pframe_watch]. split; reflexivity.
  - left. destruct (wl_exited s); [exact H|]. destruct ((b <=? last_block s) && negb newtx); exact H.
  - left. exact H.
Qed.

Theorem pending_resolved_stays : forall evs' s h, ~ In h (pending_hashes s) ->
  (forall n, ~ In (Sent h n) evs') -> ~ In h (pending_hashes (run_from current s evs')).
Proof.
  induction evs' as [|e evs' IH]; intros s h Hn Hs; cbn [run_from fold_left]; [exact Hn|].
  apply IH.
  - intro H. destruct (pending_hashes_step s e h H) as [H'|(n & ->)]; [exact (Hn H')|].
    exact (Hs n (or_introl eq_refl)).
  - intros n Hin. exact (Hs n (or_intror Hin)).
Qed.

(* state form of the provenance (the invariant itself) *)
Theorem truthful_receipt_state : forall evs w h st, In (w, OReceipt h st) (delivered (run current evs)) ->
  exists n c, In (w, h, n) (watchers (run current evs)) /\ In (c, h, RReceipt st) (answers (run current evs)).
Proof. intros evs w h st H. exact (i_receipt _ (inv_run evs) _ _ _ H). Qed.
Theorem truthful_cancel_state : forall evs w, In (w, OCancelled) (delivered (run current evs)) ->
  exists h n c r, In (w, h, n) (watchers (run current evs)) /\ In (c, h, r) (answers (run current evs)) /\
                  no_receipt r = true /\ n < c /\ In c (confs (run current evs)).
Proof. intros evs w H. exact (i_cancel _ (inv_run evs) _ H). Qed.

(* a caller that stops waiting is no action on the monitor: every other waiter -- and its own
   channel -- is exactly where it was *)
Theorem giveup_changes_nothing : forall s w, step current s (GiveUp w) = s.
Proof. intros s w. unfold step. destruct (panicked s); reflexivity. Qed.
Theorem giveup_transparent : forall evs w evs', run current (evs ++ GiveUp w :: evs') = run current (evs ++ evs').
Proof.
  intros evs w evs'. unfold run. rewrite !fold_left_app. cbn [fold_left]. rewrite giveup_changes_nothing. reflexivity.
Qed.
