(* Proofs about model/ProtoWire.v: Unmarshal(Marshal m) = m for every message of the protocol
   message types without a codec premise, bounded work of the field-list decoder, accepted
   messages are well formed, and the framing round trip of Framing_proofs instantiated with these
   codecs. *)
From Coq Require Import String List NArith ZArith Bool Lia.
From MevVerif Require Import lib.Bytes lib.Varint gen.Generated model.Framing model.ProtoWire check.Check_C13
  proofs.Bytes_proofs proofs.Varint_proofs proofs.Framing_proofs.
Import ListNotations.
Open Scope N_scope.

(* ---------------------------------------------------------------------------------------- *)
(* the Go structs of gen/go/.../*.pb.go (regenerated field lists): after the three bookkeeping
   fields of protoimpl, the exported fields have, in order, the Go types of the schema kinds.
   (Field NUMBERS live in the raw descriptor bytes and are tied by the correspondence only.)   *)
Definition go_type (k : kind) : bytes :=
  match k with KStr => bos "string" | KBytes => bos "[]byte" | KInt64 => bos "int64" end.
Definition field_types (fs : list bytes) : list bytes := map (fun f => last (split 32 f) []) (skipn 3 fs).
Definition schema_types (sc : schema) : list bytes := map (fun e => go_type (snd e)) sc.

Lemma pb_structs_match_schemas :
  field_types c13_pb_hsreq = schema_types hsreq_sc /\
  field_types c13_pb_hsresp = schema_types hsresp_sc /\
  field_types c13_pb_peerinfo = schema_types peerinfo_sc /\
  field_types c13_pb_bid = schema_types bid_sc /\
  field_types c13_pb_peerlist = [bos "[]*PeerInfo"] /\
  field_types c13_pb_preconf = bos "*Bid" :: schema_types preconf_rest_sc.
Proof. repeat split; vm_compute; reflexivity. Qed.

(* ---------------------------------------------------------------------------------------- *)
(* int64                                                                                      *)
Lemma int64_roundtrip c : int64_range c -> u64_to_int64 (int64_to_u64 c) = c.
Proof.
  unfold int64_range, u64_to_int64, int64_to_u64. intros H.
  rewrite Z2N.id by (apply Z.mod_pos_bound; lia).
  rewrite Z.mod_mod by lia.
  destruct (Z.ltb_spec c 0) as [Hn|Hp].
  - replace (c mod 18446744073709551616)%Z with (c + 18446744073709551616)%Z.
    2:{ symmetry. rewrite <- (Z.mod_add c 1) by lia. apply Z.mod_small. lia. }
    destruct (Z.ltb_spec (c + 18446744073709551616) 9223372036854775808); lia.
  - rewrite (Z.mod_small c 18446744073709551616) by lia.
    destruct (Z.ltb_spec c 9223372036854775808); lia.
Qed.

Lemma int64_to_u64_bound c : int64_to_u64 c < two64.
Proof.
  unfold int64_to_u64, two64.
  pose proof (Z.mod_pos_bound c 18446744073709551616 ltac:(lia)). lia.
Qed.

Lemma u64_to_int64_range v : int64_range (u64_to_int64 v).
Proof.
  unfold int64_range, u64_to_int64.
  pose proof (Z.mod_pos_bound (Z.of_N v) 18446744073709551616 ltac:(lia)) as H.
  destruct (Z.ltb_spec (Z.of_N v mod 18446744073709551616) 9223372036854775808); lia.
Qed.

(* ---------------------------------------------------------------------------------------- *)
(* schemas                                                                                    *)
Definition schema_ok (sc : schema) : Prop :=
  NoDup (map fst sc) /\ Forall (fun e => 1 <= fst e /\ fst e <= max_field_num) sc.

(* a value list that is a message of the schema with in-range fields *)
Definition flat_valid (sc : schema) (m : list fval) : Prop :=
  flat_ok sc m = true /\ Forall val_range m.

Lemma tmap_tfold_skip num k sc v fs : forall m,
  Forall (fun f => fst f <> num) fs ->
  tfold (flat_apply ((num, k) :: sc)) fs (v :: m) = tmap (cons v) (tfold (flat_apply sc) fs m).
Proof.
  induction fs as [|f fs IH]; intros m W; cbn [tfold]; [reflexivity|].
  inversion W as [|? ? Hf Wr]; subst.
  cbn [flat_apply]. destruct (N.eqb_spec (fst f) num) as [E|_]; [contradiction|].
  destruct (flat_apply sc m f) as [m2| |]; cbn [tmap tbind]; [apply IH; exact Wr|reflexivity|reflexivity].
Qed.

Lemma enc_one_num num k v f : In f (enc_one num k v) -> fst f = num.
Proof.
  destruct k, v as [b|z]; cbn [enc_one]; try (intros []);
    try (destruct (is_nil b); [intros []|intros [<-|[]]; reflexivity]).
  destruct (z =? 0)%Z; [intros []|intros [<-|[]]; reflexivity].
Qed.

Lemma flat_fields_nums sc : forall m f, In f (flat_fields sc m) -> In (fst f) (map fst sc).
Proof.
  induction sc as [|[num k] sc IH]; intros m f Hin; [destruct Hin|].
  destruct m as [|v m]; [destruct Hin|]. cbn [flat_fields] in Hin. apply in_app_or in Hin.
  cbn [map fst]. destruct Hin as [Hin|Hin]; [left; symmetry; eapply enc_one_num; exact Hin|right; eapply IH; exact Hin].
Qed.

Lemma enc_one_apply num k sc v m' :
  val_ok k v = true -> val_range v ->
  tfold (flat_apply ((num, k) :: sc)) (enc_one num k v) (default_of k :: m') = TOk (v :: m').
Proof.
  destruct k, v as [b|z]; cbn [val_ok enc_one default_of val_range]; try discriminate; intros Hu Hr.
  - destruct (is_nil b) eqn:E; [apply is_nil_spec in E; subst; reflexivity|].
    cbn [tfold flat_apply fst snd conv_of]. rewrite N.eqb_refl, Hu. reflexivity.
  - destruct (is_nil b) eqn:E; [apply is_nil_spec in E; subst; reflexivity|].
    cbn [tfold flat_apply fst snd conv_of]. rewrite N.eqb_refl. reflexivity.
  - destruct (Z.eqb_spec z 0) as [->|_]; [reflexivity|].
    cbn [tfold flat_apply fst snd conv_of]. rewrite N.eqb_refl, int64_roundtrip by exact Hr. reflexivity.
Qed.

Theorem flat_apply_roundtrip sc : forall m,
  NoDup (map fst sc) -> flat_valid sc m ->
  tfold (flat_apply sc) (flat_fields sc m) (defaults sc) = TOk m.
Proof.
  induction sc as [|[num k] sc IH]; intros m Hn [Hok Hr].
  - destruct m; [reflexivity|discriminate].
  - destruct m as [|v m]; [discriminate|]. cbn [flat_ok] in Hok. apply andb_prop in Hok. destruct Hok as [Hv Hok].
    inversion Hr as [|? ? Hrv Hrm]; subst. cbn [map fst] in Hn. inversion Hn as [|? ? Hnin Hn']; subst.
    cbn [flat_fields defaults map snd]. rewrite tfold_app. fold (defaults sc).
    rewrite enc_one_apply by assumption. cbn [tbind].
    rewrite tmap_tfold_skip.
    + rewrite IH by (try split; assumption). reflexivity.
    + apply Forall_forall. intros f Hin E. apply Hnin. rewrite <- E. eapply flat_fields_nums. exact Hin.
Qed.

(* the fields an encoder produces are well formed as soon as the whole is shorter than 2^64 *)
Lemma enc_one_wf num k v f :
  1 <= num -> num <= max_field_num -> In f (enc_one num k v) -> len_of (enc_field f) < two64 -> wf_field f.
Proof.
  intros H1 H2 Hin Hl.
  assert (Hlen : forall b, f = (num, WLen b) -> wf_field f).
  { intros b ->. apply wf_len_field; [assumption|assumption|].
    eapply N.le_lt_trans; [apply enc_len_field_len|exact Hl]. }
  destruct k, v as [b|z]; cbn [enc_one] in Hin; try (destruct Hin);
    try (destruct (is_nil b); [destruct Hin|destruct Hin as [<-|[]]; eapply Hlen; reflexivity]).
  destruct (z =? 0)%Z; [destruct Hin|]. destruct Hin as [<-|[]].
  repeat split; cbn [fst snd wf_val]; [assumption|assumption|apply int64_to_u64_bound].
Qed.

Lemma flat_fields_wf sc : forall m,
  Forall (fun e => 1 <= fst e /\ fst e <= max_field_num) sc ->
  len_of (enc_flat sc m) < two64 -> Forall wf_field (flat_fields sc m).
Proof.
  intros m Hs Hl. apply Forall_forall. intros f Hin.
  assert (Hlf : len_of (enc_field f) < two64).
  { eapply N.le_lt_trans; [apply (enc_fields_in_len f (flat_fields sc m)); exact Hin|exact Hl]. }
  clear Hl. revert m Hin. induction Hs as [|[num k] sc [H1 H2] _ IH]; intros m Hin; [destruct Hin|].
  destruct m as [|v m]; [destruct Hin|]. cbn [flat_fields] in Hin. apply in_app_or in Hin.
  destruct Hin as [Hin|Hin]; [eapply enc_one_wf; eassumption|eapply IH; exact Hin].
Qed.

(* Unmarshal(Marshal m) = m for a message of scalar fields *)
Theorem decode_flat_enc sc m :
  schema_ok sc -> flat_valid sc m -> len_of (enc_flat sc m) < two64 ->
  decode_flat sc (enc_flat sc m) = TOk m.
Proof.
  intros [Hn Hs] Hv Hl. unfold decode_flat, decode_flat_into, parse_fields, enc_flat.
  rewrite dec_fields_enc by (apply flat_fields_wf; assumption). cbn [tbind].
  apply flat_apply_roundtrip; assumption.
Qed.

Lemma schemas_ok :
  schema_ok hsreq_sc /\ schema_ok hsresp_sc /\ schema_ok peerinfo_sc /\ schema_ok bid_sc /\
  schema_ok preconf_rest_sc.
Proof.
  unfold schema_ok, max_field_num.
  repeat split; cbn [map fst hsreq_sc hsresp_sc peerinfo_sc bid_sc preconf_rest_sc];
    repeat constructor; cbn [In fst]; try lia; intuition discriminate.
Qed.

Lemma flat_schema_ok k : schema_ok (flat_schema k).
Proof.
  destruct schemas_ok as (H0 & H1 & H2 & H3 & _).
  unfold flat_schema. destruct k as [|[p|p|]]; try assumption; destruct p; assumption.
Qed.

(* ---------------------------------------------------------------------------------------- *)
(* PeerList                                                                                   *)
Lemma tfold_peers ps : forall acc,
  Forall (fun p => flat_valid peerinfo_sc p /\ len_of (enc_flat peerinfo_sc p) < two64) ps ->
  tfold peers_apply (peers_fields ps) acc = TOk (acc ++ ps).
Proof.
  induction ps as [|p ps IH]; intros acc W; cbn [peers_fields map tfold].
  - rewrite app_nil_r. reflexivity.
  - inversion W as [|? ? [Hv Hl] Wr]; subst. unfold peers_apply at 1. cbn [fst snd N.eqb Pos.eqb].
    rewrite decode_flat_enc by (try apply schemas_ok; assumption). cbn [tbind].
    fold (peers_fields ps). rewrite IH by exact Wr. rewrite <- app_assoc. reflexivity.
Qed.

Definition peers_valid (ps : list (list fval)) : Prop := Forall (flat_valid peerinfo_sc) ps.

Lemma peers_fields_wf ps : len_of (enc_peers ps) < two64 -> Forall wf_field (peers_fields ps).
Proof.
  intros Hl. apply Forall_forall. intros f Hin.
  assert (Hlf : len_of (enc_field f) < two64).
  { eapply N.le_lt_trans; [apply (enc_fields_in_len f (peers_fields ps)); exact Hin|exact Hl]. }
  unfold peers_fields in Hin. apply in_map_iff in Hin. destruct Hin as (p & <- & _).
  apply wf_len_field; [lia|unfold max_field_num; lia|].
  eapply N.le_lt_trans; [apply enc_len_field_len|exact Hlf].
Qed.

Theorem decode_peers_enc ps :
  peers_valid ps -> len_of (enc_peers ps) < two64 -> decode_peers (enc_peers ps) = TOk ps.
Proof.
  intros Hv Hl. unfold decode_peers, parse_fields. unfold enc_peers at 1.
  rewrite dec_fields_enc by (apply peers_fields_wf; exact Hl). cbn [tbind].
  apply (tfold_peers ps []). apply Forall_forall. intros p Hin. split.
  - unfold peers_valid in Hv. rewrite Forall_forall in Hv. apply Hv. exact Hin.
  - assert (Hf : In (1, WLen (enc_flat peerinfo_sc p)) (peers_fields ps)).
    { unfold peers_fields. apply in_map_iff. exists p. split; [reflexivity|exact Hin]. }
    eapply N.le_lt_trans; [apply (enc_len_field_len 1)|].
    eapply N.le_lt_trans; [apply (enc_fields_in_len _ _ Hf)|exact Hl].
Qed.

(* ---------------------------------------------------------------------------------------- *)
(* PreConfirmation                                                                            *)
Definition preconf_valid (p : preconf) : Prop :=
  match pc_bid p with Some b => flat_valid bid_sc b | None => True end /\
  flat_valid preconf_rest_sc (pc_rest p).

Lemma tfold_preconf_rest fs : forall b r,
  Forall (fun f => fst f <> 1) fs ->
  tfold preconf_apply fs {| pc_bid := b; pc_rest := r |} =
  tmap (fun r' => {| pc_bid := b; pc_rest := r' |}) (tfold (flat_apply preconf_rest_sc) fs r).
Proof.
  induction fs as [|f fs IH]; intros b r W; cbn [tfold]; [reflexivity|].
  inversion W as [|? ? Hf Wr]; subst. unfold preconf_apply at 1. cbn [pc_bid pc_rest].
  destruct (N.eqb_spec (fst f) 1) as [E|_]; [contradiction|].
  destruct (flat_apply preconf_rest_sc r f) as [r2| |]; cbn [tmap tbind]; [apply IH; exact Wr|reflexivity|reflexivity].
Qed.

Lemma preconf_fields_wf p : len_of (enc_preconf p) < two64 -> Forall wf_field (preconf_fields p).
Proof.
  intros Hl. apply Forall_forall. intros f Hin.
  assert (Hlf : len_of (enc_field f) < two64).
  { eapply N.le_lt_trans; [apply (enc_fields_in_len f (preconf_fields p)); exact Hin|exact Hl]. }
  unfold preconf_fields in Hin. apply in_app_or in Hin. destruct Hin as [Hin|Hin].
  - destruct (pc_bid p); [|destruct Hin]. destruct Hin as [<-|[]].
    apply wf_len_field; [lia|unfold max_field_num; lia|].
    eapply N.le_lt_trans; [apply enc_len_field_len|exact Hlf].
  - destruct schemas_ok as (_ & _ & _ & _ & [_ Hs]).
    revert Hin. generalize (pc_rest p). clear Hl. induction Hs as [|[num k] sc [H1 H2] _ IH]; intros m Hin; [destruct Hin|].
    destruct m as [|v m]; [destruct Hin|]. cbn [flat_fields] in Hin. apply in_app_or in Hin.
    destruct Hin as [Hin|Hin]; [eapply enc_one_wf; eassumption|eapply IH; exact Hin].
Qed.

Theorem decode_preconf_enc p :
  preconf_valid p -> len_of (enc_preconf p) < two64 -> decode_preconf (enc_preconf p) = TOk p.
Proof.
  intros [Hb Hr] Hl. unfold decode_preconf, parse_fields. unfold enc_preconf at 1.
  rewrite dec_fields_enc by (apply preconf_fields_wf; exact Hl). cbn [tbind].
  assert (Hrest : forall b,
    tfold preconf_apply (flat_fields preconf_rest_sc (pc_rest p)) {| pc_bid := b; pc_rest := defaults preconf_rest_sc |} =
    TOk {| pc_bid := b; pc_rest := pc_rest p |}).
  { intros b. rewrite tfold_preconf_rest.
    - rewrite flat_apply_roundtrip by (try apply schemas_ok; assumption). reflexivity.
    - apply Forall_forall. intros f Hin E. apply flat_fields_nums in Hin. rewrite E in Hin.
      cbn in Hin. intuition discriminate. }
  destruct p as [[b|] r]; unfold preconf_fields; cbn [pc_bid pc_rest] in *.
  - rewrite tfold_app. cbn [tfold]. unfold preconf_apply at 1, empty_preconf. cbn [fst snd N.eqb Pos.eqb pc_bid pc_rest].
    fold (decode_flat bid_sc (enc_flat bid_sc b)).
    rewrite decode_flat_enc; [| apply schemas_ok | exact Hb |].
    + cbn [tbind]. apply Hrest.
    + assert (Hf : In (1, WLen (enc_flat bid_sc b)) (preconf_fields {| pc_bid := Some b; pc_rest := r |})) by (left; reflexivity).
      eapply N.le_lt_trans; [apply (enc_len_field_len 1)|].
      eapply N.le_lt_trans; [apply (enc_fields_in_len _ _ Hf)|exact Hl].
  - cbn [app]. apply Hrest.
Qed.

(* ---------------------------------------------------------------------------------------- *)
(* all message types at once                                                                  *)
Definition wire_kind (m : wmsg) : N :=
  match m with MFlat k _ => k | MPeers _ => 4 | MPreconf _ => 5 end.
Definition wire_valid (m : wmsg) : Prop :=
  match m with
  | MFlat k vs => k < 4 /\ flat_valid (flat_schema k) vs
  | MPeers ps => peers_valid ps
  | MPreconf p => preconf_valid p
  end.
Definition wire_enc (m : wmsg) : bytes :=
  match m with
  | MFlat k vs => enc_flat (flat_schema k) vs
  | MPeers ps => enc_peers ps
  | MPreconf p => enc_preconf p
  end.

Lemma forallb_flat_ok ps : peers_valid ps -> forallb (flat_ok peerinfo_sc) ps = true.
Proof. intros H. apply forallb_forall. intros p Hin. unfold peers_valid in H. rewrite Forall_forall in H. apply H. exact Hin. Qed.

(* Marshal of a valid message succeeds with the modelled bytes *)
Lemma wire_marshal_valid m : wire_valid m -> wire_marshal m = Some (wire_enc m).
Proof.
  destruct m as [k vs|ps|p]; cbn [wire_valid wire_marshal wire_enc].
  - intros [_ [Hok _]]. unfold marshal_flat. rewrite Hok. reflexivity.
  - intros H. unfold marshal_peers. rewrite forallb_flat_ok by exact H. reflexivity.
  - intros [Hb [Hr _]]. unfold marshal_preconf, preconf_ok. rewrite Hr.
    destruct (pc_bid p) as [b|]; [destruct Hb as [-> _]|]; reflexivity.
Qed.

Theorem wire_roundtrip m :
  wire_valid m -> len_of (wire_enc m) < two64 -> wire_unmarshal (wire_kind m) (wire_enc m) = TOk m.
Proof.
  destruct m as [k vs|ps|p]; cbn [wire_valid wire_enc wire_kind]; unfold wire_unmarshal.
  - intros [Hk Hv] Hl.
    destruct (N.eqb_spec k 4) as [->|_]; [lia|]. destruct (N.eqb_spec k 5) as [->|_]; [lia|].
    rewrite decode_flat_enc by (try apply flat_schema_ok; assumption). reflexivity.
  - intros Hv Hl. cbn [N.eqb Pos.eqb]. rewrite decode_peers_enc by assumption. reflexivity.
  - intros Hv Hl. cbn [N.eqb Pos.eqb]. rewrite decode_preconf_enc by assumption. reflexivity.
Qed.

(* with named fields *)
Theorem decode_bid_enc b :
  bid_in_range b -> len_of (encode_bid b) < two64 -> decode_bid (encode_bid b) = TOk b.
Proof.
  intros (H1 & H2 & H3 & H4 & H5) Hl. unfold decode_bid, encode_bid in *.
  rewrite decode_flat_enc; [destruct b; reflexivity|apply schemas_ok| |exact Hl].
  split; [cbn; rewrite H1, H2; reflexivity|]. unfold bid_vals. repeat first [apply Forall_nil | apply Forall_cons]; cbn [val_range]; auto.
Qed.

Theorem decode_hsreq_enc h :
  utf8_valid (hq_peer_type h) = true -> utf8_valid (hq_token h) = true ->
  len_of (encode_hsreq h) < two64 -> decode_hsreq (encode_hsreq h) = TOk h.
Proof.
  intros H1 H2 Hl. unfold decode_hsreq, encode_hsreq in *.
  rewrite decode_flat_enc; [destruct h; reflexivity|apply schemas_ok| |exact Hl].
  split; [cbn; rewrite H1, H2; reflexivity|]. unfold hsreq_vals. repeat first [apply Forall_nil | apply Forall_cons]; cbn [val_range]; auto.
Qed.

Theorem decode_hsresp_enc h :
  utf8_valid (hp_peer_type h) = true ->
  len_of (encode_hsresp h) < two64 -> decode_hsresp (encode_hsresp h) = TOk h.
Proof.
  intros H1 Hl. unfold decode_hsresp, encode_hsresp in *.
  rewrite decode_flat_enc; [destruct h; reflexivity|apply schemas_ok| |exact Hl].
  split; [cbn; rewrite H1; reflexivity|]. unfold hsresp_vals. repeat first [apply Forall_nil | apply Forall_cons]; cbn [val_range]; auto.
Qed.

(* ---------------------------------------------------------------------------------------- *)
(* bounded work: the field-list decoder never needs more steps than the input has bytes; with
   any larger budget the result is the same (so running out of budget is never the reason for
   a refusal)                                                                                 *)
Theorem dec_fields_budget : forall fuel l fuel',
  (length l <= fuel)%nat -> (length l <= fuel')%nat -> dec_fields_n fuel l = dec_fields_n fuel' l.
Proof.
  induction fuel as [|k IH]; intros l fuel' H1 H2.
  - destruct l; [destruct fuel'; reflexivity|cbn in H1; lia].
  - destruct l as [|b l]; [destruct fuel'; reflexivity|].
    destruct fuel' as [|k']; [cbn in H2; lia|]. cbn [dec_fields_n].
    destruct (dec_field (b :: l)) as [f rest| |] eqn:E; try reflexivity.
    apply dec_field_shrinks in E. rewrite (IH rest k') by lia. reflexivity.
Qed.

Corollary dec_fields_budget_enough fuel l :
  (length l <= fuel)%nat -> dec_fields_n fuel l = dec_fields l.
Proof. intros H. apply dec_fields_budget; [exact H|apply Nat.le_refl]. Qed.

(* the number of fields decoded is at most the number of input bytes *)
Lemma dec_fields_n_count : forall fuel l fs, dec_fields_n fuel l = WFields fs -> (length fs <= length l)%nat.
Proof.
  induction fuel as [|k IH]; intros l fs H.
  - destruct l; cbn in H; [injection H as <-; cbn; lia|discriminate].
  - destruct l as [|b l]; [cbn in H; injection H as <-; cbn; lia|]. cbn [dec_fields_n] in H.
    destruct (dec_field (b :: l)) as [f rest| |] eqn:E; try discriminate.
    destruct (dec_fields_n k rest) as [fs'| |] eqn:E2; try discriminate. injection H as <-.
    apply dec_field_shrinks in E. apply IH in E2. cbn [length] in *. lia.
Qed.

(* what Unmarshal accepts is a message Marshal accepts: right shape, valid UTF-8 strings, int64
   values in range                                                                            *)
Lemma flat_apply_valid sc : forall m f m',
  flat_valid sc m -> flat_apply sc m f = TOk m' -> flat_valid sc m'.
Proof.
  induction sc as [|[num k] sc IH]; intros m f m' [Hok Hr] H.
  - destruct m; cbn in H; injection H as <-; split; assumption.
  - destruct m as [|v m]; [discriminate|]. cbn [flat_ok] in Hok. apply andb_prop in Hok. destruct Hok as [Hv Hok].
    inversion Hr as [|? ? Hrv Hrm]; subst. cbn [flat_apply] in H.
    destruct (fst f =? num).
    + destruct k, (snd f) as [x|x|x|x]; cbn [conv_of] in H;
        try (injection H as <-; split; [cbn [flat_ok]; rewrite Hv, Hok; reflexivity|constructor; assumption]).
      * destruct (utf8_valid x) eqn:Eu; [|discriminate]. injection H as <-.
        split; [cbn [flat_ok val_ok]; rewrite Eu, Hok; reflexivity|constructor; [exact I|assumption]].
      * injection H as <-. split; [cbn [flat_ok val_ok]; rewrite Hok; reflexivity|constructor; [exact I|assumption]].
      * injection H as <-. split; [cbn [flat_ok val_ok]; rewrite Hok; reflexivity|constructor; [apply u64_to_int64_range|assumption]].
    + destruct (flat_apply sc m f) as [m2| |] eqn:E; cbn [tmap] in H; try discriminate. injection H as <-.
      destruct (IH m f m2 (conj Hok Hrm) E) as [Hok2 Hr2].
      split; [cbn [flat_ok]; rewrite Hv, Hok2; reflexivity|constructor; assumption].
Qed.

Lemma tfold_flat_valid sc fs : forall m m',
  flat_valid sc m -> tfold (flat_apply sc) fs m = TOk m' -> flat_valid sc m'.
Proof.
  induction fs as [|f fs IH]; intros m m' Hv H; cbn [tfold] in H.
  - injection H as <-. exact Hv.
  - destruct (flat_apply sc m f) as [m2| |] eqn:E; cbn [tbind] in H; try discriminate.
    eapply IH; [eapply flat_apply_valid; eassumption|exact H].
Qed.

Lemma defaults_valid sc : flat_valid sc (defaults sc).
Proof.
  induction sc as [|[num k] sc [IH1 IH2]]; [split; [reflexivity|constructor]|].
  split; [cbn [defaults map snd flat_ok]; fold (defaults sc); rewrite IH1; destruct k; reflexivity|].
  cbn [defaults map snd]. constructor; [destruct k; cbn; unfold int64_range; try lia; exact I|exact IH2].
Qed.

Theorem decode_flat_sound sc b m : decode_flat sc b = TOk m -> flat_valid sc m.
Proof.
  unfold decode_flat, decode_flat_into. destruct (parse_fields b) as [fs| |]; cbn [tbind]; try discriminate.
  apply tfold_flat_valid, defaults_valid.
Qed.

(* ---------------------------------------------------------------------------------------- *)
(* the framing round trip with these codecs: Framing_proofs.typed_roundtrip asks for
   Unmarshal(Marshal m) = m for ALL values of the message type; here it is needed only for the
   messages written, which are valid ones                                                      *)
Section TypedOn.
  Variables M H : Type.
  Variable marshal : M -> bytes.
  Variable unmarshal : bytes -> option M.
  Variable hmarshal : H -> bytes.
  Variable hunmarshal : bytes -> option H.
  Variable PM : M -> Prop.
  Variable PH : H -> Prop.
  Variable PM_roundtrip : forall m, PM m -> len_of (marshal m) <= max_msg -> unmarshal (marshal m) = Some m.
  Variable PH_roundtrip : forall h, PH h -> len_of (hmarshal h) <= max_msg -> hunmarshal (hmarshal h) = Some h.

  Definition titem_valid (t : titem M H) : Prop :=
    match t with TMsg _ _ m => PM m | THdr _ _ h => PH h | TErr _ _ _ => True end.

  Lemma data_body_bound d : len_of d <= len_of (enc_streammsg (BData d)).
  Proof. cbn [enc_streammsg enc_fields]. rewrite app_nil_r. apply (enc_len_field_len 1). Qed.

  Theorem typed_roundtrip_on ts cs :
    Forall (titem_ok M H marshal hmarshal) ts -> Forall titem_valid ts ->
    concat cs = stream_of (map (lower M H marshal hmarshal) ts) ->
    let s := feed_chunks cs in
    dead s = false /\ rbuf s = [] /\ Forall2 (tdelivered M H unmarshal hunmarshal) ts (out s).
  Proof.
    intros W V E. cbv zeta.
    assert (W' : Forall item_ok (map (lower M H marshal hmarshal) ts)).
    { apply Forall_forall. intros it Hin. apply in_map_iff in Hin. destruct Hin as (t & <- & Hin).
      rewrite Forall_forall in W. apply W. exact Hin. }
    destruct (session_roundtrip _ cs W' E) as (Hd & Hr & HF). repeat split; try assumption.
    clear - W V HF PM_roundtrip PH_roundtrip.
    remember (out (feed_chunks cs)) as frs. clear Heqfrs. revert frs HF.
    induction W as [|t ts Ht _ IH]; intros frs HF; cbn [map] in HF; inversion HF as [|? fr ? frs' Hd HF']; subst;
      inversion V as [|? ? Vt Vr]; subst; constructor; [|apply IH; assumption].
    destruct Ht as [[Hlen _] Hne]. destruct t as [m|s|h]; cbn [lower delivered tdelivered titem_valid item_body] in *.
    - unfold tread_msg. rewrite Hd, PM_roundtrip; [reflexivity|exact Vt|].
      eapply N.le_trans; [apply data_body_bound|exact Hlen].
    - unfold tread_msg. rewrite Hd. destruct (Z.eqb_spec (st_code s) 0); [contradiction|reflexivity].
    - unfold tread_header. rewrite Hd, PH_roundtrip; [reflexivity|exact Vt|exact Hlen].
  Qed.
End TypedOn.

Definition opt_of {A} (t : tri A) : option A := match t with TOk a => Some a | _ => None end.

Lemma max_msg_two64 n : n <= max_msg -> n < two64.
Proof. intros H. pose proof max_lt_two64. lia. Qed.

(* headers: the map framing of model/Framing.v (distinct UTF-8 keys, values opaque) *)
Definition header_valid (h : list hentry) : Prop :=
  NoDup (map fst h) /\ Forall (fun e => utf8_valid (fst e) = true) h.
Definition hdr_unmarshal (b : bytes) : option (list hentry) := opt_of (decode_header b).

Lemma hdr_roundtrip h : header_valid h -> len_of (enc_header h) <= max_msg -> hdr_unmarshal (enc_header h) = Some h.
Proof. intros [ND Hu] Hl. unfold hdr_unmarshal. rewrite decode_header_enc by assumption. reflexivity. Qed.

(* a stream carrying protocol messages of kind k (0 HandshakeReq, 1 HandshakeResp, 2 PeerInfo,
   3 Bid, 4 PeerList, 5 PreConfirmation), headers and status errors *)
Definition wire_of_kind (k : N) (m : wmsg) : Prop := wire_valid m /\ wire_kind m = k.
Definition wire_unmarshal_opt (k : N) (b : bytes) : option wmsg := opt_of (wire_unmarshal k b).

Theorem roundtrip_concrete k (ts : list (titem wmsg (list hentry))) cs :
  Forall (titem_ok wmsg (list hentry) wire_enc enc_header) ts ->
  Forall (titem_valid wmsg (list hentry) (wire_of_kind k) header_valid) ts ->
  concat cs = stream_of (map (lower wmsg (list hentry) wire_enc enc_header) ts) ->
  let s := feed_chunks cs in
  dead s = false /\ rbuf s = [] /\
  Forall2 (tdelivered wmsg (list hentry) (wire_unmarshal_opt k) hdr_unmarshal) ts (out s).
Proof.
  apply typed_roundtrip_on.
  - intros m [Hv <-] Hl. unfold wire_unmarshal_opt. rewrite wire_roundtrip; [reflexivity|exact Hv|].
    apply max_msg_two64. exact Hl.
  - exact hdr_roundtrip.
Qed.

(* the same with named fields, for the messages of the preconfirmation and handshake protocols *)
Definition bid_unmarshal (b : bytes) : option bid := opt_of (decode_bid b).
Theorem roundtrip_concrete_bid (ts : list (titem bid (list hentry))) cs :
  Forall (titem_ok bid (list hentry) encode_bid enc_header) ts ->
  Forall (titem_valid bid (list hentry) bid_in_range header_valid) ts ->
  concat cs = stream_of (map (lower bid (list hentry) encode_bid enc_header) ts) ->
  let s := feed_chunks cs in
  dead s = false /\ rbuf s = [] /\
  Forall2 (tdelivered bid (list hentry) bid_unmarshal hdr_unmarshal) ts (out s).
Proof.
  apply typed_roundtrip_on.
  - intros m Hv Hl. unfold bid_unmarshal. rewrite decode_bid_enc; [reflexivity|exact Hv|].
    apply max_msg_two64. exact Hl.
  - exact hdr_roundtrip.
Qed.

Definition hsreq_in_range (h : hsreq) : Prop :=
  utf8_valid (hq_peer_type h) = true /\ utf8_valid (hq_token h) = true.
Definition hsreq_unmarshal (b : bytes) : option hsreq := opt_of (decode_hsreq b).
Theorem roundtrip_concrete_hsreq (ts : list (titem hsreq (list hentry))) cs :
  Forall (titem_ok hsreq (list hentry) encode_hsreq enc_header) ts ->
  Forall (titem_valid hsreq (list hentry) hsreq_in_range header_valid) ts ->
  concat cs = stream_of (map (lower hsreq (list hentry) encode_hsreq enc_header) ts) ->
  let s := feed_chunks cs in
  dead s = false /\ rbuf s = [] /\
  Forall2 (tdelivered hsreq (list hentry) hsreq_unmarshal hdr_unmarshal) ts (out s).
Proof.
  apply typed_roundtrip_on.
  - intros m [H1 H2] Hl. unfold hsreq_unmarshal. rewrite decode_hsreq_enc; [reflexivity|exact H1|exact H2|].
    apply max_msg_two64. exact Hl.
  - exact hdr_roundtrip.
Qed.

Definition hsresp_in_range (h : hsresp) : Prop := utf8_valid (hp_peer_type h) = true.
Definition hsresp_unmarshal (b : bytes) : option hsresp := opt_of (decode_hsresp b).
Theorem roundtrip_concrete_hsresp (ts : list (titem hsresp (list hentry))) cs :
  Forall (titem_ok hsresp (list hentry) encode_hsresp enc_header) ts ->
  Forall (titem_valid hsresp (list hentry) hsresp_in_range header_valid) ts ->
  concat cs = stream_of (map (lower hsresp (list hentry) encode_hsresp enc_header) ts) ->
  let s := feed_chunks cs in
  dead s = false /\ rbuf s = [] /\
  Forall2 (tdelivered hsresp (list hentry) hsresp_unmarshal hdr_unmarshal) ts (out s).
Proof.
  apply typed_roundtrip_on.
  - intros m H1 Hl. unfold hsresp_unmarshal. rewrite decode_hsresp_enc; [reflexivity|exact H1|].
    apply max_msg_two64. exact Hl.
  - exact hdr_roundtrip.
Qed.

(* ---------------------------------------------------------------------------------------- *)
(* non-vacuity and the shapes of the wire format                                              *)
Definition ex_bid : bid :=
  {| b_tx_hash := x "30786162"; b_amount := x "313030"; b_block := 7; b_digest := x "d1d2"; b_sig := [];
     b_decay_start := (-1)%Z; b_decay_end := 300 |}.

Example ex_wire_bid :
  bid_in_range ex_bid /\
  encode_bid ex_bid = x "0a0430786162120331303018072202d1d230ffffffffffffffffff0138ac02" /\
  decode_bid (encode_bid ex_bid) = TOk ex_bid /\
  (* an unknown field (number 9, varint) and a known number with another wire type (3 as bytes)
     are skipped; the last occurrence of a scalar wins; invalid UTF-8 in a string is refused;
     a truncated field is refused *)
  decode_bid (x "4805" ++ x "1a0141" ++ x "1807" ++ x "1809") =
    TOk {| b_tx_hash := []; b_amount := []; b_block := 9; b_digest := []; b_sig := [];
           b_decay_start := 0; b_decay_end := 0 |} /\
  decode_bid (x "0a02c328") = TBad /\
  decode_bid (x "0a05307861") = TBad /\
  marshal_flat bid_sc (bid_vals {| b_tx_hash := x "c328"; b_amount := []; b_block := 0; b_digest := [];
                                   b_sig := []; b_decay_start := 0; b_decay_end := 0 |}) = None.
Proof.
  split; [unfold bid_in_range, int64_range; cbn; repeat split; lia|].
  repeat split; vm_compute; reflexivity.
Qed.

Example ex_wire_nested :
  let p := {| pc_bid := Some (defaults bid_sc); pc_rest := [VB (x "aa"); VB []; VB (x "bb")] |} in
  let q := {| pc_bid := None; pc_rest := [VB (x "aa"); VB []; VB (x "bb")] |} in
  enc_preconf p = x "0a001201aa2201bb" /\ enc_preconf q = x "1201aa2201bb" /\
  decode_preconf (enc_preconf p) = TOk p /\ decode_preconf (enc_preconf q) = TOk q /\
  (* a second occurrence of the message field merges into the first *)
  decode_preconf (x "0a021807" ++ x "0a03120135") =
    TOk {| pc_bid := Some [VB []; VB (x "35"); VI 7; VB []; VB []; VI 0; VI 0]; pc_rest := defaults preconf_rest_sc |} /\
  (* repeated elements are written even when empty and read back in order *)
  enc_peers [[VB []; VB []]; [VB (x "01"); VB (x "02")]] = x "0a000a060a0101120102" /\
  decode_peers (x "0a000a060a0101120102") = TOk [[VB []; VB []]; [VB (x "01"); VB (x "02")]].
Proof. cbv zeta. repeat split; vm_compute; reflexivity. Qed.

Example ex_roundtrip_concrete :
  let ts := [TMsg wmsg (list hentry) (MFlat 3 (bid_vals ex_bid)); THdr wmsg (list hentry) [(x "6b", x "1a0176")];
             TMsg wmsg (list hentry) (MFlat 3 (defaults bid_sc))] in
  Forall (titem_ok wmsg (list hentry) wire_enc enc_header) ts /\
  Forall (titem_valid wmsg (list hentry) (wire_of_kind 3) header_valid) ts.
Proof.
  cbv zeta. split.
  - repeat constructor; try (vm_compute; congruence).
  - repeat constructor; try (vm_compute; congruence); cbn; unfold int64_range; try lia;
      try (intros []); try (intros [|[]]).
Qed.

(* ---------------------------------------------------------------------------------------- *)
(* the wire clauses of check/Check_C13.v accept the model: for every valid message, the case the
   model itself produces agrees with the model and trips no clause; and ANY observation of the
   marshal class that agrees with the model and whose real Unmarshal gave the message back is
   reported clean (the "wire format as specified reads it back" half of the clause follows from
   the round trip theorem, it needs no premise)                                                *)
Lemma list_eqb_refl {A} (eqb : A -> A -> bool) (l : list A) :
  (forall a, eqb a a = true) -> list_eqb eqb l l = true.
Proof. intros H. induction l as [|a l IH]; cbn [list_eqb]; [reflexivity|]. rewrite H, IH. reflexivity. Qed.

Lemma fval_eqb_refl v : fval_eqb v v = true.
Proof. destruct v; cbn [fval_eqb]; [apply bytes_eqb_refl|apply Z.eqb_refl]. Qed.

Lemma vals_eqb_refl vs : vals_eqb vs vs = true.
Proof. apply list_eqb_refl, fval_eqb_refl. Qed.

Lemma wmsg_eqb_refl m : wmsg_eqb m m = true.
Proof.
  destruct m as [k vs|ps|[b r]]; cbn [wmsg_eqb pc_bid pc_rest].
  - rewrite N.eqb_refl, vals_eqb_refl. reflexivity.
  - apply list_eqb_refl, vals_eqb_refl.
  - rewrite vals_eqb_refl. destruct b; [rewrite vals_eqb_refl|]; reflexivity.
Qed.

Lemma wire_kind_of_eq m : wire_kind_of m = wire_kind m.
Proof. destruct m; reflexivity. Qed.

Lemma spec_reads_valid m : wire_valid m -> len_of (wire_enc m) < two64 -> spec_reads m (wire_enc m) = true.
Proof.
  intros Hv Hl. unfold spec_reads. rewrite wire_kind_of_eq, wire_roundtrip by assumption. apply wmsg_eqb_refl.
Qed.

Theorem checker_accepts_agreeing_wire_enc m got :
  wire_valid m -> len_of (wire_enc m) < two64 ->
  agrees (WireEnc m got (Some m)) = true -> violation (WireEnc m got (Some m)) = [].
Proof.
  intros Hv Hl Ha. cbn [agrees violation] in *. rewrite (wire_marshal_valid m Hv) in Ha.
  destruct got as [b|]; [|reflexivity]. apply bytes_eqb_eq in Ha. subst b.
  cbn [wire_back_ok]. rewrite wmsg_eqb_refl, spec_reads_valid by assumption. reflexivity.
Qed.

Theorem checker_accepts_model_wire m :
  wire_valid m -> len_of (wire_enc m) < two64 ->
  let c := WireEnc m (wire_marshal m) (Some m) in
  agrees c = true /\ violation c = [] /\
  forall k l, agrees (WireDec k l (opt_of (wire_unmarshal k l))) = true /\
              violation (WireDec k l (opt_of (wire_unmarshal k l))) = [].
Proof.
  intros Hv Hl. cbv zeta.
  assert (Ha : agrees (WireEnc m (wire_marshal m) (Some m)) = true).
  { cbn [agrees]. rewrite (wire_marshal_valid m Hv). apply bytes_eqb_refl. }
  split; [exact Ha|]. split; [apply checker_accepts_agreeing_wire_enc; assumption|].
  intros k l. split; [|reflexivity]. cbn [agrees].
  destruct (wire_unmarshal k l) as [m'| |]; cbn [opt_of]; [apply wmsg_eqb_refl|reflexivity|reflexivity].
Qed.

Example ex_checker_wire :
  let m := MFlat 3 (bid_vals ex_bid) in
  wire_valid m /\ agrees (WireEnc m (wire_marshal m) (Some m)) = true /\
  (* the two hand mutations of round A5, as the checker sees them: digest written under number 5;
     block number written zigzag *)
  violation (WireEnc m (Some (x "0a0430786162120331303018072a02d1d230ffffffffffffffffff0138ac02")) (Some m)) = ["roundtrip"%string] /\
  violation (WireEnc m (Some (x "0a04307861621203313030180e2202d1d230ffffffffffffffffff0138ac02")) (Some m)) = ["roundtrip"%string].
Proof.
  cbv zeta. split; [|repeat split; vm_compute; reflexivity].
  split; [vm_compute; reflexivity|]. split; [vm_compute; reflexivity|].
  unfold bid_vals, ex_bid. repeat first [apply Forall_nil | apply Forall_cons]; cbn; unfold int64_range; try lia; exact I.
Qed.
