(* C15 -- further clauses of the overlap (mode 2) checker on the step model, for arbitrary schedules. *)
From Coq Require Import String List NArith ZArith Bool Lia.
From MevVerif Require Import lib.Bytes proofs.Bytes_proofs gen.Generated model.Topology check.Check_C15 proofs.Topology_proofs.
Import ListNotations.
Open Scope N_scope.

(* WIRES: whatever the schedule, the PeerLists a call writes are exactly the ones its announcer calls
   lead to under the call's own fault table: one per announcer call whose stream opens, carrying the
   encoded records. *)
Lemma expected_wires_app ann a b : expected_wires ann (a ++ b) = expected_wires ann a ++ expected_wires ann b.
Proof. apply flat_map_app. Qed.
Lemma wires_app a b : wires (a ++ b) = wires a ++ wires b.
Proof. apply flat_map_app. Qed.
Lemma announces_app a b : announces (a ++ b) = announces a ++ announces b.
Proof. apply flat_map_app. Qed.
Lemma broadcast_wires ann t recs :
  wires (broadcast ann t recs) = expected_wires ann (announces (broadcast ann t recs)).
Proof. unfold broadcast, expected_wires. cbn. destruct (stream_opens ann t); reflexivity. Qed.

Definition ann_is (c : N) (ann : list (peer * N)) (s : sstate) : Prop :=
  forall k, find_call c (calls s) = Some k -> k_ann k = ann.

Lemma sstep_wires c ann s e :
  ann_is c ann s -> (forall p lk ann', e = SAdd c p lk ann' -> ann' = ann) ->
  ann_is c ann (fst (sstep s e))
  /\ (is_call c e = true -> wires (snd (sstep s e)) = expected_wires ann (announces (snd (sstep s e)))).
Proof.
  intros I Ha. unfold ann_is in *.
  assert (SET : forall d k0 k1, find_call d (calls s) = Some k0 -> k_ann k1 = k_ann k0 ->
            forall k, find_call c (set_call d k1 (calls s)) = Some k -> k_ann k = ann).
  { intros d k0 k1 F E k. destruct (N.eq_dec d c) as [->|Hd].
    - rewrite find_set_same by congruence. intros [= <-]. rewrite E. apply I, F.
    - rewrite find_set_other by congruence. apply I. }
  destruct e as [d p lk ann'|d|d|d|d|e]; cbn [sstep is_call call_of].
  - destruct (find_call d (calls s)) eqn:F; cbn [fst snd calls]; [split; [exact I|reflexivity]|].
    split; [|reflexivity]. intros k. cbn [find_call]. destruct (N.eqb_spec d c) as [->|_]; [|apply I].
    intros [= <-]. cbn. eapply Ha. reflexivity.
  - destruct (find_call d (calls s)) as [k0|] eqn:F; [|split; [exact I|reflexivity]].
    destruct (k_pc k0 =? 0); cbn [fst snd calls]; [|split; [exact I|reflexivity]].
    split; [|reflexivity]. eapply SET; [exact F|reflexivity].
  - destruct (find_call d (calls s)) as [k0|] eqn:F; [|split; [exact I|reflexivity]].
    destruct (k_pc k0 =? 1); cbn [fst snd calls]; [|split; [exact I|reflexivity]].
    split; [eapply SET; [exact F|reflexivity]|].
    intros Ec. apply N.eqb_eq in Ec. subst d. rewrite (I _ F).
    destruct (records_for (k_peer k0) (k_lk k0) (k_provs k0)); [reflexivity|apply broadcast_wires].
  - destruct (find_call d (calls s)) as [k0|] eqn:F; [|split; [exact I|reflexivity]].
    destruct (k_pc k0 =? 2); [|split; [exact I|reflexivity]].
    destruct (p_role (k_peer k0) =? ROLE_PROVIDER)%Z; [|split; [exact I|reflexivity]].
    destruct (tbl_get (k_lk k0) (k_peer k0)); cbn [fst snd calls]; (split; [eapply SET; [exact F|reflexivity]|reflexivity]).
  - destruct (find_call d (calls s)) as [k0|] eqn:F; [|split; [exact I|reflexivity]].
    destruct (k_pc k0 =? 3); [|split; [exact I|reflexivity]].
    destruct (k_fan k0) as [|b rest]; [split; [exact I|reflexivity]|].
    destruct (tbl_get (k_lk k0) (k_peer k0)); cbn [fst snd calls]; [|split; [exact I|reflexivity]].
    split; [eapply SET; [exact F|reflexivity]|].
    intros Ec. apply N.eqb_eq in Ec. subst d. rewrite (I _ F). apply broadcast_wires.
  - cbn [fst calls]. split; [exact I|discriminate].
Qed.

Lemma call_effects_wires c ann l : forall s,
  ann_is c ann s -> (forall p lk ann', In (SAdd c p lk ann') l -> ann' = ann) ->
  wires (call_effects_from s c l) = expected_wires ann (announces (call_effects_from s c l)).
Proof.
  induction l as [|e r IH]; intros s I Ha; [reflexivity|]. cbn [call_effects_from].
  destruct (sstep_wires c ann s e I) as [I1 W]; [intros p lk ann' ->; eapply Ha; left; reflexivity|].
  rewrite wires_app, announces_app, expected_wires_app.
  rewrite (IH (fst (sstep s e)) I1) by (intros p lk ann' H; eapply Ha; right; exact H).
  destruct (is_call c e); [rewrite W by reflexivity; reflexivity|reflexivity].
Qed.

Theorem overlap_wires_accept_model acts w :
  NoDup (started_calls acts) -> In w (fst (windows abs_init [] acts)) ->
  let eff := call_effects (w_id w) (compile sinit acts) in
  ms_diff wmsg_eqb (wires eff) (expected_wires (w_ann w) (announces eff)) = []
  /\ ms_diff wmsg_eqb (expected_wires (w_ann w) (announces eff)) (wires eff) = [].
Proof.
  intros Hn Hw eff.
  assert (E : wires eff = expected_wires (w_ann w) (announces eff)).
  { unfold eff, call_effects. apply call_effects_wires.
    - intros k. cbn. discriminate.
    - intros p lk ann' Hs. apply compile_sadd in Hs.
      destruct (windows_from acts abs_init [] w Hw) as [[w0 [[] _]]|Hf].
      destruct (start_unique acts Hn _ _ _ _ _ _ _ Hs Hf) as [_ [_ Ea]]. exact Ea. }
  rewrite E. split; apply ms_diff_refl, wmsg_eqb_refl.
Qed.

(* NON-EMPTY: no call of the step model ever makes an announcer call with an empty record list,
   whatever the schedule (the "empty message to the newcomer" part of announce:extra) *)
Theorem overlap_nonempty_accept_model acts c :
  let eff := call_effects c (compile sinit acts) in
  existsb (fun m => is_nil (snd m)) (announces eff) = false.
Proof.
  intros eff. apply existsb_none. intros [t recs] Hin. cbn [snd].
  apply In_announces in Hin. apply step_sound in Hin.
  destruct Hin as [p [lk [ann [l1 [l2 [_ [[_ [Hne _]]|[_ [u [_ [-> _]]]]]]]]]]].
  - destruct recs; [congruence|reflexivity].
  - reflexivity.
Qed.

(* ================= the window invariant and the clauses that compare records with the window sets ================= *)
(* ---------- union / inter ---------- *)
Lemma In_union x l2 : forall l1, In x (union l1 l2) <-> In x l1 \/ In x l2.
Proof.
  unfold union. induction l2 as [|a r IH]; intros l1; cbn [fold_left]; [cbn [In]; tauto|].
  rewrite IH. destruct (amem a l1) eqn:E; cbn [In].
  - apply amem_In in E. split; [tauto|]. intros [H|[H|H]]; auto. subst; auto.
  - tauto.
Qed.
Lemma In_inter x l1 l2 : In x (inter l1 l2) <-> In x l1 /\ In x l2.
Proof. unfold inter. rewrite filter_In, amem_In. tauto. Qed.

(* ---------- windows only grow their "ever" sets and shrink their "always" sets ---------- *)
Definition wle (w0 w : win) : Prop :=
  w_id w0 = w_id w
  /\ incl (w_everP w0) (w_everP w) /\ incl (w_everB w0) (w_everB w)
  /\ incl (w_alwP w) (w_alwP w0) /\ incl (w_alwB w) (w_alwB w0).
Lemma wle_refl w : wle w w.
Proof. repeat split; apply incl_refl. Qed.
Lemma wle_trans a b c : wle a b -> wle b c -> wle a c.
Proof.
  intros [I1 [A1 [A2 [A3 A4]]]] [I2 [B1 [B2 [B3 B4]]]].
  split; [congruence|]. repeat split; eapply incl_tran; eassumption.
Qed.
Lemma wle_update A w : wle w (win_update A w).
Proof.
  unfold wle, win_update; cbn. split; [reflexivity|].
  repeat split; intros x H; try (apply In_union; left; exact H); apply In_inter in H; tauto.
Qed.

(* the abstract sets lie between the "always" and the "ever" sets of the window *)
Definition within (w : win) (A : abs) : Prop :=
  incl (aP A) (w_everP w) /\ incl (aB A) (w_everB w) /\ incl (w_alwP w) (aP A) /\ incl (w_alwB w) (aB A).
Lemma within_update A w : within (win_update A w) A.
Proof.
  unfold within, win_update; cbn.
  repeat split; intros x H; try (apply In_union; right; exact H); apply In_inter in H; tauto.
Qed.
Lemma within_wle w0 w A : wle w0 w -> within w0 A -> within w A.
Proof.
  intros [_ [B1 [B2 [B3 B4]]]] [A1 [A2 [A3 A4]]].
  repeat split; eapply incl_tran; eassumption.
Qed.

Lemma windows_mono l : forall A ws w, In w (fst (windows A ws l)) ->
  (exists w0, In w0 ws /\ wle w0 w) \/ In (w_id w) (started_calls l).
Proof.
  induction l as [|a l IH]; intros A ws w; cbn [windows fst].
  - intros H. left. exists w. split; [exact H|apply wle_refl].
  - intros H. apply IH in H.
    destruct H as [[w0 [Hin Hle]]|H].
    2:{ right. destruct a; cbn [started_calls flat_map app]; auto. right. exact H. }
    apply in_map_iff in Hin. destruct Hin as [w1 [E Hin]].
    assert (Hle1 : wle w1 w).
    { eapply wle_trans; [|exact Hle]. subst w0.
      destruct (acts_on (w_id w1) a || existsb (acts_on (w_id w1)) l); [apply wle_update|apply wle_refl]. }
    clear E Hle w0.
    destruct a as [c p lk ann|c|e]; try (left; exists w1; split; assumption).
    destruct (existsb (fun w2 => w_id w2 =? c) ws); [left; exists w1; split; assumption|].
    apply in_app_or in Hin. destruct Hin as [Hin|[<-|[]]]; [left; exists w1; split; assumption|].
    right. destruct Hle1 as [<- _]. cbn. left. reflexivity.
Qed.

(* a window that exists after the first action and whose call acts in it holds the sets of that moment *)
Lemma windows_head_within a l A ws w :
  In w (fst (windows A ws (a :: l))) -> acts_on (w_id w) a = true -> ~ In (w_id w) (started_calls l) ->
  within w (abs_act A a).
Proof.
  cbn [windows fst]. intros H Hact Hns. apply windows_mono in H. destruct H as [[w0 [Hin Hle]]|H]; [|contradiction].
  apply in_map_iff in Hin. destruct Hin as [w1 [E Hin]].
  assert (Ei : w_id w1 = w_id w).
  { destruct Hle as [<- _]. subst w0. destruct (acts_on (w_id w1) a || existsb (acts_on (w_id w1)) l); reflexivity. }
  rewrite Ei, Hact in E. cbn [orb] in E. subst w0.
  eapply within_wle; [exact Hle|].
  replace (abs_act A a) with (match a with AStart _ p _ _ => abs_add p A | ARelease _ => A | AOther e => abs_step A e [] end)
    by (destruct a; reflexivity).
  apply within_update.
Qed.

(* ---------- steps of a call leave the base and the set of known calls alone ---------- *)
Lemma call_steps_base l : Forall call_step_only l -> forall s,
  base (srun_from s l) = base s
  /\ forall c, find_call c (calls s) = None -> find_call c (calls (srun_from s l)) = None.
Proof.
  induction 1 as [|e r [He1 He2] Hr IH]; intros s; [split; auto|]. rewrite srun_from_cons.
  destruct (IH (fst (sstep s e))) as [I1 I2]. split.
  - rewrite I1. apply sstep_base_call; assumption.
  - intros c Hc. apply I2, sstep_unknown; [exact Hc|intros; apply He1].
Qed.

Lemma Forall_app_l {A} (P : A -> Prop) l1 l2 : Forall P (l1 ++ l2) -> Forall P l1.
Proof. intros H. apply Forall_forall. intros x Hx. eapply Forall_forall in H; [exact H|apply in_or_app; left; exact Hx]. Qed.

Lemma until_park_steps_only cand s : Forall call_step_only cand -> Forall call_step_only (snd (until_park s cand)).
Proof.
  intros H. apply Forall_forall. intros e He. apply until_park_sub in He. eapply Forall_forall in H; eassumption.
Qed.

Lemma until_park_quiet_snd s e r : announces (snd (sstep s e)) = [] ->
  snd (until_park s (e :: r)) = e :: snd (until_park (fst (sstep s e)) r).
Proof.
  intros H. cbn [until_park]. rewrite H. cbn [is_nil].
  destruct (until_park (fst (sstep s e)) r); reflexivity.
Qed.

Definition is_read (c : N) (rd : sevent) : Prop := rd = SReadProviders c \/ rd = SReadBidders c.

(* a read step inside the steps of one action: the action acts on that call, the base at the read is
   the base after the action, and the call was known before a release *)
Lemma act_read s a p1 rd p2 c :
  snd (act_steps s a) = p1 ++ rd :: p2 -> is_read c rd ->
  acts_on c a = true
  /\ base (srun_from s p1) = base (fst (act_steps s a))
  /\ (forall d, a = ARelease d -> find_call c (calls s) = None -> find_call c (calls (srun_from s p1)) = None).
Proof.
  intros E Hrd. destruct a as [d p lk ann|d|e]; cbn [act_steps] in *.
  - assert (Q : announces (snd (sstep s (SAdd d p lk ann))) = []).
    { cbn [sstep]. destruct (find_call d (calls s)); reflexivity. }
    rewrite (until_park_quiet_snd _ _ _ Q) in E. rewrite (until_park_quiet _ _ _ Q).
    set (s1 := fst (sstep s (SAdd d p lk ann))) in *.
    pose proof (until_park_steps_only _ s1 (call_cands d)) as Hso.
    pose proof (until_park_run [SReadProviders d; SAnnounce d; SReadBidders d; SFanout d] s1) as Hrun.
    assert (Hsub : forall e, In e (snd (until_park s1 [SReadProviders d; SAnnounce d; SReadBidders d; SFanout d])) ->
                   In e [SReadProviders d; SAnnounce d; SReadBidders d; SFanout d]) by (intros e; apply until_park_sub).
    destruct (until_park s1 [SReadProviders d; SAnnounce d; SReadBidders d; SFanout d]) as [s' done]. cbn [fst snd] in *.
    destruct p1 as [|e0 p1'].
    { cbn in E. inversion E. destruct Hrd; congruence. }
    cbn [app] in E. inversion E; subst e0. subst done.
    assert (Hc : c = d).
    { specialize (Hsub rd (in_elt _ _ _)). cbn [In] in Hsub.
      destruct Hrd as [-> | ->]; destruct Hsub as [H|[H|[H|[H|[]]]]]; inversion H; reflexivity. }
    split; [cbn; subst; apply N.eqb_refl|]. split; [|intros d0; discriminate].
    rewrite srun_from_cons. fold s1.
    destruct (call_steps_base _ (Forall_app_l _ _ _ Hso) s1) as [B1 _].
    destruct (call_steps_base _ Hso s1) as [B2 _]. rewrite Hrun in B2. congruence.
  - pose proof (until_park_steps_only _ s (release_cands d)) as Hso.
    pose proof (until_park_run [SReadBidders d; SFanout d] s) as Hrun.
    assert (Hsub : forall e, In e (snd (until_park s [SReadBidders d; SFanout d])) -> In e [SReadBidders d; SFanout d])
      by (intros e; apply until_park_sub).
    rewrite E in *.
    assert (Hc : c = d).
    { specialize (Hsub rd (in_elt _ _ _)). cbn [In] in Hsub.
      destruct Hrd as [-> | ->]; destruct Hsub as [H|[H|[]]]; inversion H; reflexivity. }
    destruct (call_steps_base _ (Forall_app_l _ _ _ Hso) s) as [B1 U1].
    destruct (call_steps_base _ Hso s) as [B2 _]. rewrite Hrun in B2.
    split; [cbn; subst; apply N.eqb_refl|]. split; [congruence|]. intros _ _. apply U1.
  - cbn [snd] in E. destruct p1 as [|e0 [|e1 p1']]; cbn in E; inversion E. destruct Hrd; congruence.
Qed.

Definition at_stage_from (s : sstate) (l : list sevent) (c : N) (n : N) : Prop :=
  exists k0, find_call c (calls (srun_from s l)) = Some k0 /\ k_pc k0 = n.

Lemma app_split {A} (x : A) : forall l1 l2 pre post, l1 ++ l2 = pre ++ x :: post ->
  (exists p2, l1 = pre ++ x :: p2 /\ post = p2 ++ l2) \/ (exists pre2, pre = l1 ++ pre2 /\ l2 = pre2 ++ x :: post).
Proof.
  induction l1 as [|a l1 IH]; intros l2 pre post E.
  - right. exists pre. auto.
  - destruct pre as [|b pre].
    + cbn in E. inversion E; subst. left. exists l1. auto.
    + cbn in E. inversion E; subst. destruct (IH _ _ _ H1) as [[p2 [E1 E2]]|[pre2 [E1 E2]]].
      * left. exists p2. subst. auto.
      * right. exists pre2. subst. auto.
Qed.

(* THE WINDOW INVARIANT: at every effective read step of a call (the one that takes a snapshot), the
   base state is abstracted by sets that lie between the "always" and the "ever" sets of the window the
   checker computes for that call from the schedule alone. *)
Lemma window_invariant_from l : forall s A ws,
  wf (base s) -> R (base s) A -> NoDup (started_calls l) -> Forall plain_other l ->
  (forall c, In c (started_calls l) -> find_call c (calls s) = None) ->
  forall w, In w (fst (windows A ws l)) ->
  forall pre rd post n, compile s l = pre ++ rd :: post -> is_read (w_id w) rd -> at_stage_from s pre (w_id w) n ->
  exists A0, R (base (srun_from s pre)) A0 /\ within w A0.
Proof.
  induction l as [|a l IH]; intros s A ws Hwf HR Hn Hp Hf w Hw pre rd post n E Hrd Hst.
  { destruct pre; discriminate. }
  inversion Hp as [|? ? Hpa Hpl]; subst.
  assert (Hfa : forall c p lk ann, a = AStart c p lk ann -> find_call c (calls s) = None).
  { intros c p lk ann ->. apply Hf. cbn. left; reflexivity. }
  destruct (act_R s A a Hwf HR Hpa Hfa) as [W [Rr U]].
  cbn [compile] in E. apply app_split in E. destruct E as [[p2 [E1 E2]]|[pre2 [E1 E2]]].
  - destruct (act_read s a pre rd p2 (w_id w) E1 Hrd) as [Hact [Hb Hk]].
    exists (abs_act A a). split; [rewrite Hb; exact Rr|].
    apply windows_head_within with (l := l) (ws := ws); [exact Hw|exact Hact|].
    intros Hin. destruct a as [d p lk ann|d|e]; cbn [acts_on] in Hact; try discriminate.
    + apply N.eqb_eq in Hact. subst d. cbn in Hn. inversion Hn; contradiction.
    + destruct Hst as [k0 [Hk0 _]]. rewrite (Hk d eq_refl) in Hk0; [discriminate|]. apply Hf. cbn. exact Hin.
  - subst pre. unfold at_stage_from in Hst. rewrite srun_from_app, act_steps_run in Hst |- *.
    cbn [windows fst] in Hw.
    eapply IH; try eassumption.
    + destruct a; cbn [started_calls flat_map app] in Hn |- *; auto. inversion Hn; assumption.
    + intros c Hc. apply U.
      * apply Hf. destruct a; cbn [started_calls flat_map app]; auto. right; exact Hc.
      * intros [p [lk [ann ->]]]. cbn [started_calls flat_map app] in Hn. inversion Hn; subst. contradiction.
Qed.

Theorem window_invariant acts w pre rd post n :
  NoDup (started_calls acts) -> Forall plain_other acts -> In w (fst (windows abs_init [] acts)) ->
  compile sinit acts = pre ++ rd :: post -> is_read (w_id w) rd -> at_stage pre (w_id w) n ->
  exists A0, R (base (srun pre)) A0 /\ within w A0.
Proof.
  intros Hn Hp Hw E Hrd Hst.
  eapply (window_invariant_from acts sinit abs_init []); try eassumption.
  - apply wf_init.
  - repeat split.
  - reflexivity.
Qed.

(* non-vacuity: in the directed schedule the provider call 3 reads its bidder snapshot inside a release
   action, and the invariant's conclusion holds with the sets of that moment *)
Example window_invariant_applies :
  exists w pre post, In w (fst (windows abs_init [] (directed_schedule 2)))
    /\ compile sinit (directed_schedule 2) = pre ++ SReadBidders (w_id w) :: post
    /\ at_stage pre (w_id w) 2 /\ w_everB w <> [] /\ w_alwB w <> [].
Proof.
  eexists (nth 3 (fst (windows abs_init [] (directed_schedule 2))) (mkWin 0 exP1 [] [] [] [] [] [])).
  exists (firstn 14 (compile sinit (directed_schedule 2))), (skipn 15 (compile sinit (directed_schedule 2))).
  split; [vm_compute; tauto|]. split; [vm_compute; reflexivity|].
  split; [eexists; split; vm_compute; reflexivity|]. split; vm_compute; discriminate.
Qed.

(* ---------- what every announcer call of a call looks like, in terms of its window ---------- *)
Lemma get_peers_provider s : get_peers ROLE_PROVIDER s = providers s.
Proof. reflexivity. Qed.
Lemma get_peers_bidder s : get_peers ROLE_BIDDER s = bidders s.
Proof. reflexivity. Qed.

Definition announce_fact (w : win) (t : peer) (recs : list record) : Prop :=
  (t = w_peer w /\ recs <> [] /\
   forall a u, In (a, u) recs ->
     a <> p_addr (w_peer w) /\ tbl_get (w_lk w) (mkPeer a ROLE_PROVIDER) = Some u /\ In a (w_everP w))
  \/
  (p_role (w_peer w) = ROLE_PROVIDER /\ exists u, tbl_get (w_lk w) (w_peer w) = Some u
     /\ recs = [(p_addr (w_peer w), u)] /\ p_role t = ROLE_BIDDER /\ In (p_addr t) (w_everB w)).

Lemma overlap_announce_facts acts w t recs :
  NoDup (started_calls acts) -> Forall plain_other acts -> In w (fst (windows abs_init [] acts)) ->
  In (t, recs) (announces (call_effects (w_id w) (compile sinit acts))) -> announce_fact w t recs.
Proof.
  intros Hn Hp Hw Hm. apply In_announces in Hm. apply step_sound in Hm.
  destruct Hm as [p [lk [ann [l1 [l2 [E Hcases]]]]]].
  assert (Hs : In (SAdd (w_id w) p lk ann) (compile sinit acts)) by (rewrite E; apply in_elt).
  apply compile_sadd in Hs.
  destruct (windows_from acts abs_init [] w Hw) as [[w0 [[] _]]|Hf].
  destruct (start_unique acts Hn _ _ _ _ _ _ _ Hs Hf) as [Ep [El _]]. subst p lk.
  destruct Hcases as [[Ht [Hne Hrec]]|[Hrole [u [Hlk [Hr [pre [post [E2 [Hst Hb]]]]]]]]].
  - left. split; [exact Ht|]. split; [exact Hne|]. intros a u Hin.
    destruct (Hrec a u Hin) as [Ha [Hl [pre [post [E2 [Hst Hi]]]]]]. split; [exact Ha|]. split; [exact Hl|].
    destruct (window_invariant acts w pre _ post 0 Hn Hp Hw E2 (or_introl eq_refl) Hst) as [A0 [[RP _] [WP _]]].
    apply WP. rewrite RP. rewrite get_peers_provider in Hi. apply (in_map p_addr) in Hi. exact Hi.
  - right. split; [exact Hrole|]. exists u. split; [exact Hlk|]. split; [exact Hr|].
    destruct (window_invariant acts w pre _ post 2 Hn Hp Hw E2 (or_intror eq_refl) Hst) as [A0 [[_ [RB _]] [_ [WB _]]]].
    split.
    + destruct (wf_srun pre) as [_ HB]. apply HB. exact Hb.
    + apply WB. rewrite RB. rewrite get_peers_bidder in Hb. apply (in_map p_addr) in Hb. exact Hb.
Qed.

Lemma flag_In b s k : In k (flag b s) -> b = true /\ k = s.
Proof. destruct b; cbn; [intros [H|[]]; auto|intros []]. Qed.

(* SOUNDNESS CLAUSES of the overlap checker: on every schedule the only clause a call of the step model
   can raise is announce:missing; announce:self, announce:bidder and every disjunct of announce:extra
   (foreign record, empty message, wrong fan-out message, unexpected PeerList) are silent. *)
Theorem overlap_sound_clauses_accept_model acts w done :
  NoDup (started_calls acts) -> Forall plain_other acts -> In w (fst (windows abs_init [] acts)) ->
  forall k, In k (call_clauses w done (call_effects (w_id w) (compile sinit acts))) -> k = "announce:missing"%string.
Proof.
  intros Hn Hp Hw k Hin.
  pose proof (fun t recs => overlap_announce_facts acts w t recs Hn Hp Hw) as F.
  destruct (overlap_wires_accept_model acts w Hn Hw) as [W1 _]. cbv zeta in W1.
  set (eff := call_effects (w_id w) (compile sinit acts)) in *.
  assert (G : forall r, In r (flat_map snd (filter (fun m => peer_eqb (fst m) (w_peer w)) (announces eff))) ->
                fst r <> p_addr (w_peer w) /\ tbl_get (w_lk w) (mkPeer (fst r) ROLE_PROVIDER) = Some (snd r)
                /\ In (fst r) (w_everP w)).
  { intros [a u] Hr. apply in_flat_map in Hr. destruct Hr as [[t recs] [Hm Hr]]. cbn [snd fst] in *.
    apply filter_In in Hm. destruct Hm as [Hm Ht]. cbn [fst] in Ht. apply peer_eqb_eq in Ht. subst t.
    destruct (F _ _ Hm) as [[_ [_ Hrec]]|[Hrole [u' [_ [_ [Hb _]]]]]].
    - apply Hrec. exact Hr.
    - rewrite Hrole in Hb. discriminate. }
  assert (BAD : forall r, In r (flat_map snd (filter (fun m => peer_eqb (fst m) (w_peer w)) (announces eff))) ->
      negb (fst r =? p_addr (w_peer w))
      && negb (negb (fst r =? p_addr (w_peer w)) && amem (fst r) (w_everP w)
               && match tbl_get (w_lk w) (mkPeer (fst r) ROLE_PROVIDER) with
                  | Some u => bytes_eqb u (snd r) | None => false end) = false).
  { intros r Hr. destruct (G r Hr) as [Ha [Hl He]].
    rewrite Hl, bytes_eqb_refl, (proj2 (amem_In _ _) He), (proj2 (N.eqb_neq _ _) Ha). reflexivity. }
  unfold call_clauses in Hin. cbv zeta in Hin.
  apply in_app_or in Hin. destruct Hin as [Hin|Hin].
  { exfalso. apply flag_In in Hin. destruct Hin as [C _]. apply existsb_exists in C. destruct C as [r [Hr C]].
    destruct (G r Hr) as [Ha _]. apply N.eqb_eq in C. contradiction. }
  apply in_app_or in Hin. destruct Hin as [Hin|Hin].
  { exfalso. apply flag_In in Hin. destruct Hin as [C _]. apply existsb_exists in C. destruct C as [r [Hr _]].
    apply filter_In in Hr. destruct Hr as [Hr C]. cbv beta in C. exact (eq_true_false_abs _ C (BAD r Hr)). }
  apply in_app_or in Hin. destruct Hin as [Hin|Hin].
  { exfalso. apply flag_In in Hin. destruct Hin as [C _].
    rewrite W1 in C. cbn [is_nil negb] in C. rewrite orb_false_r in C.
    apply orb_true_iff in C. destruct C as [C|C]; [apply orb_true_iff in C; destruct C as [C|C]|].
    - apply existsb_exists in C. destruct C as [r [Hr _]].
      apply filter_In in Hr. destruct Hr as [Hr C]. cbv beta in C. exact (eq_true_false_abs _ C (BAD r Hr)).
    - apply existsb_exists in C. destruct C as [[t recs] [Hm C]]. cbn [snd] in C.
      apply filter_In in Hm. destruct Hm as [Hm _].
      destruct (F _ _ Hm) as [[_ [Hne _]]|[_ [u [_ [Hr _]]]]]; [destruct recs; [congruence|discriminate]|].
      subst recs. discriminate.
    - apply existsb_exists in C. destruct C as [[t recs] [Hm C]]. cbn [snd fst] in C.
      apply filter_In in Hm. destruct Hm as [Hm Ht]. cbn [fst] in Ht.
      destruct (F _ _ Hm) as [[Ht' _]|[Hrole [u [Hlk [Hr [Hb He]]]]]].
      + subst t. rewrite peer_eqb_refl in Ht. discriminate.
      + rewrite Hrole, Hlk in C. cbn [Z.eqb ROLE_PROVIDER Pos.eqb] in C. subst recs.
        rewrite Hb, (proj2 (amem_In _ _) He) in C.
        rewrite (ms_eqb_refl record_eqb record_eqb_refl) in C. discriminate. }
  apply flag_In in Hin. tauto.
Qed.

(* non-vacuity: the clause list it speaks about is really computed from messages (call 3 of the directed
   schedule announces three times), and dropping one fan-out message raises exactly announce:missing *)
Example overlap_sound_clauses_applies :
  let w := nth 3 (fst (windows abs_init [] (directed_schedule 2))) (mkWin 0 exP1 [] [] [] [] [] []) in
  let eff := call_effects (w_id w) (compile sinit (directed_schedule 2)) in
  length (announces eff) = 3%nat /\ call_clauses w true eff = []
  /\ call_clauses w true (firstn 2 eff) = ["announce:missing"%string].
Proof. vm_compute. repeat split. Qed.

(* ---------- completeness of a call's announcements under arbitrary interleaving ---------- *)
Definition complete_call (l : list sevent) (c : N) (k : call) : Prop :=
  (2 <= k_pc k -> forall a u, In (a, u) (records_for (k_peer k) (k_lk k) (k_provs k)) ->
     exists recs, In (Announce (k_peer k) recs) (call_effects c l) /\ In (a, u) recs)
  /\ (k_pc k = 3 -> exists u, tbl_get (k_lk k) (k_peer k) = Some u /\
        exists pre post, l = pre ++ SReadBidders c :: post /\ at_stage pre c 2 /\
          forall b, In b (get_peers ROLE_BIDDER (base (srun pre))) ->
            In b (k_fan k) \/ In (Announce b [(p_addr (k_peer k), u)]) (call_effects c l))
  /\ (k_pc k = 4 -> tbl_get (k_lk k) (k_peer k) = None).

Lemma In_broadcast ann t recs : In (Announce t recs) (broadcast ann t recs).
Proof. unfold broadcast. left. reflexivity. Qed.

Theorem calls_complete l : forall c k, find_call c (calls (srun l)) = Some k -> complete_call l c k.
Proof.
  induction l as [|e l IH] using rev_ind; [intros c k H; discriminate|].
  intros c k'. rewrite srun_snoc. intros Hk'.
  destruct (find_call c (calls (srun l))) as [k|] eqn:Hk.
  2:{ (* the call starts with this step *)
    assert (Hpc : k_pc k' = 0).
    { destruct e as [d p lk ann|d|d|d|d|e0];
        try (rewrite sstep_unknown in Hk'; [discriminate|exact Hk|intros; discriminate]).
      destruct (N.eq_dec d c) as [->|Hd].
      - cbn [sstep] in Hk'. rewrite Hk in Hk'. cbn [fst calls find_call] in Hk'. rewrite N.eqb_refl in Hk'.
        inversion Hk'. reflexivity.
      - rewrite sstep_unknown in Hk'; [discriminate|exact Hk|]. intros p0 lk0 ann0 H. inversion H. congruence. }
    unfold complete_call. rewrite Hpc. repeat split; intros; try lia; discriminate. }
  destruct (IH c k Hk) as [C1 [C2 C3]]. clear IH.
  destruct (call_step (srun l) e c k Hk) as [k1 [Hk1 [[Sp [Sl Sa]] Hcases]]].
  rewrite Hk' in Hk1. inversion Hk1; subst k1. clear Hk1.
  assert (Keep : forall x, In x (call_effects c l) -> In x (call_effects c (l ++ [e])))
    by (intros x Hx; rewrite call_effects_snoc; apply in_or_app; left; exact Hx).
  assert (Now : is_call c e = true -> forall x, In x (snd (sstep (srun l) e)) -> In x (call_effects c (l ++ [e])))
    by (intros Hc x Hx; rewrite call_effects_snoc, Hc; apply in_or_app; right; exact Hx).
  assert (C2' : k_pc k = 3 -> k_pc k' = 3 -> incl (k_fan k) (k_fan k') -> exists u, tbl_get (k_lk k') (k_peer k') = Some u /\
        exists pre post, l ++ [e] = pre ++ SReadBidders c :: post /\ at_stage pre c 2 /\
          forall b, In b (get_peers ROLE_BIDDER (base (srun pre))) ->
            In b (k_fan k') \/ In (Announce b [(p_addr (k_peer k'), u)]) (call_effects c (l ++ [e]))).
  { intros P3 _ Hincl. destruct (C2 P3) as [u [Hu [pre [post [E [Hst Hb]]]]]]. exists u. rewrite Sp, Sl. split; [exact Hu|].
    exists pre, (post ++ [e]). split; [rewrite E, <- app_assoc; reflexivity|]. split; [exact Hst|].
    intros b Hin. destruct (Hb b Hin) as [H|H]; [left; apply Hincl, H|right; apply Keep, H]. }
  destruct Hcases as [[-> _]|[[-> [P0 [P1 Hpr]]]|[[-> [P0 [P1 [Hpr Heff]]]]|[[-> [P0 [Hrole [Hpr Hb]]]]|[-> [P0 [P1 [Hpr [b0 [rest [u' [Ef [Ef' [Elk Heff]]]]]]]]]]]]]].
  - split; [|split; [|exact C3]].
    + intros H2 a u Hin. destruct (C1 H2 a u Hin) as [recs [H1 H3]]. exists recs. split; [apply Keep, H1|exact H3].
    + intros P3. apply C2'; [exact P3|exact P3|apply incl_refl].
  - unfold complete_call. rewrite P1. repeat split; intros; try lia; discriminate.
  - split; [|split; intros; lia]. intros _ a u Hin. rewrite Sp, Sl, Hpr in Hin. rewrite Sp.
    destruct (records_for (k_peer k) (k_lk k) (k_provs k)) as [|r0 rs] eqn:Er; [destruct Hin|].
    exists (r0 :: rs). split; [|exact Hin]. apply Now; [unfold is_call; cbn; apply N.eqb_refl|].
    rewrite Heff. apply In_broadcast.
  - split.
    { intros _ a u Hin. rewrite Sp, Sl, Hpr in Hin. destruct (C1 ltac:(lia) a u Hin) as [recs [H1 H3]].
      exists recs. rewrite Sp. split; [apply Keep, H1|exact H3]. }
    destruct Hb as [[u [Elk [P3 Hf]]]|[Elk P4]].
    + split; [|intros; lia]. intros _. exists u. rewrite Sp, Sl. split; [exact Elk|].
      exists l, []. split; [reflexivity|]. split; [exists k; split; [exact Hk|exact P0]|].
      intros b Hin. left. rewrite Hf. exact Hin.
    + split; [intros; lia|]. intros _. rewrite Sp, Sl. exact Elk.
  - split; [|split; [|intros; lia]].
    { intros _ a u Hin. rewrite Sp, Sl, Hpr in Hin. destruct (C1 ltac:(lia) a u Hin) as [recs [H1 H3]].
      exists recs. rewrite Sp. split; [apply Keep, H1|exact H3]. }
    intros _. destruct (C2 P0) as [u [Hu [pre [post [E [Hst Hb]]]]]]. exists u. rewrite Sp, Sl. split; [exact Hu|].
    exists pre, (post ++ [SFanout c]). split; [rewrite E, <- app_assoc; reflexivity|]. split; [exact Hst|].
    intros b Hin. destruct (Hb b Hin) as [H|H]; [|right; apply Keep, H].
    rewrite Ef in H. destruct H as [H|H]; [|left; rewrite Ef'; exact H].
    right. subst b0. apply Now; [unfold is_call; cbn; apply N.eqb_refl|]. rewrite Heff.
    assert (u' = u) by congruence. subst u'. apply In_broadcast.
Qed.

Lemma In_announces_rev t recs eff : In (Announce t recs) eff -> In (t, recs) (announces eff).
Proof. intros H. unfold announces. apply in_flat_map. exists (Announce t recs). split; [exact H|left; reflexivity]. Qed.

Lemma done_stage k : call_done k = true ->
  2 <= k_pc k /\ (p_role (k_peer k) = ROLE_PROVIDER -> k_pc k = 4 \/ (k_pc k = 3 /\ k_fan k = [])).
Proof.
  unfold call_done. intros H. apply orb_true_iff in H. destruct H as [H|H]; [apply orb_true_iff in H; destruct H as [H|H]|].
  - apply N.eqb_eq in H. split; [lia|auto].
  - apply andb_true_iff in H. destruct H as [H1 H2]. apply N.eqb_eq in H1. split; [lia|]. intros _. right. split; [exact H1|].
    destruct (k_fan k); [reflexivity|discriminate].
  - apply andb_true_iff in H. destruct H as [H1 H2]. apply N.eqb_eq in H1. split; [lia|]. intros Hr. rewrite Hr in H2. discriminate.
Qed.

(* ALL CLAUSES OF ONE CALL: a call of the step model that has run to its end raises no clause at all
   against its window (announce:missing included: nothing of the "always" sets is lost), on every schedule *)
Theorem overlap_call_clauses_accept_model acts w :
  NoDup (started_calls acts) -> Forall plain_other acts -> In w (fst (windows abs_init [] acts)) ->
  call_completed (compile sinit acts) (w_id w) ->
  call_clauses w true (call_effects (w_id w) (compile sinit acts)) = [].
Proof.
  intros Hn Hp Hw [k [Hk Hdone]].
  destruct (call_clauses w true (call_effects (w_id w) (compile sinit acts))) as [|s rest] eqn:Ecl; [reflexivity|exfalso].
  assert (Hin : In s (call_clauses w true (call_effects (w_id w) (compile sinit acts)))) by (rewrite Ecl; left; reflexivity).
  clear Ecl rest.
  assert (Hs := overlap_sound_clauses_accept_model acts w true Hn Hp Hw s Hin). clear Hs.
  destruct (overlap_wires_accept_model acts w Hn Hw) as [_ W2]. cbv zeta in W2.
  set (l := compile sinit acts) in *. set (eff := call_effects (w_id w) l) in *.
  (* the call record is the window's call *)
  destruct (calls_inv l _ k Hk) as [[l1 [l2 E1]] [Hpr _]].
  assert (Hs : In (SAdd (w_id w) (k_peer k) (k_lk k) (k_ann k)) l) by (rewrite E1; apply in_elt).
  apply compile_sadd in Hs.
  destruct (windows_from acts abs_init [] w Hw) as [[w0 [[] _]]|Hf].
  destruct (start_unique acts Hn _ _ _ _ _ _ _ Hs Hf) as [Ep [El _]].
  destruct (done_stage k Hdone) as [H2 Hprov].
  destruct (calls_complete l _ k Hk) as [C1 [C2 C3]]. rewrite Ep, El in *.
  (* not a soundness clause *)
  unfold call_clauses in Hin. cbv zeta in Hin.
  apply in_app_or in Hin. destruct Hin as [Hin|Hin].
  { pose proof (overlap_sound_clauses_accept_model acts w true Hn Hp Hw s) as S. fold l eff in S.
    assert (s = "announce:missing"%string) by (apply S; unfold call_clauses; cbv zeta; apply in_or_app; left; exact Hin).
    apply flag_In in Hin. destruct Hin as [_ Hq]. congruence. }
  apply in_app_or in Hin. destruct Hin as [Hin|Hin].
  { pose proof (overlap_sound_clauses_accept_model acts w true Hn Hp Hw s) as S. fold l eff in S.
    assert (s = "announce:missing"%string)
      by (apply S; unfold call_clauses; cbv zeta; apply in_or_app; right; apply in_or_app; left; exact Hin).
    apply flag_In in Hin. destruct Hin as [_ Hq]. congruence. }
  apply in_app_or in Hin. destruct Hin as [Hin|Hin].
  { pose proof (overlap_sound_clauses_accept_model acts w true Hn Hp Hw s) as S. fold l eff in S.
    assert (s = "announce:missing"%string)
      by (apply S; unfold call_clauses; cbv zeta; apply in_or_app; right; apply in_or_app; right; apply in_or_app; left; exact Hin).
    apply flag_In in Hin. destruct Hin as [_ Hq]. congruence. }
  apply flag_In in Hin. destruct Hin as [C _]. cbn [andb] in C.
  rewrite W2 in C. cbn [is_nil negb] in C. rewrite orb_false_r in C.
  apply orb_true_iff in C. destruct C as [C|C].
  - (* a provider of the "always" set whose record did not reach the newcomer *)
    apply existsb_exists in C. destruct C as [a [Ha C]]. cbv beta in C. apply andb_true_iff in C. destruct C as [Cne C].
    apply negb_true_iff, N.eqb_neq in Cne.
    destruct (tbl_get (w_lk w) (mkPeer a ROLE_PROVIDER)) as [u|] eqn:Elk; [|discriminate].
    apply negb_true_iff in C.
    destruct (Hpr ltac:(lia)) as [pre [post [E2 [Hst Hsnap]]]].
    destruct (window_invariant acts w pre _ post 0 Hn Hp Hw E2 (or_introl eq_refl) Hst) as [A0 [[RP _] [_ [_ [WA _]]]]].
    apply WA in Ha. rewrite RP in Ha. apply in_map_iff in Ha. destruct Ha as [q [Eq Hq]].
    assert (Hrole : p_role q = ROLE_PROVIDER) by (destruct (wf_srun pre) as [HP _]; apply HP; exact Hq).
    assert (Hrec : In (a, u) (records_for (w_peer w) (w_lk w) (k_provs k))).
    { apply In_records_for. exists q. rewrite Hsnap, get_peers_provider. repeat split; auto.
      destruct q; cbn in *; subst. exact Elk. }
    destruct (C1 H2 a u Hrec) as [recs [Hann Hau]].
    apply In_announces_rev in Hann.
    assert (Hgot : In (a, u) (flat_map snd (filter (fun m => peer_eqb (fst m) (w_peer w)) (announces eff)))).
    { apply in_flat_map. exists (w_peer w, recs). split; [|exact Hau]. apply filter_In. split; [exact Hann|apply peer_eqb_refl]. }
    apply rec_mem_In in Hgot. exact (eq_true_false_abs _ Hgot C).
  - (* a bidder of the "always" set that did not get the newcomer's record *)
    destruct (p_role (w_peer w) =? ROLE_PROVIDER)%Z eqn:Erole; [|discriminate]. apply Z.eqb_eq in Erole.
    destruct (tbl_get (w_lk w) (w_peer w)) as [u|] eqn:Elk; [|discriminate].
    apply existsb_exists in C. destruct C as [b [Hb C]]. cbv beta in C. apply negb_true_iff in C.
    destruct (Hprov Erole) as [P4|[P3 Hfan]]; [specialize (C3 P4); congruence|].
    destruct (C2 P3) as [u' [Hu' [pre [post [E2 [Hst Hall]]]]]]. assert (u' = u) by congruence. subst u'.
    destruct (window_invariant acts w pre _ post 2 Hn Hp Hw E2 (or_intror eq_refl) Hst) as [A0 [[_ [RB _]] [_ [_ [_ WB]]]]].
    apply WB in Hb. rewrite RB in Hb. apply in_map_iff in Hb. destruct Hb as [q [Eq Hq]].
    assert (Hrole : p_role q = ROLE_BIDDER) by (destruct (wf_srun pre) as [_ HB]; apply HB; exact Hq).
    assert (Eqq : q = mkPeer b ROLE_BIDDER) by (destruct q; cbn in *; subst; reflexivity). subst q.
    destruct (Hall (mkPeer b ROLE_BIDDER)) as [H|H]; [rewrite get_peers_bidder; exact Hq|rewrite Hfan in H; destruct H|].
    apply In_announces_rev in H.
    assert (Hex : existsb (msg_eqb (mkPeer b ROLE_BIDDER, [(p_addr (w_peer w), u)]))
                    (filter (fun m => negb (peer_eqb (fst m) (w_peer w))) (announces eff)) = true).
    { apply existsb_exists. eexists. split; [|apply msg_eqb_refl]. apply filter_In. split; [exact H|].
      cbn [fst]. apply negb_true_iff. destruct (peer_eqb (mkPeer b ROLE_BIDDER) (w_peer w)) eqn:Epe; [|reflexivity].
      apply peer_eqb_eq in Epe. rewrite <- Epe in Erole. discriminate. }
    exact (eq_true_false_abs _ Hex C).
Qed.

(* non-vacuity: the premise holds and the clause list is computed from three messages (see
   overlap_sound_clauses_applies); a call that has not been released to its end does lose a bidder *)
Example overlap_call_clauses_applies :
  let acts := directed_schedule 2 in
  call_completed (compile sinit acts) 3
  /\ (let acts' := firstn 5 acts in
      let w := nth 3 (fst (windows abs_init [] acts')) (mkWin 0 exP1 [] [] [] [] [] []) in
      call_clauses w true (call_effects (w_id w) (compile sinit acts')) = ["announce:missing"%string]).
Proof. split; [eexists; split; vm_compute; reflexivity|vm_compute; reflexivity]. Qed.

(* ---------- the whole overlap checker on the step model ---------- *)
Lemma find_model_call steps c : forall l, In c l ->
  find (fun x : N * bool * list effect => fst (fst x) =? c) (map (model_call steps) l) = Some (model_call steps c).
Proof.
  induction l as [|d l IH]; [intros []|]. intros Hin. cbn [map find]. cbn [model_call fst].
  destruct (N.eqb_spec d c) as [->|Hne]; [reflexivity|]. apply IH. destruct Hin; [contradiction|assumption].
Qed.

Lemma win_started acts w : In w (fst (windows abs_init [] acts)) -> In (w_id w) (started_calls acts).
Proof.
  intros Hw. destruct (windows_from acts abs_init [] w Hw) as [[w0 [[] _]]|Hf].
  unfold started_calls. apply in_flat_map. eexists. split; [exact Hf|left; reflexivity].
Qed.

Lemma flat_map_nil_all {A B} (f : A -> list B) l : (forall a, In a l -> f a = []) -> flat_map f l = [].
Proof.
  induction l as [|a l IH]; intros H; [reflexivity|]. cbn [flat_map]. rewrite (H a (or_introl eq_refl)). cbn [app].
  apply IH. intros b Hb. apply H. right. exact Hb.
Qed.

(* ONE THEOREM: on every schedule with distinct call ids, AddPeers / Disconnected as its atomic
   events, and every started call released to its end, the whole mode-2 checker (all announce
   clauses of every call, view:hang, view) is silent on the step model's own run *)
Theorem checker_accepts_model_overlap i roles pr acts :
  NoDup (started_calls acts) -> Forall plain_other acts ->
  (forall c, In c (started_calls acts) -> call_completed (compile sinit acts) c) ->
  case_violations (model_overlap_case i roles pr acts) = [].
Proof.
  intros Hn Hp Hdone. unfold case_violations, model_overlap_case. cbn [c_mode N.eqb Pos.eqb].
  unfold overlap_clauses. cbn [c_acts c_calls obs probes].
  pose proof (overlap_view_accepts_model pr acts Hn Hp) as V.
  pose proof (fun w => overlap_call_clauses_accept_model acts w Hn Hp) as Cl.
  pose proof (win_started acts) as St.
  destruct (windows abs_init [] acts) as [ws A]. cbn [fst snd] in *.
  rewrite V. cbn [negb flag]. rewrite app_nil_r.
  replace (flat_map _ ws) with (@nil string); [reflexivity|]. symmetry.
  apply flat_map_nil_all. intros w Hw.
  rewrite (find_model_call _ _ _ (St w Hw)). cbn [model_call fst snd].
  destruct (Hdone _ (St w Hw)) as [k [Hk Hd]]. unfold srun in Hk |- *. rewrite Hk, Hd. cbn [negb flag]. rewrite app_nil_r.
  apply Cl; [exact Hw|]. exists k. split; [exact Hk|exact Hd].
Qed.

(* the premise "every started call is released to its end" is necessary: a call left parked is reported *)
Example checker_overlap_needs_completion :
  let acts := firstn 5 (directed_schedule 2) in
  NoDup (started_calls acts) /\ In "view:hang"%string (case_violations (model_overlap_case 0 [] [] acts)).
Proof. split; [vm_compute; repeat constructor; cbn; intuition discriminate|vm_compute; tauto]. Qed.
(* and the theorem is not vacuous: the directed schedules satisfy its premises and contain messages *)
Example checker_overlap_premises_directed :
  let acts := directed_schedule 2 in
  NoDup (started_calls acts) /\ Forall plain_other acts
  /\ (forall c, In c (started_calls acts) -> call_completed (compile sinit acts) c)
  /\ existsb (fun x => negb (is_nil (snd x))) (c_calls (model_overlap_case 0 [] [] acts)) = true.
Proof.
  split; [vm_compute; repeat constructor; cbn; intuition discriminate|].
  split; [vm_compute; repeat constructor|]. split; [|vm_compute; reflexivity].
  intros c Hc. vm_compute in Hc. destruct Hc as [<-|[<-|[<-|[<-|[]]]]]; eexists; split; vm_compute; reflexivity.
Qed.

(* the other two premises are necessary as well: with a call id used twice the checker keeps one window
   for two calls; an atomic Gossip / ConnectDone pair adds a peer the schedule does not show *)
Definition exReleases (n : nat) : list action := concat (repeat [ARelease 0; ARelease 1; ARelease 2] n).
Example checker_overlap_needs_distinct_ids :
  let acts := [AStart 0 exQ exLkAll []; AStart 0 exB1 exLkAll []; AStart 1 exP1 exLkAll []] ++ exReleases 4 in
  Forall plain_other acts
  /\ case_violations (model_overlap_case 0 [] [1; 2; 3; 4; 5] acts) = ["announce:missing"; "view"]%string.
Proof. split; [vm_compute; repeat constructor|vm_compute; reflexivity]. Qed.
Example checker_overlap_needs_plain_events :
  let acts := [AStart 0 exQ exLkAll []; AOther (Gossip exQ true [(addr_bytes 9, bos "u9")]);
               AOther (ConnectDone (bos "u9") (Some (mkPeer 9 ROLE_BIDDER))); AStart 1 exP1 exLkAll []] ++ exReleases 4 in
  NoDup (started_calls acts)
  /\ (forall c, In c (started_calls acts) -> call_completed (compile sinit acts) c)
  /\ case_violations (model_overlap_case 0 [] [1; 2; 3; 4; 5] acts) = ["announce:extra"; "view"]%string.
Proof.
  split; [vm_compute; repeat constructor; cbn; intuition discriminate|]. split; [|vm_compute; reflexivity].
  intros c Hc. vm_compute in Hc. destruct Hc as [<-|[<-|[]]]; eexists; split; vm_compute; reflexivity.
Qed.
