(* C15 -- further clauses of the overlap (mode 2) checker on the step model, for arbitrary schedules. *)
From Coq Require Import String List NArith ZArith Bool Lia.
From MevVerif Require Import lib.Bytes proofs.Bytes_proofs gen.Generated model.Topology check.Check_C15 proofs.Topology_proofs.
Import ListNotations.
Open Scope N_scope.

(* WIRES: whatever the schedule, the PeerLists a call writes are exactly the ones its announcer calls
   lead to under the call's own fault table: one per announcer call whose stream opens, carrying the
   encoded records. *)
Lemma expected_wires_app ann a b : expected_wires ann (a ++ b) = expected_wires ann a ++ expected_wires ann b.
Proof. apply flat_map_app. Qed.
Lemma wires_app a b : wires (a ++ b) = wires a ++ wires b.
Proof. apply flat_map_app. Qed.
Lemma announces_app a b : announces (a ++ b) = announces a ++ announces b.
Proof. apply flat_map_app. Qed.
Lemma broadcast_wires ann t recs :
  wires (broadcast ann t recs) = expected_wires ann (announces (broadcast ann t recs)).
Proof. unfold broadcast, expected_wires. cbn. destruct (stream_opens ann t); reflexivity. Qed.

Definition ann_is (c : N) (ann : list (peer * N)) (s : sstate) : Prop :=
  forall k, find_call c (calls s) = Some k -> k_ann k = ann.

Lemma sstep_wires c ann s e :
  ann_is c ann s -> (forall p lk ann', e = SAdd c p lk ann' -> ann' = ann) ->
  ann_is c ann (fst (sstep s e))
  /\ (is_call c e = true -> wires (snd (sstep s e)) = expected_wires ann (announces (snd (sstep s e)))).
Proof.
  intros I Ha. unfold ann_is in *.
  assert (SET : forall d k0 k1, find_call d (calls s) = Some k0 -> k_ann k1 = k_ann k0 ->
            forall k, find_call c (set_call d k1 (calls s)) = Some k -> k_ann k = ann).
  { intros d k0 k1 F E k. destruct (N.eq_dec d c) as [->|Hd].
    - rewrite find_set_same by congruence. intros [= <-]. rewrite E. apply I, F.
    - rewrite find_set_other by congruence. apply I. }
  destruct e as [d p lk ann'|d|d|d|d|e]; cbn [sstep is_call call_of].
  - destruct (find_call d (calls s)) eqn:F; cbn [fst snd calls]; [split; [exact I|reflexivity]|].
    split; [|reflexivity]. intros k. cbn [find_call]. destruct (N.eqb_spec d c) as [->|_]; [|apply I].
    intros [= <-]. cbn. eapply Ha. reflexivity.
  - destruct (find_call d (calls s)) as [k0|] eqn:F; [|split; [exact I|reflexivity]].
    destruct (k_pc k0 =? 0); cbn [fst snd calls]; [|split; [exact I|reflexivity]].
    split; [|reflexivity]. eapply SET; [exact F|reflexivity].
  - destruct (find_call d (calls s)) as [k0|] eqn:F; [|split; [exact I|reflexivity]].
    destruct (k_pc k0 =? 1); cbn [fst snd calls]; [|split; [exact I|reflexivity]].
    split; [eapply SET; [exact F|reflexivity]|].
    intros Ec. apply N.eqb_eq in Ec. subst d. rewrite (I _ F).
    destruct (records_for (k_peer k0) (k_lk k0) (k_provs k0)); [reflexivity|apply broadcast_wires].
  - destruct (find_call d (calls s)) as [k0|] eqn:F; [|split; [exact I|reflexivity]].
    destruct (k_pc k0 =? 2); [|split; [exact I|reflexivity]].
    destruct (p_role (k_peer k0) =? ROLE_PROVIDER)%Z; [|split; [exact I|reflexivity]].
    destruct (tbl_get (k_lk k0) (k_peer k0)); cbn [fst snd calls]; (split; [eapply SET; [exact F|reflexivity]|reflexivity]).
  - destruct (find_call d (calls s)) as [k0|] eqn:F; [|split; [exact I|reflexivity]].
    destruct (k_pc k0 =? 3); [|split; [exact I|reflexivity]].
    destruct (k_fan k0) as [|b rest]; [split; [exact I|reflexivity]|].
    destruct (tbl_get (k_lk k0) (k_peer k0)); cbn [fst snd calls]; [|split; [exact I|reflexivity]].
    split; [eapply SET; [exact F|reflexivity]|].
    intros Ec. apply N.eqb_eq in Ec. subst d. rewrite (I _ F). apply broadcast_wires.
  - cbn [fst calls]. split; [exact I|discriminate].
Qed.

Lemma call_effects_wires c ann l : forall s,
  ann_is c ann s -> (forall p lk ann', In (SAdd c p lk ann') l -> ann' = ann) ->
  wires (call_effects_from s c l) = expected_wires ann (announces (call_effects_from s c l)).
Proof.
  induction l as [|e r IH]; intros s I Ha; [reflexivity|]. cbn [call_effects_from].
  destruct (sstep_wires c ann s e I) as [I1 W]; [intros p lk ann' ->; eapply Ha; left; reflexivity|].
  rewrite wires_app, announces_app, expected_wires_app.
  rewrite (IH (fst (sstep s e)) I1) by (intros p lk ann' H; eapply Ha; right; exact H).
  destruct (is_call c e); [rewrite W by reflexivity; reflexivity|reflexivity].
Qed.

Theorem overlap_wires_accept_model acts w :
  NoDup (started_calls acts) -> In w (fst (windows abs_init [] acts)) ->
  let eff := call_effects (w_id w) (compile sinit acts) in
  ms_diff wmsg_eqb (wires eff) (expected_wires (w_ann w) (announces eff)) = []
  /\ ms_diff wmsg_eqb (expected_wires (w_ann w) (announces eff)) (wires eff) = [].
Proof.
  intros Hn Hw eff.
  assert (E : wires eff = expected_wires (w_ann w) (announces eff)).
  { unfold eff, call_effects. apply call_effects_wires.
    - intros k. cbn. discriminate.
    - intros p lk ann' Hs. apply compile_sadd in Hs.
      destruct (windows_from acts abs_init [] w Hw) as [[w0 [[] _]]|Hf].
      destruct (start_unique acts Hn _ _ _ _ _ _ _ Hs Hf) as [_ [_ Ea]]. exact Ea. }
  rewrite E. split; apply ms_diff_refl, wmsg_eqb_refl.
Qed.

(* NON-EMPTY: no call of the step model ever makes an announcer call with an empty record list,
   whatever the schedule (the "empty message to the newcomer" part of announce:extra) *)
Theorem overlap_nonempty_accept_model acts c :
  let eff := call_effects c (compile sinit acts) in
  existsb (fun m => is_nil (snd m)) (announces eff) = false.
Proof.
  intros eff. apply existsb_none. intros [t recs] Hin. cbn [snd].
  apply In_announces in Hin. apply step_sound in Hin.
  destruct Hin as [p [lk [ann [l1 [l2 [_ [[_ [Hne _]]|[_ [u [_ [-> _]]]]]]]]]]].
  - destruct recs; [congruence|reflexivity].
  - reflexivity.
Qed.
