(* Lemmas about lib/Rlp.v: the decoder reads back every item tree the encoder accepts (so the
   encoding is injective), for arbitrary nesting. *)
From Coq Require Import List NArith Bool Arith Lia.
From MevVerif Require Import lib.Bytes proofs.Bytes_proofs lib.Rlp.
Import ListNotations.
Open Scope N_scope.

Ltac nb := repeat match goal with
  | |- context [?a <? ?b] =>
      first [ rewrite (proj2 (N.ltb_lt a b)) by lia | rewrite (proj2 (N.ltb_ge a b)) by lia ]
  | |- context [?a <=? ?b] =>
      first [ rewrite (proj2 (N.leb_le a b)) by lia | rewrite (proj2 (N.leb_gt a b)) by lia ]
  end.

(* --- integers ------------------------------------------------------------------------------------ *)
Lemma unbe_be_min n : unbe (be_min n) = n.
Proof.
  unfold be_min. apply unbe_be. unfold bytelen. rewrite N2Nat.id.
  replace 256 with (2 ^ 8) by reflexivity. rewrite <- N.pow_mul_r.
  eapply N.lt_le_trans; [apply N.size_gt|]. apply N.pow_le_mono_r; [lia|].
  pose proof (N.div_mod (N.size n + 7) 8 ltac:(lia)).
  pose proof (N.mod_lt (N.size n + 7) 8 ltac:(lia)). lia.
Qed.

Lemma be_min_inj a b : be_min a = be_min b -> a = b.
Proof. intro H. rewrite <- (unbe_be_min a), <- (unbe_be_min b), H. reflexivity. Qed.

Lemma be_min_0 : be_min 0 = [].
Proof. reflexivity. Qed.

Lemma be_min_length len : 56 <= len -> len < max_len -> (1 <= length (be_min len) <= 8)%nat.
Proof.
  intros H1 H2. unfold be_min. rewrite be_length. unfold bytelen.
  assert (Hs : 1 <= N.size len <= 64).
  { rewrite N.size_log2 by lia.
    assert (N.log2 len < 64) by (apply N.log2_lt_pow2; [lia| exact H2]). lia. }
  pose proof (N.div_mod (N.size len + 7) 8 ltac:(lia)).
  pose proof (N.mod_lt (N.size len + 7) 8 ltac:(lia)). lia.
Qed.

(* --- take ------------------------------------------------------------------------------------------ *)
Lemma take_app a r : take (N.of_nat (length a)) (a ++ r) = Some (a, r).
Proof.
  unfold take. rewrite app_length, Nat2N.id.
  destruct (N.ltb_spec (N.of_nat (length a + length r)) (N.of_nat (length a))); [lia|].
  rewrite firstn_app, Nat.sub_diag, firstn_all, skipn_app, skipn_all, Nat.sub_diag.
  simpl. rewrite app_nil_r. reflexivity.
Qed.

(* --- headers ---------------------------------------------------------------------------------------- *)
Lemma with_prefix_shape base body b :
  with_prefix base body = Some b -> exists p, b = p ++ body /\ (1 <= length p)%nat.
Proof.
  unfold with_prefix, prefix.
  destruct (N.of_nat (length body) <? 56).
  - intro H; injection H as H; subst b.
    exists [base + N.of_nat (length body)]; split; [reflexivity|simpl; lia].
  - destruct (N.of_nat (length body) <? max_len); intro H; [|discriminate].
    injection H as H; subst b.
    exists ((base + 55 + N.of_nat (length (be_min (N.of_nat (length body))))) :: be_min (N.of_nat (length body))).
    split; [reflexivity|simpl; lia].
Qed.

Lemma header_with_prefix base body b r :
  base = 128 \/ base = 192 ->
  with_prefix base body = Some b ->
  (base = 128 -> single_low body = false) ->
  header (b ++ r) = ROk (192 <=? base, body, r).
Proof.
  intros Hb. unfold with_prefix, prefix.
  set (len := N.of_nat (length body)).
  destruct (N.ltb_spec len 56) as [Hl|Hl].
  - intros H Hs; inversion H; subst b; clear H.
    cbn [app header].
    destruct Hb as [-> | ->].
    + nb. replace (128 + len - 128) with len by lia. nb.
      unfold len. rewrite take_app. rewrite (Hs eq_refl). reflexivity.
    + nb. replace (192 + len - 192) with len by lia. nb.
      unfold len. rewrite take_app. reflexivity.
  - destruct (N.ltb_spec len max_len) as [Hm|Hm]; [|discriminate].
    intros H Hs; injection H as H; subst b.
    pose proof (be_min_length len Hl Hm) as Hlen.
    cbn [app header].
    set (ll := N.of_nat (length (be_min len))) in *.
    assert (1 <= ll <= 8) by (unfold ll; lia).
    destruct Hb as [-> | ->].
    + nb. replace (128 + 55 + ll - 128 - 55) with ll by lia.
      replace (128 + 55 + ll - 128) with (55 + ll) by lia. nb.
      unfold ll. rewrite <- app_assoc, take_app. rewrite unbe_be_min, bytes_eqb_refl.
      nb. cbn [negb orb]. unfold len. rewrite take_app. reflexivity.
    + nb. replace (192 + 55 + ll - 192 - 55) with ll by lia.
      replace (192 + 55 + ll - 192) with (55 + ll) by lia. nb.
      unfold ll. rewrite <- app_assoc, take_app. rewrite unbe_be_min, bytes_eqb_refl.
      nb. cbn [negb orb]. unfold len. rewrite take_app. reflexivity.
Qed.

Lemma header_enc_str s b r : enc_str s = Some b -> header (b ++ r) = ROk (false, s, r).
Proof.
  unfold enc_str. destruct s as [|c [|d t]].
  - intro H. apply (header_with_prefix 128 [] b r (or_introl eq_refl) H). reflexivity.
  - destruct (N.ltb_spec c 128) as [Hc|Hc].
    + intro H; inversion H. cbn [app header]. nb. reflexivity.
    + intro H. apply (header_with_prefix 128 [c] b r (or_introl eq_refl) H).
      intros _. cbn [single_low]. nb. reflexivity.
  - intro H. apply (header_with_prefix 128 (c :: d :: t) b r (or_introl eq_refl) H). reflexivity.
Qed.

Lemma enc_str_nonempty s b : enc_str s = Some b -> (1 <= length b)%nat.
Proof.
  assert (W : forall body, with_prefix 128 body = Some b -> (1 <= length b)%nat).
  { intros body H. destruct (with_prefix_shape _ _ _ H) as (p & -> & Hp). rewrite app_length. lia. }
  unfold enc_str. destruct s as [|c [|d t]]; try apply W.
  destruct (c <? 128); [|apply W]. intro H; inversion H. simpl. lia.
Qed.

(* --- the encoder on lists --------------------------------------------------------------------------- *)
Lemma encode_Lst l :
  encode (Lst l) = match encode_seq l with Some body => with_prefix 192 body | None => None end.
Proof.
  assert (E : forall l, (fix seq (l : list item) : option bytes :=
               match l with
               | [] => Some []
               | v :: r => match encode v, seq r with
                           | Some a, Some b => Some (a ++ b)
                           | _, _ => None
                           end
               end) l = encode_seq l).
  { induction l0 as [|v r IH]; [reflexivity|]. cbn [encode_seq]. rewrite <- IH. reflexivity. }
  cbn [encode]. rewrite E. reflexivity.
Qed.

Lemma depth_Lst l : depth (Lst l) = maxdepth l.
Proof. reflexivity. Qed.

Lemma depth_in v l : In v l -> (S (depth v) <= maxdepth l)%nat.
Proof.
  induction l as [|a l IH]; [intros []|].
  intros [->|H]; unfold maxdepth, maxdepth_with in *; cbn [fold_right]; [lia|].
  specialize (IH H). lia.
Qed.

Lemma encode_nonempty v b : encode v = Some b -> (1 <= length b)%nat.
Proof.
  destruct v as [s|l].
  - apply enc_str_nonempty.
  - rewrite encode_Lst. destruct (encode_seq l); [|discriminate].
    intro H. destruct (with_prefix_shape _ _ _ H) as (p & -> & Hp). rewrite app_length. lia.
Qed.

(* --- reading a list payload ------------------------------------------------------------------------- *)
Lemma seq_ok d vs : forall body n,
  (forall v, In v vs -> forall b r, encode v = Some b -> d (b ++ r) = ROk (v, r)) ->
  encode_seq vs = Some body -> (length body <= n)%nat -> seq d n body = ROk vs.
Proof.
  induction vs as [|v rest IH]; intros body n Hd He Hn.
  - inversion He. destruct n; reflexivity.
  - cbn [encode_seq] in He.
    destruct (encode v) as [a|] eqn:Ea; [|discriminate].
    destruct (encode_seq rest) as [b'|] eqn:Eb; [|discriminate].
    inversion He; subst body; clear He.
    pose proof (encode_nonempty _ _ Ea) as Hne.
    destruct a as [|x a']; [simpl in Hne; lia|].
    rewrite app_length in Hn. destruct n as [|n']; [simpl in Hn; lia|].
    change (seq d (S n') ((x :: a') ++ b'))
      with (match d ((x :: a') ++ b') with
            | RErr e => RErr e
            | ROk (v, r) => match seq d n' r with RErr e => RErr e | ROk vs => ROk (v :: vs) end
            end).
    rewrite (Hd v (or_introl eq_refl) (x :: a') b' Ea).
    rewrite (IH b' n'); [reflexivity| |reflexivity|simpl in Hn; lia].
    intros v' Hin. apply Hd. right; exact Hin.
Qed.

(* --- the decoder reads back what the encoder wrote --------------------------------------------- *)
Lemma dec_S f l :
  dec (S f) l = match header l with
                | RErr e => RErr e
                | ROk (k, s, r) =>
                    if k then match seq (dec f) (length s) s with
                              | RErr e => RErr e
                              | ROk vs => ROk (Lst vs, r)
                              end
                    else ROk (Str s, r)
                end.
Proof. reflexivity. Qed.

Lemma dec_enc : forall f v, (depth v <= f)%nat ->
  forall b r, encode v = Some b -> dec (S f) (b ++ r) = ROk (v, r).
Proof.
  induction f as [|f IH]; intros v Hv b r He; rewrite dec_S.
  - destruct v as [s|l].
    + cbn [encode] in He. rewrite (header_enc_str _ _ _ He). reflexivity.
    + rewrite encode_Lst in He. destruct (encode_seq l) as [body|] eqn:Eb; [|discriminate].
      rewrite depth_Lst in Hv.
      rewrite (header_with_prefix 192 body b r (or_intror eq_refl) He) by (intro; discriminate).
      change (192 <=? 192) with true. cbv iota.
      rewrite (seq_ok (dec 0) l body (length body)); [reflexivity| |exact Eb|lia].
      intros v Hin. pose proof (depth_in _ _ Hin). lia.
  - destruct v as [s|l].
    + cbn [encode] in He. rewrite (header_enc_str _ _ _ He). reflexivity.
    + rewrite encode_Lst in He. destruct (encode_seq l) as [body|] eqn:Eb; [|discriminate].
      rewrite depth_Lst in Hv.
      rewrite (header_with_prefix 192 body b r (or_intror eq_refl) He) by (intro; discriminate).
      change (192 <=? 192) with true. cbv iota.
      rewrite (seq_ok (dec (S f)) l body (length body)); [reflexivity| |exact Eb|lia].
      intros v Hin b0 r0 E0. apply IH; [|exact E0].
      pose proof (depth_in _ _ Hin). lia.
Qed.

Lemma maxdepth_le vs : forall body,
  (forall v, In v vs -> forall b, encode v = Some b -> (depth v < length b)%nat) ->
  encode_seq vs = Some body -> (maxdepth vs <= length body)%nat.
Proof.
  induction vs as [|v rest IH]; intros body Hd He.
  - unfold maxdepth, maxdepth_with. simpl. lia.
  - cbn [encode_seq] in He.
    destruct (encode v) as [a|] eqn:Ea; [|discriminate].
    destruct (encode_seq rest) as [b'|] eqn:Eb; [|discriminate].
    inversion He; subst body; clear He.
    pose proof (Hd v (or_introl eq_refl) a Ea).
    assert (maxdepth rest <= length b')%nat
      by (apply IH; [intros v' Hin; apply Hd; right; exact Hin|reflexivity]).
    rewrite app_length. unfold maxdepth, maxdepth_with in *. cbn [fold_right]. lia.
Qed.

Lemma depth_lt_length : forall n v b, (depth v <= n)%nat -> encode v = Some b -> (depth v < length b)%nat.
Proof.
  induction n as [|n IH]; intros v b Hv He.
  - pose proof (encode_nonempty _ _ He). lia.
  - destruct v as [s|l].
    + pose proof (encode_nonempty _ _ He). simpl. lia.
    + rewrite encode_Lst in He. destruct (encode_seq l) as [body|] eqn:Eb; [|discriminate].
      rewrite depth_Lst in *.
      destruct (with_prefix_shape _ _ _ He) as (p & -> & Hp). rewrite app_length.
      assert (maxdepth l <= length body)%nat; [|lia].
      apply maxdepth_le; [|exact Eb].
      intros v Hin b0 E0. apply IH; [|exact E0]. pose proof (depth_in _ _ Hin). lia.
Qed.

(* every item tree the encoder accepts (all lengths below 2^64) is read back, whatever follows it *)
Theorem rlp_dec_encode v b r fuel :
  encode v = Some b -> (depth v < fuel)%nat -> dec fuel (b ++ r) = ROk (v, r).
Proof.
  intros He Hf. destruct fuel as [|f]; [lia|]. apply dec_enc; [lia|exact He].
Qed.

Theorem rlp_decode_encode v b : encode v = Some b -> decode b = ROk v.
Proof.
  intro He. unfold decode.
  pose proof (depth_lt_length (depth v) v b (le_n _) He) as Hd.
  rewrite <- (app_nil_r b) at 2.
  rewrite (rlp_dec_encode v b [] (length b) He Hd). reflexivity.
Qed.

Corollary rlp_encode_inj v w b : encode v = Some b -> encode w = Some b -> v = w.
Proof.
  intros Hv Hw. apply rlp_decode_encode in Hv. apply rlp_decode_encode in Hw.
  rewrite Hv in Hw. inversion Hw. reflexivity.
Qed.

(* the encoder refuses exactly the oversize payloads *)
Lemma with_prefix_some base body :
  N.of_nat (length body) < max_len -> exists b, with_prefix base body = Some b.
Proof.
  intro H. unfold with_prefix, prefix.
  destruct (N.of_nat (length body) <? 56); [eexists; reflexivity|].
  rewrite (proj2 (N.ltb_lt _ _) H). eexists; reflexivity.
Qed.

(* non-vacuity: the empty string, the empty list, a nested tree, a long string, a refused input *)
Example rlp_examples :
  encode (Str []) = Some [128] /\ encode (Lst []) = Some [192] /\
  encode (rlp_uint 0) = Some [128] /\ encode (rlp_uint 1024) = Some [130; 4; 0] /\
  encode (Lst [Lst []; Lst [Lst []]; Lst [Lst []; Lst [Lst []]]]) = Some [199;192;193;192;195;192;193;192] /\
  decode [199;192;193;192;195;192;193;192] = ROk (Lst [Lst []; Lst [Lst []]; Lst [Lst []; Lst [Lst []]]]) /\
  decode [129;1] = RErr ENonCanonical /\ decode [184;1;0] = RErr ENonCanonical /\
  decode [193;128] = ROk (Lst [Str []]) /\ decode [194] = RErr EShort /\
  decode [128;0] = RErr ETrailing /\ decode [] = RErr EFuel /\
  (exists b, encode (Str (repeat 7 60)) = Some (184 :: 60 :: b)).
Proof. repeat split; try reflexivity. eexists. vm_compute. reflexivity. Qed.
