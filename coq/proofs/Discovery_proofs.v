(* C15 / C06 -- the discovery machine of model/Discovery.v: pool bound, no crash, entry accounting,
   semaphore back at zero. *)
From Coq Require Import List NArith ZArith Bool Lia Arith.
From MevVerif Require Import lib.Bytes proofs.Bytes_proofs model.Topology model.Discovery.
Import ListNotations.
Open Scope N_scope.

(* --- small facts ------------------------------------------------------------------------------------ *)
Lemma wsum_app {A} (f : A -> nat) a b : wsum f (a ++ b) = (wsum f a + wsum f b)%nat.
Proof. induction a; simpl; [reflexivity | rewrite IHa; lia]. Qed.
Lemma wsum_map {A B} (f : B -> nat) (g : A -> B) l : wsum f (map g l) = wsum (fun x => f (g x)) l.
Proof. induction l; simpl; congruence. Qed.
Lemma wsum_const_length {A} (l : list A) : wsum (fun _ => 1%nat) l = length l.
Proof. induction l; simpl; congruence. Qed.

Lemma remove1_length u l : existsb (bytes_eqb u) l = true -> S (length (remove1 u l)) = length l.
Proof.
  induction l as [|v r IH]; simpl; [discriminate|].
  destruct (bytes_eqb u v) eqn:E; simpl; [reflexivity|]. intros H. rewrite IH; auto.
Qed.
Lemma remove1_wsum (g : bytes -> nat) u l :
  existsb (bytes_eqb u) l = true -> (wsum g (remove1 u l) + g u)%nat = wsum g l.
Proof.
  induction l as [|v r IH]; simpl; [discriminate|].
  destruct (bytes_eqb u v) eqn:E; simpl.
  - apply bytes_eqb_eq in E. subst. intros _. lia.
  - intros H. specialize (IH H). lia.
Qed.

Lemma rems_set f h k k' hs :
  find_h h hs = Some k ->
  (wsum f (rems (set_h h k' hs)) + wsum f (h_rem k))%nat = (wsum f (rems hs) + wsum f (h_rem k'))%nat.
Proof.
  unfold rems. induction hs as [|[d k0] r IH]; simpl; [discriminate|].
  destruct (d =? h) eqn:E; simpl.
  - intros [= ->]. rewrite !wsum_app. lia.
  - intros H. specialize (IH H). rewrite !wsum_app. lia.
Qed.
Lemma measure_set h k k' hs :
  find_h h hs = Some k ->
  (wsum (fun x => h_measure (snd x)) (set_h h k' hs) + h_measure k)%nat
  = (wsum (fun x => h_measure (snd x)) hs + h_measure k')%nat.
Proof.
  induction hs as [|[d k0] r IH]; simpl; [discriminate|].
  destruct (d =? h) eqn:E; simpl.
  - intros [= ->]. lia.
  - intros H. specialize (IH H). lia.
Qed.

(* --- 1. pool bound and no crash ------------------------------------------------------------------- *)
Definition pool_inv (cap : N) (s : dstate) : Prop :=
  N.of_nat (length (d_flying s)) = d_held s /\ d_held s <= cap.

Lemma dstep_pool cap s e :
  pool_inv cap s -> exists s' eff, dstep cap s e = Ok (s', eff) /\ pool_inv cap s'.
Proof.
  intros [Hl Hc]. unfold pool_inv.
  destruct e as [h ok l|h|h|h|h| |u r|ev]; cbn [dstep].
  - destruct (find_h h (d_handlers s)); [eauto|]. destruct (negb ok); eauto.
  - destruct (find_h h (d_handlers s)) as [[[|x rest] [|] c]|]; eauto.
    destruct (is_connected _ _); eauto.
  - destruct (find_h h (d_handlers s)) as [[[|x rest] [|] c]|]; eauto.
    destruct (d_pending s); eauto.
  - destruct (find_h h (d_handlers s)) as [[rem o c]|]; eauto.
  - destruct (find_h h (d_handlers s)) as [[[|x rest] [|] [|]]|]; eauto.
  - destruct (d_pending s) as [x|]; eauto.
    destruct (d_held s <? cap) eqn:E; eauto.
    apply N.ltb_lt in E. do 2 eexists. split; [reflexivity|]. cbn. rewrite app_length. cbn. lia.
  - unfold flying. destruct (existsb (bytes_eqb u) (d_flying s)) eqn:F; eauto.
    pose proof (remove1_length u _ F) as L.
    destruct (d_held s =? 0) eqn:Z.
    + apply N.eqb_eq in Z. lia.
    + apply N.eqb_neq in Z. do 2 eexists. split; [reflexivity|]. cbn. lia.
  - destruct (topo_event ev); eauto.
Qed.

Lemma pool_inv_init cap : pool_inv cap dinit.
Proof. split; cbn; lia. Qed.

Theorem drun_from_pool cap evs : forall s,
  pool_inv cap s -> exists s' effs, drun_from cap s evs = Ok (s', effs) /\ pool_inv cap s'.
Proof.
  induction evs as [|e r IH]; intros s I; cbn [drun_from]; [eauto|].
  destruct (dstep_pool cap s e I) as (s1 & eff & -> & I1).
  destruct (IH s1 I1) as (s2 & effs & -> & I2). eauto.
Qed.

(* every schedule: no crash outcome, no error outcome; the semaphore's count is the number of running
   Connect calls and never exceeds the pool's width -- also in every intermediate state (prefixes) *)
Theorem disc_pool_bound cap evs :
  exists s effs, drun cap evs = Ok (s, effs)
                 /\ N.of_nat (length (d_flying s)) = d_held s /\ d_held s <= cap.
Proof. apply drun_from_pool, pool_inv_init. Qed.

Corollary disc_no_panic cap evs : drun cap evs <> Panic.
Proof. destruct (disc_pool_bound cap evs) as (s & effs & -> & _). discriminate. Qed.

(* the bound is tight and the machine does dial: 3 unknown entries, width 2 *)
Example disc_pool_bound_nonvacuous :
  let l := [([1], [170]); ([2], [187]); ([3], [204])] in
  match drun 2 [DList 1 true l; DCheck 1; DHandoff 1; DAcquire; DCheck 1; DHandoff 1; DAcquire;
                DCheck 1; DHandoff 1; DAcquire] with
  | Ok (s, _) => d_flying s = [[170]; [187]] /\ d_held s = 2 /\ d_pending s = Some ([3], [204])
  | _ => False
  end.
Proof. vm_compute. auto. Qed.

(* --- 2. accounting: every entry exactly once ------------------------------------------------------- *)
Definition acct (f : wire_record -> nat) (s : dstate) : Prop :=
  wsum f (d_received s)
  = (wsum f (waiting s) + wsum f (map fst (d_skipped s)) + wsum f (d_dialled s))%nat.
Definition acct_dials (g : bytes -> nat) (s : dstate) : Prop :=
  wsum g (map snd (d_dialled s)) = (wsum g (d_flying s) + wsum g (map fst (d_finished s)))%nat.

Ltac acct_simpl :=
  cbn [waiting d_handlers d_pending d_received d_skipped d_dialled d_flying d_finished d_topo d_held
       with_handlers snd fst] in *;
  rewrite ?map_app, ?wsum_app in *; cbn [map wsum fst snd] in *.

Lemma dstep_acct f g cap s e s' eff :
  dstep cap s e = Ok (s', eff) -> acct f s /\ acct_dials g s -> acct f s' /\ acct_dials g s'.
Proof.
  unfold acct, acct_dials, waiting.
  destruct e as [h ok l|h|h|h|h| |u r|ev]; cbn [dstep]; intros H [A B].
  - destruct (find_h h (d_handlers s)); [injection H as <- <-; auto|].
    destruct (negb ok); injection H as <- <-; auto.
    acct_simpl. unfold rems at 1. cbn [flat_map snd h_rem]. fold (rems (d_handlers s)).
    rewrite ?wsum_app in *. unfold wire_record in *; split; [lia|exact B].
  - destruct (find_h h (d_handlers s)) as [[[|x rest] [|] c]|] eqn:F; try (injection H as <- <-; auto).
    destruct (is_connected _ _); injection H as <- <-; acct_simpl.
    + pose proof (rems_set f h _ (mkH rest false c) _ F) as R. cbn [h_rem wsum] in R.
      unfold wire_record in *; split; [lia|exact B].
    + pose proof (rems_set f h _ (mkH (x :: rest) true c) _ F) as R. cbn [h_rem wsum] in R.
      unfold wire_record in *; split; [lia|exact B].
  - destruct (find_h h (d_handlers s)) as [[[|x rest] [|] c]|] eqn:F; try (injection H as <- <-; auto).
    destruct (d_pending s) eqn:P; injection H as <- <-; auto.
    + acct_simpl. rewrite P. auto.
    + acct_simpl. pose proof (rems_set f h _ (mkH rest false c) _ F) as R. cbn [h_rem wsum] in R.
      unfold wire_record in *; split; [lia|exact B].
  - destruct (find_h h (d_handlers s)) as [[rem o c]|] eqn:F; injection H as <- <-; auto.
    acct_simpl. pose proof (rems_set f h _ (mkH rem o true) _ F) as R. cbn [h_rem] in R.
    unfold wire_record in *; split; [lia|exact B].
  - destruct (find_h h (d_handlers s)) as [[[|x rest] [|] [|]]|] eqn:F; try (injection H as <- <-; auto).
    acct_simpl. pose proof (rems_set f h _ (mkH [] false true) _ F) as R. cbn [h_rem wsum] in R.
    rewrite map_map. cbn [fst]. rewrite map_id. unfold wire_record in *; split; [lia|exact B].
  - destruct (d_pending s) as [x|] eqn:P; [|injection H as <- <-; rewrite P; auto].
    destruct (d_held s <? cap); injection H as <- <-; [|rewrite P; auto].
    acct_simpl. unfold wire_record in *; split; lia.
  - unfold flying in H. destruct (existsb (bytes_eqb u) (d_flying s)) eqn:Fl; [|injection H as <- <-; auto].
    destruct (d_held s =? 0); [discriminate|]. injection H as <- <-.
    acct_simpl. pose proof (remove1_wsum g u _ Fl). unfold wire_record in *; split; [exact A|lia].
  - destruct (topo_event ev); injection H as <- <-; auto.
Qed.

Lemma drun_from_acct f g cap evs : forall s s' effs,
  drun_from cap s evs = Ok (s', effs) -> acct f s /\ acct_dials g s -> acct f s' /\ acct_dials g s'.
Proof.
  induction evs as [|e r IH]; intros s s' effs; cbn [drun_from].
  - intros [= <- _]. auto.
  - destruct (dstep cap s e) as [[s1 eff]| |] eqn:E; try discriminate.
    destruct (drun_from cap s1 r) as [[s2 effs2]| |] eqn:R; try discriminate.
    intros [= <- _] I. eapply IH; [exact R|]. eapply dstep_acct; eauto.
Qed.

(* For every weight function (so: as multisets) the entries of all lists that were read are exactly
   the entries still waiting, the entries skipped (each with its reason) and the entries for which
   Connect was called; and the Connect calls made are exactly those still running and those that
   returned.  With f the indicator of one entry: it is dialled at most as often as it was received,
   never both skipped and dialled, never lost. *)
Theorem disc_accounting cap evs s effs (f : wire_record -> nat) (g : bytes -> nat) :
  drun cap evs = Ok (s, effs) ->
  wsum f (d_received s)
  = (wsum f (waiting s) + wsum f (map fst (d_skipped s)) + wsum f (d_dialled s))%nat
  /\ wsum g (map snd (d_dialled s)) = (wsum g (d_flying s) + wsum g (map fst (d_finished s)))%nat.
Proof.
  intros R. eapply (drun_from_acct f g) in R; [exact R|]. split; reflexivity.
Qed.

(* at rest: every entry received was skipped for a named reason or dialled, every dial has returned,
   and the semaphore is back at zero *)
Theorem disc_quiescent cap evs s effs (f : wire_record -> nat) (g : bytes -> nat) :
  drun cap evs = Ok (s, effs) -> quiescent s = true ->
  d_held s = 0
  /\ wsum f (d_received s) = (wsum f (map fst (d_skipped s)) + wsum f (d_dialled s))%nat
  /\ wsum g (map snd (d_dialled s)) = wsum g (map fst (d_finished s)).
Proof.
  intros R Q. destruct (disc_accounting cap evs s effs f g R) as [A B].
  destruct (disc_pool_bound cap evs) as (s0 & effs0 & R0 & L & _).
  rewrite R in R0. injection R0 as <- <-.
  unfold quiescent in Q. destruct (waiting s) eqn:W; [|discriminate].
  destruct (d_flying s) eqn:Fl; [|discriminate]. cbn in *. split; [lia|]. split; lia.
Qed.

(* --- 3. the reasons are the real ones ---------------------------------------------------------------- *)
Lemma in_giveup h l e :
  In e (map (fun y => XSkip h y SkCancelled) l ++ [XReturn h 2]) ->
  (exists y, In y l /\ e = XSkip h y SkCancelled) \/ e = XReturn h 2.
Proof.
  intros H. apply in_app_or in H as [H|H].
  - apply in_map_iff in H as (y & E & I). left. eauto.
  - destruct H as [H|[]]. right. auto.
Qed.

(* a skip "connected" is emitted only for the head entry of that handler when the topology knows its
   address at that moment; a skip "cancelled" only after the handler's context ended; a dial only
   for the peer in the dispatcher's hand with a free slot; an add only for the peer a running Connect
   returned *)
Theorem disc_step_sound cap s e s' eff :
  dstep cap s e = Ok (s', eff) ->
  (forall h x, In (XSkip h x SkConnected) eff ->
     exists k, find_h h (d_handlers s) = Some k /\ hd_error (h_rem k) = Some x
               /\ is_connected (addr_of_bytes (fst x)) (d_topo s) = true)
  /\ (forall h x, In (XSkip h x SkCancelled) eff ->
     exists k, find_h h (d_handlers s) = Some k /\ In x (h_rem k) /\ h_cancel k = true /\ h_offer k = true)
  /\ (forall u, In (XDial u) eff ->
     exists x, d_pending s = Some x /\ snd x = u /\ d_held s < cap)
  /\ (forall p, In (XAdd p) eff -> exists u, e = DDone u (DialOk p) /\ flying u s = true).
Proof.
  destruct e as [h ok l|h|h|h|h| |u r|ev]; cbn [dstep]; intros H.
  - destruct (find_h h (d_handlers s)); [injection H as <- <-; repeat split; intros; contradiction|].
    destruct (negb ok); injection H as <- <-; repeat split; intros; cbn in *;
      try (destruct l; cbn in *); intuition discriminate.
  - destruct (find_h h (d_handlers s)) as [[[|x rest] [|] c]|] eqn:F;
      try (injection H as <- <-; repeat split; intros; contradiction).
    destruct (is_connected _ _) eqn:C; injection H as <- <-; repeat split; intros; cbn in *.
    + destruct H as [H|[H|H]]; try discriminate.
      * injection H as <- <-. eexists; split; [exact F|]. cbn. auto.
      * destruct rest; cbn in H; intuition discriminate.
    + destruct H as [H|[H|H]]; try discriminate. destruct rest; cbn in H; intuition discriminate.
    + destruct H as [H|[H|H]]; try discriminate. destruct rest; cbn in H; intuition discriminate.
    + destruct H as [H|[H|H]]; try discriminate. destruct rest; cbn in H; intuition discriminate.
    + intuition discriminate.
    + intuition discriminate.
    + intuition discriminate.
    + intuition discriminate.
  - destruct (find_h h (d_handlers s)) as [[[|x rest] [|] c]|] eqn:F;
      try (injection H as <- <-; repeat split; intros; contradiction).
    destruct (d_pending s); injection H as <- <-; repeat split; intros; cbn in *;
      try contradiction; destruct rest; cbn in *; intuition discriminate.
  - destruct (find_h h (d_handlers s)) as [[rem o c]|]; injection H as <- <-; repeat split; intros; contradiction.
  - destruct (find_h h (d_handlers s)) as [[[|x rest] [|] [|]]|] eqn:F;
      try (injection H as <- <-; repeat split; intros; contradiction).
    injection H as <- <-. repeat split; intros.
    + apply (in_giveup h (x :: rest)) in H as [(y & I & E)|E]; discriminate.
    + apply (in_giveup h (x :: rest)) in H as [(y & I & E)|E]; [|discriminate].
      injection E as <- <-. eexists; split; [exact F|]. cbn [h_rem h_cancel h_offer]. auto.
    + apply (in_giveup h (x :: rest)) in H as [(y & I & E)|E]; discriminate.
    + apply (in_giveup h (x :: rest)) in H as [(y & I & E)|E]; discriminate.
  - destruct (d_pending s) as [x|] eqn:P; [|injection H as <- <-; repeat split; intros; contradiction].
    destruct (d_held s <? cap) eqn:L; injection H as <- <-; repeat split; intros; cbn in *;
      try contradiction; try intuition discriminate.
    destruct H as [H|[]]. injection H as <-. apply N.ltb_lt in L. eauto.
  - destruct (flying u s) eqn:Fl; [|injection H as <- <-; repeat split; intros; contradiction].
    destruct (d_held s =? 0); [discriminate|]. injection H as <- <-.
    repeat split; intros; destruct r; cbn in *; try contradiction; try intuition discriminate.
    destruct H as [H|[]]. injection H as <-. eauto.
  - destruct (topo_event ev); injection H as <- <-; repeat split; intros; contradiction.
Qed.

Example disc_step_sound_nonvacuous :
  exists s s' eff h x, dstep 10 s (DCheck h) = Ok (s', eff) /\ In (XSkip h x SkConnected) eff.
Proof.
  exists (mkD (add (mkPeer 5 ROLE_PROVIDER) init) [(1, mkH [([5], [170])] false false)] None [] 0 [] [] [] []).
  do 2 eexists. exists 1, ([5], [170]). split; [vm_compute; reflexivity|]. cbn. auto.
Qed.

(* --- 4. progress: the semaphore returns to zero --------------------------------------------------- *)
Definition internal (e : devent) : Prop :=
  match e with DCheck _ | DHandoff _ | DAcquire | DDone _ _ => True | _ => False end.
Definition ids_unique (s : dstate) : Prop := NoDup (map fst (d_handlers s)).

Lemma set_h_ids h k hs : map fst (set_h h k hs) = map fst hs.
Proof. induction hs as [|[d k0] r IH]; simpl; [reflexivity|]. destruct (d =? h); simpl; congruence. Qed.
Lemma find_h_none h hs : find_h h hs = None -> ~ In h (map fst hs).
Proof.
  induction hs as [|[d k0] r IH]; simpl; [tauto|]. destruct (d =? h) eqn:E; [discriminate|].
  apply N.eqb_neq in E. intros H [G|G]; [congruence|]. exact (IH H G).
Qed.
Lemma nodup_find h k hs : NoDup (map fst hs) -> In (h, k) hs -> find_h h hs = Some k.
Proof.
  induction hs as [|[d k0] r IH]; simpl; [tauto|]. intros N [E|I].
  - injection E as -> ->. rewrite N.eqb_refl. reflexivity.
  - inversion N as [|? ? Hn Hr]; subst. destruct (d =? h) eqn:E.
    + apply N.eqb_eq in E. subst. exfalso. apply Hn. apply in_map_iff. exists (h, k). auto.
    + auto.
Qed.
Lemma rems_nonempty hs : rems hs <> [] -> exists h k, In (h, k) hs /\ h_rem k <> [].
Proof.
  unfold rems. induction hs as [|[d k0] r IH]; simpl; [congruence|].
  destruct (h_rem k0) eqn:E.
  - simpl. intros H. destruct (IH H) as (h & k & I & Nn). exists h, k. auto.
  - intros _. exists d, k0. split; [auto|congruence].
Qed.

Lemma dstep_ids cap s e s' eff : dstep cap s e = Ok (s', eff) -> ids_unique s -> ids_unique s'.
Proof.
  unfold ids_unique.
  destruct e as [h ok l|h|h|h|h| |u r|ev]; cbn [dstep]; intros H U.
  - destruct (find_h h (d_handlers s)) eqn:F; [injection H as <- <-; auto|].
    destruct (negb ok); injection H as <- <-; auto.
    cbn. constructor; [apply find_h_none; exact F|exact U].
  - destruct (find_h h (d_handlers s)) as [[[|x rest] [|] c]|]; try (injection H as <- <-; auto).
    destruct (is_connected _ _); injection H as <- <-; cbn; rewrite set_h_ids; exact U.
  - destruct (find_h h (d_handlers s)) as [[[|x rest] [|] c]|]; try (injection H as <- <-; auto).
    destruct (d_pending s); injection H as <- <-; auto. cbn; rewrite set_h_ids; exact U.
  - destruct (find_h h (d_handlers s)) as [[rem o c]|]; injection H as <- <-; auto.
    cbn; rewrite set_h_ids; exact U.
  - destruct (find_h h (d_handlers s)) as [[[|x rest] [|] [|]]|]; try (injection H as <- <-; auto).
    cbn; rewrite set_h_ids; exact U.
  - destruct (d_pending s); [|injection H as <- <-; auto].
    destruct (d_held s <? cap); injection H as <- <-; auto.
  - destruct (flying u s); [|injection H as <- <-; auto].
    destruct (d_held s =? 0); [discriminate|]. injection H as <- <-. exact U.
  - destruct (topo_event ev); injection H as <- <-; auto.
Qed.

(* whenever something is left to do, some internal step is enabled and brings the end nearer *)
Lemma disc_progress_step cap s :
  0 < cap -> pool_inv cap s -> ids_unique s -> quiescent s = false ->
  exists e s' eff, internal e /\ dstep cap s e = Ok (s', eff) /\ (measure s' < measure s)%nat.
Proof.
  intros Hc [Hl Hb] U Q. unfold quiescent in Q.
  destruct (d_flying s) as [|u fl] eqn:Fl.
  - cbn in Hl. destruct (d_pending s) as [x|] eqn:P.
    + exists DAcquire. cbn [dstep]. rewrite P.
      assert (L : d_held s <? cap = true) by (apply N.ltb_lt; lia). rewrite L.
      do 2 eexists. split; [exact I|]. split; [reflexivity|].
      unfold measure. cbn. rewrite P, Fl. rewrite app_length. cbn. lia.
    + assert (Nn : rems (d_handlers s) <> []).
      { unfold waiting in Q. rewrite P, app_nil_r in Q. destruct (rems (d_handlers s)); [discriminate|congruence]. }
      destruct (rems_nonempty _ Nn) as (h & [rem o c] & I & Hr). cbn in Hr.
      pose proof (nodup_find _ _ _ U I) as F.
      destruct rem as [|x rest]; [congruence|]. destruct o.
      * exists (DHandoff h). cbn [dstep]. rewrite F, P. do 2 eexists. split; [exact Logic.I|]. split; [reflexivity|].
        unfold measure. cbn [d_handlers d_pending d_flying].
        pose proof (measure_set h _ (mkH rest false c) _ F) as M. rewrite P.
        assert (M1 : h_measure (mkH (x :: rest) true c) = (4 * S (length rest) - 1)%nat) by reflexivity.
        assert (M2 : (h_measure (mkH rest false c) <= 4 * length rest)%nat) by (destruct rest; cbn; lia).
        lia.
      * exists (DCheck h). cbn [dstep]. rewrite F.
        destruct (is_connected (addr_of_bytes (fst x)) (d_topo s)).
        -- do 2 eexists. split; [exact Logic.I|]. split; [reflexivity|].
           unfold measure. cbn [d_handlers d_pending d_flying].
           pose proof (measure_set h _ (mkH rest false c) _ F) as M.
           assert (M1 : h_measure (mkH (x :: rest) false c) = (4 * S (length rest) - 0)%nat) by reflexivity.
           assert (M2 : (h_measure (mkH rest false c) <= 4 * length rest)%nat) by (destruct rest; cbn; lia).
           lia.
        -- do 2 eexists. split; [exact Logic.I|]. split; [reflexivity|].
           unfold measure. cbn [d_handlers d_pending d_flying with_handlers].
           pose proof (measure_set h _ (mkH (x :: rest) true c) _ F) as M.
           assert (M1 : h_measure (mkH (x :: rest) false c) = (4 * S (length rest) - 0)%nat) by reflexivity.
           assert (M2 : h_measure (mkH (x :: rest) true c) = (4 * S (length rest) - 1)%nat) by reflexivity.
           lia.
  - exists (DDone u (DialErr RUnreachable)). cbn [dstep]. unfold flying. rewrite Fl. cbn [existsb].
    rewrite bytes_eqb_refl. cbn [orb].
    destruct (d_held s =? 0) eqn:Z; [apply N.eqb_eq in Z; cbn in Hl; lia|].
    do 2 eexists. split; [exact I|]. split; [reflexivity|].
    unfold measure. cbn [d_handlers d_pending d_flying remove1]. rewrite bytes_eqb_refl, Fl. cbn. lia.
Qed.

Lemma disc_drains_from cap : 0 < cap -> forall n s,
  (measure s <= n)%nat -> pool_inv cap s -> ids_unique s ->
  exists evs s' effs, Forall internal evs /\ (length evs <= n)%nat
    /\ drun_from cap s evs = Ok (s', effs) /\ quiescent s' = true /\ d_held s' = 0.
Proof.
  intros Hc. induction n as [|n IH]; intros s M I U.
  - destruct (quiescent s) eqn:Q.
    + exists [], s, []. repeat split; auto. destruct I as [Hl _]. unfold quiescent in Q.
      destruct (waiting s); [|discriminate]. destruct (d_flying s); [|discriminate]. cbn in Hl. lia.
    + destruct (disc_progress_step cap s Hc I U Q) as (e & s' & eff & _ & _ & L). lia.
  - destruct (quiescent s) eqn:Q.
    + exists [], s, []. repeat split; auto; [cbn; lia|]. destruct I as [Hl _]. unfold quiescent in Q.
      destruct (waiting s); [|discriminate]. destruct (d_flying s); [|discriminate]. cbn in Hl. lia.
    + destruct (disc_progress_step cap s Hc I U Q) as (e & s1 & eff & Ie & E & L).
      destruct (dstep_pool cap s e I) as (s1' & eff' & E' & I1). rewrite E in E'. injection E' as <- <-.
      pose proof (dstep_ids _ _ _ _ _ E U) as U1.
      destruct (IH s1 ltac:(lia) I1 U1) as (evs & s2 & effs & Fi & Le & R & Q2 & H2).
      exists (e :: evs), s2, (eff :: effs). repeat split; auto; [cbn; lia|].
      cbn [drun_from]. rewrite E, R. reflexivity.
Qed.

Lemma drun_from_ids cap evs : forall s s' effs,
  drun_from cap s evs = Ok (s', effs) -> ids_unique s -> ids_unique s'.
Proof.
  induction evs as [|e r IH]; intros s s' effs; cbn [drun_from].
  - intros [= <- _]. auto.
  - destruct (dstep cap s e) as [[s1 eff]| |] eqn:E; try discriminate.
    destruct (drun_from cap s1 r) as [[s2 effs2]| |] eqn:R; try discriminate.
    intros [= <- _] U. eapply IH; [exact R|]. eapply dstep_ids; eauto.
Qed.

(* After ANY schedule (lists of any length, any completion order, cancellations, topology changes in
   between) the machine can always finish: internal steps alone (checks, hand-offs, acquires, dial
   completions -- no new list, no cancellation needed), at most [measure s] of them, lead to the state
   at rest with the semaphore at zero; and while something is left to do some internal step is
   enabled (no deadlock), each one strictly nearer to the end. *)
Theorem disc_semaphore_returns_to_zero cap evs s effs :
  0 < cap -> drun cap evs = Ok (s, effs) ->
  exists more s' effs', Forall internal more /\ (length more <= measure s)%nat
    /\ drun_from cap s more = Ok (s', effs') /\ quiescent s' = true /\ d_held s' = 0.
Proof.
  intros Hc R.
  destruct (drun_from_pool cap evs dinit (pool_inv_init cap)) as (s0 & effs0 & R0 & I).
  unfold drun in R. rewrite R in R0. injection R0 as <- <-.
  apply (disc_drains_from cap Hc (measure s) s (le_n _) I).
  eapply drun_from_ids; [exact R|]. constructor.
Qed.

Theorem disc_no_deadlock cap evs s effs :
  0 < cap -> drun cap evs = Ok (s, effs) -> quiescent s = false ->
  exists e s' eff, internal e /\ dstep cap s e = Ok (s', eff) /\ (measure s' < measure s)%nat.
Proof.
  intros Hc R Q.
  destruct (drun_from_pool cap evs dinit (pool_inv_init cap)) as (s0 & effs0 & R0 & I).
  unfold drun in R. rewrite R in R0. injection R0 as <- <-.
  apply disc_progress_step; auto. eapply drun_from_ids; [exact R|]. constructor.
Qed.

(* with width 0 the premise fails for a reason: the dispatcher never leaves Acquire *)
Example disc_zero_width_stuck :
  match drun 0 [DList 1 true [([1], [170])]; DCheck 1; DHandoff 1; DAcquire; DAcquire] with
  | Ok (s, _) => d_pending s = Some ([1], [170]) /\ d_flying s = [] /\ quiescent s = false
  | _ => False
  end.
Proof. vm_compute. auto. Qed.
Example disc_returns_nonvacuous :
  match drun 2 [DList 1 true [([1], [170]); ([2], [187])]; DCheck 1; DHandoff 1; DAcquire] with
  | Ok (s, _) => quiescent s = false /\ d_held s = 1 /\ measure s = 5%nat
  | _ => False
  end.
Proof. vm_compute. auto. Qed.

(* --- 5. the Gossip event of model/Topology.v is a run of this machine -------------------------------- *)
Lemma drun_from_app cap l1 : forall l2 s s1 e1,
  drun_from cap s l1 = Ok (s1, e1) ->
  drun_from cap s (l1 ++ l2) = match drun_from cap s1 l2 with
                               | Ok (s2, e2) => Ok (s2, e1 ++ e2) | Err c => Err c | Panic => Panic end.
Proof.
  induction l1 as [|e r IH]; intros l2 s s1 e1; cbn [drun_from app].
  - intros [= <- <-]. destruct (drun_from cap s l2) as [[s2 e2]| |]; reflexivity.
  - destruct (dstep cap s e) as [[s' eff]| |]; try discriminate.
    destruct (drun_from cap s' r) as [[s'' effs]| |] eqn:R; try discriminate.
    intros [= <- <-]. rewrite (IH l2 s' s'' effs R).
    destruct (drun_from cap s'' l2) as [[s2 e2]| |]; reflexivity.
Qed.

Lemma one_entry cap s h x rest c :
  d_handlers s = [(h, mkH (x :: rest) false c)] -> d_pending s = None ->
  (is_connected (addr_of_bytes (fst x)) (d_topo s) = false -> d_held s < cap) ->
  let known := is_connected (addr_of_bytes (fst x)) (d_topo s) in
  exists s1 effs1,
    drun_from cap s (action_events cap s (GCheck h)) = Ok (s1, effs1)
    /\ d_handlers s1 = [(h, mkH rest false c)] /\ d_pending s1 = None /\ d_topo s1 = d_topo s
    /\ d_flying s1 = d_flying s ++ (if known then [] else [snd x])
    /\ d_held s1 = d_held s + (if known then 0 else 1)
    /\ xdials (concat effs1) = (if known then [] else [snd x]).
Proof.
  destruct s as [t hs pd fl hd rc sk dl fn]. cbn [d_handlers d_pending d_held d_topo d_flying].
  intros -> -> L.
  unfold action_events. cbn [action_event dstep d_handlers find_h]. rewrite N.eqb_refl.
  cbn [d_topo]. destruct (is_connected (addr_of_bytes (fst x)) t) eqn:K.
  - clear L. unfold with_handlers. repeat (progress (rewrite ?N.eqb_refl, ?K; cbn)).
    do 2 eexists. split; [reflexivity|]. cbn. rewrite app_nil_r, N.add_0_r.
    repeat split; auto. destruct rest; reflexivity.
  - specialize (L eq_refl). apply N.ltb_lt in L.
    unfold with_handlers. repeat (progress (rewrite ?N.eqb_refl, ?K, ?L; cbn)).
    do 2 eexists. split; [reflexivity|]. cbn. repeat split; auto. destruct rest; reflexivity.
Qed.

Lemma xdials_concat_app e1 e2 : xdials (concat (e1 ++ e2)) = xdials (concat e1) ++ xdials (concat e2).
Proof. unfold xdials. rewrite concat_app, flat_map_app. reflexivity. Qed.

(* One list, nobody else active, enough free slots: the machine, driven entry by entry, calls Connect
   exactly for what the Gossip event of model/Topology.v dials, in that order; the handler returns,
   the dispatcher is back at its receive, the topology is untouched. *)
Theorem gossip_refined cap h from : forall entries s c,
  d_handlers s = [(h, mkH entries false c)] -> d_pending s = None ->
  d_held s + N.of_nat (length (to_dial (d_topo s) entries)) <= cap ->
  exists s' effs,
    drun_from cap s (gsched cap s (repeat (GCheck h) (length entries))) = Ok (s', effs)
    /\ d_handlers s' = [(h, mkH [] false c)] /\ d_pending s' = None /\ d_topo s' = d_topo s
    /\ d_flying s' = d_flying s ++ to_dial (d_topo s) entries
    /\ map Dial (xdials (concat effs)) = snd (step (d_topo s) (Gossip from true entries)).
Proof.
  cbn [step snd]. induction entries as [|x rest IH]; intros s c Hh Hp Hb.
  - cbn. exists s, []. rewrite app_nil_r. repeat split; auto.
  - cbn [length repeat gsched].
    assert (Hl : is_connected (addr_of_bytes (fst x)) (d_topo s) = false -> d_held s < cap).
    { intros K. unfold to_dial in Hb. cbn [flat_map] in Hb. rewrite K in Hb. cbn in Hb. lia. }
    destruct (one_entry cap s h x rest c Hh Hp Hl) as (s1 & e1 & R1 & H1 & P1 & T1 & F1 & D1 & X1).
    rewrite R1.
    assert (Hb1 : d_held s1 + N.of_nat (length (to_dial (d_topo s1) rest)) <= cap).
    { rewrite D1, T1. unfold to_dial in *. cbn [flat_map] in Hb.
      destruct (is_connected (addr_of_bytes (fst x)) (d_topo s)); cbn in Hb |- *; lia. }
    destruct (IH s1 c H1 P1 Hb1) as (s2 & e2 & R2 & H2 & P2 & T2 & F2 & X2).
    rewrite (drun_from_app cap _ _ s s1 e1 R1), R2.
    exists s2, (e1 ++ e2). split; [reflexivity|]. split; [exact H2|]. split; [exact P2|].
    split; [congruence|]. rewrite T1 in *. split.
    + rewrite F2, F1. unfold to_dial. cbn [flat_map].
      destruct (is_connected (addr_of_bytes (fst x)) (d_topo s)); cbn; rewrite <- ?app_assoc; reflexivity.
    + rewrite xdials_concat_app, map_app, X2, X1. unfold to_dial. cbn [flat_map].
      destruct (is_connected (addr_of_bytes (fst x)) (d_topo s)); cbn; reflexivity.
Qed.

Example gossip_refined_nonvacuous :
  let s := mkD (add (mkPeer 5 ROLE_PROVIDER) init) [(1, mkH [([5], [170]); ([6], [187]); ([7], [204])] false false)]
               None [] 0 [] [] [] [] in
  match drun_from 10 s (gsched 10 s (repeat (GCheck 1) 3)) with
  | Ok (s', effs) => d_flying s' = [[187]; [204]] /\ xdials (concat effs) = [[187]; [204]]
  | _ => False
  end.
Proof. vm_compute. auto. Qed.
