From Coq Require Import String List NArith ZArith Bool Lia.
From MevVerif Require Import lib.Bytes proofs.Bytes_proofs model.Rules model.ProviderSvc proofs.ProviderSvc_proofs
  check.Check_C12 proofs.Check_C12_proofs.
Import ListNotations.
Open Scope N_scope.
Arguments nset {A} k v l : simpl never.
Arguments ndel {A} k l : simpl never.
Arguments pdel d l : simpl never.

Section Fields.
Variable V : validators.

(* one step: calls are only added by Submit, and never change their bid *)
Lemma step_calls_back s e h c :
  nget h (calls (step V s e)) = Some c ->
  (exists c0, nget h (calls s) = Some c0 /\ call_bid c0 = call_bid c) \/
  (nget h (calls s) = None /\ e = Submit h (call_bid c)).
Proof.
  unfold step. destruct (panicked s); [intros H; left; eauto|].
  destruct e as [h0 b|h0|h0|sid d st|sid|sid].
  - unfold submit. destruct (nget h0 (calls s)) eqn:Hc; [intros H; left; eauto|].
    destruct (vbid V (to_engine b)); cbn; rewrite nget_nset; destruct (N.eqb_spec h h0) as [->|Hne];
      try (intros [= <-]; right; split; [exact Hc|reflexivity]); intros H; left; eauto.
  - unfold take. destruct (nget h0 (calls s)) as [[b|b|b|b]|] eqn:Hc; try (intros H; left; eauto; fail).
    cbn. rewrite nget_nset. destruct (N.eqb_spec h h0) as [->|Hne]; [intros [= <-]; left; eauto|intros H; left; eauto].
  - unfold abandon. destruct (nget h0 (calls s)) as [[b|b|b|b]|] eqn:Hc; try (intros H; left; eauto; fail).
    cbn. rewrite nget_nset. destruct (N.eqb_spec h h0) as [->|Hne]; [intros [= <-]; left; eauto|intros H; left; eauto].
  - unfold lookup. destruct (sget sid s); try (intros H; left; eauto; fail).
    destruct (vresp V d st); [destruct (pget d (pending s))|]; intros H; left; eauto.
  - unfold callback. destruct (sget sid s); try (intros H; left; eauto; fail).
    destruct (cget ch s); intros H; left; eauto.
  - unfold recv_err. destruct (sget sid s); intros H; left; eauto.
Qed.

Lemma step_calls_fwd s e h c0 :
  nget h (calls s) = Some c0 -> exists c, nget h (calls (step V s e)) = Some c /\ call_bid c = call_bid c0.
Proof.
  intros Hh. unfold step. destruct (panicked s); [eauto|].
  destruct e as [h0 b|h0|h0|sid d st|sid|sid].
  - unfold submit. destruct (nget h0 (calls s)) eqn:Hc; [eauto|].
    assert (h <> h0) by (intros ->; congruence).
    destruct (vbid V (to_engine b)); cbn; rewrite nget_nset_neq by congruence; eauto.
  - unfold take. destruct (nget h0 (calls s)) as [[b|b|b|b]|] eqn:Hc; eauto.
    cbn. rewrite nget_nset. destruct (N.eqb_spec h h0) as [->|Hne]; [|eauto].
    rewrite Hc in Hh. injection Hh as <-. eauto.
  - unfold abandon. destruct (nget h0 (calls s)) as [[b|b|b|b]|] eqn:Hc; eauto.
    cbn. rewrite nget_nset. destruct (N.eqb_spec h h0) as [->|Hne]; [|eauto].
    rewrite Hc in Hh. injection Hh as <-. eauto.
  - unfold lookup. destruct (sget sid s); eauto. destruct (vresp V d st); [destruct (pget d (pending s))|]; eauto.
  - unfold callback. destruct (sget sid s); eauto. destruct (cget ch s); eauto.
  - unfold recv_err. destruct (sget sid s); eauto.
Qed.

(* the bid of a call is the bid of the first OSubmit naming it *)
Lemma fold_inv evs : forall s, Inv V s -> Inv V (fold_left (step V) evs s).
Proof. induction evs as [|e r IH]; cbn; intros s I; [exact I|apply IH, step_inv, I]. Qed.

Lemma events_calls l : forall s h c, Inv V s ->
  nget h (calls (fold_left (step V) (flat_map events_of l) s)) = Some c ->
  match nget h (calls s) with
  | Some c0 => call_bid c0 = call_bid c
  | None => nget h (submitted l) = Some (call_bid c)
  end.
Proof.
  induction l as [|o l IH]; intros s h c I H.
  - cbn in H. now rewrite H.
  - cbn [flat_map] in H. rewrite fold_left_app in H.
    specialize (IH _ h c (fold_inv (events_of o) s I) H).
    set (s1 := fold_left (step V) (events_of o) s) in *.
    assert (Back : forall c1, nget h (calls s1) = Some c1 ->
              (exists c0, nget h (calls s) = Some c0 /\ call_bid c0 = call_bid c1) \/
              (nget h (calls s) = None /\ exists b, o = OSubmit h b /\ call_bid c1 = b)).
    { unfold s1. destruct o as [h0 b|h0| |h0|sid d st|sid|sid d st|sid]; cbn [events_of fold_left]; intros c1 H1;
        try (apply step_calls_back in H1; destruct H1 as [H1|(Hn & E)]; [now left|discriminate E]).
      - apply step_calls_back in H1. destruct H1 as [H1|(Hn & E)]; [now left|]. injection E as <- <-. right. eauto.
      - left. eauto.
      - apply step_calls_back in H1. destruct H1 as [(c2 & H2 & E2)|(Hn & E)]; [|discriminate E].
        apply step_calls_back in H2. destruct H2 as [(c3 & H3 & E3)|(Hn & E)]; [|discriminate E].
        left. exists c3. split; [exact H3|congruence]. }
    assert (Fwd : forall c0, nget h (calls s) = Some c0 -> exists c1, nget h (calls s1) = Some c1 /\ call_bid c1 = call_bid c0).
    { unfold s1. intros c0 H0. destruct o as [h0 b|h0| |h0|sid d st|sid|sid d st|sid]; cbn [events_of fold_left];
        try (now apply step_calls_fwd); [eauto|].
      destruct (step_calls_fwd s (Lookup sid d st) h c0 H0) as (c1 & H1 & E1).
      destruct (step_calls_fwd _ (Callback sid) h c1 H1) as (c2 & H2 & E2). exists c2. split; [exact H2|congruence]. }
    destruct (nget h (calls s)) as [c0|] eqn:H0.
    + destruct (Fwd c0 eq_refl) as (c1 & H1 & E1). rewrite H1 in IH. congruence.
    + destruct (nget h (calls s1)) as [c1|] eqn:H1.
      * destruct (Back c1 eq_refl) as [(c0 & Hc0 & _)|(_ & b & -> & Eb)]; [discriminate|].
        cbn. rewrite N.eqb_refl. congruence.
      * assert (Hno : forall b, o <> OSubmit h b).
        { intros b ->. unfold s1 in H1. cbn in H1. unfold step, submit in H1.
          rewrite (inv_nopanic _ _ I), H0 in H1.
          destruct (vbid V (to_engine b)); cbn in H1; rewrite nget_nset_eq in H1; discriminate. }
        destruct o as [h0 b|h0| |h0|sid d st|sid|sid d st|sid]; try exact IH.
        cbn. destruct (N.eqb_spec h h0) as [->|_]; [now elim (Hno b)|exact IH].
Qed.
End Fields.

Lemma list_eqb_refl {A} (eqb : A -> A -> bool) (l : list A) : (forall x, eqb x x = true) -> list_eqb eqb l l = true.
Proof. intros R. induction l as [|x r IH]; cbn; [reflexivity|now rewrite R, IH]. Qed.

Lemma engine_bid_eqb_refl e : engine_bid_eqb e e = true.
Proof.
  unfold engine_bid_eqb. rewrite (list_eqb_refl bytes_eqb _ bytes_eqb_refl), !bytes_eqb_refl, !Z.eqb_refl. reflexivity.
Qed.

(* clause "fields-differ" never fires on the model's own prediction *)
Theorem checker_accepts_model_fields i l : chk_fields (model_case i l) = true.
Proof.
  unfold chk_fields. rewrite (checker_accepts_model_forward_once i l), andb_true_r.
  unfold model_case. cbn [ob o_emitted predict ops]. apply forallb_forall. intros [h e] Hin. cbn [fst snd].
  unfold model_state in Hin. cbn [ops] in Hin. apply In_emitted in Hin.
  destruct (inv_engine_ok _ _ (run_inv rules_validators _) _ _ Hin) as (b & Hc & ->).
  pose proof (events_calls rules_validators l init h (PHanded b) (init_inv rules_validators) Hc) as H. cbn in H.
  unfold bid_of. rewrite H. apply engine_bid_eqb_refl.
Qed.

(* a stream ends only on a malformed decision of its own or on a receive error *)
Lemma ended_cause V evs sid :
  sget sid (run V evs) = SEnded ->
  (exists d st, In (Lookup sid d st) evs /\ vresp V d st = false) \/ In (RecvErr sid) evs.
Proof.
  induction evs as [|e evs IH] using rev_ind; [cbn; discriminate|].
  rewrite run_app. set (s := run V evs) in *. pose proof (run_inv V evs) as I. fold s in I.
  assert (Keep : sget sid s = SEnded ->
           (exists d st, In (Lookup sid d st) (evs ++ [e]) /\ vresp V d st = false) \/ In (RecvErr sid) (evs ++ [e])).
  { intros H. destruct (IH H) as [(d & st & Hin & Hv)|Hin]; [left; exists d, st|right]; try split; auto; apply in_app_iff; now left. }
  assert (Last : In e (evs ++ [e])) by (apply in_app_iff; right; now left).
  unfold step. rewrite (inv_nopanic _ _ I).
  destruct e as [h b|h|h|sid0 d st|sid0|sid0].
  - unfold submit. destruct (nget h (calls s)); [exact Keep|]. destruct (vbid V (to_engine b)); exact Keep.
  - unfold take. destruct (nget h (calls s)) as [[b|b|b|b]|]; exact Keep.
  - unfold abandon. destruct (nget h (calls s)) as [[b|b|b|b]|]; exact Keep.
  - unfold lookup. destruct (sget sid0 s) eqn:Hs0; try exact Keep.
    destruct (vresp V d st) eqn:Hv.
    + destruct (pget d (pending s)); [|exact Keep].
      unfold sget. cbn. rewrite nget_nset. destruct (N.eqb_spec sid sid0) as [->|Hne]; [discriminate|]. exact Keep.
    + unfold sget. cbn. rewrite nget_nset. destruct (N.eqb_spec sid sid0) as [->|Hne]; [|exact Keep].
      intros _. left. exists d, st. split; [exact Last|exact Hv].
  - unfold callback. destruct (sget sid0 s) as [|ch d st|] eqn:Hs0; try exact Keep.
    assert (He : cget ch s = CEmpty).
    { apply (inv_calling_empty _ _ I). apply In_calling. apply sget_In, nget_In in Hs0. eauto. }
    rewrite He. unfold sget. cbn. rewrite nget_nset. destruct (N.eqb_spec sid sid0) as [->|Hne]; [discriminate|]. exact Keep.
  - unfold recv_err. destruct (sget sid0 s); try exact Keep.
    unfold sget. cbn. rewrite nget_nset. destruct (N.eqb_spec sid sid0) as [->|Hne]; [|exact Keep].
    intros _. right. exact Last.
Qed.

Lemma in_events_lookup l sid d st :
  In (Lookup sid d st) (flat_map events_of l) -> In (ODecision sid d st) l \/ In (OLookup sid d st) l.
Proof.
  induction l as [|o r IH]; cbn; [tauto|]. rewrite in_app_iff. intros [H|H].
  - destruct o; cbn in H; try (destruct H as [H|[H|H]]; try discriminate; try tauto);
      try (destruct H as [H|H]; try discriminate; try tauto); try tauto.
    + injection H as <- <- <-. left. now left.
    + injection H as <- <- <-. right. now left.
  - destruct (IH H); [left|right]; now right.
Qed.

Lemma in_events_recverr l sid : In (RecvErr sid) (flat_map events_of l) -> In (ORecvErr sid) l.
Proof.
  induction l as [|o r IH]; cbn; [tauto|]. rewrite in_app_iff. intros [H|H]; [|right; now apply IH].
  destruct o; cbn in H; try tauto; try (destruct H as [H|[H|H]]; try discriminate; tauto);
    try (destruct H as [H|H]; try discriminate; try tauto). injection H as <-. now left.
Qed.

(* clause "stream-ended" never fires on the model's own prediction *)
Theorem checker_accepts_model_stream i l : chk_stream (model_case i l) = true.
Proof.
  unfold chk_stream, model_case. cbn [ob o_streams predict ops]. apply forallb_forall. intros so Hin.
  apply in_map_iff in Hin. destruct Hin as (sid & <- & _). unfold predict_stream. cbn [so_state so_sid].
  unfold model_state. cbn [ops]. set (s := run rules_validators (flat_map events_of l)).
  destruct (sget sid s) eqn:Hs; try reflexivity.
  assert (Hp : panicked s = false) by apply (inv_nopanic _ _ (run_inv rules_validators (flat_map events_of l))).
  rewrite Hp.
  assert (Hc : stream_has_cause l sid = true).
  { unfold stream_has_cause. apply existsb_exists.
    destruct (ended_cause rules_validators _ _ Hs) as [(d & st & Hl & Hv)|Hr].
    - destruct (in_events_lookup _ _ _ _ Hl) as [H|H]; eexists; (split; [exact H|]); cbn; rewrite N.eqb_refl; cbn in Hv; now rewrite Hv.
    - exists (ORecvErr sid). split; [now apply in_events_recverr|]. apply N.eqb_refl. }
  rewrite Hc. destruct (ended_by_service s sid); reflexivity.
Qed.
