(* The C12 property checker does not raise an alarm on the model's own prediction -- proved here for the
   clauses "forwarded-invalid" and the at-most-once half of "fields-differ"; the remaining clauses
   (delivery counting, stream liveness, leak, decision-dropped) are not covered by a theorem yet. *)
From Coq Require Import String List NArith ZArith Bool.
From MevVerif Require Import lib.Bytes model.Rules model.ProviderSvc proofs.ProviderSvc_proofs check.Check_C12.
Import ListNotations.
Open Scope N_scope.

Definition model_case (i : N) (l : list op) : case :=
  let c0 := {| id := i; ops := l; ob := {| o_calls := []; o_emitted := []; o_streams := []; o_pending := 0 |} |} in
  {| id := i; ops := l; ob := predict c0 |}.

Theorem checker_accepts_model_forwarded i l : chk_forwarded_valid (model_case i l) = true.
Proof.
  unfold chk_forwarded_valid, model_case. cbn [ob o_emitted predict]. apply forallb_forall. intros [h e] Hin.
  unfold model_state in Hin. cbn [ops] in Hin.
  destruct (forward rules_validators _ _ _ Hin) as (b & _ & _ & Hv). exact Hv.
Qed.

Lemma nodupb_NoDup l : NoDup l -> nodupb l = true.
Proof.
  induction 1 as [|x l Hn Hd IH]; [reflexivity|]. cbn. rewrite IH, andb_true_r. apply negb_true_iff.
  destruct (existsb (N.eqb x) l) eqn:E; [|reflexivity]. exfalso. apply existsb_exists in E.
  destruct E as (y & Hy & Hxy). apply N.eqb_eq in Hxy. now subst.
Qed.

Theorem checker_accepts_model_forward_once i l : nodupb (map fst (o_emitted (ob (model_case i l)))) = true.
Proof.
  unfold model_case. cbn [ob o_emitted predict]. apply nodupb_NoDup. unfold model_state. cbn [ops].
  apply forward_once.
Qed.
