(* Composition of the bidder path: C19 (bidder API rules and forwarding, model/BidderApi.v) with
   C05 (SendBid of the preconfirmation protocol, model/PreconfBidder.v), C03 (the signed digest is
   the EIP-712 hash, model/Eip712.v) and C02 (signatures, model/Signer.v).

   The two oracles of the SendBid model are instantiated here:
     construct := ConstructSignedBid of the signer model (Signer.construct_bid K cr) on the call's
                  five values, the result rendered as the message that goes on the wire;
     verify    := VerifyPreConfirmation of the signer model (Signer.verify_preconf K cr) on the
                  decoded reply (NoPanic_proofs.conv_commitment: an empty bytes field is nil).
   and the call values of SendBid are those the bidder API hands over (BidderApi.calls).
   K is an arbitrary hash function and cr an arbitrary crypto library throughout.

   The wiring this composition relies on is extracted from the source on every run:
   BidderApi_proofs.node_wiring (node.NewNode gives the preconfirmation protocol to the bidder API as
   its sender), BidderApi_proofs.sender_call_wiring (the five values, in order),
   PreconfBidder_proofs.c05_src_write / c05_src_verify (what is written and what is verified). *)
From Coq Require Import String List NArith ZArith Bool Lia.
From MevVerif Require Import lib.Bytes gen.Generated model.Rules model.Eip712 model.Signer.
From MevVerif Require Import proofs.Bytes_proofs proofs.Eip712_proofs proofs.Signer_proofs proofs.Rules_proofs.
From MevVerif Require model.BidderApi model.PreconfBidder proofs.BidderApi_proofs proofs.PreconfBidder_proofs
  proofs.NoPanic_proofs.
Import ListNotations.
Open Scope N_scope.

Module BA := MevVerif.model.BidderApi.
Module PB := MevVerif.model.PreconfBidder.
Module PBP := MevVerif.proofs.PreconfBidder_proofs.
Module NP := MevVerif.proofs.NoPanic_proofs.

(* ---- the glue ------------------------------------------------------------------------------------ *)

(* the signed bid as the preconfirmation.v1.Bid message that is written to every provider: a bytes
   field that is nil is the empty string on the wire; a freshly built message has no unknown fields *)
Definition wire_bid (b : bid) : PB.bid :=
  PB.mkBid (b_tx b) (b_amt b) (b_bn b) (b_ds b) (b_de b) (obytes (b_dig b)) (obytes (b_sig b)) [].

(* s.sender.SendBid(ctx, txnsStr, bid.Amount, bid.BlockNumber, bid.DecayStartTimestamp, bid.DecayEndTimestamp) *)
Definition args_of (f : BA.forwarded) : PB.call_args :=
  PB.mkArgs (BA.f_txs f) (BA.f_amount f) (BA.f_bn f) (BA.f_ds f) (BA.f_de f).

Definition signer_construct (K : bytes -> bytes) (cr : crypto) (a : PB.call_args) : outcome PB.bid :=
  match construct_bid K cr (PB.a_tx a) (PB.a_amt a) (PB.a_bn a) (PB.a_ds a) (PB.a_de a) with
  | Ok b => Ok (wire_bid b)
  | Err e => Err e
  | Panic => Panic
  end.
Definition signer_verify (K : bytes -> bytes) (cr : crypto) (c : PB.commitment) : outcome bytes :=
  verify_preconf K cr (NP.conv_commitment c).
Definition signer_oracles (K : bytes -> bytes) (cr : crypto) : PB.oracles :=
  PB.mkOracles (signer_construct K cr) (signer_verify K cr).

Lemma signer_oracles_real K cr : NP.real_verify K cr (signer_oracles K cr).
Proof. intros c. reflexivity. Qed.

(* ---- small facts the models lack ---------------------------------------------------------------- *)

(* an all-digit spelling is read by big.Int.SetString as the same number *)
Lemma parse_amount_of_parse_dec s v : parse_dec s = Some v -> parse_amount s = Some (Z.of_N v).
Proof.
  intros H. unfold parse_amount.
  destruct s as [|c r]; [cbn in H; discriminate|].
  assert (Hd : is_digit c = true).
  { unfold parse_dec in H. destruct (all_digits (c :: r)) eqn:A; [|discriminate].
    cbn in A. apply andb_true_iff in A. tauto. }
  unfold is_digit in Hd.
  destruct (N.eqb_spec c 43) as [->|N1]; [cbn in Hd; discriminate|].
  destruct (N.eqb_spec c 45) as [->|N2]; [cbn in Hd; discriminate|].
  destruct c as [|p]; [rewrite H; reflexivity|].
  do 6 (destruct p as [p|p|]; try (rewrite H; reflexivity)); exfalso; (apply N1 + apply N2); reflexivity.
Qed.

Lemma obytes_onil l : obytes (NP.onil l) = l.
Proof. destruct l; reflexivity. Qed.

Lemma onil_some l : l <> [] -> NP.onil l = Some l.
Proof. destruct l; [congruence|reflexivity]. Qed.

Lemma join_nonempty sep (ls : list bytes) : ls <> [] -> (forall h, In h ls -> h <> []) -> join sep ls <> [].
Proof.
  destruct ls as [|a r]; [congruence|]. intros _ H.
  assert (Ha : a <> []) by (apply H; left; reflexivity).
  destruct a as [|x a']; [congruence|]. cbn. destruct r; discriminate.
Qed.

(* what ConstructSignedBid returns, without any premise on the key signer: the five values unchanged,
   the digest of those values, and the key signer's (normalised) answer for that digest *)
Lemma construct_bid_inv K cr tx amt bn ds de b :
  construct_bid K cr tx amt bn ds de = Ok b ->
  tx <> [] /\ amt <> [] /\ bn <> 0%Z /\
  exists d sig, bid_hash K b = Ok d /\ sign_normalised cr d = Ok sig /\
    b = {| b_tx := tx; b_amt := amt; b_bn := bn; b_ds := ds; b_de := de; b_dig := Some d; b_sig := Some sig |}.
Proof.
  intros H. unfold construct_bid in H.
  destruct tx as [|t0 tx']; [discriminate|]. destruct amt as [|a0 amt']; [discriminate|]. cbn [orb] in H.
  destruct (Z.eqb_spec bn 0) as [->|Hbn]; [discriminate|].
  set (b0 := {| b_tx := t0 :: tx'; b_amt := a0 :: amt'; b_bn := bn; b_ds := ds; b_de := de;
                b_dig := None; b_sig := None |}) in *.
  destruct (bid_hash K b0) as [d| |] eqn:Hh; try discriminate.
  destruct (sign_normalised cr d) as [sig| |] eqn:Hs; try discriminate.
  injection H as <-. split; [discriminate|]. split; [discriminate|]. split; [exact Hbn|].
  exists d, sig. split; [exact Hh|]. split; [exact Hs|reflexivity].
Qed.

(* past the "missing required fields" test ConstructSignedBid is GetBidHash, then SignHash *)
Lemma construct_bid_unfold K cr tx amt bn ds de :
  tx <> [] -> amt <> [] -> bn <> 0%Z ->
  construct_bid K cr tx amt bn ds de =
  match bid_hash K {| b_tx := tx; b_amt := amt; b_bn := bn; b_ds := ds; b_de := de; b_dig := None; b_sig := None |} with
  | Panic => Panic
  | Err e => Err e
  | Ok bidHash =>
      match sign_normalised cr bidHash with
      | Panic => Panic
      | Err e => Err e
      | Ok sig => Ok {| b_tx := tx; b_amt := amt; b_bn := bn; b_ds := ds; b_de := de;
                        b_dig := Some bidHash; b_sig := Some sig |}
      end
  end.
Proof.
  intros Ht Ha Hb. unfold construct_bid.
  destruct tx; [congruence|]. destruct amt; [congruence|]. cbn [orb].
  destruct (Z.eqb_spec bn 0); [congruence|reflexivity].
Qed.

(* sign_normalised answers at least 65 bytes (index 64 exists) *)
Lemma sign_normalised_nonempty cr h sig : sign_normalised cr h = Ok sig -> sig <> [].
Proof.
  unfold sign_normalised. destruct (sign cr h) as [sg| |]; try discriminate.
  destruct (nth_error sg 64) eqn:E; [|discriminate]. intros H. injection H as <-.
  unfold set64. intros Hn. apply app_eq_nil in Hn. destruct Hn as [_ Hn]. discriminate.
Qed.

(* VerifyPreConfirmation does not read the ProviderAddress field *)
Lemma signer_verify_ignores_prov K cr c x :
  signer_verify K cr (PB.set_prov c x) = signer_verify K cr c.
Proof. destruct c. reflexivity. Qed.

(* ---- 1. accepted requests: what is signed and offered ---------------------------------------------- *)

Section Accepted.
  Variable K : bytes -> bytes.
  Variable cr : crypto.
  Variable r : BA.request.
  (* the request passes the published rules of bidderapi.v1.Bid ... *)
  Hypothesis accepted :
    bidder_bid_ok (BA.r_txs r) (BA.r_amount r) (BA.r_bn r) (BA.r_ds r) (BA.r_de r) = true.
  (* ... and its three numeric fields are Go int64 values (the rules only say "positive") *)
  Hypothesis bn_int64 : (BA.r_bn r <= int64_max)%Z.
  Hypothesis ds_int64 : (BA.r_ds r <= int64_max)%Z.
  Hypothesis de_int64 : (BA.r_de r <= int64_max)%Z.

  Definition req_tx : bytes := join 44 (BA.r_txs r).
  Definition req_values : list value :=
    bid_values req_tx (dec_value (BA.r_amount r)) (Z.to_N (BA.r_bn r)) (Z.to_N (BA.r_ds r)) (Z.to_N (BA.r_de r)).
  (* the generic EIP-712 hash (written from the EIP text, model/Eip712.v part II) of the request's values *)
  Definition req_digest : bytes := eip712_hash K domain_schema bid_domain bid_schema req_values.

  Lemma accepted_spec : bidder_bid_spec (BA.r_txs r) (BA.r_amount r) (BA.r_bn r) (BA.r_ds r) (BA.r_de r).
  Proof. apply bidder_bid_ok_spec, accepted. Qed.

  Lemma accepted_forward ans fail_at :
    BA.calls (BA.send_bid (Some r) ans fail_at) = [BA.forward r] /\
    args_of (BA.forward r) = PB.mkArgs req_tx (BA.r_amount r) (BA.r_bn r) (BA.r_ds r) (BA.r_de r) /\
    split 44 req_tx = BA.r_txs r.
  Proof.
    destruct (BidderApi_proofs.verbatim r ans fail_at accepted_spec) as (Hc & Hs & _).
    split; [rewrite Hc; reflexivity|]. split; [reflexivity|exact Hs].
  Qed.

  Lemma accepted_amount :
    parse_amount (BA.r_amount r) = Some (Z.of_N (dec_value (BA.r_amount r))) /\
    (0 < Z.of_N (dec_value (BA.r_amount r)) < 2 ^ 64)%Z /\ BA.r_amount r <> [].
  Proof.
    destruct accepted_spec as (_ & (Hne & Hd & Hv) & _).
    assert (P : parse_dec (BA.r_amount r) = Some (dec_value (BA.r_amount r))).
    { apply parse_dec_some. repeat split; assumption. }
    split; [apply parse_amount_of_parse_dec, P|]. split; [|exact Hne].
    change (2 ^ 64)%Z with (Z.of_N 18446744073709551616). unfold uint64_bound in Hv. lia.
  Qed.

  Lemma accepted_tx_nonempty : req_tx <> [].
  Proof.
    destruct accepted_spec as ((Hne & Hall) & _). apply join_nonempty; [exact Hne|].
    intros h Hh Hn. rewrite Forall_forall in Hall. destruct (Hall h Hh) as [Hl _]. rewrite Hn in Hl. discriminate.
  Qed.

  Lemma accepted_numbers :
    (0 < BA.r_bn r < 2 ^ 63)%Z /\ (0 < BA.r_ds r < 2 ^ 63)%Z /\ (0 < BA.r_de r < 2 ^ 63)%Z.
  Proof.
    destruct accepted_spec as (_ & _ & Hb & Hs & He). unfold int64_max in *.
    change (2 ^ 63)%Z with 9223372036854775808%Z. lia.
  Qed.

  (* GetBidHash on a bid carrying the forwarded values (whatever digest and signature it carries)
     succeeds and is the generic EIP-712 hash of the request's values; the message is well typed *)
  Lemma accepted_bid_hash dg sg :
    bid_hash K {| b_tx := req_tx; b_amt := BA.r_amount r; b_bn := BA.r_bn r; b_ds := BA.r_ds r;
                  b_de := BA.r_de r; b_dig := dg; b_sig := sg |} = Ok req_digest /\
    well_typed (s_members bid_schema) req_values = true.
  Proof.
    destruct accepted_amount as (Pa & Ra & _). destruct accepted_numbers as (Rb & Rs & Re).
    set (b := {| b_tx := req_tx; b_amt := BA.r_amount r; b_bn := BA.r_bn r; b_ds := BA.r_ds r;
                 b_de := BA.r_de r; b_dig := dg; b_sig := sg |}).
    assert (Hall := bid_hash_is_eip712 K b (Z.of_N (dec_value (BA.r_amount r))) Pa).
    cbn [b b_tx b_amt b_bn b_ds b_de] in Hall.
    destruct Hall as (Hh & Hw); try (unfold u64, u63; lia).
    rewrite N2Z.id in Hh, Hw. split; [exact Hh|exact Hw].
  Qed.

  (* ConstructSignedBid on the forwarded values is decided by the key signer alone: the fields check
     and the amount check cannot fail, the digest is the EIP-712 hash of the request's values *)
  Theorem accepted_construct :
    signer_construct K cr (args_of (BA.forward r)) =
    match sign_normalised cr req_digest with
    | Ok sig => Ok (PB.mkBid req_tx (BA.r_amount r) (BA.r_bn r) (BA.r_ds r) (BA.r_de r) req_digest sig [])
    | Err e => Err e
    | Panic => Panic
    end.
  Proof.
    unfold signer_construct, args_of, BA.forward.
    cbn [PB.a_tx PB.a_amt PB.a_bn PB.a_ds PB.a_de BA.f_txs BA.f_amount BA.f_bn BA.f_ds BA.f_de].
    change (join BA.join_sep (BA.r_txs r)) with req_tx.
    destruct accepted_amount as (_ & _ & Ha). destruct accepted_numbers as (Rb & _).
    rewrite (construct_bid_unfold K cr _ _ _ _ _ accepted_tx_nonempty Ha) by lia.
    destruct (accepted_bid_hash None None) as (Hh & _). rewrite Hh.
    destruct (sign_normalised cr req_digest); reflexivity.
  Qed.

  (* what ConstructSignedBid returns for the forwarded values, whenever it returns a bid *)
  Definition sent_is_request_bid (s : PB.bid) : Prop :=
    PB.b_tx s = join 44 (BA.r_txs r) /\ split 44 (PB.b_tx s) = BA.r_txs r /\
    PB.b_amt s = BA.r_amount r /\ PB.b_bn s = BA.r_bn r /\ PB.b_ds s = BA.r_ds r /\ PB.b_de s = BA.r_de r /\
    PB.b_unk s = [] /\
    PB.b_dig s = eip712_hash K domain_schema bid_domain bid_schema
                   (bid_values (join 44 (BA.r_txs r)) (dec_value (BA.r_amount r))
                               (Z.to_N (BA.r_bn r)) (Z.to_N (BA.r_ds r)) (Z.to_N (BA.r_de r))) /\
    well_typed (s_members bid_schema)
               (bid_values (join 44 (BA.r_txs r)) (dec_value (BA.r_amount r))
                           (Z.to_N (BA.r_bn r)) (Z.to_N (BA.r_ds r)) (Z.to_N (BA.r_de r))) = true /\
    sign_normalised cr (PB.b_dig s) = Ok (PB.b_sig s).

  Lemma accepted_constructed s :
    PB.construct (signer_oracles K cr) (args_of (BA.forward r)) = Ok s -> sent_is_request_bid s.
  Proof.
    intros Hcs. cbn [PB.construct signer_oracles] in Hcs. rewrite accepted_construct in Hcs.
    destruct (sign_normalised cr req_digest) as [sig| |] eqn:Hs; try discriminate.
    injection Hcs as <-. unfold sent_is_request_bid.
    cbn [PB.b_tx PB.b_amt PB.b_bn PB.b_ds PB.b_de PB.b_dig PB.b_sig PB.b_unk].
    destruct (accepted_forward (BA.SenderReturns []) None) as (_ & _ & Hsp).
    destruct (accepted_bid_hash None None) as (_ & Hw).
    repeat split; try reflexivity; try assumption.
  Qed.

  (* the coarse reading of SendBid (a call made before its deadline on the repository's transport): the fields
     of the bid sent; used by the compositions further down, which say nothing about who was contacted *)
  Theorem accepted_sent_fields ans fail_at :
    exists f, BA.calls (BA.send_bid (Some r) ans fail_at) = [f] /\
    forall view D run,
      PB.send_bid (signer_oracles K cr) (args_of f) view D = PB.SRun run ->
      sent_is_request_bid (PB.r_sent run).
  Proof.
    destruct (accepted_forward ans fail_at) as (Hc & _).
    exists (BA.forward r). split; [exact Hc|]. intros view D run H.
    destruct (PBP.fanout _ _ _ _ _ H) as (Hcs & _). exact (accepted_constructed _ Hcs).
  Qed.

  (* End to end, on the operational model of SendBid ([PB.send_bid_op tr]: every transport -- whether NewStream,
     WriteMsg, ReadMsg watch the context --, every resolution of the final select, every deadline including a
     context that had already expired, D = 0).  The accepted request reaches SendBid exactly once; whatever
     SendBid then does (any set of connected peers, any reply scripts) the bid it signed and offers carries the
     request's hashes joined in order (and they split back), its amount text, block number and decay window, no
     other field; its digest is the generic EIP-712 hash of those values, which are well typed for the published
     schema; its signature is what the key signer answered for that digest (v moved to 27/28); there is one
     NewStream per connected provider, and exactly this message is handed to WriteMsg, once, on every stream that
     opened ([PBP.opens_stream_op tr D p]: the script does not make NewStream fail and NewStream did not see an
     already expired context) -- nothing is written when D = 0 on the repository's transport. *)
  Theorem accepted_bid_is_eip712 ans fail_at :
    exists f, BA.calls (BA.send_bid (Some r) ans fail_at) = [f] /\
    forall tr view D run,
      PB.send_bid_op tr (signer_oracles K cr) (args_of f) view D = PB.XRun run ->
      let s := PB.xr_sent run in
      PB.b_tx s = join 44 (BA.r_txs r) /\ split 44 (PB.b_tx s) = BA.r_txs r /\
      PB.b_amt s = BA.r_amount r /\ PB.b_bn s = BA.r_bn r /\ PB.b_ds s = BA.r_ds r /\ PB.b_de s = BA.r_de r /\
      PB.b_unk s = [] /\
      PB.b_dig s = eip712_hash K domain_schema bid_domain bid_schema
                     (bid_values (join 44 (BA.r_txs r)) (dec_value (BA.r_amount r))
                                 (Z.to_N (BA.r_bn r)) (Z.to_N (BA.r_ds r)) (Z.to_N (BA.r_de r))) /\
      well_typed (s_members bid_schema)
                 (bid_values (join 44 (BA.r_txs r)) (dec_value (BA.r_amount r))
                             (Z.to_N (BA.r_bn r)) (Z.to_N (BA.r_ds r)) (Z.to_N (BA.r_de r))) = true /\
      sign_normalised cr (PB.b_dig s) = Ok (PB.b_sig s) /\
      Forall2 (fun p ct => fst ct = PB.p_addr p /\ snd ct = if PBP.opens_stream_op tr D p then [s] else [])
              (PB.get_peers PB.TProvider view) (PB.xr_contacted run).
  Proof.
    destruct (accepted_forward ans fail_at) as (Hc & _).
    exists (BA.forward r). split; [exact Hc|]. intros tr view D run H s.
    destruct (PBP.op_fanout _ _ _ _ _ _ H) as (Hcs & Hf & _).
    destruct (accepted_constructed _ Hcs) as (E1 & E2 & E3 & E4 & E5 & E6 & E7 & E8 & E9 & E10).
    subst s. repeat split; assumption.
  Qed.

  (* the same call with an already expired context: nothing is handed to any stream (C05_expired) *)
  Theorem accepted_bid_expired_context_writes_nothing view run :
    PB.send_bid_op PB.ctx_transport (signer_oracles K cr) (args_of (BA.forward r)) view 0 = PB.XRun run ->
    (forall ad ws, In (ad, ws) (PB.xr_contacted run) -> ws = []) /\ PB.xr_delivered run = [].
  Proof.
    intros H. destruct (PBP.op_expired _ _ _ _ H) as (H1 & H2 & _). split; assumption.
  Qed.

  (* the call is refused only when the key signer fails or no provider is connected *)
  Theorem accepted_refused_only_by_signer view D :
    PB.send_bid (signer_oracles K cr) (args_of (BA.forward r)) view D = PB.SErr ->
    (exists e, sign_normalised cr req_digest = Err e) \/ PB.get_peers PB.TProvider view = [].
  Proof.
    intros H. apply PBP.refused in H. cbn [PB.construct signer_oracles] in H. rewrite accepted_construct in H.
    destruct H as [(e & He)|(s & _ & Hn)]; [left|right; exact Hn].
    destruct (sign_normalised cr req_digest); try discriminate. injection He as ->. eauto.
  Qed.
End Accepted.

(* The premises "<= int64_max" of section 1 are facts about how the request reached the API: bidderapi.v1.Bid
   carries its three numbers as protobuf int64, so each is [int64_of_wire u] for the 64-bit value u on the wire
   (Rules_proofs.int64_of_wire_range; Rules_proofs.bidder_bid_ok_int64 is the rule over that range). *)
Lemma decoded_from_wire_int64 u : u < uint64_bound -> (int64_of_wire u <= int64_max)%Z.
Proof. intros H. exact (proj2 (int64_of_wire_range u H)). Qed.

(* section 1 for a request as decoded from the wire: no range premise left *)
Theorem accepted_wire_request_bid_is_eip712 (K : bytes -> bytes) (cr : crypto) txs amount ubn uds ude :
  ubn < uint64_bound -> uds < uint64_bound -> ude < uint64_bound ->
  let r := {| BA.r_txs := txs; BA.r_amount := amount; BA.r_bn := int64_of_wire ubn;
              BA.r_ds := int64_of_wire uds; BA.r_de := int64_of_wire ude |} in
  bidder_bid_ok txs amount (int64_of_wire ubn) (int64_of_wire uds) (int64_of_wire ude) = true ->
  forall tr view D run,
    PB.send_bid_op tr (signer_oracles K cr) (args_of (BA.forward r)) view D = PB.XRun run ->
    sent_is_request_bid K cr r (PB.xr_sent run) /\
    (0 < ubn < 9223372036854775808 /\ 0 < uds < 9223372036854775808 /\ 0 < ude < 9223372036854775808).
Proof.
  intros Hb Hs He r Hok tr view D run H.
  destruct (PBP.op_fanout _ _ _ _ _ _ H) as (Hcs & _).
  split.
  - exact (accepted_constructed K cr r Hok (decoded_from_wire_int64 _ Hb) (decoded_from_wire_int64 _ Hs)
             (decoded_from_wire_int64 _ He) _ Hcs).
  - unfold bidder_bid_ok in Hok. apply andb_true_iff in Hok. destruct Hok as [Hx Pde].
    apply andb_true_iff in Hx. destruct Hx as [Hx Pds]. apply andb_true_iff in Hx. destruct Hx as [_ Pbn].
    apply (positive_int64_wire _ Hb) in Pbn. apply (positive_int64_wire _ Hs) in Pds.
    apply (positive_int64_wire _ He) in Pde. auto.
Qed.

(* ---- 1b. the offered bid verifies to the node's own address ----------------------------------------- *)

(* For every call of SendBid (any values): the bid offered is ConstructSignedBid's result put on the
   wire; under the recover-after-sign premise of C02_roundtrip it verifies to the node's own address,
   and so does the message as a provider decodes it (empty bytes fields read as nil) provided digests
   are not empty (true of Keccak-256: 32 bytes). *)
Theorem offered_bid_signed (K : bytes -> bytes) (cr : crypto) (pk : bytes) :
  (forall h sg, sign cr h = Ok sg ->
     length sg = 65%nat /\ (nth_error sg 64 = Some 0 \/ nth_error sg 64 = Some 1) /\
     recover cr h sg = Ok pk /\ verify_rs cr pk h (firstn 64 sg) = true) ->
  (forall m, K m <> []) ->
  forall a view D run,
    PB.send_bid (signer_oracles K cr) a view D = PB.SRun run ->
    exists b,
      construct_bid K cr (PB.a_tx a) (PB.a_amt a) (PB.a_bn a) (PB.a_ds a) (PB.a_de a) = Ok b /\
      PB.r_sent run = wire_bid b /\
      NP.conv_bid (PB.r_sent run) = b /\
      verify_bid K cr (NP.conv_bid (PB.r_sent run)) = Ok (addr_of cr pk) /\
      (forall ad ws, In (ad, ws) (PB.r_contacted run) -> ws = [] \/ ws = [PB.r_sent run]).
Proof.
  intros RS KN a view D run H.
  destruct (PBP.fanout _ _ _ _ _ H) as (Hcs & Hf & _). cbn [PB.construct signer_oracles] in Hcs.
  unfold signer_construct in Hcs.
  destruct (construct_bid K cr (PB.a_tx a) (PB.a_amt a) (PB.a_bn a) (PB.a_ds a) (PB.a_de a)) as [b| |] eqn:Hb;
    try discriminate.
  injection Hcs as Hcs. exists b. split; [reflexivity|]. split; [symmetry; exact Hcs|].
  pose proof (construct_bid_verifies K cr pk RS _ _ _ _ _ b Hb) as Hv.
  assert (Hconv : NP.conv_bid (wire_bid b) = b).
  { destruct (construct_bid_inv _ _ _ _ _ _ _ _ Hb) as (_ & _ & _ & d & sig & Hh & Hs & ->).
    unfold NP.conv_bid, wire_bid. cbn.
    assert (Hd : d <> []).
    { unfold bid_hash in Hh. cbn [b_amt] in Hh. destruct (parse_amount (PB.a_amt a)); [|discriminate].
      destruct (amount_out_of_range z); [discriminate|]. injection Hh as <-. apply KN. }
    rewrite (onil_some d Hd), (onil_some sig (sign_normalised_nonempty _ _ _ Hs)). reflexivity. }
  rewrite <- Hcs. split; [exact Hconv|]. split; [rewrite Hconv; exact Hv|].
  intros ad ws Hin. clear -Hf Hin Hcs.
  induction Hf as [|p ct ps cts [_ Hw] _ IH]; [destruct Hin|].
  destruct Hin as [->|Hin]; [|exact (IH Hin)]. cbn [snd] in Hw. rewrite Hw, Hcs.
  destruct (PBP.opens_stream p); auto.
Qed.

(* ---- 2. surfaced commitments are signed for the bid sent ---------------------------------------------- *)

(* SendBid with VerifyPreConfirmation instantiated by the signer model (and any ConstructSignedBid):
   every value received on the channel embeds exactly the bid sent, arrived before the deadline, and
   -- through C02_sound_commitment -- presents a digest that is the commitment hash over the sent bid's
   fields, digest and signature, with a 65-byte signature from which the key recovered (v brought from
   27/28 to 0/1) passes the low-S check and has the address reported as ProviderAddress. *)
Theorem surface_signed (K : bytes -> bytes) (cr : crypto) :
  forall o a view D run,
    (forall c, PB.verify o c = verify_preconf K cr (NP.conv_commitment c)) ->
    PB.send_bid o a view D = PB.SRun run ->
    forall t c, In (t, c) (PB.r_delivered run) ->
      let sent := NP.conv_bid (PB.r_sent run) in
      PB.c_bid c = Some (PB.r_sent run) /\ t < D /\
      exists d sig,
        PB.c_dig c = d /\ PB.c_sig c = sig /\ d <> [] /\
        (exists a', verify_bid K cr sent = Ok a') /\
        commitment_hash K {| c_bid := Some sent; c_dig := None; c_sig := None; c_prov := [] |} = Ok d /\
        length sig = 65%nat /\
        exists v pk, nth_error sig 64 = Some v /\
          recover cr d (firstn 64 sig ++ [v_to01 v]) = Ok pk /\
          verify_rs cr pk d (firstn 64 sig) = true /\ PB.c_prov c = addr_of cr pk.
Proof.
  intros o a view D run RV H t c Hin sent.
  assert (Hig : forall c x, PB.verify o (PB.set_prov c x) = PB.verify o c).
  { intros c0 x. rewrite !RV. apply (signer_verify_ignores_prov K cr). }
  destruct (PBP.surface_verified o a view D run Hig H t c Hin) as (Hv & Hb & Ht).
  split; [exact Hb|]. split; [exact Ht|].
  rewrite RV in Hv. apply verify_preconf_iff in Hv.
  destruct Hv as (b & d & sig & Eb & Ed & Es & Hvb & Hh & Hl & Hrec).
  unfold NP.conv_commitment in Eb, Ed, Es. cbn [c_bid c_dig c_sig] in Eb, Ed, Es.
  rewrite Hb in Eb. cbn [option_map] in Eb. injection Eb as <-.
  assert (Dd : PB.c_dig c = d) by (destruct (PB.c_dig c); [discriminate|injection Ed as <-; reflexivity]).
  assert (Ds : PB.c_sig c = sig) by (destruct (PB.c_sig c); [discriminate|injection Es as <-; reflexivity]).
  exists d, sig. split; [exact Dd|]. split; [exact Ds|].
  split; [intros ->; rewrite Dd in Ed; discriminate|]. split; [exact Hvb|].
  split.
  - unfold commitment_hash in Hh |- *. unfold NP.conv_commitment in Hh. cbn [c_bid] in Hh |- *.
    rewrite Hb in Hh. exact Hh.
  - split; [exact Hl|]. destruct Hrec as (v & pk & H1 & H2 & H3 & H4).
    exists v, pk. repeat split; try assumption.
Qed.

(* ... and, by C03_commitment, when the sent bid lies in the EIP-712 domain (amount below 2^64,
   non-negative int64 numbers) that digest is the generic EIP-712 hash of the PreConfCommitment
   message made of the sent bid's values and the lowercase hex of its digest and signature. *)
Theorem surface_signed_eip712 (K : bytes -> bytes) (cr : crypto) :
  forall o a view D run,
    (forall c, PB.verify o c = verify_preconf K cr (NP.conv_commitment c)) ->
    PB.send_bid o a view D = PB.SRun run ->
    forall A, parse_amount (PB.b_amt (PB.r_sent run)) = Some A -> (0 <= A < 2 ^ 64)%Z ->
    (0 <= PB.b_bn (PB.r_sent run) < 2 ^ 63)%Z -> (0 <= PB.b_ds (PB.r_sent run) < 2 ^ 63)%Z ->
    (0 <= PB.b_de (PB.r_sent run) < 2 ^ 63)%Z ->
    forall t c, In (t, c) (PB.r_delivered run) ->
      let s := PB.r_sent run in
      PB.c_dig c = eip712_commitment K (PB.b_tx s) (Z.to_N A) (Z.to_N (PB.b_bn s)) (Z.to_N (PB.b_ds s))
                                     (Z.to_N (PB.b_de s)) (PB.b_dig s) (PB.b_sig s).
Proof.
  intros o a view D run RV H A PA RA Rb Rs Re t c Hin s.
  destruct (surface_signed K cr o a view D run RV H t c Hin) as (_ & _ & d & sig & Dd & _ & _ & _ & Hh & _).
  set (c0 := {| c_bid := Some (NP.conv_bid (PB.r_sent run)); c_dig := None; c_sig := None; c_prov := [] |}) in *.
  destruct (commitment_hash_is_eip712 K c0 (NP.conv_bid (PB.r_sent run)) A eq_refl) as (E & _);
    try assumption.
  rewrite E in Hh. injection Hh as Hh. rewrite Dd, <- Hh. unfold eip712_commitment, commitment_values, NP.conv_bid.
  cbn [b_tx b_bn b_ds b_de b_dig b_sig]. rewrite !obytes_onil. reflexivity.
Qed.

(* ---- 1+2. a request accepted by the API, through the signer, to the commitments streamed back --------- *)

(* Every commitment SendBid surfaces for an accepted request carries the request's values and a
   commitment digest that is the EIP-712 hash over those values and the lowercase hex of the node's own
   bid digest (itself the EIP-712 hash of the values) and bid signature. *)
Theorem accepted_commitments (K : bytes -> bytes) (cr : crypto) (r : BA.request) :
  bidder_bid_ok (BA.r_txs r) (BA.r_amount r) (BA.r_bn r) (BA.r_ds r) (BA.r_de r) = true ->
  (BA.r_bn r <= int64_max)%Z -> (BA.r_ds r <= int64_max)%Z -> (BA.r_de r <= int64_max)%Z ->
  forall view D run,
    PB.send_bid (signer_oracles K cr) (args_of (BA.forward r)) view D = PB.SRun run ->
    forall t c, In (t, c) (PB.r_delivered run) ->
      exists b, PB.c_bid c = Some b /\
        PB.b_tx b = join 44 (BA.r_txs r) /\ PB.b_amt b = BA.r_amount r /\
        PB.b_bn b = BA.r_bn r /\ PB.b_ds b = BA.r_ds r /\ PB.b_de b = BA.r_de r /\
        PB.b_dig b = req_digest K r /\
        PB.c_dig c = eip712_commitment K (join 44 (BA.r_txs r)) (dec_value (BA.r_amount r))
                       (Z.to_N (BA.r_bn r)) (Z.to_N (BA.r_ds r)) (Z.to_N (BA.r_de r))
                       (req_digest K r) (PB.b_sig b).
Proof.
  intros Hok Hb Hs He view D run H t c Hin.
  destruct (accepted_sent_fields K cr r Hok Hb Hs He (BA.SenderReturns []) None) as (f & Hc & Hall).
  destruct (accepted_forward r Hok (BA.SenderReturns []) None) as (Hc' & _). rewrite Hc' in Hc. injection Hc as <-.
  destruct (Hall view D run H) as (E1 & _ & E3 & E4 & E5 & E6 & _ & E8 & _).
  destruct (accepted_amount r Hok) as (Pa & Ra & _). destruct (accepted_numbers r Hok Hb Hs He) as (Rb & Rs & Re).
  pose proof (surface_signed_eip712 K cr _ _ view D run (signer_oracles_real K cr) H
                (Z.of_N (dec_value (BA.r_amount r)))) as Hd.
  rewrite E3, E4, E5, E6 in Hd. specialize (Hd Pa).
  assert (Hd' := Hd ltac:(lia) ltac:(lia) ltac:(lia) ltac:(lia) t c Hin). clear Hd. cbn zeta in Hd'.
  destruct (surface_signed K cr _ _ view D run (signer_oracles_real K cr) H t c Hin) as (Hcb & _).
  exists (PB.r_sent run). split; [exact Hcb|]. repeat split; try assumption.
  rewrite Hd', E1, E4, E5, E6, E8, N2Z.id. reflexivity.
Qed.

(* ---- non-vacuity ----------------------------------------------------------------------------------- *)

Definition ex_request : BA.request := BidderApi_proofs.sample_request.
Definition ex_K : bytes -> bytes := fun m => [N.of_nat (length m) mod 256; 1].

Example ex_request_accepted :
  bidder_bid_ok (BA.r_txs ex_request) (BA.r_amount ex_request) (BA.r_bn ex_request) (BA.r_ds ex_request)
                (BA.r_de ex_request) = true /\
  (BA.r_bn ex_request <= int64_max)%Z /\ (BA.r_ds ex_request <= int64_max)%Z /\ (BA.r_de ex_request <= int64_max)%Z.
Proof. vm_compute. repeat split; congruence. Qed.

(* the premises of offered_bid_signed hold for the toy crypto record and a hash function without
   empty images *)
Example ex_premises :
  (forall h sg, sign toy_crypto h = Ok sg ->
     length sg = 65%nat /\ (nth_error sg 64 = Some 0 \/ nth_error sg 64 = Some 1) /\
     recover toy_crypto h sg = Ok [4] /\ verify_rs toy_crypto [4] h (firstn 64 sg) = true) /\
  (forall m, ex_K m <> []).
Proof. split; [exact toy_recover_sign|discriminate]. Qed.

(* one provider that answers with ConstructPreConfirmation of the signer model on the bid it received,
   one that answers for another bid, one that is silent: exactly the first commitment surfaces *)
Definition ex_sent : PB.bid :=
  match signer_construct ex_K toy_crypto (args_of (BA.forward ex_request)) with Ok b => b | _ => PB.mkBid [] [] 0 0 0 [] [] [] end.
Definition ex_reply (b : PB.bid) : PB.commitment :=
  match construct_preconf ex_K toy_crypto (Some (NP.conv_bid b)) with
  | Ok c => PB.mkCommitment (Some b) (obytes (c_dig c)) (obytes (c_sig c)) [] []
  | _ => PB.mkCommitment None [] [] [] []
  end.
Definition ex_other : PB.bid :=
  PB.mkBid (PB.b_tx ex_sent) (bos "6") (PB.b_bn ex_sent) (PB.b_ds ex_sent) (PB.b_de ex_sent) (PB.b_dig ex_sent) (PB.b_sig ex_sent) [].
Definition ex_view : list PB.peer :=
  [PB.mkPeer [1] PB.TProvider (PB.RFrames (ex_reply ex_sent) []) 1;
   PB.mkPeer [2] PB.TProvider (PB.RFrames (ex_reply ex_other) []) 2;
   PB.mkPeer [3] PB.TProvider PB.RSilence 0;
   PB.mkPeer [4] PB.TBidder PB.RSilence 0].

Example ex_bidder_path :
  exists run, PB.send_bid (signer_oracles ex_K toy_crypto) (args_of (BA.forward ex_request)) ex_view 10 = PB.SRun run /\
    PB.r_sent run = ex_sent /\
    map fst (PB.r_contacted run) = [[1]; [2]; [3]] /\
    PB.r_delivered run = [(1, PB.set_prov (ex_reply ex_sent) [4])] /\
    PB.b_dig ex_sent = req_digest ex_K ex_request.
Proof. eexists. split; [vm_compute; reflexivity|]. repeat split; vm_compute; reflexivity. Qed.
