(* C15 -- the mode-3 clauses of check/Check_C15.v on the discovery machine's own run: the pool clause
   and the view clause are silent for every schedule. *)
From Coq Require Import String List NArith ZArith Bool Lia.
From MevVerif Require Import lib.Bytes proofs.Bytes_proofs gen.Generated model.Topology model.Discovery
     check.Check_C15 proofs.Topology_proofs proofs.Discovery_proofs.
Import ListNotations.
Open Scope N_scope.

Definition xadds (l : list deffect) : list peer :=
  flat_map (fun e => match e with XAdd p => [p] | _ => [] end) l.
Definition add_all (ps : list peer) (A : abs) : abs := fold_left (fun acc p => abs_add p acc) ps A.

Lemma xadds_app a b : xadds (a ++ b) = xadds a ++ xadds b.
Proof. apply flat_map_app. Qed.
Lemma xadds_check_first l : xadds (check_first l) = xadds l.
Proof.
  unfold check_first. rewrite xadds_app.
  assert (A : xadds (filter (fun e => match e with XCheck _ _ => true | _ => false end) l) = []).
  { induction l as [|e r IH]; [reflexivity|]. destruct e; cbn; exact IH. }
  rewrite A. cbn [app].
  clear A. unfold xadds. induction l as [|e r IH]; [reflexivity|]. destruct e; cbn; rewrite ?IH; reflexivity.
Qed.
Lemma xadds_seen l : xadds (filter seen l) = xadds l.
Proof. unfold xadds. induction l as [|e r IH]; [reflexivity|]. destruct e; cbn; rewrite ?IH; reflexivity. Qed.

(* the abstract sets kept by the checker's bookkeeping only move with the AddPeers calls seen *)
Lemma g_effect_abs a G e :
  g_abs (fst (g_effect a G e)) = add_all (xadds [e]) (g_abs G).
Proof.
  destruct e as [h k|h x r|u|p|h code]; cbn [g_effect xadds flat_map app add_all fold_left].
  - destruct (g_find h (g_rem G)); reflexivity.
  - reflexivity.
  - destruct (rm_due u (g_due G)); reflexivity.
  - reflexivity.
  - destruct (code =? 2); reflexivity.
Qed.
Lemma g_effects_abs a l : forall G, g_abs (fst (g_effects a G l)) = add_all (xadds l) (g_abs G).
Proof.
  induction l as [|e r IH]; intros G; [reflexivity|]. cbn [g_effects].
  pose proof (g_effect_abs a G e) as E. destruct (g_effect a G e) as [G1 k1]. cbn [fst] in E.
  specialize (IH G1). destruct (g_effects a G1 r) as [G2 k2]. cbn [fst] in *.
  rewrite IH, E. change (e :: r) with ([e] ++ r). rewrite xadds_app. unfold add_all. rewrite fold_left_app. reflexivity.
Qed.

(* the internal steps neither touch the topology nor add peers *)
Lemma eager_quiet cap : forall fuel s s1 effs,
  drun_from cap s (eager fuel cap s) = Ok (s1, effs) -> d_topo s1 = d_topo s /\ xadds (concat effs) = [].
Proof.
  induction fuel as [|n IH]; intros s s1 effs; cbn [eager drun_from].
  - intros [= <- <-]. auto.
  - destruct (eager_event cap s) as [e|] eqn:E; [|cbn [drun_from]; intros [= <- <-]; auto].
    assert (Q : forall s' eff, dstep cap s e = Ok (s', eff) -> d_topo s' = d_topo s /\ xadds eff = []).
    { unfold eager_event in E.
      assert (K : e = DAcquire \/ (exists h, e = DHandoff h) \/ (exists h, e = DGiveUp h)).
      { destruct (d_pending s).
        - destruct (d_held s <? cap); [injection E as <-; auto|].
          destruct (offering (d_handlers s)) as [[h [|]]|]; try discriminate. injection E as <-. eauto.
        - destruct (offering (d_handlers s)) as [[h b]|]; try discriminate. injection E as <-. eauto. }
      intros s' eff. destruct K as [->|[[h ->]|[h ->]]]; cbn [dstep].
      - destruct (d_pending s); [|intros [= <- <-]; auto]. destruct (d_held s <? cap); intros [= <- <-]; auto.
      - destruct (find_h h (d_handlers s)) as [[[|x rest] [|] c]|]; try (intros [= <- <-]; auto).
        destruct (d_pending s); intros [= <- <-]; auto. split; [reflexivity|]. destruct rest; reflexivity.
      - destruct (find_h h (d_handlers s)) as [[[|x rest] [|] [|]]|]; try (intros [= <- <-]; auto).
        split; [reflexivity|]. change (xadds ((map (fun y => XSkip h y SkCancelled) (x :: rest)) ++ [XReturn h 2]) = []).
        rewrite xadds_app. cbn [xadds flat_map app]. rewrite app_nil_r.
        generalize (x :: rest). intros l0. induction l0; [reflexivity|]. cbn. assumption. }
    destruct (dstep cap s e) as [[s' eff]| |] eqn:D; cbn [drun_from]; rewrite D; try discriminate.
    destruct (drun_from cap s' (eager n cap s')) as [[s2 effs2]| |] eqn:R2; try discriminate.
    intros [= <- <-]. destruct (Q s' eff eq_refl) as [T X]. destruct (IH s' s2 effs2 R2) as [T2 X2].
    split; [congruence|]. cbn [concat]. rewrite xadds_app, X, X2. reflexivity.
Qed.

(* one action of the driver: the model's topology and the checker's sets move together *)
Lemma action_R cap s a s1 effs G :
  wf (d_topo s) -> R (d_topo s) (g_abs G) ->
  drun_from cap s (action_events cap s a) = Ok (s1, effs) ->
  wf (d_topo s1) /\ R (d_topo s1) (add_all (xadds (concat effs)) (g_abs (g_begin a G))).
Proof.
  intros W Rr. unfold action_events.
  destruct (dstep cap s (action_event a)) as [[s' eff]| |] eqn:D; cbn [drun_from]; rewrite D; try discriminate.
  destruct (drun_from cap s' (eager 6 cap s')) as [[s2 effs2]| |] eqn:R2; try discriminate.
  intros [= <- <-]. destruct (eager_quiet cap 6 s' s2 effs2 R2) as [T X].
  cbn [concat]. rewrite xadds_app, X, app_nil_r, T. clear R2 T X.
  destruct a as [h ok l|h|h|u r|ev]; cbn [action_event dstep g_begin] in *.
  - assert (d_topo s' = d_topo s /\ xadds eff = []) as [-> ->].
    { destruct (find_h h (d_handlers s)); [injection D as <- <-; auto|].
      destruct (negb ok); injection D as <- <-; auto. split; [reflexivity|]. destruct l; reflexivity. }
    destruct ok; auto.
  - assert (d_topo s' = d_topo s /\ xadds eff = []) as [-> ->]; [|auto].
    destruct (find_h h (d_handlers s)) as [[[|x rest] [|] c]|]; try (injection D as <- <-; auto).
    destruct (is_connected _ _); injection D as <- <-; auto. split; [reflexivity|]. destruct rest; reflexivity.
  - assert (d_topo s' = d_topo s /\ xadds eff = []) as [-> ->]; [|auto].
    destruct (find_h h (d_handlers s)) as [[rem o c]|]; injection D as <- <-; auto.
  - destruct (flying u s); [|injection D as <- <-; auto].
    destruct (d_held s =? 0); [discriminate|]. injection D as <- <-. cbn [d_topo].
    destruct r as [p|rf]; cbn; auto. split; [apply wf_add, W|apply R_add, Rr].
  - destruct (topo_event ev) eqn:Te; injection D as <- <-; cbn [d_topo xadds flat_map add_all fold_left g_abs]; auto.
    split; [apply wf_step, W|].
    pose proof (R_step (d_topo s) (g_abs G) ev Rr) as H.
    destruct ev; cbn in Te; try discriminate; exact H.
Qed.

Lemma grun_accepts cap pr : forall acts s G,
  pool_inv cap s -> wf (d_topo s) -> R (d_topo s) (g_abs G) ->
  match grun cap s acts with
  | (effs, s', pk) =>
      pk <= cap
      /\ view_ok (g_abs (fst (g_run G acts effs))) pr (observe pr (d_topo s') []) = true
  end.
Proof.
  induction acts as [|a r IH]; intros s G I W Rr; cbn [grun g_run].
  - split; [destruct I; lia|]. cbn [fst]. apply view_ok_model; assumption.
  - destruct (drun_from_pool cap (action_events cap s a) s I) as (s1 & effs & E & I1). rewrite E.
    destruct (action_R cap s a s1 effs G W Rr E) as [W1 R1].
    set (l := filter seen (concat effs)).
    pose proof (g_effects_abs a (check_first l) (g_begin a G)) as GA.
    destruct (g_effects a (g_begin a G) (check_first l)) as [G1 k1] eqn:GE. cbn [fst] in GA.
    assert (R1' : R (d_topo s1) (g_abs (g_end a G1))).
    { assert (g_abs (g_end a G1) = g_abs G1) as -> by (destruct a; reflexivity).
      rewrite GA, xadds_check_first. unfold l. rewrite xadds_seen. exact R1. }
    specialize (IH s1 (g_end a G1) I1 W1 R1').
    destruct (grun cap s1 r) as [[rest s2] pk]. destruct IH as [P V].
    cbn [g_run]. fold l. rewrite GE.
    destruct (g_run (g_end a G1) r rest) as [G2 k2]. cbn [fst] in *.
    split; [destruct I; lia|exact V].
Qed.

(* For EVERY driver schedule (any lists, any order of releases, completions, cancellations, topology
   events): on the machine's own run the clause gossip:pool and the view clause of the mode-3 checker
   are silent. *)
Theorem disc_checker_pool_view_accept_model pr acts :
  match grun pool_width dinit acts with
  | (effs, s, pk) =>
      (pool_width <? pk) = false
      /\ view_ok (g_abs (fst (g_run (mkG [] [] [] [] abs_init) acts effs))) pr (observe pr (d_topo s) []) = true
  end.
Proof.
  pose proof (grun_accepts pool_width pr acts dinit (mkG [] [] [] [] abs_init) (pool_inv_init _) wf_init) as H.
  destruct (grun pool_width dinit acts) as [[effs s] pk]. destruct H as [P V]; [repeat split|].
  split; [apply N.ltb_ge; exact P|exact V].
Qed.

(* the clauses are not vacuous: an observation with 11 dials running at once, and one with a Connect
   call for an entry that was answered "known", are flagged *)
Example disc_checker_rejects :
  In "gossip:pool"%string
     (case_violations (mkCaseD 0 3 [] [] [] [observe [] init []] [] []
        (mkDisc [] [] 11 false)))
  /\ In "gossip:dialled-known"%string
     (case_violations (mkCaseD 0 3 [] [] [] [observe [] (add (mkPeer 5 ROLE_PROVIDER) init) []] [] []
        (mkDisc [GTopo (AddPeers [mkPeer 5 ROLE_PROVIDER]); GList 1 true [([5], [170])]; GCheck 1]
                [[]; []; [XCheck 1 true; XDial [170]; XReturn 1 0]] 1 false))).
Proof. vm_compute. auto. Qed.

(* --- the return-code clause ---------------------------------------------------------------------------
   The checker's per-handler remaining lists follow the machine's handler lists (minus the head while
   the handler sits in its select) as long as no list id is used twice. *)
Definition tracked (k : handler) : list wire_record := if h_offer k then tl (h_rem k) else h_rem k.
Definition InvA (s : dstate) (G : gst) : Prop :=
  forall h, g_find h (g_rem G) = match find_h h (d_handlers s) with Some k => tracked k | None => [] end.
Definition hang := "view:hang"%string.
Definition nochk (l : list deffect) : Prop :=
  forallb (fun e => match e with XCheck _ _ => false | _ => true end) l = true.

Lemma g_find_set h h' r l : g_find h' (g_set h r l) = if h =? h' then r else g_find h' l.
Proof.
  induction l as [|[d r0] t IH]; cbn [g_set g_find].
  - destruct (h =? h'); reflexivity.
  - destruct (N.eqb_spec d h) as [->|Ne]; cbn [g_find].
    + destruct (h =? h'); reflexivity.
    + rewrite IH. destruct (N.eqb_spec d h') as [->|Ne2]; [|reflexivity].
      destruct (N.eqb_spec h h'); [congruence|reflexivity].
Qed.
Lemma find_h_set h h' k hs :
  find_h h' (set_h h k hs) = if h =? h' then match find_h h hs with Some _ => Some k | None => None end else find_h h' hs.
Proof.
  induction hs as [|[d k0] t IH]; cbn [set_h find_h].
  - destruct (h =? h'); reflexivity.
  - destruct (N.eqb_spec d h) as [->|Ne]; cbn [find_h].
    + destruct (h =? h'); reflexivity.
    + rewrite IH. destruct (N.eqb_spec d h') as [->|Ne2]; [|reflexivity].
      destruct (N.eqb_spec h h'); [congruence|reflexivity].
Qed.

Lemma g_effects_app a l1 : forall l2 G,
  g_effects a G (l1 ++ l2) =
  (fst (g_effects a (fst (g_effects a G l1)) l2), snd (g_effects a G l1) ++ snd (g_effects a (fst (g_effects a G l1)) l2)).
Proof.
  induction l1 as [|e r IH]; intros l2 G; cbn [app g_effects].
  - cbn [fst snd app]. destruct (g_effects a G l2); reflexivity.
  - destruct (g_effect a G e) as [G1 k1]. rewrite IH.
    destruct (g_effects a G1 r) as [G2 k2]. cbn [fst snd]. rewrite app_assoc. reflexivity.
Qed.
Lemma nochk_app a b : nochk a -> nochk b -> nochk (a ++ b).
Proof. unfold nochk. intros A B. rewrite forallb_app, A, B. reflexivity. Qed.
Lemma nochk_filter f l : nochk l -> nochk (filter f l).
Proof.
  unfold nochk. induction l as [|e r IH]; [auto|]. cbn [forallb filter]. intros H.
  apply andb_prop in H as [H1 H2]. destruct (f e); cbn [forallb]; rewrite ?H1, IH; auto.
Qed.
Lemma check_first_nochk l : nochk l -> check_first l = l.
Proof.
  unfold check_first, nochk. induction l as [|e r IH]; [reflexivity|]. cbn [forallb filter]. intros H.
  apply andb_prop in H as [H1 H2]. specialize (IH H2).
  destruct e; try discriminate; cbn [filter].
  all: assert (Z : filter (fun e => match e with XCheck _ _ => true | _ => false end) r = []);
    [clear IH; induction r as [|e' r' IH']; [reflexivity|]; cbn [forallb filter] in *; apply andb_prop in H2 as [A B];
     destruct e'; try discriminate; auto|].
  all: rewrite Z in *; cbn [app] in *; rewrite IH; reflexivity.
Qed.
Lemma check_first_cons h k l : nochk l -> check_first (XCheck h k :: l) = XCheck h k :: l.
Proof.
  intros H. pose proof (check_first_nochk l H) as E. unfold check_first in *. cbn [filter].
  assert (Z : filter (fun e => match e with XCheck _ _ => true | _ => false end) l = []).
  { unfold nochk in H. clear E. induction l as [|e' r' IH']; [reflexivity|]. cbn [forallb filter] in *.
    apply andb_prop in H as [A B]. destruct e'; try discriminate; auto. }
  rewrite Z in *. cbn [app] in *. rewrite E. reflexivity.
Qed.
Lemma seen_skips h (l : list wire_record) r : filter seen (map (fun y => XSkip h y r) l) = [].
Proof. induction l; [reflexivity|]. cbn. assumption. Qed.

(* the effect list of one event, as the driver sees it: at most one IsConnected answer, in front *)
Definition front (l : list deffect) : Prop := nochk l \/ exists h k r, l = XCheck h k :: r /\ nochk r.

Ltac nohang := cbn; unfold hang; let HH := fresh in intros HH; repeat (destruct HH as [HH|HH]; [discriminate HH|]); exact HH.
Ltac triv := cbn; repeat split; auto; try (left; reflexivity); try (intros; reflexivity).
(* one machine event other than a successfully read list *)
Lemma step_hang cap a s e s' eff G :
  InvA s G -> dstep cap s e = Ok (s', eff) ->
  (forall h l, e = DList h false l -> a = GList h false l) ->
  (forall h l, e <> DList h true l) ->
  InvA s' (fst (g_effects a G (filter seen eff))) /\ ~ In hang (snd (g_effects a G (filter seen eff)))
  /\ front (filter seen eff) /\ ((forall h, e <> DCheck h) -> nochk (filter seen eff)).
Proof.
  intros I D A1 A2.
  destruct e as [h ok l|h|h|h|h| |u r|ev]; cbn [dstep] in D.
  - destruct ok; [exfalso; eapply A2; reflexivity|].
    destruct (find_h h (d_handlers s)) eqn:F; injection D as <- <-; cbn.
    + solve [triv].
    + rewrite (A1 h l eq_refl). rewrite N.eqb_refl. solve [triv].
  - pose proof (I h) as Ih.
    destruct (find_h h (d_handlers s)) as [[[|x rest] [|] c]|] eqn:F;
      try (injection D as <- <-; solve [triv]).
    unfold tracked in Ih; cbn in Ih.
    assert (P : forall k rem' G', g_rem G' = g_set h rest (g_rem G) -> tracked (mkH rem' k c) = rest ->
                 InvA (with_handlers s (set_h h (mkH rem' k c) (d_handlers s))) G').
    { intros k rem' G' E T h'. rewrite E, g_find_set. cbn [with_handlers d_handlers]. rewrite find_h_set, F.
      destruct (h =? h'); [symmetry; exact T|apply I]. }
    destruct (is_connected _ _); injection D as <- <-.
    + cbn [app filter seen]. change (XCheck h true :: filter seen (ret0 h rest)) with ([XCheck h true] ++ filter seen (ret0 h rest)).
      rewrite g_effects_app. cbn [g_effects g_effect fst snd]. rewrite Ih. cbn [fst snd].
      split; [|split; [|split]].
      * destruct rest; cbn [ret0 filter seen g_effects g_effect fst snd N.eqb].
        -- cbn. intros h'. cbn. rewrite g_find_set, find_h_set, F. destruct (h =? h'); [reflexivity|apply I].
        -- intros h'. cbn. rewrite g_find_set, find_h_set, F. destruct (h =? h'); [reflexivity|apply I].
      * destruct rest; cbn [ret0 filter seen g_effects g_effect fst snd].
        -- cbn [g_rem]. rewrite g_find_set. rewrite !N.eqb_refl. cbn.
           destruct (abs_connected _ _); nohang.
        -- destruct (abs_connected _ _); nohang.
      * right. exists h, true, (filter seen (ret0 h rest)). split; [reflexivity|]. destruct rest; reflexivity.
      * intros Hn. exfalso. apply (Hn h). reflexivity.
    + cbn [filter seen g_effects g_effect fst snd]. rewrite Ih. cbn [fst snd].
      split; [|split; [|split]].
      * apply (P true (x :: rest)); reflexivity.
      * destruct (abs_connected _ _); nohang.
      * right. exists h, false, []. split; reflexivity.
      * intros Hn. exfalso. apply (Hn h). reflexivity.
  - pose proof (I h) as Ih.
    destruct (find_h h (d_handlers s)) as [[[|x rest] [|] c]|] eqn:F;
      try (injection D as <- <-; solve [triv]).
    destruct (d_pending s); injection D as <- <-; try (solve [triv]).
    unfold tracked in Ih; cbn in Ih.
    assert (J : InvA (mkD (d_topo s) (set_h h (mkH rest false c) (d_handlers s)) (Some x) (d_flying s) (d_held s)
                  (d_received s) (d_skipped s) (d_dialled s) (d_finished s)) G).
    { intros h'. cbn [d_handlers]. rewrite find_h_set, F. destruct (N.eqb_spec h h') as [<-|]; [exact Ih|apply I]. }
    destruct rest; cbn [ret0 filter seen g_effects g_effect fst snd N.eqb].
    + rewrite Ih. solve [triv].
    + solve [triv].
  - destruct (find_h h (d_handlers s)) as [[rem o c]|] eqn:F; injection D as <- <-; cbn [filter g_effects fst snd].
    + repeat split; auto; [|left; reflexivity].
      intros h'. cbn [with_handlers d_handlers]. rewrite find_h_set, F. specialize (I h'). 
      destruct (N.eqb_spec h h') as [<-|]; [rewrite F in I; exact I|exact I].
    + solve [triv].
  - destruct (find_h h (d_handlers s)) as [[[|x rest] [|] [|]]|] eqn:F;
      try (injection D as <- <-; solve [triv]).
    injection D as <- <-. cbn [filter seen]. rewrite filter_app, seen_skips. cbn [app filter seen g_effects g_effect fst snd N.eqb].
    cbn. repeat split; auto; try (left; reflexivity); try (intros; reflexivity).
    intros h'. cbn. rewrite g_find_set, find_h_set, F. destruct (h =? h'); [reflexivity|apply I].
  - destruct (d_pending s) as [x|]; [|injection D as <- <-; solve [triv]].
    destruct (d_held s <? cap); injection D as <- <-; [|solve [triv]].
    cbn [filter seen g_effects g_effect]. destruct (rm_due (snd x) (g_due G)); cbn [fst snd app].
    + solve [triv].
    + repeat split; auto; [|left; reflexivity]. destruct (existsb _ _); nohang.
  - destruct (flying u s); [|injection D as <- <-; solve [triv]].
    destruct (d_held s =? 0); [discriminate|]. injection D as <- <-.
    destruct r as [p|rf]; cbn [filter seen g_effects g_effect fst snd app].
    + repeat split; auto; [|left; reflexivity].
      destruct a as [? ? ?|?|?|? [q|?]|?]; try nohang.
      destruct (negb _); nohang.
    + solve [triv].
  - destruct (topo_event ev); injection D as <- <-; solve [triv].
Qed.

Lemma eager_kind cap s e : eager_event cap s = Some e ->
  e = DAcquire \/ (exists h, e = DHandoff h) \/ (exists h, e = DGiveUp h).
Proof.
  unfold eager_event. intros E. destruct (d_pending s).
  - destruct (d_held s <? cap); [injection E as <-; auto|].
    destruct (offering (d_handlers s)) as [[h [|]]|]; try discriminate. injection E as <-. eauto.
  - destruct (offering (d_handlers s)) as [[h b]|]; try discriminate. injection E as <-. eauto.
Qed.

Lemma eager_hang cap a : forall fuel s s1 effs G,
  InvA s G -> drun_from cap s (eager fuel cap s) = Ok (s1, effs) ->
  InvA s1 (fst (g_effects a G (filter seen (concat effs))))
  /\ ~ In hang (snd (g_effects a G (filter seen (concat effs))))
  /\ nochk (filter seen (concat effs))
  /\ map fst (d_handlers s1) = map fst (d_handlers s).
Proof.
  induction fuel as [|n IH]; intros s s1 effs G I; cbn [eager drun_from].
  - intros [= <- <-]. cbn. repeat split; auto.
  - destruct (eager_event cap s) as [e|] eqn:E; [|cbn [drun_from]; intros [= <- <-]; cbn; repeat split; auto].
    pose proof (eager_kind cap s e E) as K.
    destruct (dstep cap s e) as [[s' eff]| |] eqn:D; cbn [drun_from]; rewrite D; try discriminate.
    destruct (drun_from cap s' (eager n cap s')) as [[s2 effs2]| |] eqn:R2; try discriminate.
    intros [= <- <-].
    assert (KS : map fst (d_handlers s') = map fst (d_handlers s)).
    { destruct K as [->|[[h ->]|[h ->]]]; cbn [dstep] in D;
        repeat match type of D with context [match ?x with _ => _ end] => destruct x end;
        try discriminate; injection D as <- <-; cbn [d_handlers with_handlers]; rewrite ?set_h_ids; reflexivity. }
    destruct (step_hang cap a s e s' eff G I D) as (I1 & H1 & _ & N1).
    { intros h l ->. destruct K as [K|[[? K]|[? K]]]; discriminate K. }
    { intros h l ->. destruct K as [K|[[? K]|[? K]]]; discriminate K. }
    destruct (IH s' s2 effs2 _ I1 R2) as (I2 & H2 & N2 & K2).
    cbn [concat]. rewrite filter_app, g_effects_app. cbn [fst snd].
    split; [exact I2|]. split; [intros HH; apply in_app_or in HH as [HH|HH]; auto|].
    split; [|congruence]. apply nochk_app; [|exact N2]. apply N1.
    intros h ->. destruct K as [K|[[? K]|[? K]]]; discriminate K.
Qed.

Lemma notin_find_none h hs : ~ In h (map fst hs) -> find_h h hs = None.
Proof.
  induction hs as [|[d k] t IH]; [reflexivity|]. cbn. intros Hn.
  destruct (N.eqb_spec d h); [exfalso; auto|auto].
Qed.

(* the action's own event, after the checker's bookkeeping for the action has begun *)
Lemma first_hang cap s a s' eff G :
  InvA s G -> (forall h l, a = GList h true l -> ~ In h (map fst (d_handlers s))) ->
  dstep cap s (action_event a) = Ok (s', eff) ->
  InvA s' (fst (g_effects a (g_begin a G) (filter seen eff)))
  /\ ~ In hang (snd (g_effects a (g_begin a G) (filter seen eff)))
  /\ front (filter seen eff)
  /\ (map fst (d_handlers s') = map fst (d_handlers s)
      \/ exists h l, a = GList h true l /\ map fst (d_handlers s') = h :: map fst (d_handlers s)).
Proof.
  intros I Fr D.
  assert (KS : map fst (d_handlers s') = map fst (d_handlers s)
      \/ exists h l, a = GList h true l /\ map fst (d_handlers s') = h :: map fst (d_handlers s)).
  { destruct a as [h [|] l|h|h|u r|ev]; cbn [action_event dstep negb] in D;
      repeat match type of D with context [match ?x with _ => _ end] => destruct x end;
      try discriminate; injection D as <- <-; cbn [d_handlers with_handlers]; rewrite ?set_h_ids;
      first [left; reflexivity | right; eexists; eexists; split; reflexivity]. }
  destruct a as [h [|] l|h|h|u r|ev].
  - pose proof (notin_find_none h _ (Fr h l eq_refl)) as F. cbn [action_event dstep] in D. rewrite F in D.
    cbn [negb] in D. injection D as <- <-. cbn [g_begin].
    assert (J : InvA (mkD (d_topo s) ((h, mkH l false false) :: d_handlers s) (d_pending s) (d_flying s) (d_held s)
                  (d_received s ++ l) (d_skipped s) (d_dialled s) (d_finished s))
                 (mkG (g_set h l (g_rem G)) (g_due G) (g_known G) (g_fly G) (g_abs G))).
    { intros h'. cbn [g_rem d_handlers find_h]. rewrite g_find_set. destruct (h =? h'); [reflexivity|apply I]. }
    destruct l; cbn [ret0 filter seen g_effects g_effect fst snd N.eqb].
    + cbn [g_rem]. rewrite g_find_set, N.eqb_refl. cbn. repeat split; auto. left; reflexivity.
    + cbn. repeat split; auto. left; reflexivity.
  - destruct (step_hang cap (GList h false l) s _ s' eff G I D) as (I1 & H1 & F1 & _); cbn [g_begin]; auto.
    + intros h0 l0 [= -> ->]. reflexivity.
    + intros h0 l0; discriminate.
  - destruct (step_hang cap (GCheck h) s _ s' eff G I D) as (I1 & H1 & F1 & _); cbn [g_begin]; auto;
      intros; discriminate.
  - destruct (step_hang cap (GCancel h) s _ s' eff G I D) as (I1 & H1 & F1 & _); cbn [g_begin]; auto;
      intros; discriminate.
  - destruct (step_hang cap (GDone u r) s _ s' eff G I D) as (I1 & H1 & F1 & _); cbn [g_begin]; auto;
      intros; discriminate.
  - assert (I0 : InvA s (g_begin (GTopo ev) G)).
    { intros h'. cbn [g_begin]. destruct (topo_event ev); apply I. }
    destruct (step_hang cap (GTopo ev) s _ s' eff _ I0 D) as (I1 & H1 & F1 & _); auto; intros; discriminate.
Qed.

Lemma InvA_g_end s a G : InvA s G -> InvA s (g_end a G).
Proof. intros I h. destruct a; apply I. Qed.

(* one whole action of the driver *)
Lemma action_hang cap s a s1 effs G :
  InvA s G -> (forall h l, a = GList h true l -> ~ In h (map fst (d_handlers s))) ->
  drun_from cap s (action_events cap s a) = Ok (s1, effs) ->
  InvA s1 (g_end a (fst (g_effects a (g_begin a G) (check_first (filter seen (concat effs))))))
  /\ ~ In hang (snd (g_effects a (g_begin a G) (check_first (filter seen (concat effs)))))
  /\ (map fst (d_handlers s1) = map fst (d_handlers s)
      \/ exists h l, a = GList h true l /\ map fst (d_handlers s1) = h :: map fst (d_handlers s)).
Proof.
  intros I Fr. unfold action_events.
  destruct (dstep cap s (action_event a)) as [[s' eff]| |] eqn:D; cbn [drun_from]; rewrite D; try discriminate.
  destruct (drun_from cap s' (eager 6 cap s')) as [[s2 effs2]| |] eqn:R2; try discriminate.
  intros [= <- <-].
  destruct (first_hang cap s a s' eff G I Fr D) as (I1 & H1 & F1 & K1).
  destruct (eager_hang cap a 6 s' s2 effs2 _ I1 R2) as (I2 & H2 & N2 & K2).
  cbn [concat]. rewrite filter_app.
  assert (C : check_first (filter seen eff ++ filter seen (concat effs2)) = filter seen eff ++ filter seen (concat effs2)).
  { destruct F1 as [N|(h & k & r & -> & N)].
    - apply check_first_nochk, nochk_app; assumption.
    - cbn [app]. apply check_first_cons, nochk_app; assumption. }
  rewrite C, g_effects_app. cbn [fst snd].
  split; [apply InvA_g_end, I2|]. split; [intros HH; apply in_app_or in HH as [HH|HH]; auto|].
  rewrite K2. exact K1.
Qed.

(* ids of the lists that were read *)
Definition list_ids (acts : list gaction) : list N :=
  flat_map (fun a => match a with GList h true _ => [h] | _ => [] end) acts.

Lemma grun_hang cap : forall acts s G,
  InvA s G -> NoDup (list_ids acts) ->
  (forall h, In h (list_ids acts) -> ~ In h (map fst (d_handlers s))) ->
  ~ In hang (snd (g_run G acts (fst (fst (grun cap s acts))))).
Proof.
  induction acts as [|a r IH]; intros s G I ND Fr; [cbn; auto|].
  cbn [grun].
  destruct (drun_from cap s (action_events cap s a)) as [[s1 effs]| |] eqn:E; try (cbn; auto; fail).
  destruct (action_hang cap s a s1 effs G I) as (I1 & H1 & K1); [|exact E|].
  { intros h l ->. apply Fr. cbn. auto. }
  change (list_ids (a :: r)) with ((match a with GList h true _ => [h] | _ => [] end) ++ list_ids r) in *.
  assert (ND2 : NoDup (list_ids r)).
  { clear -ND. induction (match a with GList h true _ => [h] | _ => [] end) as [|x t IHt]; [exact ND|].
    cbn in ND. inversion ND. auto. }
  assert (Fr2 : forall h, In h (list_ids r) -> ~ In h (map fst (d_handlers s1))).
  { intros h Hin. destruct K1 as [->|(h0 & l0 & -> & ->)].
    - apply Fr. apply in_or_app. auto.
    - cbn. intros [<-|Hc].
      + cbn in ND. inversion ND. auto.
      + revert Hc. apply Fr. apply in_or_app. auto. }
  specialize (IH s1 _ I1 ND2 Fr2).
  destruct (grun cap s1 r) as [[rest s2] pk]. cbn [fst snd g_run] in *.
  destruct (g_effects a (g_begin a G) (check_first (filter seen (concat effs)))) as [G1 k1]. cbn [fst snd] in *.
  destruct (g_run (g_end a G1) r rest) as [G2 k2]. cbn [fst snd] in *.
  intros HH; apply in_app_or in HH as [HH|HH]; auto.
Qed.

(* For EVERY driver schedule in which no list id is read twice: the mode-3 checker never reports
   view:hang from its per-effect bookkeeping on the machine's own run (no IsConnected answer for a
   handler with nothing left, every return code the expected one). *)
Theorem disc_checker_hang_accept_model acts :
  NoDup (list_ids acts) ->
  match grun pool_width dinit acts with
  | (effs, _, _) => ~ In "view:hang"%string (snd (g_run (mkG [] [] [] [] abs_init) acts effs))
  end.
Proof.
  intros ND.
  pose proof (grun_hang pool_width acts dinit (mkG [] [] [] [] abs_init)) as H.
  destruct (grun pool_width dinit acts) as [[effs s] pk]. cbn [fst] in H. apply H; auto.
  intros h. reflexivity.
Qed.

(* not vacuous: a schedule with distinct ids whose run has answers and returns of all three codes; and
   the premise is needed: when id 1 is read twice the machine ignores the second list, the checker's
   bookkeeping does not, and the clause fires on the machine's own run *)
Example disc_checker_hang_run :
  let acts := [GList 1 true [([5], [170]); ([6], [171])]; GCheck 1; GList 2 false []; GList 3 true [];
               GDone [170] (DialErr RUnreachable); GCheck 1; GDone [171] (DialOk (mkPeer 6 ROLE_PROVIDER))] in
  NoDup (list_ids acts)
  /\ In (XReturn 1 0) (concat (fst (fst (grun pool_width dinit acts))))
  /\ In (XReturn 2 1) (concat (fst (fst (grun pool_width dinit acts))))
  /\ snd (g_run (mkG [] [] [] [] abs_init) acts (fst (fst (grun pool_width dinit acts)))) = [].
Proof. cbn zeta. split; [repeat constructor; cbn; intuition discriminate|]. vm_compute. auto 10. Qed.
Example disc_checker_hang_premise_needed :
  let acts := [GList 1 true [([5], [170])]; GList 1 true []; GCheck 1] in
  ~ NoDup (list_ids acts)
  /\ In "view:hang"%string (snd (g_run (mkG [] [] [] [] abs_init) acts (fst (fst (grun pool_width dinit acts))))).
Proof. cbn zeta. split; [intros H; inversion H as [|? ? Hn ?]; apply Hn; cbn; auto|]. vm_compute. auto. Qed.

(* --- the answer part: the per-effect bookkeeping never reports "view" ---------------------------------- *)
Definition vw := "view"%string.
Ltac novw := cbn; unfold vw; let HH := fresh in intros HH; repeat (destruct HH as [HH|HH]; [discriminate HH|]); exact HH.
Lemma g_effect_view a G e : (forall h k, e <> XCheck h k) -> ~ In vw (snd (g_effect a G e)).
Proof.
  intros Hn. destruct e as [h k|h x r|u|p|h code]; cbn [g_effect].
  - exfalso. eapply Hn. reflexivity.
  - novw.
  - destruct (rm_due u (g_due G)); [novw|]. destruct (existsb _ _); novw.
  - destruct a as [? ? ?|?|?|? [q|?]|?]; try novw. destruct (negb _); novw.
  - cbn [snd]. destruct (negb _); novw.
Qed.
Lemma g_effects_view a l : nochk l -> forall G, ~ In vw (snd (g_effects a G l)).
Proof.
  unfold nochk. induction l as [|e r IH]; intros N G; [cbn; auto|]. cbn [forallb] in N. apply andb_prop in N as [N1 N2].
  cbn [g_effects]. pose proof (g_effect_view a G e) as V. destruct (g_effect a G e) as [G1 k1].
  specialize (IH N2 G1). destruct (g_effects a G1 r) as [G2 k2]. cbn [snd] in *.
  intros HH; apply in_app_or in HH as [HH|HH]; auto. revert HH. apply V. intros h k ->. discriminate.
Qed.

(* an IsConnected answer seen during an action is the machine's answer for the head of that handler,
   which the checker recomputes from its own sets *)
Lemma first_view cap s a s' eff G h k r :
  InvA s G -> R (d_topo s) (g_abs G) ->
  dstep cap s (action_event a) = Ok (s', eff) -> filter seen eff = XCheck h k :: r ->
  snd (g_effect a (g_begin a G) (XCheck h k)) = [].
Proof.
  intros I Rr D E.
  destruct a as [h0 ok l|h0|h0|u rr|ev]; cbn [action_event dstep] in D.
  - exfalso. destruct (find_h h0 (d_handlers s)); [injection D as <- <-; discriminate|].
    destruct (negb ok); injection D as <- <-; [discriminate|]. destruct l; discriminate.
  - pose proof (I h0) as Ih. cbn [g_begin].
    destruct (find_h h0 (d_handlers s)) as [[[|x rest] [|] c]|] eqn:F; try (injection D as <- <-; discriminate).
    unfold tracked in Ih; cbn in Ih.
    pose proof (connected_agrees (d_topo s) (g_abs G) (addr_of_bytes (fst x)) Rr) as CA.
    destruct (is_connected (addr_of_bytes (fst x)) (d_topo s)) eqn:K; injection D as <- <-;
      cbn [app filter seen] in E; injection E as <- <- _; cbn [g_effect]; rewrite Ih; cbn [snd]; rewrite <- CA; reflexivity.
  - exfalso. destruct (find_h h0 (d_handlers s)) as [[rem o c]|]; injection D as <- <-; discriminate.
  - exfalso. destruct (flying u s); [|injection D as <- <-; discriminate].
    destruct (d_held s =? 0); [discriminate|]. injection D as <- <-. destruct rr; discriminate.
  - exfalso. destruct (topo_event ev); injection D as <- <-; discriminate.
Qed.

Lemma action_view cap s a s1 effs G :
  InvA s G -> R (d_topo s) (g_abs G) -> (forall h l, a = GList h true l -> ~ In h (map fst (d_handlers s))) ->
  drun_from cap s (action_events cap s a) = Ok (s1, effs) ->
  ~ In vw (snd (g_effects a (g_begin a G) (check_first (filter seen (concat effs))))).
Proof.
  intros I Rr Fr. unfold action_events.
  destruct (dstep cap s (action_event a)) as [[s' eff]| |] eqn:D; cbn [drun_from]; rewrite D; try discriminate.
  destruct (drun_from cap s' (eager 6 cap s')) as [[s2 effs2]| |] eqn:R2; try discriminate.
  intros [= <- <-].
  destruct (first_hang cap s a s' eff G I Fr D) as (I1 & H1 & F1 & K1).
  destruct (eager_hang cap a 6 s' s2 effs2 _ I1 R2) as (I2 & H2 & N2 & K2).
  cbn [concat]. rewrite filter_app.
  destruct F1 as [N|(h & k & r & E & N)].
  - rewrite check_first_nochk by (apply nochk_app; assumption). apply g_effects_view, nochk_app; assumption.
  - rewrite E. cbn [app]. rewrite check_first_cons by (apply nochk_app; assumption).
    cbn [g_effects]. pose proof (first_view cap s a s' eff G h k r I Rr D E) as V.
    destruct (g_effect a (g_begin a G) (XCheck h k)) as [G1 k1]. cbn [snd] in V. subst k1.
    pose proof (g_effects_view a (r ++ filter seen (concat effs2)) (nochk_app _ _ N N2) G1) as V2.
    destruct (g_effects a G1 (r ++ filter seen (concat effs2))) as [G2 k2]. exact V2.
Qed.

Lemma grun_view cap : forall acts s G,
  InvA s G -> wf (d_topo s) -> R (d_topo s) (g_abs G) -> NoDup (list_ids acts) ->
  (forall h, In h (list_ids acts) -> ~ In h (map fst (d_handlers s))) ->
  ~ In vw (snd (g_run G acts (fst (fst (grun cap s acts))))).
Proof.
  induction acts as [|a r IH]; intros s G I W Rr ND Fr; [cbn; auto|].
  cbn [grun].
  destruct (drun_from cap s (action_events cap s a)) as [[s1 effs]| |] eqn:E; try (cbn; auto; fail).
  assert (Fa : forall h l, a = GList h true l -> ~ In h (map fst (d_handlers s))).
  { intros h l ->. apply Fr. cbn. auto. }
  destruct (action_hang cap s a s1 effs G I Fa E) as (I1 & H1 & K1).
  pose proof (action_view cap s a s1 effs G I Rr Fa E) as V1.
  destruct (action_R cap s a s1 effs G W Rr E) as [W1 R1].
  change (list_ids (a :: r)) with ((match a with GList h true _ => [h] | _ => [] end) ++ list_ids r) in *.
  assert (ND2 : NoDup (list_ids r)).
  { clear -ND. induction (match a with GList h true _ => [h] | _ => [] end) as [|x t IHt]; [exact ND|].
    cbn in ND. inversion ND. auto. }
  assert (Fr2 : forall h, In h (list_ids r) -> ~ In h (map fst (d_handlers s1))).
  { intros h Hin. destruct K1 as [->|(h0 & l0 & -> & ->)].
    - apply Fr. apply in_or_app. auto.
    - cbn. intros [<-|Hc].
      + cbn in ND. inversion ND. auto.
      + revert Hc. apply Fr. apply in_or_app. auto. }
  set (l := filter seen (concat effs)) in *.
  pose proof (g_effects_abs a (check_first l) (g_begin a G)) as GA.
  destruct (g_effects a (g_begin a G) (check_first l)) as [G1 k1] eqn:GE. cbn [fst snd] in *.
  assert (R1' : R (d_topo s1) (g_abs (g_end a G1))).
  { assert (g_abs (g_end a G1) = g_abs G1) as -> by (destruct a; reflexivity).
    rewrite GA, xadds_check_first. unfold l. rewrite xadds_seen. exact R1. }
  specialize (IH s1 _ I1 W1 R1' ND2 Fr2).
  destruct (grun cap s1 r) as [[rest s2] pk]. cbn [fst snd g_run] in *. fold l. rewrite GE.
  destruct (g_run (g_end a G1) r rest) as [G2 k2]. cbn [fst snd] in *.
  intros HH; apply in_app_or in HH as [HH|HH]; auto.
Qed.

(* For EVERY driver schedule in which no list id is read twice: every IsConnected answer of the machine
   is the answer the checker computes from the schedule's topology events and the AddPeers calls seen
   -- the per-effect bookkeeping never reports "view" on the machine's own run. *)
Theorem disc_checker_answers_accept_model acts :
  NoDup (list_ids acts) ->
  match grun pool_width dinit acts with
  | (effs, _, _) => ~ In "view"%string (snd (g_run (mkG [] [] [] [] abs_init) acts effs))
  end.
Proof.
  intros ND.
  pose proof (grun_view pool_width acts dinit (mkG [] [] [] [] abs_init)) as H.
  destruct (grun pool_width dinit acts) as [[effs s] pk]. cbn [fst] in H. apply H; auto.
  - intros h. reflexivity.
  - apply wf_init.
  - repeat split.
Qed.

(* not vacuous: a run with a "known" and an "unknown" answer; a tampered answer is reported *)
Example disc_checker_answers_run :
  let acts := [GTopo (AddPeers [mkPeer 5 ROLE_PROVIDER]); GList 1 true [([5], [170]); ([6], [171])]; GCheck 1; GCheck 1] in
  In (XCheck 1 true) (concat (fst (fst (grun pool_width dinit acts))))
  /\ In (XCheck 1 false) (concat (fst (fst (grun pool_width dinit acts))))
  /\ snd (g_run (mkG [] [] [] [] abs_init) acts (fst (fst (grun pool_width dinit acts)))) = []
  /\ In "view"%string (snd (g_run (mkG [] [] [] [] abs_init) acts [[]; []; [XCheck 1 false]; [XCheck 1 true]])).
Proof. vm_compute. auto 10. Qed.

(* --- gossip:dialled-known: a Connect call always finds its entry in the checker's due list ------------- *)
Definition ind (u v : bytes) : nat := if bytes_eqb v u then 1%nat else 0%nat.
Definition need_h (u : bytes) (k : handler) : nat :=
  if h_offer k then match h_rem k with x :: _ => ind u (snd x) | [] => 0%nat end else 0%nat.
Definition need (u : bytes) (s : dstate) : nat :=
  (wsum (fun x => need_h u (snd x)) (d_handlers s) + match d_pending s with Some x => ind u (snd x) | None => 0 end)%nat.
Definition have (u : bytes) (due : list wire_record) : nat := wsum (fun x => ind u (snd x)) due.
Definition InvD (s : dstate) (G : gst) : Prop := forall u, (need u s <= have u (g_due G))%nat.
Definition dk := "gossip:dialled-known"%string.
Ltac nodk := cbn; unfold dk; let HH := fresh in intros HH; repeat (destruct HH as [HH|HH]; [discriminate HH|]); exact HH.

Lemma wsum_set (g : handler -> nat) h k k' hs :
  find_h h hs = Some k ->
  (wsum (fun x => g (snd x)) (set_h h k' hs) + g k = wsum (fun x => g (snd x)) hs + g k')%nat.
Proof.
  induction hs as [|[d k0] r IH]; simpl; [discriminate|].
  destruct (d =? h) eqn:E; simpl.
  - intros [= ->]. lia.
  - intros H. specialize (IH H). lia.
Qed.
Lemma rm_due_some u : forall due due', rm_due u due = Some due' -> forall v, have v due = (have v due' + ind v u)%nat.
Proof.
  induction due as [|x r IH]; intros due'; cbn [rm_due]; [discriminate|].
  destruct (bytes_eqb (snd x) u) eqn:E.
  - intros [= <-] v. apply bytes_eqb_eq in E. subst u. unfold have. cbn [wsum]. lia.
  - destruct (rm_due u r) as [r'|]; [|discriminate]. intros [= <-] v. specialize (IH _ eq_refl v).
    unfold have in *. cbn [wsum]. lia.
Qed.
Lemma rm_due_none u : forall due, rm_due u due = None -> have u due = 0%nat.
Proof.
  induction due as [|x r IH]; cbn [rm_due]; [reflexivity|].
  destruct (bytes_eqb (snd x) u) eqn:E; [discriminate|]. destruct (rm_due u r); [discriminate|]. intros _.
  unfold have in *. cbn [wsum]. unfold ind at 1. rewrite E, IH; reflexivity.
Qed.
Lemma ind_refl u : ind u u = 1%nat.
Proof. unfold ind. rewrite bytes_eqb_refl. reflexivity. Qed.
Lemma have_app u a b : have u (a ++ b) = (have u a + have u b)%nat.
Proof. apply wsum_app. Qed.

Ltac wsfix WS := match type of WS with (_ + ?a = _ + ?b)%nat =>
  let a' := eval cbn in a in let b' := eval cbn in b in change a with a' in WS; change b with b' in WS end.
Lemma step_due cap a s e s' eff G :
  InvD s G -> (forall h, e = DCheck h -> InvA s G) -> dstep cap s e = Ok (s', eff) ->
  InvD s' (fst (g_effects a G (filter seen eff)))
  /\ ((forall h k, e = DCheck h -> In (XCheck h k) eff -> snd (g_effect a G (XCheck h k)) = []) ->
      ~ In dk (snd (g_effects a G (filter seen eff)))).
Proof.
  intros I IA D.
  destruct e as [h ok l|h|h|h|h| |u r|ev]; cbn [dstep] in D.
  - destruct (find_h h (d_handlers s)) eqn:F; [injection D as <- <-; cbn; split; [exact I|auto]|].
    destruct ok; cbn [negb] in D; injection D as <- <-.
    + assert (E : fst (g_effects a G (filter seen (ret0 h l))) = G /\ ~ In dk (snd (g_effects a G (filter seen (ret0 h l))))).
      { destruct l; cbn; [|auto]. split; [reflexivity|]. destruct (negb _); nodk. }
      destruct E as [-> E2]. split; [|auto]. intros u. specialize (I u). unfold need in *. cbn [d_handlers d_pending wsum snd need_h h_offer]. exact I.
    + cbn [filter seen g_effects g_effect N.eqb fst snd]. split; [exact I|]. intros _. cbn. destruct (negb _); nodk.
  - pose proof (IA h eq_refl h) as Ih.
    destruct (find_h h (d_handlers s)) as [[[|x rest] [|] c]|] eqn:F;
      try (injection D as <- <-; cbn; split; [exact I|auto]).
    unfold tracked in Ih; cbn in Ih.
    destruct (is_connected _ _); injection D as <- <-.
    + cbn [app filter seen]. change (XCheck h true :: filter seen (ret0 h rest)) with ([XCheck h true] ++ filter seen (ret0 h rest)).
      rewrite g_effects_app. cbn [g_effects g_effect fst snd]. rewrite Ih. cbn [fst snd].
      split.
      * assert (E : g_due (fst (g_effects a (mkG (g_set h rest (g_rem G)) (g_due G) (x :: g_known G) (g_fly G) (g_abs G))
                     (filter seen (ret0 h rest)))) = g_due G).
        { destruct rest; cbn; reflexivity. }
        intros u. rewrite E. specialize (I u). unfold need in *. cbn [d_handlers d_pending].
        pose proof (wsum_set (need_h u) h _ (mkH rest false c) _ F) as WS; wsfix WS. lia.
      * intros V. specialize (V h true eq_refl (or_introl eq_refl)). cbn [g_effect] in V. rewrite Ih in V. cbn [snd] in V.
        rewrite V. cbn [app]. destruct rest; cbn [ret0 filter seen g_effects g_effect fst snd]; [|cbn; auto].
        destruct (is_nil _); nodk.
    + cbn [filter seen g_effects g_effect fst snd]. rewrite Ih. cbn [fst snd g_due].
      split.
      * intros u. specialize (I u). unfold need in *. cbn [with_handlers d_handlers d_pending g_due]. rewrite have_app.
        pose proof (wsum_set (need_h u) h _ (mkH (x :: rest) true c) _ F) as WS; wsfix WS.
        unfold have at 2. cbn [wsum]. lia.
      * intros V. specialize (V h false eq_refl (or_introl eq_refl)). cbn [g_effect] in V. rewrite Ih in V. cbn [snd] in V.
        rewrite V. cbn; auto.
  - destruct (find_h h (d_handlers s)) as [[[|x rest] [|] c]|] eqn:F;
      try (injection D as <- <-; cbn; split; [exact I|auto]).
    destruct (d_pending s) eqn:P; injection D as <- <-; try (cbn; split; [exact I|auto]).
    assert (E : fst (g_effects a G (filter seen (ret0 h rest))) = G /\ ~ In dk (snd (g_effects a G (filter seen (ret0 h rest))))).
    { destruct rest; cbn; [|auto]. split; [reflexivity|]. destruct (negb _); nodk. }
    destruct E as [-> E2]. split; [|auto]. intros u. specialize (I u). unfold need in *. rewrite P in I. cbn [d_handlers d_pending].
    pose proof (wsum_set (need_h u) h _ (mkH rest false c) _ F) as WS; wsfix WS. lia.
  - destruct (find_h h (d_handlers s)) as [[rem o c]|] eqn:F; injection D as <- <-; cbn [filter g_effects fst snd];
      (split; [|auto]); [|exact I].
    intros u. specialize (I u). unfold need in *. cbn [with_handlers d_handlers d_pending].
    pose proof (wsum_set (need_h u) h _ (mkH rem o true) _ F) as WS.
    assert (need_h u (mkH rem o c) = need_h u (mkH rem o true)) by reflexivity. lia.
  - destruct (find_h h (d_handlers s)) as [[[|x rest] [|] [|]]|] eqn:F;
      try (injection D as <- <-; cbn; split; [exact I|auto]).
    injection D as <- <-. cbn [filter seen]. rewrite filter_app, seen_skips.
    cbn [app filter seen g_effects g_effect fst snd N.eqb]. split; [|intros _; nodk].
    intros u. specialize (I u). unfold need in *. cbn [d_handlers d_pending g_due].
    pose proof (wsum_set (need_h u) h _ (mkH [] false true) _ F) as WS; wsfix WS. cbn [Pos.eqb g_due]. lia.
  - destruct (d_pending s) as [x|] eqn:P; [|injection D as <- <-; cbn; split; [exact I|auto]].
    destruct (d_held s <? cap); injection D as <- <-; [|cbn; split; [exact I|auto]].
    cbn [filter seen g_effects g_effect].
    destruct (rm_due (snd x) (g_due G)) as [due'|] eqn:RD; cbn [fst snd app].
    + split; [|auto]. intros u. specialize (I u). unfold need in *. rewrite P in I. cbn [d_handlers d_pending g_due].
      rewrite (rm_due_some _ _ _ RD u) in I. lia.
    + exfalso. specialize (I (snd x)). unfold need in I. rewrite P, ind_refl, (rm_due_none _ _ RD) in I. lia.
  - destruct (flying u s); [|injection D as <- <-; cbn; split; [exact I|auto]].
    destruct (d_held s =? 0); [discriminate|]. injection D as <- <-.
    destruct r as [p|rf]; cbn [filter seen g_effects g_effect fst snd app]; (split; [exact I|intros _]); [|cbn; auto].
    destruct a as [? ? ?|?|?|? [q|?]|?]; try nodk. destruct (negb _); nodk.
  - destruct (topo_event ev); injection D as <- <-; cbn; split; auto; exact I.
Qed.

Lemma eager_due cap a : forall fuel s s1 effs G,
  InvD s G -> drun_from cap s (eager fuel cap s) = Ok (s1, effs) ->
  InvD s1 (fst (g_effects a G (filter seen (concat effs))))
  /\ ~ In dk (snd (g_effects a G (filter seen (concat effs)))).
Proof.
  induction fuel as [|n IH]; intros s s1 effs G I; cbn [eager drun_from].
  - intros [= <- <-]. cbn. split; auto.
  - destruct (eager_event cap s) as [e|] eqn:E; [|cbn [drun_from]; intros [= <- <-]; cbn; split; auto].
    pose proof (eager_kind cap s e E) as K.
    destruct (dstep cap s e) as [[s' eff]| |] eqn:D; cbn [drun_from]; rewrite D; try discriminate.
    destruct (drun_from cap s' (eager n cap s')) as [[s2 effs2]| |] eqn:R2; try discriminate.
    intros [= <- <-].
    destruct (step_due cap a s e s' eff G I) as (I1 & H1); [|exact D|].
    { intros h ->. destruct K as [K|[[? K]|[? K]]]; discriminate K. }
    destruct (IH s' s2 effs2 _ I1 R2) as (I2 & H2).
    cbn [concat]. rewrite filter_app, g_effects_app. cbn [fst snd]. split; [exact I2|].
    intros HH; apply in_app_or in HH as [HH|HH]; auto. revert HH. apply H1.
    intros h k ->. destruct K as [K|[[? K]|[? K]]]; discriminate K.
Qed.
Lemma InvD_begin s a G : InvD s G -> InvD s (g_begin a G).
Proof. intros I u. destruct a as [? [|] ?|?|?|? ?|ev]; cbn [g_begin]; try apply I. destruct (topo_event ev); apply I. Qed.
Lemma InvD_end s a G : InvD s G -> InvD s (g_end a G).
Proof. intros I u. destruct a; apply I. Qed.
Lemma nochk_notin l h k : nochk l -> ~ In (XCheck h k) l.
Proof. unfold nochk. intros N Hin. rewrite forallb_forall in N. specialize (N _ Hin). discriminate. Qed.

Lemma action_due cap s a s1 effs G :
  InvA s G -> InvD s G -> R (d_topo s) (g_abs G) ->
  (forall h l, a = GList h true l -> ~ In h (map fst (d_handlers s))) ->
  drun_from cap s (action_events cap s a) = Ok (s1, effs) ->
  InvD s1 (g_end a (fst (g_effects a (g_begin a G) (check_first (filter seen (concat effs))))))
  /\ ~ In dk (snd (g_effects a (g_begin a G) (check_first (filter seen (concat effs))))).
Proof.
  intros I ID Rr Fr. unfold action_events.
  destruct (dstep cap s (action_event a)) as [[s' eff]| |] eqn:D; cbn [drun_from]; rewrite D; try discriminate.
  destruct (drun_from cap s' (eager 6 cap s')) as [[s2 effs2]| |] eqn:R2; try discriminate.
  intros [= <- <-].
  destruct (first_hang cap s a s' eff G I Fr D) as (I1 & H1 & F1 & K1).
  destruct (eager_hang cap a 6 s' s2 effs2 _ I1 R2) as (I2 & H2 & N2 & K2).
  destruct (step_due cap a s (action_event a) s' eff (g_begin a G) (InvD_begin _ _ _ ID)) as (D1 & V1); [|exact D|].
  { intros h E. destruct a; try discriminate E. cbn [g_begin]. exact I. }
  destruct (eager_due cap a 6 s' s2 effs2 _ D1 R2) as (D2 & V2).
  cbn [concat]. rewrite filter_app.
  assert (C : check_first (filter seen eff ++ filter seen (concat effs2)) = filter seen eff ++ filter seen (concat effs2)).
  { destruct F1 as [N|(h & k & r & -> & N)].
    - apply check_first_nochk, nochk_app; assumption.
    - cbn [app]. apply check_first_cons, nochk_app; assumption. }
  rewrite C, g_effects_app. cbn [fst snd].
  split; [apply InvD_end, D2|]. intros HH; apply in_app_or in HH as [HH|HH]; [|auto]. revert HH. apply V1.
  intros h k _ Hin.
  assert (Hin2 : In (XCheck h k) (filter seen eff)) by (apply filter_In; split; [exact Hin|reflexivity]).
  destruct F1 as [N|(h' & k' & r & E & N)].
  - exfalso. exact (nochk_notin _ _ _ N Hin2).
  - rewrite E in Hin2. destruct Hin2 as [[= <- <-]|Hr]; [|exfalso; exact (nochk_notin _ _ _ N Hr)].
    exact (first_view cap s a s' eff G h' k' r I Rr D E).
Qed.

Lemma grun_dk cap : forall acts s G,
  InvA s G -> InvD s G -> wf (d_topo s) -> R (d_topo s) (g_abs G) -> NoDup (list_ids acts) ->
  (forall h, In h (list_ids acts) -> ~ In h (map fst (d_handlers s))) ->
  ~ In dk (snd (g_run G acts (fst (fst (grun cap s acts))))).
Proof.
  induction acts as [|a r IH]; intros s G I ID W Rr ND Fr; [cbn; auto|].
  cbn [grun].
  destruct (drun_from cap s (action_events cap s a)) as [[s1 effs]| |] eqn:E; try (cbn; auto; fail).
  assert (Fa : forall h l, a = GList h true l -> ~ In h (map fst (d_handlers s))).
  { intros h l ->. apply Fr. cbn. auto. }
  destruct (action_hang cap s a s1 effs G I Fa E) as (I1 & H1 & K1).
  destruct (action_due cap s a s1 effs G I ID Rr Fa E) as (D1 & V1).
  destruct (action_R cap s a s1 effs G W Rr E) as [W1 R1].
  change (list_ids (a :: r)) with ((match a with GList h true _ => [h] | _ => [] end) ++ list_ids r) in *.
  assert (ND2 : NoDup (list_ids r)).
  { clear -ND. induction (match a with GList h true _ => [h] | _ => [] end) as [|x t IHt]; [exact ND|].
    cbn in ND. inversion ND. auto. }
  assert (Fr2 : forall h, In h (list_ids r) -> ~ In h (map fst (d_handlers s1))).
  { intros h Hin. destruct K1 as [->|(h0 & l0 & -> & ->)].
    - apply Fr. apply in_or_app. auto.
    - cbn. intros [<-|Hc].
      + cbn in ND. inversion ND. auto.
      + revert Hc. apply Fr. apply in_or_app. auto. }
  set (l := filter seen (concat effs)) in *.
  pose proof (g_effects_abs a (check_first l) (g_begin a G)) as GA.
  destruct (g_effects a (g_begin a G) (check_first l)) as [G1 k1] eqn:GE. cbn [fst snd] in *.
  assert (R1' : R (d_topo s1) (g_abs (g_end a G1))).
  { assert (g_abs (g_end a G1) = g_abs G1) as -> by (destruct a; reflexivity).
    rewrite GA, xadds_check_first. unfold l. rewrite xadds_seen. exact R1. }
  specialize (IH s1 _ I1 D1 W1 R1' ND2 Fr2).
  destruct (grun cap s1 r) as [[rest s2] pk]. cbn [fst snd g_run] in *. fold l. rewrite GE.
  destruct (g_run (g_end a G1) r rest) as [G2 k2]. cbn [fst snd] in *.
  intros HH; apply in_app_or in HH as [HH|HH]; auto.
Qed.

(* For EVERY driver schedule in which no list id is read twice: the clause gossip:dialled-known is
   silent on the machine's own run -- no "unknown" answer for an address the checker's sets hold, and
   every Connect call takes an entry of the due list (an entry answered "unknown" and not yet dialled). *)
Theorem disc_checker_dialled_known_accept_model acts :
  NoDup (list_ids acts) ->
  match grun pool_width dinit acts with
  | (effs, _, _) => ~ In "gossip:dialled-known"%string (snd (g_run (mkG [] [] [] [] abs_init) acts effs))
  end.
Proof.
  intros ND.
  pose proof (grun_dk pool_width acts dinit (mkG [] [] [] [] abs_init)) as H.
  destruct (grun pool_width dinit acts) as [[effs s] pk]. cbn [fst] in H. apply H; auto.
  - intros h. reflexivity.
  - intros u. cbn. auto.
  - apply wf_init.
  - repeat split.
Qed.

(* not vacuous: a run with two Connect calls and a skipped known entry is accepted; disc_checker_rejects
   above shows the clause firing when a Connect call for the skipped entry is put into the observation *)
Example disc_checker_dialled_known_run :
  let acts := [GTopo (AddPeers [mkPeer 5 ROLE_PROVIDER]); GList 1 true [([5], [170]); ([6], [171]); ([7], [172])];
               GCheck 1; GCheck 1; GCheck 1] in
  xdials (concat (fst (fst (grun pool_width dinit acts)))) = [[171]; [172]]
  /\ snd (g_run (mkG [] [] [] [] abs_init) acts (fst (fst (grun pool_width dinit acts)))) = [].
Proof. vm_compute. auto. Qed.

(* --- summary: what the per-effect bookkeeping can still say on the machine's own run ------------------- *)
Definition up := "gossip:unproven"%string.
Ltac strs str := cbn; let HH := fresh in intros HH;
  repeat (destruct HH as [HH|HH]; [subst str; unfold dk, up, vw, hang; auto 6|]); contradiction.
Lemma g_effect_strings a G e str :
  In str (snd (g_effect a G e)) -> str = dk \/ str = up \/ str = vw \/ str = hang.
Proof.
  destruct e as [h k|h x r|u|p|h code]; cbn [g_effect].
  - destruct (g_find h (g_rem G)); [strs str|]. destruct k, (abs_connected _ _); strs str.
  - strs str.
  - destruct (rm_due u (g_due G)); [strs str|]. destruct (existsb _ _); strs str.
  - destruct a as [? ? ?|?|?|? [q|?]|?]; try strs str. destruct (negb _); strs str.
  - cbn [snd]. destruct (negb _); strs str.
Qed.
Lemma g_effects_strings a str : forall l G,
  In str (snd (g_effects a G l)) -> str = dk \/ str = up \/ str = vw \/ str = hang.
Proof.
  induction l as [|e r IH]; intros G; cbn [g_effects]; [cbn; contradiction|].
  pose proof (g_effect_strings a G e str) as V. destruct (g_effect a G e) as [G1 k1].
  specialize (IH G1). destruct (g_effects a G1 r) as [G2 k2]. cbn [snd] in *.
  intros HH; apply in_app_or in HH as [HH|HH]; auto.
Qed.
Lemma g_run_strings str : forall acts effs G,
  In str (snd (g_run G acts effs)) -> str = dk \/ str = up \/ str = vw \/ str = hang.
Proof.
  induction acts as [|a r IH]; intros effs G; [cbn; contradiction|].
  destruct effs as [|l lr]; [cbn; contradiction|]. cbn [g_run].
  pose proof (g_effects_strings a str (check_first l) (g_begin a G)) as V.
  destruct (g_effects a (g_begin a G) (check_first l)) as [G1 k1].
  specialize (IH lr (g_end a G1)). destruct (g_run (g_end a G1) r lr) as [G2 k2]. cbn [snd] in *.
  intros HH; apply in_app_or in HH as [HH|HH]; auto.
Qed.

(* For EVERY driver schedule in which no list id is read twice, the only thing the per-effect
   bookkeeping of the mode-3 checker can report on the machine's own run is gossip:unproven. *)
Theorem disc_checker_only_unproven acts :
  NoDup (list_ids acts) ->
  match grun pool_width dinit acts with
  | (effs, _, _) => forall str, In str (snd (g_run (mkG [] [] [] [] abs_init) acts effs)) -> str = "gossip:unproven"%string
  end.
Proof.
  intros ND.
  pose proof (disc_checker_hang_accept_model acts ND) as A.
  pose proof (disc_checker_answers_accept_model acts ND) as B.
  pose proof (disc_checker_dialled_known_accept_model acts ND) as C.
  destruct (grun pool_width dinit acts) as [[effs s] pk]. intros str Hin.
  destruct (g_run_strings str _ _ _ Hin) as [-> | [-> | [-> | -> ]]]; [exfalso; exact (C Hin)|reflexivity|exfalso; exact (B Hin)|exfalso; exact (A Hin)].
Qed.
