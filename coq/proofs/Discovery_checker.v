(* C15 -- the mode-3 clauses of check/Check_C15.v on the discovery machine's own run: the pool clause
   and the view clause are silent for every schedule. *)
From Coq Require Import String List NArith ZArith Bool Lia.
From MevVerif Require Import lib.Bytes proofs.Bytes_proofs gen.Generated model.Topology model.Discovery
     check.Check_C15 proofs.Topology_proofs proofs.Discovery_proofs.
Import ListNotations.
Open Scope N_scope.

Definition xadds (l : list deffect) : list peer :=
  flat_map (fun e => match e with XAdd p => [p] | _ => [] end) l.
Definition add_all (ps : list peer) (A : abs) : abs := fold_left (fun acc p => abs_add p acc) ps A.

Lemma xadds_app a b : xadds (a ++ b) = xadds a ++ xadds b.
Proof. apply flat_map_app. Qed.
Lemma xadds_check_first l : xadds (check_first l) = xadds l.
Proof.
  unfold check_first. rewrite xadds_app.
  assert (A : xadds (filter (fun e => match e with XCheck _ _ => true | _ => false end) l) = []).
  { induction l as [|e r IH]; [reflexivity|]. destruct e; cbn; exact IH. }
  rewrite A. cbn [app].
  clear A. unfold xadds. induction l as [|e r IH]; [reflexivity|]. destruct e; cbn; rewrite ?IH; reflexivity.
Qed.
Lemma xadds_seen l : xadds (filter seen l) = xadds l.
Proof. unfold xadds. induction l as [|e r IH]; [reflexivity|]. destruct e; cbn; rewrite ?IH; reflexivity. Qed.

(* the abstract sets kept by the checker's bookkeeping only move with the AddPeers calls seen *)
Lemma g_effect_abs a G e :
  g_abs (fst (g_effect a G e)) = add_all (xadds [e]) (g_abs G).
Proof.
  destruct e as [h k|h x r|u|p|h code]; cbn [g_effect xadds flat_map app add_all fold_left].
  - destruct (g_find h (g_rem G)); reflexivity.
  - reflexivity.
  - destruct (rm_due u (g_due G)); reflexivity.
  - reflexivity.
  - destruct (code =? 2); reflexivity.
Qed.
Lemma g_effects_abs a l : forall G, g_abs (fst (g_effects a G l)) = add_all (xadds l) (g_abs G).
Proof.
  induction l as [|e r IH]; intros G; [reflexivity|]. cbn [g_effects].
  pose proof (g_effect_abs a G e) as E. destruct (g_effect a G e) as [G1 k1]. cbn [fst] in E.
  specialize (IH G1). destruct (g_effects a G1 r) as [G2 k2]. cbn [fst] in *.
  rewrite IH, E. change (e :: r) with ([e] ++ r). rewrite xadds_app. unfold add_all. rewrite fold_left_app. reflexivity.
Qed.

(* the internal steps neither touch the topology nor add peers *)
Lemma eager_quiet cap : forall fuel s s1 effs,
  drun_from cap s (eager fuel cap s) = Ok (s1, effs) -> d_topo s1 = d_topo s /\ xadds (concat effs) = [].
Proof.
  induction fuel as [|n IH]; intros s s1 effs; cbn [eager drun_from].
  - intros [= <- <-]. auto.
  - destruct (eager_event cap s) as [e|] eqn:E; [|cbn [drun_from]; intros [= <- <-]; auto].
    assert (Q : forall s' eff, dstep cap s e = Ok (s', eff) -> d_topo s' = d_topo s /\ xadds eff = []).
    { unfold eager_event in E.
      assert (K : e = DAcquire \/ (exists h, e = DHandoff h) \/ (exists h, e = DGiveUp h)).
      { destruct (d_pending s).
        - destruct (d_held s <? cap); [injection E as <-; auto|].
          destruct (offering (d_handlers s)) as [[h [|]]|]; try discriminate. injection E as <-. eauto.
        - destruct (offering (d_handlers s)) as [[h b]|]; try discriminate. injection E as <-. eauto. }
      intros s' eff. destruct K as [->|[[h ->]|[h ->]]]; cbn [dstep].
      - destruct (d_pending s); [|intros [= <- <-]; auto]. destruct (d_held s <? cap); intros [= <- <-]; auto.
      - destruct (find_h h (d_handlers s)) as [[[|x rest] [|] c]|]; try (intros [= <- <-]; auto).
        destruct (d_pending s); intros [= <- <-]; auto. split; [reflexivity|]. destruct rest; reflexivity.
      - destruct (find_h h (d_handlers s)) as [[[|x rest] [|] [|]]|]; try (intros [= <- <-]; auto).
        split; [reflexivity|]. change (xadds ((map (fun y => XSkip h y SkCancelled) (x :: rest)) ++ [XReturn h 2]) = []).
        rewrite xadds_app. cbn [xadds flat_map app]. rewrite app_nil_r.
        generalize (x :: rest). intros l0. induction l0; [reflexivity|]. cbn. assumption. }
    destruct (dstep cap s e) as [[s' eff]| |] eqn:D; cbn [drun_from]; rewrite D; try discriminate.
    destruct (drun_from cap s' (eager n cap s')) as [[s2 effs2]| |] eqn:R2; try discriminate.
    intros [= <- <-]. destruct (Q s' eff eq_refl) as [T X]. destruct (IH s' s2 effs2 R2) as [T2 X2].
    split; [congruence|]. cbn [concat]. rewrite xadds_app, X, X2. reflexivity.
Qed.

(* one action of the driver: the model's topology and the checker's sets move together *)
Lemma action_R cap s a s1 effs G :
  wf (d_topo s) -> R (d_topo s) (g_abs G) ->
  drun_from cap s (action_events cap s a) = Ok (s1, effs) ->
  wf (d_topo s1) /\ R (d_topo s1) (add_all (xadds (concat effs)) (g_abs (g_begin a G))).
Proof.
  intros W Rr. unfold action_events.
  destruct (dstep cap s (action_event a)) as [[s' eff]| |] eqn:D; cbn [drun_from]; rewrite D; try discriminate.
  destruct (drun_from cap s' (eager 6 cap s')) as [[s2 effs2]| |] eqn:R2; try discriminate.
  intros [= <- <-]. destruct (eager_quiet cap 6 s' s2 effs2 R2) as [T X].
  cbn [concat]. rewrite xadds_app, X, app_nil_r, T. clear R2 T X.
  destruct a as [h ok l|h|h|u r|ev]; cbn [action_event dstep g_begin] in *.
  - assert (d_topo s' = d_topo s /\ xadds eff = []) as [-> ->].
    { destruct (find_h h (d_handlers s)); [injection D as <- <-; auto|].
      destruct (negb ok); injection D as <- <-; auto. split; [reflexivity|]. destruct l; reflexivity. }
    destruct ok; auto.
  - assert (d_topo s' = d_topo s /\ xadds eff = []) as [-> ->]; [|auto].
    destruct (find_h h (d_handlers s)) as [[[|x rest] [|] c]|]; try (injection D as <- <-; auto).
    destruct (is_connected _ _); injection D as <- <-; auto. split; [reflexivity|]. destruct rest; reflexivity.
  - assert (d_topo s' = d_topo s /\ xadds eff = []) as [-> ->]; [|auto].
    destruct (find_h h (d_handlers s)) as [[rem o c]|]; injection D as <- <-; auto.
  - destruct (flying u s); [|injection D as <- <-; auto].
    destruct (d_held s =? 0); [discriminate|]. injection D as <- <-. cbn [d_topo].
    destruct r as [p|rf]; cbn; auto. split; [apply wf_add, W|apply R_add, Rr].
  - destruct (topo_event ev) eqn:Te; injection D as <- <-; cbn [d_topo xadds flat_map add_all fold_left g_abs]; auto.
    split; [apply wf_step, W|].
    pose proof (R_step (d_topo s) (g_abs G) ev Rr) as H.
    destruct ev; cbn in Te; try discriminate; exact H.
Qed.

Lemma grun_accepts cap pr : forall acts s G,
  pool_inv cap s -> wf (d_topo s) -> R (d_topo s) (g_abs G) ->
  match grun cap s acts with
  | (effs, s', pk) =>
      pk <= cap
      /\ view_ok (g_abs (fst (g_run G acts effs))) pr (observe pr (d_topo s') []) = true
  end.
Proof.
  induction acts as [|a r IH]; intros s G I W Rr; cbn [grun g_run].
  - split; [destruct I; lia|]. cbn [fst]. apply view_ok_model; assumption.
  - destruct (drun_from_pool cap (action_events cap s a) s I) as (s1 & effs & E & I1). rewrite E.
    destruct (action_R cap s a s1 effs G W Rr E) as [W1 R1].
    set (l := filter seen (concat effs)).
    pose proof (g_effects_abs a (check_first l) (g_begin a G)) as GA.
    destruct (g_effects a (g_begin a G) (check_first l)) as [G1 k1] eqn:GE. cbn [fst] in GA.
    assert (R1' : R (d_topo s1) (g_abs (g_end a G1))).
    { assert (g_abs (g_end a G1) = g_abs G1) as -> by (destruct a; reflexivity).
      rewrite GA, xadds_check_first. unfold l. rewrite xadds_seen. exact R1. }
    specialize (IH s1 (g_end a G1) I1 W1 R1').
    destruct (grun cap s1 r) as [[rest s2] pk]. destruct IH as [P V].
    cbn [g_run]. fold l. rewrite GE.
    destruct (g_run (g_end a G1) r rest) as [G2 k2]. cbn [fst] in *.
    split; [destruct I; lia|exact V].
Qed.

(* For EVERY driver schedule (any lists, any order of releases, completions, cancellations, topology
   events): on the machine's own run the clause gossip:pool and the view clause of the mode-3 checker
   are silent. *)
Theorem disc_checker_pool_view_accept_model pr acts :
  match grun pool_width dinit acts with
  | (effs, s, pk) =>
      (pool_width <? pk) = false
      /\ view_ok (g_abs (fst (g_run (mkG [] [] [] [] abs_init) acts effs))) pr (observe pr (d_topo s) []) = true
  end.
Proof.
  pose proof (grun_accepts pool_width pr acts dinit (mkG [] [] [] [] abs_init) (pool_inv_init _) wf_init) as H.
  destruct (grun pool_width dinit acts) as [[effs s] pk]. destruct H as [P V]; [repeat split|].
  split; [apply N.ltb_ge; exact P|exact V].
Qed.

(* the clauses are not vacuous: an observation with 11 dials running at once, and one with a Connect
   call for an entry that was answered "known", are flagged *)
Example disc_checker_rejects :
  In "gossip:pool"%string
     (case_violations (mkCaseD 0 3 [] [] [] [observe [] init []] [] []
        (mkDisc [] [] 11 false)))
  /\ In "gossip:dialled-known"%string
     (case_violations (mkCaseD 0 3 [] [] [] [observe [] (add (mkPeer 5 ROLE_PROVIDER) init) []] [] []
        (mkDisc [GTopo (AddPeers [mkPeer 5 ROLE_PROVIDER]); GList 1 true [([5], [170])]; GCheck 1]
                [[]; []; [XCheck 1 true; XDial [170]; XReturn 1 0]] 1 false))).
Proof. vm_compute. auto. Qed.
