(* Composition of the p2p identity and blocking chains:
     C18 (model/Identity.v: one key, one peer id, one address)
     C04 (model/Handshake.v: enrolment only after a handshake proving address, role, stake)
     C14 (model/PeerRegistry.v: registry consistency, under the premise wf)
     C17 (model/Blocklist.v: blocks hold).
   The neighbouring subsystems that are oracles or premises in the single models are instantiated /
   discharged here:
     - the Enrol events of the registry carry what C04 enrolments produce, hence wf (or else two
       different transport identities with one Ethereum address are exhibited);
     - the responder's address-of-peer-id oracle is Identity.addr_of_peerid, hence an honest node always
       passes the address-binding clause;
     - the EBlock effects of handleConnectReq / Connect are the Block events of the blocklist, hence a
       peer refused for a bad signature or an address mismatch stays blocked for ever and the gater
       refuses it. *)
From Coq Require Import List NArith ZArith Bool Lia.
From MevVerif Require Import lib.Bytes gen.Generated proofs.Bytes_proofs.
From MevVerif Require model.Handshake model.Identity model.PeerRegistry model.Blocklist
  proofs.Handshake_proofs proofs.Identity_proofs proofs.PeerRegistry_proofs proofs.Blocklist_proofs.
Import ListNotations.

Module HS := MevVerif.model.Handshake.
Module ID := MevVerif.model.Identity.
Module PR := MevVerif.model.PeerRegistry.
Module BL := MevVerif.model.Blocklist.
Module HSP := MevVerif.proofs.Handshake_proofs.
Module IDP := MevVerif.proofs.Identity_proofs.
Module PRP := MevVerif.proofs.PeerRegistry_proofs.
Module BLP := MevVerif.proofs.Blocklist_proofs.

(* ================================================================================================== *)
(* 0. Representations.  Handshake.v and Identity.v write addresses and peer ids as byte strings, the   *)
(*    registry and the blocklist index their maps by numbers.  Any injective numbering will do; one is  *)
(*    given so that the premises below are satisfiable.                                                 *)
(* ================================================================================================== *)
Open Scope N_scope.

Fixpoint code (l : bytes) : N :=
  match l with
  | [] => 0
  | a :: r => N.shiftl (2 * code r + 1) a
  end.

Lemma shift_odd_inj a b x y : N.shiftl (2 * x + 1) a = N.shiftl (2 * y + 1) b -> a = b /\ x = y.
Proof.
  intros H.
  assert (Hab : a = b).
  { destruct (N.lt_trichotomy a b) as [L|[E|G]]; [exfalso|exact E|exfalso].
    - apply (f_equal (fun z => N.testbit z a)) in H.
      rewrite N.shiftl_spec_high', N.sub_diag, N.testbit_odd_0, (N.shiftl_spec_low _ _ _ L) in H by lia.
      discriminate.
    - apply (f_equal (fun z => N.testbit z b)) in H.
      rewrite (N.shiftl_spec_high' (2 * y + 1)), N.sub_diag, N.testbit_odd_0, (N.shiftl_spec_low _ _ _ G) in H by lia.
      discriminate. }
  subst b. split; [reflexivity|].
  apply (f_equal (fun z => N.shiftr z a)) in H.
  rewrite !N.shiftr_shiftl_l, N.sub_diag, !N.shiftl_0_r in H by lia. lia.
Qed.

Lemma code_inj : forall x y, code x = code y -> x = y.
Proof.
  induction x as [|a x IH]; intros [|b y] H; cbn [code] in H.
  - reflexivity.
  - symmetry in H. apply N.shiftl_eq_0_iff in H. lia.
  - apply N.shiftl_eq_0_iff in H. lia.
  - apply shift_odd_inj in H. destruct H as [-> H]. f_equal. apply IH, H.
Qed.

Lemma forallb_false {A} (f : A -> bool) l : forallb f l = false -> exists x, In x l /\ f x = false.
Proof.
  induction l as [|a l IH]; cbn [forallb]; [discriminate|].
  destruct (f a) eqn:E; cbn [andb]; intros H; [|exists a; split; [left; reflexivity|exact E]].
  destruct (IH H) as (x & Hx & Hf). exists x. split; [right; exact Hx|exact Hf].
Qed.

(* getEthAddress(peerID) as an optional value *)
Definition pres_of (o : option bytes) : HS.pres :=
  match o with Some a => HS.POk a | None => HS.PErr end.

(* ================================================================================================== *)
(* 1. C04 o C14: histories whose enrolments come out of handshakes are well formed                     *)
(* ================================================================================================== *)

Section WfFromHandshake.
  Variable enc_pid : bytes -> N.          (* numbering of transport peer ids *)
  Variable enc_addr : bytes -> N.         (* numbering of Ethereum addresses *)
  Hypothesis enc_pid_inj : forall x y, enc_pid x = enc_pid y -> x = y.
  Hypothesis enc_addr_inj : forall x y, enc_addr x = enc_addr y -> x = y.
  (* the address of a transport peer id (getEthAddress): one function for the whole history *)
  Variable F : bytes -> option bytes.

  (* addPeer(c, pe) is called by handleConnectReq / Connect with the peer the handshake returned: some
     handshake (either direction, any configuration, script, oracle answers, write failures) run on
     a connection whose authenticated remote peer id is pidb, with the address-of-peer-id oracle
     answering F pidb, ended with Enrol (A, T), and pe is (A, T) *)
  Definition enrolled_by_handshake (c : PR.conn) (pe : PR.peer) : Prop :=
    exists (pidb : bytes) (cfg : HS.config) (s : HS.step) (A : bytes) (T : Z),
      PR.remote c = enc_pid pidb /\
      HS.addr_of_pid (HS.s_oracles s) = pres_of (F pidb) /\
      HS.res (HS.run_step cfg s) = HS.Enrol A T /\
      PR.p_addr pe = enc_addr A /\ PR.p_role pe = T.

  Definition from_handshakes (evs : list PR.event) : Prop :=
    forall c pe closed, In (PR.Enrol c pe closed) evs -> enrolled_by_handshake c pe.

  (* C04 (exact_responder / exact_initiator): the enrolled address is the address of the peer id *)
  Lemma enrolled_address c pe :
    enrolled_by_handshake c pe ->
    exists pidb A, PR.remote c = enc_pid pidb /\ F pidb = Some A /\ PR.p_addr pe = enc_addr A.
  Proof.
    intros (pidb & cfg & s & A & T & Hr & Ho & He & Ha & _).
    exists pidb, A. split; [exact Hr|]. split; [|exact Ha].
    assert (Hp : HS.addr_of_pid (HS.s_oracles s) = HS.POk A).
    { unfold HS.run_step in He. destruct (HS.s_dir s).
      - apply HSP.handle_enrol_iff in He.
        destruct He as (role & token & sig & ea & er & f1 & f2 & rest & _ & _ & (_ & Hp & _) & _). exact Hp.
      - apply HSP.handshake_enrol_iff in He.
        destruct He as (role & token & sig & ea & er & f1 & f2 & rest & _ & _ & _ & _ & _ & (_ & Hp & _) & _). exact Hp. }
    rewrite Hp in Ho. destruct (F pidb); [injection Ho as ->; reflexivity|discriminate].
  Qed.

  Lemma enrolments_from evs c pe :
    In (c, pe) (PR.enrolments evs) -> exists closed, In (PR.Enrol c pe closed) evs.
  Proof.
    unfold PR.enrolments. intros H. apply in_flat_map in H. destruct H as (e & He & Hin).
    destruct e; cbn in Hin; try tauto. destruct Hin as [Hin|[]]. injection Hin as <- <-. eauto.
  Qed.

  (* two different transport identities of the history with one address *)
  Definition address_collision (evs : list PR.event) : Prop :=
    exists p p' A c pe closed c' pe' closed',
      p <> p' /\ F p = Some A /\ F p' = Some A /\
      In (PR.Enrol c pe closed) evs /\ PR.remote c = enc_pid p /\
      In (PR.Enrol c' pe' closed') evs /\ PR.remote c' = enc_pid p'.

  Theorem wf_from_handshake evs :
    from_handshakes evs -> PR.wf evs \/ address_collision evs.
  Proof.
    intros FH. destruct (PR.wfb evs) eqn:W; [left; apply PRP.wfb_wf, W|right].
    unfold PR.wfb in W. cbv zeta in W.
    apply forallb_false in W. destruct W as ((c, pe) & Hx & W).
    apply forallb_false in W. destruct W as ((c', pe') & Hy & W). cbn [fst snd] in W.
    destruct (enrolments_from _ _ _ Hx) as (closed & Ex). destruct (enrolments_from _ _ _ Hy) as (closed' & Ey).
    destruct (enrolled_address _ _ (FH _ _ _ Ex)) as (p & A & Hr & HF & Ha).
    destruct (enrolled_address _ _ (FH _ _ _ Ey)) as (p' & A' & Hr' & HF' & Ha').
    destruct (N.eqb_spec (PR.remote c) (PR.remote c')) as [E|NE];
      destruct (N.eqb_spec (PR.p_addr pe) (PR.p_addr pe')) as [E2|NE2]; try discriminate.
    - exfalso. rewrite Hr, Hr' in E. apply enc_pid_inj in E. subst p'. rewrite HF in HF'. injection HF' as <-.
      congruence.
    - rewrite Ha, Ha' in E2. apply enc_addr_inj in E2. subst A'.
      exists p, p', A, c, pe, closed, c', pe', closed'.
      split; [intros ->; congruence|]. repeat split; assumption.
  Qed.

  (* the premise of the C14 theorems, when the address function separates the enrolled identities *)
  Corollary wf_from_handshake_inj evs :
    from_handshakes evs -> (forall p p' A, F p = Some A -> F p' = Some A -> p = p') -> PR.wf evs.
  Proof.
    intros FH Inj. destruct (wf_from_handshake evs FH) as [W|C]; [exact W|exfalso].
    destruct C as (p & p' & A & _ & _ & _ & _ & _ & _ & Hne & H1 & H2 & _). exact (Hne (Inj _ _ _ H1 H2)).
  Qed.

  (* C14 for such histories, with no well-formedness premise left: the two maps are mutually inverse,
     a peer is registered exactly while an open enrolled connection remains, and Disconnected never
     dereferences nil -- or else two different transport identities with one address were enrolled *)
  Theorem registry_consistent_after_handshakes evs :
    from_handshakes evs ->
    ((forall p pe, PR.get p (PR.overlays (PR.run evs)) = Some pe ->
                   PR.get (PR.p_addr pe) (PR.underlays (PR.run evs)) = Some p) /\
     (forall a p, PR.get a (PR.underlays (PR.run evs)) = Some p ->
                  exists pe, PR.get p (PR.overlays (PR.run evs)) = Some pe /\ PR.p_addr pe = a) /\
     (forall p, PR.registered (PR.run evs) p = true <-> exists k, PR.open_enrolled evs (p, k) = true) /\
     PR.panicked (PR.run evs) = false /\
     (forall s p pe f, In (s, p, pe, f) (PR.started (PR.run evs)) ->
        f = true /\ exists k, In (PR.Enrol (p, k) pe false) evs /\ enrolled_by_handshake (p, k) pe))
    \/ address_collision evs.
  Proof.
    intros FH. destruct (wf_from_handshake evs FH) as [W|C]; [left|right; exact C].
    destruct (PRP.inverse evs W) as [I1 I2].
    split; [exact I1|]. split; [exact I2|]. split; [intros p; apply PRP.registered_iff, W|].
    split; [apply PRP.no_panic, W|].
    intros s p pe f Hin. destruct (PRP.handlers evs W s p pe f Hin) as (Hf & k & Hk).
    split; [exact Hf|]. exists k. split; [exact Hk|exact (FH _ _ _ Hk)].
  Qed.
End WfFromHandshake.

(* non-vacuity of section 1: the numbering [code], an address function, and a history of two handshake
   enrolments (one responder, one initiator) and a closure *)
Section WfExample.
  Let F (p : bytes) : option bytes := Some (1 :: p).
  Let cfg : HS.config := {| HS.own_type := 2; HS.own_token := [5]; HS.own_addr := [9; 9]; HS.own_sig := [8] |}.
  Let orc (p : bytes) : HS.oracles :=
    {| HS.verify := fun _ _ => HS.VOk true (1 :: p); HS.addr_of_pid := pres_of (F p); HS.registered := fun _ => true |}.
  Let req : HS.frame := {| HS.as_req := Some (HS.role_string 1, [5], [7]); HS.as_resp := None |}.
  Let echo : HS.frame := {| HS.as_req := None; HS.as_resp := Some ([9; 9], HS.role_string 2) |}.
  Let step_in (p : bytes) : HS.step :=
    {| HS.s_dir := true; HS.s_oracles := orc p; HS.s_wfail := fun _ => false; HS.s_script := [req; echo] |}.
  Let step_out (p : bytes) : HS.step :=
    {| HS.s_dir := false; HS.s_oracles := orc p; HS.s_wfail := fun _ => false; HS.s_script := [echo; req] |}.
  Let pe_of (p : bytes) : PR.peer := {| PR.p_addr := code (1 :: p); PR.p_role := 1 |}.
  Let hist : list PR.event :=
    [PR.Enrol (code [3], 0) (pe_of [3]) false; PR.Enrol (code [4], 0) (pe_of [4]) false;
     PR.Enrol (code [3], 1) (pe_of [3]) false; PR.ConnClosed (code [3], 0)].

  Example ex_from_handshakes : from_handshakes code code F hist.
  Proof.
    intros c pe closed [H|[H|[H|[H|[]]]]]; try discriminate; injection H as <- <- <-.
    - exists [3], cfg, (step_in [3]), [1; 3], 1%Z. repeat split; vm_compute; reflexivity.
    - exists [4], cfg, (step_out [4]), [1; 4], 1%Z. repeat split; vm_compute; reflexivity.
    - exists [3], cfg, (step_in [3]), [1; 3], 1%Z. repeat split; vm_compute; reflexivity.
  Qed.

  Example ex_wf : PR.wf hist /\ PR.registered (PR.run hist) (code [3]) = true /\ PR.registered (PR.run hist) (code [4]) = true.
  Proof.
    split.
    - apply (wf_from_handshake_inj code code code_inj code_inj F hist ex_from_handshakes).
      intros p p' A H1 H2. unfold F in *. congruence.
    - split; vm_compute; reflexivity.
  Qed.
End WfExample.

(* ================================================================================================== *)
(* 2. C18 o C04: an honest node always passes its peers' address-binding check                          *)
(* ================================================================================================== *)

Section Honest.
  Variable keccak : bytes -> bytes.
  Variable pub : N -> ID.point.
  Variable compress : ID.point -> bytes.
  Variable decompress : bytes -> option ID.point.
  (* the two curve premises of C18_coherent *)
  Hypothesis compress_len : forall P, length (compress P) = 33%nat.
  Hypothesis decompress_compress : forall d, decompress (compress (pub d)) = Some (pub d).

  (* The node's key signer was given the scalar d.  It answers three questions by three pieces of code
     (model/Identity.v): the scalar it hands to libp2p.New, the address it reports, and -- through its
     signatures -- the address verifiers recover. *)
  Variable ks_priv : N -> N.
  Variable ks_addr : N -> bytes.
  Variable recover_addr : N -> bytes.
  Variable d : N.
  Hypothesis d_range : d < 2 ^ 256.
  (* the three binding premises of C18_coherent: the signer is bound to the scalar *)
  Hypothesis bind_priv : ks_priv d = d.
  Hypothesis bind_addr : ks_addr d = ID.eth_addr keccak (pub d).
  Hypothesis bind_recover : recover_addr d = ID.eth_addr keccak (pub d).

  (* the address of the key, used by the numbering examples *)
  Definition honest_addr : bytes := ID.pubkey_addr keccak pub d.

  (* A peer of that node.  Its address-of-peer-id answer is GetEthAddressFromPeerID on the transport identity
     libp2p.New builds for the node as it is written now ([ID.node_peer_addr_now]: key from the signer, padded,
     unmarshalled; consults [ID.wiring_ok]); and its signature verifier recovers, from the node's handshake
     request, the address the node's signatures recover to -- which is what [recover_addr d] is. *)
  Variable o : HS.oracles.
  Hypothesis o_pid :
    HS.addr_of_pid o = pres_of (ID.node_peer_addr_now keccak pub compress decompress ks_priv d).
  Variables role token sig : bytes.
  Hypothesis o_verify : HS.verify o sig (role ++ token) = HS.VOk true (recover_addr d).

  (* C18_coherent: the address peers derive from the transport identity is the recovered address *)
  Lemma honest_binding : HS.addr_of_pid o = HS.POk (recover_addr d).
  Proof.
    destruct (IDP.coherent_sources keccak pub compress decompress ks_priv ks_addr recover_addr
                compress_len decompress_compress d d_range bind_priv bind_addr bind_recover) as (_ & H & _).
    rewrite o_pid, H. reflexivity.
  Qed.

  (* ... and it is the address the node itself reports, so the echo of a peer that enrolled it is accepted by
     the node's own verifyResp (its configuration carries GetAddress() as own address) *)
  Lemma honest_echo_accepted cfg :
    HS.own_addr cfg = ks_addr d ->
    HS.echo_ok cfg (recover_addr d) (HS.role_string (HS.own_type cfg)) = true.
  Proof.
    intros Hc.
    destruct (IDP.coherent_sources keccak pub compress decompress ks_priv ks_addr recover_addr
                compress_len decompress_compress d d_range bind_priv bind_addr bind_recover) as (_ & _ & H).
    unfold HS.echo_ok. rewrite Hc, H, !bytes_eqb_refl. reflexivity.
  Qed.

  (* verifyReq: the address comparison succeeds; only the stake question remains *)
  Theorem honest_verify_req :
    HS.verify_req o role token sig =
    if bytes_eqb role HS.provider_string
    then (if HS.registered o (recover_addr d) then (inl (recover_addr d), [(recover_addr d)]) else (inr HS.RStake, [(recover_addr d)]))
    else (inl (recover_addr d), []).
  Proof.
    unfold HS.verify_req, HS.signed_data. rewrite o_verify, honest_binding, bytes_eqb_refl. reflexivity.
  Qed.

  (* the clause "A is the address of the authenticated transport identity" of C04's admissibility
     predicate holds, and the whole predicate holds unless the node claims to be a provider the
     registry does not know *)
  Theorem honest_node_passes_binding :
    HS.addr_of_pid o = HS.POk (recover_addr d) /\
    ((role = HS.provider_string -> HS.registered o (recover_addr d) = true) ->
     HS.proves o role token sig (recover_addr d)).
  Proof.
    split; [exact honest_binding|]. intros Hs. split; [exact o_verify|]. split; [exact honest_binding|exact Hs].
  Qed.

  (* consequently no handshake with the honest node, in either direction, is refused for a bad signature,
     an address mismatch or an unusable peer id; the only block it can receive is the timed one for
     insufficient stake, and only when it claims to be a provider *)
  Theorem honest_never_refused_for_identity cfg wfail f1 rest :
    HS.as_req f1 = Some (role, token, sig) ->
    forall cl, HS.res (HS.handle cfg o wfail (f1 :: rest)) = HS.Refuse cl ->
      cl <> HS.RSig /\ cl <> HS.RAddr /\ cl <> HS.RPid /\
      (cl = HS.RStake -> role = HS.provider_string /\ HS.registered o (recover_addr d) = false).
  Proof.
    intros Hf cl. unfold HS.handle. rewrite Hf, honest_verify_req.
    destruct (bytes_eqb role HS.provider_string) eqn:P.
    - apply bytes_eqb_eq in P. destruct (HS.registered o (recover_addr d)) eqn:R.
      + destruct (wfail 0%nat); [intros H; injection H as <-; repeat split; congruence|].
        destruct (wfail 1%nat); [intros H; injection H as <-; repeat split; congruence|].
        destruct rest as [|f2 r2]; [intros H; injection H as <-; repeat split; congruence|].
        destruct (HS.as_resp f2) as [[ea er]|]; [|intros H; injection H as <-; repeat split; congruence].
        destruct (HS.echo_ok cfg ea er); [discriminate|intros H; injection H as <-; repeat split; congruence].
      + intros H. injection H as <-. repeat split; congruence.
    - destruct (wfail 0%nat); [intros H; injection H as <-; repeat split; congruence|].
      destruct (wfail 1%nat); [intros H; injection H as <-; repeat split; congruence|].
      destruct rest as [|f2 r2]; [intros H; injection H as <-; repeat split; congruence|].
      destruct (HS.as_resp f2) as [[ea er]|]; [|intros H; injection H as <-; repeat split; congruence].
      destruct (HS.echo_ok cfg ea er); [discriminate|intros H; injection H as <-; repeat split; congruence].
  Qed.

  Theorem honest_never_blocked_for_ever cfg wfail f1 rest has_notifier add :
    HS.as_req f1 = Some (role, token, sig) ->
    ~ In (HS.EBlock 0) (HS.inbound cfg o wfail (f1 :: rest) has_notifier add).
  Proof.
    intros Hf Hin. unfold HS.inbound in Hin.
    destruct (HS.res (HS.handle cfg o wfail (f1 :: rest))) as [a t|cl] eqn:R.
    - cbn in Hin. destruct add; cbn in Hin.
      + destruct Hin as [H|Hin]; [discriminate|]. destruct has_notifier; cbn in Hin; intuition discriminate.
      + intuition discriminate.
    - destruct (honest_never_refused_for_identity cfg wfail f1 rest Hf cl R) as (N1 & N2 & _).
      destruct cl; try congruence; cbn in Hin; intuition discriminate.
  Qed.

  (* and with the echo of the peer's own request in place and no failed write the node is enrolled, under
     its signing address *)
  Theorem honest_enrolled cfg wfail f1 f2 rest ea er :
    HS.as_req f1 = Some (role, token, sig) ->
    (role = HS.provider_string -> HS.registered o (recover_addr d) = true) ->
    wfail 0%nat = false -> wfail 1%nat = false ->
    HS.as_resp f2 = Some (ea, er) -> HS.echo_is_own cfg ea er ->
    HS.res (HS.handle cfg o wfail (f1 :: f2 :: rest)) = HS.Enrol (recover_addr d) (HS.role_of_string role).
  Proof.
    intros Hf Hs W0 W1 Hr He. apply HSP.handle_enrol_iff.
    exists role, token, sig, ea, er, f1, f2, rest.
    destruct honest_node_passes_binding as [_ Hp]. repeat split; auto; try apply Hp, Hs; apply He.
  Qed.
End Honest.

(* What an address collision of section 1 means when the address function is GetEthAddressFromPeerID
   (Identity.addr_of_peerid): two different compressed public keys whose points have the same
   Keccak-derived 20-byte address (outside the proofs, as in C02: a truncated-hash collision). *)
Lemma extract_pub_shape pid c : ID.extract_pub pid = Some c -> pid = 0 :: 37 :: 8 :: 2 :: 18 :: 33 :: c.
Proof.
  unfold ID.extract_pub. intros H.
  repeat match type of H with
  | match ?x with _ => _ end = _ => destruct x; try discriminate
  end.
  injection H as <-. reflexivity.
Qed.

Theorem identity_collision_is_key_collision keccak decompress p p' A :
  ID.canonical p -> ID.canonical p' ->
  p <> p' ->
  ID.addr_of_peerid keccak decompress p = Some A -> ID.addr_of_peerid keccak decompress p' = Some A ->
  exists c c' P P', c <> c' /\ decompress c = Some P /\ decompress c' = Some P' /\
                    ID.eth_addr keccak P = A /\ ID.eth_addr keccak P' = A.
Proof.
  unfold ID.addr_of_peerid. intros _ _ Hne H1 H2.
  destruct (ID.extract_pub p) as [c|] eqn:E1; [|discriminate].
  destruct (ID.extract_pub p') as [c'|] eqn:E2; [|discriminate].
  destruct (decompress c) as [P|] eqn:D1; [|discriminate]. destruct (decompress c') as [P'|] eqn:D2; [|discriminate].
  injection H1 as H1. injection H2 as H2. exists c, c', P, P'.
  split; [|repeat split; assumption].
  intros ->. apply extract_pub_shape in E1. apply extract_pub_shape in E2. congruence.
Qed.

(* non-vacuity: the toy curve of Identity_proofs.coherence_premises_satisfiable, scalar 258, a peer
   that recovers the node's signing address *)
Section HonestExample.
  Let kk : bytes -> bytes := fun m => repeat 7 12 ++ firstn 20 m.
  Let pub : N -> ID.point := fun d => (d mod 2 ^ 256, 0).
  Let compress : ID.point -> bytes := fun P => 2 :: be 32 (fst P).
  Let decompress : bytes -> option ID.point := fun c => Some (unbe (tl c) mod 2 ^ 256, 0).
  Let dd : N := 258.
  (* a key signer bound to its scalar *)
  Let ks_priv : N -> N := fun d => d.
  Let ks_addr : N -> bytes := fun d => ID.eth_addr kk (pub d).
  Let recover_addr : N -> bytes := fun d => ID.eth_addr kk (pub d).
  Let oo : HS.oracles :=
    {| HS.verify := fun _ _ => HS.VOk true (recover_addr dd);
       HS.addr_of_pid := pres_of (ID.node_peer_addr_now kk pub compress decompress ks_priv dd);
       HS.registered := fun _ => false |}.
  Example ex_honest_premises :
    (forall P, length (compress P) = 33%nat) /\ (forall d, decompress (compress (pub d)) = Some (pub d)) /\
    dd < 2 ^ 256 /\
    ks_priv dd = dd /\ ks_addr dd = ID.eth_addr kk (pub dd) /\ recover_addr dd = ID.eth_addr kk (pub dd) /\
    HS.addr_of_pid oo = pres_of (ID.node_peer_addr_now kk pub compress decompress ks_priv dd) /\
    HS.verify oo [1] (HS.role_string 2 ++ [5]) = HS.VOk true (recover_addr dd) /\
    HS.addr_of_pid oo = HS.POk (recover_addr dd).
  Proof.
    split; [intros P; cbn [length compress]; rewrite be_length; reflexivity|].
    split.
    { intros d0. unfold decompress, compress, pub. cbn [tl fst]. rewrite unbe_be_mod.
      replace (256 ^ N.of_nat 32) with (2 ^ 256) by reflexivity.
      rewrite !N.mod_mod by (apply N.pow_nonzero; lia). reflexivity. }
    split; [reflexivity|]. split; [reflexivity|]. split; [reflexivity|]. split; [reflexivity|].
    split; [reflexivity|]. split; [reflexivity|]. vm_compute. reflexivity.
  Qed.
End HonestExample.

(* ================================================================================================== *)
(* 3. C04 o C17: refused handshakes and the blocklist                                                   *)
(* ================================================================================================== *)
Open Scope Z_scope.

(* blockPeer(remote, d, reason) at time t for every EBlock d among the effects of one handleConnectReq /
   Connect (the blocked peer is the remote of the failed handshake: Blocklist_proofs.inbound_blocks_remote /
   outbound_blocks_remote) *)
Definition block_events (p : BL.pid) (t : Z) (effs : list HS.effect) : list BL.event :=
  flat_map (fun e => match e with HS.EBlock dur => [BL.Block p dur t] | _ => [] end) effs.

(* the two models of the same switch statements agree: Handshake.v reads the durations by position
   (c04_* anchors), Blocklist.v looks them up by the name of the error (c17_* anchors) *)
Definition refusal_of (f : BL.hs_failure) : HS.refusal :=
  match f with BL.SigFailed => HS.RSig | BL.AddrMismatch => HS.RAddr | BL.LowStake => HS.RStake end.

Theorem durations_agree f has_notifier add :
  exists dur,
    BL.inbound_block_duration f = Some dur /\
    HS.handle_connect_req has_notifier add (HS.Refuse (refusal_of f)) = [HS.EResetStream; HS.EClosePeer; HS.EBlock dur] /\
  exists dur',
    BL.outbound_block_duration f = Some dur' /\
    HS.connect add (HS.Refuse (refusal_of f)) = [HS.EClosePeer; HS.EBlock dur'; HS.EReturnErr (refusal_of f)].
Proof. destruct f; eexists; (split; [reflexivity|]); (split; [reflexivity|]); eexists; split; reflexivity. Qed.

(* which transcripts are refused for a bad signature / an address mismatch / insufficient stake *)
Lemma handle_refuses_bad_signature c o wfail f1 rest role token sig :
  HS.as_req f1 = Some (role, token, sig) ->
  (forall a, HS.verify o sig (role ++ token) <> HS.VOk true a) ->
  HS.res (HS.handle c o wfail (f1 :: rest)) = HS.Refuse HS.RSig.
Proof.
  intros Hf Hv. unfold HS.handle. rewrite Hf. unfold HS.verify_req, HS.signed_data.
  destruct (HS.verify o sig (role ++ token)) as [|[|] a]; try reflexivity. exfalso. apply (Hv a). reflexivity.
Qed.

Lemma handle_refuses_address_mismatch c o wfail f1 rest role token sig a observed :
  HS.as_req f1 = Some (role, token, sig) ->
  HS.verify o sig (role ++ token) = HS.VOk true a -> HS.addr_of_pid o = HS.POk observed -> observed <> a ->
  HS.res (HS.handle c o wfail (f1 :: rest)) = HS.Refuse HS.RAddr.
Proof.
  intros Hf Hv Hp Hne. unfold HS.handle. rewrite Hf. unfold HS.verify_req, HS.signed_data. rewrite Hv, Hp.
  apply bytes_eqb_neq in Hne. rewrite Hne. reflexivity.
Qed.

Lemma handle_refuses_unstaked_provider c o wfail f1 rest token sig a :
  HS.as_req f1 = Some (HS.provider_string, token, sig) ->
  HS.verify o sig (HS.provider_string ++ token) = HS.VOk true a -> HS.addr_of_pid o = HS.POk a ->
  HS.registered o a = false ->
  HS.res (HS.handle c o wfail (f1 :: rest)) = HS.Refuse HS.RStake.
Proof.
  intros Hf Hv Hp Hr. unfold HS.handle. rewrite Hf. unfold HS.verify_req, HS.signed_data.
  rewrite Hv, Hp, !bytes_eqb_refl, Hr. reflexivity.
Qed.

Lemma block_events_inbound p t0 has_notifier add cl :
  block_events p t0 (HS.handle_connect_req has_notifier add (HS.Refuse cl)) =
  match cl with
  | HS.RSig | HS.RAddr => [BL.Block p 0 t0]
  | HS.RStake => [BL.Block p 120000000000 t0]
  | _ => []
  end.
Proof. destruct cl; reflexivity. Qed.

Lemma block_events_outbound p t0 add cl :
  block_events p t0 (HS.connect add (HS.Refuse cl)) =
  match cl with
  | HS.RSig | HS.RAddr => [BL.Block p 0 t0]
  | HS.RStake => [BL.Block p 300000000000 t0]
  | _ => []
  end.
Proof. destruct cl; reflexivity. Qed.

Section Blocking.
  Variable c : HS.config.
  Variable o : HS.oracles.
  Variable wfail : nat -> bool.
  Variable script : list HS.frame.
  Variable p : BL.pid.          (* the remote peer id of the connection the handshake ran on *)
  Variable t0 : Z.              (* the time of the refusal *)
  Variables pre post : list BL.event.   (* whatever the blocklist saw before and sees afterwards *)

  (* Inbound.  After handleConnectReq refused a handshake for a bad signature or an address mismatch, the
     peer is blocked at every time, whatever else happens to the list (re-blocks of any duration, queries at
     any times, other peers), and the gater of the node as wired by libp2p.New refuses to dial it and
     refuses its secured connections. *)
  Theorem inbound_identity_failure_blocks_for_ever has_notifier add cl :
    HS.res (HS.handle c o wfail script) = HS.Refuse cl -> cl = HS.RSig \/ cl = HS.RAddr ->
    let evs := pre ++ block_events p t0 (HS.inbound c o wfail script has_notifier add) ++ post in
    forall t,
      BL.query_answer BL.wiring_now evs p t = true /\
      BL.dial_answer BL.wiring_now evs p t = false /\
      BL.secured_answer BL.wiring_now evs p t = false.
  Proof.
    intros Hr Hcl evs t. subst evs. unfold HS.inbound. rewrite Hr, block_events_inbound.
    assert (E : (match cl with
                 | HS.RSig | HS.RAddr => [BL.Block p 0 t0]
                 | HS.RStake => [BL.Block p 120000000000 t0]
                 | _ => []
                 end) = [BL.Block p 0 t0]) by (destruct Hcl as [-> | ->]; reflexivity).
    rewrite E. cbn [app].
    pose proof (BLP.permanent_holds BL.wiring_now pre post p t0 t) as Hq.
    destruct (BLP.gater_answers BL.wiring_now (pre ++ BL.Block p 0 t0 :: post) p t BLP.wiring_now_wired) as [Hd Hs].
    rewrite Hd, Hs, Hq. repeat split.
  Qed.

  (* Outbound: the same after Connect got such a refusal. *)
  Theorem outbound_identity_failure_blocks_for_ever add cl :
    HS.res (HS.handshake c o wfail script) = HS.Refuse cl -> cl = HS.RSig \/ cl = HS.RAddr ->
    let evs := pre ++ block_events p t0 (HS.outbound c o wfail script add) ++ post in
    forall t,
      BL.query_answer BL.wiring_now evs p t = true /\
      BL.dial_answer BL.wiring_now evs p t = false /\
      BL.secured_answer BL.wiring_now evs p t = false.
  Proof.
    intros Hr Hcl evs t. subst evs. unfold HS.outbound. rewrite Hr, block_events_outbound.
    assert (E : (match cl with
                 | HS.RSig | HS.RAddr => [BL.Block p 0 t0]
                 | HS.RStake => [BL.Block p 300000000000 t0]
                 | _ => []
                 end) = [BL.Block p 0 t0]) by (destruct Hcl as [-> | ->]; reflexivity).
    rewrite E. cbn [app].
    pose proof (BLP.permanent_holds BL.wiring_now pre post p t0 t) as Hq.
    destruct (BLP.gater_answers BL.wiring_now (pre ++ BL.Block p 0 t0 :: post) p t BLP.wiring_now_wired) as [Hd Hs].
    rewrite Hd, Hs, Hq. repeat split.
  Qed.

  (* Insufficient stake: the block holds for the full 2 minutes (inbound) / 5 minutes (outbound), whatever
     precedes it and whatever follows it up to the time of the question. *)
  Theorem inbound_stake_failure_blocks_full_term has_notifier add :
    HS.res (HS.handle c o wfail script) = HS.Refuse HS.RStake ->
    let evs := pre ++ block_events p t0 (HS.inbound c o wfail script has_notifier add) ++ post in
    forall t, Forall (fun e => BL.time_of e <= t) post -> t <= t0 + 120000000000 ->
      BL.query_answer BL.wiring_now evs p t = true /\
      BL.dial_answer BL.wiring_now evs p t = false /\
      BL.secured_answer BL.wiring_now evs p t = false.
  Proof.
    intros Hr evs t HF Ht. subst evs. unfold HS.inbound. rewrite Hr, block_events_inbound. cbn [app].
    pose proof (BLP.timed_full_term BL.wiring_now pre post p _ t0 t HF Ht) as Hq.
    destruct (BLP.gater_answers BL.wiring_now (pre ++ BL.Block p 120000000000 t0 :: post) p t BLP.wiring_now_wired) as [Hd Hs].
    rewrite Hd, Hs, Hq. repeat split.
  Qed.

  Theorem outbound_stake_failure_blocks_full_term add :
    HS.res (HS.handshake c o wfail script) = HS.Refuse HS.RStake ->
    let evs := pre ++ block_events p t0 (HS.outbound c o wfail script add) ++ post in
    forall t, Forall (fun e => BL.time_of e <= t) post -> t <= t0 + 300000000000 ->
      BL.query_answer BL.wiring_now evs p t = true /\
      BL.dial_answer BL.wiring_now evs p t = false /\
      BL.secured_answer BL.wiring_now evs p t = false.
  Proof.
    intros Hr evs t HF Ht. subst evs. unfold HS.outbound. rewrite Hr, block_events_outbound. cbn [app].
    pose proof (BLP.timed_full_term BL.wiring_now pre post p _ t0 t HF Ht) as Hq.
    destruct (BLP.gater_answers BL.wiring_now (pre ++ BL.Block p 300000000000 t0 :: post) p t BLP.wiring_now_wired) as [Hd Hs].
    rewrite Hd, Hs, Hq. repeat split.
  Qed.

  (* Every other outcome of a handshake (enrolment; refusal for a failed read or write, an unusable peer
     id, a wrong echo) places no block at all. *)
  Theorem other_outcomes_do_not_block has_notifier add :
    (forall cl, HS.res (HS.handle c o wfail script) = HS.Refuse cl -> cl <> HS.RSig /\ cl <> HS.RAddr /\ cl <> HS.RStake) ->
    block_events p t0 (HS.inbound c o wfail script has_notifier add) = [].
  Proof.
    intros H. unfold HS.inbound. destruct (HS.res (HS.handle c o wfail script)) as [a t|cl] eqn:R.
    - cbn. destruct add; [destruct has_notifier|]; reflexivity.
    - rewrite block_events_inbound. destruct (H cl eq_refl) as (N1 & N2 & N3). destruct cl; congruence.
  Qed.
End Blocking.

(* non-vacuity: a request whose signature does not verify, then anything *)
Section BlockingExample.
  Let cfg : HS.config := {| HS.own_type := 2; HS.own_token := [5]%N; HS.own_addr := [9; 9]%N; HS.own_sig := [8]%N |}.
  Let bad : HS.oracles :=
    {| HS.verify := fun _ _ => HS.VErr; HS.addr_of_pid := HS.POk [1]%N; HS.registered := fun _ => true |}.
  Let mismatch : HS.oracles :=
    {| HS.verify := fun _ _ => HS.VOk true [2]%N; HS.addr_of_pid := HS.POk [1]%N; HS.registered := fun _ => true |}.
  Let unstaked : HS.oracles :=
    {| HS.verify := fun _ _ => HS.VOk true [1]%N; HS.addr_of_pid := HS.POk [1]%N; HS.registered := fun _ => false |}.
  Let req : HS.frame := {| HS.as_req := Some (HS.provider_string, [5]%N, [7]%N); HS.as_resp := None |}.
  Example ex_refusals :
    HS.res (HS.handle cfg bad (fun _ => false) [req]) = HS.Refuse HS.RSig /\
    HS.res (HS.handle cfg mismatch (fun _ => false) [req]) = HS.Refuse HS.RAddr /\
    HS.res (HS.handle cfg unstaked (fun _ => false) [req]) = HS.Refuse HS.RStake.
  Proof. repeat split; vm_compute; reflexivity. Qed.
  Example ex_blocked_later :
    BL.query_answer BL.wiring_now
      ([BL.Block 7%N 5 1] ++ block_events 7%N 10 (HS.inbound cfg bad (fun _ => false) [req] true HS.Added) ++
       [BL.Block 7%N 5 20; BL.Query 7%N 1000]) 7%N 100000 = true.
  Proof. vm_compute. reflexivity. Qed.
End BlockingExample.

(* from the inputs of the handshake to the blocklist, in one statement each *)
Theorem bad_signature_blocked_for_ever c o wfail f1 rest role token sig p t0 pre post has_notifier add :
  HS.as_req f1 = Some (role, token, sig) ->
  (forall a, HS.verify o sig (role ++ token) <> HS.VOk true a) ->
  let effs := HS.inbound c o wfail (f1 :: rest) has_notifier add in
  In HS.EClosePeer effs /\ (forall e, In e effs -> HS.announces e = false) /\
  forall t,
    BL.query_answer BL.wiring_now (pre ++ block_events p t0 effs ++ post) p t = true /\
    BL.dial_answer BL.wiring_now (pre ++ block_events p t0 effs ++ post) p t = false /\
    BL.secured_answer BL.wiring_now (pre ++ block_events p t0 effs ++ post) p t = false.
Proof.
  intros Hf Hv effs.
  pose proof (handle_refuses_bad_signature c o wfail f1 rest role token sig Hf Hv) as Hr.
  split; [|split].
  - subst effs. unfold HS.inbound. rewrite Hr. right. left. reflexivity.
  - subst effs. unfold HS.inbound. rewrite Hr. intros e He. cbn in He.
    destruct He as [<-|[<-|[<-|[]]]]; reflexivity.
  - exact (inbound_identity_failure_blocks_for_ever c o wfail (f1 :: rest) p t0 pre post has_notifier add
             HS.RSig Hr (or_introl eq_refl)).
Qed.

Theorem address_mismatch_blocked_for_ever c o wfail f1 rest role token sig a observed p t0 pre post has_notifier add :
  HS.as_req f1 = Some (role, token, sig) ->
  HS.verify o sig (role ++ token) = HS.VOk true a -> HS.addr_of_pid o = HS.POk observed -> observed <> a ->
  let effs := HS.inbound c o wfail (f1 :: rest) has_notifier add in
  In HS.EClosePeer effs /\ (forall e, In e effs -> HS.announces e = false) /\
  forall t,
    BL.query_answer BL.wiring_now (pre ++ block_events p t0 effs ++ post) p t = true /\
    BL.dial_answer BL.wiring_now (pre ++ block_events p t0 effs ++ post) p t = false /\
    BL.secured_answer BL.wiring_now (pre ++ block_events p t0 effs ++ post) p t = false.
Proof.
  intros Hf Hv Hp Hne effs.
  pose proof (handle_refuses_address_mismatch c o wfail f1 rest role token sig a observed Hf Hv Hp Hne) as Hr.
  split; [|split].
  - subst effs. unfold HS.inbound. rewrite Hr. right. left. reflexivity.
  - subst effs. unfold HS.inbound. rewrite Hr. intros e He. cbn in He.
    destruct He as [<-|[<-|[<-|[]]]]; reflexivity.
  - exact (inbound_identity_failure_blocks_for_ever c o wfail (f1 :: rest) p t0 pre post has_notifier add
             HS.RAddr Hr (or_intror eq_refl)).
Qed.

(* ================================================================================================== *)
(* 4. C04 o C14: the outcome of peers.addPeer, an oracle value in model/Handshake.v, is what the       *)
(*    registry model answers.  The two models of the tail of handleConnectReq (Handshake.              *)
(*    handle_connect_req, PeerRegistry.inbound_announces) agree.                                        *)
(* ================================================================================================== *)
Open Scope N_scope.

Definition add_of (r : PR.reg) (c : PR.conn) (pe : PR.peer) (closed : bool) : HS.add_res :=
  if PR.enrol_result r c pe closed then HS.NotAdded else HS.Added.

Theorem announce_models_agree r c pe closed A T :
  In (HS.ENotify A T) (HS.handle_connect_req true (add_of r c pe closed) (HS.Enrol A T)) <->
  PR.inbound_announces r c pe closed = true.
Proof.
  unfold add_of, PR.enrol_result, PR.inbound_announces, PR.inbound_announces_with.
  replace Generated.c14_inbound_announces with true by reflexivity. cbn [andb].
  destruct (snd (PR.add_peer r c pe closed)); cbn.
  - split; [intros [H|[]]; discriminate|discriminate].
  - split; [reflexivity|]. intros _. right. left. reflexivity.
Qed.

(* Hence, for a registry state reached by a history of handshake enrolments: notifier.Connected is called
   for an enrolled peer exactly when this very call created its registry entry -- not registered before,
   registered afterwards -- and then the two effects are [Register; Notify] in that order. *)
Theorem notify_iff_registry_registered_now evs c pe closed A T :
  PR.wf (evs ++ [PR.Enrol c pe closed]) ->
  let effs := HS.handle_connect_req true (add_of (PR.run evs) c pe closed) (HS.Enrol A T) in
  (In (HS.ENotify A T) effs <->
   PR.registered (PR.run evs) (PR.remote c) = false /\
   PR.registered (PR.run (evs ++ [PR.Enrol c pe closed])) (PR.remote c) = true) /\
  (In (HS.ENotify A T) effs -> effs = [HS.ERegister A T; HS.ENotify A T] /\ closed = false).
Proof.
  intros W effs. split.
  - subst effs. rewrite announce_models_agree. apply PRP.announce_iff, W.
  - intros Hin. pose proof Hin as Hin'. subst effs. apply announce_models_agree in Hin'.
    destruct (PRP.announce_details evs c pe closed W Hin') as (Hc & _). split; [|exact Hc].
    unfold add_of in *. destruct (PR.enrol_result (PR.run evs) c pe closed); [|reflexivity].
    cbn in Hin. destruct Hin as [H|[]]. discriminate.
Qed.

Example ex_notify :
  HS.handle_connect_req true (add_of (PR.run []) (1, 0) {| PR.p_addr := 7; PR.p_role := 1 |} false) (HS.Enrol [7] 1)
  = [HS.ERegister [7] 1; HS.ENotify [7] 1] /\
  HS.handle_connect_req true (add_of (PR.run []) (1, 0) {| PR.p_addr := 7; PR.p_role := 1 |} true) (HS.Enrol [7] 1)
  = [HS.EResetStream].
Proof. split; vm_compute; reflexivity. Qed.
