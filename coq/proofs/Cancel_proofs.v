(* Proofs about model/Cancel.v (property C10). *)
From Coq Require Import String List NArith ZArith Lia Bool.
From MevVerif Require Import lib.Bytes gen.Generated model.Cancel check.Check_C10.
Import ListNotations.
Open Scope Z_scope.

(* the literals regenerated from CancelTx are the ones the property names *)
Lemma cancel_literals :
  bump_num = 110 /\ bump_den = 100 /\ cancel_value = 0 /\ cancel_gas = 21000.
Proof. repeat split; reflexivity. Qed.

Lemma cancel_newint_table : c10_cancel_newint = [110; 100; 0].
Proof. reflexivity. Qed.

(* Everything about a replacement that reaches the node. *)
Lemma shape c l tip price s b t acc :
  cancel c l tip price s b = CSubmit t acc ->
  exists o sug,
    l = LFound (Some o) true /\ tip = TipOk sug /\ s = true /\ acc = b /\
    x_nonce t = o_nonce o /\ x_chain t = chain c /\ x_to t = owner c /\
    x_value t = 0 /\ x_data t = [] /\ x_gas t = 21000 /\
    x_tip t = (Z.max (o_tip o) sug * 110) / 100 /\
    x_fee t = Z.max (o_price o) (o_fee o) + x_tip t.
Proof.
  unfold cancel. destruct l as [nf|[o|] [|]]; try discriminate.
  unfold suggest. destruct tip as [|sug]; try discriminate.
  destruct s; cbn [negb]; try discriminate.
  intros [= <- <-]. exists o, sug. cbn [x_nonce x_chain x_to x_value x_data x_gas x_tip x_fee].
  destruct cancel_literals as (-> & -> & -> & ->).
  repeat split.
  - destruct (sug <=? o_tip o) eqn:E; f_equal; f_equal; lia.
  - destruct (o_price o <=? o_fee o) eqn:E1; destruct (sug <=? o_tip o) eqn:E2; f_equal; try lia;
      f_equal; f_equal; lia.
Qed.

(* the two "at least" clauses of the property *)
Lemma outbids c l tip price s b t acc o sug :
  cancel c l tip price s b = CSubmit t acc -> l = LFound (Some o) true -> tip = TipOk sug ->
  x_tip t >= (o_tip o * 110) / 100 /\ x_tip t >= (sug * 110) / 100 /\
  x_fee t >= o_fee o + x_tip t /\
  (0 <= o_tip o -> x_tip t >= o_tip o) /\ (0 <= sug -> x_tip t >= sug).
Proof.
  intros H Hl Ht. destruct (shape _ _ _ _ _ _ _ _ H) as (o' & sug' & Hl' & Ht' & _ & _ & _ & _ & _ & _ & _ & _ & Htip & Hfee).
  rewrite Hl in Hl'. injection Hl' as <-. rewrite Ht in Ht'. injection Ht' as <-.
  rewrite Hfee, Htip.
  assert (M1 : (o_tip o * 110) / 100 <= (Z.max (o_tip o) sug * 110) / 100).
  { apply Z.div_le_mono; lia. }
  assert (M2 : (sug * 110) / 100 <= (Z.max (o_tip o) sug * 110) / 100).
  { apply Z.div_le_mono; lia. }
  assert (M3 : forall v, 0 <= v -> v <= (v * 110) / 100).
  { intros v Hv. apply Z.div_le_lower_bound; lia. }
  repeat split; try lia.
  - intros Hp. specialize (M3 _ Hp). lia.
  - intros Hp. specialize (M3 _ Hp). lia.
Qed.

(* for transactions as go-ethereum presents them (GasPrice() = GasFeeCap() for every type) the fee
   cap is exactly original fee cap + new tip *)
Lemma fee_exact c o tip price s b t acc :
  o_price o = o_fee o ->
  cancel c (LFound (Some o) true) tip price s b = CSubmit t acc ->
  x_fee t = o_fee o + x_tip t.
Proof.
  intros Hp H. destruct (shape _ _ _ _ _ _ _ _ H) as (o' & sug' & Hl' & _ & _ & _ & _ & _ & _ & _ & _ & _ & _ & Hfee).
  injection Hl' as <-. rewrite Hfee, Hp. lia.
Qed.

(* Refusals: nothing reaches the node and an error is returned. *)
Lemma refuse c l tip price s b :
  (forall o, l <> LFound (Some o) true) \/ tip = TipErr \/ s = false ->
  submitted (cancel c l tip price s b) = None /\ ret_ok (cancel c l tip price s b) = false.
Proof.
  intros H. unfold cancel. destruct l as [nf|[o|] [|]]; try (split; reflexivity).
  destruct H as [H|[->| ->]].
  - exfalso. exact (H o eq_refl).
  - split; reflexivity.
  - unfold suggest. destruct tip; split; reflexivity.
Qed.

(* unknown (lookup answers NotFound) and already-mined targets are refused with the NotFound error
   (an error return, not a crash) *)
Lemma refuse_unknown_or_mined c l tip price s b :
  l = LErr true \/ (exists t, l = LFound t false) ->
  submitted (cancel c l tip price s b) = None /\ ret_ok (cancel c l tip price s b) = false /\
  ret_notfound (cancel c l tip price s b) = true /\ cancel c l tip price s b <> CPanic.
Proof.
  intros [->|[t ->]]; unfold cancel; [repeat split; discriminate|]. destruct t; repeat split; discriminate.
Qed.

(* the only crash: a lookup answering "no error, pending, nil transaction" *)
Lemma panic_iff c l tip price s b :
  cancel c l tip price s b = CPanic <-> l = LFound None true.
Proof.
  split.
  - unfold cancel. destruct l as [nf|[o|] [|]]; try discriminate; [|reflexivity].
    destruct (suggest (Some (o_price o)) tip price) as [[f t]|]; [|discriminate].
    destruct s; discriminate.
  - intros ->. reflexivity.
Qed.

(* chain id: the replacement carries the client's chain id.  For an original signed for chain [oc]: equal
   to the original's exactly when the original was signed for the client's chain (every transaction this
   client sends is: newTx and CancelTx both put c.chainID); for a foreign-chain original the replacement
   does NOT reuse the original's chain id. *)
Lemma chain_id c l tip price s b t acc (oc : Z) :
  cancel c l tip price s b = CSubmit t acc ->
  x_chain t = chain c /\ (oc = chain c -> x_chain t = oc) /\ (oc <> chain c -> x_chain t <> oc).
Proof.
  intros H. destruct (shape _ _ _ _ _ _ _ _ H) as (_ & _ & _ & _ & _ & _ & _ & Hc & _).
  rewrite Hc. repeat split; congruence.
Qed.

(* target identity: CancelTx has no test that the looked-up transaction was sent by this client or from
   its account: ANY pending transaction the node returns (any nonce, any sender) gets a replacement with
   that nonce, signed by this client (it replaces the target only if the target is the owner's). *)
Lemma any_pending_target c o sug price b :
  exists t, cancel c (LFound (Some o) true) (TipOk sug) price true b = CSubmit t b /\ x_nonce t = o_nonce o.
Proof. unfold cancel, suggest. cbn [negb]. eexists. split; reflexivity. Qed.

(* CancelTx runs under the same client mutex as Send (regenerated from evmclient.go on every run) *)
Lemma cancel_serialised_now : c10_cancel_locks = true /\ c10_cancel_unlocks = true.
Proof. split; reflexivity. Qed.

Lemma cancel_lock_first_now :
  c10_cancel_top_stmts = [bos "c.mtx.Lock()"; bos "defer c.mtx.Unlock()"] /\ c10_cancel_defers = [bos "c.mtx.Unlock()"].
Proof. split; vm_compute; reflexivity. Qed.

(* an error is returned unless the node took the replacement *)
Lemma ok_only_if_accepted c l tip price s b :
  ret_ok (cancel c l tip price s b) = true -> b = true /\ exists t, cancel c l tip price s b = CSubmit t true.
Proof.
  destruct (cancel c l tip price s b) as [r|t acc|] eqn:E; cbn [ret_ok]; try discriminate.
  destruct acc; try discriminate. intros _.
  destruct (shape _ _ _ _ _ _ _ _ E) as (_ & _ & _ & _ & _ & Hb & _). split; [congruence|eauto].
Qed.

(* non-vacuity: a legacy original (price 10) with suggested tip 11 -> tip 12, fee 22 *)
Definition ex_client : client := {| owner := [1; 2; 3]%N; chain := 31337 |}.
Definition ex_orig : orig := {| o_nonce := 7; o_price := 10; o_fee := 10; o_tip := 10 |}.
Example example_cancel :
  cancel ex_client (LFound (Some ex_orig) true) (TipOk 11) PriceErr true true =
  CSubmit {| x_nonce := 7; x_chain := 31337; x_to := [1; 2; 3]%N; x_value := 0; x_data := [];
             x_gas := 21000; x_tip := 12; x_fee := 22 |} true.
Proof. vm_compute. reflexivity. Qed.

(* values beyond 64 bits; rounding down: 9 * 110 / 100 = 9 *)
Example example_big :
  submitted (cancel ex_client (LFound (Some {| o_nonce := 0; o_price := 2 ^ 200; o_fee := 2 ^ 200; o_tip := 9 |}) true)
                    (TipOk 1) PriceErr true false) =
  Some {| x_nonce := 0; x_chain := 31337; x_to := [1; 2; 3]%N; x_value := 0; x_data := [];
          x_gas := 21000; x_tip := 9; x_fee := 2 ^ 200 + 9 |}.
Proof. vm_compute. reflexivity. Qed.

Example example_refusals :
  cancel ex_client (LErr true) (TipOk 1) PriceErr true true = CRefuse (RLookup true) /\
  cancel ex_client (LFound (Some ex_orig) false) (TipOk 1) PriceErr true true = CRefuse RNotPending /\
  cancel ex_client (LFound (Some ex_orig) true) TipErr PriceErr true true = CRefuse RSuggest /\
  cancel ex_client (LFound (Some ex_orig) true) (TipOk 1) PriceErr false true = CRefuse RSign.
Proof. repeat split. Qed.


(* Source shape of CancelTx that [cancel] rests on, regenerated from evmclient.go on every run (source
   text, white space normalised): the replacement literal field by field (Nonce, ChainID, To, Value, Gas,
   fee fields, Data BY NAME -- not by position of a literal), the two assignments of gasTipCap (original's
   tip, then the 110/100 bump), the fee cap taken from the original and raised by gasFeeCap.Add(gasFeeCap,
   gasTipCap), the price handed to the suggestion, what is signed and submitted; exactly one Lock and one
   Unlock call; and CancelTx consults neither the original's chain id nor its type (txn.ChainId / txn.Type
   are not called), so [orig] needs no such fields.
   Lock first / Unlock deferred: [cancel_lock_first_now].  Not pinned: statement order further down. *)
Lemma cancel_source_shape_now :
  c10_cancel_tx_src =
    [bos "types.NewTx(&types.DynamicFeeTx{ Nonce: txn.Nonce(), ChainID: c.chainID, To: &c.owner, Value: big.NewInt(0), Gas: 21000, GasFeeCap: gasFeeCap, GasTipCap: gasTipCap, Data: []byte{}, })"] /\
  c10_cancel_tip_src =
    [bos "txn.GasTipCap()"; bos "new(big.Int).Div(new(big.Int).Mul(gasTipCap, big.NewInt(110)), big.NewInt(100))"] /\
  c10_cancel_fee_src = [bos "txn.GasFeeCap()"] /\
  c10_cancel_fee_add = [[bos "gasFeeCap"; bos "gasTipCap"]] /\
  c10_cancel_suggest_args = [[bos "ctx"; bos "txn.GasPrice()"]] /\
  c10_cancel_sign_args = [[bos "tx"; bos "c.chainID"]] /\
  c10_cancel_submit_args = [[bos "ctx"; bos "signedTx"]] /\
  c10_cancel_lock_calls = [[]] /\ c10_cancel_unlock_calls = [[]] /\
  c10_cancel_reads_chain = false /\ c10_cancel_reads_type = false.
Proof. repeat split; vm_compute; reflexivity. Qed.

Lemma cancel_ints_table : c10_cancel_ints = [0; 0; 110; 100; 0; 21000].
Proof. reflexivity. Qed.

(* the boolean checker of check/Check_C10.v never fires on the model's own prediction, and the
   model agrees with itself *)
Definition obs_of (r : cresult) : obs :=
  {| b_sub := submitted r; b_acc := ret_ok r; b_ok := ret_ok r; b_notfound := ret_notfound r;
     b_panic := match r with CPanic => true | _ => false end |}.

Lemma bytes_eqb_refl_local (a : bytes) : bytes_eqb a a = true.
Proof. induction a as [|x a IH]; [reflexivity|]. cbn [bytes_eqb]. rewrite N.eqb_refl, IH. reflexivity. Qed.

Lemma checker_silent_on_model n c l tip price s b :
  violation {| id := n; cl := c; lk := l; tp := tip; pr := price; sg := s; sb := b;
               ob := obs_of (cancel c l tip price s b) |} = None.
Proof.
  unfold violation. cbn [ob lk tp cl]. destruct (cancel c l tip price s b) as [r|t acc|] eqn:E;
    cbn [obs_of b_sub b_ok b_acc submitted ret_ok]; try reflexivity.
  destruct (shape _ _ _ _ _ _ _ _ E) as (o & sug & -> & -> & _ & _ & Hn & Hc & Hto & Hv & Hd & Hg & Htip & Hfee).
  rewrite Hn, Hc, Hto, Hv, Hd, Hg, !Z.eqb_refl, !bytes_eqb_refl_local. cbn [negb bytes_eqb].
  replace ((Z.max (o_tip o) sug * 110) / 100 <=? x_tip t) with true by (symmetry; apply Z.leb_le; lia).
  replace (o_fee o + x_tip t <=? x_fee t) with true by (symmetry; apply Z.leb_le; lia).
  cbn [negb]. destruct acc; reflexivity.
Qed.

(* ---- the fee kernel of the model is the translation of the Go source --------------------------------
   [c10_cancel_caps_fn] (gen/Generated.v) is produced on every run by the translator of harness/extract
   from the statements of CancelTx between the first cap comparison and gasFeeCap.Add: it is not written
   by hand.  Arguments: the two suggested caps and the two caps of the original; result (tip, fee). *)

(* the hand-written kernel, as it stands inside [cancel] *)
Definition cancel_caps (fee0 tip0 ofee otip : Z) : Z * Z :=
  let fee1 := if fee0 <=? ofee then ofee else fee0 in
  let tip1 := if tip0 <=? otip then otip else tip0 in
  let tip2 := (tip1 * bump_num) / bump_den in
  (tip2, fee1 + tip2).

Lemma caps_translation fee0 tip0 ofee otip :
  c10_cancel_caps_fn fee0 tip0 ofee otip = cancel_caps fee0 tip0 ofee otip.
Proof.
  unfold c10_cancel_caps_fn, cancel_caps.
  destruct cancel_literals as (-> & -> & _). cbv zeta.
  (* by the meaning of the comparisons, not by their spelling: a strict comparison in the source
     selects the same values and is accepted *)
  repeat match goal with
         | |- context [Z.leb ?a ?b] => destruct (Z.leb_spec a b)
         | |- context [Z.ltb ?a ?b] => destruct (Z.ltb_spec a b)
         end;
  try (assert (fee0 = ofee) by lia; subst fee0);
  try (assert (tip0 = otip) by lia; subst tip0);
  try reflexivity; exfalso; lia.
Qed.

(* whenever the model submits a replacement, its two caps are the translated source applied to the
   price and caps of the original and the node's tip suggestion; nothing else of the run matters *)
Lemma model_caps_are_translation c o tip price s b t acc sug :
  cancel c (LFound (Some o) true) tip price s b = CSubmit t acc ->
  tip = TipOk sug ->
  (x_tip t, x_fee t) = c10_cancel_caps_fn (o_price o) sug (o_fee o) (o_tip o).
Proof.
  intros H ->. rewrite caps_translation. unfold cancel, suggest in H.
  destruct s; simpl in H; inversion H; subst; reflexivity.
Qed.

(* and a replacement is only ever submitted after a tip suggestion *)
Lemma model_submit_has_suggestion c l tip price s b t acc :
  cancel c l tip price s b = CSubmit t acc ->
  exists o sug, l = LFound (Some o) true /\ tip = TipOk sug.
Proof.
  unfold cancel, suggest. intros H.
  destruct l as [nf|[o|] [|]]; try discriminate.
  destruct tip as [|sug]; try discriminate.
  exists o, sug. split; reflexivity.
Qed.

Example example_caps_translation :
  c10_cancel_caps_fn 7 10 30 20 = (22, 52) /\ c10_cancel_caps_fn 100 40 30 20 = (44, 144) /\
  c10_cancel_caps_fn 0 (-3) (-5) (-9) = (-4, -4).
Proof. vm_compute. repeat split; reflexivity. Qed.

Lemma caps_translation_literal fee0 tip0 ofee otip :
  c10_cancel_caps_fn fee0 tip0 ofee otip =
  (let fee1 := if fee0 <=? ofee then ofee else fee0 in
   let tip1 := if tip0 <=? otip then otip else tip0 in
   let tip2 := (tip1 * 110) / 100 in
   (tip2, fee1 + tip2)).
Proof.
  rewrite caps_translation. unfold cancel_caps.
  destruct cancel_literals as (-> & -> & _). reflexivity.
Qed.

Lemma model_submit_is_translation c l tip price s b t acc :
  cancel c l tip price s b = CSubmit t acc ->
  exists o sug, l = LFound (Some o) true /\ tip = TipOk sug /\
    (x_tip t, x_fee t) = c10_cancel_caps_fn (o_price o) sug (o_fee o) (o_tip o).
Proof.
  intros H. destruct (model_submit_has_suggestion _ _ _ _ _ _ _ _ H) as (o & sug & -> & ->).
  exists o, sug. repeat split. eapply model_caps_are_translation; [exact H | reflexivity].
Qed.
