(* Proofs for model/BidderApi.v: the property theorems of C19, the facts tying the model to
   the constants extracted from service.go / node.go, and the proof that the property
   checker of check/Check_C19.v accepts every run of the model. *)
From Coq Require Import String List NArith ZArith Bool Arith Lia.
From MevVerif Require Import lib.Bytes gen.Generated proofs.Bytes_proofs model.Rules proofs.Rules_proofs
  model.BidderApi check.Check_C19.
Import ListNotations.
Open Scope N_scope.

(* ---------------------------------------------------------------------------------------- *)
(* Facts about the extracted source constants (break when service.go / node.go change)       *)
(* ---------------------------------------------------------------------------------------- *)

Definition sep_of (l : list bytes) : N := match l with [[c]] => c | _ => 0 end.
(* the literal second operands of strings.Join and strings.Split in SendBid are the model's
   separators *)
Lemma join_sep_source : sep_of c19_join_sep = join_sep.
Proof. reflexivity. Qed.
Lemma split_sep_source : sep_of c19_split_sep = split_sep.
Proof. reflexivity. Qed.
Lemma join_sep_comma : join_sep = 44.
Proof. reflexivity. Qed.
Lemma split_sep_comma : split_sep = 44.
Proof. reflexivity. Qed.
(* the values handed to the sender are, in this order, the joined hashes and the request's
   own amount, block number and decay timestamps *)
Lemma sender_call_wiring :
  c19_sender_args = [[bos "ctx"; bos "txnsStr"; bos "bid.Amount"; bos "bid.BlockNumber";
                      bos "bid.DecayStartTimestamp"; bos "bid.DecayEndTimestamp"]].
Proof. reflexivity. Qed.
Lemma validate_call_wiring : c19_validate_args = [[bos "bid"]].
Proof. reflexivity. Qed.
(* node.NewNode builds the validator with protovalidate.New() (no options) and passes it as
   the fourth constructor value of bidderapi.NewService, the preconfirmation protocol as sender *)
Lemma node_wiring :
  c19_node_validator_new = [[]] /\
  map (fun row => (nth 0 row [], nth 3 row [])) c19_node_bidderapi_args = [(bos "preconfProto", bos "validator")].
Proof. split; reflexivity. Qed.

(* which received field goes to which field of the streamed bidderapi.v1.Commitment: the
   composite literal handed to srv.Send, field by field (b := resp.Bid).  [commitment_of] in the
   model is this table: split of b.TxHash, b.BidAmount, b.BlockNumber, hex of b.Digest,
   b.Signature, resp.Digest, resp.Signature, resp.ProviderAddress, and b's decay timestamps. *)
Definition commitment_mapping : list (bytes * bytes) :=
  [ (bos "TxHashes", bos "strings.Split(b.TxHash, "","")");
    (bos "BidAmount", bos "b.BidAmount");
    (bos "BlockNumber", bos "b.BlockNumber");
    (bos "ReceivedBidDigest", bos "hex.EncodeToString(b.Digest)");
    (bos "ReceivedBidSignature", bos "hex.EncodeToString(b.Signature)");
    (bos "CommitmentDigest", bos "hex.EncodeToString(resp.Digest)");
    (bos "CommitmentSignature", bos "hex.EncodeToString(resp.Signature)");
    (bos "ProviderAddress", bos "common.Bytes2Hex(resp.ProviderAddress)");
    (bos "DecayStartTimestamp", bos "b.DecayStartTimestamp");
    (bos "DecayEndTimestamp", bos "b.DecayEndTimestamp") ].
Definition render_literal (m : list (bytes * bytes)) : bytes :=
  bos "&bidderapiv1.Commitment{ " ++
  concat (map (fun fe => fst fe ++ bos ": " ++ snd fe ++ bos ", ") m) ++ bos "}".
Lemma commitment_mapping_source : c19_commitment_literal = [[render_literal commitment_mapping]].
Proof. vm_compute. reflexivity. Qed.

(* ---------------------------------------------------------------------------------------- *)
(* Refusal and forwarding                                                                    *)
(* ---------------------------------------------------------------------------------------- *)

Definition refusal : run := {| res := RInvalidArgument; calls := []; streamed := [] |}.

Definition request_spec (r : request) : Prop :=
  bidder_bid_spec (r_txs r) (r_amount r) (r_bn r) (r_ds r) (r_de r).

Lemma validate_spec r : validate (Some r) = true <-> request_spec r.
Proof. apply bidder_bid_ok_spec. Qed.

Lemma send_bid_refused req ans fail_at : validate req = false -> send_bid req ans fail_at = refusal.
Proof.
  intros H. unfold send_bid. destruct req as [r|]; [|reflexivity]. rewrite H. reflexivity.
Qed.

Theorem nothing_before req ans fail_at :
  (req = None \/ exists r, req = Some r /\ ~ request_spec r) -> send_bid req ans fail_at = refusal.
Proof.
  intros [-> | [r [-> H]]]; apply send_bid_refused; [reflexivity|].
  apply not_true_iff_false. rewrite validate_spec. exact H.
Qed.

Lemma stream_loop_res cs : forall fail_at,
  fst (stream_loop cs fail_at) <> RInvalidArgument /\ fst (stream_loop cs fail_at) <> RInternal.
Proof.
  induction cs as [|[p|] rest IH]; intros fa; cbn [stream_loop fst]; try (split; discriminate).
  destruct (pc_bid p); [|split; discriminate].
  destruct fa as [[|k]|]; cbn [fst]; try (split; discriminate); apply IH.
Qed.

Lemma forward_verbatim r :
  forward r = {| f_txs := join 44 (r_txs r); f_amount := r_amount r; f_bn := r_bn r; f_ds := r_ds r; f_de := r_de r |}.
Proof. reflexivity. Qed.

Lemma hashes_split_join txs : hashes_spec txs -> split 44 (join 44 txs) = txs.
Proof.
  intros [Hne Hall]. apply split_join; [exact Hne|].
  rewrite Forall_forall in *. intros h Hh. apply hash64_ok_no_comma. apply hash64_ok_spec. auto.
Qed.

Theorem verbatim r ans fail_at :
  request_spec r ->
  calls (send_bid (Some r) ans fail_at) =
    [{| f_txs := join 44 (r_txs r); f_amount := r_amount r; f_bn := r_bn r; f_ds := r_ds r; f_de := r_de r |}] /\
  split 44 (join 44 (r_txs r)) = r_txs r /\
  res (send_bid (Some r) ans fail_at) <> RInvalidArgument.
Proof.
  intros H. pose proof H as Hv. apply validate_spec in Hv.
  unfold send_bid. rewrite Hv. cbn [negb]. split; [|split].
  - destruct ans; reflexivity.
  - apply hashes_split_join. apply H.
  - destruct ans as [|cs]; cbn [res]; [discriminate|]. apply stream_loop_res.
Qed.

(* the sender is called at most once, whatever happens *)
Lemma at_most_one_call req ans fail_at : (length (calls (send_bid req ans fail_at)) <= 1)%nat.
Proof.
  unfold send_bid. destruct req as [r|]; [|cbn; lia].
  destruct (negb (validate (Some r))); [cbn; lia|]. destruct ans; cbn; lia.
Qed.

(* ---------------------------------------------------------------------------------------- *)
(* Commitments streamed back                                                                 *)
(* ---------------------------------------------------------------------------------------- *)

(* [m] reproduces the received channel element: it is a commitment with its bid, and m is
   the comma-split transaction list, the same amount and numbers, lowercase hex of the five
   byte fields *)
Definition reproduces (received : option preconf) (m : commitment) : Prop :=
  exists p b, received = Some p /\ pc_bid p = Some b /\
    m = {| cm_txs := split 44 (pb_tx b); cm_amount := pb_amount b; cm_bn := pb_bn b;
           cm_bid_digest := hex (pb_digest b); cm_bid_sig := hex (pb_sig b);
           cm_digest := hex (pc_digest p); cm_sig := hex (pc_sig p); cm_prov := hex (pc_prov p);
           cm_ds := pb_ds b; cm_de := pb_de b |}.

(* a channel element that is not nil and carries its bid *)
Definition complete (received : option preconf) : Prop :=
  exists p b, received = Some p /\ pc_bid p = Some b.

Lemma stream_loop_prefix cs : forall fail_at,
  Forall2 reproduces (firstn (length (snd (stream_loop cs fail_at))) cs) (snd (stream_loop cs fail_at)).
Proof.
  induction cs as [|[p|] rest IH]; intros fa; cbn [stream_loop]; try (cbn; constructor).
  destruct (pc_bid p) as [b|] eqn:E; [|cbn; constructor].
  assert (R : reproduces (Some p) (commitment_of p b)) by (exists p, b; auto).
  destruct fa as [[|k]|]; cbn [snd fst length firstn].
  - constructor; [exact R | constructor].
  - constructor; [exact R | apply IH].
  - constructor; [exact R | apply IH].
Qed.

Lemma stream_loop_all cs : forall fail_at,
  fst (stream_loop cs fail_at) = RNil -> length (snd (stream_loop cs fail_at)) = length cs.
Proof.
  induction cs as [|[p|] rest IH]; intros fa; cbn [stream_loop]; try (cbn; auto; discriminate).
  destruct (pc_bid p) as [b|]; [|cbn; discriminate].
  destruct fa as [[|k]|]; cbn [snd fst length]; try discriminate; intros H; f_equal; apply IH; exact H.
Qed.

Lemma stream_loop_completes cs : Forall complete cs -> fst (stream_loop cs None) = RNil.
Proof.
  induction 1 as [|c rest [p [b [-> E]]] _ IH]; cbn [stream_loop]; [reflexivity|].
  rewrite E. cbn [fst pred_opt]. exact IH.
Qed.

Lemma stream_loop_no_panic cs : forall fail_at, Forall complete cs -> fst (stream_loop cs fail_at) <> RPanic.
Proof.
  intros fa H. revert fa. induction H as [|c rest [p [b [-> E]]] _ IH]; intros fa; cbn [stream_loop]; [discriminate|].
  rewrite E. destruct fa as [[|k]|]; cbn [fst]; try discriminate; apply IH.
Qed.

Lemma stream_loop_stream_error cs : fst (stream_loop cs None) <> RStreamErr.
Proof.
  induction cs as [|[p|] rest IH]; cbn [stream_loop]; try discriminate.
  destruct (pc_bid p); [|discriminate]. cbn [fst pred_opt]. exact IH.
Qed.

(* a failing stream send ends the call after that very message *)
Lemma stream_loop_bound cs : forall k, (length (snd (stream_loop cs (Some k))) <= S k)%nat.
Proof.
  induction cs as [|[p|] rest IH]; intros k; cbn [stream_loop]; try (cbn; lia).
  destruct (pc_bid p); [|cbn; lia].
  destruct k as [|k]; cbn [snd length pred_opt]; [lia|]. specialize (IH k). lia.
Qed.

(* no Send fails when the oracle never fails or its failing index lies beyond the list *)
Definition no_send_fails (fail_at : option nat) (n : nat) : Prop :=
  fail_at = None \/ exists k, fail_at = Some k /\ (n <= k)%nat.

Lemma stream_loop_completes_gen cs : forall fail_at,
  no_send_fails fail_at (length cs) -> Forall complete cs -> fst (stream_loop cs fail_at) = RNil.
Proof.
  intros fa Hn H. revert fa Hn.
  induction H as [|c rest [p [b [-> E]]] _ IH]; intros fa Hn; cbn [stream_loop]; [reflexivity|].
  rewrite E. destruct fa as [[|k]|]; cbn [fst pred_opt].
  - destruct Hn as [Hn | [k [Hk Hl]]]; [discriminate|]. inversion Hk; subst. cbn in Hl. lia.
  - apply IH. right. exists k. split; [reflexivity|].
    destruct Hn as [Hn | [k' [Hk Hl]]]; [discriminate|]. inversion Hk; subst. cbn in Hl. lia.
  - apply IH. left. reflexivity.
Qed.

(* the stream's own error is returned exactly for the Send that failed: it was the last message *)
Lemma stream_loop_stream_err cs : forall fail_at,
  fst (stream_loop cs fail_at) = RStreamErr ->
  exists k, fail_at = Some k /\ length (snd (stream_loop cs fail_at)) = S k.
Proof.
  induction cs as [|[p|] rest IH]; intros fa; cbn [stream_loop]; try (cbn; discriminate).
  destruct (pc_bid p) as [b|]; [|cbn; discriminate].
  destruct fa as [[|k]|]; cbn [fst snd length pred_opt].
  - intros _. exists 0%nat. auto.
  - intros H. destruct (IH _ H) as [k' [Hk Hl]]. inversion Hk; subst. exists (S k'). rewrite Hl. auto.
  - intros H. destruct (IH _ H) as [k' [Hk _]]. discriminate.
Qed.

Theorem commitment_stream r cs fail_at :
  request_spec r ->
  let m := send_bid (Some r) (SenderReturns cs) fail_at in
  Forall2 reproduces (firstn (length (streamed m)) cs) (streamed m) /\
  (res m = RNil -> length (streamed m) = length cs) /\
  ((fail_at = None \/ exists k, fail_at = Some k /\ (length cs <= k)%nat) -> Forall complete cs -> res m = RNil) /\
  (Forall complete cs -> res m <> RPanic) /\
  (res m = RStreamErr -> exists k, fail_at = Some k /\ length (streamed m) = S k).
Proof.
  intros H. apply validate_spec in H. unfold send_bid. rewrite H. cbn [negb res streamed].
  split; [apply stream_loop_prefix|]. split; [apply stream_loop_all|]. split; [|split].
  - apply stream_loop_completes_gen.
  - apply stream_loop_no_panic.
  - apply stream_loop_stream_err.
Qed.

Theorem sender_failure r fail_at :
  request_spec r ->
  send_bid (Some r) SenderFails fail_at = {| res := RInternal; calls := [forward r]; streamed := [] |}.
Proof. intros H. apply validate_spec in H. unfold send_bid. rewrite H. reflexivity. Qed.

(* ---- nothing is lost by the rendering --------------------------------------------------- *)

Lemma join_split sep l : join sep (split sep l) = l.
Proof.
  induction l as [|c r IH]; [reflexivity|].
  cbn [split]. pose proof (split_nonempty sep r) as Hne.
  destruct (N.eqb_spec c sep) as [->|Hc].
  - destruct (split sep r) as [|h t] eqn:E; [contradiction|].
    change (join sep ([] :: h :: t)) with ([] ++ sep :: join sep (h :: t)). rewrite IH. reflexivity.
  - destruct (split sep r) as [|h t] eqn:E; [contradiction|].
    destruct t as [|h2 t2].
    + cbn [join] in *. rewrite IH. reflexivity.
    + change (join sep ((c :: h) :: h2 :: t2)) with (c :: (h ++ sep :: join sep (h2 :: t2))).
      change (join sep (h :: h2 :: t2)) with (h ++ sep :: join sep (h2 :: t2)) in IH. rewrite IH. reflexivity.
Qed.

Theorem lossless p b m :
  reproduces (Some p) m -> pc_bid p = Some b ->
  wf_bytes (pb_digest b) -> wf_bytes (pb_sig b) ->
  wf_bytes (pc_digest p) -> wf_bytes (pc_sig p) -> wf_bytes (pc_prov p) ->
  join 44 (cm_txs m) = pb_tx b /\ cm_amount m = pb_amount b /\
  cm_bn m = pb_bn b /\ cm_ds m = pb_ds b /\ cm_de m = pb_de b /\
  unhex (cm_bid_digest m) = Some (pb_digest b) /\ unhex (cm_bid_sig m) = Some (pb_sig b) /\
  unhex (cm_digest m) = Some (pc_digest p) /\ unhex (cm_sig m) = Some (pc_sig p) /\
  unhex (cm_prov m) = Some (pc_prov p).
Proof.
  intros [p' [b' [Hp [Hb ->]]]] E W1 W2 W3 W4 W5. inversion Hp; subst p'.
  rewrite E in Hb. inversion Hb; subst b'. cbn.
  rewrite join_split, !unhex_hex by assumption. repeat split; reflexivity.
Qed.

(* ---------------------------------------------------------------------------------------- *)
(* The pre-change shape of the statement is not needed here: no defect of SendBid was        *)
(* repaired (KNOWN_FINDINGS has no C19 entry).  What the model does expose is the crash on a *)
(* commitment without bid:                                                                   *)
(* ---------------------------------------------------------------------------------------- *)

Definition sample_request : request :=
  {| r_txs := [sample_hash; sample_hash]; r_amount := bos "18446744073709551615"; r_bn := 1; r_ds := 2; r_de := 3 |}.
Definition sample_pbid : pbid :=
  {| pb_tx := join 44 [sample_hash; sample_hash]; pb_amount := bos "5"; pb_bn := 7; pb_ds := 8; pb_de := 9;
     pb_digest := x "00ff10"; pb_sig := x "abcdef" |}.
Definition sample_preconf : preconf :=
  {| pc_bid := Some sample_pbid; pc_digest := x "0102"; pc_sig := x "fe"; pc_prov := x "00000000000000000000000000000000000000aa" |}.

Example sample_request_ok : request_spec sample_request.
Proof. apply validate_spec. vm_compute. reflexivity. Qed.

Example sample_run :
  send_bid (Some sample_request) (SenderReturns [Some sample_preconf]) None =
  {| res := RNil;
     calls := [{| f_txs := sample_hash ++ 44 :: sample_hash; f_amount := bos "18446744073709551615";
                  f_bn := 1; f_ds := 2; f_de := 3 |}];
     streamed := [{| cm_txs := [sample_hash; sample_hash]; cm_amount := bos "5"; cm_bn := 7;
                     cm_bid_digest := bos "00ff10"; cm_bid_sig := bos "abcdef";
                     cm_digest := bos "0102"; cm_sig := bos "fe";
                     cm_prov := bos "00000000000000000000000000000000000000aa"; cm_ds := 8; cm_de := 9 |}] |}.
Proof. vm_compute. reflexivity. Qed.

Example refused_overflow :
  send_bid (Some {| r_txs := [sample_hash]; r_amount := bos "18446744073709551616"; r_bn := 1; r_ds := 1; r_de := 1 |})
           (SenderReturns [Some sample_preconf]) None = refusal.
Proof. vm_compute. reflexivity. Qed.

Example refused_not_spec :
  ~ request_spec {| r_txs := [sample_hash]; r_amount := bos "1"; r_bn := 1; r_ds := (-1); r_de := 1 |}.
Proof. unfold request_spec, bidder_bid_spec. cbn. lia. Qed.

Example panic_on_missing_bid :
  res (send_bid (Some sample_request)
         (SenderReturns [Some sample_preconf; Some {| pc_bid := None; pc_digest := []; pc_sig := []; pc_prov := [] |}]) None)
  = RPanic.
Proof. vm_compute. reflexivity. Qed.

Example stream_failure_stops :
  let m := send_bid (Some sample_request) (SenderReturns [Some sample_preconf; Some sample_preconf; Some sample_preconf]) (Some 1%nat) in
  res m = RStreamErr /\ length (streamed m) = 2%nat.
Proof. vm_compute. split; reflexivity. Qed.

(* ---------------------------------------------------------------------------------------- *)
(* The checker of check/Check_C19.v accepts every run of the model                           *)
(* ---------------------------------------------------------------------------------------- *)

Lemma list_eqb_refl {A} (eqb : A -> A -> bool) :
  (forall a, eqb a a = true) -> forall l, list_eqb eqb l l = true.
Proof. intros H. induction l as [|a l IH]; cbn; [reflexivity|]. rewrite H, IH. reflexivity. Qed.

Lemma forwarded_eqb_refl a : forwarded_eqb a a = true.
Proof. unfold forwarded_eqb. rewrite !bytes_eqb_refl, !Z.eqb_refl. reflexivity. Qed.

Lemma commitment_eqb_refl a : commitment_eqb a a = true.
Proof.
  unfold commitment_eqb.
  rewrite (list_eqb_refl bytes_eqb bytes_eqb_refl), !bytes_eqb_refl, !Z.eqb_refl. reflexivity.
Qed.

Lemma commitment_of_image p b : commitment_of p b = image p b.
Proof. reflexivity. Qed.

Lemma stream_loop_is_prefix cs : forall fa, is_prefix (snd (stream_loop cs fa)) (fst (images cs)) = true.
Proof.
  induction cs as [|[p|] rest IH]; intros fa; cbn [stream_loop images]; try reflexivity.
  destruct (pc_bid p) as [b|]; [|reflexivity].
  destruct fa as [[|k]|]; cbn [snd fst is_prefix]; rewrite commitment_of_image, commitment_eqb_refl;
    cbn [andb]; try reflexivity; apply IH.
Qed.

Lemma images_complete cs : snd (images cs) = true -> Forall complete cs.
Proof.
  induction cs as [|[p|] rest IH]; cbn [images]; intros H; [constructor | | discriminate].
  destruct (pc_bid p) as [b|] eqn:E; [|discriminate].
  constructor; [exists p, b; auto | apply IH; exact H].
Qed.

Theorem model_passes_checker req ans fail_at :
  let m := send_bid req ans fail_at in
  check_send req ans fail_at (verdict_code (request_verdict req)) (result_code (res m)) (calls m) (streamed m) = None.
Proof.
  destruct req as [r|]; [|reflexivity].
  cbv zeta. unfold check_send, well_formed, send_bid, validate, request_verdict.
  destruct (bidder_bid_ok (r_txs r) (r_amount r) (r_bn r) (r_ds r) (r_de r)) eqn:E; cbn [negb].
  - (* accepted *)
    pose proof (proj2 (bidder_bid_verdict_ok _ _ _ _ _) E) as Hv. rewrite Hv.
    assert (SJ : list_eqb bytes_eqb (split 44 (join 44 (r_txs r))) (r_txs r) = true).
    { rewrite hashes_split_join; [apply list_eqb_refl, bytes_eqb_refl|].
      apply bidder_bid_ok_spec in E. apply E. }
    destruct ans as [|cs]; cbn [res calls streamed result_code verdict_code is_nil N.eqb orb negb].
    + rewrite forward_verbatim. unfold expected_forward. cbn [list_eqb]. rewrite forwarded_eqb_refl. cbn [andb negb].
      rewrite SJ. reflexivity.
    + assert (R1 : (result_code (fst (stream_loop cs fail_at)) =? 1) = false).
      { pose proof (stream_loop_res cs fail_at) as [A _]. destruct (fst (stream_loop cs fail_at)); try reflexivity. congruence. }
      rewrite R1. cbn [orb].
      rewrite forward_verbatim. unfold expected_forward. cbn [list_eqb]. rewrite forwarded_eqb_refl. cbn [andb negb].
      rewrite SJ. cbn [negb]. rewrite stream_loop_is_prefix. cbn [negb].
      destruct (result_code (fst (stream_loop cs fail_at)) =? 0) eqn:R0.
      * assert (RN : fst (stream_loop cs fail_at) = RNil) by (destruct (fst (stream_loop cs fail_at)); try discriminate; reflexivity).
        rewrite (stream_loop_all cs fail_at RN), Nat.eqb_refl. cbn [negb andb].
        rewrite andb_false_r. rewrite RN. reflexivity.
      * cbn [andb negb]. rewrite andb_true_r.
        assert (C1 : snd (images cs) && no_failure fail_at (length cs) = false).
        { destruct (snd (images cs)) eqn:W; [|reflexivity].
          destruct (no_failure fail_at (length cs)) eqn:NF; [|reflexivity]. exfalso.
          apply images_complete in W.
          assert (Hn : no_send_fails fail_at (length cs)).
          { unfold no_failure in NF. destruct fail_at as [k|]; [|left; reflexivity].
            right. exists k. split; [reflexivity|]. apply Nat.leb_le. exact NF. }
          rewrite (stream_loop_completes_gen cs fail_at Hn W) in R0. discriminate. }
        rewrite C1.
        destruct (result_code (fst (stream_loop cs fail_at)) =? 3) eqn:R3; [|reflexivity].
        assert (RS : fst (stream_loop cs fail_at) = RStreamErr)
          by (destruct (fst (stream_loop cs fail_at)); try discriminate; reflexivity).
        destruct (stream_loop_stream_err cs fail_at RS) as [k [-> Hl]].
        unfold stopped_at. rewrite Hl, Nat.eqb_refl. reflexivity.
  - (* refused *)
    assert (Hv : (verdict_code (bidder_bid_verdict (r_txs r) (r_amount r) (r_bn r) (r_ds r) (r_de r)) =? 0) = false).
    { destruct (bidder_bid_verdict (r_txs r) (r_amount r) (r_bn r) (r_ds r) (r_de r)) eqn:V; try reflexivity.
      apply bidder_bid_verdict_ok in V. congruence. }
    cbn [res calls streamed result_code is_nil]. rewrite Hv. reflexivity.
Qed.

(* and therefore the model agrees with itself under [agrees] (sanity of the comparison) *)
Lemma model_agrees req ans fail_at :
  let m := send_bid req ans fail_at in
  agrees (PSend req ans fail_at (verdict_code (request_verdict req)) (result_code (res m)) (calls m) (streamed m)) = true.
Proof.
  cbv zeta. cbn [agrees]. rewrite !N.eqb_refl.
  rewrite (list_eqb_refl forwarded_eqb forwarded_eqb_refl), (list_eqb_refl commitment_eqb commitment_eqb_refl).
  reflexivity.
Qed.

(* The audit's silent case is now a violation: a valid request, two complete commitments, a
   stream oracle whose failing index lies beyond the list, yet the implementation is observed
   to stop after one message with the stream's error. *)
Example early_stop_flagged :
  check_send (Some sample_request) (SenderReturns [Some sample_preconf; Some sample_preconf]) (Some 7%nat)
             0 3 [expected_forward sample_request] [image sample_preconf sample_pbid]
  = Some "commitment-differs"%string.
Proof. vm_compute. reflexivity. Qed.
(* ... and so is the stream's error reported although the failing Send was not the last message *)
Example wrong_stop_flagged :
  check_send (Some sample_request)
             (SenderReturns [Some sample_preconf; Some sample_preconf; Some {| pc_bid := None; pc_digest := []; pc_sig := []; pc_prov := [] |}])
             (Some 1%nat)
             0 3 [expected_forward sample_request] [image sample_preconf sample_pbid]
  = Some "commitment-differs"%string.
Proof. vm_compute. reflexivity. Qed.

(* Repeated hashes are part of "exactly the request's values": C19_verbatim holds for every
   list, so a request [a; b; a] reaches the sender as "a,b,a" (nothing is de-duplicated). *)
Definition sample_hash2 : bytes := bos "71c1348f2d7ff7e814f9c3617983703435ea7446de420aeac488bf1de35737e8".
Example duplicates_kept :
  let r := {| r_txs := [sample_hash; sample_hash2; sample_hash]; r_amount := bos "0012"; r_bn := 1; r_ds := 2; r_de := 3 |} in
  request_spec r /\
  map f_txs (calls (send_bid (Some r) SenderFails None)) = [sample_hash ++ 44 :: sample_hash2 ++ 44 :: sample_hash] /\
  map f_amount (calls (send_bid (Some r) SenderFails None)) = [bos "0012"].
Proof. split; [apply validate_spec; vm_compute; reflexivity | split; vm_compute; reflexivity]. Qed.

(* Each streamed message is built from the commitment received at the same position: with two
   commitments whose embedded bids differ, the second message carries the second bid's fields
   (C19_commitment states this for every list by Forall2). *)
Definition sample_pbid2 : pbid :=
  {| pb_tx := sample_hash2; pb_amount := bos "77"; pb_bn := 70; pb_ds := 80; pb_de := 90;
     pb_digest := x "aa"; pb_sig := x "bb" |}.
Definition sample_preconf2 : preconf :=
  {| pc_bid := Some sample_pbid2; pc_digest := x "cc"; pc_sig := x "dd"; pc_prov := x "ee" |}.
Example second_commitment_own_bid :
  streamed (send_bid (Some sample_request) (SenderReturns [Some sample_preconf; Some sample_preconf2]) None) =
  [image sample_preconf sample_pbid; image sample_preconf2 sample_pbid2] /\
  image sample_preconf2 sample_pbid2 <> image sample_preconf2 sample_pbid.
Proof. split; [vm_compute; reflexivity | vm_compute; discriminate]. Qed.
