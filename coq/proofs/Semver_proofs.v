From Coq Require Import String List NArith Bool Lia ZifyN ZifyNat ZifyBool.
From MevVerif Require Import lib.Bytes proofs.Bytes_proofs model.Semver.
Import ListNotations.
Open Scope N_scope.


Lemma show_dec_not_in n c : is_digit c = false -> ~ In c (show_dec n).
Proof. intros H. apply all_digits_not_in; [apply show_dec_spec|exact H]. Qed.

Lemma version_string_no_slash M m p : ~ In slash (version_string M m p).
Proof.
  unfold version_string. intros H.
  repeat (apply in_app_or in H as [H|H] || destruct H as [H|H]);
    try discriminate H; try (revert H; apply show_dec_not_in; reflexivity).
Qed.

Lemma split_version_string M m p :
  split dot (version_string M m p) = [show_dec M; show_dec m; show_dec p].
Proof.
  unfold version_string.
  rewrite split_app_sep by (apply show_dec_not_in; reflexivity).
  rewrite split_app_sep by (apply show_dec_not_in; reflexivity).
  rewrite split_nosep by (apply show_dec_not_in; reflexivity). reflexivity.
Qed.

Lemma parse_version_string M m p :
  parse_version (version_string M m p) =
  if (M <? two64) && (m <? two64) && (p <? two64) then VNum M m p else VErr.
Proof.
  unfold parse_version, parse_component. rewrite split_version_string, !parse_show_dec. reflexivity.
Qed.

Lemma split_proto_id n M m p :
  ~ In slash n -> split slash (proto_id n M m p) = [[]; n; version_string M m p].
Proof.
  intros Hn. unfold proto_id. rewrite split_cons_sep, split_app_sep by exact Hn.
  rewrite split_nosep by apply version_string_no_slash. reflexivity.
Qed.

(* The routing rule, for every name without '/' and all components below 2^64. *)
Theorem match_rule n hn M m p HM Hm Hp :
  ~ In slash n ->
  M < two64 -> m < two64 -> p < two64 -> HM < two64 -> Hm < two64 -> Hp < two64 ->
  match_id (proto_id n M m p) hn (version_string HM Hm Hp) =
  if bytes_eqb n hn && (HM =? M) && (m <=? Hm) then Match else NoMatch.
Proof.
  intros Hn HM1 Hm1 Hp1 HM2 Hm2 Hp2. unfold match_id.
  rewrite split_proto_id by exact Hn. rewrite !parse_version_string.
  replace ((M <? two64) && (m <? two64) && (p <? two64)) with true by lia.
  replace ((HM <? two64) && (Hm <? two64) && (Hp <? two64)) with true by lia.
  destruct (bytes_eqb n hn); reflexivity.
Qed.

(* A component that does not fit 64 bits (either side) never matches. *)
Theorem match_overflow n hn M m p HM Hm Hp :
  ~ In slash n ->
  (two64 <= M \/ two64 <= m \/ two64 <= p \/ two64 <= HM \/ two64 <= Hm \/ two64 <= Hp) ->
  match_id (proto_id n M m p) hn (version_string HM Hm Hp) = NoMatch.
Proof.
  intros Hn Hbig. unfold match_id.
  rewrite split_proto_id by exact Hn. rewrite !parse_version_string.
  destruct (bytes_eqb n hn); [|reflexivity].
  destruct ((HM <? two64) && (Hm <? two64) && (Hp <? two64)) eqn:E1;
  destruct ((M <? two64) && (m <? two64) && (p <? two64)) eqn:E2; try reflexivity.
  exfalso. lia.
Qed.

(* Any identifier whose number of '/'-separated segments is not three is never matched. *)
Theorem match_segments incoming name supported :
  length (split slash incoming) <> 3%nat -> match_id incoming name supported = NoMatch.
Proof.
  intros H. unfold match_id.
  destruct (split slash incoming) as [|a [|b [|c [|d r]]]]; try reflexivity.
  exfalso. apply H. reflexivity.
Qed.

(* A three-segment identifier with another name is never matched, whatever the versions. *)
Theorem match_name incoming pre n v name supported :
  split slash incoming = [pre; n; v] -> n <> name -> match_id incoming name supported = NoMatch.
Proof.
  intros Hs Hne. unfold match_id. rewrite Hs.
  apply bytes_eqb_neq in Hne. rewrite Hne. reflexivity.
Qed.

(* A match is only ever produced through the numeric rule: soundness for *all* strings. *)
Theorem match_sound incoming name supported :
  match_id incoming name supported = Match ->
  exists pre v SM Sm Sp PM Pm Pp,
    split slash incoming = [pre; name; v] /\
    parse_version supported = VNum SM Sm Sp /\ parse_version v = VNum PM Pm Pp /\
    SM = PM /\ Pm <= Sm.
Proof.
  unfold match_id. intros H.
  destruct (split slash incoming) as [|pre [|n [|v [|d r]]]] eqn:Es; try discriminate.
  destruct (bytes_eqb n name) eqn:En; [|discriminate].
  apply bytes_eqb_eq in En. subst n.
  destruct (parse_version supported) as [SM Sm Sp| |] eqn:E1;
  destruct (parse_version v) as [PM Pm Pp| |] eqn:E2; try discriminate.
  destruct ((SM =? PM) && (Pm <=? Sm)) eqn:E; [|discriminate].
  apply andb_true_iff in E as [Ea Eb]. apply N.eqb_eq in Ea. apply N.leb_le in Eb.
  exists pre, v, SM, Sm, Sp, PM, Pm, Pp. repeat split; try reflexivity; assumption.
Qed.

(* non-vacuity: the premises of match_rule are met by the protocols the node registers *)
Example match_rule_instance :
  match_id (proto_id (bos "preconf") 1 0 0) (bos "preconf") (version_string 1 2 0) = Match
  /\ match_id (proto_id (bos "preconf") 1 3 0) (bos "preconf") (version_string 1 2 0) = NoMatch
  /\ match_id (proto_id (bos "preconf") 2 0 0) (bos "preconf") (version_string 1 2 0) = NoMatch
  /\ match_id (proto_id (bos "handshake") 1 0 0) (bos "preconf") (version_string 1 2 0) = NoMatch.
Proof. vm_compute. repeat split; reflexivity. Qed.

(* Routing among several registered descriptors: a matched identifier determines the handler's name, so
   among descriptors with pairwise distinct names at most one matches any identifier. *)
Lemma match_name_determined incoming n1 v1 n2 v2 :
  match_id incoming n1 v1 = Match -> match_id incoming n2 v2 = Match -> n1 = n2.
Proof.
  intros H1 H2.
  apply match_sound in H1 as (pre1 & w1 & ? & ? & ? & ? & ? & ? & Hs1 & _).
  apply match_sound in H2 as (pre2 & w2 & ? & ? & ? & ? & ? & ? & Hs2 & _).
  rewrite Hs1 in Hs2. congruence.
Qed.

Lemma NoDup_map_fst_inj (A B : Type) (l : list (A * B)) d1 d2 :
  NoDup (map fst l) -> In d1 l -> In d2 l -> fst d1 = fst d2 -> d1 = d2.
Proof.
  induction l as [|x l IH]; intros Hnd H1 H2 Heq; [contradiction|].
  cbn [map] in Hnd. inversion Hnd as [|? ? Hnotin Hnd']; subst.
  destruct H1 as [->|H1], H2 as [->|H2].
  - reflexivity.
  - exfalso. apply Hnotin. rewrite Heq. apply in_map. exact H2.
  - exfalso. apply Hnotin. rewrite <- Heq. apply in_map. exact H1.
  - apply IH; assumption.
Qed.

Theorem route_unique (descs : list (bytes * bytes)) incoming d1 d2 :
  NoDup (map fst descs) -> In d1 descs -> In d2 descs ->
  match_id incoming (fst d1) (snd d1) = Match -> match_id incoming (fst d2) (snd d2) = Match -> d1 = d2.
Proof.
  intros Hnd H1 H2 M1 M2. eapply NoDup_map_fst_inj; eauto. eapply match_name_determined; eauto.
Qed.
