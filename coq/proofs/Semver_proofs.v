From Coq Require Import String List NArith Bool Lia ZifyN ZifyNat ZifyBool.
From MevVerif Require Import lib.Bytes proofs.Bytes_proofs model.Semver.
Import ListNotations.
Open Scope N_scope.


Lemma show_dec_not_in n c : is_digit c = false -> ~ In c (show_dec n).
Proof. intros H. apply all_digits_not_in; [apply show_dec_spec|exact H]. Qed.

Lemma version_string_no_slash M m p : ~ In slash (version_string M m p).
Proof.
  unfold version_string. intros H.
  repeat (apply in_app_or in H as [H|H] || destruct H as [H|H]);
    try discriminate H; try (revert H; apply show_dec_not_in; reflexivity).
Qed.

Lemma split_version_string M m p :
  split dot (version_string M m p) = [show_dec M; show_dec m; show_dec p].
Proof.
  unfold version_string.
  rewrite split_app_sep by (apply show_dec_not_in; reflexivity).
  rewrite split_app_sep by (apply show_dec_not_in; reflexivity).
  rewrite split_nosep by (apply show_dec_not_in; reflexivity). reflexivity.
Qed.

Lemma parse_version_string M m p :
  parse_version (version_string M m p) =
  if (M <? two64) && (m <? two64) && (p <? two64) then VNum M m p else VErr.
Proof.
  unfold parse_version, parse_component. rewrite split_version_string, !parse_show_dec. reflexivity.
Qed.

Lemma split_proto_id n M m p :
  ~ In slash n -> split slash (proto_id n M m p) = [[]; n; version_string M m p].
Proof.
  intros Hn. unfold proto_id. rewrite split_cons_sep, split_app_sep by exact Hn.
  rewrite split_nosep by apply version_string_no_slash. reflexivity.
Qed.

(* The routing rule, for every name without '/' and all components below 2^64. *)
Theorem match_rule n hn M m p HM Hm Hp :
  ~ In slash n ->
  M < two64 -> m < two64 -> p < two64 -> HM < two64 -> Hm < two64 -> Hp < two64 ->
  match_id (proto_id n M m p) hn (version_string HM Hm Hp) =
  if bytes_eqb n hn && (HM =? M) && (m <=? Hm) then Match else NoMatch.
Proof.
  intros Hn HM1 Hm1 Hp1 HM2 Hm2 Hp2. unfold match_id.
  rewrite split_proto_id by exact Hn. rewrite !parse_version_string.
  replace ((M <? two64) && (m <? two64) && (p <? two64)) with true by lia.
  replace ((HM <? two64) && (Hm <? two64) && (Hp <? two64)) with true by lia.
  destruct (bytes_eqb n hn); reflexivity.
Qed.

(* A component that does not fit 64 bits (either side) never matches. *)
Theorem match_overflow n hn M m p HM Hm Hp :
  ~ In slash n ->
  (two64 <= M \/ two64 <= m \/ two64 <= p \/ two64 <= HM \/ two64 <= Hm \/ two64 <= Hp) ->
  match_id (proto_id n M m p) hn (version_string HM Hm Hp) = NoMatch.
Proof.
  intros Hn Hbig. unfold match_id.
  rewrite split_proto_id by exact Hn. rewrite !parse_version_string.
  destruct (bytes_eqb n hn); [|reflexivity].
  destruct ((HM <? two64) && (Hm <? two64) && (Hp <? two64)) eqn:E1;
  destruct ((M <? two64) && (m <? two64) && (p <? two64)) eqn:E2; try reflexivity.
  exfalso. lia.
Qed.

(* Any identifier whose number of '/'-separated segments is not three is never matched. *)
Theorem match_segments incoming name supported :
  length (split slash incoming) <> 3%nat -> match_id incoming name supported = NoMatch.
Proof.
  intros H. unfold match_id.
  destruct (split slash incoming) as [|a [|b [|c [|d r]]]]; try (destruct a; reflexivity); try reflexivity.
  exfalso. apply H. reflexivity.
Qed.

(* A three-segment identifier with another name is never matched, whatever the versions. *)
Theorem match_name incoming pre n v name supported :
  split slash incoming = [pre; n; v] -> n <> name -> match_id incoming name supported = NoMatch.
Proof.
  intros Hs Hne. unfold match_id. rewrite Hs.
  apply bytes_eqb_neq in Hne. rewrite Hne. destruct pre; reflexivity.
Qed.

(* A match is only ever produced through the numeric rule: soundness for *all* strings. *)
Theorem match_sound incoming name supported :
  match_id incoming name supported = Match ->
  exists v SM Sm Sp PM Pm Pp,
    split slash incoming = [[]; name; v] /\
    parse_version supported = VNum SM Sm Sp /\ parse_version v = VNum PM Pm Pp /\
    SM = PM /\ Pm <= Sm.
Proof.
  unfold match_id. intros H.
  destruct (split slash incoming) as [|pre [|n [|v [|d r]]]] eqn:Es; try (destruct pre; discriminate); try discriminate.
  destruct pre; [|discriminate].
  destruct (bytes_eqb n name) eqn:En; [|discriminate].
  apply bytes_eqb_eq in En. subst n.
  destruct (parse_version supported) as [SM Sm Sp| |] eqn:E1;
  destruct (parse_version v) as [PM Pm Pp| |] eqn:E2; try discriminate.
  destruct ((SM =? PM) && (Pm <=? Sm)) eqn:E; [|discriminate].
  apply andb_true_iff in E as [Ea Eb]. apply N.eqb_eq in Ea. apply N.leb_le in Eb.
  exists v, SM, Sm, Sp, PM, Pm, Pp. repeat split; try reflexivity; assumption.
Qed.

(* non-vacuity: the premises of match_rule are met by the protocols the node registers *)
Example match_rule_instance :
  match_id (proto_id (bos "preconf") 1 0 0) (bos "preconf") (version_string 1 2 0) = Match
  /\ match_id (proto_id (bos "preconf") 1 3 0) (bos "preconf") (version_string 1 2 0) = NoMatch
  /\ match_id (proto_id (bos "preconf") 2 0 0) (bos "preconf") (version_string 1 2 0) = NoMatch
  /\ match_id (proto_id (bos "handshake") 1 0 0) (bos "preconf") (version_string 1 2 0) = NoMatch.
Proof. vm_compute. repeat split; reflexivity. Qed.

(* Routing among several registered descriptors: a matched identifier determines the handler's name, so
   among descriptors with pairwise distinct names at most one matches any identifier. *)
Lemma match_name_determined incoming n1 v1 n2 v2 :
  match_id incoming n1 v1 = Match -> match_id incoming n2 v2 = Match -> n1 = n2.
Proof.
  intros H1 H2.
  apply match_sound in H1 as (w1 & ? & ? & ? & ? & ? & ? & Hs1 & _).
  apply match_sound in H2 as (w2 & ? & ? & ? & ? & ? & ? & Hs2 & _).
  rewrite Hs1 in Hs2. congruence.
Qed.

Lemma NoDup_map_fst_inj (A B : Type) (l : list (A * B)) d1 d2 :
  NoDup (map fst l) -> In d1 l -> In d2 l -> fst d1 = fst d2 -> d1 = d2.
Proof.
  induction l as [|x l IH]; intros Hnd H1 H2 Heq; [contradiction|].
  cbn [map] in Hnd. inversion Hnd as [|? ? Hnotin Hnd']; subst.
  destruct H1 as [->|H1], H2 as [->|H2].
  - reflexivity.
  - exfalso. apply Hnotin. rewrite Heq. apply in_map. exact H2.
  - exfalso. apply Hnotin. rewrite <- Heq. apply in_map. exact H1.
  - apply IH; assumption.
Qed.

Theorem route_unique (descs : list (bytes * bytes)) incoming d1 d2 :
  NoDup (map fst descs) -> In d1 descs -> In d2 descs ->
  match_id incoming (fst d1) (snd d1) = Match -> match_id incoming (fst d2) (snd d2) = Match -> d1 = d2.
Proof.
  intros Hnd H1 H2 M1 M2. eapply NoDup_map_fst_inj; eauto. eapply match_name_determined; eauto.
Qed.

(* ---- the rule on the whole numeric domain ---- *)
Theorem match_general incoming n v name supported SM Sm Sp PM Pm Pp :
  split slash incoming = [[]; n; v] ->
  parse_version supported = VNum SM Sm Sp -> parse_version v = VNum PM Pm Pp ->
  match_id incoming name supported =
    if bytes_eqb n name && (SM =? PM) && (Pm <=? Sm) then Match else NoMatch.
Proof. intros H1 H2 H3. unfold match_id. rewrite H1, H2, H3. destruct (bytes_eqb n name); reflexivity. Qed.

Lemma join_split sep l : join sep (split sep l) = l.
Proof.
  induction l as [|c r IH]; [reflexivity|]. cbn [split].
  destruct (N.eqb_spec c sep) as [->|Hne].
  - pose proof (split_nonempty sep r) as Hn. destruct (split sep r) as [|h t] eqn:E; [contradiction|].
    change (join sep ([] :: h :: t)) with ([] ++ sep :: join sep (h :: t)). rewrite IH. reflexivity.
  - pose proof (split_nonempty sep r) as Hn. destruct (split sep r) as [|h t] eqn:E; [contradiction|].
    destruct t as [|h2 t2].
    + cbn [join] in *. rewrite IH. reflexivity.
    + change (join sep ((c :: h) :: h2 :: t2)) with ((c :: h) ++ sep :: join sep (h2 :: t2)).
      change (join sep (h :: h2 :: t2)) with (h ++ sep :: join sep (h2 :: t2)) in IH.
      rewrite <- IH. reflexivity.
Qed.

Definition numeric (a : bytes) (M : N) : Prop := a <> [] /\ all_digits a = true /\ dec_value a = M.

Lemma parse_dec_numeric a M : parse_dec a = Some M <-> numeric a M.
Proof.
  unfold parse_dec, numeric. destruct a as [|c r].
  - split; [discriminate|]. intros [H _]. contradiction.
  - destruct (all_digits (c :: r)).
    + split; [intros H; inversion H; repeat split; discriminate|]. intros (_ & _ & H). rewrite H. reflexivity.
    + split; [discriminate|]. intros (_ & H & _). discriminate.
Qed.

Theorem parse_version_num v M m p :
  parse_version v = VNum M m p <->
  exists a b c, v = a ++ dot :: b ++ dot :: c /\ numeric a M /\ numeric b m /\ numeric c p /\
                M < two64 /\ m < two64 /\ p < two64.
Proof.
  split.
  - unfold parse_version, parse_component. intros H.
    destruct (split dot v) as [|a [|b [|c [|d r]]]] eqn:Es; try discriminate.
    destruct (parse_dec a) as [M'|] eqn:Ea; [|discriminate].
    destruct (parse_dec b) as [m'|] eqn:Eb; [|discriminate].
    destruct (parse_dec c) as [p'|] eqn:Ec; [|discriminate].
    destruct ((M' <? two64) && (m' <? two64) && (p' <? two64)) eqn:Er; [|discriminate].
    inversion H; subst. exists a, b, c.
    rewrite <- (join_split dot v), Es. cbn [join].
    apply parse_dec_numeric in Ea, Eb, Ec. repeat split; try apply Ea; try apply Eb; try apply Ec; lia.
  - intros (a & b & c & -> & Ha & Hb & Hc & HM & Hm & Hp).
    assert (Hnd : forall s z, numeric s z -> ~ In dot s).
    { intros s z (_ & Hd & _). apply all_digits_not_in; [exact Hd|reflexivity]. }
    unfold parse_version, parse_component.
    rewrite split_app_sep by (eapply Hnd; eauto). rewrite split_app_sep by (eapply Hnd; eauto).
    rewrite split_nosep by (eapply Hnd; eauto).
    apply parse_dec_numeric in Ha, Hb, Hc. rewrite Ha, Hb, Hc.
    replace ((M <? two64) && (m <? two64) && (p <? two64)) with true by lia. reflexivity.
Qed.

(* ---- no crash ---- *)
Lemma match_id_o_total incoming name supported :
  match_id_o incoming name supported = Ok (match_id incoming name supported).
Proof.
  unfold match_id_o, match_id_gen, match_id, nv_model, index_o.
  destruct (split slash incoming) as [|a [|b [|c [|d r]]]]; try (destruct a; reflexivity); try reflexivity.
  destruct a; [|reflexivity].
  cbn. destruct (bytes_eqb b name); cbn; [|reflexivity].
  destruct (parse_version supported), (parse_version c); reflexivity.
Qed.

Theorem no_crash nv incoming name supported :
  (forall s, nv s <> Panic) -> match_id_gen nv incoming name supported <> Panic.
Proof.
  intros Hnv. unfold match_id_gen, index_o.
  destruct (split slash incoming) as [|a [|b [|c [|d r]]]]; try (cbn; discriminate).
  cbn. destruct (negb (is_nil a)); [discriminate|].
  destruct (negb (bytes_eqb b name)); [discriminate|].
  pose proof (Hnv supported) as H1. pose proof (Hnv c) as H2.
  destruct (nv supported); [|discriminate|contradiction].
  destruct (nv c); [discriminate|discriminate|contradiction].
Qed.

Corollary no_crash_model incoming name supported : match_id_o incoming name supported <> Panic.
Proof. apply no_crash. intros s. discriminate. Qed.

(* the crash constructor is reachable: without the length test the empty identifier crashes *)
Example unguarded_crashes : match_id_unguarded nv_model [] (bos "preconf") (bos "1.0.0") = Panic.
Proof. vm_compute. reflexivity. Qed.
Example unguarded_crashes2 : match_id_unguarded nv_model (bos "/preconf") (bos "preconf") (bos "1.0.0") = Panic.
Proof. vm_compute. reflexivity. Qed.

(* ---- routing ---- *)
Lemma add_handlers_snoc ds : forall hs k d,
  add_handlers hs k (ds ++ [d]) = add_handler (add_handlers hs k ds) (k + N.of_nat (length ds)) d.
Proof.
  induction ds as [|e r IH]; intros hs k d; cbn [add_handlers app length].
  - rewrite N.add_0_r. reflexivity.
  - rewrite IH. f_equal. lia.
Qed.

Lemma number_snoc ds : forall k d, number k (ds ++ [d]) = number k ds ++ [(k + N.of_nat (length ds), d)].
Proof.
  induction ds as [|e r IH]; intros k d; cbn [number app length].
  - rewrite N.add_0_r. reflexivity.
  - rewrite IH. replace (k + 1 + N.of_nat (length r)) with (k + N.of_nat (S (length r))) by lia. reflexivity.
Qed.

Lemma number_bounds ds : forall k j d, In (j, d) (number k ds) -> k <= j < k + N.of_nat (length ds).
Proof.
  induction ds as [|e r IH]; intros k j d H; cbn in H; [contradiction|].
  destruct H as [H|H].
  - inversion H; subst. cbn [length]. lia.
  - apply IH in H. cbn [length]. lia.
Qed.

Lemma number_nth ds : forall k j d,
  In (j, d) (number k ds) <-> k <= j /\ nth_error ds (N.to_nat (j - k)) = Some d.
Proof.
  induction ds as [|e r IH]; intros k j d; cbn [number].
  - split; [contradiction|]. intros [_ H]. destruct (N.to_nat (j - k)); discriminate.
  - split.
    + intros [H|H].
      * inversion H; subst. rewrite N.sub_diag. split; [lia|reflexivity].
      * pose proof (number_bounds _ _ _ _ H) as Hb. apply IH in H as [Hk Hn]. split; [lia|].
        replace (N.to_nat (j - k)) with (S (N.to_nat (j - (k + 1)))) by lia. exact Hn.
    + intros [Hk Hn]. destruct (N.eq_dec j k) as [->|Hne].
      * rewrite N.sub_diag in Hn. cbn in Hn. inversion Hn; subst. left; reflexivity.
      * right. apply IH. split; [lia|].
        replace (N.to_nat (j - k)) with (S (N.to_nat (j - (k + 1)))) in Hn by lia. exact Hn.
Qed.

Lemma remove_handler_in n hs h :
  NoDup (map h_name hs) -> (In h (remove_handler n hs) <-> In h hs /\ h_name h <> n).
Proof.
  induction hs as [|g r IH]; intros Hnd; cbn [remove_handler].
  - split; [contradiction|]. intros [[] _].
  - cbn [map] in Hnd. inversion Hnd as [|? ? Hnot Hnd']; subst.
    destruct (bytes_eqb (h_name g) n) eqn:E.
    + apply bytes_eqb_eq in E. split.
      * intros H. split; [right; exact H|]. intros Hn. apply Hnot. rewrite E, <- Hn. apply in_map. exact H.
      * intros [[->|H] Hn]; [contradiction|exact H].
    + apply bytes_eqb_neq in E. split.
      * intros [->|H]; [split; [left; reflexivity|exact E]|]. apply IH in H as [H1 H2]; [|exact Hnd'].
        split; [right; exact H1|exact H2].
      * intros [[->|H] Hn]; [left; reflexivity|]. right. apply IH; [exact Hnd'|]. split; assumption.
Qed.

Lemma remove_handler_nodup n hs : NoDup (map h_name hs) -> NoDup (map h_name (remove_handler n hs)).
Proof.
  induction hs as [|g r IH]; intros Hnd; cbn [remove_handler]; [exact Hnd|].
  cbn [map] in Hnd. inversion Hnd as [|? ? Hnot Hnd']; subst.
  destruct (bytes_eqb (h_name g) n); [exact Hnd'|].
  cbn [map]. constructor; [|apply IH; exact Hnd'].
  intros H. apply in_map_iff in H as (h & Hh & Hin). apply remove_handler_in in Hin as [Hin _]; [|exact Hnd'].
  apply Hnot. rewrite <- Hh. apply in_map. exact Hin.
Qed.


Lemma NoDup_snoc (A : Type) (l : list A) a : NoDup l -> ~ In a l -> NoDup (l ++ [a]).
Proof.
  induction l as [|b r IH]; intros Hnd Hn; cbn.
  - constructor; [intros []|constructor].
  - inversion Hnd as [|? ? Hb Hr]; subst. constructor.
    + rewrite in_app_iff. intros [H|[H|[]]]; [contradiction|]. apply Hn. left. symmetry. exact H.
    + apply IH; [exact Hr|]. intros H. apply Hn. right. exact H.
Qed.

(* [h] is the last registration of its name among the numbered registrations [l] *)
Definition last_of_name (l : list handler) (h : handler) : Prop :=
  In h l /\ forall g, In g l -> h_name g = h_name h -> fst g <= fst h.

Lemma table_char ds :
  NoDup (map h_name (table ds)) /\ forall h, In h (table ds) <-> last_of_name (number 1 ds) h.
Proof.
  unfold table. induction ds as [|d ds IH] using rev_ind.
  - cbn. split; [constructor|]. intros h. split; [contradiction|]. intros [[] _].
  - destruct IH as [Hnd Hch]. rewrite add_handlers_snoc, number_snoc. unfold add_handler.
    set (k0 := 1 + N.of_nat (length ds)).
    set (T := add_handlers [] 1 ds) in *.
    assert (Hin' : forall h, In h (remove_handler (fst d) T ++ [(k0, d)]) <->
                             (In h T /\ h_name h <> fst d) \/ h = (k0, d)).
    { intros h. rewrite in_app_iff, remove_handler_in by exact Hnd. cbn. intuition congruence. }
    split.
    + rewrite map_app. cbn [map]. apply NoDup_snoc; [apply remove_handler_nodup; exact Hnd|].
      intros H. apply in_map_iff in H as (h & Hh & Hin). apply remove_handler_in in Hin as [_ Hne]; [|exact Hnd].
      apply Hne. exact Hh.
    + intros h. rewrite Hin'. unfold last_of_name. split.
      * intros [[Hin Hne]| -> ].
        -- apply Hch in Hin as [Hin Hlast]. split; [apply in_or_app; left; exact Hin|].
           intros g Hg Hname. apply in_app_or in Hg as [Hg|[ <- | [] ]]; [apply Hlast; assumption|].
           exfalso. apply Hne. rewrite <- Hname. reflexivity.
        -- split; [apply in_or_app; right; left; reflexivity|].
           intros g Hg _. apply in_app_or in Hg as [Hg|[ <- | [] ]]; [|cbn [fst]; lia].
           destruct g as [j e]. apply number_bounds in Hg. cbn [fst]. unfold k0. lia.
      * intros [Hin Hlast]. apply in_app_or in Hin as [Hin|[ <- | [] ]]; [|right; reflexivity].
        left. assert (Hne : h_name h <> fst d).
        { intros Heq. specialize (Hlast (k0, d)). cbn in Hlast.
          assert (k0 <= fst h) by (apply Hlast; [apply in_or_app; right; left; reflexivity|symmetry; exact Heq]).
          destruct h as [j e]. apply number_bounds in Hin. cbn [fst] in H. unfold k0 in H. lia. }
        split; [|exact Hne]. apply Hch. split; [exact Hin|].
        intros g Hg Hname. apply Hlast; [apply in_or_app; left; exact Hg|exact Hname].
Qed.

Lemma find_handler_some hs incoming h :
  find_handler hs incoming = Some h -> In h hs /\ match_id incoming (fst (snd h)) (snd (snd h)) = Match.
Proof.
  unfold find_handler. intros H. apply find_some in H as [H1 H2]. split; [exact H1|]. cbv beta in H2.
  match type of H2 with is_match ?t = true => change (t = Match); destruct t; [reflexivity|discriminate H2|discriminate H2] end.
Qed.

Lemma NoDup_map_inj (A B : Type) (f : A -> B) (l : list A) a b :
  NoDup (map f l) -> In a l -> In b l -> f a = f b -> a = b.
Proof.
  induction l as [|c r IH]; intros Hnd Ha Hb Hf; [contradiction|].
  cbn [map] in Hnd. inversion Hnd as [|? ? Hnot Hnd']; subst.
  destruct Ha as [->|Ha], Hb as [->|Hb].
  - reflexivity.
  - exfalso. apply Hnot. rewrite Hf. apply in_map. exact Hb.
  - exfalso. apply Hnot. rewrite <- Hf. apply in_map. exact Ha.
  - apply IH; assumption.
Qed.

(* the handler an identifier reaches: the last registration of its name whose descriptor matches *)
Theorem route_spec ds incoming h :
  route ds incoming = Some h <->
  last_of_name (number 1 ds) h /\ match_id incoming (fst (snd h)) (snd (snd h)) = Match.
Proof.
  destruct (table_char ds) as [Hnd Hch]. unfold route. split.
  - intros H. apply find_handler_some in H as [H1 H2]. split; [apply Hch; exact H1|exact H2].
  - intros [Hl Hm]. apply Hch in Hl.
    destruct (find_handler (table ds) incoming) as [g|] eqn:E.
    + apply find_handler_some in E as [G1 G2]. f_equal.
      apply (NoDup_map_inj _ _ h_name (table ds)); try assumption.
      unfold h_name. eapply match_name_determined; eassumption.
    + unfold find_handler in E. apply (find_none _ _ E) in Hl. cbv beta in Hl. change (is_match (match_id incoming (fst (snd h)) (snd (snd h))) = false) in Hl. rewrite Hm in Hl. discriminate.
Qed.

Theorem route_none ds incoming :
  route ds incoming = None <->
  forall h, last_of_name (number 1 ds) h -> match_id incoming (fst (snd h)) (snd (snd h)) <> Match.
Proof.
  split.
  - intros H h Hl Hm. assert (route ds incoming = Some h) by (apply route_spec; split; assumption). congruence.
  - intros H. destruct (route ds incoming) as [h|] eqn:E; [|reflexivity].
    apply route_spec in E as [Hl Hm]. exfalso. eapply H; eassumption.
Qed.

(* pairwise distinct names (the node's own protocols): every registration is the last of its name *)
Lemma number_names ds : forall k, map h_name (number k ds) = map fst ds.
Proof. induction ds as [|d r IH]; intros k; cbn; [reflexivity|]. rewrite IH. reflexivity. Qed.

Lemma last_of_name_nodup ds h :
  NoDup (map fst ds) -> (last_of_name (number 1 ds) h <-> In h (number 1 ds)).
Proof.
  intros Hnd. unfold last_of_name. split; [intros [H _]; exact H|].
  intros H. split; [exact H|]. intros g Hg Hname.
  rewrite <- (number_names ds 1) in Hnd.
  assert (g = h) by (eapply NoDup_map_inj; eassumption). subst. lia.
Qed.

Theorem route_spec_nodup ds incoming k d :
  NoDup (map fst ds) ->
  (route ds incoming = Some (k, d) <->
   1 <= k /\ nth_error ds (N.to_nat (k - 1)) = Some d /\ match_id incoming (fst d) (snd d) = Match).
Proof.
  intros Hnd. rewrite route_spec, last_of_name_nodup by exact Hnd. rewrite number_nth. cbn. tauto.
Qed.

Theorem route_none_nodup ds incoming :
  NoDup (map fst ds) ->
  (route ds incoming = None <-> forall d, In d ds -> match_id incoming (fst d) (snd d) <> Match).
Proof.
  intros Hnd. rewrite route_none. split.
  - intros H d Hd. apply In_nth_error in Hd as [i Hi].
    apply (H (1 + N.of_nat i, d)). apply last_of_name_nodup; [exact Hnd|].
    apply number_nth. split; [lia|]. replace (N.to_nat (1 + N.of_nat i - 1)) with i by lia. exact Hi.
  - intros H [k d] Hl. apply last_of_name_nodup in Hl; [|exact Hnd]. apply number_nth in Hl as [_ Hl].
    apply nth_error_In in Hl. cbn. apply H. exact Hl.
Qed.

(* registering a name again replaces the earlier handler: it is never reached, whatever its version *)
Theorem route_replaced ds incoming k d j e :
  route ds incoming = Some (k, d) -> In (j, e) (number 1 ds) -> fst e = fst d -> j <= k.
Proof.
  intros H Hin Hname. apply route_spec in H as [[_ Hlast] _]. apply (Hlast (j, e) Hin). exact Hname.
Qed.

Example route_instance :
  let ds := [(bos "alpha", bos "1.2.0"); (bos "beta", bos "2.0.5"); (bos "alpha", bos "2.1.0")] in
  route ds (bos "/beta/2.0.0") = Some (2, (bos "beta", bos "2.0.5")) /\
  route ds (bos "/alpha/2.0.7") = Some (3, (bos "alpha", bos "2.1.0")) /\
  route ds (bos "/alpha/1.0.0") = None /\          (* the first registration was replaced *)
  route ds (bos "/beta/2.1.0") = None /\ route ds (bos "/gamma/1.0.0") = None.
Proof. vm_compute. repeat split; reflexivity. Qed.

(* non-vacuity of match_general / parse_version_num beyond the canonical spelling: leading zeros are judged by
   the same rule *)
Example match_general_instance :
  match_id (bos "/preconf/01.002.3") (bos "preconf") (bos "1.2.0") = Match
  /\ match_id (bos "/preconf/01.003.0") (bos "preconf") (bos "1.02.0") = NoMatch
  /\ parse_version (bos "01.002.3") = VNum 1 2 3
  /\ parse_version (bos "18446744073709551616.0.0") = VErr.
Proof. vm_compute. repeat split; reflexivity. Qed.

(* ---- the identifier in front of the first '/' (repair 6f7f755) ---- *)
(* before the repair a non-empty first segment - any bytes, valid UTF-8 or not - was matched *)
Lemma prefix_v1_refuted :
  match_id_v1 (255 :: bos "/test/1.0.0") (bos "test") (bos "1.0.0") = Match /\
  match_id_v1 (bos "x/test/1.0.0") (bos "test") (bos "1.0.0") = Match /\
  match_id (255 :: bos "/test/1.0.0") (bos "test") (bos "1.0.0") = NoMatch /\
  match_id (bos "x/test/1.0.0") (bos "test") (bos "1.0.0") = NoMatch.
Proof. vm_compute. repeat split; reflexivity. Qed.

(* now: whatever stands in front of the first '/', nothing matches *)
Theorem match_prefix incoming c pre n v name supported :
  split slash incoming = [c :: pre; n; v] -> match_id incoming name supported = NoMatch.
Proof. intros H. unfold match_id. rewrite H. reflexivity. Qed.

Lemma split_pieces_nosep sep l : Forall (fun a => ~ In sep a) (split sep l).
Proof.
  induction l as [|c r IH]; cbn [split]; [constructor; [intros []|constructor]|].
  destruct (N.eqb_spec c sep) as [->|Hne].
  - constructor; [intros []|exact IH].
  - destruct (split sep r) as [|h t]; [constructor; [|constructor]; intros [H|[]]; congruence|].
    inversion IH as [|? ? Hh Ht]; subst. constructor; [|exact Ht].
    intros [H|H]; [congruence|contradiction].
Qed.

(* every identifier that is not refused outright is exactly "/" ++ name ++ "/" ++ v, v without '/' *)
Theorem accepted_shape incoming name supported :
  match_id incoming name supported <> NoMatch ->
  exists v, incoming = slash :: name ++ slash :: v /\ ~ In slash v /\ ~ In slash name.
Proof.
  unfold match_id. intros H.
  pose proof (split_pieces_nosep slash incoming) as Hp. pose proof (join_split slash incoming) as Hj.
  destruct (split slash incoming) as [|pre [|n [|v [|d r]]]] eqn:Es;
    try (exfalso; apply H; destruct pre; reflexivity); try (exfalso; apply H; reflexivity).
  destruct pre; [|exfalso; apply H; reflexivity].
  destruct (bytes_eqb n name) eqn:En; [|exfalso; apply H; reflexivity].
  apply bytes_eqb_eq in En. subst n. exists v. cbn [join app] in Hj.
  apply Forall_inv_tail in Hp. pose proof (Forall_inv Hp) as Hn. apply Forall_inv_tail in Hp.
  pose proof (Forall_inv Hp) as Hv. cbv beta in Hn, Hv.
  split; [symmetry; exact Hj|split; [exact Hv|exact Hn]].
Qed.

Definition ascii (l : bytes) : Prop := Forall (fun c => c < 128) l.

Lemma numeric_ascii a M : numeric a M -> ascii a.
Proof.
  intros (_ & Hd & _). unfold all_digits in Hd. rewrite forallb_forall in Hd.
  apply Forall_forall. intros c Hc. apply Hd in Hc. unfold is_digit in Hc. lia.
Qed.

(* a MATCHED identifier is "/" ++ name ++ "/" ++ a.b.c with three digit runs: after the name nothing but ASCII
   digits and dots *)
Theorem accepted_id_is_wellformed incoming name supported :
  match_id incoming name supported = Match ->
  exists a b c M m p,
    incoming = slash :: name ++ slash :: a ++ dot :: b ++ dot :: c /\
    numeric a M /\ numeric b m /\ numeric c p /\ M < two64 /\ m < two64 /\ p < two64 /\
    ascii (a ++ dot :: b ++ dot :: c).
Proof.
  intros H. assert (Hn : match_id incoming name supported <> NoMatch) by (rewrite H; discriminate).
  apply accepted_shape in Hn as (v & Hi & _ & _).
  apply match_sound in H as (v' & SM & Sm & Sp & PM & Pm & Pp & Hs & _ & Hv & _).
  assert (v' = v).
  { pose proof (join_split slash incoming) as Hj. rewrite Hs in Hj. cbn [join app] in Hj.
    rewrite Hi in Hj. injection Hj as Hj. apply app_inv_head in Hj. congruence. }
  subst v'. apply parse_version_num in Hv as (a & b & c & -> & Ha & Hb & Hc & H1 & H2 & H3).
  exists a, b, c, PM, Pm, Pp. repeat split; try assumption; try apply Ha; try apply Hb; try apply Hc.
  unfold ascii. apply Forall_app. split; [eapply numeric_ascii; eauto|].
  constructor; [unfold dot; lia|]. apply Forall_app. split; [eapply numeric_ascii; eauto|].
  constructor; [unfold dot; lia|]. eapply numeric_ascii; eauto.
Qed.

(* hence: for every notion of validity of byte strings that is closed under concatenation and holds of ASCII
   strings - UTF-8 validity is one - a matched identifier is valid whenever the handler's name is *)
Theorem accepted_id_valid (valid : bytes -> Prop) incoming name supported :
  (forall x y, valid x -> valid y -> valid (x ++ y)) -> (forall x, ascii x -> valid x) ->
  valid name -> match_id incoming name supported = Match -> valid incoming.
Proof.
  intros Hcat Hasc Hname H.
  apply accepted_id_is_wellformed in H as (a & b & c & M & m & p & -> & _ & _ & _ & _ & _ & _ & Hv).
  change (valid ([slash] ++ name ++ [slash] ++ (a ++ dot :: b ++ dot :: c))).
  apply Hcat; [apply Hasc; constructor; [unfold slash; lia|constructor]|].
  apply Hcat; [exact Hname|]. apply Hcat; [apply Hasc; constructor; [unfold slash; lia|constructor]|].
  apply Hasc. exact Hv.
Qed.

(* non-vacuity: [ascii] itself is such a notion, and the premises are met by the node's own protocols *)
Example accepted_id_valid_instance : ascii (bos "/preconf/1.0.0").
Proof.
  apply (accepted_id_valid ascii _ (bos "preconf") (bos "1.2.0")).
  - intros x y Hx Hy. apply Forall_app. split; assumption.
  - intros x Hx. exact Hx.
  - unfold ascii. repeat constructor.
  - vm_compute. reflexivity.
Qed.

(* ---- routing statements for the implementation: only where no registered descriptor is judged by the lenient
   dialect.  [route] reads Unspec as "not matched"; the version library accepts e.g. "v1.0.0" and "1.0", so Go DOES route
   "/a/v1.0.0" to a handler a 1.0.0.  The statements below carry the premise that keeps them inside the claim. *)
Definition specified (ds : list desc) (incoming : bytes) : Prop :=
  forall d, In d ds -> match_id incoming (fst d) (snd d) <> Unspec.

Example lenient_route_none :
  route [(bos "a", bos "1.0.0")] (bos "/a/v1.0.0") = None /\
  match_id (bos "/a/v1.0.0") (bos "a") (bos "1.0.0") = Unspec /\
  ~ specified [(bos "a", bos "1.0.0")] (bos "/a/v1.0.0").
Proof.
  split; [vm_compute; reflexivity|]. split; [vm_compute; reflexivity|].
  intros H. apply (H (bos "a", bos "1.0.0")); [left; reflexivity|]. vm_compute. reflexivity.
Qed.

Theorem route_specified_nodup ds incoming k d :
  NoDup (map fst ds) -> specified ds incoming ->
  (route ds incoming = Some (k, d) <->
   1 <= k /\ nth_error ds (N.to_nat (k - 1)) = Some d /\ match_id incoming (fst d) (snd d) = Match).
Proof. intros Hnd _. apply route_spec_nodup. exact Hnd. Qed.

(* with the premise, "no handler" means every descriptor REFUSES the identifier (NoMatch), not merely "is not Match" *)
Theorem route_none_specified_nodup ds incoming :
  NoDup (map fst ds) -> specified ds incoming ->
  (route ds incoming = None <-> forall d, In d ds -> match_id incoming (fst d) (snd d) = NoMatch).
Proof.
  intros Hnd Hs. rewrite route_none_nodup by exact Hnd. split; intros H d Hd.
  - specialize (H d Hd). specialize (Hs d Hd). destruct (match_id incoming (fst d) (snd d)); congruence.
  - rewrite (H d Hd). discriminate.
Qed.

Theorem route_specified ds incoming h :
  specified ds incoming ->
  (route ds incoming = Some h <->
   last_of_name (number 1 ds) h /\ match_id incoming (fst (snd h)) (snd (snd h)) = Match).
Proof. intros _. apply route_spec. Qed.

Example specified_instance :
  specified [(bos "alpha", bos "1.2.0"); (bos "beta", bos "2.0.5")] (bos "/alpha/1.0.0").
Proof. intros d [<-|[<-|[]]]; vm_compute; discriminate. Qed.
