(* Lemmas about model/Rules.v: every boolean rule is equivalent to a readable specification,
   the boolean layer agrees with the CEL-shaped three-valued layer, and the rule tables carry
   the published texts. *)
From Coq Require Import String List NArith ZArith Bool Arith Lia.
From MevVerif Require Import lib.Bytes proofs.Bytes_proofs model.Rules.
Import ListNotations.
Open Scope N_scope.

(* ---------------------------------------------------------------------------------------- *)
(* Readable specifications                                                                   *)
(* ---------------------------------------------------------------------------------------- *)

Definition digit_char (c : N) : Prop := 48 <= c <= 57.                      (* '0'..'9' *)
Definition hex_char (c : N) : Prop :=
  48 <= c <= 57 \/ 97 <= c <= 102 \/ 65 <= c <= 70.                         (* 0-9 a-f A-F *)

(* "64 hex digits" *)
Definition hash64_spec (h : bytes) : Prop := length h = 64%nat /\ Forall hex_char h.
(* "a non-empty list of 64-hex-digit strings" *)
Definition hashes_spec (hs : list bytes) : Prop := hs <> [] /\ Forall hash64_spec hs.
(* "a positive decimal integer below 2^64": non-empty, ASCII digits only (no sign, no space,
   leading zeros allowed), value in (0, 2^64) *)
Definition amount_spec (s : bytes) : Prop :=
  s <> [] /\ Forall digit_char s /\ 0 < dec_value s < uint64_bound.
Definition bidder_bid_spec (txs : list bytes) (amount : bytes) (bn ds de : Z) : Prop :=
  hashes_spec txs /\ amount_spec amount /\ (0 < bn)%Z /\ (0 < ds)%Z /\ (0 < de)%Z.
Definition provider_bid_spec (txs : list bytes) (amount : bytes) (bn : Z) (digest : bytes) (ds de : Z) : Prop :=
  hashes_spec txs /\ amount_spec amount /\ (0 < bn)%Z /\ (1 <= length digest <= 64)%nat /\
  (0 < ds)%Z /\ (0 < de)%Z.
Definition provider_response_spec (digest : bytes) (status : Z) : Prop :=
  status = status_accepted \/ status = status_rejected.

(* ---------------------------------------------------------------------------------------- *)
(* Boolean rules <-> specifications                                                          *)
(* ---------------------------------------------------------------------------------------- *)

Lemma is_hex_char_spec c : is_hex_char c = true <-> hex_char c.
Proof.
  unfold is_hex_char, hex_char.
  rewrite !orb_true_iff, !andb_true_iff, !N.leb_le. tauto.
Qed.

Lemma is_digit_spec c : is_digit c = true <-> digit_char c.
Proof. unfold is_digit, digit_char. rewrite andb_true_iff, !N.leb_le. tauto. Qed.

Lemma all_digits_spec s : all_digits s = true <-> Forall digit_char s.
Proof.
  unfold all_digits. rewrite forallb_forall, Forall_forall.
  split; intros H c Hc; apply is_digit_spec; auto.
Qed.

Lemma hash64_ok_spec h : hash64_ok h = true <-> hash64_spec h.
Proof.
  unfold hash64_ok, hash64_spec.
  rewrite andb_true_iff, Nat.eqb_eq, forallb_forall, Forall_forall.
  split; intros [A B]; split; auto; intros c Hc; apply is_hex_char_spec; auto.
Qed.

Lemma hashes_ok_spec hs : hashes_ok hs = true <-> hashes_spec hs.
Proof.
  unfold hashes_ok, hashes_spec. rewrite andb_true_iff, forallb_forall, Forall_forall.
  split.
  - intros [A B]. split.
    + destruct hs; [discriminate | discriminate].
    + intros h Hh. apply hash64_ok_spec; auto.
  - intros [A B]. split.
    + intros h Hh. apply hash64_ok_spec; auto.
    + destruct hs; [congruence | reflexivity].
Qed.

Lemma parse_dec_some s v :
  parse_dec s = Some v <-> s <> [] /\ Forall digit_char s /\ dec_value s = v.
Proof.
  unfold parse_dec. destruct s as [|c r].
  - split; [discriminate | intros [H _]; congruence].
  - rewrite <- all_digits_spec. destruct (all_digits (c :: r)).
    + split.
      * intros H. inversion H. split; [discriminate | auto].
      * intros [_ [_ H]]. congruence.
    + split; [discriminate | intros [_ [H _]]; discriminate].
Qed.

Lemma parse_dec_none s : parse_dec s = None <-> s = [] \/ ~ Forall digit_char s.
Proof.
  unfold parse_dec. destruct s as [|c r].
  - split; auto.
  - rewrite <- all_digits_spec. destruct (all_digits (c :: r)).
    + split; [discriminate | intros [H | H]; [discriminate | congruence]].
    + split; [intros _; right; discriminate | reflexivity].
Qed.

Lemma amount_ok_spec s : amount_ok s = true <-> amount_spec s.
Proof.
  unfold amount_ok, amount_spec. destruct (parse_dec s) as [v|] eqn:E.
  - apply parse_dec_some in E. destruct E as [A [B C]]. subst v.
    rewrite andb_true_iff, !N.ltb_lt. tauto.
  - apply parse_dec_none in E. split; [discriminate |]. intros [A [B _]]. tauto.
Qed.

(* the canonical decimal spelling of n is accepted exactly for 0 < n < 2^64 *)
Lemma amount_ok_show_dec n : amount_ok (show_dec n) = (0 <? n) && (n <? uint64_bound).
Proof. unfold amount_ok. rewrite parse_show_dec. reflexivity. Qed.

Lemma positive_int64_spec z : positive_int64 z = true <-> (0 < z)%Z.
Proof. unfold positive_int64. apply Z.ltb_lt. Qed.

Lemma digest_len_ok_spec d : digest_len_ok d = true <-> (1 <= length d <= 64)%nat.
Proof. unfold digest_len_ok. cbv zeta. rewrite andb_true_iff, !N.leb_le. lia. Qed.

Lemma status_ok_spec s : status_ok s = true <-> s = status_accepted \/ s = status_rejected.
Proof. unfold status_ok. rewrite orb_true_iff, !Z.eqb_eq. tauto. Qed.

Theorem bidder_bid_ok_spec txs amount bn ds de :
  bidder_bid_ok txs amount bn ds de = true <-> bidder_bid_spec txs amount bn ds de.
Proof.
  unfold bidder_bid_ok, bidder_bid_spec.
  rewrite !andb_true_iff, hashes_ok_spec, amount_ok_spec, !positive_int64_spec. tauto.
Qed.

Theorem provider_bid_ok_spec txs amount bn digest ds de :
  provider_bid_ok txs amount bn digest ds de = true <-> provider_bid_spec txs amount bn digest ds de.
Proof.
  unfold provider_bid_ok, provider_bid_spec.
  rewrite !andb_true_iff, hashes_ok_spec, amount_ok_spec, !positive_int64_spec, digest_len_ok_spec. tauto.
Qed.

Theorem provider_response_ok_spec digest status :
  provider_response_ok digest status = true <-> provider_response_spec digest status.
Proof. unfold provider_response_ok, provider_response_spec. apply status_ok_spec. Qed.

Lemma prepay_ok_spec s : prepay_ok s = true <-> amount_spec s.
Proof. apply amount_ok_spec. Qed.
Lemma stake_ok_spec s : stake_ok s = true <-> amount_spec s.
Proof. apply amount_ok_spec. Qed.

(* Each refusal cause of the property statement, one by one. *)
Lemma bidder_bid_refuses_empty amount bn ds de : bidder_bid_ok [] amount bn ds de = false.
Proof. reflexivity. Qed.

Lemma bidder_bid_refuses_bad_hash txs amount bn ds de h :
  In h txs -> ~ hash64_spec h -> bidder_bid_ok txs amount bn ds de = false.
Proof.
  intros Hin Hbad. apply not_true_iff_false. rewrite bidder_bid_ok_spec.
  intros [[_ HF] _]. rewrite Forall_forall in HF. auto.
Qed.

Lemma bidder_bid_refuses_bad_amount txs amount bn ds de :
  ~ amount_spec amount -> bidder_bid_ok txs amount bn ds de = false.
Proof. intros H. apply not_true_iff_false. rewrite bidder_bid_ok_spec. unfold bidder_bid_spec. tauto. Qed.

Lemma bidder_bid_refuses_nonpositive txs amount bn ds de :
  (bn <= 0 \/ ds <= 0 \/ de <= 0)%Z -> bidder_bid_ok txs amount bn ds de = false.
Proof. intros H. apply not_true_iff_false. rewrite bidder_bid_ok_spec. unfold bidder_bid_spec. lia. Qed.

Theorem bidder_bid_refusal_causes txs amount bn ds de :
  (txs = [] \/ (exists h, In h txs /\ ~ hash64_spec h) \/ ~ amount_spec amount \/
   (bn <= 0)%Z \/ (ds <= 0)%Z \/ (de <= 0)%Z) ->
  bidder_bid_ok txs amount bn ds de = false.
Proof.
  intros [-> | [[h [Hin Hbad]] | [Ha | Hz]]].
  - apply bidder_bid_refuses_empty.
  - eapply bidder_bid_refuses_bad_hash; eauto.
  - apply bidder_bid_refuses_bad_amount; assumption.
  - apply bidder_bid_refuses_nonpositive; assumption.
Qed.

(* a well-formed hash is the hex spelling of exactly 32 bytes *)
Lemma hex_chars_unhex : forall n h,
  length h = (2 * n)%nat -> Forall hex_char h ->
  exists b, unhex h = Some b /\ length b = n.
Proof.
  induction n as [|n IH]; intros h Hl Hf.
  - destruct h; [exists []; auto | discriminate].
  - destruct h as [|c1 [|c2 r]]; [simpl in Hl; lia | simpl in Hl; lia |].
    apply Forall_cons_iff in Hf. destruct Hf as [H1 Hf1]. apply Forall_cons_iff in Hf1. destruct Hf1 as [H2 Hf2].
    destruct (IH r) as [b [Hb Hlb]]; [simpl in Hl; lia | assumption |].
    assert (V : forall c, hex_char c -> exists v, hex_val c = Some v).
    { intros c Hc. unfold hex_val.
      destruct ((48 <=? c) && (c <=? 57)) eqn:E1; [eauto|].
      destruct ((97 <=? c) && (c <=? 102)) eqn:E2; [eauto|].
      destruct ((65 <=? c) && (c <=? 70)) eqn:E3; [eauto|].
      exfalso. rewrite andb_false_iff, !N.leb_gt in E1, E2, E3. unfold hex_char in Hc. lia. }
    destruct (V c1 H1) as [v1 E1]. destruct (V c2 H2) as [v2 E2].
    exists (16 * v1 + v2 :: b). split.
    + cbn [unhex]. rewrite E1, E2, Hb. reflexivity.
    + simpl. lia.
Qed.

Lemma hash64_ok_unhex h : hash64_ok h = true -> exists b, unhex h = Some b /\ length b = 32%nat.
Proof. intros H. apply hash64_ok_spec in H. destruct H as [A B]. apply hex_chars_unhex; auto. Qed.

(* a well-formed hash contains no comma (needed for split (join hashes) = hashes) *)
Lemma hash64_ok_no_comma h : hash64_ok h = true -> ~ In 44 h.
Proof.
  intros H Hin. apply hash64_ok_spec in H. destruct H as [_ B].
  rewrite Forall_forall in B. specialize (B _ Hin). unfold hex_char in B. lia.
Qed.

(* ---------------------------------------------------------------------------------------- *)
(* The int64 domain of the numeric fields                                                    *)
(* ---------------------------------------------------------------------------------------- *)
(* The rule functions take Z; the fields of the messages are int64.  A value decoded from the
   wire (protobuf varint payload truncated to 64 bits, read as two's complement) is always in
   range, so the premise [int64_range] costs nothing for messages that arrived over gRPC. *)
Definition int64_of_wire (u : N) : Z :=
  if u <? 9223372036854775808 then Z.of_N u else (Z.of_N u - 18446744073709551616)%Z.

Lemma int64_of_wire_range u : u < uint64_bound -> int64_range (int64_of_wire u).
Proof.
  unfold int64_of_wire, int64_range, int64_min, int64_max, uint64_bound. intros H.
  destruct (N.ltb_spec u 9223372036854775808); lia.
Qed.
Lemma int64_of_wire_truncated u : int64_range (int64_of_wire (u mod uint64_bound)).
Proof. apply int64_of_wire_range. apply N.mod_lt. discriminate. Qed.
(* on the wire "positive" means 0 < u < 2^63 *)
Lemma positive_int64_wire u :
  u < uint64_bound -> (positive_int64 (int64_of_wire u) = true <-> 0 < u < 9223372036854775808).
Proof.
  intros H. rewrite positive_int64_spec. unfold int64_of_wire, uint64_bound in *.
  destruct (N.ltb_spec u 9223372036854775808); lia.
Qed.

Theorem bidder_bid_ok_int64 txs amount bn ds de :
  int64_range bn -> int64_range ds -> int64_range de ->
  (bidder_bid_ok txs amount bn ds de = true <->
   hashes_spec txs /\ amount_spec amount /\
   (0 < bn <= int64_max)%Z /\ (0 < ds <= int64_max)%Z /\ (0 < de <= int64_max)%Z).
Proof.
  unfold int64_range. intros Hb Hs He. rewrite bidder_bid_ok_spec. unfold bidder_bid_spec. intuition lia.
Qed.

Theorem provider_bid_ok_int64 txs amount bn digest ds de :
  int64_range bn -> int64_range ds -> int64_range de ->
  (provider_bid_ok txs amount bn digest ds de = true <->
   hashes_spec txs /\ amount_spec amount /\ (0 < bn <= int64_max)%Z /\
   (1 <= length digest <= 64)%nat /\ (0 < ds <= int64_max)%Z /\ (0 < de <= int64_max)%Z).
Proof.
  unfold int64_range. intros Hb Hs He. rewrite provider_bid_ok_spec. unfold provider_bid_spec. intuition lia.
Qed.

(* accepted numbers are in range whenever they were in range to begin with -- and a value
   outside int64 is not excluded by the rule itself: *)
Example rule_alone_accepts_beyond_int64 :
  positive_int64 9223372036854775808 = true /\ ~ int64_range 9223372036854775808.
Proof. split; [reflexivity | unfold int64_range, int64_max; lia]. Qed.

(* ---------------------------------------------------------------------------------------- *)
(* Bytes versus runes: the regular expressions are matched on decoded UTF-8                  *)
(* ---------------------------------------------------------------------------------------- *)
(* RE2 (Go regexp) walks the string rune by rune.  Whatever the exact decoder does, it has
   this shape: an ASCII byte is one rune equal to the byte; a byte >= 0x80 starts a sequence
   of one or more bytes (a well-formed multi-byte character, or a single invalid byte) that
   yields one rune >= 0x80 (the character, or U+FFFD). *)
Inductive utf8_decodes : bytes -> list N -> Prop :=
  | dec_nil : utf8_decodes [] []
  | dec_ascii c r rs : c < 128 -> utf8_decodes r rs -> utf8_decodes (c :: r) (c :: rs)
  | dec_multi c cont r ru rs :
      128 <= c -> 128 <= ru -> utf8_decodes r rs -> utf8_decodes (c :: cont ++ r) (ru :: rs).

(* '^[a-fA-F0-9]{64}$' and '^[0-9]+$' on the rune sequence *)
Definition re_hex64 (runes : list N) : Prop := length runes = 64%nat /\ Forall hex_char runes.
Definition re_digits (runes : list N) : Prop := runes <> [] /\ Forall digit_char runes.

Lemma decodes_ascii_bytes s rs : utf8_decodes s rs -> Forall (fun c => c < 128) s -> rs = s.
Proof.
  induction 1 as [|c r rs Hc _ IH|c cont r ru rs Hc Hru _ IH]; intros HF; [reflexivity| |].
  - apply Forall_cons_iff in HF. destruct HF as [_ HF]. rewrite (IH HF). reflexivity.
  - apply Forall_cons_iff in HF. destruct HF as [HF _]. lia.
Qed.
Lemma decodes_ascii_runes s rs : utf8_decodes s rs -> Forall (fun c => c < 128) rs -> rs = s.
Proof.
  induction 1 as [|c r rs Hc _ IH|c cont r ru rs Hc Hru _ IH]; intros HF; [reflexivity| |].
  - apply Forall_cons_iff in HF. destruct HF as [_ HF]. rewrite (IH HF). reflexivity.
  - apply Forall_cons_iff in HF. destruct HF as [HF _]. lia.
Qed.

Lemma hex_chars_ascii l : Forall hex_char l -> Forall (fun c => c < 128) l.
Proof. apply Forall_impl. unfold hex_char. intros c H. lia. Qed.
Lemma digit_chars_ascii l : Forall digit_char l -> Forall (fun c => c < 128) l.
Proof. apply Forall_impl. unfold digit_char. intros c H. lia. Qed.

(* the byte-level reading of both published classes is exact, for valid and invalid UTF-8 *)
Theorem hash64_rune_level s rs : utf8_decodes s rs -> (re_hex64 rs <-> hash64_spec s).
Proof.
  intros D. unfold re_hex64, hash64_spec. split; intros [A B].
  - rewrite <- (decodes_ascii_runes s rs D (hex_chars_ascii _ B)). auto.
  - rewrite (decodes_ascii_bytes s rs D (hex_chars_ascii _ B)). auto.
Qed.
Theorem digits_rune_level s rs : utf8_decodes s rs -> (re_digits rs <-> s <> [] /\ Forall digit_char s).
Proof.
  intros D. unfold re_digits. split; intros [A B].
  - rewrite <- (decodes_ascii_runes s rs D (digit_chars_ascii _ B)). auto.
  - rewrite (decodes_ascii_bytes s rs D (digit_chars_ascii _ B)). auto.
Qed.

Theorem rules_rune_level s runes :
  utf8_decodes s runes ->
  ((length runes = 64%nat /\ Forall hex_char runes) <-> (length s = 64%nat /\ Forall hex_char s)) /\
  ((runes <> [] /\ Forall digit_char runes) <-> (s <> [] /\ Forall digit_char s)).
Proof. intros D. split; [exact (hash64_rune_level s runes D) | exact (digits_rune_level s runes D)]. Qed.

(* 62 hex digits followed by a two-byte character: 64 bytes but 63 runes; and an invalid byte *)
Example decodes_e_acute : utf8_decodes [49; 195; 169; 50] [49; 233; 50].
Proof. apply dec_ascii; [lia|]. apply (dec_multi 195 [169] [50] 233 [50]); try lia. apply dec_ascii; [lia|]. constructor. Qed.
Example decodes_invalid : utf8_decodes [255; 49] [65533; 49].
Proof. apply (dec_multi 255 [] [49] 65533 [49]); try lia. apply dec_ascii; [lia|]. constructor. Qed.

(* ---------------------------------------------------------------------------------------- *)
(* The CEL-shaped layer agrees with the boolean layer                                        *)
(* ---------------------------------------------------------------------------------------- *)

Lemma hashes_rule_holds hs : cel_holds (hashes_rule hs) = hashes_ok hs.
Proof.
  unfold hashes_rule, hashes_ok. destruct (forallb hash64_ok hs); destruct hs; reflexivity.
Qed.
Lemma hashes_rule_no_error hs : hashes_rule hs <> CErr.
Proof. unfold hashes_rule. destruct (forallb hash64_ok hs); destruct hs; discriminate. Qed.

Lemma matches_digits_parse s : matches_digits s = match parse_dec s with Some _ => true | None => false end.
Proof. unfold matches_digits, parse_dec. destruct s; [reflexivity|]. destruct (all_digits (n :: s)); reflexivity. Qed.

Lemma amount_rule_holds s : cel_holds (amount_rule s) = amount_ok s.
Proof.
  unfold amount_rule, amount_ok, cel_uint_of_string. rewrite matches_digits_parse.
  destruct (parse_dec s) as [v|]; [|reflexivity].
  destruct (v <? uint64_bound); cbn [cel_gt0 cel_of_bool].
  - destruct (0 <? v); reflexivity.
  - rewrite andb_false_r. reflexivity.
Qed.
(* ... and the runtime-error class of the amount rule: digits only, value >= 2^64 *)
Lemma amount_rule_error s :
  amount_rule s = CErr <-> s <> [] /\ Forall digit_char s /\ uint64_bound <= dec_value s.
Proof.
  unfold amount_rule, cel_uint_of_string. rewrite matches_digits_parse.
  destruct (parse_dec s) as [v|] eqn:E.
  - apply parse_dec_some in E. destruct E as [A [B C]]. subst v.
    destruct (dec_value s <? uint64_bound) eqn:L; cbn [cel_gt0 cel_of_bool cel_and].
    + apply N.ltb_lt in L. destruct (0 <? dec_value s); (split; [discriminate | lia]).
    + apply N.ltb_ge in L. tauto.
  - apply parse_dec_none in E. cbn. split; [discriminate | tauto].
Qed.

Lemma uint_pos_rule_holds z : cel_holds (uint_pos_rule z) = positive_int64 z.
Proof.
  unfold uint_pos_rule, cel_uint_of_int, positive_int64.
  destruct (z <? 0)%Z eqn:E; cbn [cel_gt0 cel_holds].
  - apply Z.ltb_lt in E. symmetry. apply Z.ltb_ge. lia.
  - apply Z.ltb_ge in E. destruct (0 <? z)%Z eqn:F.
    + apply Z.ltb_lt in F. replace (0 <? Z.to_N z) with true; [reflexivity|]. symmetry. apply N.ltb_lt. lia.
    + apply Z.ltb_ge in F. replace (0 <? Z.to_N z) with false; [reflexivity|]. symmetry. apply N.ltb_ge. lia.
Qed.
Lemma uint_pos_rule_error z : uint_pos_rule z = CErr <-> (z < 0)%Z.
Proof.
  unfold uint_pos_rule, cel_uint_of_int. destruct (z <? 0)%Z eqn:E; cbn [cel_gt0].
  - apply Z.ltb_lt in E. tauto.
  - apply Z.ltb_ge in E. destruct (0 <? Z.to_N z); cbn; (split; [discriminate | lia]).
Qed.

Lemma merge_results_ok l : merge_results l = ROk <-> forallb cel_holds l = true.
Proof.
  unfold merge_results. induction l as [|c r IH]; [cbn; tauto|].
  cbn [existsb forallb]. destruct c; cbn [is_cerr is_cfalse cel_holds orb andb].
  - exact IH.
  - destruct (existsb is_cerr r); split; discriminate.
  - split; discriminate.
Qed.
Lemma merge_results_runtime l : merge_results l = RRuntime <-> In CErr l.
Proof.
  unfold merge_results. destruct (existsb is_cerr l) eqn:E.
  - apply existsb_exists in E. destruct E as [c [Hc Hx]]. destruct c; try discriminate. tauto.
  - split.
    + destruct (existsb is_cfalse l); discriminate.
    + intros Hin. assert (existsb is_cerr l = true) by (apply existsb_exists; exists CErr; auto). congruence.
Qed.

Theorem bidder_bid_verdict_ok txs amount bn ds de :
  bidder_bid_verdict txs amount bn ds de = ROk <-> bidder_bid_ok txs amount bn ds de = true.
Proof.
  unfold bidder_bid_verdict, eval_message. rewrite merge_results_ok.
  cbn [bidder_bid_rules eval_fields eval_rule forallb].
  rewrite hashes_rule_holds, amount_rule_holds, !uint_pos_rule_holds, andb_true_r.
  unfold bidder_bid_ok. rewrite !andb_assoc. tauto.
Qed.

(* the CEL runtime-error class of a bidder bid: an all-digit amount of 2^64 or more, or a
   negative number *)
Theorem bidder_bid_verdict_runtime txs amount bn ds de :
  bidder_bid_verdict txs amount bn ds de = RRuntime <->
  (amount <> [] /\ Forall digit_char amount /\ uint64_bound <= dec_value amount) \/
  (bn < 0)%Z \/ (ds < 0)%Z \/ (de < 0)%Z.
Proof.
  unfold bidder_bid_verdict, eval_message. rewrite merge_results_runtime.
  cbn [bidder_bid_rules eval_fields eval_rule In].
  rewrite <- amount_rule_error, <- !uint_pos_rule_error.
  pose proof (hashes_rule_no_error txs). intuition congruence.
Qed.

Theorem provider_bid_verdict_ok txs amount bn digest ds de :
  provider_bid_verdict txs amount bn digest ds de = ROk <-> provider_bid_ok txs amount bn digest ds de = true.
Proof.
  unfold provider_bid_verdict, eval_message. rewrite merge_results_ok.
  cbn [provider_bid_rules eval_fields eval_rule forallb].
  rewrite hashes_rule_holds, amount_rule_holds, !uint_pos_rule_holds, andb_true_r.
  unfold provider_bid_ok, positive_int64, digest_len_ok. cbv zeta.
  destruct (0 <? bn)%Z; destruct ((1 <=? N.of_nat (length digest)) && (N.of_nat (length digest) <=? 64));
    cbn [cel_of_bool cel_holds]; rewrite !andb_assoc; tauto.
Qed.

Theorem provider_response_verdict_ok digest status :
  provider_response_verdict digest status = ROk <-> provider_response_ok digest status = true.
Proof.
  unfold provider_response_verdict, eval_message. rewrite merge_results_ok.
  cbn [provider_response_rules eval_fields eval_rule forallb existsb cel_holds].
  unfold provider_response_ok, status_ok.
  rewrite orb_false_r, andb_true_r.
  destruct ((status =? status_accepted)%Z || (status =? status_rejected)%Z); cbn; tauto.
Qed.
(* a provider response is never a runtime error *)
Lemma provider_response_verdict_no_runtime digest status :
  provider_response_verdict digest status <> RRuntime.
Proof.
  unfold provider_response_verdict, eval_message. rewrite merge_results_runtime.
  cbn [provider_response_rules eval_fields eval_rule In existsb].
  destruct ((status =? status_accepted)%Z || ((status =? status_rejected)%Z || false)); cbn; intuition discriminate.
Qed.

Lemma prepay_verdict_ok s : prepay_verdict s = ROk <-> prepay_ok s = true.
Proof.
  unfold prepay_verdict, eval_message. rewrite merge_results_ok.
  cbn [prepay_rules eval_fields eval_rule forallb]. rewrite amount_rule_holds, andb_true_r. reflexivity.
Qed.
Lemma stake_verdict_ok s : stake_verdict s = ROk <-> stake_ok s = true.
Proof. exact (prepay_verdict_ok s). Qed.

(* ---------------------------------------------------------------------------------------- *)
(* The tables carry the published texts (compared with the compiled descriptors by the C19   *)
(* correspondence, class "rule-text")                                                        *)
(* ---------------------------------------------------------------------------------------- *)

Lemma bidder_bid_rule_texts :
  rule_texts bidder_bid_rules =
  [ (bos "tx_hashes", bos "cel{id=tx_hashes,expression=this.all(r, r.matches('^[a-fA-F0-9]{64}$')) && size(this) > 0}");
    (bos "amount", bos "cel{id=amount,expression=this.matches('^[0-9]+$') && uint(this) > 0}");
    (bos "block_number", bos "cel{id=block_number,expression=uint(this) > 0}");
    (bos "decay_start_timestamp", bos "cel{id=decay_start_timestamp,expression=uint(this) > 0}");
    (bos "decay_end_timestamp", bos "cel{id=decay_end_timestamp,expression=uint(this) > 0}") ].
Proof. vm_compute. reflexivity. Qed.

Lemma provider_bid_rule_texts :
  rule_texts provider_bid_rules =
  [ (bos "tx_hashes", bos "cel{id=tx_hashes,expression=this.all(r, r.matches('^[a-fA-F0-9]{64}$')) && size(this) > 0}");
    (bos "bid_amount", bos "cel{id=bid_amount,expression=this.matches('^[0-9]+$') && uint(this) > 0}");
    (bos "block_number", bos "int64{gt=0}");
    (bos "bid_digest", bos "bytes{min_len=1,max_len=64}");
    (bos "decay_start_timestamp", bos "cel{id=decay_start_timestamp,expression=uint(this) > 0}");
    (bos "decay_end_timestamp", bos "cel{id=decay_end_timestamp,expression=uint(this) > 0}") ].
Proof. vm_compute. reflexivity. Qed.

Lemma provider_response_rule_texts :
  rule_texts provider_response_rules =
  [ (bos "bid_digest", []); (bos "status", bos "enum{defined_only=true,in=[1,2]}") ].
Proof. vm_compute. reflexivity. Qed.

Lemma prepay_rule_texts :
  rule_texts prepay_rules = [ (bos "amount", bos "cel{id=amount,expression=this.matches('^[0-9]+$') && uint(this) > 0}") ].
Proof. vm_compute. reflexivity. Qed.
Lemma stake_rule_texts : rule_texts stake_rules = rule_texts prepay_rules.
Proof. reflexivity. Qed.

(* ---------------------------------------------------------------------------------------- *)
(* Non-vacuity and boundary examples                                                         *)
(* ---------------------------------------------------------------------------------------- *)

Definition sample_hash : bytes := bos "fe4cb47db3630551beedfbd02a71ecc69fd59758e2ba699606e2d5c74284ffA7".

Example hash64_accepts_mixed_case : hash64_ok sample_hash = true.
Proof. vm_compute. reflexivity. Qed.
Example hash64_refuses_0x_prefix : hash64_ok (bos "0xfe4cb47db3630551beedfbd02a71ecc69fd59758e2ba699606e2d5c74284ff") = false.
Proof. vm_compute. reflexivity. Qed.
Example hash64_refuses_63 : hash64_ok (tl sample_hash) = false.
Proof. vm_compute. reflexivity. Qed.
Example hash64_refuses_65 : hash64_ok (48 :: sample_hash) = false.
Proof. vm_compute. reflexivity. Qed.
Example hash64_refuses_trailing_newline : hash64_ok (tl sample_hash ++ [10]) = false.
Proof. vm_compute. reflexivity. Qed.

Example amount_boundaries :
  map amount_ok [bos "0"; bos "1"; bos "007"; bos "18446744073709551615"; bos "18446744073709551616";
                 bos "+5"; bos "-1"; bos ""; bos "1 "; [49; 10]; bos "1e3"; x "d9a3"] =
  [false; true; true; true; false; false; false; false; false; false; false; false].
Proof. vm_compute. reflexivity. Qed.
Example amount_runtime_class :
  map amount_rule [bos "18446744073709551615"; bos "18446744073709551616"; bos "0"; bos "x"] =
  [CTrue; CErr; CFalse; CFalse].
Proof. vm_compute. reflexivity. Qed.

Example bidder_bid_accepts : bidder_bid_ok [sample_hash; sample_hash] (bos "1000000000000000000") 123456 1 2 = true.
Proof. vm_compute. reflexivity. Qed.
Example bidder_bid_verdict_classes :
  ( bidder_bid_verdict [sample_hash] (bos "1") 1 1 1,
    bidder_bid_verdict [] (bos "1") 1 1 1,
    bidder_bid_verdict [sample_hash] (bos "1") 0 1 1,
    bidder_bid_verdict [sample_hash] (bos "x") 1 1 (-1) ) = (ROk, RInvalid, RInvalid, RRuntime).
Proof. vm_compute. reflexivity. Qed.
Example provider_bid_accepts : provider_bid_ok [sample_hash] (bos "5") 7 (x "00") 1 2 = true.
Proof. vm_compute. reflexivity. Qed.
Example provider_bid_refuses_empty_digest : provider_bid_ok [sample_hash] (bos "5") 7 [] 1 2 = false.
Proof. vm_compute. reflexivity. Qed.
Example provider_response_classes :
  map (provider_response_ok []) [0; 1; 2; 3; -1]%Z = [false; true; true; false; false].
Proof. vm_compute. reflexivity. Qed.
