(* Composition of the provider path: C01 (handleBid machine, model/PreconfProvider.v) and C12 (the
   provider-API service underneath it) with C02 (model/Signer.v), C03 (model/Eip712.v) and C07
   (StoreCommitment calldata).

   In model/PreconfProvider.v two things are oracle values carried by the events: the answers of
   VerifyBid / CheckBidderAllowance in [Arrive], and the answer of ConstructPreConfirmation in
   [TakeDecision].  The first is instantiated by proofs/PreconfProvider_signed.v ([signed_history]); here the
   second is instantiated as well: [constructed_history K cr] says that the answer a handler consumes is
   the signer model's ConstructPreConfirmation ([kres K cr], a rendering of Signer.construct_preconf K cr)
   on the bid that very handler holds.  K is an arbitrary hash function, cr an arbitrary crypto library. *)
From Coq Require Import String List NArith ZArith Bool Lia.
From MevVerif Require Import lib.Bytes lib.Abi proofs.Bytes_proofs model.Eip712 model.Signer
  proofs.Eip712_proofs proofs.Signer_proofs.
From MevVerif Require Import model.Rules proofs.Rules_proofs model.ProviderSvc proofs.ProviderSvc_proofs
  model.PreconfProvider proofs.PreconfProvider_proofs proofs.PreconfProvider_traces proofs.PreconfProvider_signed.
From MevVerif Require proofs.Compose_bidder.
Import ListNotations.
Open Scope N_scope.
Arguments nset {A} k v l : simpl never.
Arguments ndel {A} k l : simpl never.
Arguments calldata keccak amt c : simpl never.

(* ---- the glue -------------------------------------------------------------------------------------- *)

(* the bid a handler holds, as the *Bid it passes on to ConstructPreConfirmation: digest and signature
   are present (a handler only holds bids that passed VerifyBid) *)
Definition to_wire (b : ProviderSvc.bid) : Eip712.bid :=
  {| Eip712.b_tx := b_tx b; Eip712.b_amt := b_amt b; Eip712.b_bn := b_bn b; Eip712.b_ds := b_ds b;
     Eip712.b_de := b_de b; Eip712.b_dig := Some (b_dig b); Eip712.b_sig := Some (b_sig b) |}.

Lemma to_wire_of_wire w d sg :
  Eip712.b_dig w = Some d -> Eip712.b_sig w = Some sg -> to_wire (of_wire w) = w.
Proof. destruct w. cbn. intros -> ->. reflexivity. Qed.

Lemma of_wire_to_wire b : of_wire (to_wire b) = b.
Proof. destruct b. reflexivity. Qed.

(* ConstructPreConfirmation(bid) of the signer model, rendered as the machine's construct_res: an error
   before the node key is used (VerifyBid or the hash refuse), SignHash failing on the digest, or the
   digest and the normalised signature *)
Definition commit_stub (w : Eip712.bid) : Eip712.preconf :=
  {| Eip712.c_bid := Some w; Eip712.c_dig := None; Eip712.c_sig := None; Eip712.c_prov := [] |}.
Definition kres (K : bytes -> bytes) (cr : crypto) (w : Eip712.bid) : construct_res :=
  match verify_bid K cr w with
  | Ok _ =>
      match commitment_hash K (commit_stub w) with
      | Ok h => match sign_normalised cr h with Ok sg => KOk h sg | _ => KSignFail h end
      | _ => KFail
      end
  | _ => KFail
  end.

Lemma kres_ok K cr w d sg :
  kres K cr w = KOk d sg <->
  construct_preconf K cr (Some w) =
    Ok {| Eip712.c_bid := Some w; Eip712.c_dig := Some d; Eip712.c_sig := Some sg; Eip712.c_prov := [] |}.
Proof.
  unfold kres, construct_preconf, commit_stub.
  destruct (verify_bid K cr w); try (split; discriminate).
  destruct (commitment_hash K _) as [h| |]; try (split; discriminate).
  destruct (sign_normalised cr h) as [s| |]; try (split; discriminate).
  split; intros H; injection H as <- <-; reflexivity.
Qed.

Lemma kres_inv K cr w d sg :
  kres K cr w = KOk d sg ->
  (exists a, verify_bid K cr w = Ok a) /\ commitment_hash K (commit_stub w) = Ok d /\
  sign_normalised cr d = Ok sg.
Proof.
  unfold kres. destruct (verify_bid K cr w) as [a| |]; try discriminate.
  destruct (commitment_hash K _) as [h| |]; try discriminate.
  destruct (sign_normalised cr h) as [s| |] eqn:E; try discriminate.
  intros H. injection H as <- <-. eauto.
Qed.

(* ---- provenance of a written commitment (a fact about the machine alone) ----------------------------- *)
Section Provenance.
  Variable K : bytes -> bytes.
  Variable V : validators.
  Variable W : wiring.

  (* c was built by handler h when it consumed the ConstructPreConfirmation answer KOk (digest, signature)
     while holding the bid c embeds *)
  Definition from_decision (evs : list event) (h : N) (c : preconf) : Prop :=
    exists pre post auto,
      evs = pre ++ TakeDecision h (KOk (c_dig c) (c_sig c)) :: post /\
      nget h (hs (run K V W pre)) = Some (HInSvc (c_bid c) auto).

  Lemma from_decision_snoc evs e h c : from_decision evs h c -> from_decision (evs ++ [e]) h c.
  Proof.
    intros (pre & post & auto & -> & Hh). exists pre, (post ++ [e]), auto.
    split; [rewrite <- app_assoc; reflexivity|exact Hh].
  Qed.

  Definition JInv (evs : list event) (s : st) : Prop :=
    (forall h c, nget h (hs s) = Some (HStoring c) \/ nget h (hs s) = Some (HWriting c) -> from_decision evs h c) /\
    (forall h c, In (HWrite h c) (heff s) -> from_decision evs h c).

  Lemma jinv_weaken evs e s : JInv evs s -> JInv (evs ++ [e]) s.
  Proof. intros [A B]. split; intros h c H; apply from_decision_snoc; auto. Qed.

  Lemma jinv_same evs s s' : JInv evs s -> hs s' = hs s -> heff s' = heff s -> JInv evs s'.
  Proof. intros [A B] E1 E2. split; intros h c; rewrite ?E1, ?E2; auto. Qed.

  (* a handler is put into a state that is neither storing nor writing, and only returns are recorded *)
  Lemma jinv_finish evs s h r : JInv evs s -> JInv evs (finish h r s).
  Proof.
    intros [A B]. split; intros h0 c; unfold finish, add_heff, set_h; cbn [hs heff].
    - rewrite nget_nset. destruct (h0 =? h); [intros [H|H]; discriminate|apply A].
    - intros [H|H]; [discriminate|apply B, H].
  Qed.

  Lemma jinv_set_insvc evs s h b auto : JInv evs s -> JInv evs (set_h h (HInSvc b auto) s).
  Proof.
    intros [A B]. split; intros h0 c; unfold set_h; cbn [hs heff]; [|apply B].
    rewrite nget_nset. destruct (h0 =? h); [intros [H|H]; discriminate|apply A].
  Qed.

  Lemma jinv_add_other evs s e0 : (forall h c, e0 <> HWrite h c) -> JInv evs s -> JInv evs (add_heff e0 s).
  Proof.
    intros Hn [A B]. split; intros h c; unfold add_heff; cbn [hs heff]; [apply A|].
    intros [H|H]; [exfalso; exact (Hn _ _ H)|apply B, H].
  Qed.

  Lemma jinv_on_status evs s h b stv k :
    JInv (evs ++ [TakeDecision h k]) s ->
    (forall d sg, k = KOk d sg -> from_decision (evs ++ [TakeDecision h k]) h {| c_bid := b; c_dig := d; c_sig := sg |}) ->
    JInv (evs ++ [TakeDecision h k]) (on_status K W h b stv k s).
  Proof.
    intros J Hk. unfold on_status.
    assert (J1 : JInv (evs ++ [TakeDecision h k]) (add_heff (HTake h stv) s))
      by (apply jinv_add_other; [discriminate|exact J]).
    destruct (stv =? status_rejected)%Z; [apply jinv_finish, J1|].
    destruct (stv =? status_accepted)%Z; [|apply jinv_finish, J1].
    destruct k as [|d|d sg].
    - apply jinv_finish, J1.
    - apply jinv_finish, jinv_add_other; [discriminate|exact J1].
    - assert (J2 : JInv (evs ++ [TakeDecision h (KOk d sg)]) (add_heff (HSign h d) (add_heff (HTake h stv) s)))
        by (apply jinv_add_other; [discriminate|exact J1]).
      specialize (Hk d sg eq_refl).
      destruct (w_da_contract W).
      + destruct (parse_bigint (b_amt b)); [|apply jinv_finish, J2].
        assert (J3 := jinv_add_other _ _ (HSend h (w_contract W) (calldata K z {| c_bid := b; c_dig := d; c_sig := sg |}))
                        ltac:(discriminate) J2).
        destruct J3 as [A B]. split; intros h0 c; unfold set_h; cbn [hs heff]; [|apply B].
        rewrite nget_nset. destruct (N.eqb_spec h0 h) as [->|_]; [|apply A].
        intros [H|H]; [injection H as <-; exact Hk|discriminate].
      + destruct J2 as [A B]. split; intros h0 c; unfold set_h, add_heff; cbn [hs heff].
        * rewrite nget_nset. destruct (N.eqb_spec h0 h) as [->|_]; [|apply A].
          intros [H|H]; [discriminate|injection H as <-; exact Hk].
        * intros [H|H]; [injection H as <- <-; exact Hk|apply B, H].
  Qed.

  Lemma jinv_step evs e : JInv evs (run K V W evs) -> JInv (evs ++ [e]) (step K V W (run K V W evs) e).
  Proof.
    set (s := run K V W evs). intros J. pose proof (jinv_weaken evs e s J) as Jw.
    unfold step. destruct (panicked (svc s)); [exact Jw|].
    destruct e as [h role o|h|h|sid d stv|sid|sid|h k|h|h ok|h ok].
    - unfold arrive. destruct (nget h (hs s)); [exact Jw|]. destruct (nget h (calls (svc s))); [exact Jw|].
      set (s0 := {| svc := svc s; hs := hs s; arr := nset h (role, o) (arr s); heff := heff s |}).
      assert (J0 : JInv (evs ++ [Arrive h role o]) s0) by (apply (jinv_same _ s); [exact Jw|reflexivity|reflexivity]).
      destruct (gate_class role o); [apply jinv_finish, J0|].
      destruct (o_read o) as [b|]; [|apply jinv_finish, J0].
      destruct (w_processor_api W); [|apply jinv_set_insvc, J0].
      assert (J1 : JInv (evs ++ [Arrive h role o]) (set_svc (submit V h b (svc s0)) s0))
        by (apply (jinv_same _ s0); [exact J0|reflexivity|reflexivity]).
      destruct (vbid V (to_engine b)); [apply jinv_set_insvc, J1|apply jinv_finish, J1].
    - unfold engine_take. destruct (nget h (hs s)) as [[b [|]|c|c|r]|]; exact Jw.
    - unfold abandon_h. destruct (nget h (hs s)) as [[b [|]|c|c|r]|]; try exact Jw.
      destruct (nget h (calls (svc s))) as [[b0|b0|b0|b0]|]; try exact Jw.
      apply jinv_finish. apply (jinv_same _ s); [exact Jw|reflexivity|reflexivity].
    - apply (jinv_same _ s); [exact Jw|reflexivity|reflexivity].
    - apply (jinv_same _ s); [exact Jw|reflexivity|reflexivity].
    - apply (jinv_same _ s); [exact Jw|reflexivity|reflexivity].
    - unfold take_decision. destruct (nget h (hs s)) as [[b [|]|c|c|r]|] eqn:Hh; try exact Jw.
      + apply (jinv_on_status evs s h b); [exact Jw|].
        intros d sg ->. exists evs, [], true. split; [reflexivity|exact Hh].
      + destruct (nget h (calls (svc s))) as [[b0|b0|b0|b0]|]; try exact Jw.
        destruct (chan_recv h (svc s)) as [[stv|] x]; [|exact Jw].
        apply (jinv_on_status evs (set_svc x s) h b).
        * apply (jinv_same _ s); [exact Jw|reflexivity|reflexivity].
        * intros d sg ->. exists evs, [], false. split; [reflexivity|exact Hh].
    - unfold deadline_fire. destruct (nget h (hs s)) as [[b [|]|c|c|r]|]; try exact Jw.
      + apply jinv_finish, Jw.
      + destruct (nget h (calls (svc s))) as [[b0|b0|b0|b0]|]; try exact Jw. apply jinv_finish, Jw.
    - unfold store_res. destruct (nget h (hs s)) as [[b a|c|c|r]|] eqn:Hh; try exact Jw.
      destruct ok.
      + destruct Jw as [A B]. assert (Hc : from_decision (evs ++ [StoreRes h true]) h c) by (apply A; left; exact Hh).
        split; intros h0 c0; unfold set_h, add_heff; cbn [hs heff].
        * rewrite nget_nset. destruct (N.eqb_spec h0 h) as [->|_]; [|apply A].
          intros [H|H]; [discriminate|injection H as <-; exact Hc].
        * intros [H|[H|H]]; [injection H as <- <-; exact Hc|discriminate|apply B, H].
      + apply jinv_finish, jinv_add_other; [discriminate|exact Jw].
    - unfold write_res. destruct (nget h (hs s)) as [[b a|c|c|r]|]; try exact Jw. apply jinv_finish, Jw.
  Qed.

  Lemma run_jinv evs : JInv evs (run K V W evs).
  Proof.
    induction evs as [|e evs IH] using rev_ind.
    - split; [intros h c [H|H]; discriminate|intros h c []].
    - rewrite PreconfProvider_proofs.run_app. apply jinv_step, IH.
  Qed.

  (* every commitment written was built from a ConstructPreConfirmation answer consumed by that handler
     while it held the embedded bid *)
  Theorem written_from_decision evs h c :
    In (HWrite h c) (heff (run K V W evs)) -> from_decision evs h c.
  Proof. intros H. exact (proj2 (run_jinv evs) h c H). Qed.
End Provenance.

(* ---- 1. the provider path -------------------------------------------------------------------------- *)

(* the ConstructPreConfirmation answer consumed by a handler is the signer model's, on the bid the handler
   holds (handleBid passes the bid it read and verified) *)
Definition constructed_history (K : bytes -> bytes) (cr : crypto) (V : validators) (W : wiring)
           (evs : list event) : Prop :=
  forall pre h k post b auto,
    evs = pre ++ TakeDecision h k :: post ->
    nget h (hs (run K V W pre)) = Some (HInSvc b auto) -> k = kres K cr (to_wire b).

(* Go int64 range of the three numeric fields (the published rules only say "positive") *)
Definition int64_fields (b : ProviderSvc.bid) : Prop :=
  (b_bn b <= int64_max)%Z /\ (b_ds b <= int64_max)%Z /\ (b_de b <= int64_max)%Z.

Section ProviderPath.
  Variable K : bytes -> bytes.
  Variable cr : crypto.
  Variable addr : bytes.                       (* the configured preconf contract *)
  Variable evs : list event.
  Hypothesis signed : signed_history K cr evs.
  Hypothesis constructed : constructed_history K cr rules_validators (node_wiring addr) evs.

  Let S := run K rules_validators (node_wiring addr) evs.

  Variables (h : N) (c : preconf).
  Hypothesis written : In (HWrite h c) (heff S).

  Let b := c_bid c.
  Let w := to_wire b.

  (* (a) + gates: the commitment embeds the very bid that handler h read from the wire, which VerifyBid of
     the signer model accepted (signer a, allowance yes) and which satisfies the published format rules;
     the engine accepted exactly its digest *)
  Lemma written_bid_read :
    exists allowf a,
      In (Arrive h role_bidder (oracle_of K cr allowf (Some w))) evs /\
      verify_bid K cr w = Ok a /\ allowf a = true /\ bid_hash K w = Ok (b_dig b) /\
      provider_bid_ok (split comma (b_tx b)) (b_amt b) (b_bn b) (b_dig b) (b_ds b) (b_de b) = true /\
      (exists sid, In (Lookup sid (b_dig b) status_accepted) evs).
  Proof.
    destruct (gate_signed K cr addr evs (HWrite h c) signed written eq_refl)
      as (role & allowf & w0 & d & sg & a & HA & -> & Hd & Hsg & Hh & Hl & Hrec & Hal & Hf & Hlk & _ & Hw).
    cbn [eff_handler] in HA. specialize (Hw h c eq_refl).
    assert (Ew : w = w0) by (unfold w, b; rewrite Hw; exact (to_wire_of_wire w0 d sg Hd Hsg)).
    assert (Ed : b_dig b = d) by (unfold b; rewrite Hw; unfold of_wire; cbn [b_dig]; rewrite Hd; reflexivity).
    exists allowf, a. rewrite Ew, Ed. split; [exact HA|]. split.
    - apply verify_bid_iff. exists d, sg. repeat split; assumption.
    - split; [exact Hal|]. split; [exact Hh|]. split; [|exact Hlk].
      unfold b. rewrite Hw. unfold of_wire. cbn [b_tx b_amt b_bn b_ds b_de]. exact Hf.
  Qed.

  (* (c) the digest and signature of the commitment are the signer model's ConstructPreConfirmation on that bid *)
  Lemma written_constructed :
    construct_preconf K cr (Some w) =
      Ok {| Eip712.c_bid := Some w; Eip712.c_dig := Some (c_dig c); Eip712.c_sig := Some (c_sig c); Eip712.c_prov := [] |} /\
    commitment_hash K (commit_stub w) = Ok (c_dig c) /\ sign_normalised cr (c_dig c) = Ok (c_sig c).
  Proof.
    destruct (written_from_decision K rules_validators (node_wiring addr) evs h c written)
      as (pre & post & auto & E & Hh).
    pose proof (constructed pre h _ post _ auto E Hh) as Hk. symmetry in Hk. fold b in Hk. fold w in Hk.
    split; [apply kres_ok, Hk|]. destruct (kres_inv K cr w _ _ Hk) as (_ & H1 & H2). split; assumption.
  Qed.

  (* (b) C03: bid digest and commitment digest are the generic EIP-712 hashes *)
  Lemma written_eip712 :
    int64_fields b ->
    exists A, parse_dec (b_amt b) = Some A /\ 0 < A < 18446744073709551616 /\
      b_dig b = eip712_bid K (b_tx b) A (Z.to_N (b_bn b)) (Z.to_N (b_ds b)) (Z.to_N (b_de b)) /\
      c_dig c = eip712_commitment K (b_tx b) A (Z.to_N (b_bn b)) (Z.to_N (b_ds b)) (Z.to_N (b_de b))
                                  (b_dig b) (b_sig b).
  Proof.
    intros (I1 & I2 & I3). unfold int64_max in *.
    destruct written_bid_read as (allowf & a & _ & _ & _ & Hh & Hf & _).
    apply provider_bid_ok_spec in Hf. destruct Hf as (_ & (Hne & Hdg & Hv) & Pb & _ & Ps & Pe).
    set (A := dec_value (b_amt b)).
    assert (Pd : parse_dec (b_amt b) = Some A) by (apply parse_dec_some; auto).
    pose proof (Compose_bidder.parse_amount_of_parse_dec _ _ Pd) as Pa.
    unfold uint64_bound in Hv.
    exists A. split; [exact Pd|]. split; [exact Hv|].
    assert (RA : (0 <= Z.of_N A < 2 ^ 64)%Z) by (change (2 ^ 64)%Z with (Z.of_N 18446744073709551616); lia).
    assert (R63 : forall z, (0 < z)%Z -> (z <= 9223372036854775807)%Z -> (0 <= z < 2 ^ 63)%Z)
      by (intros z; change (2 ^ 63)%Z with 9223372036854775808%Z; lia).
    split.
    - destruct (bid_hash_is_eip712 K w (Z.of_N A) Pa RA (R63 _ Pb I1) (R63 _ Ps I2) (R63 _ Pe I3)) as (E & _).
      rewrite E in Hh. injection Hh as Hh. rewrite <- Hh. cbn [w to_wire Eip712.b_tx Eip712.b_bn Eip712.b_ds Eip712.b_de].
      rewrite N2Z.id. reflexivity.
    - destruct written_constructed as (_ & Hc & _).
      destruct (commitment_hash_is_eip712 K (commit_stub w) w (Z.of_N A) eq_refl Pa RA
                  (R63 _ Pb I1) (R63 _ Ps I2) (R63 _ Pe I3)) as (E & _).
      rewrite E in Hc. injection Hc as Hc. rewrite <- Hc.
      cbn [w to_wire Eip712.b_tx Eip712.b_bn Eip712.b_ds Eip712.b_de Eip712.b_dig Eip712.b_sig obytes].
      rewrite N2Z.id. reflexivity.
  Qed.

  (* (c') C02 round trip: signed by the provider's key *)
  Lemma written_signed_by_provider pk :
    (forall hh sg, sign cr hh = Ok sg ->
       length sg = 65%nat /\ (nth_error sg 64 = Some 0 \/ nth_error sg 64 = Some 1) /\
       recover cr hh sg = Ok pk /\ verify_rs cr pk hh (firstn 64 sg) = true) ->
    verify_preconf K cr {| Eip712.c_bid := Some w; Eip712.c_dig := Some (c_dig c); Eip712.c_sig := Some (c_sig c);
                           Eip712.c_prov := [] |} = Ok (addr_of cr pk).
  Proof.
    intros RS. destruct written_constructed as (Hc & _).
    exact (construct_preconf_verifies K cr pk RS _ _ Hc).
  Qed.

  (* (d) C01_order + C07_args: preceded by a successful Send to the configured contract whose calldata decodes
     to the commitment's own values *)
  Lemma written_settled :
    In (HStored h true) (heff S) /\
    exists amt, parse_bigint (b_amt b) = Some amt /\ (0 < amt < 18446744073709551616)%Z /\
      In (HSend h addr (calldata K amt c)) (heff S) /\
      ((4 <= length (K (Abi.method_sig store_name store_tys)))%nat -> int64_fields b ->
       wf_bytes (b_tx b) -> wf_bytes (b_sig b) -> wf_bytes (c_sig c) ->
       Abi.blen (Abi.encode (store_args amt c)) < Abi.two63 ->
       Abi.decode_call store_tys (calldata K amt c) =
       Some (Abi.selector K (Abi.method_sig store_name store_tys),
             [Abi.VUint64 (Z.to_N amt); Abi.VUint64 (Z.to_N (b_bn b)); Abi.VString (b_tx b);
              Abi.VUint64 (Z.to_N (b_ds b)); Abi.VUint64 (Z.to_N (b_de b));
              Abi.VBytes (b_sig b); Abi.VBytes (c_sig c)])).
  Proof.
    destruct (order_node K addr evs h c written) as (Hst & amt & Hp & Hs).
    split; [exact Hst|]. exists amt. split; [exact Hp|].
    destruct written_bid_read as (_ & _ & _ & _ & _ & _ & Hf & _).
    assert (Hv : vbid rules_validators (to_engine (c_bid c)) = true) by exact Hf.
    assert (Ra : (0 < amt < 18446744073709551616)%Z).
    { apply provider_bid_ok_spec in Hf. destruct Hf as (_ & Ha & _).
      apply amount_ok_spec, amount_ok_parse in Ha. destruct Ha as (v & Hpv & Hv0 & Hv1).
      fold b in Hp. rewrite Hp in Hpv. injection Hpv as ->. unfold uint64_bound in Hv1. lia. }
    split; [exact Ra|]. split; [exact Hs|].
    intros Hk (I1 & I2 & I3) W1 W2 W3 Hl. unfold int64_max in *.
    apply (args_validated K c amt Hk Hv); try assumption; fold b; lia.
  Qed.
End ProviderPath.

(* The four parts in one statement. *)
Theorem written_commitment_is_eip712_and_settled (K : bytes -> bytes) (cr : crypto) addr evs h c :
  signed_history K cr evs -> constructed_history K cr rules_validators (node_wiring addr) evs ->
  In (HWrite h c) (heff (run K rules_validators (node_wiring addr) evs)) ->
  let S := run K rules_validators (node_wiring addr) evs in
  let b := c_bid c in
  let w := to_wire b in
  (exists allowf a,
     In (Arrive h role_bidder (oracle_of K cr allowf (Some w))) evs /\
     verify_bid K cr w = Ok a /\ allowf a = true /\ bid_hash K w = Ok (b_dig b) /\
     provider_bid_ok (split comma (b_tx b)) (b_amt b) (b_bn b) (b_dig b) (b_ds b) (b_de b) = true /\
     (exists sid, In (Lookup sid (b_dig b) status_accepted) evs)) /\
  (construct_preconf K cr (Some w) =
     Ok {| Eip712.c_bid := Some w; Eip712.c_dig := Some (c_dig c); Eip712.c_sig := Some (c_sig c); Eip712.c_prov := [] |} /\
   sign_normalised cr (c_dig c) = Ok (c_sig c)) /\
  (int64_fields b ->
   exists A, parse_dec (b_amt b) = Some A /\ 0 < A < 18446744073709551616 /\
     b_dig b = eip712_bid K (b_tx b) A (Z.to_N (b_bn b)) (Z.to_N (b_ds b)) (Z.to_N (b_de b)) /\
     c_dig c = eip712_commitment K (b_tx b) A (Z.to_N (b_bn b)) (Z.to_N (b_ds b)) (Z.to_N (b_de b))
                                 (b_dig b) (b_sig b)) /\
  (forall pk,
     (forall hh sg, sign cr hh = Ok sg ->
        length sg = 65%nat /\ (nth_error sg 64 = Some 0 \/ nth_error sg 64 = Some 1) /\
        recover cr hh sg = Ok pk /\ verify_rs cr pk hh (firstn 64 sg) = true) ->
     verify_preconf K cr {| Eip712.c_bid := Some w; Eip712.c_dig := Some (c_dig c); Eip712.c_sig := Some (c_sig c);
                            Eip712.c_prov := [] |} = Ok (addr_of cr pk)) /\
  (In (HStored h true) (heff S) /\
   exists amt, parse_bigint (b_amt b) = Some amt /\ (0 < amt < 18446744073709551616)%Z /\
     In (HSend h addr (calldata K amt c)) (heff S) /\
     ((4 <= length (K (Abi.method_sig store_name store_tys)))%nat -> int64_fields b ->
      wf_bytes (b_tx b) -> wf_bytes (b_sig b) -> wf_bytes (c_sig c) ->
      Abi.blen (Abi.encode (store_args amt c)) < Abi.two63 ->
      Abi.decode_call store_tys (calldata K amt c) =
      Some (Abi.selector K (Abi.method_sig store_name store_tys),
            [Abi.VUint64 (Z.to_N amt); Abi.VUint64 (Z.to_N (b_bn b)); Abi.VString (b_tx b);
             Abi.VUint64 (Z.to_N (b_ds b)); Abi.VUint64 (Z.to_N (b_de b));
             Abi.VBytes (b_sig b); Abi.VBytes (c_sig c)]))).
Proof.
  intros Hs Hc Hw S b w.
  split; [exact (written_bid_read K cr addr evs Hs h c Hw)|].
  split; [destruct (written_constructed K cr addr evs Hc h c Hw) as (H1 & _ & H3); split; assumption|].
  split; [exact (written_eip712 K cr addr evs Hs Hc h c Hw)|].
  split; [exact (written_signed_by_provider K cr addr evs Hc h c Hw)|].
  exact (written_settled K cr addr evs Hs h c Hw).
Qed.

(* ---- 2. the full round trip: honest bidder node, honest provider node ------------------------------------ *)
From MevVerif Require model.PreconfBidder proofs.PreconfBidder_proofs proofs.NoPanic_proofs.
Module PB := MevVerif.model.PreconfBidder.
Module PBP := MevVerif.proofs.PreconfBidder_proofs.
Module NP := MevVerif.proofs.NoPanic_proofs.
Module CB := MevVerif.proofs.Compose_bidder.

(* the preconfirmation.v1 messages between the two nodes: what the provider's handler holds, as the message
   the bidder's SendBid model reads (a freshly built message has no unknown fields, ProviderAddress unset) *)
Definition pbid_of (b : ProviderSvc.bid) : PB.bid :=
  PB.mkBid (b_tx b) (b_amt b) (b_bn b) (b_ds b) (b_de b) (b_dig b) (b_sig b) [].
Definition frame_of (c : preconf) : PB.commitment :=
  PB.mkCommitment (Some (pbid_of (c_bid c))) (c_dig c) (c_sig c) [] [].

Fixpoint first_write (h : N) (l : list heffect) : option preconf :=
  match l with
  | [] => None
  | HWrite h' c :: r => if h' =? h then Some c else first_write h r
  | _ :: r => first_write h r
  end.

(* what the bidder's stream to this provider does, read off the provider machine: the frame handler h wrote;
   else an error frame (the handler returned an error) or end of stream (it returned nil); else nothing yet *)
Definition reply_of (S : st) (h : N) : PB.reply :=
  match first_write h (heff S) with
  | Some c => PB.RFrames (frame_of c) []
  | None => match nget h (hs S) with
            | Some (HDone RNil) => PB.RReadErr
            | Some (HDone _) => PB.RErrFrame
            | _ => PB.RSilence
            end
  end.

Lemma first_write_in h l c : first_write h l = Some c -> In (HWrite h c) l.
Proof.
  induction l as [|e l IH]; [discriminate|]. destruct e; cbn [first_write]; try (intros H; right; exact (IH H)).
  destruct (N.eqb_spec h0 h) as [->|_]; [intros H; injection H as <-; left; reflexivity|intros H; right; exact (IH H)].
Qed.

Lemma first_write_none h l : first_write h l = None -> forall c, ~ In (HWrite h c) l.
Proof.
  induction l as [|e l IH]; [intros _ c []|]. destruct e; cbn [first_write]; intros H c0 [Hin|Hin];
    try discriminate; try (exact (IH H c0 Hin)).
  - injection Hin as -> ->. rewrite N.eqb_refl in H. discriminate.
  - destruct (h0 =? h); [discriminate|exact (IH H c0 Hin)].
Qed.

Lemma pbid_roundtrip s : PB.b_unk s = [] -> pbid_of (of_wire (NP.conv_bid s)) = s.
Proof. destruct s as [tx am bn ds de dg sg un]. cbn. intros ->. destruct dg, sg; reflexivity. Qed.

(* a handler that returned with any class other than "written" / "write failed" wrote nothing *)
Lemma refused_writes_nothing K V W evs h r :
  nget h (hs (run K V W evs)) = Some (HDone r) -> r <> RWritten -> r <> RWriteErr ->
  first_write h (heff (run K V W evs)) = None.
Proof.
  intros Hh N1 N2. destruct (first_write h (heff (run K V W evs))) as [c|] eqn:E; [exfalso|reflexivity].
  apply first_write_in in E.
  assert (Hin : In (HWrite h c) (hist h (run K V W evs))) by (apply in_hist; split; [exact E|reflexivity]).
  pose proof (handler_trace K V W evs h) as Sh. rewrite Hh in Sh. cbn [shape] in Sh.
  destruct r; cbn [done_trace] in Sh; unfold storing_trace in Sh; try congruence;
    repeat match goal with
           | H : _ \/ _ |- _ => destruct H
           | H : exists _, _ |- _ => destruct H
           | H : _ /\ _ |- _ => destruct H
           end;
    match goal with H : hist _ _ = _ |- _ => rewrite H in Hin end; cbn in Hin; intuition discriminate.
Qed.

Section RoundTrip.
  (* one hash function and one signature library on both nodes; each node has its own key signer *)
  Variable K : bytes -> bytes.
  Variable rc : bytes -> bytes -> outcome bytes.
  Variable vr : bytes -> bytes -> bytes -> bool.
  Variable ao : bytes -> bytes.
  Variables signB signP : bytes -> outcome bytes.
  Let crB : crypto := {| recover := rc; verify_rs := vr; addr_of := ao; sign := signB |}.
  Let crP : crypto := {| recover := rc; verify_rs := vr; addr_of := ao; sign := signP |}.
  Hypothesis K_nonempty : forall m, K m <> [].
  (* recover-after-sign for the provider's key (premise of C02_roundtrip_commitment) *)
  Variable pkP : bytes.
  Hypothesis signP_recovers : forall hh sg, signP hh = Ok sg ->
    length sg = 65%nat /\ (nth_error sg 64 = Some 0 \/ nth_error sg 64 = Some 1) /\
    rc hh sg = Ok pkP /\ vr pkP hh (firstn 64 sg) = true.

  (* the bidder node: SendBid with both signer oracles instantiated (Compose_bidder) *)
  Variables (a : PB.call_args) (view : list PB.peer) (D : N) (rn : PB.run).
  Hypothesis sent : PB.send_bid (CB.signer_oracles K crB) a view D = PB.SRun rn.
  Let s := PB.r_sent rn.

  (* the provider node: the handleBid machine with both oracles instantiated, any history *)
  Variables (addr : bytes) (evs : list event).
  Hypothesis constructedP : constructed_history K crP rules_validators (node_wiring addr) evs.
  Let S := run K rules_validators (node_wiring addr) evs.
  (* handler h of the provider serves the stream on which the bidder wrote its bid: what it read is the
     bidder's message as decoded *)
  Variables (h : N) (allowf : bytes -> bool).
  Hypothesis served : nget h (arr S) = Some (role_bidder, oracle_of K crP allowf (Some (NP.conv_bid s))).
  (* the provider is one of the connected peers, and what its stream does is what handler h does *)
  Variable p : PB.peer.
  Hypothesis p_in : In p view.
  Hypothesis p_provider : PB.p_type p = PB.TProvider.
  Hypothesis p_script : PB.p_reply p = reply_of S h.

  Lemma sent_shape : PB.b_unk s = [].
  Proof.
    destruct (PBP.fanout _ _ _ _ _ sent) as (Hc & _). cbn [PB.construct CB.signer_oracles] in Hc.
    unfold CB.signer_construct in Hc. destruct (construct_bid K crB _ _ _ _ _); try discriminate.
    injection Hc as Hc. unfold s. rewrite <- Hc. reflexivity.
  Qed.

  Lemma delivered_is_contributions :
    PB.r_delivered rn = flat_map (PBP.contribution (CB.signer_oracles K crB) s D) (PB.get_peers PB.TProvider view).
  Proof.
    pose proof sent as H. apply PBP.send_bid_gen_run in H. destruct H as (s0 & _ & _ & _ & E).
    unfold s. rewrite E. cbn [PB.r_delivered PB.r_sent]. rewrite PBP.flat_map_map. reflexivity.
  Qed.

  Lemma verify_same_library c : verify_preconf K crB c = verify_preconf K crP c.
  Proof. reflexivity. Qed.

  (* The provider wrote a commitment on that stream. *)
  Section Accepting.
    Variable c : preconf.
    Hypothesis wrote : first_write h (heff S) = Some c.

    Lemma written_for_sent_bid : c_bid c = of_wire (NP.conv_bid s) /\ to_wire (c_bid c) = NP.conv_bid s.
    Proof.
      pose proof (first_write_in _ _ _ wrote) as Hin.
      destruct (pi_eff _ _ _ _ _ (run_pinv K rules_validators (node_wiring addr) evs) _ Hin eq_refl)
        as (b0 & ((role & o & a0 & Ha & _ & Hr & Hv & _) & _) & Hw).
      cbn [eff_handler] in Ha. fold S in Ha. rewrite served in Ha. injection Ha as <- <-.
      cbn [o_read oracle_of option_map] in Hr. injection Hr as <-.
      specialize (Hw h c eq_refl). split; [exact Hw|]. rewrite Hw.
      cbn [o_verify oracle_of] in Hv.
      destruct (verify_bid K crP (NP.conv_bid s)) as [a1| |] eqn:V; cbn in Hv; try discriminate.
      apply verify_bid_iff in V. destruct V as (d & sg & Hd & Hsg & _).
      exact (to_wire_of_wire _ d sg Hd Hsg).
    Qed.

    Lemma frame_embeds_sent : PB.c_bid (frame_of c) = Some s.
    Proof.
      destruct written_for_sent_bid as (E & _). unfold frame_of. cbn [PB.c_bid]. rewrite E.
      rewrite (pbid_roundtrip s sent_shape). reflexivity.
    Qed.

    Lemma frame_verifies : PB.verify (CB.signer_oracles K crB) (frame_of c) = Ok (ao pkP).
    Proof.
      pose proof (first_write_in _ _ _ wrote) as Hin. destruct written_for_sent_bid as (E & Ew).
      destruct (written_constructed K crP addr evs constructedP h c Hin) as (Hc & Hh & Hs).
      pose proof (written_signed_by_provider K crP addr evs constructedP h c Hin pkP signP_recovers) as Hv.
      rewrite Ew in Hv, Hh. cbn [addr_of crP] in Hv.
      cbn [PB.verify CB.signer_oracles]. unfold CB.signer_verify. rewrite verify_same_library.
      assert (Dn : c_dig c <> []).
      { unfold commitment_hash, commit_stub in Hh. cbn [Eip712.c_bid] in Hh.
        destruct (parse_amount _); [|discriminate]. destruct (amount_out_of_range _); [discriminate|].
        injection Hh as <-. apply K_nonempty. }
      assert (Sn : c_sig c <> []) by exact (CB.sign_normalised_nonempty _ _ _ Hs).
      unfold NP.conv_commitment, frame_of. cbn [PB.c_bid PB.c_dig PB.c_sig PB.c_prov option_map].
      rewrite (CB.onil_some _ Dn), (CB.onil_some _ Sn), E, (pbid_roundtrip s sent_shape). exact Hv.
    Qed.

    (* In time, SendBid surfaces exactly that commitment for this provider: once, with ProviderAddress = the
       address of the provider's key, embedding exactly the bid sent. *)
    Theorem round_trip_accepting :
      PB.p_time p < D ->
      PBP.contribution (CB.signer_oracles K crB) s D p = [(PB.p_time p, PB.set_prov (frame_of c) (ao pkP))] /\
      In (PB.p_time p, PB.set_prov (frame_of c) (ao pkP)) (PB.r_delivered rn) /\
      PB.c_bid (PB.set_prov (frame_of c) (ao pkP)) = Some s /\
      PB.c_prov (PB.set_prov (frame_of c) (ao pkP)) = ao pkP /\
      PB.c_dig (PB.set_prov (frame_of c) (ao pkP)) = c_dig c /\
      PB.c_sig (PB.set_prov (frame_of c) (ao pkP)) = c_sig c.
    Proof.
      intros Ht.
      assert (Hc : PBP.contribution (CB.signer_oracles K crB) s D p = [(PB.p_time p, PB.set_prov (frame_of c) (ao pkP))]).
      { apply (PBP.contribution_valid _ _ _ _ (frame_of c) []); [|exact Ht|exact frame_verifies|exact frame_embeds_sent].
        rewrite p_script. unfold reply_of. rewrite wrote. reflexivity. }
      split; [exact Hc|]. split.
      - rewrite delivered_is_contributions. apply in_flat_map. exists p. split.
        + apply PBP.get_peers_spec. split; assumption.
        + rewrite Hc. left. reflexivity.
      - cbn [PB.set_prov PB.c_bid PB.c_prov PB.c_dig PB.c_sig]. repeat split. exact frame_embeds_sent.
    Qed.
  End Accepting.

  (* The provider wrote nothing on that stream (whatever else it did): nothing is surfaced for it. *)
  Theorem round_trip_refusing :
    first_write h (heff S) = None -> PBP.contribution (CB.signer_oracles K crB) s D p = [].
  Proof.
    intros Hn. apply PBP.contribution_nothing. intros (c0 & rest & a0 & R & _).
    rewrite p_script in R. unfold reply_of in R. rewrite Hn in R.
    destruct (nget h (hs S)) as [[| | |[]]|]; discriminate.
  Qed.

  (* ... which is the case whenever the handler has returned with a refusal: role, read, signature,
     allowance, format, rejected, undefined status, deadline / context, construction failure, store failure *)
  Theorem round_trip_refused_classes r :
    nget h (hs S) = Some (HDone r) -> r <> RWritten -> r <> RWriteErr ->
    PBP.contribution (CB.signer_oracles K crB) s D p = [].
  Proof.
    intros Hh N1 N2. apply round_trip_refusing.
    exact (refused_writes_nothing K rules_validators (node_wiring addr) evs h r Hh N1 N2).
  Qed.

  (* ... and a provider that answers after the bidder's deadline contributes nothing either *)
  Theorem round_trip_late : D <= PB.p_time p -> PBP.contribution (CB.signer_oracles K crB) s D p = [].
  Proof.
    intros Hl. apply PBP.contribution_nothing. intros (c0 & rest & a0 & _ & T & _). lia.
  Qed.
End RoundTrip.

(* ---- the accepting run exists: engine accepts in time, allowance yes, store and write succeed ------------- *)
Ltac norm := cbn [svc hs arr heff set_h set_svc add_heff finish pending calls chans streams eff panicked
  with_pending with_calls with_chans with_streams add_eff with_panic ProviderSvc.init PreconfProvider.init].

Section HonestRun.
  Variables (K : bytes -> bytes) (cr : crypto) (addr : bytes) (w : Eip712.bid) (allowf : bytes -> bool)
            (a d sg : bytes) (h sid : N).
  Hypothesis V : verify_bid K cr w = Ok a.
  Hypothesis A : allowf a = true.
  Hypothesis F : vbid rules_validators (to_engine (of_wire w)) = true.
  Hypothesis Kr : kres K cr w = KOk d sg.

  (* one handler: the bid arrives, the engine takes it and answers ACCEPTED for its digest, the handler takes
     the decision (ConstructPreConfirmation of the signer model), the store and the write succeed *)
  Definition accepting_run : list event :=
    [Arrive h role_bidder (oracle_of K cr allowf (Some w)); EngineTake h;
     Lookup sid (b_dig (of_wire w)) status_accepted; Callback sid;
     TakeDecision h (kres K cr w); StoreRes h true; WriteRes h true].

  Let W := node_wiring addr.

  Lemma accepting_parse : exists amt, parse_bigint (b_amt (of_wire w)) = Some amt.
  Proof.
    pose proof F as F'. cbn in F'. apply provider_bid_ok_spec in F'. destruct F' as (_ & Ha & _).
    apply amount_ok_spec, amount_ok_parse in Ha. destruct Ha as (v & Hv & _). eauto.
  Qed.

  Lemma state_after_arrival_and_decision :
    hs (fold_left (step K rules_validators W) (firstn 4 accepting_run) init) = nset h (HInSvc (of_wire w) false) [].
  Proof.
    unfold accepting_run. cbn [firstn fold_left].
    unfold step at 4. norm. unfold arrive. norm. cbn [nget].
    unfold gate_class. rewrite Z.eqb_refl. cbn [negb oracle_of o_read o_verify o_allow option_map].
    rewrite V. cbn [verify_of]. rewrite A. unfold W. rewrite node_wiring_api, F.
    unfold submit. norm. cbn [nget]. rewrite F.
    unfold step at 3. norm. unfold engine_take. norm. rewrite ?nget_nset_eq.
    unfold take. norm. rewrite ?nget_nset_eq.
    unfold step at 2. norm. unfold lookup, sget. norm. cbn [nget].
    change (vresp rules_validators (b_dig (of_wire w)) status_accepted) with true.
    norm. unfold pset at 1. cbn [pget]. rewrite bytes_eqb_refl.
    unfold step at 1. norm. unfold callback, sget, cget. norm. rewrite ?nget_nset_eq. norm. rewrite ?nget_nset_eq.
    norm. reflexivity.
  Qed.

  Ltac run_accepting V A F Kr Pa W :=
    unfold accepting_run, run; cbn [fold_left];
    unfold step at 7; norm; unfold arrive; norm; cbn [nget];
    unfold gate_class; rewrite Z.eqb_refl; cbn [negb oracle_of o_read o_verify o_allow option_map];
    rewrite V; cbn [verify_of]; rewrite A; unfold W; rewrite node_wiring_api, F;
    unfold submit; norm; cbn [nget]; rewrite F;
    unfold step at 6; norm; unfold engine_take; norm; rewrite ?nget_nset_eq;
    unfold take; norm; rewrite ?nget_nset_eq;
    unfold step at 5; norm; unfold lookup, sget; norm; cbn [nget];
    change (vresp rules_validators (b_dig (of_wire w)) status_accepted) with true;
    norm; unfold pset at 1; cbn [pget]; rewrite bytes_eqb_refl;
    unfold step at 4; norm; unfold callback, sget, cget; norm; rewrite ?nget_nset_eq; norm; rewrite ?nget_nset_eq;
    unfold step at 3; norm; unfold take_decision; norm; rewrite ?nget_nset_eq; norm; rewrite ?nget_nset_eq;
    unfold chan_recv, cget; norm; rewrite ?nget_nset_eq;
    unfold on_status; change (status_accepted =? status_rejected)%Z with false; rewrite Z.eqb_refl;
    rewrite Kr, node_wiring_da, Pa;
    unfold step at 2; norm; unfold store_res; norm; rewrite ?nget_nset_eq;
    unfold step at 1; norm; unfold write_res; norm; rewrite ?nget_nset_eq; norm.

  Theorem accepting_run_writes :
    first_write h (heff (run K rules_validators W accepting_run)) =
      Some {| c_bid := of_wire w; c_dig := d; c_sig := sg |}.
  Proof.
    destruct accepting_parse as (amt & Pa). run_accepting V A F Kr Pa W.
    cbn [first_write]. rewrite N.eqb_refl. reflexivity.
  Qed.

  Theorem accepting_run_served :
    nget h (arr (run K rules_validators W accepting_run)) = Some (role_bidder, oracle_of K cr allowf (Some w)).
  Proof.
    destruct accepting_parse as (amt & Pa). run_accepting V A F Kr Pa W.
    rewrite nget_nset_eq. reflexivity.
  Qed.

  Lemma accepting_run_signed : signed_history K cr accepting_run.
  Proof.
    intros h0 role o [H|[H|[H|[H|[H|[H|[H|[]]]]]]]]; try discriminate.
    injection H as _ _ <-. exists allowf, (Some w). reflexivity.
  Qed.

  Lemma accepting_run_constructed : constructed_history K cr rules_validators W accepting_run.
  Proof.
    intros pre h0 k post b auto E Hh. unfold accepting_run in E.
    do 4 (destruct pre as [|? pre]; [cbn [app] in E; discriminate E|]).
    destruct pre as [|? pre].
    - cbn [app] in E. injection E as E1 E2 E3 E4 Eh Ek Ep. subst e e0 e1 e2 k post. rewrite <- Eh in *. clear Eh.
      pose proof state_after_arrival_and_decision as Hs. unfold accepting_run in Hs. cbn [firstn] in Hs.
      change (b_dig (of_wire w)) with (obytes (Eip712.b_dig w)) in Hs.
      unfold run in Hh. rewrite Hs, nget_nset_eq in Hh. injection Hh as <- _.
      apply verify_bid_iff in V. destruct V as (d0 & sg0 & Hd & Hsg & _).
      rewrite (to_wire_of_wire w d0 sg0 Hd Hsg). reflexivity.
    - do 3 (destruct pre as [|? pre]; [cbn [app] in E; discriminate E|]).
      cbn [app] in E. destruct pre; discriminate E.
  Qed.
End HonestRun.

(* ---- 2'. the whole way: an API request, an honest bidder node, an honest provider node, and back ----------- *)
Module BA := MevVerif.model.BidderApi.

Section HonestRoundTrip.
  Variable K : bytes -> bytes.
  Variable rc : bytes -> bytes -> outcome bytes.
  Variable vr : bytes -> bytes -> bytes -> bool.
  Variable ao : bytes -> bytes.
  Variables signB signP : bytes -> outcome bytes.
  Let crB : crypto := {| recover := rc; verify_rs := vr; addr_of := ao; sign := signB |}.
  Let crP : crypto := {| recover := rc; verify_rs := vr; addr_of := ao; sign := signP |}.
  (* digests have between 1 and 64 bytes (Keccak-256: 32) *)
  Hypothesis K_len : forall m, (1 <= length (K m) <= 64)%nat.
  (* recover-after-sign for both keys; the provider's key signer answers *)
  Variables pkB pkP : bytes.
  Hypothesis signB_recovers : forall hh sg, signB hh = Ok sg ->
    length sg = 65%nat /\ (nth_error sg 64 = Some 0 \/ nth_error sg 64 = Some 1) /\
    rc hh sg = Ok pkB /\ vr pkB hh (firstn 64 sg) = true.
  Hypothesis signP_recovers : forall hh sg, signP hh = Ok sg ->
    length sg = 65%nat /\ (nth_error sg 64 = Some 0 \/ nth_error sg 64 = Some 1) /\
    rc hh sg = Ok pkP /\ vr pkP hh (firstn 64 sg) = true.
  Hypothesis signP_answers : forall hh, exists sg, signP hh = Ok sg.

  (* a request accepted by the bidder API rules, numbers Go int64 values *)
  Variable r : BA.request.
  Hypothesis accepted :
    bidder_bid_ok (BA.r_txs r) (BA.r_amount r) (BA.r_bn r) (BA.r_ds r) (BA.r_de r) = true.
  Hypothesis bn_int64 : (BA.r_bn r <= int64_max)%Z.
  Hypothesis ds_int64 : (BA.r_ds r <= int64_max)%Z.
  Hypothesis de_int64 : (BA.r_de r <= int64_max)%Z.

  Variables (view : list PB.peer) (D : N) (rn : PB.run).
  Hypothesis sent : PB.send_bid (CB.signer_oracles K crB) (CB.args_of (BA.forward r)) view D = PB.SRun rn.
  Let s := PB.r_sent rn.
  Let wB := NP.conv_bid s.

  Lemma K_nonempty : forall m, K m <> [].
  Proof. clear signB_recovers signP_recovers signP_answers. intros m E. pose proof (K_len m) as H. rewrite E in H. cbn in H. lia. Qed.

  (* the provider's VerifyBid accepts the bidder's bid, recovering the bidder's address *)
  Lemma provider_verifies_bid : verify_bid K crP wB = Ok (ao pkB).
  Proof.
    destruct (CB.offered_bid_signed K crB pkB signB_recovers K_nonempty _ view D rn sent) as (b & _ & _ & _ & Hv & _).
    exact Hv.
  Qed.

  (* C19 o C01: what the bidder API rules accept, the provider's format rules accept *)
  Lemma provider_format_ok : vbid rules_validators (to_engine (of_wire wB)) = true.
  Proof.
    clear signB_recovers signP_recovers signP_answers pkB pkP.
    destruct (CB.accepted_sent_fields K crB r accepted bn_int64 ds_int64 de_int64 (BA.SenderReturns []) None)
      as (f & Hc & Hall).
    destruct (CB.accepted_forward r accepted (BA.SenderReturns []) None) as (Hc' & _). rewrite Hc' in Hc.
    injection Hc as <-. destruct (Hall view D rn sent) as (E1 & E2 & E3 & E4 & E5 & E6 & _ & E8 & _).
    fold s in E1, E2, E3, E4, E5, E6, E8.
    pose proof accepted as Hacc. unfold bidder_bid_ok in Hacc. apply andb_true_iff in Hacc. destruct Hacc as [Hx Pde].
    apply andb_true_iff in Hx. destruct Hx as [Hx Pds]. apply andb_true_iff in Hx. destruct Hx as [Hx Pbn].
    apply andb_true_iff in Hx. destruct Hx as [Hh Ha].
    cbn [vbid rules_validators to_engine e_txs e_amt e_bn e_dig e_ds e_de]. unfold wB, NP.conv_bid, of_wire.
    cbn [b_tx b_amt b_bn b_ds b_de b_dig Eip712.b_tx Eip712.b_amt Eip712.b_bn Eip712.b_ds Eip712.b_de Eip712.b_dig].
    rewrite CB.obytes_onil. change comma with 44. rewrite E2, E3, E4, E5, E6.
    unfold provider_bid_ok. rewrite Hh, Ha, Pbn, Pds, Pde. cbn [andb]. rewrite andb_true_r.
    rewrite E8. unfold eip712_hash, digest_len_ok. cbv zeta. pose proof (K_len (25 :: 1 :: hash_struct K domain_schema bid_domain ++ hash_struct K bid_schema
      (bid_values (join 44 (BA.r_txs r)) (dec_value (BA.r_amount r)) (Z.to_N (BA.r_bn r)) (Z.to_N (BA.r_ds r)) (Z.to_N (BA.r_de r))))) as HL.
    rewrite andb_true_r, andb_true_iff, !N.leb_le. lia.
  Qed.

  (* ConstructPreConfirmation of the provider succeeds on it *)
  Lemma provider_constructs : exists d sg, kres K crP wB = KOk d sg.
  Proof.
    pose proof provider_verifies_bid as V. unfold kres. rewrite V.
    apply verify_bid_iff in V. destruct V as (d0 & sg0 & _ & _ & Hh & _).
    unfold commitment_hash, commit_stub. cbn [Eip712.c_bid]. unfold bid_hash in Hh.
    destruct (parse_amount (Eip712.b_amt wB)) as [A|]; [|discriminate].
    destruct (amount_out_of_range A); [discriminate|].
    set (hh := commitment_hash_tail K wB A). destruct (signP_answers hh) as (sg1 & Hs).
    destruct (signP_recovers hh sg1 Hs) as (L & _).
    unfold sign_normalised. cbn [sign crP]. rewrite Hs.
    destruct (nth_error sg1 64) as [v|] eqn:E; [eauto|].
    apply nth_error_None in E. clear - L E. lia.
  Qed.

  (* The provider node: one handler serves the stream; the engine accepts the bid's digest in time, the bidder's
     allowance is sufficient, the settlement transaction is taken by the chain client, the write succeeds. *)
  Variables (addr : bytes) (h sid : N) (allowf : bytes -> bool).
  Hypothesis allowance_yes : allowf (ao pkB) = true.
  Let evsP := accepting_run K crP wB allowf h sid.
  Let S := run K rules_validators (node_wiring addr) evsP.
  Variable p : PB.peer.
  Hypothesis p_in : In p view.
  Hypothesis p_provider : PB.p_type p = PB.TProvider.
  Hypothesis p_script : PB.p_reply p = reply_of S h.
  Hypothesis p_in_time : PB.p_time p < D.

  (* Then SendBid surfaces, for this provider, exactly the commitment the provider wrote: once, embedding exactly
     the bid sent, with ProviderAddress = the address of the provider's key; its digest is the EIP-712
     PreConfCommitment hash over the request's values, the EIP-712 bid digest and the bidder's bid signature; and
     the provider had its settlement transaction for that very commitment accepted before writing it. *)
  Theorem round_trip_honest :
    exists c,
      first_write h (heff S) = Some c /\
      PBP.contribution (CB.signer_oracles K crB) s D p = [(PB.p_time p, PB.set_prov (frame_of c) (ao pkP))] /\
      In (PB.p_time p, PB.set_prov (frame_of c) (ao pkP)) (PB.r_delivered rn) /\
      PB.c_bid (PB.set_prov (frame_of c) (ao pkP)) = Some s /\
      PB.c_prov (PB.set_prov (frame_of c) (ao pkP)) = ao pkP /\
      PB.c_dig (PB.set_prov (frame_of c) (ao pkP)) =
        eip712_commitment K (join 44 (BA.r_txs r)) (dec_value (BA.r_amount r)) (Z.to_N (BA.r_bn r))
                          (Z.to_N (BA.r_ds r)) (Z.to_N (BA.r_de r)) (CB.req_digest K r) (PB.b_sig s) /\
      In (HStored h true) (heff S) /\
      exists amt, parse_bigint (BA.r_amount r) = Some amt /\ In (HSend h addr (calldata K amt c)) (heff S).
  Proof.
    destruct provider_constructs as (d & sg & Kr).
    pose proof (accepting_run_writes K crP addr wB allowf (ao pkB) d sg h sid provider_verifies_bid allowance_yes
                  provider_format_ok Kr) as Hw.
    pose proof (accepting_run_served K crP addr wB allowf (ao pkB) d sg h sid provider_verifies_bid allowance_yes
                  provider_format_ok Kr) as Hsv.
    pose proof (accepting_run_signed K crP wB allowf h sid) as Hsg.
    pose proof (accepting_run_constructed K crP addr wB allowf (ao pkB) h sid provider_verifies_bid allowance_yes
                  provider_format_ok) as Hcs.
    fold evsP in Hw, Hsv, Hsg, Hcs. fold S in Hw, Hsv.
    set (c := {| c_bid := of_wire wB; c_dig := d; c_sig := sg |}) in *.
    exists c. split; [exact Hw|].
    destruct (round_trip_accepting K rc vr ao signB signP K_nonempty pkP signP_recovers _ view D rn sent
                addr evsP Hcs h allowf Hsv p p_in p_provider p_script c Hw p_in_time)
      as (H1 & H2 & H3 & H4 & H5 & _).
    split; [exact H1|]. split; [exact H2|]. split; [exact H3|]. split; [exact H4|].
    pose proof (CB.accepted_commitments K crB r accepted bn_int64 ds_int64 de_int64 view D rn sent _ _ H2)
      as (b0 & Hb0 & _ & _ & _ & _ & _ & _ & Hd).
    fold s in H3. rewrite H3 in Hb0. injection Hb0 as <-.
    split; [exact Hd|].
    pose proof (first_write_in _ _ _ Hw) as Hin.
    destruct (order_node K addr evsP h c Hin) as (Hst & amt & Hp & Hs).
    split; [exact Hst|]. exists amt. split; [|exact Hs].
    destruct (CB.accepted_sent_fields K crB r accepted bn_int64 ds_int64 de_int64 (BA.SenderReturns []) None)
      as (f & Hc & Hall).
    destruct (CB.accepted_forward r accepted (BA.SenderReturns []) None) as (Hc' & _). rewrite Hc' in Hc.
    injection Hc as <-. destruct (Hall view D rn sent) as (_ & _ & E3 & _).
    rewrite <- E3. exact Hp.
  Qed.
End HonestRoundTrip.

(* ---- non-vacuity ------------------------------------------------------------------------------------------ *)
(* the bidder node of Compose_bidder.ex_bidder_path (request ex_request, hash ex_K, toy crypto record) and a
   provider node running the accepting history on the bid as decoded from the wire *)
Definition ex_wire : Eip712.bid := NP.conv_bid CB.ex_sent.
Definition ex_events : list event := accepting_run CB.ex_K Signer_proofs.toy_crypto ex_wire (fun _ => true) 1 0.
Definition ex_S : st := run CB.ex_K rules_validators (node_wiring (repeat 7 20)) ex_events.
Definition ex_view : list PB.peer :=
  [PB.mkPeer [1] PB.TProvider (reply_of ex_S 1) 1; PB.mkPeer [2] PB.TProvider PB.RSilence 0].

Example ex_provider_premises :
  verify_bid CB.ex_K Signer_proofs.toy_crypto ex_wire = Ok [4] /\
  vbid rules_validators (to_engine (of_wire ex_wire)) = true /\
  (exists d sg, kres CB.ex_K Signer_proofs.toy_crypto ex_wire = KOk d sg) /\
  signed_history CB.ex_K Signer_proofs.toy_crypto ex_events /\
  constructed_history CB.ex_K Signer_proofs.toy_crypto rules_validators (node_wiring (repeat 7 20)) ex_events.
Proof.
  assert (V : verify_bid CB.ex_K Signer_proofs.toy_crypto ex_wire = Ok [4]) by (vm_compute; reflexivity).
  assert (F : vbid rules_validators (to_engine (of_wire ex_wire)) = true) by (vm_compute; reflexivity).
  split; [exact V|]. split; [exact F|]. split; [eexists; eexists; vm_compute; reflexivity|].
  split; [apply accepting_run_signed|].
  exact (accepting_run_constructed CB.ex_K Signer_proofs.toy_crypto (repeat 7 20) ex_wire (fun _ => true) [4] 1 0 V eq_refl F).
Qed.

Example ex_provider_writes :
  exists c, first_write 1 (heff ex_S) = Some c /\ In (HWrite 1 c) (heff ex_S) /\ c_bid c = of_wire ex_wire /\
            In (HStored 1 true) (heff ex_S).
Proof.
  eexists. split; [vm_compute; reflexivity|]. split; [vm_compute; auto 10|]. split; [vm_compute; reflexivity|].
  vm_compute. auto 10.
Qed.

Example ex_round_trip :
  exists rn c,
    PB.send_bid (CB.signer_oracles CB.ex_K Signer_proofs.toy_crypto) (CB.args_of (BA.forward CB.ex_request)) ex_view 10 = PB.SRun rn /\
    first_write 1 (heff ex_S) = Some c /\
    PB.r_delivered rn = [(1, PB.set_prov (frame_of c) [4])] /\
    PB.c_bid (frame_of c) = Some (PB.r_sent rn) /\ PB.r_sent rn = CB.ex_sent.
Proof.
  eexists. eexists. split; [vm_compute; reflexivity|]. split; [vm_compute; reflexivity|].
  split; [vm_compute; reflexivity|]. split; vm_compute; reflexivity.
Qed.

(* a provider whose engine rejects writes nothing, and nothing is surfaced for it *)
Definition ex_rejecting : list event :=
  [Arrive 1 role_bidder (oracle_of CB.ex_K Signer_proofs.toy_crypto (fun _ => true) (Some ex_wire)); EngineTake 1;
   Lookup 0 (b_dig (of_wire ex_wire)) status_rejected; Callback 0; TakeDecision 1 KFail].
Example ex_round_trip_rejected :
  let S := run CB.ex_K rules_validators (node_wiring (repeat 7 20)) ex_rejecting in
  nget 1 (hs S) = Some (HDone RRejected) /\ first_write 1 (heff S) = None /\
  exists rn, PB.send_bid (CB.signer_oracles CB.ex_K Signer_proofs.toy_crypto) (CB.args_of (BA.forward CB.ex_request))
               [PB.mkPeer [1] PB.TProvider (reply_of S 1) 1] 10 = PB.SRun rn /\ PB.r_delivered rn = [].
Proof. split; [vm_compute; reflexivity|]. split; [vm_compute; reflexivity|]. eexists. split; vm_compute; reflexivity. Qed.

(* ---- what is settled is what is signed (C07 o C03 o C02) -------------------------------------------------- *)
Lemma parse_bigint_of_parse_dec s v : parse_dec s = Some v -> parse_bigint s = Some (Z.of_N v).
Proof.
  intros E. destruct s as [|c0 r0]; [discriminate|]. unfold parse_bigint.
  assert (Hd : is_digit c0 = true).
  { unfold parse_dec in E. destruct (all_digits (c0 :: r0)) eqn:Ed; [|discriminate].
    cbn in Ed. now apply andb_true_iff in Ed. }
  destruct (N.eqb_spec c0 43) as [->|_]; [discriminate|].
  destruct (N.eqb_spec c0 45) as [->|_]; [discriminate|].
  now rewrite E.
Qed.

(* For every commitment written to a bidder: the transaction the chain client accepted beforehand went to the
   configured contract and its calldata decodes to (amount A, block number, tx string, decay window, bid
   signature, commitment signature), where the commitment signature is the provider key's signature of the
   EIP-712 PreConfCommitment hash of exactly (tx string, A, block number, decay window, bid digest, bid
   signature) -- the values settled are the values signed. *)
Theorem settled_equals_signed (K : bytes -> bytes) (cr : crypto) addr evs h c :
  signed_history K cr evs -> constructed_history K cr rules_validators (node_wiring addr) evs ->
  In (HWrite h c) (heff (run K rules_validators (node_wiring addr) evs)) ->
  let S := run K rules_validators (node_wiring addr) evs in
  let b := c_bid c in
  int64_fields b -> (4 <= length (K (Abi.method_sig store_name store_tys)))%nat ->
  wf_bytes (b_tx b) -> wf_bytes (b_sig b) -> wf_bytes (c_sig c) ->
  exists A,
    parse_dec (b_amt b) = Some A /\ 0 < A < 18446744073709551616 /\
    In (HStored h true) (heff S) /\ In (HSend h addr (calldata K (Z.of_N A) c)) (heff S) /\
    (Abi.blen (Abi.encode (store_args (Z.of_N A) c)) < Abi.two63 ->
     Abi.decode_call store_tys (calldata K (Z.of_N A) c) =
     Some (Abi.selector K (Abi.method_sig store_name store_tys),
           [Abi.VUint64 A; Abi.VUint64 (Z.to_N (b_bn b)); Abi.VString (b_tx b);
            Abi.VUint64 (Z.to_N (b_ds b)); Abi.VUint64 (Z.to_N (b_de b));
            Abi.VBytes (b_sig b); Abi.VBytes (c_sig c)])) /\
    sign_normalised cr (eip712_commitment K (b_tx b) A (Z.to_N (b_bn b)) (Z.to_N (b_ds b)) (Z.to_N (b_de b))
                                          (b_dig b) (b_sig b)) = Ok (c_sig c) /\
    c_dig c = eip712_commitment K (b_tx b) A (Z.to_N (b_bn b)) (Z.to_N (b_ds b)) (Z.to_N (b_de b))
                                (b_dig b) (b_sig b).
Proof.
  intros Hs Hc Hw S b I Hk W1 W2 W3. subst S b.
  destruct (written_eip712 K cr addr evs Hs Hc h c Hw I) as (A & Pd & RA & _ & Ed).
  destruct (written_constructed K cr addr evs Hc h c Hw) as (_ & _ & Hsn).
  destruct (written_settled K cr addr evs Hs h c Hw) as (Hst & amt & Hp & _ & Hsend & Hdec).
  rewrite (parse_bigint_of_parse_dec _ _ Pd) in Hp. injection Hp as <-.
  exists A. split; [exact Pd|]. split; [exact RA|]. split; [exact Hst|]. split; [exact Hsend|].
  split; [|split; [rewrite <- Ed; exact Hsn|exact Ed]].
  intros Hl. rewrite (Hdec Hk I W1 W2 W3 Hl), N2Z.id. reflexivity.
Qed.

(* the provider's side of the honest round trip, in one statement: the bidder's message passes every gate of the
   provider node and the accepting history writes the commitment for it *)
Theorem round_trip_honest_provider_side
  (K : bytes -> bytes) (rc : bytes -> bytes -> outcome bytes) (vr : bytes -> bytes -> bytes -> bool)
  (ao : bytes -> bytes) (signB signP : bytes -> outcome bytes) :
  (forall m, (1 <= length (K m) <= 64)%nat) ->
  forall pkB pkP : bytes,
  (forall hh sg, signB hh = Ok sg ->
     length sg = 65%nat /\ (nth_error sg 64 = Some 0 \/ nth_error sg 64 = Some 1) /\
     rc hh sg = Ok pkB /\ vr pkB hh (firstn 64 sg) = true) ->
  (forall hh sg, signP hh = Ok sg ->
     length sg = 65%nat /\ (nth_error sg 64 = Some 0 \/ nth_error sg 64 = Some 1) /\
     rc hh sg = Ok pkP /\ vr pkP hh (firstn 64 sg) = true) ->
  (forall hh, exists sg, signP hh = Ok sg) ->
  forall r : BA.request,
  bidder_bid_ok (BA.r_txs r) (BA.r_amount r) (BA.r_bn r) (BA.r_ds r) (BA.r_de r) = true ->
  (BA.r_bn r <= int64_max)%Z -> (BA.r_ds r <= int64_max)%Z -> (BA.r_de r <= int64_max)%Z ->
  forall view D rn,
  PB.send_bid (CB.signer_oracles K {| recover := rc; verify_rs := vr; addr_of := ao; sign := signB |})
              (CB.args_of (BA.forward r)) view D = PB.SRun rn ->
  let crP := {| recover := rc; verify_rs := vr; addr_of := ao; sign := signP |} in
  let wB := NP.conv_bid (PB.r_sent rn) in
  verify_bid K crP wB = Ok (ao pkB) /\
  vbid rules_validators (to_engine (of_wire wB)) = true /\
  exists d sg,
    kres K crP wB = KOk d sg /\
    forall addr h sid (allowf : bytes -> bool), allowf (ao pkB) = true ->
      let evs := accepting_run K crP wB allowf h sid in
      signed_history K crP evs /\ constructed_history K crP rules_validators (node_wiring addr) evs /\
      first_write h (heff (run K rules_validators (node_wiring addr) evs)) =
        Some {| c_bid := of_wire wB; c_dig := d; c_sig := sg |} /\
      pbid_of (of_wire wB) = PB.r_sent rn.
Proof.
  intros KL pkB pkP SB SP SA r Hok Hb Hs He view D rn Hsent crP wB.
  pose proof (provider_verifies_bid K rc vr ao signB signP KL pkB SB r view D rn Hsent) as V.
  pose proof (provider_format_ok K rc vr ao signB KL r Hok Hb Hs He view D rn Hsent) as F.
  destruct (provider_constructs K rc vr ao signB signP KL pkB pkP SB SP SA r view D rn Hsent) as (d & sg & Kr).
  split; [exact V|]. split; [exact F|]. exists d, sg. split; [exact Kr|].
  intros addr h sid allowf A evs.
  split; [apply accepting_run_signed|].
  split; [exact (accepting_run_constructed K crP addr wB allowf (ao pkB) h sid V A F)|].
  split; [exact (accepting_run_writes K crP addr wB allowf (ao pkB) d sg h sid V A F Kr)|].
  apply pbid_roundtrip.
  exact (sent_shape K rc vr ao signB _ view D rn Hsent).
Qed.
