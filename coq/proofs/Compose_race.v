(* C20 o C04 o C14.  model/ConnectRace.v (C20) carries its own, third, model of handshake.go -- verifyReq and
   verifyResp over abstract nodes whose addresses and peer types are numbers -- next to model/Handshake.v (C04,
   byte strings, oracle answers) and the addPeer of model/PeerRegistry.v (C14).  Here the models are tied
   together:
   1. the two models of verifyReq agree on every request, under an explicit representation relation;
   2. hence the identity the responder registers in the race model is one C04's admissibility predicate
      [proves] holds of;
   3. the registry entries the responders of a system of n initiators create form a well-formed C14 history
      when the initiators' addresses are pairwise different, so C14's consistency theorems apply to it. *)
From Coq Require Import List NArith ZArith Bool Lia.
From MevVerif Require Import lib.Bytes gen.Generated proofs.Bytes_proofs.
From MevVerif Require model.Handshake model.PeerRegistry model.ConnectRace
  proofs.Handshake_proofs proofs.PeerRegistry_proofs proofs.ConnectRace_proofs proofs.Compose_p2p.
Import ListNotations.
Open Scope N_scope.

Module HS := MevVerif.model.Handshake.
Module HSP := MevVerif.proofs.Handshake_proofs.
Module PR := MevVerif.model.PeerRegistry.
Module PRP := MevVerif.proofs.PeerRegistry_proofs.
Module CR := MevVerif.model.ConnectRace.
Module CRP := MevVerif.proofs.ConnectRace_proofs.

(* ---- 1. the two models of verifyReq agree --------------------------------------------------------------- *)
Section Agree.
  Variable enc : bytes -> N.                 (* numbering of addresses *)
  Hypothesis enc_inj : forall x y, enc x = enc y -> x = y.
  Variable tcode : bytes -> N.               (* numbering of role strings (p2p.FromString) *)

  (* the Handshake-level inputs (oracle answers for one request) describe the race model's node n *)
  Record represents (o : HS.oracles) (role token sig : bytes) (n : CR.node) : Prop := {
    rep_sig : CR.sig_addr n = match HS.verify o sig (role ++ token) with
                              | HS.VOk true A => Some (enc A)
                              | _ => None
                              end;
    rep_pid : exists P, HS.addr_of_pid o = HS.POk P /\ CR.pid_addr n = enc P;
    rep_type : CR.ptype n = tcode role;
    rep_prov : (tcode role =? CR.t_provider) = bytes_eqb role HS.provider_string;
    rep_stake : forall A, HS.verify o sig (role ++ token) = HS.VOk true A -> CR.staked n = HS.registered o A
  }.

  Theorem verify_req_models_agree o role token sig n :
    represents o role token sig n ->
    forall id,
      CR.verify_req n (CR.req_of n) = Some id <->
      exists A, fst (HS.verify_req o role token sig) = inl A /\ id = (enc A, tcode role).
  Proof.
    intros [Hsig (P & Hp & Hpid) Hty Hpr Hst] id.
    unfold CR.verify_req, CR.req_of, HS.verify_req, HS.signed_data. rewrite Hsig, Hp, Hty, Hpr, Hpid.
    destruct (HS.verify o sig (role ++ token)) as [|[|] A] eqn:V.
    - split; [discriminate|intros (A0 & H & _); discriminate].
    - rewrite (Hst A eq_refl).
      destruct (N.eqb_spec (enc A) (enc P)) as [E|NE].
      + apply enc_inj in E. subst P. rewrite bytes_eqb_refl. cbn [negb].
        destruct (bytes_eqb role HS.provider_string).
        * destruct (HS.registered o A); cbn [fst].
          -- split; [intros [= <-]; eauto|intros (A0 & [= <-] & ->); reflexivity].
          -- split; [discriminate|intros (A0 & H & _); discriminate].
        * cbn [fst]. split; [intros [= <-]; eauto|intros (A0 & [= <-] & ->); reflexivity].
      + assert (Hne : bytes_eqb P A = false) by (apply bytes_eqb_neq; intros ->; apply NE; reflexivity).
        rewrite Hne. cbn [negb fst]. split; [discriminate|intros (A0 & H & _); discriminate].
    - split; [discriminate|intros (A0 & H & _); discriminate].
  Qed.

  (* ---- 2. what the race model registers is what C04 accepts ------------------------------------------------ *)
  Lemma inv_registered c w id : CRP.Inv c w -> CR.registered w = Some id -> CRP.vI c id.
  Proof.
    intros (_ & (Hr & _) & _) H.
    destruct (CR.rpc w); cbn in Hr;
      try (destruct Hr as (_ & _ & (_ & Hn & _) & _); congruence);
      try (destruct Hr as (_ & _ & (_ & Hn & _)); congruence);
      try (destruct Hr as ((_ & Hn & _) & _); congruence).
    - destruct Hr as (_ & [(id' & Hreg & Hv & _)|(Hn & _)]); [|congruence].
      rewrite Hreg in H. injection H as <-. exact Hv.
    - destruct Hr as (_ & [(id' & Hreg & Hv & _)|(Hn & _)]); [|congruence].
      rewrite Hreg in H. injection H as <-. exact Hv.
  Qed.

  Lemma registered_verified c sched id :
    CR.registered (CR.run CR.Current c sched) = Some id -> CRP.vI c id.
  Proof. apply inv_registered, CRP.run_inv. Qed.

  (* Whatever the schedule, an identity the responder has registered for the initiator is the address its
     signature recovers to -- which is the address bound to its peer id -- and the type it sent; in C04's terms
     the admissibility predicate [proves] holds of it (signature verified, address bound to the transport
     identity, a provider confirmed by the registry). *)
  Theorem registered_is_admissible c sched id o role token sig :
    represents o role token sig (CR.ini c) ->
    CR.registered (CR.run CR.deployed c sched) = Some id ->
    id = CR.proven_ident (CR.ini c) /\
    exists A, HS.proves o role token sig A /\ id = (enc A, tcode role).
  Proof.
    intros Rep H. rewrite CRP.deployed_current in H. apply registered_verified in H. unfold CRP.vI, CRP.reqI in H.
    split; [apply (CRP.verify_req_self _ _ H)|].
    apply (verify_req_models_agree o role token sig _ Rep) in H. destruct H as (A & Hv & ->).
    exists A. split; [|reflexivity].
    destruct (HS.verify_req o role token sig) as [[a|r] lk] eqn:E; cbn [fst] in Hv; [|discriminate].
    injection Hv as ->. apply HSP.verify_req_inl in E. exact (proj1 E).
  Qed.
End Agree.

(* ---- 3. the registry entries of a system of initiators form a well-formed C14 history ---------------------- *)

(* the addPeer call of the responder facing the j-th initiator (RRegister): remote peer id j, the identity
   registered in the race model; connections are open *)
Definition enrol_of (j : N) (w : CR.world) : list PR.event :=
  match CR.registered w with
  | Some (a, t) => [PR.Enrol (j, 0) {| PR.p_addr := a; PR.p_role := Z.of_N t |} false]
  | None => []
  end.
Fixpoint registry_history_from (j : N) (s : CR.sys) : list PR.event :=
  match s with
  | [] => []
  | (_, w) :: r => enrol_of j w ++ registry_history_from (j + 1) r
  end.
Definition registry_history (s : CR.sys) : list PR.event := registry_history_from 0 s.

Lemma history_enrolments j s c pe :
  In (c, pe) (PR.enrolments (registry_history_from j s)) ->
  exists k cfgk w t, nth_error s k = Some (cfgk, w) /\ c = (j + N.of_nat k, 0) /\
                     CR.registered w = Some (PR.p_addr pe, t) /\ PR.p_role pe = Z.of_N t.
Proof.
  revert j. induction s as [|[cf w] r IH]; intros j H; [destruct H|].
  cbn [registry_history_from] in H. rewrite PRP.enrolments_app in H. apply in_app_or in H. destruct H as [H|H].
  - unfold enrol_of in H. destruct (CR.registered w) as [[a t]|] eqn:E; [|destruct H].
    cbn in H. destruct H as [H|[]]. injection H as <- <-.
    exists 0%nat, cf, w, t. cbn. rewrite N.add_0_r. repeat split; assumption.
  - destruct (IH _ H) as (k & cfgk & w' & t & Hn & -> & Hr & Hp).
    exists (S k), cfgk, w', t. cbn [nth_error]. repeat split; try assumption. f_equal. lia.
Qed.

Lemma upd_map_fst {A B : Type} (f : A * B -> A * B) (Hf : forall x, fst (f x) = fst x) l :
  forall k, map fst (CR.upd k f l) = map fst l.
Proof.
  induction l as [|a r IH]; intros k; [destruct k; reflexivity|]. destruct k; cbn; [rewrite Hf; reflexivity|rewrite IH; reflexivity].
Qed.

Lemma sys_run_cfgs v cs sched : map fst (CR.sys_run v cs sched) = cs.
Proof.
  unfold CR.sys_run.
  assert (H0 : map fst (CR.sys_init cs) = cs).
  { unfold CR.sys_init. rewrite map_map. cbn. apply map_id. }
  revert H0. generalize (CR.sys_init cs). induction sched as [|ja r IH]; intros s H0; [exact H0|].
  cbn [fold_left]. apply IH. unfold CR.sys_step. rewrite upd_map_fst; [exact H0|intros x; reflexivity].
Qed.

(* Whatever a responder has registered is the initiator's proven identity (its pid_addr), so pairwise different
   initiator addresses make the history well formed, and C14's theorems apply to the registry it builds: no
   nil dereference in Disconnected, the two maps mutually inverse. *)
Theorem system_registry_wf cs sched :
  NoDup (map (fun c => CR.pid_addr (CR.ini c)) cs) ->
  let H := registry_history (CR.sys_run CR.deployed cs sched) in
  PR.wf H /\ PR.panicked (PR.run H) = false /\
  (forall p pe, PR.get p (PR.overlays (PR.run H)) = Some pe ->
                PR.get (PR.p_addr pe) (PR.underlays (PR.run H)) = Some p) /\
  (forall c pe, In (c, pe) (PR.enrolments H) ->
     exists k cfgk, nth_error cs k = Some cfgk /\ c = (N.of_nat k, 0) /\
                    PR.p_addr pe = CR.pid_addr (CR.ini cfgk) /\ PR.p_role pe = Z.of_N (CR.ptype (CR.ini cfgk))).
Proof.
  intros ND H. subst H. rewrite CRP.deployed_current.
  set (s := CR.sys_run CR.Current cs sched). set (H := registry_history s).
  assert (Origin : forall c pe, In (c, pe) (PR.enrolments H) ->
     exists k cfgk, nth_error cs k = Some cfgk /\ c = (N.of_nat k, 0) /\
                    PR.p_addr pe = CR.pid_addr (CR.ini cfgk) /\ PR.p_role pe = Z.of_N (CR.ptype (CR.ini cfgk))).
  { intros c pe Hin. destruct (history_enrolments 0 s c pe Hin) as (k & cfgk & w & t & Hn & -> & Hr & Hp).
    pose proof (CRP.sys_inv cs sched) as SI. fold s in SI. rewrite Forall_forall in SI.
    specialize (SI _ (nth_error_In _ _ Hn)). cbn [fst snd] in SI.
    pose proof (inv_registered cfgk w _ SI Hr) as Hv. apply CRP.verify_req_self in Hv.
    destruct Hv as (Hid & _). unfold CR.proven_ident in Hid. injection Hid as Ha Ht.
    exists k, cfgk. split.
    - pose proof (sys_run_cfgs CR.Current cs sched) as Hc. fold s in Hc. rewrite <- Hc.
      rewrite nth_error_map, Hn. reflexivity.
    - split; [rewrite N.add_0_l; reflexivity|]. split; [exact Ha|]. rewrite Hp, Ht. reflexivity. }
  assert (W : PR.wf H).
  { intros c pe c' pe' H1 H2.
    destruct (Origin _ _ H1) as (k & ck & Hk & -> & Ha & _).
    destruct (Origin _ _ H2) as (k' & ck' & Hk' & -> & Ha' & _).
    unfold PR.remote. cbn [fst]. rewrite Ha, Ha'. split.
    - intros E. apply Nat2N.inj in E. subst k'. rewrite Hk in Hk'. injection Hk' as <-. reflexivity.
    - intros E. f_equal. rewrite NoDup_nth_error in ND.
      apply ND.
      + rewrite map_length. apply nth_error_Some. congruence.
      + rewrite !nth_error_map, Hk, Hk'. cbn. rewrite E. reflexivity. }
  split; [exact W|]. split; [apply PRP.no_panic, W|]. split; [apply (PRP.inverse H W)|exact Origin].
Qed.

(* non-vacuity: the two well-formed example nodes of ConnectRace_proofs, the canonical schedule *)
Example ex_registered :
  CR.registered (CR.run CR.deployed {| CR.ini := CRP.ex_ini; CR.rsp := CRP.ex_rsp |}
                        (CR.sched_open_after_release 1)) = Some (CR.proven_ident CRP.ex_ini).
Proof. vm_compute. reflexivity. Qed.

Example ex_system_history :
  let cs := [{| CR.ini := CRP.ex_ini; CR.rsp := CRP.ex_rsp |}] in
  NoDup (map (fun c => CR.pid_addr (CR.ini c)) cs) /\
  length (registry_history (CR.sys_run CR.deployed cs (map (fun a => (0%nat, a)) (CR.sched_open_after_release 1)))) = 1%nat.
Proof. split; [repeat constructor; intros []|vm_compute; reflexivity]. Qed.
