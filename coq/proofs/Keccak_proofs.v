(* Facts about lib/Keccak.v: the digest has 32 well-formed bytes for every input; test
   vectors (computed with go-ethereum crypto.Keccak256) at the padding boundaries. *)
From Coq Require Import String List NArith Lia.
From MevVerif Require Import lib.Bytes lib.Keccak proofs.Bytes_proofs.
Import ListNotations.
Open Scope N_scope.

Lemma squeeze_length s : length (squeeze s) = 32%nat.
Proof. destruct s. cbn [squeeze]. rewrite !app_length, !le_length. reflexivity. Qed.

Lemma squeeze_wf s : wf_bytes (squeeze s).
Proof.
  destruct s. cbn [squeeze]. unfold wf_bytes.
  repeat (apply Forall_app; split); apply le_wf.
Qed.

Theorem keccak256_length m : length (keccak256 m) = 32%nat.
Proof. unfold keccak256. apply squeeze_length. Qed.

Theorem keccak256_wf m : wf_bytes (keccak256 m).
Proof. unfold keccak256. apply squeeze_wf. Qed.

(* the padded message is a whole number of 136-byte blocks *)
Lemma pad_length m : (N.of_nat (length (pad m))) mod rate = 0.
Proof.
  unfold pad, rate.
  set (n := N.of_nat (length m)).
  assert (Hq : n mod 136 < 136) by (apply N.mod_lt; lia).
  assert (Hn : n = 136 * (n / 136) + n mod 136) by (apply N.div_mod; lia).
  destruct (N.eqb_spec (136 - n mod 136) 1) as [E|NE].
  - rewrite app_length. cbn [length]. rewrite Nat2N.inj_add. fold n.
    replace (n + N.of_nat 1) with (0 + (n / 136 + 1) * 136) by lia.
    rewrite N.mod_add by lia. reflexivity.
  - rewrite app_length. cbn [length]. rewrite app_length, repeat_length. cbn [length].
    replace (N.of_nat (length m + S (N.to_nat (136 - n mod 136 - 2) + 1)))
      with (0 + (n / 136 + 1) * 136) by lia.
    rewrite N.mod_add by lia. reflexivity.
Qed.

Example kv_empty : hex (keccak256 []) =
  bos "c5d2460186f7233c927e7db2dcc703c0e500b653ca82273b7bfad8045d85a470".
Proof. vm_compute. reflexivity. Qed.
Example kv_abc : hex (keccak256 (bos "abc")) =
  bos "4e03657aea45a94fc7d47ba826c8d667c0d1e6e33a64a036ec44f58fa12d6c45".
Proof. vm_compute. reflexivity. Qed.
Example kv_135 : hex (keccak256 (repeat 97 135)) =
  bos "34367dc248bbd832f4e3e69dfaac2f92638bd0bbd18f2912ba4ef454919cf446".
Proof. vm_compute. reflexivity. Qed.
Example kv_136 : hex (keccak256 (repeat 97 136)) =
  bos "a6c4d403279fe3e0af03729caada8374b5ca54d8065329a3ebcaeb4b60aa386e".
Proof. vm_compute. reflexivity. Qed.
Example kv_137 : hex (keccak256 (repeat 97 137)) =
  bos "d869f639c7046b4929fc92a4d988a8b22c55fbadb802c0c66ebcd484f1915f39".
Proof. vm_compute. reflexivity. Qed.
Example kv_272 : hex (keccak256 (repeat 255 272)) =
  bos "b9e89d2eccfc4597f4d706170d9bb9b0e2eb00c01caab48d25decb57f5408886".
Proof. vm_compute. reflexivity. Qed.
