(* Proofs about model/PeerRegistry.v (property C14). *)
From Coq Require Import String List NArith ZArith Bool Lia.
From MevVerif Require Import lib.Bytes gen.Generated model.PeerRegistry.
Import ListNotations.
Open Scope N_scope.

(* --- facts read off the regenerated source ------------------------------------------------- *)
Lemma wiring_now : wiring_ok = true.
Proof. reflexivity. Qed.
Lemma wrapper_handler_args_now :
  Generated.c14_wrapper_handler_args = [[bos "ctx"; bos "*p"; bos "stream"]].
Proof. reflexivity. Qed.
Lemma wrapper_ctx_parent_now : Generated.c14_wrapper_ctx_args = [[bos "s.baseCtx"]].
Proof. reflexivity. Qed.
Lemma add_peer_call_sites_now :
  Generated.c14_inbound_add_peer_args = [[bos "streamlibp2p.Conn()"; bos "peer"]] /\
  Generated.c14_outbound_add_peer_args = [[bos "streamlibp2p.Conn()"; bos "p"]].
Proof. split; reflexivity. Qed.

(* --- maps ------------------------------------------------------------------------------------ *)
Lemma get_del_same {V : Type} k (m : list (N * V)) : get k (del k m) = None.
Proof.
  induction m as [|[q v] r IH]; cbn; [reflexivity|].
  destruct (q =? k) eqn:E; [exact IH|]. cbn. rewrite E. exact IH.
Qed.
Lemma get_del_other {V : Type} k k' (m : list (N * V)) : k' <> k -> get k' (del k m) = get k' m.
Proof.
  intros Hne. induction m as [|[q v] r IH]; cbn; [reflexivity|].
  destruct (q =? k) eqn:E.
  - apply N.eqb_eq in E. subst q. destruct (k =? k') eqn:E2; [apply N.eqb_eq in E2; congruence|exact IH].
  - cbn. destruct (q =? k'); [reflexivity|exact IH].
Qed.
Lemma get_put_same {V : Type} k (v : V) m : get k (put k v m) = Some v.
Proof. unfold put. cbn. rewrite N.eqb_refl. reflexivity. Qed.
Lemma get_put_other {V : Type} k k' (v : V) m : k' <> k -> get k' (put k v m) = get k' m.
Proof.
  intros Hne. unfold put. cbn. destruct (k =? k') eqn:E; [apply N.eqb_eq in E; congruence|].
  apply get_del_other, Hne.
Qed.
Lemma has_get {V : Type} k (m : list (N * V)) : has k m = true <-> get k m <> None.
Proof. unfold has. destruct (get k m); split; congruence. Qed.
Lemma has_false {V : Type} k (m : list (N * V)) : has k m = false <-> get k m = None.
Proof. unfold has. destruct (get k m); split; congruence. Qed.

Ltac msimpl :=
  repeat first
    [ rewrite get_put_same | rewrite get_del_same
    | rewrite get_put_other by congruence | rewrite get_del_other by congruence ].
Ltac msimpl_in H :=
  repeat first
    [ rewrite get_put_same in H | rewrite get_del_same in H
    | rewrite get_put_other in H by congruence | rewrite get_del_other in H by congruence ].

(* --- connection and stream sets ---------------------------------------------------------------- *)
Lemma conn_eqb_eq a b : conn_eqb a b = true <-> a = b.
Proof.
  unfold conn_eqb. destruct a as [a1 a2], b as [b1 b2]. cbn. rewrite andb_true_iff, !N.eqb_eq.
  split; [intros [-> ->]; reflexivity|intros [= -> ->]; split; reflexivity].
Qed.
Lemma conn_eqb_refl a : conn_eqb a a = true.
Proof. apply conn_eqb_eq. reflexivity. Qed.
Lemma conn_eqb_sym a b : conn_eqb a b = conn_eqb b a.
Proof. unfold conn_eqb. rewrite (N.eqb_sym (fst a)), (N.eqb_sym (snd a)). reflexivity. Qed.
Lemma conn_eqb_neq a b : conn_eqb a b = false <-> a <> b.
Proof.
  split.
  - intros H Heq. apply conn_eqb_eq in Heq. congruence.
  - intros H. destruct (conn_eqb a b) eqn:E; [apply conn_eqb_eq in E; contradiction|reflexivity].
Qed.
Lemma conn_mem_In x l : conn_mem x l = true <-> In x l.
Proof.
  unfold conn_mem. rewrite existsb_exists. split.
  - intros (y & Hin & He). apply conn_eqb_eq in He. subst. exact Hin.
  - intros Hin. exists x. split; [exact Hin|apply conn_eqb_refl].
Qed.
Lemma conn_mem_app x l l' : conn_mem x (l ++ l') = conn_mem x l || conn_mem x l'.
Proof. unfold conn_mem. apply existsb_app. Qed.
Lemma conn_mem_add x c l : conn_mem x (conn_add c l) = conn_eqb x c || conn_mem x l.
Proof.
  unfold conn_add. destruct (conn_mem c l) eqn:E.
  - destruct (conn_eqb x c) eqn:E2; [|reflexivity]. apply conn_eqb_eq in E2. subst. cbn. exact E.
  - rewrite conn_mem_app. cbn. rewrite orb_false_r. apply orb_comm.
Qed.
Lemma conn_mem_del x c l : conn_mem x (conn_del c l) = negb (conn_eqb c x) && conn_mem x l.
Proof.
  unfold conn_del, conn_mem. induction l as [|y r IH]; cbn [filter existsb]; [rewrite andb_false_r; reflexivity|].
  destruct (conn_eqb c y) eqn:E; cbn [negb existsb].
  - rewrite IH. apply conn_eqb_eq in E. subst y. rewrite (conn_eqb_sym x c).
    destruct (conn_eqb c x); reflexivity.
  - rewrite IH. destruct (conn_eqb x y) eqn:E2; cbn [orb].
    + apply conn_eqb_eq in E2. subst y. rewrite E. reflexivity.
    + reflexivity.
Qed.
Lemma conn_add_not_nil c l : conn_add c l <> [].
Proof.
  unfold conn_add. destruct (conn_mem c l) eqn:E.
  - intros ->. cbn in E. discriminate.
  - destruct l; discriminate.
Qed.
Lemma In_conn_add x c l : In x (conn_add c l) -> x = c \/ In x l.
Proof.
  intros H. apply conn_mem_In in H. rewrite conn_mem_add in H. apply orb_true_iff in H.
  destruct H as [H|H]; [left; apply conn_eqb_eq, H|right; apply conn_mem_In, H].
Qed.
Lemma In_conn_del x c l : In x (conn_del c l) -> In x l.
Proof. unfold conn_del. intros H. apply filter_In in H. apply H. Qed.
Lemma conn_del_nil c l : conn_del c l = [] -> forall x, conn_mem x l = true -> x = c.
Proof.
  intros H x Hx. destruct (conn_eqb c x) eqn:E; [symmetry; apply conn_eqb_eq, E|].
  assert (conn_mem x (conn_del c l) = true) by (rewrite conn_mem_del, E, Hx; reflexivity).
  rewrite H in H0. discriminate.
Qed.

Lemma sid_mem_In x l : sid_mem x l = true <-> In x l.
Proof.
  unfold sid_mem. rewrite existsb_exists. split.
  - intros (y & Hin & He). apply N.eqb_eq in He. subst. exact Hin.
  - intros Hin. exists x. split; [exact Hin|apply N.eqb_refl].
Qed.
Lemma In_sid_add x s l : In x (sid_add s l) <-> x = s \/ In x l.
Proof.
  unfold sid_add. destruct (sid_mem s l) eqn:E.
  - apply sid_mem_In in E. split; [intros H; right; exact H|intros [->|H]; assumption].
  - rewrite in_app_iff. cbn. split; [intros [H|[H|[]]]; auto|intros [H|H]; auto].
Qed.
Lemma In_sid_del x s l : In x (sid_del s l) <-> In x l /\ x <> s.
Proof.
  unfold sid_del. rewrite filter_In. split; intros [H1 H2]; (split; [exact H1|]).
  - intros ->. rewrite N.eqb_refl in H2. discriminate.
  - apply negb_true_iff, N.eqb_neq. congruence.
Qed.

Lemma get_cancel_all s ss cx : get s (cancel_all ss cx) = if sid_mem s ss then Some true else get s cx.
Proof.
  unfold cancel_all. revert cx. induction ss as [|a r IH]; intros cx; cbn [fold_left]; [reflexivity|].
  rewrite IH. cbn [sid_mem existsb]. fold (sid_mem s r). destruct (sid_mem s r); [rewrite orb_true_r; reflexivity|].
  rewrite orb_false_r. destruct (s =? a) eqn:E.
  - apply N.eqb_eq in E. subst a. apply get_put_same.
  - apply N.eqb_neq in E. apply get_put_other, E.
Qed.

Lemma open_enrolled_snoc h e c : open_enrolled (h ++ [e]) c = open_after (open_enrolled h c) c e.
Proof. unfold open_enrolled. rewrite fold_left_app. reflexivity. Qed.

Lemma enrolments_app a b : enrolments (a ++ b) = enrolments a ++ enrolments b.
Proof. unfold enrolments. apply flat_map_app. Qed.
Lemma enrolments_In c pe closed evs : In (Enrol c pe closed) evs -> In (c, pe) (enrolments evs).
Proof. intros H. unfold enrolments. apply in_flat_map. exists (Enrol c pe closed). split; [exact H|left; reflexivity]. Qed.
Lemma wf_prefix a b : wf (a ++ b) -> wf a.
Proof.
  intros H c pe c' pe' H1 H2. apply H; rewrite enrolments_app; apply in_or_app; left; assumption.
Qed.

(* --- the registry maps ------------------------------------------------------------------------ *)
Record InvA (hist : list event) (r : reg) : Prop := {
  a_ou : forall p pe, get p (overlays r) = Some pe -> get (p_addr pe) (underlays r) = Some p;
  a_uo : forall a p, get a (underlays r) = Some p -> exists pe, get p (overlays r) = Some pe /\ p_addr pe = a;
  a_prov : forall p pe, get p (overlays r) = Some pe -> exists k, In (Enrol (p, k) pe false) hist;
  a_ne : forall p cs, get p (conns r) = Some cs -> cs <> [];
  a_co : forall p, get p (conns r) = None <-> get p (overlays r) = None;
  a_so : forall p, get p (streams r) = None <-> get p (overlays r) = None;
  a_open : forall p k, conn_mem (p, k) (conns_of r p) = open_enrolled hist (p, k);
  a_pid : forall p c, In c (conns_of r p) -> remote c = p;
  a_np : panicked r = false }.

Lemma invA_init : InvA [] init.
Proof.
  constructor; cbn; try discriminate; try reflexivity; try tauto.
Qed.

(* events that leave the four maps' keys, the connection sets and the panic flag alone *)
Definition frame (r r' : reg) : Prop :=
  overlays r' = overlays r /\ underlays r' = underlays r /\ conns r' = conns r /\
  panicked r' = panicked r /\ notes r' = notes r /\
  (forall p, get p (streams r') = None <-> get p (streams r) = None).
Lemma frame_refl r : frame r r.
Proof. repeat split; intros H; exact H. Qed.
Lemma frame_trans a b c : frame a b -> frame b c -> frame a c.
Proof.
  intros (H1 & H2 & H3 & H4 & H5 & H6) (G1 & G2 & G3 & G4 & G5 & G6).
  repeat split; try congruence; intros H; [apply H6, G6, H|apply G6, H6, H].
Qed.
Lemma frame_with_sw r w : frame r (with_sw r w).
Proof. repeat split; intros H; exact H. Qed.
Lemma frame_with_ctxs r cx : frame r (with_ctxs r cx).
Proof. repeat split; intros H; exact H. Qed.
Lemma frame_with_started r x : frame r (with_started r x).
Proof. repeat split; intros H; exact H. Qed.
Lemma frame_add_stream r p s : frame r (fst (add_stream r p s)).
Proof.
  unfold add_stream. destruct (get p (streams r)) as [ss|] eqn:E; [|apply frame_refl].
  unfold with_streams. cbn [fst]. unfold frame. cbn [streams overlays underlays conns panicked notes].
  repeat split; destruct (N.eq_dec p0 p) as [->|Hne]; msimpl; try congruence; intros H; exact H.
Qed.
Lemma frame_remove_stream r p s : frame r (remove_stream r p s).
Proof.
  unfold remove_stream. destruct (get p (streams r)) as [ss|] eqn:E; [|apply frame_refl].
  destruct (sid_mem s ss); [|apply frame_refl].
  unfold with_streams, frame. cbn [streams overlays underlays conns panicked notes].
  repeat split; destruct (N.eq_dec p0 p) as [->|Hne]; msimpl; try congruence; intros H; exact H.
Qed.

Definition stream_event (e : event) : bool :=
  match e with Enrol _ _ _ | ConnClosed _ => false | _ => true end.

Lemma frame_stream_event r e : stream_event e = true -> frame r (step r e).
Proof.
  destruct e as [c pe cl|c|s p|s|s|s|p s|bp]; cbn [stream_event]; try discriminate; intros _;
    unfold step, step_with.
  - destruct (get s (sw r)); [apply frame_refl|]. destruct (get_peer r p); apply frame_with_sw.
  - destruct (get s (sw r)) as [[p pe|p pe f|p pe| |]|]; try apply frame_refl.
    pose proof (frame_add_stream (with_ctxs r (put s false (ctxs r))) p s) as HF.
    destruct (add_stream (with_ctxs r (put s false (ctxs r))) p s) as [r1 ok]. cbn [fst] in HF.
    assert (H0 : frame r r1) by (eapply frame_trans; [apply frame_with_ctxs|exact HF]).
    destruct (ok || negb true).
    + eapply frame_trans; [exact H0|apply frame_with_sw].
    + eapply frame_trans; [exact H0|]. eapply frame_trans; [apply frame_with_ctxs|apply frame_with_sw].
  - destruct (get s (sw r)) as [[p pe|p pe f|p pe| |]|]; try apply frame_refl.
    eapply frame_trans; [apply frame_with_started|apply frame_with_sw].
  - destruct (get s (sw r)) as [[p pe|p pe f|p pe| |]|]; try apply frame_refl;
      (eapply frame_trans; [apply frame_remove_stream|apply frame_with_sw]).
  - apply frame_remove_stream.
  - apply frame_refl.
Qed.

Lemma open_enrolled_stream_event h e c :
  stream_event e = true -> open_enrolled (h ++ [e]) c = open_enrolled h c.
Proof. intros H. rewrite open_enrolled_snoc. destruct e; cbn in *; try discriminate; reflexivity. Qed.

Lemma invA_frame hist r r' e :
  frame r r' -> stream_event e = true -> InvA hist r -> InvA (hist ++ [e]) r'.
Proof.
  intros (H1 & H2 & H3 & H4 & H5 & H6) He [].
  constructor; unfold conns_of; rewrite ?H1, ?H2, ?H3, ?H4; try assumption.
  - intros p pe Hp. destruct (a_prov0 p pe Hp) as [k Hk]. exists k. apply in_or_app. left. exact Hk.
  - intros p. rewrite H6. apply a_so0.
  - intros p k. rewrite open_enrolled_stream_event by exact He. apply a_open0.
Qed.

Lemma conn_eta (c : conn) : c = (remote c, snd c).
Proof. destruct c; reflexivity. Qed.
Lemma conn_eqb_other_peer p0 k c : p0 <> remote c -> conn_eqb (p0, k) c = false.
Proof. intros H. apply conn_eqb_neq. intros Heq. apply H. rewrite <- Heq. reflexivity. Qed.

Lemma invA_monotone_prov hist e r :
  (forall p pe, get p (overlays r) = Some pe -> exists k, In (Enrol (p, k) pe false) hist) ->
  (forall p pe, get p (overlays r) = Some pe -> exists k, In (Enrol (p, k) pe false) (hist ++ [e])).
Proof. intros H p pe Hp. destruct (H p pe Hp) as [k Hk]. exists k. apply in_or_app. left. exact Hk. Qed.

Lemma invA_enrol_closed hist r c pe : InvA hist r -> InvA (hist ++ [Enrol c pe true]) r.
Proof.
  intros []. constructor; try assumption.
  - apply invA_monotone_prov, a_prov0.
  - intros p k. rewrite open_enrolled_snoc. cbn. rewrite andb_false_r. apply a_open0.
Qed.

Lemma invA_enrol_open hist r c pe :
  wf (hist ++ [Enrol c pe false]) -> InvA hist r ->
  InvA (hist ++ [Enrol c pe false]) (fst (add_peer_open r c pe)).
Proof.
  intros Hwf []. set (p := remote c). set (a := p_addr pe).
  assert (F1 : forall p' pe', get p' (overlays r) = Some pe' -> (p = p' <-> a = p_addr pe')).
  { intros p' pe' Hp'. destruct (a_prov0 p' pe' Hp') as [k Hk].
    apply (Hwf c pe (p', k) pe').
    - rewrite enrolments_app. apply in_or_app. right. left. reflexivity.
    - rewrite enrolments_app. apply in_or_app. left. eapply enrolments_In, Hk. }
  assert (Hopen : forall p0 k, conn_mem (p0, k) (if N.eq_dec p0 p then conn_add c (conns_of r p) else conns_of r p0)
                               = open_enrolled (hist ++ [Enrol c pe false]) (p0, k)).
  { intros p0 k. rewrite open_enrolled_snoc. cbn [open_after negb]. rewrite andb_true_r.
    destruct (N.eq_dec p0 p) as [->|Hne].
    - rewrite conn_mem_add, a_open0. destruct (conn_eqb (p, k) c); reflexivity.
    - rewrite (conn_eqb_other_peer p0 k c Hne). apply a_open0. }
  assert (Hpid : forall p0 c0, In c0 (if N.eq_dec p0 p then conn_add c (conns_of r p) else conns_of r p0) -> remote c0 = p0).
  { intros p0 c0. destruct (N.eq_dec p0 p) as [->|Hne]; [|apply a_pid0].
    intros H. apply In_conn_add in H. destruct H as [->|H]; [reflexivity|apply a_pid0, H]. }
  assert (Hconns : forall (m := put p (conn_add c (conns_of r p)) (conns r)) p0,
            match get p0 m with Some l => l | None => [] end =
            if N.eq_dec p0 p then conn_add c (conns_of r p) else conns_of r p0).
  { intros m p0. subst m. destruct (N.eq_dec p0 p) as [->|Hne]; msimpl; reflexivity. }
  unfold add_peer_open. fold p. fold a. destruct (has a (underlays r)) eqn:Hhas; cbn [fst].
  - (* the address is known: it is this peer's *)
    apply has_get in Hhas. destruct (get a (underlays r)) as [p'|] eqn:Eu; [|congruence].
    destruct (a_uo0 a p' Eu) as (pe' & Hov & Hadr).
    assert (p = p') by (apply (F1 p' pe' Hov); congruence). subst p'.
    constructor; cbn [overlays underlays conns streams panicked]; try assumption.
    + apply invA_monotone_prov, a_prov0.
    + intros p0 cs. destruct (N.eq_dec p0 p) as [->|Hne]; msimpl.
      * intros [= <-]. apply conn_add_not_nil.
      * apply a_ne0.
    + intros p0. destruct (N.eq_dec p0 p) as [->|Hne]; msimpl; [|apply a_co0].
      rewrite Hov. split; discriminate.
    + intros p0 k. unfold conns_of. cbn [conns]. rewrite Hconns. apply Hopen.
    + intros p0 c0. unfold conns_of. cbn [conns]. rewrite Hconns. apply Hpid.
  - (* new address: the peer is not registered *)
    apply has_false in Hhas.
    assert (Hnone : get p (overlays r) = None).
    { destruct (get p (overlays r)) as [pe'|] eqn:Ep; [|reflexivity].
      assert (a = p_addr pe') by (apply (F1 p pe' Ep); reflexivity).
      pose proof (a_ou0 p pe' Ep). congruence. }
    constructor; cbn [overlays underlays conns streams panicked]; try assumption.
    + intros p0 pe0. destruct (N.eq_dec p0 p) as [->|Hne]; msimpl.
      * intros [= <-]. apply get_put_same.
      * intros H0. pose proof (a_ou0 p0 pe0 H0) as Hu.
        assert (p_addr pe0 <> a) by (intros Heq; rewrite Heq in Hu; congruence).
        msimpl. exact Hu.
    + intros a0 p0. destruct (N.eq_dec a0 a) as [->|Hne]; msimpl.
      * intros [= <-]. exists pe. split; [apply get_put_same|reflexivity].
      * intros H0. destruct (a_uo0 a0 p0 H0) as (pe0 & Hov & Hadr). exists pe0.
        assert (p0 <> p) by (intros ->; congruence). msimpl. split; assumption.
    + intros p0 pe0. destruct (N.eq_dec p0 p) as [->|Hne]; msimpl.
      * intros [= <-]. exists (snd c). apply in_or_app. right. left. unfold p. rewrite <- conn_eta. reflexivity.
      * intros H0. destruct (a_prov0 p0 pe0 H0) as [k Hk]. exists k. apply in_or_app. left. exact Hk.
    + intros p0 cs. destruct (N.eq_dec p0 p) as [->|Hne]; msimpl.
      * intros [= <-]. apply conn_add_not_nil.
      * apply a_ne0.
    + intros p0. destruct (N.eq_dec p0 p) as [->|Hne]; msimpl; [split; discriminate|apply a_co0].
    + intros p0. destruct (N.eq_dec p0 p) as [->|Hne]; msimpl; [split; discriminate|apply a_so0].
    + intros p0 k. unfold conns_of. cbn [conns]. rewrite Hconns. apply Hopen.
    + intros p0 c0. unfold conns_of. cbn [conns]. rewrite Hconns. apply Hpid.
Qed.

Lemma invA_conn_closed hist r c :
  InvA hist r -> InvA (hist ++ [ConnClosed c]) (disconnected r c).
Proof.
  intros []. set (p := remote c).
  assert (Hopen_other : forall p0 k, p0 <> p ->
            open_enrolled (hist ++ [ConnClosed c]) (p0, k) = conn_mem (p0, k) (conns_of r p0)).
  { intros p0 k Hne. rewrite open_enrolled_snoc. cbn [open_after].
    rewrite (conn_eqb_other_peer p0 k c Hne). symmetry. apply a_open0. }
  assert (Hopen_same : forall k,
            open_enrolled (hist ++ [ConnClosed c]) (p, k) = conn_mem (p, k) (conn_del c (conns_of r p))).
  { intros k. rewrite open_enrolled_snoc. cbn [open_after]. rewrite conn_mem_del, <- a_open0.
    rewrite (conn_eqb_sym c). destruct (conn_eqb (p, k) c); reflexivity. }
  unfold disconnected. fold p. destruct (get p (conns r)) as [cs|] eqn:Ec.
  2:{ constructor; try assumption.
      - apply invA_monotone_prov, a_prov0.
      - intros p0 k. destruct (N.eq_dec p0 p) as [->|Hne]; [|rewrite Hopen_other by exact Hne; reflexivity].
        rewrite Hopen_same. unfold conns_of. rewrite Ec. reflexivity. }
  assert (Hcs : conns_of r p = cs) by (unfold conns_of; rewrite Ec; reflexivity).
  destruct (conn_del c cs) as [|x l] eqn:Ed.
  - (* last connection *)
    assert (Hov : get p (overlays r) <> None) by (intros H; apply a_co0 in H; congruence).
    destruct (get p (overlays r)) as [pe|] eqn:Eo; [clear Hov|congruence].
    constructor; cbn [overlays underlays conns streams panicked]; try assumption.
    + intros p0 pe0. destruct (N.eq_dec p0 p) as [->|Hne]; msimpl; [discriminate|].
      intros H0. pose proof (a_ou0 p0 pe0 H0) as Hu.
      assert (p_addr pe0 <> p_addr pe).
      { intros Heq. pose proof (a_ou0 p pe Eo) as Hu'. rewrite Heq in Hu. congruence. }
      msimpl. exact Hu.
    + intros a0 p0. destruct (N.eq_dec a0 (p_addr pe)) as [->|Hne]; msimpl; [discriminate|].
      intros H0. destruct (a_uo0 a0 p0 H0) as (pe0 & Hov0 & Hadr). exists pe0.
      assert (p0 <> p) by (intros ->; rewrite Eo in Hov0; injection Hov0 as <-; congruence).
      msimpl. split; assumption.
    + intros p0 pe0. destruct (N.eq_dec p0 p) as [->|Hne]; msimpl; [discriminate|].
      intros H0. destruct (a_prov0 p0 pe0 H0) as [k Hk]. exists k. apply in_or_app. left. exact Hk.
    + intros p0 cs0. destruct (N.eq_dec p0 p) as [->|Hne]; msimpl; [discriminate|apply a_ne0].
    + intros p0. destruct (N.eq_dec p0 p) as [->|Hne]; msimpl; [tauto|apply a_co0].
    + intros p0. destruct (N.eq_dec p0 p) as [->|Hne]; msimpl; [tauto|apply a_so0].
    + intros p0 k. unfold conns_of. cbn [conns]. destruct (N.eq_dec p0 p) as [->|Hne]; msimpl.
      * rewrite Hopen_same, Hcs, Ed. reflexivity.
      * rewrite Hopen_other by exact Hne. reflexivity.
    + intros p0 c0. unfold conns_of. cbn [conns]. destruct (N.eq_dec p0 p) as [->|Hne]; msimpl; [intros []|apply a_pid0].
  - (* other connections remain *)
    constructor; cbn [overlays underlays conns streams panicked]; try assumption.
    + apply invA_monotone_prov, a_prov0.
    + intros p0 cs0. destruct (N.eq_dec p0 p) as [->|Hne]; msimpl; [intros [= <-]; discriminate|apply a_ne0].
    + intros p0. destruct (N.eq_dec p0 p) as [->|Hne]; msimpl; [|apply a_co0].
      split; [discriminate|]. intros H. apply a_co0 in H. congruence.
    + intros p0 k. unfold conns_of. cbn [conns]. destruct (N.eq_dec p0 p) as [->|Hne]; msimpl.
      * rewrite Hopen_same, Hcs, Ed. reflexivity.
      * rewrite Hopen_other by exact Hne. reflexivity.
    + intros p0 c0. unfold conns_of. cbn [conns]. destruct (N.eq_dec p0 p) as [->|Hne]; msimpl; [|apply a_pid0].
      intros H. rewrite <- Ed in H. apply In_conn_del in H. apply a_pid0. rewrite Hcs. exact H.
Qed.

Lemma invA_step hist r e : wf (hist ++ [e]) -> InvA hist r -> InvA (hist ++ [e]) (step r e).
Proof.
  intros Hwf HI. destruct (stream_event e) eqn:Hs.
  - eapply invA_frame; [apply frame_stream_event, Hs|exact Hs|exact HI].
  - destruct e as [c pe cl|c|s p|s|s|s|p s|bp]; cbn in Hs; try discriminate.
    + unfold step, step_with, add_peer. destruct cl; cbn [fst].
      * apply invA_enrol_closed, HI.
      * apply invA_enrol_open; assumption.
    + apply invA_conn_closed, HI.
Qed.

(* --- streams, contexts and the wrapper ---------------------------------------------------------- *)
Definition sw_ident (st : sw_state) : option (pid * peer) :=
  match st with
  | SwLooked p pe | SwTracked p pe _ | SwStarted p pe => Some (p, pe)
  | _ => None
  end.

Record InvB (hist : list event) (r : reg) : Prop := {
  b_tracked : forall p s, In s (streams_of r p) -> get s (ctxs r) = Some false /\ running r s p = true;
  b_running : forall s p, running r s p = true -> ctx_cancelled r s = true \/ In s (streams_of r p);
  b_sw : forall s st p pe, get s (sw r) = Some st -> sw_ident st = Some (p, pe) ->
         exists k, In (Enrol (p, k) pe false) hist;
  b_flag : forall s p pe f, get s (sw r) = Some (SwTracked p pe f) -> f = true;
  b_started : forall s p pe f, In (s, p, pe, f) (started r) ->
         f = true /\ exists k, In (Enrol (p, k) pe false) hist }.

Lemma invB_init : InvB [] init.
Proof. constructor; cbn; try discriminate; try tauto. Qed.

Lemma running_unique r s p p' : running r s p = true -> running r s p' = true -> p = p'.
Proof.
  unfold running. destruct (get s (sw r)) as [[q pe|q pe f|q pe| |]|]; try discriminate;
    intros H1 H2; apply N.eqb_eq in H1, H2; congruence.
Qed.

(* InvB only looks at streams_of, ctxs, sw, started *)
Lemma invB_same hist e r r' :
  (forall p, streams_of r' p = streams_of r p) -> ctxs r' = ctxs r -> sw r' = sw r -> started r' = started r ->
  InvB hist r -> InvB (hist ++ [e]) r'.
Proof.
  intros H1 H2 H3 H4 []. 
  assert (Hrun : forall s p, running r' s p = running r s p) by (intros; unfold running; rewrite H3; reflexivity).
  assert (Hcc : forall s, ctx_cancelled r' s = ctx_cancelled r s) by (intros; unfold ctx_cancelled; rewrite H2; reflexivity).
  constructor.
  - intros p s. rewrite H1, H2, Hrun. apply b_tracked0.
  - intros s p. rewrite Hrun, Hcc, H1. apply b_running0.
  - intros s st p pe. rewrite H3. intros Ha Hb. destruct (b_sw0 s st p pe Ha Hb) as [k Hk].
    exists k. apply in_or_app. left. exact Hk.
  - intros s p pe f. rewrite H3. apply b_flag0.
  - intros s p pe f. rewrite H4. intros Hin. destruct (b_started0 s p pe f Hin) as [Hf [k Hk]].
    split; [exact Hf|]. exists k. apply in_or_app. left. exact Hk.
Qed.

Lemma enrol_open_streams hist r c pe :
  wf (hist ++ [Enrol c pe false]) -> InvA hist r ->
  forall p0, streams_of (fst (add_peer_open r c pe)) p0 = streams_of r p0.
Proof.
  intros Hwf [] p0. unfold add_peer_open. destruct (has (p_addr pe) (underlays r)) eqn:Hhas; cbn [fst]; [reflexivity|].
  apply has_false in Hhas. unfold streams_of. cbn [streams].
  destruct (N.eq_dec p0 (remote c)) as [->|Hne]; msimpl; [|reflexivity].
  assert (Hnone : get (remote c) (overlays r) = None).
  { destruct (get (remote c) (overlays r)) as [pe'|] eqn:Ep; [|reflexivity].
    destruct (a_prov0 _ pe' Ep) as [k Hk].
    assert (p_addr pe = p_addr pe').
    { apply (Hwf c pe (remote c, k) pe').
      - rewrite enrolments_app. apply in_or_app. right. left. reflexivity.
      - rewrite enrolments_app. apply in_or_app. left. eapply enrolments_In, Hk.
      - reflexivity. }
    pose proof (a_ou0 _ pe' Ep). congruence. }
  apply a_so0 in Hnone. rewrite Hnone. reflexivity.
Qed.

Lemma invB_conn_closed hist r c :
  InvA hist r -> InvB hist r -> InvB (hist ++ [ConnClosed c]) (disconnected r c).
Proof.
  intros HA HB. unfold disconnected. set (p := remote c).
  destruct (get p (conns r)) as [cs|] eqn:Ec.
  2:{ apply invB_same with (r := r); auto. }
  destruct (conn_del c cs) as [|x l] eqn:Ed.
  2:{ apply invB_same with (r := r); auto. }
  assert (Hov : get p (overlays r) <> None) by (intros H; apply (a_co _ _ HA) in H; congruence).
  destruct (get p (overlays r)) as [pe|] eqn:Eo; [clear Hov|congruence].
  destruct HB.
  set (r' := {| overlays := del p (overlays r); underlays := del (p_addr pe) (underlays r);
                conns := del p (conns r); streams := del p (streams r);
                ctxs := cancel_all (streams_of r p) (ctxs r); sw := sw r;
                notes := notes r ++ [pe]; started := started r; panicked := panicked r |}).
  assert (Hso : forall p0, streams_of r' p0 = if N.eq_dec p0 p then [] else streams_of r p0).
  { intros p0. unfold streams_of. cbn [streams r']. destruct (N.eq_dec p0 p) as [->|Hne]; msimpl; reflexivity. }
  assert (Hrun : forall s p0, running r' s p0 = running r s p0) by reflexivity.
  assert (Hctx : forall s, get s (ctxs r') = if sid_mem s (streams_of r p) then Some true else get s (ctxs r)).
  { intros s. apply get_cancel_all. }
  constructor.
  - intros p0 s. rewrite Hso. destruct (N.eq_dec p0 p) as [->|Hne]; [intros []|].
    intros Hin. destruct (b_tracked0 p0 s Hin) as [Hc Hr]. rewrite Hrun, Hctx.
    destruct (sid_mem s (streams_of r p)) eqn:Em; [|split; assumption].
    apply sid_mem_In in Em. destruct (b_tracked0 p s Em) as [_ Hr']. exfalso. apply Hne.
    eapply running_unique; eassumption.
  - intros s p0. rewrite Hrun. intros Hr. unfold ctx_cancelled. rewrite Hctx, Hso.
    destruct (sid_mem s (streams_of r p)) eqn:Em; [left; reflexivity|].
    destruct (b_running0 s p0 Hr) as [Hc|Hin]; [left; exact Hc|].
    destruct (N.eq_dec p0 p) as [->|Hne]; [|right; exact Hin].
    apply sid_mem_In in Hin. congruence.
  - intros s st p0 pe0 Ha Hb. destruct (b_sw0 s st p0 pe0 Ha Hb) as [k Hk]. exists k. apply in_or_app. left. exact Hk.
  - exact b_flag0.
  - intros s p0 pe0 f Hin. destruct (b_started0 s p0 pe0 f Hin) as [Hf [k Hk]].
    split; [exact Hf|]. exists k. apply in_or_app. left. exact Hk.
Qed.

(* removeStream *)
Lemma rs_fields r p s :
  sw (remove_stream r p s) = sw r /\ started (remove_stream r p s) = started r.
Proof.
  unfold remove_stream. destruct (get p (streams r)); [|split; reflexivity].
  destruct (sid_mem s l); split; reflexivity.
Qed.
Lemma rs_streams r p s p0 x :
  In x (streams_of (remove_stream r p s) p0) <-> In x (streams_of r p0) /\ ~ (p0 = p /\ x = s).
Proof.
  unfold remove_stream. destruct (get p (streams r)) as [ss|] eqn:E.
  - destruct (sid_mem s ss) eqn:Em.
    + unfold streams_of at 1. cbn [streams with_streams]. destruct (N.eq_dec p0 p) as [->|Hne]; msimpl.
      * rewrite In_sid_del. unfold streams_of. rewrite E. split.
        -- intros [H1 H2]. split; [exact H1|]. intros [_ H3]. contradiction.
        -- intros [H1 H2]. split; [exact H1|]. intros ->. apply H2. split; reflexivity.
      * fold (streams_of r p0). split; [intros H; split; [exact H|intros [H1 _]; contradiction]|intros [H _]; exact H].
    + split; [|intros [H _]; exact H]. intros H. split; [exact H|]. intros [-> ->].
      unfold streams_of in H. rewrite E in H. apply sid_mem_In in H. congruence.
  - split; [|intros [H _]; exact H]. intros H. split; [exact H|]. intros [-> ->].
    unfold streams_of in H. rewrite E in H. destruct H.
Qed.
Lemma rs_ctx r p s s0 :
  get s0 (ctxs (remove_stream r p s)) =
  if (s0 =? s) && sid_mem s (streams_of r p) then Some true else get s0 (ctxs r).
Proof.
  unfold remove_stream, streams_of. destruct (get p (streams r)) as [ss|] eqn:E.
  - destruct (sid_mem s ss) eqn:Em.
    + cbn [ctxs with_streams]. rewrite andb_true_r. destruct (N.eq_dec s0 s) as [->|Hne].
      * rewrite N.eqb_refl. apply get_put_same.
      * replace (s0 =? s) with false by (symmetry; apply N.eqb_neq, Hne). apply get_put_other, Hne.
    + rewrite andb_false_r. reflexivity.
  - cbn. rewrite andb_false_r. reflexivity.
Qed.

Lemma invB_remove_stream hist e r p s :
  InvB hist r -> InvB (hist ++ [e]) (remove_stream r p s).
Proof.
  intros []. destruct (rs_fields r p s) as [Hsw Hst].
  assert (Hrun : forall s0 p0, running (remove_stream r p s) s0 p0 = running r s0 p0)
    by (intros; unfold running; rewrite Hsw; reflexivity).
  constructor.
  - intros p0 s0 Hin. apply rs_streams in Hin. destruct Hin as [Hin Hnot].
    destruct (b_tracked0 p0 s0 Hin) as [Hc Hr]. rewrite Hrun. split; [|exact Hr].
    rewrite rs_ctx. destruct ((s0 =? s) && sid_mem s (streams_of r p)) eqn:Eb; [|exact Hc].
    apply andb_true_iff in Eb. destruct Eb as [E1 E2]. apply N.eqb_eq in E1. subst s0.
    apply sid_mem_In in E2. destruct (b_tracked0 p s E2) as [_ Hr'].
    exfalso. apply Hnot. split; [eapply running_unique; eassumption|reflexivity].
  - intros s0 p0. rewrite Hrun. intros Hr. unfold ctx_cancelled. rewrite rs_ctx.
    destruct ((s0 =? s) && sid_mem s (streams_of r p)) eqn:Eb; [left; reflexivity|].
    destruct (b_running0 s0 p0 Hr) as [Hc|Hin]; [left; exact Hc|]. right. apply rs_streams. split; [exact Hin|].
    intros [-> ->]. apply sid_mem_In in Hin. rewrite Hin, N.eqb_refl in Eb. discriminate.
  - intros s0 st p0 pe0. rewrite Hsw. intros Ha Hb. destruct (b_sw0 s0 st p0 pe0 Ha Hb) as [k Hk].
    exists k. apply in_or_app. left. exact Hk.
  - intros s0 p0 pe0 f. rewrite Hsw. apply b_flag0.
  - intros s0 p0 pe0 f. rewrite Hst. intros Hin. destruct (b_started0 s0 p0 pe0 f Hin) as [Hf [k Hk]].
    split; [exact Hf|]. exists k. apply in_or_app. left. exact Hk.
Qed.

(* changing the wrapper state of one stream that is in no tracked set *)
Lemma invB_set_sw hist r s st :
  (forall p, ~ In s (streams_of r p)) ->
  (forall p, match st with SwTracked q _ _ | SwStarted q _ => q =? p | _ => false end = true ->
             ctx_cancelled r s = true) ->
  (forall p pe, sw_ident st = Some (p, pe) -> exists k, In (Enrol (p, k) pe false) hist) ->
  (forall p pe f, st = SwTracked p pe f -> f = true) ->
  InvB hist r -> InvB hist (with_sw r (put s st (sw r))).
Proof.
  intros Hnot Hcan Hid Hfl []. 
  assert (Hrun : forall s0 p0, s0 <> s -> running (with_sw r (put s st (sw r))) s0 p0 = running r s0 p0).
  { intros s0 p0 Hne. unfold running. cbn [sw with_sw]. msimpl. reflexivity. }
  constructor; cbn [ctxs streams with_sw started sw].
  - intros p0 s0 Hin. change (streams_of (with_sw r (put s st (sw r))) p0) with (streams_of r p0) in Hin.
    assert (s0 <> s) by (intros ->; exact (Hnot p0 Hin)).
    rewrite Hrun by assumption. apply b_tracked0, Hin.
  - intros s0 p0. change (streams_of (with_sw r (put s st (sw r))) p0) with (streams_of r p0).
    change (ctx_cancelled (with_sw r (put s st (sw r))) s0) with (ctx_cancelled r s0).
    destruct (N.eq_dec s0 s) as [->|Hne].
    + unfold running. cbn [sw with_sw]. msimpl. intros H. left. apply (Hcan p0). exact H.
    + rewrite Hrun by assumption. apply b_running0.
  - intros s0 st0 p0 pe0. destruct (N.eq_dec s0 s) as [->|Hne]; msimpl.
    + intros [= <-]. apply Hid.
    + apply b_sw0.
  - intros s0 p0 pe0 f. destruct (N.eq_dec s0 s) as [->|Hne]; msimpl.
    + intros [= H]. eapply Hfl. exact H.
    + apply b_flag0.
  - exact b_started0.
Qed.

Lemma invB_extend hist e r : InvB hist r -> InvB (hist ++ [e]) r.
Proof. intros H. apply invB_same with (r := r); auto. Qed.

Lemma not_running_not_tracked hist r s :
  InvB hist r -> (forall p, running r s p = false) -> forall p, ~ In s (streams_of r p).
Proof. intros [] H p Hin. destruct (b_tracked0 p s Hin) as [_ Hr]. rewrite H in Hr. discriminate. Qed.

Lemma invB_set_ctx hist r s b :
  (forall p, running r s p = false) -> InvB hist r -> InvB hist (with_ctxs r (put s b (ctxs r))).
Proof.
  intros Hnr HB. pose proof (not_running_not_tracked hist r s HB Hnr) as Hnt. destruct HB.
  constructor.
  - intros p0 s0 Hin. change (In s0 (streams_of r p0)) in Hin.
    assert (s0 <> s) by (intros ->; exact (Hnt p0 Hin)).
    change (running (with_ctxs r (put s b (ctxs r))) s0 p0) with (running r s0 p0).
    cbn [ctxs with_ctxs with_streams]. msimpl. apply b_tracked0, Hin.
  - intros s0 p0 Hr. change (running r s0 p0 = true) in Hr.
    assert (s0 <> s) by (intros ->; rewrite Hnr in Hr; discriminate).
    change (streams_of (with_ctxs r (put s b (ctxs r))) p0) with (streams_of r p0).
    unfold ctx_cancelled. cbn [ctxs with_ctxs with_streams]. msimpl. apply b_running0, Hr.
  - exact b_sw0.
  - exact b_flag0.
  - exact b_started0.
Qed.

Lemma invB_track hist r s p pe ss :
  InvB hist r -> get s (sw r) = Some (SwLooked p pe) -> get s (ctxs r) = Some false ->
  get p (streams r) = Some ss ->
  InvB hist (with_sw (with_streams r (put p (sid_add s ss) (streams r)) (ctxs r))
                     (put s (SwTracked p pe true) (sw r))).
Proof.
  intros HB Hsw Hcx Hst.
  assert (Hnr : forall p0, running r s p0 = false) by (intros; unfold running; rewrite Hsw; reflexivity).
  pose proof (not_running_not_tracked hist r s HB Hnr) as Hnt. destruct HB.
  set (r' := with_sw _ _).
  assert (Hso : forall p0 x, In x (streams_of r' p0) <-> (p0 = p /\ x = s) \/ In x (streams_of r p0)).
  { intros p0 x. unfold streams_of. cbn [r' streams with_sw with_streams].
    destruct (N.eq_dec p0 p) as [->|Hne]; msimpl.
    - rewrite In_sid_add, Hst. split; [intros [->|H]; auto|intros [[_ ->]|H]; auto].
    - split; [intros H; right; exact H|intros [[H _]|H]; [contradiction|exact H]]. }
  assert (Hrun : forall s0 p0, s0 <> s -> running r' s0 p0 = running r s0 p0).
  { intros s0 p0 Hne. unfold running. cbn [r' sw with_sw]. msimpl. reflexivity. }
  assert (Hrs : forall p0, running r' s p0 = (p =? p0)).
  { intros p0. unfold running. cbn [r' sw with_sw]. msimpl. reflexivity. }
  constructor.
  - intros p0 s0 Hin. apply Hso in Hin. destruct Hin as [[-> ->]|Hin].
    + split; [exact Hcx|rewrite Hrs; apply N.eqb_refl].
    + assert (s0 <> s) by (intros ->; exact (Hnt p0 Hin)). rewrite Hrun by assumption. apply b_tracked0, Hin.
  - intros s0 p0. destruct (N.eq_dec s0 s) as [->|Hne].
    + rewrite Hrs. intros H. apply N.eqb_eq in H. subst p0. right. apply Hso. left. split; reflexivity.
    + rewrite Hrun by assumption. intros Hr. destruct (b_running0 s0 p0 Hr) as [Hc|Hin]; [left; exact Hc|].
      right. apply Hso. right. exact Hin.
  - intros s0 st0 p0 pe0. cbn [r' sw with_sw]. destruct (N.eq_dec s0 s) as [->|Hne]; msimpl.
    + intros [= <-] [= <- <-]. apply (b_sw0 s (SwLooked p pe) p pe Hsw). reflexivity.
    + apply b_sw0.
  - intros s0 p0 pe0 f. cbn [r' sw with_sw]. destruct (N.eq_dec s0 s) as [->|Hne]; msimpl.
    + intros [= _ _ <-]. reflexivity.
    + apply b_flag0.
  - exact b_started0.
Qed.

Lemma invB_start hist r s p pe f :
  InvB hist r -> get s (sw r) = Some (SwTracked p pe f) ->
  InvB hist (with_sw (with_started r (started r ++ [(s, p, pe, f)])) (put s (SwStarted p pe) (sw r))).
Proof.
  intros HB Hsw. destruct HB. set (r' := with_sw _ _).
  assert (Hrun : forall s0 p0, running r' s0 p0 = running r s0 p0).
  { intros s0 p0. unfold running. cbn [r' sw with_sw]. destruct (N.eq_dec s0 s) as [->|Hne]; msimpl; [|reflexivity].
    rewrite Hsw. reflexivity. }
  constructor.
  - intros p0 s0 Hin. rewrite Hrun. apply b_tracked0, Hin.
  - intros s0 p0. rewrite Hrun. apply b_running0.
  - intros s0 st0 p0 pe0. cbn [r' sw with_sw]. destruct (N.eq_dec s0 s) as [->|Hne]; msimpl.
    + intros [= <-] [= <- <-]. apply (b_sw0 s (SwTracked p pe f) p pe Hsw). reflexivity.
    + apply b_sw0.
  - intros s0 p0 pe0 f0. cbn [r' sw with_sw]. destruct (N.eq_dec s0 s) as [->|Hne]; msimpl; [discriminate|apply b_flag0].
  - intros s0 p0 pe0 f0. cbn [r' started with_sw with_started]. rewrite in_app_iff. intros [Hin|[[= <- <- <- <-]|[]]].
    + apply b_started0 in Hin. exact Hin.
    + split; [eapply b_flag0, Hsw|]. apply (b_sw0 s (SwTracked p pe f) p pe Hsw). reflexivity.
Qed.

Lemma invB_end hist e r s p :
  InvB hist r -> (forall p0, running r s p0 = (p =? p0)) ->
  InvB (hist ++ [e]) (with_sw (remove_stream r p s) (put s SwEnded (sw (remove_stream r p s)))).
Proof.
  intros HB Hrs.
  assert (Hnt : forall p0, ~ In s (streams_of (remove_stream r p s) p0)).
  { intros p0 Hin. apply rs_streams in Hin. destruct Hin as [Hin Hnot]. destruct HB.
    destruct (b_tracked0 p0 s Hin) as [_ Hr]. rewrite Hrs in Hr. apply N.eqb_eq in Hr. subst p0.
    apply Hnot. split; reflexivity. }
  apply invB_set_sw; try discriminate; try assumption.
  apply invB_remove_stream, HB.
Qed.

Lemma invB_step hist r e :
  wf (hist ++ [e]) -> InvA hist r -> InvB hist r -> InvB (hist ++ [e]) (step r e).
Proof.
  intros Hwf HA HB. destruct e as [c pe cl|c|s p|s|s|s|p s|bp]; unfold step, step_with.
  - unfold add_peer. destruct cl; cbn [fst]; [apply invB_extend, HB|].
    apply invB_same with (r := r); try exact HB.
    + eapply enrol_open_streams; eassumption.
    + unfold add_peer_open. destruct (has _ _); reflexivity.
    + unfold add_peer_open. destruct (has _ _); reflexivity.
    + unfold add_peer_open. destruct (has _ _); reflexivity.
  - apply invB_conn_closed; assumption.
  - destruct (get s (sw r)) as [st|] eqn:Es; [apply invB_extend, HB|].
    assert (Hnr : forall p0, running r s p0 = false) by (intros; unfold running; rewrite Es; reflexivity).
    pose proof (not_running_not_tracked hist r s HB Hnr) as Hnt.
    apply invB_extend. unfold get_peer. destruct (get p (overlays r)) as [pe|] eqn:Eo.
    + apply invB_set_sw; try discriminate; try assumption.
      intros p0 pe0 [= <- <-]. eapply a_prov; eassumption.
    + apply invB_set_sw; try discriminate; assumption.
  - destruct (get s (sw r)) as [[p pe|p pe f|p pe| |]|] eqn:Es; try (apply invB_extend, HB).
    apply invB_extend.
    assert (Hnr : forall p0, running r s p0 = false) by (intros; unfold running; rewrite Es; reflexivity).
    pose proof (invB_set_ctx hist r s false Hnr HB) as HB0.
    set (r0 := with_ctxs r (put s false (ctxs r))) in *.
    assert (Hnr0 : forall p0, running r0 s p0 = false) by exact Hnr.
    unfold add_stream. destruct (get p (streams r0)) as [ss|] eqn:Est; cbn [orb negb].
    + assert (Hflag : has p (overlays (with_streams r0 (put p (sid_add s ss) (streams r0)) (ctxs r0))) = true).
      { cbn [overlays with_streams r0 with_ctxs]. apply has_get. intros Hn. apply (a_so _ _ HA) in Hn.
        cbn [streams r0 with_ctxs with_streams] in Est. congruence. }
      rewrite Hflag.
      assert (Hcx : get s (ctxs r0) = Some false) by (cbn [ctxs r0 with_ctxs with_streams]; apply get_put_same).
      exact (invB_track hist r0 s p pe ss HB0 Es Hcx Est).
    + pose proof (invB_set_ctx hist r0 s true Hnr0 HB0) as HB1.
      set (r1 := with_ctxs r0 (put s true (ctxs r0))) in *.
      change (InvB hist (with_sw r1 (put s SwReset (sw r1)))).
      apply invB_set_sw; try discriminate; try assumption.
      apply (not_running_not_tracked hist _ s HB1). exact Hnr0.
  - destruct (get s (sw r)) as [[p pe|p pe f|p pe| |]|] eqn:Es; try (apply invB_extend, HB).
    apply invB_extend. apply invB_start; assumption.
  - destruct (get s (sw r)) as [[p pe|p pe f|p pe| |]|] eqn:Es; try (apply invB_extend, HB).
    + apply invB_end; [exact HB|]. intros p0. unfold running. rewrite Es. reflexivity.
    + apply invB_end; [exact HB|]. intros p0. unfold running. rewrite Es. reflexivity.
  - apply invB_remove_stream, HB.
  - apply invB_extend, HB.
Qed.

(* --- all reachable states ------------------------------------------------------------------------ *)
Lemma run_snoc evs e : run (evs ++ [e]) = step (run evs) e.
Proof. unfold run, run_with. rewrite fold_left_app. reflexivity. Qed.

Lemma inv_run evs : wf evs -> InvA evs (run evs) /\ InvB evs (run evs).
Proof.
  induction evs as [|e l IH] using rev_ind; intros Hwf.
  - split; [apply invA_init|apply invB_init].
  - destruct (IH (wf_prefix _ _ Hwf)) as [HA HB]. rewrite run_snoc. split.
    + apply invA_step; assumption.
    + apply invB_step; assumption.
Qed.

Lemma wfb_wf evs : wfb evs = true -> wf evs.
Proof.
  unfold wfb, wf. intros H c pe c' pe' H1 H2. rewrite forallb_forall in H.
  specialize (H _ H1). rewrite forallb_forall in H. specialize (H _ H2). cbn [fst snd] in H.
  apply Bool.eqb_prop in H. split; intros Heq.
  - apply N.eqb_eq. rewrite <- H. apply N.eqb_eq, Heq.
  - apply N.eqb_eq. rewrite H. apply N.eqb_eq, Heq.
Qed.

Lemma inverse evs : wf evs ->
  (forall p pe, get p (overlays (run evs)) = Some pe -> get (p_addr pe) (underlays (run evs)) = Some p) /\
  (forall a p, get a (underlays (run evs)) = Some p ->
               exists pe, get p (overlays (run evs)) = Some pe /\ p_addr pe = a).
Proof. intros Hwf. destruct (inv_run evs Hwf) as [[] _]. split; assumption. Qed.

Lemma registered_iff evs p : wf evs ->
  (registered (run evs) p = true <-> exists k, open_enrolled evs (p, k) = true).
Proof.
  intros Hwf. destruct (inv_run evs Hwf) as [[] _]. unfold registered. rewrite has_get. split.
  - intros Hov. assert (Hc : get p (conns (run evs)) <> None) by (intros H; apply a_co0 in H; contradiction).
    destruct (get p (conns (run evs))) as [cs|] eqn:Ec; [|congruence].
    destruct cs as [|x l]; [exfalso; eapply a_ne0; [exact Ec|reflexivity]|].
    assert (Hin : In x (conns_of (run evs) p)) by (unfold conns_of; rewrite Ec; left; reflexivity).
    pose proof (a_pid0 p x Hin) as Hp. exists (snd x). rewrite <- a_open0. apply conn_mem_In.
    assert (Hx : x = (p, snd x)) by (rewrite <- Hp; apply conn_eta). rewrite <- Hx. exact Hin.
  - intros [k Hk]. rewrite <- a_open0 in Hk. apply conn_mem_In in Hk. unfold conns_of in Hk.
    destruct (get p (conns (run evs))) as [cs|] eqn:Ec; [|destruct Hk].
    intros Hn. apply a_co0 in Hn. congruence.
Qed.

Lemma no_panic evs : wf evs -> panicked (run evs) = false.
Proof. intros Hwf. destruct (inv_run evs Hwf) as [[] _]. assumption. Qed.

Lemma handlers evs : wf evs ->
  forall s p pe f, In (s, p, pe, f) (started (run evs)) ->
    f = true /\ exists k, In (Enrol (p, k) pe false) evs.
Proof. intros Hwf. destruct (inv_run evs Hwf) as [_ []]. assumption. Qed.

Lemma running_registered_or_cancelled evs : wf evs ->
  forall s p, running (run evs) s p = true ->
    registered (run evs) p = true \/ ctx_cancelled (run evs) s = true.
Proof.
  intros Hwf s p Hr. destruct (inv_run evs Hwf) as [[] []].
  destruct (b_running0 s p Hr) as [Hc|Hin]; [right; exact Hc|left].
  unfold registered. apply has_get. intros Hn. apply a_so0 in Hn. unfold streams_of in Hin.
  rewrite Hn in Hin. destruct Hin.
Qed.

Lemma unknown_peer_reset evs s p : wf evs ->
  get s (sw (run evs)) = None -> registered (run evs) p = false ->
  get s (sw (run (evs ++ [SLookup s p]))) = Some SwReset.
Proof.
  intros Hwf Hs Hr. rewrite run_snoc. unfold step, step_with. rewrite Hs. unfold get_peer.
  apply has_false in Hr. unfold registered in Hr. rewrite Hr. cbn [sw with_sw]. apply get_put_same.
Qed.

Lemma never_enrolled_unregistered evs p : wf evs ->
  (forall k pe, ~ In (Enrol (p, k) pe false) evs) -> registered (run evs) p = false.
Proof.
  intros Hwf Hno. destruct (inv_run evs Hwf) as [[] _]. unfold registered. apply has_false.
  destruct (get p (overlays (run evs))) as [pe|] eqn:E; [|reflexivity].
  destruct (a_prov0 p pe E) as [k Hk]. exfalso. exact (Hno k pe Hk).
Qed.

(* closing a connection *)
Lemma conn_del_all c l : (forall x, In x l -> x = c) -> conn_del c l = [].
Proof.
  intros H. unfold conn_del. induction l as [|y r IH]; [reflexivity|]. cbn.
  rewrite (H y (or_introl eq_refl)), conn_eqb_refl. cbn. apply IH. intros x Hx. apply H. right. exact Hx.
Qed.

Lemma last_close evs c : wf (evs ++ [ConnClosed c]) ->
  open_enrolled evs c = true ->
  (forall k, open_enrolled evs (remote c, k) = true -> (remote c, k) = c) ->
  exists pe, get (remote c) (overlays (run evs)) = Some pe /\
    registered (run (evs ++ [ConnClosed c])) (remote c) = false /\
    get (p_addr pe) (underlays (run (evs ++ [ConnClosed c]))) = None /\
    notes (run (evs ++ [ConnClosed c])) = notes (run evs) ++ [pe] /\
    (forall s, running (run evs) s (remote c) = true -> ctx_cancelled (run (evs ++ [ConnClosed c])) s = true) /\
    (forall s, running (run (evs ++ [ConnClosed c])) s (remote c) = running (run evs) s (remote c)).
Proof.
  intros Hwf Hopen Honly. destruct (inv_run evs (wf_prefix _ _ Hwf)) as [[] []].
  set (p := remote c) in *. set (r := run evs) in *.
  assert (Hc : c = (p, snd c)) by apply conn_eta.
  rewrite Hc in Hopen. rewrite <- a_open0 in Hopen. apply conn_mem_In in Hopen. rewrite <- Hc in Hopen.
  unfold conns_of in Hopen. destruct (get p (conns r)) as [cs|] eqn:Ec; [|destruct Hopen].
  assert (Hall : forall x, In x cs -> x = c).
  { intros x Hx. assert (Hx' : In x (conns_of r p)) by (unfold conns_of; rewrite Ec; exact Hx).
    pose proof (a_pid0 p x Hx') as Hp.
    assert (Hxe : x = (p, snd x)) by (rewrite <- Hp; apply conn_eta).
    rewrite Hxe. apply Honly. rewrite <- a_open0. apply conn_mem_In. rewrite <- Hxe. exact Hx'. }
  assert (Hov : get p (overlays r) <> None) by (intros H; apply a_co0 in H; congruence).
  destruct (get p (overlays r)) as [pe|] eqn:Eo; [clear Hov|congruence].
  exists pe. split; [reflexivity|]. rewrite run_snoc. fold r. unfold step, step_with, disconnected. fold p.
  rewrite Ec, (conn_del_all c cs Hall), Eo. unfold registered, ctx_cancelled, running.
  cbn [overlays underlays notes ctxs sw]. repeat split.
  - apply has_false. apply get_del_same.
  - apply get_del_same.
  - intros s Hr. rewrite get_cancel_all. destruct (sid_mem s (streams_of r p)) eqn:Em; [reflexivity|].
    destruct (b_running0 s p Hr) as [Hcc|Hin]; [exact Hcc|]. apply sid_mem_In in Hin. congruence.
Qed.

Lemma not_last_close evs c : wf (evs ++ [ConnClosed c]) ->
  (open_enrolled evs c = false \/
   exists k, (remote c, k) <> c /\ open_enrolled evs (remote c, k) = true) ->
  notes (run (evs ++ [ConnClosed c])) = notes (run evs) /\
  overlays (run (evs ++ [ConnClosed c])) = overlays (run evs) /\
  underlays (run (evs ++ [ConnClosed c])) = underlays (run evs) /\
  ctxs (run (evs ++ [ConnClosed c])) = ctxs (run evs).
Proof.
  intros Hwf Hcase. destruct (inv_run evs (wf_prefix _ _ Hwf)) as [[] _].
  set (p := remote c) in *. set (r := run evs) in *.
  rewrite run_snoc. fold r. unfold step, step_with, disconnected. fold p.
  destruct (get p (conns r)) as [cs|] eqn:Ec; [|repeat split; reflexivity].
  assert (Hcs : conns_of r p = cs) by (unfold conns_of; rewrite Ec; reflexivity).
  assert (Hx : exists x, conn_mem x cs = true /\ conn_eqb c x = false).
  { destruct Hcase as [Hf|(k & Hne & Hk)].
    - destruct cs as [|x l]; [exfalso; eapply a_ne0; [exact Ec|reflexivity]|]. exists x. split.
      + apply conn_mem_In. left. reflexivity.
      + apply conn_eqb_neq. intros <-.
        assert (Hce : c = (p, snd c)) by apply conn_eta.
        assert (Hm : conn_mem c (c :: l) = true) by (apply conn_mem_In; left; reflexivity).
        rewrite Hce in Hf. rewrite <- a_open0, Hcs, <- Hce in Hf. congruence.
    - exists (p, k). split.
      + rewrite <- Hcs, a_open0. exact Hk.
      + apply conn_eqb_neq. congruence. }
  destruct Hx as (x & Hx1 & Hx2).
  assert (Hd : conn_mem x (conn_del c cs) = true) by (rewrite conn_mem_del, Hx1, Hx2; reflexivity).
  destruct (conn_del c cs) as [|y l]; [discriminate|]. repeat split; reflexivity.
Qed.

Lemma notes_other_events evs e : wf (evs ++ [e]) ->
  (forall c, e <> ConnClosed c) -> notes (run (evs ++ [e])) = notes (run evs).
Proof.
  intros Hwf Hne. rewrite run_snoc. destruct (stream_event e) eqn:Hs.
  - destruct (frame_stream_event (run evs) e Hs) as (_ & _ & _ & _ & H & _). exact H.
  - destruct e as [c pe cl|c|s p|s|s|s|p s|bp]; cbn in Hs; try discriminate.
    + unfold step, step_with, add_peer, add_peer_open. destruct cl; [reflexivity|].
      destruct (has _ _); reflexivity.
    + exfalso. exact (Hne c eq_refl).
Qed.

(* --- the code before the repairs ------------------------------------------------------------------- *)
Definition pe1 : peer := {| p_addr := 7; p_role := 1%Z |}.

Lemma registered_iff_refuted_v0 :
  exists evs p, wf evs /\ registered (run_v0_enrol evs) p = true /\
                forall k, open_enrolled evs (p, k) = false.
Proof.
  exists [Enrol (1, 0) pe1 true], 1. split; [apply wfb_wf; reflexivity|]. split; [reflexivity|].
  intros k. cbn. rewrite andb_false_r. reflexivity.
Qed.

Lemma handlers_refuted_v0 :
  exists evs s p pe, wf evs /\ In (s, p, pe, false) (started (run_v0_wrapper evs)) /\
    running (run_v0_wrapper evs) s p = true /\ registered (run_v0_wrapper evs) p = false /\
    ctx_cancelled (run_v0_wrapper evs) s = false.
Proof.
  exists [Enrol (1, 0) pe1 false; SLookup 0 1; ConnClosed (1, 0); STrack 0; SStart 0], 0, 1, pe1.
  split; [apply wfb_wf; reflexivity|]. vm_compute. repeat split; try reflexivity. left. reflexivity.
Qed.

(* the well-formedness premise is needed: one address proven under two peer ids *)
Lemma panic_without_wf :
  exists evs, wfb evs = false /\ panicked (run evs) = true.
Proof.
  exists [Enrol (1, 0) pe1 false; Enrol (2, 0) pe1 false; ConnClosed (2, 0)]. split; reflexivity.
Qed.

(* --- non-vacuity ------------------------------------------------------------------------------------- *)
Definition ex_history : list event :=
  [Enrol (1, 0) pe1 false; Enrol (1, 1) pe1 false; Enrol (2, 0) {| p_addr := 9; p_role := 2%Z |} true;
   SLookup 0 1; STrack 0; SStart 0; SLookup 1 2; ConnClosed (1, 0); ConnClosed (5, 5)].
Example ex_wf : wf (ex_history ++ [ConnClosed (1, 1)]).
Proof. apply wfb_wf. reflexivity. Qed.
Example ex_state :
  registered (run ex_history) 1 = true /\ registered (run ex_history) 2 = false /\
  get 7 (underlays (run ex_history)) = Some 1 /\ running (run ex_history) 0 1 = true /\
  started (run ex_history) = [(0, 1, pe1, true)] /\ get 1 (sw (run ex_history)) = Some SwReset /\
  notes (run ex_history) = [].
Proof. vm_compute. repeat split; reflexivity. Qed.
Example ex_last_close_premises :
  open_enrolled ex_history (1, 1) = true /\
  (forall k, open_enrolled ex_history (remote (1, 1), k) = true -> (remote (1, 1), k) = (1, 1)).
Proof.
  split; [reflexivity|]. intros k. cbn -[N.eqb conn_eqb]. unfold conn_eqb. cbn [fst snd].
  destruct (N.eqb_spec k 1) as [->|H1]; [reflexivity|].
  destruct (N.eqb_spec k 0) as [->|H0]; cbn; discriminate.
Qed.
Example ex_last_close_effect :
  notes (run (ex_history ++ [ConnClosed (1, 1)])) = [pe1] /\
  ctx_cancelled (run (ex_history ++ [ConnClosed (1, 1)])) 0 = true /\
  registered (run (ex_history ++ [ConnClosed (1, 1)])) 1 = false.
Proof. vm_compute. repeat split; reflexivity. Qed.

(* --- the inbound announcement (tail of handleConnectReq) ------------------------------------------ *)
Lemma announce_anchors :
  Generated.c14_inbound_announces = true /\ Generated.c14_outbound_announces = false /\
  Generated.c14_inbound_connected_args = [[bos "*peer"]].
Proof. repeat split; reflexivity. Qed.

Lemma outbound_never_announces : outbound_announces = false.
Proof. reflexivity. Qed.

(* Connected is announced exactly when this very call registered the peer: it was not registered
   before, it is registered afterwards with the record just proven, over a connection that was
   open and is now tracked *)
Lemma announce_iff evs c pe closed : wf (evs ++ [Enrol c pe closed]) ->
  (inbound_announces (run evs) c pe closed = true <->
   registered (run evs) (remote c) = false /\
   registered (run (evs ++ [Enrol c pe closed])) (remote c) = true).
Proof.
  intros Hwf. destruct (inv_run evs (wf_prefix _ _ Hwf)) as [[] _].
  rewrite run_snoc. unfold inbound_announces, inbound_announces_with, step, step_with, add_peer.
  replace Generated.c14_inbound_announces with true by reflexivity. cbn [andb].
  destruct closed; cbn [fst snd negb].
  - split; [discriminate|]. intros [H1 H2]. congruence.
  - unfold add_peer_open, registered. destruct (has (p_addr pe) (underlays (run evs))) eqn:Hhas; cbn [fst snd negb overlays].
    + split; [discriminate|]. intros [H1 H2]. congruence.
    + split; [intros _|reflexivity]. split; [|apply has_get; msimpl; discriminate].
      apply has_false in Hhas. apply has_false.
      destruct (get (remote c) (overlays (run evs))) as [pe'|] eqn:Ep; [|reflexivity].
      destruct (a_prov0 _ pe' Ep) as [k Hk].
      assert (p_addr pe = p_addr pe').
      { apply (Hwf c pe (remote c, k) pe').
        - rewrite enrolments_app. apply in_or_app. right. left. reflexivity.
        - rewrite enrolments_app. apply in_or_app. left. eapply enrolments_In, Hk.
        - reflexivity. }
      pose proof (a_ou0 _ pe' Ep). congruence.
Qed.

Lemma announce_details evs c pe closed : wf (evs ++ [Enrol c pe closed]) ->
  inbound_announces (run evs) c pe closed = true ->
  closed = false /\
  get (remote c) (overlays (run (evs ++ [Enrol c pe closed]))) = Some pe /\
  get (p_addr pe) (underlays (run (evs ++ [Enrol c pe closed]))) = Some (remote c) /\
  open_enrolled (evs ++ [Enrol c pe closed]) c = true.
Proof.
  intros Hwf. rewrite run_snoc, open_enrolled_snoc.
  unfold inbound_announces, inbound_announces_with, step, step_with, add_peer.
  destruct closed; cbn [fst snd negb]; [rewrite andb_false_r; discriminate|].
  unfold add_peer_open. destruct (has (p_addr pe) (underlays (run evs))); cbn [fst snd negb overlays underlays];
    [rewrite andb_false_r; discriminate|].
  intros _. repeat split; try apply get_put_same. cbn. rewrite conn_eqb_refl. reflexivity.
Qed.

(* the first form of the repair announced a peer that was not registered *)
Lemma announce_refuted_v1 :
  exists evs c pe closed, wf (evs ++ [Enrol c pe closed]) /\
    inbound_announces_with add_peer_v1 (run_with add_peer_v1 true evs) c pe closed = true /\
    registered (run_with add_peer_v1 true (evs ++ [Enrol c pe closed])) (remote c) = false.
Proof.
  exists [], (1, 0), pe1, true. split; [apply wfb_wf; reflexivity|]. split; reflexivity.
Qed.

Example ex_announce :
  inbound_announces (run []) (1, 0) pe1 false = true /\
  inbound_announces (run [Enrol (1, 0) pe1 false]) (1, 1) pe1 false = false /\
  inbound_announces (run []) (1, 0) pe1 true = false.
Proof. repeat split; reflexivity. Qed.

(* --- strict openness ------------------------------------------------------------------------------ *)
Lemma reported_closed_snoc h e c :
  reported_closed (h ++ [e]) c = reported_closed h c || match e with ConnClosed c' => conn_eqb c c' | _ => false end.
Proof. unfold reported_closed. rewrite existsb_app. cbn. rewrite orb_false_r. reflexivity. Qed.
Lemma w3_prefix a b : w3 (a ++ b) -> w3 a.
Proof. intros H pre post c pe ->. apply (H pre (post ++ b) c pe). rewrite <- app_assoc. reflexivity. Qed.

Lemma open_not_reported evs c : w3 evs -> open_enrolled evs c = true -> reported_closed evs c = false.
Proof.
  induction evs as [|e l IH] using rev_ind; intros Hw; [reflexivity|].
  rewrite open_enrolled_snoc, reported_closed_snoc. specialize (IH (w3_prefix _ _ Hw)).
  destruct e as [c' pe cl|c'|s p|s|s|s|p s|bp]; cbn [open_after]; try (rewrite orb_false_r; exact IH).
  - destruct (conn_eqb c c' && negb cl) eqn:E; [|rewrite orb_false_r; exact IH].
    intros _. rewrite orb_false_r. apply andb_true_iff in E. destruct E as [E1 E2].
    apply conn_eqb_eq in E1. subst c'. destruct cl; [discriminate|].
    apply (Hw l [] c pe). reflexivity.
  - destruct (conn_eqb c c'); [discriminate|]. rewrite orb_false_r. exact IH.
Qed.

Lemma truly_open_w3 evs c : w3 evs -> truly_open evs c = open_enrolled evs c.
Proof.
  intros Hw. unfold truly_open. destruct (open_enrolled evs c) eqn:E; [|reflexivity].
  rewrite (open_not_reported evs c Hw E). reflexivity.
Qed.

(* without that order the registry keeps a peer on a connection already reported closed *)
Example stale_without_w3 :
  registered (run [ConnClosed (1, 0); Enrol (1, 0) pe1 false]) 1 = true /\
  truly_open [ConnClosed (1, 0); Enrol (1, 0) pe1 false] (1, 0) = false.
Proof. split; reflexivity. Qed.

(* --- blocking a peer leaves the registry alone ----------------------------------------------------- *)
Lemma block_anchors :
  Generated.c14_block_calls_remove_peer = false /\ Generated.c14_block_calls_get_peer = false.
Proof. split; reflexivity. Qed.
Lemma block_is_noop r p : step r (BlockPeer p) = r.
Proof. reflexivity. Qed.
Lemma block_keeps_everything evs p :
  run (evs ++ [BlockPeer p]) = run evs.
Proof. rewrite run_snoc. reflexivity. Qed.

(* --- isConnected and the outbound path (Service.Connect) ----------------------------------------- *)
Lemma connect_anchors :
  Generated.c14_connect_checks_registered = true /\ Generated.c14_connect_short_circuit = true /\
  Generated.c14_connect_not_found_args = [[bos "addrInfo.ID"]].
Proof. repeat split; reflexivity. Qed.
Lemma remove_peer_unused : remove_peer_callers = repeat false 14.
Proof. reflexivity. Qed.

Lemma is_connected_iff_registered evs p : wf evs ->
  is_connected (run evs) p = get p (overlays (run evs)).
Proof.
  intros Hwf. destruct (inv_run evs Hwf) as [HA _]. unfold is_connected.
  destruct (get p (overlays (run evs))) as [pe|] eqn:E; [|reflexivity].
  assert (H : get p (conns (run evs)) <> None) by (intros H; apply (a_co _ _ HA) in H; congruence).
  apply has_get in H. rewrite H. reflexivity.
Qed.

(* the registry effect of Connect is that of the enrolment, or nothing when the peer is connected *)
Lemma connect_state r c pe closed :
  fst (connect r c pe closed) = r \/ fst (connect r c pe closed) = step r (Enrol c pe closed).
Proof.
  unfold connect, connect_with. destruct (is_connected r (remote c)); [left; reflexivity|right].
  unfold step, step_with. destruct (add_peer r c pe closed) as [r' ex]. cbn [fst].
  destruct (_ && _ && _); reflexivity.
Qed.

(* Connect reports a peer only if that peer is registered when Connect returns *)
Lemma connect_success_registered r c pe closed pe' :
  snd (connect r c pe closed) = Some pe' -> registered (fst (connect r c pe closed)) (remote c) = true.
Proof.
  unfold connect, connect_with, registered. replace Generated.c14_connect_checks_registered with true by reflexivity.
  unfold is_connected. destruct (get (remote c) (overlays r)) as [pe0|] eqn:Eo.
  - destruct (has (remote c) (conns r)) eqn:Ec; cbn [fst snd].
    + intros _. apply has_get. congruence.
    + destruct (add_peer r c pe closed) as [r' ex] eqn:Ea. cbn [andb].
      destruct (ex && negb (has (remote c) (overlays r'))) eqn:Eb; cbn [fst snd]; [discriminate|].
      intros _. apply andb_false_iff in Eb. destruct Eb as [Eb|Eb]; [|apply negb_false_iff, Eb].
      subst ex. unfold add_peer in Ea. destruct closed; [congruence|].
      unfold add_peer_open in Ea. destruct (has (p_addr pe) (underlays r)); [congruence|].
      inversion Ea. cbn [overlays]. apply has_get. msimpl. discriminate.
  - destruct (add_peer r c pe closed) as [r' ex] eqn:Ea. cbn [andb].
    destruct (ex && negb (has (remote c) (overlays r'))) eqn:Eb; cbn [fst snd]; [discriminate|].
    intros _. apply andb_false_iff in Eb. destruct Eb as [Eb|Eb]; [|apply negb_false_iff, Eb].
    subst ex. unfold add_peer in Ea. destruct closed; [congruence|].
    unfold add_peer_open in Ea. destruct (has (p_addr pe) (underlays r)); [congruence|].
    inversion Ea. cbn [overlays]. apply has_get. msimpl. discriminate.
Qed.

(* ... and conversely a refusal leaves the peer unregistered (nothing is withheld) *)
Lemma connect_failure_unregistered r c pe closed :
  snd (connect r c pe closed) = None -> registered (fst (connect r c pe closed)) (remote c) = false.
Proof.
  unfold connect, connect_with, registered. destruct (is_connected r (remote c)); cbn [fst snd]; [discriminate|].
  destruct (add_peer r c pe closed) as [r' ex].
  destruct (Generated.c14_connect_checks_registered && ex && negb (has (remote c) (overlays r'))) eqn:Eb; cbn [fst snd]; [|discriminate].
  intros _. apply andb_true_iff in Eb. destruct Eb as [_ Eb]. apply negb_true_iff, Eb.
Qed.

Lemma connect_refuted_v2 :
  exists r c pe closed pe', snd (connect_v2 r c pe closed) = Some pe' /\
    registered (fst (connect_v2 r c pe closed)) (remote c) = false.
Proof. exists init, (1, 0), pe1, true, pe1. split; reflexivity. Qed.

Example ex_connect :
  snd (connect init (1, 0) pe1 false) = Some pe1 /\ snd (connect init (1, 0) pe1 true) = None /\
  snd (connect (run [Enrol (1, 0) pe1 false]) (1, 1) {| p_addr := 7; p_role := 2%Z |} true) = Some pe1.
Proof. repeat split; reflexivity. Qed.

(* --- which registration a handler's identity comes from -------------------------------------------- *)
Lemma sw_add_peer r c pe cl : sw (fst (add_peer r c pe cl)) = sw r /\ started (fst (add_peer r c pe cl)) = started r.
Proof. unfold add_peer, add_peer_open. destruct cl; [split; reflexivity|]. destruct (has _ _); split; reflexivity. Qed.
Lemma sw_disconnected r c : sw (disconnected r c) = sw r /\ started (disconnected r c) = started r.
Proof.
  unfold disconnected. destruct (get (remote c) (conns r)); [|split; reflexivity].
  destruct (conn_del c l); [|split; reflexivity]. destruct (get (remote c) (overlays r)); split; reflexivity.
Qed.

Lemma sw_step r e s st' p pe :
  get s (sw (step r e)) = Some st' -> sw_ident st' = Some (p, pe) ->
  (exists st, get s (sw r) = Some st /\ sw_ident st = Some (p, pe)) \/
  (e = SLookup s p /\ get s (sw r) = None /\ get p (overlays r) = Some pe).
Proof.
  intros H Hid. destruct e as [c pe0 cl|c|s0 p0|s0|s0|s0|p0 s0|bp]; unfold step, step_with in H.
  - rewrite (proj1 (sw_add_peer r c pe0 cl)) in H. left. eauto.
  - rewrite (proj1 (sw_disconnected r c)) in H. left. eauto.
  - destruct (get s0 (sw r)) as [x|] eqn:E0; [left; eauto|].
    unfold get_peer in H. destruct (get p0 (overlays r)) as [pe0|] eqn:Eo; cbn [sw with_sw] in H;
      (destruct (N.eq_dec s s0) as [->|Hne]; [rewrite get_put_same in H|rewrite get_put_other in H by exact Hne; left; eauto]).
    + injection H as <-. cbn in Hid. injection Hid as <- <-. right. auto.
    + injection H as <-. discriminate.
  - destruct (get s0 (sw r)) as [[q pe0|q pe0 f|q pe0| |]|] eqn:E0; try (left; eauto; fail).
    pose proof (frame_add_stream (with_ctxs r (put s0 false (ctxs r))) q s0) as _.
    unfold add_stream in H. cbn [streams with_ctxs with_streams] in H.
    destruct (get q (streams r)) as [ss|]; cbn [orb negb sw with_sw with_streams with_ctxs] in H;
      (destruct (N.eq_dec s s0) as [->|Hne]; [rewrite get_put_same in H|rewrite get_put_other in H by exact Hne; left; eauto]).
    + injection H as <-. cbn in Hid. left. exists (SwLooked q pe0). split; [exact E0|exact Hid].
    + injection H as <-. discriminate.
  - destruct (get s0 (sw r)) as [[q pe0|q pe0 f|q pe0| |]|] eqn:E0; try (left; eauto; fail).
    cbn [sw with_sw with_started] in H.
    destruct (N.eq_dec s s0) as [->|Hne]; [rewrite get_put_same in H|rewrite get_put_other in H by exact Hne; left; eauto].
    injection H as <-. left. exists (SwTracked q pe0 f). split; [exact E0|exact Hid].
  - destruct (get s0 (sw r)) as [[q pe0|q pe0 f|q pe0| |]|] eqn:E0; try (left; eauto; fail);
      cbn [sw with_sw] in H; rewrite (proj1 (rs_fields r q s0)) in H;
      (destruct (N.eq_dec s s0) as [->|Hne]; [rewrite get_put_same in H; injection H as <-; discriminate
                                             |rewrite get_put_other in H by exact Hne; left; eauto]).
  - rewrite (proj1 (rs_fields r p0 s0)) in H. left. eauto.
  - left. eauto.
Qed.

Definition looked_at (evs : list event) (s : sid) (p : pid) (pe : peer) : Prop :=
  exists pre post, evs = pre ++ SLookup s p :: post /\
    get s (sw (run pre)) = None /\ get p (overlays (run pre)) = Some pe.

Lemma looked_at_snoc evs e s p pe : looked_at evs s p pe -> looked_at (evs ++ [e]) s p pe.
Proof.
  intros (pre & post & -> & H1 & H2). exists pre, (post ++ [e]). split; [|split; assumption].
  rewrite <- app_assoc. reflexivity.
Qed.

Lemma sw_looked_at evs s st p pe :
  get s (sw (run evs)) = Some st -> sw_ident st = Some (p, pe) -> looked_at evs s p pe.
Proof.
  revert st. induction evs as [|e l IH] using rev_ind; intros st H Hid; [discriminate|].
  rewrite run_snoc in H. destruct (sw_step _ _ _ _ _ _ H Hid) as [(st0 & H0 & Hid0)|(-> & H0 & Ho)].
  - apply looked_at_snoc. eapply IH; eassumption.
  - exists l, []. split; [reflexivity|split; assumption].
Qed.

(* the state a stream was tracked in *)
Definition tracked_at (evs : list event) (s : sid) (p : pid) (pe : peer) (f : bool) : Prop :=
  exists pre post, evs = pre ++ STrack s :: post /\
    get s (sw (run pre)) = Some (SwLooked p pe) /\ registered (run pre) p = f.
Lemma tracked_at_snoc evs e s p pe f : tracked_at evs s p pe f -> tracked_at (evs ++ [e]) s p pe f.
Proof.
  intros (pre & post & -> & H1 & H2). exists pre, (post ++ [e]). split; [|split; assumption].
  rewrite <- app_assoc. reflexivity.
Qed.

Lemma tracked_step r e s p pe f :
  get s (sw (step r e)) = Some (SwTracked p pe f) ->
  get s (sw r) = Some (SwTracked p pe f) \/
  (e = STrack s /\ get s (sw r) = Some (SwLooked p pe) /\ registered r p = f).
Proof.
  intros H. destruct e as [c pe0 cl|c|s0 p0|s0|s0|s0|p0 s0|bp]; unfold step, step_with in H.
  - rewrite (proj1 (sw_add_peer r c pe0 cl)) in H. left. exact H.
  - rewrite (proj1 (sw_disconnected r c)) in H. left. exact H.
  - destruct (get s0 (sw r)) as [x|] eqn:E0; [left; exact H|].
    unfold get_peer in H. destruct (get p0 (overlays r)); cbn [sw with_sw] in H;
      (destruct (N.eq_dec s s0) as [->|Hne]; [rewrite get_put_same in H; discriminate|rewrite get_put_other in H by exact Hne; left; exact H]).
  - destruct (get s0 (sw r)) as [[q pe0|q pe0 f0|q pe0| |]|] eqn:E0; try (left; exact H).
    unfold add_stream in H. cbn [streams with_ctxs with_streams] in H.
    destruct (get q (streams r)) as [ss|]; cbn [orb negb sw with_sw with_streams with_ctxs overlays] in H;
      (destruct (N.eq_dec s s0) as [->|Hne]; [rewrite get_put_same in H|rewrite get_put_other in H by exact Hne; left; exact H]).
    + injection H as <- <- <-. right. split; [reflexivity|]. split; [exact E0|reflexivity].
    + discriminate.
  - destruct (get s0 (sw r)) as [[q pe0|q pe0 f0|q pe0| |]|] eqn:E0; try (left; exact H).
    cbn [sw with_sw with_started] in H.
    destruct (N.eq_dec s s0) as [->|Hne]; [rewrite get_put_same in H; discriminate|rewrite get_put_other in H by exact Hne; left; exact H].
  - destruct (get s0 (sw r)) as [[q pe0|q pe0 f0|q pe0| |]|] eqn:E0; try (left; exact H);
      cbn [sw with_sw] in H; rewrite (proj1 (rs_fields r q s0)) in H;
      (destruct (N.eq_dec s s0) as [->|Hne]; [rewrite get_put_same in H; discriminate
                                             |rewrite get_put_other in H by exact Hne; left; exact H]).
  - rewrite (proj1 (rs_fields r p0 s0)) in H. left. exact H.
  - left. exact H.
Qed.

Lemma sw_tracked_at evs s p pe f :
  get s (sw (run evs)) = Some (SwTracked p pe f) -> tracked_at evs s p pe f.
Proof.
  induction evs as [|e l IH] using rev_ind; intros H; [discriminate|].
  rewrite run_snoc in H. destruct (tracked_step _ _ _ _ _ _ H) as [H0|(-> & H0 & Hf)].
  - apply tracked_at_snoc, IH, H0.
  - exists l, []. split; [reflexivity|split; assumption].
Qed.

Lemma started_step r e x :
  In x (started (step r e)) ->
  In x (started r) \/ exists s p pe f, x = (s, p, pe, f) /\ e = SStart s /\ get s (sw r) = Some (SwTracked p pe f).
Proof.
  intros H. destruct e as [c pe0 cl|c|s0 p0|s0|s0|s0|p0 s0|bp]; unfold step, step_with in H.
  - rewrite (proj2 (sw_add_peer r c pe0 cl)) in H. left. exact H.
  - rewrite (proj2 (sw_disconnected r c)) in H. left. exact H.
  - left. destruct (get s0 (sw r)); [exact H|]. destruct (get_peer r p0); exact H.
  - left. destruct (get s0 (sw r)) as [[q pe0|q pe0 f0|q pe0| |]|]; try exact H.
    unfold add_stream in H. cbn [streams with_ctxs with_streams] in H.
    destruct (get q (streams r)); exact H.
  - destruct (get s0 (sw r)) as [[q pe0|q pe0 f0|q pe0| |]|] eqn:E0; try (left; exact H).
    cbn [started with_sw with_started] in H. apply in_app_iff in H. destruct H as [H|[<-|[]]]; [left; exact H|].
    right. exists s0, q, pe0, f0. auto.
  - left. destruct (get s0 (sw r)) as [[q pe0|q pe0 f0|q pe0| |]|]; try exact H;
      cbn [started with_sw] in H; rewrite (proj2 (rs_fields r q s0)) in H; exact H.
  - left. rewrite (proj2 (rs_fields r p0 s0)) in H. exact H.
  - left. exact H.
Qed.

Lemma started_at evs s p pe f :
  In (s, p, pe, f) (started (run evs)) -> looked_at evs s p pe /\ tracked_at evs s p pe f.
Proof.
  induction evs as [|e l IH] using rev_ind; intros H; [destruct H|].
  rewrite run_snoc in H. destruct (started_step _ _ _ H) as [H0|(s' & p' & pe' & f' & [= <- <- <- <-] & -> & Hsw)].
  - destruct (IH H0). split; [apply looked_at_snoc|apply tracked_at_snoc]; assumption.
  - split.
    + apply looked_at_snoc. eapply sw_looked_at; [exact Hsw|reflexivity].
    + apply tracked_at_snoc, sw_tracked_at, Hsw.
Qed.

(* every handler invocation: the identity handed over is the record under which the peer was
   registered when the wrapper looked it up (first event of that stream), proven by a handshake
   before that lookup; and the peer was registered when the stream was tracked, later *)
Lemma handlers_ordered evs : wf evs ->
  forall s p pe f, In (s, p, pe, f) (started (run evs)) ->
    f = true /\
    (exists pre post, evs = pre ++ SLookup s p :: post /\ get s (sw (run pre)) = None /\
        get p (overlays (run pre)) = Some pe /\ exists k, In (Enrol (p, k) pe false) pre) /\
    (exists pre post, evs = pre ++ STrack s :: post /\ get s (sw (run pre)) = Some (SwLooked p pe) /\
        registered (run pre) p = true).
Proof.
  intros Hwf s p pe f Hin. destruct (handlers evs Hwf s p pe f Hin) as [-> _]. split; [reflexivity|].
  destruct (started_at evs s p pe true Hin) as [(pre & post & E & H1 & H2) (pre2 & post2 & E2 & H3 & H4)]. split.
  - exists pre, post. split; [exact E|]. split; [exact H1|]. split; [exact H2|].
    assert (Hwp : wf pre) by (rewrite E in Hwf; apply (wf_prefix _ _ Hwf)).
    destruct (inv_run pre Hwp) as [HA _]. apply (a_prov _ _ HA), H2.
  - exists pre2, post2. auto.
Qed.

(* the stronger reading "the record in force when the stream is tracked" fails: the peer
   disconnects and registers again with another role between the lookup and addStream *)
Lemma handlers_current_refuted :
  exists evs s p pe, wf evs /\ In (s, p, pe, true) (started (run evs)) /\
    exists pre post pe', evs = pre ++ STrack s :: post /\
      get p (overlays (run pre)) = Some pe' /\ pe' <> pe /\ registered (run evs) p = true /\
      ctx_cancelled (run evs) s = false.
Proof.
  exists [Enrol (1, 0) {| p_addr := 7; p_role := 0%Z |} false; SLookup 5 1; ConnClosed (1, 0);
          Enrol (1, 1) {| p_addr := 7; p_role := 1%Z |} false; STrack 5; SStart 5], 5, 1, {| p_addr := 7; p_role := 0%Z |}.
  split; [apply wfb_wf; reflexivity|]. split; [left; reflexivity|].
  exists [Enrol (1, 0) {| p_addr := 7; p_role := 0%Z |} false; SLookup 5 1; ConnClosed (1, 0);
          Enrol (1, 1) {| p_addr := 7; p_role := 1%Z |} false], [SStart 5], {| p_addr := 7; p_role := 1%Z |}.
  split; [reflexivity|]. split; [reflexivity|]. split; [discriminate|]. split; reflexivity.
Qed.

From MevVerif Require Import check.Check_C14.
Open Scope N_scope.

(* --- the checker's clauses on the model's own states ---------------------------------------------- *)
Lemma In_upto i n : In i (upto n) <-> i < n.
Proof.
  unfold upto. rewrite in_map_iff. split.
  - intros (k & <- & Hk). apply in_seq in Hk. lia.
  - intros H. exists (N.to_nat i). split; [apply N2Nat.id|]. apply in_seq. lia.
Qed.
Lemma nth_upto {A : Type} (f : N -> A) n i d : i < n -> nth (N.to_nat i) (map f (upto n)) d = f i.
Proof.
  intros H. unfold upto. rewrite map_map.
  rewrite (nth_indep _ d (f (N.of_nat 0))) by (rewrite map_length, seq_length; lia).
  rewrite (map_nth (fun x => f (N.of_nat x))), seq_nth by lia. cbn. rewrite N2Nat.id. reflexivity.
Qed.

(* the universe of a case covers the history *)
Definition bounded (np nc na : N) (evs : list event) : Prop :=
  forall c pe, In (c, pe) (enrolments evs) -> remote c < np /\ snd c < nc /\ p_addr pe < na.

Lemma open_enrolled_enrolled evs c : open_enrolled evs c = true -> exists pe, In (c, pe) (enrolments evs).
Proof.
  induction evs as [|e l IH] using rev_ind; [discriminate|].
  rewrite open_enrolled_snoc, enrolments_app. intros H.
  assert (Hold : open_enrolled l c = true -> exists pe, In (c, pe) (enrolments l ++ enrolments [e])).
  { intros H0. destruct (IH H0) as [pe Hpe]. exists pe. apply in_or_app. left. exact Hpe. }
  destruct e as [c' pe cl|c'|s p|s|s|s|p s|bp]; cbn [open_after] in H; try (apply Hold, H).
  - destruct (conn_eqb c c' && negb cl) eqn:E; [|apply Hold, H].
    apply andb_true_iff in E. destruct E as [E _]. apply conn_eqb_eq in E. subst c'.
    exists pe. apply in_or_app. right. left. reflexivity.
  - destruct (conn_eqb c c'); [discriminate|apply Hold, H].
Qed.

Lemma reg_in_model np na ns r p : p < np -> reg_in (snap_of np na ns r) p = registered r p.
Proof.
  intros H. unfold reg_in, row, snap_of, registered, has. cbn [sn_over]. rewrite nth_upto by exact H.
  destruct (get p (overlays r)); reflexivity.
Qed.

Lemma check_registered_model np nc na ns evs :
  wf evs -> w3 evs -> bounded np nc na evs ->
  check_registered np nc evs (snap_of np na ns (run evs)) = None.
Proof.
  intros Hwf Hw3 Hb. unfold check_registered.
  assert (H : forall p, In p (upto np) ->
            reg_in (snap_of np na ns (run evs)) p = spec_registered nc evs p).
  { intros p Hp. apply In_upto in Hp. rewrite reg_in_model by exact Hp. unfold spec_registered.
    destruct (registered (run evs) p) eqn:Er.
    - apply (registered_iff evs p Hwf) in Er. destruct Er as [k Hk]. symmetry. apply existsb_exists.
      exists k. split.
      + apply In_upto. destruct (open_enrolled_enrolled evs (p, k) Hk) as [pe Hpe]. apply (Hb _ _ Hpe).
      + rewrite truly_open_w3 by exact Hw3. exact Hk.
    - symmetry. apply not_true_iff_false. intros Hex. apply existsb_exists in Hex.
      destruct Hex as (k & _ & Hk). rewrite truly_open_w3 in Hk by exact Hw3.
      assert (registered (run evs) p = true) by (apply (registered_iff evs p Hwf); eauto). congruence. }
  induction (upto np) as [|p l IH]; [reflexivity|]. cbn [fold_right].
  rewrite (H p (or_introl eq_refl)). rewrite IH by (intros q Hq; apply H; right; exact Hq).
  destruct (spec_registered nc evs p); reflexivity.
Qed.

Lemma zlist_eqb_refl l : zlist_eqb l l = true.
Proof. induction l as [|x r IH]; [reflexivity|]. cbn. rewrite Z.eqb_refl. exact IH. Qed.

Lemma maps_agree_model np nc na ns evs :
  wf evs -> bounded np nc na evs -> maps_agree np na (snap_of np na ns (run evs)) = true.
Proof.
  intros Hwf Hb. destruct (inv_run evs Hwf) as [HA _]. unfold maps_agree. apply andb_true_iff. split.
  - apply forallb_forall. intros p Hp. apply In_upto in Hp. unfold row, snap_of. cbn [sn_over sn_under].
    rewrite nth_upto by exact Hp. destruct (get p (overlays (run evs))) as [pe|] eqn:Eo; [|reflexivity].
    destruct (a_prov _ _ HA p pe Eo) as [k Hk]. apply enrolments_In in Hk. destruct (Hb _ _ Hk) as (_ & _ & Ha).
    replace (0 <=? Z.of_N (p_addr pe))%Z with true by (symmetry; apply Z.leb_le; lia). cbn [andb].
    rewrite N2Z.id, nth_upto by exact Ha. rewrite (a_ou _ _ HA p pe Eo). apply zlist_eqb_refl.
  - apply forallb_forall. intros a Ha. apply In_upto in Ha. unfold row, snap_of. cbn [sn_over sn_under].
    rewrite nth_upto by exact Ha. destruct (get a (underlays (run evs))) as [p|] eqn:Eu; [|reflexivity].
    destruct (a_uo _ _ HA a p Eu) as (pe & Eo & Hadr).
    destruct (a_prov _ _ HA p pe Eo) as [k Hk]. apply enrolments_In in Hk. destruct (Hb _ _ Hk) as (Hp & _ & _).
    cbn [remote fst] in Hp.
    replace (0 <=? Z.of_N p)%Z with true by (symmetry; apply Z.leb_le; lia). cbn [andb].
    rewrite N2Z.id, nth_upto by exact Hp. rewrite Eo, Hadr. apply Z.eqb_refl.
Qed.

(* what the checker evaluates at one step, on the model's own observation of that step: the clauses
   panic, notifications-in-flight, maps-disagree, stale-peer / missing-peer *)
Lemma checker_accepts_model_partial np nc na ns evs :
  wf evs -> w3 evs -> bounded np nc na evs ->
  panicked (run evs) = false /\
  maps_agree np na (snap_of np na ns (run evs)) = true /\
  check_registered np nc evs (snap_of np na ns (run evs)) = None.
Proof.
  intros Hwf Hw3 Hb. split; [apply no_panic, Hwf|]. split.
  - eapply maps_agree_model; eassumption.
  - apply check_registered_model; assumption.
Qed.

(* --- transition clauses of the checker on the model's own observations ---------------------------- *)
Lemma row_over_model np na ns r p : p < np ->
  row (sn_over (snap_of np na ns r)) p =
  match get p (overlays r) with Some pe => [Z.of_N (p_addr pe); p_role pe] | None => [] end.
Proof. intros H. unfold row, snap_of. cbn [sn_over]. apply nth_upto, H. Qed.

(* the clause on addPeer's answer (announced-unregistered / unannounced-registration) *)
Definition enrol_clause (np na ns : N) (r : reg) (c : conn) (pe : peer) (closed : bool) : bool :=
  let prev := snap_of np na ns r in
  let sn := snap_of np na ns (step r (Enrol c pe closed)) in
  if (ret_of r (Enrol c pe closed) =? 0)%Z
  then negb (reg_in prev (remote c)) && zlist_eqb (row (sn_over sn) (remote c)) [Z.of_N (p_addr pe); p_role pe]
  else zlist_eqb (row (sn_over sn) (remote c)) (row (sn_over prev) (remote c)).

Lemma enrol_clause_model np na ns evs c pe closed :
  wf (evs ++ [Enrol c pe closed]) -> remote c < np ->
  enrol_clause np na ns (run evs) c pe closed = true.
Proof.
  intros Hwf Hp. unfold enrol_clause, ret_of, enrol_result.
  rewrite !row_over_model by exact Hp. rewrite reg_in_model by exact Hp.
  destruct (snd (add_peer (run evs) c pe closed)) eqn:Es.
  - (* "exists": the peer's entry is untouched *)
    cbn [Z.eqb]. unfold step, step_with. unfold add_peer in *. destruct closed; cbn [fst snd] in *; [apply zlist_eqb_refl|].
    unfold add_peer_open in *. destruct (has (p_addr pe) (underlays (run evs))); cbn [fst snd overlays] in *;
      [apply zlist_eqb_refl|discriminate].
  - (* "new": registered by this call with this record, not registered before *)
    assert (Ha : inbound_announces (run evs) c pe closed = true).
    { unfold inbound_announces, inbound_announces_with. rewrite Es. reflexivity. }
    destruct (proj1 (announce_iff evs c pe closed Hwf) Ha) as [Hb _].
    destruct (announce_details evs c pe closed Hwf Ha) as (_ & Ho & _).
    rewrite run_snoc in Ho. rewrite Hb, Ho. cbn. rewrite !Z.eqb_refl. reflexivity.
Qed.

(* --- the checker on the model's own observations: the transition clauses -------------------------- *)
Definition ev_sid (e : event) : option sid :=
  match e with SLookup s _ | STrack s | SStart s | SEnd s => Some s | _ => None end.

Lemma sw_frame r e s : ev_sid e <> Some s -> get s (sw (step r e)) = get s (sw r).
Proof.
  intros H. destruct e as [c pe cl|c|s0 p0|s0|s0|s0|p0 s0|bp]; unfold step, step_with; cbn [ev_sid] in H.
  - rewrite (proj1 (sw_add_peer r c pe cl)). reflexivity.
  - rewrite (proj1 (sw_disconnected r c)). reflexivity.
  - assert (s <> s0) by congruence. destruct (get s0 (sw r)); [reflexivity|].
    destruct (get_peer r p0); cbn [sw with_sw]; msimpl; reflexivity.
  - assert (s <> s0) by congruence. destruct (get s0 (sw r)) as [[q pe0|q pe0 f|q pe0| |]|]; try reflexivity.
    unfold add_stream. cbn [streams with_ctxs with_streams].
    destruct (get q (streams r)); cbn [orb negb sw with_sw with_streams with_ctxs]; msimpl; reflexivity.
  - assert (s <> s0) by congruence. destruct (get s0 (sw r)) as [[q pe0|q pe0 f|q pe0| |]|]; try reflexivity.
    cbn [sw with_sw with_started]. msimpl. reflexivity.
  - assert (s <> s0) by congruence. destruct (get s0 (sw r)) as [[q pe0|q pe0 f|q pe0| |]|]; try reflexivity;
      cbn [sw with_sw]; rewrite (proj1 (rs_fields r q s0)); msimpl; reflexivity.
  - rewrite (proj1 (rs_fields r p0 s0)). reflexivity.
  - reflexivity.
Qed.

(* what each wrapper event does to the state of its own stream *)
Lemma sw_lookup r s p :
  get s (sw (step r (SLookup s p))) =
  match get s (sw r) with
  | Some st => Some st
  | None => match get p (overlays r) with Some pe => Some (SwLooked p pe) | None => Some SwReset end
  end.
Proof.
  unfold step, step_with, get_peer. destruct (get s (sw r)) eqn:E; [exact E|].
  destruct (get p (overlays r)); cbn [sw with_sw]; apply get_put_same.
Qed.
Lemma sw_track r s :
  get s (sw (step r (STrack s))) =
  match get s (sw r) with
  | Some (SwLooked p pe) =>
      if has p (streams r) then Some (SwTracked p pe (has p (overlays r))) else Some SwReset
  | o => o
  end.
Proof.
  unfold step, step_with. destruct (get s (sw r)) as [[q pe0|q pe0 f|q pe0| |]|] eqn:E; try exact E.
  unfold add_stream, has. cbn [streams with_ctxs with_streams].
  destruct (get q (streams r)); cbn [orb negb sw with_sw with_streams with_ctxs overlays]; apply get_put_same.
Qed.
Lemma sw_start r s :
  get s (sw (step r (SStart s))) =
  match get s (sw r) with Some (SwTracked p pe _) => Some (SwStarted p pe) | o => o end.
Proof.
  unfold step, step_with. destruct (get s (sw r)) as [[q pe0|q pe0 f|q pe0| |]|] eqn:E; try exact E.
  cbn [sw with_sw with_started]. apply get_put_same.
Qed.
Lemma sw_end r s :
  get s (sw (step r (SEnd s))) =
  match get s (sw r) with Some (SwTracked _ _ _) | Some (SwStarted _ _) => Some SwEnded | o => o end.
Proof.
  unfold step, step_with. destruct (get s (sw r)) as [[q pe0|q pe0 f|q pe0| |]|] eqn:E; try exact E;
    cbn [sw with_sw]; apply get_put_same.
Qed.

Lemma option_eq_dec_sid (o : option sid) (s : sid) : {o = Some s} + {o <> Some s}.
Proof. destruct o as [x|]; [destruct (N.eq_dec x s) as [->|H]; [left; reflexivity|right; congruence]|right; discriminate]. Qed.

Lemma sw_own (e : event) s : ev_sid e = Some s ->
  (exists p, e = SLookup s p) \/ e = STrack s \/ e = SStart s \/ e = SEnd s.
Proof. destruct e; cbn; intros [= <-]; eauto. Qed.

Lemma sw_never_removed r e s : get s (sw r) <> None -> get s (sw (step r e)) <> None.
Proof.
  intros H. destruct (option_eq_dec_sid (ev_sid e) s) as [Ho|Hn]; [|rewrite sw_frame by exact Hn; exact H].
  destruct (sw_own e s Ho) as [[p0 ->] | [-> | [-> | ->]]].
  - rewrite sw_lookup. destruct (get s (sw r)); [discriminate|contradiction].
  - rewrite sw_track. destruct (get s (sw r)) as [[q pe0|q pe0 f|q pe0| |]|]; try discriminate; try contradiction.
    destruct (has q (streams r)); discriminate.
  - rewrite sw_start. destruct (get s (sw r)) as [[q pe0|q pe0 f|q pe0| |]|]; try discriminate; contradiction.
  - rewrite sw_end. destruct (get s (sw r)) as [[q pe0|q pe0 f|q pe0| |]|]; try discriminate; contradiction.
Qed.

Lemma stream_peer_snoc h e s :
  stream_peer (h ++ [e]) s =
  match stream_peer h s with
  | Some q => Some q
  | None => match e with SLookup s' p => if s' =? s then Some p else None | _ => None end
  end.
Proof.
  unfold stream_peer. rewrite fold_left_app. cbn [fold_left].
  destruct (fold_left _ h None); destruct e; reflexivity.
Qed.

(* a stream that has been looked up has a wrapper state, for ever *)
Lemma stream_peer_sw evs s q : stream_peer evs s = Some q -> get s (sw (run evs)) <> None.
Proof.
  revert q. induction evs as [|e l IH] using rev_ind; intros q; [discriminate|].
  rewrite stream_peer_snoc, run_snoc. destruct (stream_peer l s) as [q0|] eqn:E.
  - intros _. apply sw_never_removed. eapply (IH q0). reflexivity.
  - destruct e as [c pe cl|c|s0 p0|s0|s0|s0|p0 s0|bp]; try discriminate.
    destruct (s0 =? s) eqn:Es; [|discriminate]. apply N.eqb_eq in Es. subst s0. intros _.
    rewrite sw_lookup. destruct (get s (sw (run l))); [discriminate|].
    destruct (get p0 (overlays (run l))); discriminate.
Qed.

Lemma sw_stream_peer evs s st p pe :
  get s (sw (run evs)) = Some st -> sw_ident st = Some (p, pe) -> stream_peer evs s = Some p.
Proof.
  revert st. induction evs as [|e l IH] using rev_ind; intros st H Hid; [discriminate|].
  rewrite run_snoc in H. rewrite stream_peer_snoc.
  destruct (sw_step _ _ _ _ _ _ H Hid) as [(st0 & H0 & Hid0)|(-> & H0 & Ho)].
  - rewrite (IH st0 H0 Hid0). reflexivity.
  - destruct (stream_peer l s) as [q|] eqn:E.
    + exfalso. exact (stream_peer_sw l s q E H0).
    + rewrite N.eqb_refl. reflexivity.
Qed.

(* handler invocations: appended by SStart from the tracked state, otherwise unchanged *)
Lemma started_eq r e :
  started (step r e) = started r ++
    match e with
    | SStart s => match get s (sw r) with Some (SwTracked p pe f) => [(s, p, pe, f)] | _ => [] end
    | _ => []
    end.
Proof.
  destruct e as [c pe0 cl|c|s0 p0|s0|s0|s0|p0 s0|bp]; unfold step, step_with; rewrite ?app_nil_r.
  - apply (proj2 (sw_add_peer r c pe0 cl)).
  - apply (proj2 (sw_disconnected r c)).
  - destruct (get s0 (sw r)); [reflexivity|]. destruct (get_peer r p0); reflexivity.
  - destruct (get s0 (sw r)) as [[q pe0|q pe0 f0|q pe0| |]|]; try reflexivity.
    unfold add_stream. cbn [streams with_ctxs with_streams]. destruct (get q (streams r)); reflexivity.
  - destruct (get s0 (sw r)) as [[q pe0|q pe0 f0|q pe0| |]|]; rewrite ?app_nil_r; reflexivity.
  - destruct (get s0 (sw r)) as [[q pe0|q pe0 f0|q pe0| |]|]; try reflexivity;
      cbn [started with_sw]; apply (proj2 (rs_fields r q s0)).
  - apply (proj2 (rs_fields r p0 s0)).
  - reflexivity.
Qed.

Lemma started_has evs s p pe :
  get s (sw (run evs)) = Some (SwStarted p pe) -> exists f, In (s, p, pe, f) (started (run evs)).
Proof.
  induction evs as [|e l IH] using rev_ind; intros H; [discriminate|].
  rewrite run_snoc in *. rewrite started_eq.
  destruct (option_eq_dec_sid (ev_sid e) s) as [Ho|Hn].
  2:{ rewrite sw_frame in H by exact Hn. destruct (IH H) as [f Hf]. exists f. apply in_or_app. left. exact Hf. }
  destruct (sw_own e s Ho) as [[p0 ->] | [-> | [-> | ->]]].
  - rewrite sw_lookup in H. destruct (get s (sw (run l))) as [st|] eqn:E.
    + injection H as ->. destruct (IH eq_refl) as [f Hf]. exists f. apply in_or_app. left. exact Hf.
    + destruct (get p0 (overlays (run l))); discriminate.
  - rewrite sw_track in H. destruct (get s (sw (run l))) as [[q pe0|q pe0 f|q pe0| |]|] eqn:E; try discriminate.
    + destruct (has q (streams (run l))); discriminate.
    + injection H as -> ->. destruct (IH eq_refl) as [f Hf]. exists f. apply in_or_app. left. exact Hf.
  - rewrite sw_start in H. destruct (get s (sw (run l))) as [[q pe0|q pe0 f|q pe0| |]|] eqn:E; try discriminate.
    + injection H as -> ->. exists f. apply in_or_app. right. left. reflexivity.
    + injection H as -> ->. destruct (IH eq_refl) as [f Hf]. exists f. apply in_or_app. left. exact Hf.
  - rewrite sw_end in H. destruct (get s (sw (run l))) as [[q pe0|q pe0 f|q pe0| |]|] eqn:E; discriminate.
Qed.

(* Disconnected either leaves registrations and notifications alone or removes exactly one peer
   and emits exactly its record *)
Lemma disconnected_cases hist c : wf hist ->
  let r := run hist in let r' := disconnected r c in
  (overlays r' = overlays r /\ notes r' = notes r) \/
  (exists pe, get (remote c) (overlays r) = Some pe /\ overlays r' = del (remote c) (overlays r) /\
              notes r' = notes r ++ [pe]).
Proof.
  intros Hwf. destruct (inv_run hist Hwf) as [HA _]. cbn zeta. unfold disconnected.
  destruct (get (remote c) (conns (run hist))) as [cs|] eqn:Ec; [|left; split; reflexivity].
  destruct (conn_del c cs); [|left; split; reflexivity].
  destruct (get (remote c) (overlays (run hist))) as [pe|] eqn:Eo.
  - right. exists pe. repeat split; reflexivity.
  - exfalso. apply (a_co _ _ HA) in Eo. congruence.
Qed.

Lemma overlays_other_events r e : (forall c, e <> ConnClosed c) ->
  forall p, registered r p = true -> registered (step r e) p = true.
Proof.
  intros Hne p Hr. destruct (stream_event e) eqn:Hs.
  - destruct (frame_stream_event r e Hs) as (H & _). unfold registered. rewrite H. exact Hr.
  - destruct e as [c pe cl|c|s0 p0|s0|s0|s0|p0 s0|bp]; cbn in Hs; try discriminate.
    + unfold step, step_with, add_peer, add_peer_open, registered in *. destruct cl; [exact Hr|].
      destruct (has (p_addr pe) (underlays r)); cbn [fst overlays]; [exact Hr|].
      apply has_get. destruct (N.eq_dec p (remote c)) as [->|Hn]; msimpl; [discriminate|apply has_get, Hr].
    + exfalso. exact (Hne c eq_refl).
Qed.

Definition sbounded (np ns : N) (evs : list event) : Prop :=
  forall s p, In (SLookup s p) evs -> s < ns /\ p < np.

Lemma cell_sw_model np na ns r s : s < ns -> cell (sn_sw (snap_of np na ns r)) s = sw_code (get s (sw r)).
Proof. intros H. unfold cell, snap_of. cbn [sn_sw]. rewrite nth_upto by exact H. reflexivity. Qed.
Lemma cell_ctx_model np na ns r s : s < ns ->
  cell (sn_ctx (snap_of np na ns r)) s =
  if existsb (fun x => match x with (s', _, _, _) => (s' =? s)%N end) (started r)
      || match get s (sw r) with Some (SwTracked _ _ _) => true | _ => false end
  then (if ctx_cancelled r s then 2%Z else 1%Z) else 0%Z.
Proof. intros H. unfold cell, snap_of. cbn [sn_ctx]. rewrite nth_upto by exact H. reflexivity. Qed.

Lemma flat_map_nil {A B : Type} (f : A -> list B) l : (forall q, In q l -> f q = []) -> flat_map f l = [].
Proof.
  induction l as [|a r IH]; intros H; [reflexivity|]. cbn. rewrite (H a (or_introl eq_refl)). cbn.
  apply IH. intros q Hq. apply H. right. exact Hq.
Qed.
Lemma drop_prefix_app l x : drop_prefix l (l ++ x) = Some x.
Proof. induction l as [|a r IH]; [reflexivity|]. cbn. rewrite Z.eqb_refl. exact IH. Qed.
Lemma drop_prefix_same l : drop_prefix l l = Some [].
Proof. rewrite <- (app_nil_r l) at 2. apply drop_prefix_app. Qed.
Lemma flat_map_single {A : Type} (f : N -> list A) n p x :
  p < n -> f p = x -> (forall q, q <> p -> f q = []) -> flat_map f (upto n) = x.
Proof.
  intros Hp Hf Ho. unfold upto.
  assert (G : forall m k, (k <= N.to_nat p < k + m)%nat -> flat_map f (map N.of_nat (seq k m)) = x).
  { induction m as [|m IH]; intros k Hk; [lia|]. cbn [seq map flat_map].
    destruct (Nat.eq_dec k (N.to_nat p)) as [->|Hne].
    - rewrite N2Nat.id, Hf.
      rewrite (flat_map_nil f (map N.of_nat (seq (S (N.to_nat p)) m))); [apply app_nil_r|].
      intros q Hq. apply in_map_iff in Hq. destruct Hq as (j & <- & Hj). apply in_seq in Hj. apply Ho. lia.
    - rewrite (Ho (N.of_nat k)) by lia. cbn. apply IH. lia. }
  apply G. lia.
Qed.

Lemma classic_conn_closed (e : event) : (exists c, e = ConnClosed c) \/ (forall c, e <> ConnClosed c).
Proof. destruct e; try (right; discriminate). left. eauto. Qed.

Lemma check_notes_model np nc na ns hist e :
  wf (hist ++ [e]) -> bounded np nc na (hist ++ [e]) ->
  check_notes np (snap_of np na ns (run hist)) (snap_of np na ns (step (run hist) e)) = true.
Proof.
  intros Hwf Hb. assert (Hwh : wf hist) by apply (wf_prefix _ _ Hwf).
  unfold check_notes. set (r := run hist). set (r' := step r e).
  assert (Hcase : (notes r' = notes r /\ (forall q, registered r q = true -> registered r' q = true)) \/
                  (exists c pe, e = ConnClosed c /\ get (remote c) (overlays r) = Some pe /\
                                overlays r' = del (remote c) (overlays r) /\ notes r' = notes r ++ [pe])).
  { destruct (classic_conn_closed e) as [[c ->]|Hne].
    - destruct (disconnected_cases hist c Hwh) as [[H1 H2]|(pe & H1 & H2 & H3)].
      + left. split; [exact H2|]. intros q Hq. unfold registered, r', r, step, step_with in *. rewrite H1. exact Hq.
      + right. exists c, pe. auto.
    - left. split; [|apply overlays_other_events, Hne].
      unfold r', r. rewrite <- run_snoc. apply notes_other_events; assumption. }
  cbn [sn_notes snap_of]. destruct Hcase as [[Hn Hm]|(c & pe & -> & Ho & Hd & Hn)].
  - fold r r'. rewrite Hn, drop_prefix_same. rewrite flat_map_nil; [reflexivity|].
    intros q Hq. apply In_upto in Hq. rewrite !reg_in_model by exact Hq.
    destruct (registered r q) eqn:Eq; [|reflexivity]. rewrite (Hm q Eq). reflexivity.
  - fold r r'. rewrite Hn, flat_map_app, drop_prefix_app. cbn [flat_map]. rewrite app_nil_r.
    assert (Hp : remote c < np).
    { destruct (inv_run hist Hwh) as [HA _]. destruct (a_prov _ _ HA _ _ Ho) as [k Hk].
      apply enrolments_In in Hk. assert (Hk' : In ((remote c, k), pe) (enrolments (hist ++ [ConnClosed c]))).
      { rewrite enrolments_app. apply in_or_app. left. exact Hk. }
      apply (Hb _ _ Hk'). }
    rewrite (flat_map_single _ np (remote c) [Z.of_N (p_addr pe); p_role pe]); [apply zlist_eqb_refl|exact Hp| |].
    + rewrite !reg_in_model by exact Hp. rewrite row_over_model by exact Hp. unfold registered, has.
      fold r. rewrite Ho. fold r'. rewrite Hd, get_del_same. reflexivity.
    + intros q Hq. destruct (N.lt_ge_cases q np) as [Hlt|Hge].
      * rewrite !reg_in_model by exact Hlt. unfold registered, has. fold r r'. rewrite Hd.
        rewrite get_del_other by exact Hq. destruct (get q (overlays r)); reflexivity.
      * unfold reg_in, row, snap_of. cbn [sn_over]. rewrite !nth_overflow by (rewrite map_length; unfold upto; rewrite map_length, seq_length; lia).
        reflexivity.
Qed.

Lemma looked_at_in evs s p pe : looked_at evs s p pe -> In (SLookup s p) evs.
Proof. intros (pre & post & -> & _). apply in_or_app. right. left. reflexivity. Qed.

Lemma check_ctx_model np na ns evs :
  wf evs -> sbounded np ns evs -> check_ctx ns evs (snap_of np na ns (run evs)) = true.
Proof.
  intros Hwf Hsb. unfold check_ctx. apply forallb_forall. intros s Hs. apply In_upto in Hs.
  rewrite cell_sw_model by exact Hs.
  destruct (get s (sw (run evs))) as [[q pe|q pe f|q pe| |]|] eqn:E; cbn [sw_code Z.eqb orb]; try reflexivity.
  - (* tracked *)
    rewrite (sw_stream_peer evs s _ q pe E eq_refl).
    assert (Hq : q < np) by (apply (Hsb s q), (looked_at_in evs s q pe), (sw_looked_at evs s _ q pe E eq_refl)).
    rewrite reg_in_model by exact Hq. rewrite cell_ctx_model by exact Hs. rewrite E.
    assert (Hr : running (run evs) s q = true) by (unfold running; rewrite E; apply N.eqb_refl).
    destruct (running_registered_or_cancelled evs Hwf s q Hr) as [H|H]; rewrite H; [reflexivity|].
    match goal with |- context [existsb ?g (started (run evs))] => destruct (existsb g (started (run evs))) end; cbn; apply orb_true_r.
  - (* handler running *)
    rewrite (sw_stream_peer evs s _ q pe E eq_refl).
    assert (Hq : q < np) by (apply (Hsb s q), (looked_at_in evs s q pe), (sw_looked_at evs s _ q pe E eq_refl)).
    rewrite reg_in_model by exact Hq. rewrite cell_ctx_model by exact Hs.
    destruct (started_has evs s q pe E) as [f Hf].
    assert (Hex : existsb (fun x => match x with (s', _, _, _) => s' =? s end) (started (run evs)) = true).
    { apply existsb_exists. exists (s, q, pe, f). split; [exact Hf|apply N.eqb_refl]. }
    rewrite Hex. cbn [orb].
    assert (Hr : running (run evs) s q = true) by (unfold running; rewrite E; apply N.eqb_refl).
    destruct (running_registered_or_cancelled evs Hwf s q Hr) as [H|H]; rewrite H; [reflexivity|apply orb_true_r].
Qed.

(* the reset clause: a new stream from an unregistered peer *)
Lemma reset_clause_model np na ns r s p : s < ns -> p < np ->
  (if (cell (sn_sw (snap_of np na ns r)) s =? 0)%Z && negb (reg_in (snap_of np na ns r) p)
   then (cell (sn_sw (snap_of np na ns (step r (SLookup s p)))) s =? 4)%Z else true) = true.
Proof.
  intros Hs Hp. rewrite !cell_sw_model by exact Hs. rewrite reg_in_model by exact Hp. rewrite sw_lookup.
  destruct (get s (sw r)) as [st|]; [destruct st; reflexivity|]. cbn [sw_code Z.eqb andb].
  unfold registered, has. destruct (get p (overlays r)); reflexivity.
Qed.


(* non-vacuity: a history on which every one of these clauses is exercised *)
Example ex_clauses :
  check_notes 3 (snap_of 3 10 6 (run ex_history)) (snap_of 3 10 6 (step (run ex_history) (ConnClosed (1, 1)))) = true /\
  check_ctx 6 ex_history (snap_of 3 10 6 (run ex_history)) = true /\
  sn_notes (snap_of 3 10 6 (step (run ex_history) (ConnClosed (1, 1)))) = [7%Z; 1%Z].
Proof. repeat split; vm_compute; reflexivity. Qed.

(* --- the handler clauses: the checker's threaded tables against the model's wrapper states --------- *)
Definition enc (pe : peer) : list Z := [Z.of_N (p_addr pe); p_role pe].
Record TI (r : reg) (ti : list (sid * bool)) (li : list (sid * list Z)) : Prop := {
  ti_none : forall s, get s (sw r) = None -> get s ti = None;
  ti_looked : forall s p pe, get s (sw r) = Some (SwLooked p pe) -> get s ti = None;
  ti_tracked : forall s p pe f, get s (sw r) = Some (SwTracked p pe f) -> get s ti = Some true;
  ti_ident : forall s st p pe, get s (sw r) = Some st -> sw_ident st = Some (p, pe) -> get s li = Some (enc pe) }.

Lemma TI_init : TI init [] [].
Proof. constructor; cbn; intros; try reflexivity; discriminate. Qed.

(* every stream id used by the history is inside the case's universe, and so is the peer of a lookup *)
Definition sids_bounded (np ns : N) (evs : list event) : Prop :=
  (forall e s, In e evs -> ev_sid e = Some s -> s < ns) /\ sbounded np ns evs.

(* the two tables as check_from updates them at a fully observed step *)
Definition ti_next (hist : list event) (prev : snap) (ti : list (sid * bool)) (e : event) :=
  match e with
  | STrack s => match get s ti, stream_peer hist s with
                | None, Some p => if (cell (sn_sw prev) s =? 1)%Z then put s (reg_in prev p) ti else ti
                | _, _ => ti end
  | _ => ti
  end.
Definition li_next (prev : snap) (li : list (sid * list Z)) (e : event) :=
  match e with
  | SLookup s p => if negb false && true && (cell (sn_sw prev) s =? 0)%Z && negb (is_nil (row (sn_over prev) p))
                   then put s (row (sn_over prev) p) li else li
  | _ => li
  end.

Lemma ti_next_own hist prev ti s0 :
  get s0 (ti_next hist prev ti (STrack s0)) =
  match get s0 ti with
  | Some b => Some b
  | None => match stream_peer hist s0 with
            | Some p => if (cell (sn_sw prev) s0 =? 1)%Z then Some (reg_in prev p) else None
            | None => None
            end
  end.
Proof.
  unfold ti_next. destruct (get s0 ti) eqn:Et; [exact Et|]. destruct (stream_peer hist s0); [|exact Et].
  destruct (cell (sn_sw prev) s0 =? 1)%Z; [apply get_put_same|exact Et].
Qed.
Lemma li_next_own prev li s0 p0 :
  get s0 (li_next prev li (SLookup s0 p0)) =
  if (cell (sn_sw prev) s0 =? 0)%Z && negb (is_nil (row (sn_over prev) p0))
  then Some (row (sn_over prev) p0) else get s0 li.
Proof.
  unfold li_next. cbn [negb andb]. destruct ((cell (sn_sw prev) s0 =? 0)%Z && negb (is_nil (row (sn_over prev) p0)));
    [apply get_put_same|reflexivity].
Qed.

Lemma TI_step np na ns hist e ti li :
  wf (hist ++ [e]) -> sids_bounded np ns (hist ++ [e]) ->
  TI (run hist) ti li ->
  TI (step (run hist) e) (ti_next hist (snap_of np na ns (run hist)) ti e)
                         (li_next (snap_of np na ns (run hist)) li e).
Proof.
  intros Hwf [Hsid Hsb] HT. set (r := run hist) in *.
  assert (Hwh : wf hist) by apply (wf_prefix _ _ Hwf). destruct (inv_run hist Hwh) as [HA _]. fold r in HA.
  assert (Hin : In e (hist ++ [e])) by (apply in_or_app; right; left; reflexivity).
  assert (Hother : forall s1, ev_sid e <> Some s1 ->
            get s1 (sw (step r e)) = get s1 (sw r) /\
            get s1 (ti_next hist (snap_of np na ns r) ti e) = get s1 ti /\
            get s1 (li_next (snap_of np na ns r) li e) = get s1 li).
  { intros s1 Hn. split; [apply sw_frame, Hn|]. split.
    - destruct e; cbn [ti_next]; try reflexivity. cbn [ev_sid] in Hn.
      destruct (get s ti); [reflexivity|]. destruct (stream_peer hist s); [|reflexivity].
      destruct (cell (sn_sw (snap_of np na ns r)) s =? 1)%Z; [|reflexivity]. apply get_put_other. congruence.
    - destruct e; cbn [li_next]; try reflexivity. cbn [ev_sid] in Hn.
      destruct (_ && _ && _ && _); [|reflexivity]. apply get_put_other. congruence. }
  destruct HT as [T1 T2 T3 T4].
  assert (Hown : forall s0, ev_sid e = Some s0 ->
            (get s0 (sw (step r e)) = None -> get s0 (ti_next hist (snap_of np na ns r) ti e) = None) /\
            (forall p pe, get s0 (sw (step r e)) = Some (SwLooked p pe) ->
                          get s0 (ti_next hist (snap_of np na ns r) ti e) = None) /\
            (forall p pe f, get s0 (sw (step r e)) = Some (SwTracked p pe f) ->
                            get s0 (ti_next hist (snap_of np na ns r) ti e) = Some true) /\
            (forall st p pe, get s0 (sw (step r e)) = Some st -> sw_ident st = Some (p, pe) ->
                             get s0 (li_next (snap_of np na ns r) li e) = Some (enc pe))).
  { intros s0 Ho. assert (Hs0 : s0 < ns) by (apply (Hsid e s0 Hin Ho)).
    assert (Hcode : cell (sn_sw (snap_of np na ns r)) s0 = sw_code (get s0 (sw r))) by (apply cell_sw_model, Hs0).
    destruct (sw_own e s0 Ho) as [[p0 ->] | [-> | [-> | ->]]].
    - (* SLookup *)
      assert (Hp0 : p0 < np) by (apply (Hsb s0 p0 Hin)).
      change (ti_next hist (snap_of np na ns r) ti (SLookup s0 p0)) with ti.
      rewrite li_next_own, sw_lookup, Hcode, (row_over_model np na ns r p0 Hp0).
      destruct (get s0 (sw r)) as [st|] eqn:E.
      + assert (Hnz : (sw_code (Some st) =? 0)%Z = false) by (destruct st; reflexivity). rewrite Hnz. cbn [andb].
        repeat split.
        * discriminate.
        * intros p pe [= ->]. eapply T2, E.
        * intros p pe f [= ->]. eapply T3, E.
        * intros st0 p pe [= <-] Hid. eapply T4; eassumption.
      + change (sw_code None =? 0)%Z with true. cbn [andb].
        destruct (get p0 (overlays r)) as [pe0|] eqn:Eo; cbn [is_nil negb].
        * repeat split; try discriminate.
          -- intros p pe _. apply T1, E.
          -- intros st0 p pe [= <-] [= <- <-]. reflexivity.
        * repeat split; try discriminate. intros st0 p pe [= <-]. discriminate.
    - (* STrack *)
      change (li_next (snap_of np na ns r) li (STrack s0)) with li.
      rewrite ti_next_own, sw_track, Hcode. destruct (get s0 (sw r)) as [[q pe0|q pe0 f0|q pe0| |]|] eqn:E.
      + rewrite (T2 s0 q pe0 E), (sw_stream_peer hist s0 _ q pe0 E eq_refl).
        change (sw_code (Some (SwLooked q pe0)) =? 1)%Z with true. cbn iota.
        assert (Hq : q < np).
        { apply (Hsb s0 q), in_or_app. left. apply (looked_at_in hist s0 q pe0), (sw_looked_at hist s0 _ q pe0 E eq_refl). }
        rewrite (reg_in_model np na ns r q Hq).
        destruct (has q (streams r)) eqn:Es; repeat split; try discriminate.
        * intros p pe f [= <- <- <-]. f_equal. unfold registered. apply has_get. intros Hn.
          apply (a_so _ _ HA) in Hn. apply has_get in Es. contradiction.
        * intros st0 p pe [= <-] [= <- <-]. eapply T4; [exact E|reflexivity].
        * intros st0 p pe [= <-]. discriminate.
      + rewrite (T3 s0 q pe0 f0 E). repeat split; try discriminate.
        intros st0 p pe [= <-] Hid. eapply T4; eassumption.
      + assert (Hg : match get s0 ti with
                     | Some b => Some b
                     | None => match stream_peer hist s0 with
                               | Some p => if (sw_code (Some (SwStarted q pe0)) =? 1)%Z then Some (reg_in (snap_of np na ns r) p) else None
                               | None => None end
                     end = get s0 ti) by (destruct (get s0 ti); [reflexivity|]; destruct (stream_peer hist s0); reflexivity).
        rewrite Hg. repeat split; try discriminate. intros st0 p pe [= <-] Hid. eapply T4; eassumption.
      + assert (Hg : match get s0 ti with
                     | Some b => Some b
                     | None => match stream_peer hist s0 with
                               | Some p => if (sw_code (Some SwReset) =? 1)%Z then Some (reg_in (snap_of np na ns r) p) else None
                               | None => None end
                     end = get s0 ti) by (destruct (get s0 ti); [reflexivity|]; destruct (stream_peer hist s0); reflexivity).
        rewrite Hg. repeat split; try discriminate. intros st0 p pe [= <-]. discriminate.
      + assert (Hg : match get s0 ti with
                     | Some b => Some b
                     | None => match stream_peer hist s0 with
                               | Some p => if (sw_code (Some SwEnded) =? 1)%Z then Some (reg_in (snap_of np na ns r) p) else None
                               | None => None end
                     end = get s0 ti) by (destruct (get s0 ti); [reflexivity|]; destruct (stream_peer hist s0); reflexivity).
        rewrite Hg. repeat split; try discriminate. intros st0 p pe [= <-]. discriminate.
      + rewrite (T1 s0 E). destruct (stream_peer hist s0); repeat split; try discriminate; reflexivity.
    - (* SStart *)
      change (ti_next hist (snap_of np na ns r) ti (SStart s0)) with ti.
      change (li_next (snap_of np na ns r) li (SStart s0)) with li.
      rewrite sw_start. destruct (get s0 (sw r)) as [[q pe0|q pe0 f0|q pe0| |]|] eqn:E; repeat split; try discriminate.
      + intros p pe [= -> ->]. eapply T2, E.
      + intros st0 p pe [= <-] Hid. eapply T4; eassumption.
      + intros st0 p pe [= <-] [= <- <-]. eapply T4; [exact E|reflexivity].
      + intros st0 p pe [= <-] Hid. eapply T4; eassumption.
      + intros st0 p pe [= <-]. discriminate.
      + intros st0 p pe [= <-]. discriminate.
      + intros _. apply T1, E.
    - (* SEnd *)
      change (ti_next hist (snap_of np na ns r) ti (SEnd s0)) with ti.
      change (li_next (snap_of np na ns r) li (SEnd s0)) with li.
      rewrite sw_end. destruct (get s0 (sw r)) as [[q pe0|q pe0 f0|q pe0| |]|] eqn:E; repeat split; try discriminate.
      + intros p pe [= -> ->]. eapply T2, E.
      + intros st0 p pe [= <-] Hid. eapply T4; eassumption.
      + intros st0 p pe [= <-]. discriminate.
      + intros st0 p pe [= <-]. discriminate.
      + intros st0 p pe [= <-]. discriminate.
      + intros st0 p pe [= <-]. discriminate.
      + intros _. apply T1, E. }
  constructor.
  - intros s1 H. destruct (option_eq_dec_sid (ev_sid e) s1) as [Ho|Hn].
    + apply (proj1 (Hown s1 Ho)), H.
    + destruct (Hother s1 Hn) as (H1 & H2 & _). rewrite H2. apply T1. rewrite <- H1. exact H.
  - intros s1 p pe H. destruct (option_eq_dec_sid (ev_sid e) s1) as [Ho|Hn].
    + eapply (proj1 (proj2 (Hown s1 Ho))), H.
    + destruct (Hother s1 Hn) as (H1 & H2 & _). rewrite H2. eapply T2. rewrite <- H1. exact H.
  - intros s1 p pe f H. destruct (option_eq_dec_sid (ev_sid e) s1) as [Ho|Hn].
    + eapply (proj1 (proj2 (proj2 (Hown s1 Ho)))), H.
    + destruct (Hother s1 Hn) as (H1 & H2 & _). rewrite H2. eapply T3. rewrite <- H1. exact H.
  - intros s1 st p pe H Hid. destruct (option_eq_dec_sid (ev_sid e) s1) as [Ho|Hn].
    + eapply (proj2 (proj2 (proj2 (Hown s1 Ho)))); eassumption.
    + destruct (Hother s1 Hn) as (H1 & _ & H3). rewrite H3. eapply T4; [rewrite <- H1; exact H|exact Hid].
Qed.

(* the handler clause (handler-unregistered / handler-identity) as check_from evaluates it at a step *)
Definition starts_clause (np na ns : N) (hist : list event) (ti : list (sid * bool)) (li : list (sid * list Z))
  (e : event) : option string :=
  let prev := snap_of np na ns (run hist) in
  let sn := snap_of np na ns (step (run hist) e) in
  match drop_prefix (sn_started prev) (sn_started sn) with
  | Some fresh => check_starts (hist ++ [e]) (ti_next hist prev ti e) (li_next prev li e) fresh
  | None => Some "handler-identity"%string
  end.

Lemma starts_clause_model np na ns hist ti li e :
  TI (run hist) ti li -> starts_clause np na ns hist ti li e = None.
Proof.
  intros [T1 T2 T3 T4]. unfold starts_clause. cbn [sn_started snap_of]. rewrite started_eq, flat_map_app, drop_prefix_app.
  destruct e as [c pe0 cl|c|s0 p0|s0|s0|s0|p0 s0|bp]; try reflexivity.
  destruct (get s0 (sw (run hist))) as [[q pe0|q pe0 f0|q pe0| |]|] eqn:E; try reflexivity.
  cbn [flat_map app check_starts ti_next li_next]. rewrite N2Z.id.
  rewrite (T3 s0 q pe0 f0 E), (T4 s0 _ q pe0 E eq_refl). unfold enc. rewrite zlist_eqb_refl. reflexivity.
Qed.

Example ex_starts :
  starts_clause 3 10 6 [Enrol (1, 0) pe1 false; SLookup 0 1; STrack 0]
    (ti_next [Enrol (1, 0) pe1 false; SLookup 0 1] (snap_of 3 10 6 (run [Enrol (1, 0) pe1 false; SLookup 0 1])) [] (STrack 0))
    (li_next (snap_of 3 10 6 (run [Enrol (1, 0) pe1 false])) [] (SLookup 0 1)) (SStart 0) = None /\
  sn_started (snap_of 3 10 6 (run [Enrol (1, 0) pe1 false; SLookup 0 1; STrack 0; SStart 0])) = [0; 1; 7; 1]%Z.
Proof. split; vm_compute; reflexivity. Qed.

(* --- one statement: the checker on the model's own observations reports nothing --------------------- *)
Definition model_step (np na ns : N) (r : reg) (e : event) : ostep :=
  {| o_ev := e; o_ret := ret_of r e; o_panic := false; o_seen := true; o_pending := 0%Z; o_out := (-1)%Z;
     o_snap := snap_of np na ns (step r e) |}.
Fixpoint model_obs (np na ns : N) (r : reg) (evs : list event) : list ostep :=
  match evs with
  | [] => []
  | e :: t => model_step np na ns r e :: model_obs np na ns (step r e) t
  end.

Lemma bounded_prefix np nc na a b : bounded np nc na (a ++ b) -> bounded np nc na a.
Proof. intros H c pe Hin. apply H. rewrite enrolments_app. apply in_or_app. left. exact Hin. Qed.
Lemma sids_bounded_prefix np ns a b : sids_bounded np ns (a ++ b) -> sids_bounded np ns a.
Proof.
  intros [H1 H2]. split.
  - intros e s Hin. apply H1, in_or_app. left. exact Hin.
  - intros s p Hin. apply H2, in_or_app. left. exact Hin.
Qed.

Lemma checker_accepts_model_from np nc na ns rest : forall hist ti li,
  wf (hist ++ rest) -> w3 (hist ++ rest) -> bounded np nc na (hist ++ rest) -> sids_bounded np ns (hist ++ rest) ->
  TI (run hist) ti li ->
  check_from np nc na ns hist ti li false (snap_of np na ns (run hist)) (model_obs np na ns (run hist) rest) = None.
Proof.
  induction rest as [|e t IH]; intros hist ti li Hwf Hw3 Hb Hsb HT; [reflexivity|].
  assert (Eapp : hist ++ e :: t = (hist ++ [e]) ++ t) by (rewrite <- app_assoc; reflexivity).
  rewrite Eapp in Hwf, Hw3, Hb, Hsb.
  assert (Hwf1 := wf_prefix _ _ Hwf). assert (Hw31 := w3_prefix _ _ Hw3).
  assert (Hb1 := bounded_prefix _ _ _ _ _ Hb). assert (Hsb1 := sids_bounded_prefix _ _ _ _ Hsb).
  assert (HT' := TI_step np na ns hist e ti li Hwf1 Hsb1 HT).
  assert (Hrec := IH (hist ++ [e]) (ti_next hist (snap_of np na ns (run hist)) ti e)
                    (li_next (snap_of np na ns (run hist)) li e) Hwf Hw3 Hb Hsb).
  rewrite run_snoc in Hrec. specialize (Hrec HT').
  assert (F1 : maps_agree np na (snap_of np na ns (step (run hist) e)) = true)
    by (rewrite <- run_snoc; eapply maps_agree_model; eassumption).
  assert (F2 : check_registered np nc (hist ++ [e]) (snap_of np na ns (step (run hist) e)) = None)
    by (rewrite <- run_snoc; apply check_registered_model; assumption).
  assert (F3 := check_notes_model np nc na ns hist e Hwf1 Hb1).
  assert (F4 := starts_clause_model np na ns hist ti li e HT).
  assert (F5 : check_ctx ns (hist ++ [e]) (snap_of np na ns (step (run hist) e)) = true)
    by (rewrite <- run_snoc; apply check_ctx_model; [exact Hwf1|apply Hsb1]).
  unfold starts_clause in F4. cbn zeta in F4.
  cbn [check_from model_obs model_step o_ev o_ret o_panic o_seen o_pending o_out o_snap].
  destruct (wfb (hist ++ [e])); [|reflexivity].
  change (ti_next hist (snap_of np na ns (run hist)) ti e) with
    (match e with
     | STrack s => match get s ti, stream_peer hist s with
                   | None, Some p => if (cell (sn_sw (snap_of np na ns (run hist))) s =? 1)%Z
                                     then put s (reg_in (snap_of np na ns (run hist)) p) ti else ti
                   | _, _ => ti end
     | _ => ti end) in F4, Hrec.
  change (li_next (snap_of np na ns (run hist)) li e) with
    (match e with
     | SLookup s p => if negb false && true && (cell (sn_sw (snap_of np na ns (run hist))) s =? 0)%Z
                         && negb (is_nil (row (sn_over (snap_of np na ns (run hist))) p))
                      then put s (row (sn_over (snap_of np na ns (run hist))) p) li else li
     | _ => li end) in F4, Hrec.
  rewrite Hrec, F4. cbn [negb]. rewrite F1, F2, F3, F5. cbn [guard first_some negb Z.eqb].
  destruct e as [c pe cl|c|s0 p0|s0|s0|s0|p0 s0|bp]; try reflexivity.
  - (* Enrol: what addPeer answered *)
    assert (Hc : remote c < np).
    { apply (Hb1 c pe). rewrite enrolments_app. apply in_or_app. right. left. reflexivity. }
    pose proof (enrol_clause_model np na ns hist c pe cl Hwf1 Hc) as F6. unfold enrol_clause in F6. cbn zeta in F6.
    change (0 <=? -1)%Z with false. cbn iota.
    destruct (ret_of (run hist) (Enrol c pe cl) =? 0)%Z; rewrite F6; reflexivity.
  - (* SLookup: the reset of a stream from an unregistered peer *)
    assert (Hin : In (SLookup s0 p0) (hist ++ [SLookup s0 p0])) by (apply in_or_app; right; left; reflexivity).
    assert (Hs : s0 < ns) by (apply (proj1 Hsb1 _ s0 Hin eq_refl)).
    assert (Hp : p0 < np) by (apply (proj2 Hsb1 s0 p0 Hin)).
    pose proof (reset_clause_model np na ns (run hist) s0 p0 Hs Hp) as F7.
    destruct ((cell (sn_sw (snap_of np na ns (run hist))) s0 =? 0)%Z && negb (reg_in (snap_of np na ns (run hist)) p0));
      [rewrite F7|]; reflexivity.
Qed.

Theorem checker_accepts_model np nc na ns evs :
  wf evs -> w3 evs -> bounded np nc na evs -> sids_bounded np ns evs ->
  violation {| id := 0; c_np := np; c_nc := nc; c_na := na; c_ns := ns; c_evs := model_obs np na ns init evs |} = None.
Proof.
  intros Hwf Hw3 Hb Hsb. unfold violation, empty_snap. cbn [c_np c_nc c_na c_ns c_evs].
  exact (checker_accepts_model_from np nc na ns evs [] [] [] Hwf Hw3 Hb Hsb TI_init).
Qed.

Example ex_checker_accepts_model :
  violation {| id := 0; c_np := 3; c_nc := 3; c_na := 10; c_ns := 6;
               c_evs := model_obs 3 10 6 init (ex_history ++ [ConnClosed (1, 1)]) |} = None.
Proof. vm_compute. reflexivity. Qed.
