(* Proofs about model/EvmTx.v: the transaction built by newTx / Send carries the request unchanged,
   its nonce is the one of the C08 machine, fee-cap arithmetic, and the composition with the handler
   model of C07 (the settlement transaction on the wire carries the commitment returned). *)
From Coq Require Import String List NArith ZArith Bool Lia.
From MevVerif Require Import lib.Bytes lib.Abi gen.Generated model.EvmSend model.EvmTx
  model.Rules model.ProviderSvc model.PreconfProvider
  proofs.PreconfProvider_proofs proofs.PreconfProvider_traces.
Import ListNotations.
Open Scope N_scope.

(* --- source wiring of newTx and Send, regenerated on every run -------------------------------------- *)
Lemma newtx_wiring :
  Generated.c07_newtx_tx_args =
  [[bos "&types.DynamicFeeTx{ Nonce: nonce, ChainID: c.chainID, To: req.To, Value: req.Value, Gas: req.GasLimit, GasFeeCap: gasFeeCap, GasTipCap: gasTipCap, Data: req.CallData, }"]] /\
  Generated.c07_newtx_estimate_args =
  [[bos "ctx"; bos "ethereum.CallMsg{ From: c.owner, To: req.To, Data: req.CallData, Value: req.Value, }"]] /\
  Generated.c07_newtx_suggest_args = [[bos "ctx"; bos "req.GasPrice"]] /\
  nth 0 Generated.c07_suggest_stmts [] = bos "gasTipCap, err := c.ethClient.SuggestGasTipCap(ctx)" /\
  nth 3 Generated.c07_suggest_stmts [] = bos "return gasPrice, gasTipCap, nil" /\
  Generated.c07_send_sign_args = [[bos "txnData"; bos "c.chainID"]] /\
  Generated.c07_send_submit_args = [[bos "ctx"; bos "signedTx"]].
Proof. repeat split; reflexivity. Qed.

(* --- newTx ------------------------------------------------------------------------------------------- *)
Definition gas_of (rq : txreq) (a : node_ans) : option N := if rq_gas rq =? 0 then a_est a else Some (rq_gas rq).
Definition fee_of (rq : txreq) (a : node_ans) : option Z :=
  match rq_price rq with Some p => Some p | None => a_price a end.

Lemma new_tx_some chain owner rq a n t calls :
  new_tx chain owner rq a n = (Some t, calls) ->
  tx_chain t = chain /\ tx_nonce t = n /\ tx_to t = rq_to rq /\ tx_data t = rq_data rq /\
  tx_value t = big_or_zero (rq_value rq) /\
  gas_of rq a = Some (tx_gas t) /\ a_tip a = Some (tx_tip t) /\ fee_of rq a = Some (tx_feecap t).
Proof.
  unfold new_tx, gas_of, fee_of.
  destruct (if rq_gas rq =? 0 then a_est a else Some (rq_gas rq)) as [g|]; [|discriminate].
  destruct (a_tip a) as [tip|]; [|discriminate].
  destruct (rq_price rq) as [p|].
  - intro H; inversion H; subst; cbn; repeat split; reflexivity.
  - destruct (a_price a) as [p|]; [|discriminate].
    intro H; inversion H; subst; cbn; repeat split; reflexivity.
Qed.

(* newTx builds a transaction exactly when every call it needs succeeded (EvmSend.new_tx_ok) *)
Lemma new_tx_ok_iff chain owner rq a n :
  is_some (fst (new_tx chain owner rq a n)) = new_tx_ok (req_of rq) (ans_of a).
Proof.
  unfold new_tx, new_tx_ok, req_of, ans_of; cbn.
  destruct (rq_gas rq =? 0); cbn.
  - destruct (a_est a); cbn; [|reflexivity].
    destruct (a_tip a); cbn; [|reflexivity].
    destruct (rq_price rq); cbn; [reflexivity|]. destruct (a_price a); reflexivity.
  - destruct (a_tip a); cbn; [|reflexivity].
    destruct (rq_price rq); cbn; [reflexivity|]. destruct (a_price a); reflexivity.
Qed.

(* the GasFeeCap field of the request is never read *)
Lemma feecap_field_ignored chain owner ctr conf rq a v :
  send_tx chain owner ctr conf
    {| rq_to := rq_to rq; rq_data := rq_data rq; rq_price := rq_price rq; rq_gas := rq_gas rq;
       rq_feecap := v; rq_value := rq_value rq |} a = send_tx chain owner ctr conf rq a.
Proof. reflexivity. Qed.

(* --- Send: erasure to the C08 machine ------------------------------------------------------------------ *)
Theorem send_tx_refines_send chain owner ctr conf rq a :
  let '(c, r, _) := send_tx chain owner ctr conf rq a in
  (c, erase r) = EvmSend.send ctr conf (req_of rq) (ans_of a).
Proof.
  unfold send_tx, EvmSend.send, EvmSend.send_with.
  change (EvmSend.pending (ans_of a)) with (a_pending a).
  destruct (a_pending a) as [p|]; [|reflexivity].
  destruct (get_nonce ctr p) as [ctr1 n] eqn:G.
  destruct (allow_nonce conf n); cbn [negb]; [|reflexivity].
  pose proof (new_tx_ok_iff chain owner rq a n) as OK.
  destruct (new_tx chain owner rq a n) as [[t|] calls] eqn:NT; cbn in OK; rewrite <- OK; cbn [negb].
  - change (EvmSend.sign_ok (ans_of a)) with (a_sign a). change (EvmSend.submit_ok (ans_of a)) with (a_submit a).
    destruct (new_tx_some _ _ _ _ _ _ _ NT) as (_ & Hn & _).
    destruct (a_sign a); cbn [negb]; [|reflexivity].
    destruct (a_submit a); cbn [negb].
    + destruct (rq_to rq); cbn [erase]; rewrite Hn; reflexivity.
    + cbn [erase]; rewrite Hn; reflexivity.
  - reflexivity.
Qed.

(* whatever reached the node carries the request unchanged, the node's own numbers and the nonce of
   EvmSend.get_nonce for the pending answer of this very request *)
Theorem send_tx_fields chain owner ctr conf rq a c r calls t :
  send_tx chain owner ctr conf rq a = (c, r, calls) -> tx_of r = Some t ->
  tx_chain t = chain /\ tx_to t = rq_to rq /\ tx_data t = rq_data rq /\
  tx_value t = big_or_zero (rq_value rq) /\
  gas_of rq a = Some (tx_gas t) /\ a_tip a = Some (tx_tip t) /\ fee_of rq a = Some (tx_feecap t) /\
  (exists p, a_pending a = Some p /\ tx_nonce t = snd (get_nonce ctr p) /\
             allow_nonce conf (tx_nonce t) = true) /\
  a_sign a = true /\
  last calls CPending = CSubmit t.
Proof.
  unfold send_tx.
  destruct (a_pending a) as [p|]; [|intro H; inversion H; subst; discriminate].
  destruct (get_nonce ctr p) as [ctr1 n] eqn:G.
  destruct (allow_nonce conf n) eqn:AL; cbn [negb]; [|intro H; inversion H; subst; discriminate].
  destruct (new_tx chain owner rq a n) as [[t0|] calls0] eqn:NT; [|intro H; inversion H; subst; discriminate].
  destruct (new_tx_some _ _ _ _ _ _ _ NT) as (H1 & H2 & H3 & H4 & H5 & H6 & H7 & H8).
  destruct (a_sign a); cbn [negb]; [|intro H; inversion H; subst; discriminate].
  assert (L : last (CPending :: calls0 ++ [CSubmit t0]) CPending = CSubmit t0).
  { change (CPending :: calls0 ++ [CSubmit t0]) with ((CPending :: calls0) ++ [CSubmit t0]). apply last_last. }
  destruct (a_submit a); cbn [negb]; intros H Ht; injection H as Hc Hr Hcalls; subst r calls.
  - assert (t0 = t) by (destruct (rq_to rq); cbn in Ht; congruence). subst t0.
    repeat split; try assumption. exists p. rewrite G. cbn. rewrite H2. auto.
  - cbn in Ht. assert (t0 = t) by congruence. subst t0.
    repeat split; try assumption. exists p. rewrite G. cbn. rewrite H2. auto.
Qed.

(* a request that fails before SendTransaction hands nothing to the node and consumes no nonce beyond
   the synchronisation of getNonce; a submission reaches the node only as the last call *)
Lemma send_tx_no_tx_no_submit chain owner ctr conf rq a c calls :
  send_tx chain owner ctr conf rq a = (c, TNoTx, calls) -> forall t, ~ In (CSubmit t) calls.
Proof.
  unfold send_tx.
  destruct (a_pending a) as [p|].
  2:{ intro H; inversion H; subst. intros t [X|[]]; discriminate. }
  destruct (get_nonce ctr p) as [ctr1 n].
  destruct (allow_nonce conf n); cbn [negb].
  2:{ intro H; inversion H; subst. intros t [X|[]]; discriminate. }
  assert (NS : forall o cl, new_tx chain owner rq a n = (o, cl) -> forall t, ~ In (CSubmit t) cl).
  { unfold new_tx. intros o cl.
    destruct (rq_gas rq =? 0); destruct (a_est a); destruct (a_tip a); destruct (rq_price rq); destruct (a_price a);
      intro H; inversion H; subst; cbn; intros t X; repeat (destruct X as [X|X]; try discriminate); assumption. }
  destruct (new_tx chain owner rq a n) as [[t0|] calls0] eqn:NT.
  - destruct (a_sign a); cbn [negb].
    + destruct (a_submit a); cbn [negb]; intro H; inversion H. destruct (rq_to rq); discriminate.
    + intro H; inversion H; subst. intros t [X|X]; [discriminate|]. exact (NS _ _ eq_refl t X).
  - intro H; inversion H; subst. intros t [X|X]; [discriminate|]. exact (NS _ _ eq_refl t X).
Qed.

(* --- fee-cap arithmetic ------------------------------------------------------------------------------ *)
(* The code relies on the node's suggested gas price being base fee + suggested tip (the comment in
   suggestMaxFeeAndTipCap): then the transaction built for a request without GasPrice is well formed,
   includable at that base fee, and pays exactly the suggested price with the full tip. *)
Theorem fee_facts_suggested chain owner ctr conf rq a c r calls t base tip :
  send_tx chain owner ctr conf rq a = (c, r, calls) -> tx_of r = Some t ->
  rq_price rq = None -> a_tip a = Some tip -> a_price a = Some (base + tip)%Z -> (0 <= base)%Z -> (0 <= tip)%Z ->
  tx_tip t = tip /\ tx_feecap t = (base + tip)%Z /\
  fee_wellformed t = true /\ includable t base = true /\
  effective_price t base = (base + tip)%Z /\ effective_tip t base = tip.
Proof.
  intros S T P Ht Hp Hb Htp.
  destruct (send_tx_fields _ _ _ _ _ _ _ _ _ _ S T) as (_ & _ & _ & _ & _ & F1 & F2 & _).
  unfold fee_of in F2. rewrite P, Hp in F2. rewrite Ht in F1.
  injection F1 as F1. injection F2 as F2.
  unfold fee_wellformed, includable, effective_tip, effective_price. rewrite <- F1, <- F2.
  repeat split; lia.
Qed.

(* ... and the fee cap leaves no headroom: as soon as the base fee of the including block is above the
   one the suggestion was computed for, the producer's tip shrinks by exactly the difference, and above
   base + tip the transaction cannot be included at all (the nonce stays occupied: property C10's cancel
   path is the way out). *)
Theorem fee_no_headroom t base tip base' :
  tx_tip t = tip -> tx_feecap t = (base + tip)%Z -> (0 <= tip)%Z -> (base < base')%Z ->
  effective_tip t base' = (tip - (base' - base))%Z /\
  ((base + tip < base')%Z -> includable t base' = false).
Proof.
  intros H1 H2 H3 H4. unfold effective_tip, effective_price, includable. rewrite H1, H2. split.
  - lia.
  - intro. apply Z.leb_gt. lia.
Qed.

(* With a caller-chosen GasPrice the fee cap is that price while the tip is still the node's suggestion:
   nothing in newTx orders the two.  A price below the suggested tip gives a transaction every node
   refuses (tip above fee cap). *)
Definition ex_chain : Z := 31337%Z.
Definition ex_owner : bytes := repeat 17 20.
Definition ex_contract : bytes := repeat 34 20.
Definition ex_ans : node_ans :=
  {| a_pending := Some 7; a_est := Some 200000; a_tip := Some 1000000000%Z; a_price := Some 2000000000%Z;
     a_sign := true; a_submit := true |}.
Definition ex_low_price_rq : txreq :=
  {| rq_to := Some ex_contract; rq_data := [1;2;3]; rq_price := Some 5%Z; rq_gas := 0; rq_feecap := None; rq_value := None |}.
Lemma given_price_below_tip_illformed :
  exists t, snd (fst (send_tx ex_chain ex_owner 0 0 ex_low_price_rq ex_ans)) = TAccepted t /\
            fee_wellformed t = false.
Proof. eexists; split; [vm_compute; reflexivity|vm_compute; reflexivity]. Qed.

(* the well-formedness for given prices needs exactly tip <= price *)
Lemma fee_wellformed_given chain owner ctr conf rq a c r calls t p tip :
  send_tx chain owner ctr conf rq a = (c, r, calls) -> tx_of r = Some t ->
  rq_price rq = Some p -> a_tip a = Some tip -> (0 <= tip)%Z ->
  (fee_wellformed t = true <-> (tip <= p)%Z).
Proof.
  intros S T P Ht Htp.
  destruct (send_tx_fields _ _ _ _ _ _ _ _ _ _ S T) as (_ & _ & _ & _ & _ & F1 & F2 & _).
  unfold fee_of in F2. rewrite P in F2. rewrite Ht in F1. injection F1 as F1. injection F2 as F2.
  unfold fee_wellformed. rewrite <- F1, <- F2. rewrite andb_true_iff, !Z.leb_le. lia.
Qed.

(* --- the nil-To request ------------------------------------------------------------------------------- *)
Lemma nil_to_panics_after_submit chain owner ctr conf rq a c r calls :
  send_tx chain owner ctr conf rq a = (c, r, calls) -> rq_to rq = None ->
  (forall t, r <> TAccepted t) /\
  (a_submit a = true -> forall t, tx_of r = Some t -> r = TAcceptedThenPanic t /\ In (CSubmit t) calls).
Proof.
  unfold send_tx. intros H N. rewrite N in H.
  destruct (a_pending a) as [p|]; [|inversion H; subst; split; [discriminate|intros _ t X; discriminate]].
  destruct (get_nonce ctr p) as [ctr1 n].
  destruct (allow_nonce conf n); cbn [negb] in H; [|inversion H; subst; split; [discriminate|intros _ t X; discriminate]].
  destruct (new_tx chain owner rq a n) as [[t0|] calls0]; [|inversion H; subst; split; [discriminate|intros _ t X; discriminate]].
  destruct (a_sign a); cbn [negb] in H; [|inversion H; subst; split; [discriminate|intros _ t X; discriminate]].
  destruct (a_submit a); cbn [negb] in H; inversion H; subst; split; try discriminate.
  - intros _ t X. cbn in X. inversion X; subst. split; [reflexivity|]. right. apply in_or_app. right. left. reflexivity.
Qed.
Example ex_nil_to :
  snd (fst (send_tx ex_chain ex_owner 0 0
    {| rq_to := None; rq_data := []; rq_price := None; rq_gas := 21000; rq_feecap := None; rq_value := Some 1%Z |} ex_ans)) =
  TAcceptedThenPanic {| tx_chain := ex_chain; tx_nonce := 7; tx_tip := 1000000000; tx_feecap := 2000000000; tx_gas := 21000;
                        tx_to := None; tx_value := 1; tx_data := [] |}.
Proof. vm_compute. reflexivity. Qed.

(* --- StoreCommitment's request ---------------------------------------------------------------------- *)
(* the transaction Send puts on the wire for StoreCommitment's request: destination, payload, value and
   the node's numbers *)
Theorem store_request_tx chain owner ctr conf contract cd a c r calls t :
  send_tx chain owner ctr conf (store_request contract cd) a = (c, r, calls) -> tx_of r = Some t ->
  tx_to t = Some contract /\ tx_data t = cd /\ tx_value t = 0%Z /\ tx_chain t = chain /\
  a_est a = Some (tx_gas t) /\ a_tip a = Some (tx_tip t) /\ a_price a = Some (tx_feecap t) /\
  (exists p, a_pending a = Some p /\ tx_nonce t = snd (get_nonce ctr p)) /\
  In (CEstimate {| cm_from := owner; cm_to := Some contract; cm_data := cd; cm_value := None |}) calls /\
  (r = TAccepted t \/ r = TRejected t).
Proof.
  intros S T.
  destruct (send_tx_fields _ _ _ _ _ _ _ _ _ _ S T) as (H1 & H2 & H3 & H4 & H5 & H6 & H7 & (p & Hp & Hn & _) & _ & _).
  cbn in H2, H3, H4, H5, H7.
  repeat split; try assumption.
  - exists p; auto.
  - revert S. unfold send_tx. rewrite Hp. destruct (get_nonce ctr p) as [c1 n].
    destruct (allow_nonce conf n); cbn [negb]; [|intro X; inversion X; subst; discriminate].
    unfold new_tx; cbn.
    destruct (a_est a); [|intro X; inversion X; subst; discriminate].
    destruct (a_tip a); [|intro X; inversion X; subst; discriminate].
    destruct (a_price a); [|intro X; inversion X; subst; discriminate].
    destruct (a_sign a); cbn [negb]; [|intro X; inversion X; subst; discriminate].
    destruct (a_submit a); cbn [negb]; intro X; inversion X; subst; right; left; reflexivity.
  - revert S T. unfold send_tx. destruct (a_pending a); [|intro X; inversion X; subst; discriminate].
    destruct (get_nonce ctr n) as [c1 n1].
    destruct (allow_nonce conf n1); cbn [negb]; [|intro X; inversion X; subst; discriminate].
    destruct (new_tx chain owner (store_request contract cd) a n1) as [[t0|] cl]; [|intro X; inversion X; subst; discriminate].
    destruct (a_sign a); cbn [negb]; [|intro X; inversion X; subst; discriminate].
    destruct (a_submit a); cbn [negb]; cbn [store_request rq_to]; intro X; inversion X; subst; cbn; intro Y; inversion Y; auto.
Qed.

(* Composition with the handler model (C07): whenever a commitment c has been written to a bidder, the
   handler called client.Send with StoreCommitment's request for calldata(c) and the client reported success;
   and EVERY transaction the client can put on the wire for that request -- whatever the client's counter, the
   confirmed nonce, the chain id, the node's answers -- goes to the configured contract, carries no value, and
   ABI-decodes to the fields of that very commitment; gas limit, tip cap and fee cap are the node's estimate and
   suggestions, the nonce is the one of the C08 machine. *)
Theorem transaction_carries_commitment : forall K addr evs h c,
  let S := run K rules_validators (node_wiring addr) evs in
  In (HWrite h c) (heff S) ->
  (4 <= length (K (Abi.method_sig store_name store_tys)))%nat ->
  (b_bn (c_bid c) < 9223372036854775808)%Z -> (b_ds (c_bid c) < 9223372036854775808)%Z ->
  (b_de (c_bid c) < 9223372036854775808)%Z ->
  wf_bytes (b_tx (c_bid c)) -> wf_bytes (b_sig (c_bid c)) -> wf_bytes (c_sig c) ->
  (forall amt, Abi.blen (Abi.encode (store_args amt c)) < Abi.two63) ->
  exists amt cd,
    (0 < amt < 18446744073709551616)%Z /\ parse_bigint (b_amt (c_bid c)) = Some amt /\
    In (HSend h addr cd) (heff S) /\ In (HStored h true) (heff S) /\
    forall chain owner ctr conf a ctr' r calls t,
      send_tx chain owner ctr conf (store_request addr cd) a = (ctr', r, calls) -> tx_of r = Some t ->
      tx_to t = Some addr /\ tx_value t = 0%Z /\ tx_chain t = chain /\
      Abi.decode_call store_tys (tx_data t) =
        Some (Abi.selector K (Abi.method_sig store_name store_tys),
              [Abi.VUint64 (Z.to_N amt); Abi.VUint64 (Z.to_N (b_bn (c_bid c))); Abi.VString (b_tx (c_bid c));
               Abi.VUint64 (Z.to_N (b_ds (c_bid c))); Abi.VUint64 (Z.to_N (b_de (c_bid c)));
               Abi.VBytes (b_sig (c_bid c)); Abi.VBytes (c_sig c)]) /\
      a_est a = Some (tx_gas t) /\ a_tip a = Some (tx_tip t) /\ a_price a = Some (tx_feecap t) /\
      (exists p, a_pending a = Some p /\ tx_nonce t = snd (get_nonce ctr p)) /\
      (r = TAccepted t \/ r = TRejected t).
Proof.
  intros K addr evs h c S W HK Hbn Hds Hde Wtx Wsig Wcs Hlen.
  destruct (written_implies_settled K addr evs h c W HK Hbn Hds Hde Wtx Wsig Wcs Hlen)
    as (amt & cd & Hamt & Hparse & Hsend & Hst & Hdec).
  exists amt, cd.
  split; [exact Hamt|]. split; [exact Hparse|]. split; [exact Hsend|]. split; [exact Hst|].
  intros chain owner ctr conf a ctr' r calls t ST T.
  destruct (store_request_tx _ _ _ _ _ _ _ _ _ _ _ ST T) as (A1 & A2 & A3 & A4 & A5 & A6 & A7 & A8 & _ & A9).
  rewrite A2. repeat split; assumption.
Qed.

(* non-vacuity of the per-request statement: an accepted settlement transaction exists *)
Example ex_store_accepted :
  exists t, snd (fst (send_tx ex_chain ex_owner 0 0 (store_request ex_contract [9;9;9;9]) ex_ans)) = TAccepted t /\
            tx_to t = Some ex_contract /\ tx_data t = [9;9;9;9] /\ tx_nonce t = 7 /\ tx_gas t = 200000 /\
            tx_tip t = 1000000000%Z /\ tx_feecap t = 2000000000%Z /\ tx_value t = 0%Z.
Proof. eexists; split; [vm_compute; reflexivity|vm_compute; repeat split; reflexivity]. Qed.

(* --- histories: the nonces on the wire are those of the C08 run -------------------------------------- *)
Definition erase_ops (l : list (N * txreq * node_ans)) : list (N * request * answers) :=
  map (fun x => (fst (fst x), req_of (snd (fst x)), ans_of (snd x))) l.
Fixpoint run_send (ctr : N) (l : list (N * request * answers)) : list result :=
  match l with
  | [] => []
  | (conf, rq, a) :: r => let '(c, res) := EvmSend.send ctr conf rq a in res :: run_send c r
  end.
Theorem run_tx_refines chain owner l : forall ctr,
  map (fun x => erase (fst x)) (run_tx chain owner ctr l) = run_send ctr (erase_ops l).
Proof.
  induction l as [|[[conf rq] a] l IH]; intro ctr; [reflexivity|].
  unfold erase_ops. cbn [run_tx map run_send fst snd]. fold (erase_ops l).
  pose proof (send_tx_refines_send chain owner ctr conf rq a) as R.
  destruct (send_tx chain owner ctr conf rq a) as [[c r] calls].
  rewrite <- R. cbn [map fst]. f_equal. apply IH.
Qed.
