(* Lemmas about lib/Bytes.v *)
From Coq Require Import List NArith ZArith Bool Lia ZifyN ZifyNat ZifyBool.
From MevVerif Require Import lib.Bytes.
Import ListNotations.
Open Scope N_scope.
Ltac Zify.zify_post_hook ::= Z.div_mod_to_equations.

(* --- bytes_eqb ------------------------------------------------------------------ *)
Lemma bytes_eqb_refl a : bytes_eqb a a = true.
Proof. induction a as [|x a IH]; cbn; [reflexivity|]. rewrite N.eqb_refl, IH. reflexivity. Qed.

Lemma bytes_eqb_eq a b : bytes_eqb a b = true <-> a = b.
Proof.
  split.
  - revert b; induction a as [|x a IH]; intros [|y b] H; cbn in H; try discriminate; [reflexivity|].
    apply andb_true_iff in H as [H1 H2]. apply N.eqb_eq in H1. apply IH in H2. subst. reflexivity.
  - intros ->. apply bytes_eqb_refl.
Qed.

Lemma bytes_eqb_neq a b : bytes_eqb a b = false <-> a <> b.
Proof.
  split.
  - intros H E. apply bytes_eqb_eq in E. congruence.
  - intros H. destruct (bytes_eqb a b) eqn:E; [|reflexivity]. apply bytes_eqb_eq in E. contradiction.
Qed.

(* --- split / join ----------------------------------------------------------------- *)
Lemma split_nonempty sep l : split sep l <> [].
Proof.
  induction l as [|c r IH]; cbn; [discriminate|].
  destruct (c =? sep); [discriminate|]. destruct (split sep r); [contradiction|discriminate].
Qed.

Lemma split_nosep sep a : ~ In sep a -> split sep a = [a].
Proof.
  induction a as [|c r IH]; intros H; cbn; [reflexivity|].
  destruct (N.eqb_spec c sep) as [->|Hne]; [exfalso; apply H; left; reflexivity|].
  rewrite IH by (intros Hin; apply H; right; exact Hin). reflexivity.
Qed.

Lemma split_app_sep sep a b : ~ In sep a -> split sep (a ++ sep :: b) = a :: split sep b.
Proof.
  induction a as [|c r IH]; intros H; cbn.
  - rewrite N.eqb_refl. reflexivity.
  - destruct (N.eqb_spec c sep) as [->|Hne]; [exfalso; apply H; left; reflexivity|].
    rewrite IH by (intros Hin; apply H; right; exact Hin). reflexivity.
Qed.

Lemma split_cons_sep sep b : split sep (sep :: b) = [] :: split sep b.
Proof. cbn. rewrite N.eqb_refl. reflexivity. Qed.

Lemma split_join sep ls :
  ls <> [] -> Forall (fun a => ~ In sep a) ls -> split sep (join sep ls) = ls.
Proof.
  induction ls as [|a r IH]; intros Hne Hall; [contradiction|].
  inversion Hall as [|? ? Ha Hr]; subst.
  destruct r as [|b r'].
  - cbn [join]. apply split_nosep, Ha.
  - change (join sep (a :: b :: r')) with (a ++ sep :: join sep (b :: r')).
    rewrite split_app_sep by exact Ha. rewrite IH; [reflexivity|discriminate|exact Hr].
Qed.

(* --- decimal ---------------------------------------------------------------------- *)
Lemma dec_value_app l c : dec_value (l ++ [c]) = 10 * dec_value l + (c - 48).
Proof. unfold dec_value. rewrite fold_left_app. reflexivity. Qed.

Lemma all_digits_app a b : all_digits (a ++ b) = all_digits a && all_digits b.
Proof. unfold all_digits. apply forallb_app. Qed.

Lemma show_dec_rev_spec fuel n :
  n < 10 ^ N.of_nat fuel -> (0 < fuel)%nat ->
  dec_value (rev (show_dec_rev fuel n)) = n /\
  all_digits (rev (show_dec_rev fuel n)) = true /\
  show_dec_rev fuel n <> [].
Proof.
  revert n. induction fuel as [|k IH]; intros n Hn Hf; [lia|].
  cbn [show_dec_rev].
  destruct (N.ltb_spec n 10) as [Hlt|Hge].
  - cbn [rev app]. unfold dec_value, all_digits, is_digit. cbn [fold_left forallb].
    repeat split; try lia; try discriminate.
  - assert (Hk : (0 < k)%nat).
    { destruct k; [|lia]. cbn in Hn. lia. }
    assert (Hdiv : n / 10 < 10 ^ N.of_nat k).
    { replace (N.of_nat (S k)) with (N.succ (N.of_nat k)) in Hn by lia.
      rewrite N.pow_succ_r' in Hn. lia. }
    destruct (IH (n / 10) Hdiv Hk) as (Hv & Hd & _).
    cbn [rev]. rewrite dec_value_app, Hv, all_digits_app, Hd.
    repeat split; try discriminate.
    + lia.
    + unfold all_digits, is_digit. cbn [forallb]. lia.
Qed.

Lemma show_dec_fuel n : n < 10 ^ N.of_nat (S (N.to_nat (N.log2 n))).
Proof.
  destruct (N.eq_dec n 0) as [->|Hnz]; [cbn; lia|].
  assert (H : n < 2 ^ N.succ (N.log2 n)) by (apply N.log2_spec; lia).
  replace (N.of_nat (S (N.to_nat (N.log2 n)))) with (N.succ (N.log2 n)) by lia.
  eapply N.lt_le_trans; [exact H|]. apply N.pow_le_mono_l. lia.
Qed.

Lemma show_dec_spec n :
  dec_value (show_dec n) = n /\ all_digits (show_dec n) = true /\ show_dec n <> [].
Proof.
  unfold show_dec.
  destruct (show_dec_rev_spec _ n (show_dec_fuel n)) as (Hv & Hd & Hne); [lia|].
  repeat split; try assumption.
  intros E. apply Hne. apply (f_equal (@rev N)) in E. rewrite rev_involutive in E. exact E.
Qed.

Theorem parse_show_dec n : parse_dec (show_dec n) = Some n.
Proof.
  destruct (show_dec_spec n) as (Hv & Hd & Hne). unfold parse_dec.
  destruct (show_dec n) as [|c r] eqn:E; [contradiction|]. rewrite Hd, Hv. reflexivity.
Qed.

Lemma all_digits_not_in l c : all_digits l = true -> is_digit c = false -> ~ In c l.
Proof.
  unfold all_digits. intros H Hc Hin. rewrite forallb_forall in H. apply H in Hin. congruence.
Qed.

(* --- hex ------------------------------------------------------------------------- *)
Lemma hex_val_digit n : n < 16 -> hex_val (hex_digit n) = Some n.
Proof.
  intros H. unfold hex_digit, hex_val.
  destruct (N.ltb_spec n 10) as [Hlt|Hge].
  - replace ((48 <=? 48 + n) && (48 + n <=? 57)) with true by lia. f_equal. lia.
  - replace ((48 <=? 87 + n) && (87 + n <=? 57)) with false by lia.
    replace ((97 <=? 87 + n) && (87 + n <=? 102)) with true by lia. f_equal. lia.
Qed.

Theorem unhex_hex l : wf_bytes l -> unhex (hex l) = Some l.
Proof.
  induction 1 as [|b r Hb Hr IH]; [reflexivity|].
  cbn [hex unhex]. rewrite !hex_val_digit by lia. rewrite IH. f_equal. f_equal. lia.
Qed.

Lemma hex_length l : length (hex l) = (2 * length l)%nat.
Proof. induction l as [|b r IH]; cbn [hex length]; lia. Qed.

Lemma hex_inj a b : wf_bytes a -> wf_bytes b -> hex a = hex b -> a = b.
Proof.
  intros Ha Hb H. apply (f_equal unhex) in H. rewrite !unhex_hex in H by assumption. congruence.
Qed.

(* --- big endian ---------------------------------------------------------------------- *)
Lemma le_length n v : length (le n v) = n.
Proof. revert v; induction n as [|k IH]; intros v; cbn; [reflexivity|]. rewrite IH. reflexivity. Qed.

Lemma be_length n v : length (be n v) = n.
Proof. unfold be. rewrite rev_length. apply le_length. Qed.

Lemma unle_le n v : unle (le n v) = v mod 256 ^ N.of_nat n.
Proof.
  revert v. induction n as [|k IH]; intros v.
  - cbn. rewrite N.mod_1_r. reflexivity.
  - cbn [le unle]. rewrite IH.
    replace (N.of_nat (S k)) with (N.succ (N.of_nat k)) by lia.
    rewrite N.pow_succ_r'.
    assert (Hp : 256 ^ N.of_nat k <> 0) by (apply N.pow_nonzero; lia).
    rewrite N.mod_mul_r by (try assumption; lia). lia.
Qed.

Lemma unbe_be n v : v < 256 ^ N.of_nat n -> unbe (be n v) = v.
Proof. intros H. unfold unbe, be. rewrite rev_involutive, unle_le. apply N.mod_small, H. Qed.

Lemma unbe_be_mod n v : unbe (be n v) = v mod 256 ^ N.of_nat n.
Proof. unfold unbe, be. rewrite rev_involutive. apply unle_le. Qed.

Theorem be_inj n a b : a < 256 ^ N.of_nat n -> b < 256 ^ N.of_nat n -> be n a = be n b -> a = b.
Proof. intros Ha Hb H. rewrite <- (unbe_be n a Ha), <- (unbe_be n b Hb), H. reflexivity. Qed.

Lemma le_wf n v : wf_bytes (le n v).
Proof.
  revert v; induction n as [|k IH]; intros v; cbn; constructor; [|apply IH].
  apply N.mod_lt. lia.
Qed.

Lemma be_wf n v : wf_bytes (be n v).
Proof. unfold be, wf_bytes. apply Forall_rev. apply le_wf. Qed.
