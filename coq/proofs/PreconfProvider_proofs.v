(* Invariants and theorems about the handleBid machine (model/PreconfProvider.v) on top of the
   provider-API service machine: C01 (gate, refusal) and C07 (order, destination, calldata). *)
From Coq Require Import String List NArith ZArith Bool Lia.
From MevVerif Require Import lib.Bytes lib.Abi proofs.Bytes_proofs proofs.Abi_proofs model.Rules model.ProviderSvc
  proofs.ProviderSvc_proofs proofs.Rules_proofs.
Import ListNotations.
Open Scope N_scope.
Arguments nset {A} k v l : simpl never.
Arguments ndel {A} k l : simpl never.
Arguments pdel d l : simpl never.

Ltac s4 := split; [|split; [|split]].
Ltac s5 := split; [|split; [|split; [|split]]].

(* ---- facts about the single service operations, as the handler machine uses them --------- *)
Definition Full (x : svc) : Prop := forall ch st, cget ch x = CFull st -> exists d, In (EDeliver ch d st) (eff x).
Definition DelivFrom (x x' : svc) : Prop :=
  forall ch d st, In (EDeliver ch d st) (eff x') ->
    In (EDeliver ch d st) (eff x) \/ exists sid, In (sid, SCalling ch d st) (streams x).
Definition CallingSub (x x' : svc) : Prop :=
  forall sid ch d st, In (sid, SCalling ch d st) (streams x') -> In (sid, SCalling ch d st) (streams x).
Definition CallsKeep (x x' : svc) : Prop :=
  forall h c, nget h (calls x') = Some c -> exists c0, nget h (calls x) = Some c0 /\ call_bid c0 = call_bid c.

Lemma take_facts h x : Full x -> Full (take h x) /\ DelivFrom x (take h x) /\ CallingSub x (take h x) /\ CallsKeep x (take h x).
Proof.
  intros F. unfold take. destruct (nget h (calls x)) as [[b|b|b|b]|] eqn:Hh;
    try (s4; [exact F|intros ch d st H; now left|intros sid ch d st H; exact H|intros h0 c H; solve [eauto]]).
  s4.
  - intros ch st H. destruct (F ch st H) as (d & Hd). exists d. now right.
  - intros ch d st [H|H]; [discriminate|now left].
  - intros sid ch d st H. exact H.
  - intros h0 c. cbn. rewrite nget_nset. destruct (N.eqb_spec h0 h) as [->|Hne]; [intros [= <-]; eauto|eauto].
Qed.

Lemma abandon_facts h x : Full x -> Full (abandon h x) /\ DelivFrom x (abandon h x) /\ CallingSub x (abandon h x) /\ CallsKeep x (abandon h x).
Proof.
  intros F. unfold abandon. destruct (nget h (calls x)) as [[b|b|b|b]|] eqn:Hh;
    try (s4; [exact F|intros ch d st H; now left|intros sid ch d st H; exact H|intros h0 c H; solve [eauto]]).
  s4.
  - exact F.
  - intros ch d st H; now left.
  - intros sid ch d st H. exact H.
  - intros h0 c. cbn. rewrite nget_nset. destruct (N.eqb_spec h0 h) as [->|Hne]; [intros [= <-]; eauto|eauto].
Qed.

Lemma lookup_facts V sid d st x : Full x ->
  Full (lookup V sid d st x) /\ DelivFrom x (lookup V sid d st x) /\ CallsKeep x (lookup V sid d st x) /\
  (forall sid' ch d' st', In (sid', SCalling ch d' st') (streams (lookup V sid d st x)) ->
     In (sid', SCalling ch d' st') (streams x) \/ (sid' = sid /\ d' = d /\ st' = st)).
Proof.
  intros F. unfold lookup. destruct (sget sid x);
    try (s4; [exact F|intros ? ? ? H; now left|intros ? ? H; solve [eauto]|intros; now left]).
  destruct (vresp V d st).
  - destruct (pget d (pending x)) as [ch|].
    + s4; [exact F|intros ch0 d0 st0 H; now left|intros h0 c H; solve [eauto]|].
      intros sid' ch0 d' st' H. unfold nset in H. cbn in H. destruct H as [[= <- <- <- <-]|H]; [now right|].
      apply In_ndel in H. left. tauto.
    + s4; [|intros ch0 d0 st0 [H|H]; [discriminate|now left]|intros h0 c H; solve [eauto]|intros; now left].
      intros ch st0 H. destruct (F ch st0 H) as (d0 & Hd). exists d0. now right.
  - s4; [|intros ch0 d0 st0 [H|H]; [discriminate|now left]|intros h0 c H; solve [eauto]|].
    + intros ch st0 H. destruct (F ch st0 H) as (d0 & Hd). exists d0. now right.
    + intros sid' ch0 d' st' H. unfold nset in H. cbn in H. destruct H as [H|H]; [discriminate|].
      apply In_ndel in H. left. tauto.
Qed.

Lemma callback_facts sid x : Full x -> Full (callback sid x) /\ DelivFrom x (callback sid x) /\ CallingSub x (callback sid x) /\ CallsKeep x (callback sid x).
Proof.
  intros F. unfold callback. destruct (sget sid x) as [|ch d st|] eqn:Hs;
    try (s4; [exact F|intros ych0 yd0 yst0 H; now left|intros ysid0 ych0 yd0 yst0 H; exact H|intros yh0 c H; solve [eauto]]).
  apply sget_In, nget_In in Hs.
  destruct (cget ch x) eqn:Hc.
  - s4.
    + intros ych0 yst0. rewrite (cget_nset _ ch (CFull st) x) by reflexivity.
      destruct (N.eqb_spec ych0 ch) as [->|Hne].
      * intros [= <-]. exists d. now left.
      * intros H. destruct (F ych0 yst0 H) as (yd0 & Hd). exists yd0. now right.
    + intros ych0 yd0 yst0 [[= <- <- <-]|H]; [right; eauto|now left].
    + intros ysid0 ych0 yd0 yst0 H. unfold nset in H. cbn in H. destruct H as [H|H]; [discriminate|]. apply In_ndel in H. tauto.
    + intros yh0 c H; eauto.
  - s4; [exact F|intros ych0 yd0 yst0 H; now left| |intros yh0 c H; solve [eauto]].
    intros ysid0 ych0 yd0 yst0 H. unfold nset in H. cbn in H. destruct H as [H|H]; [discriminate|]. apply In_ndel in H. tauto.
  - s4; [exact F|intros ych0 yd0 yst0 H; now left| |intros yh0 c H; solve [eauto]].
    intros ysid0 ych0 yd0 yst0 H. unfold nset in H. cbn in H. destruct H as [H|H]; [discriminate|]. apply In_ndel in H. tauto.
Qed.

Lemma recv_err_facts sid x : Full x -> Full (recv_err sid x) /\ DelivFrom x (recv_err sid x) /\ CallingSub x (recv_err sid x) /\ CallsKeep x (recv_err sid x).
Proof.
  intros F. unfold recv_err. destruct (sget sid x);
    try (s4; [exact F|intros ych0 yd0 yst0 H; now left|intros ysid0 ych0 yd0 yst0 H; exact H|intros yh0 c H; solve [eauto]]).
  s4.
  - intros ch yst0 H. destruct (F ch yst0 H) as (yd0 & Hd). exists yd0. now right.
  - intros ych0 yd0 yst0 [H|H]; [discriminate|now left].
  - intros ysid0 ych0 yd0 yst0 H. unfold nset in H. cbn in H. destruct H as [H|H]; [discriminate|]. apply In_ndel in H. tauto.
  - intros yh0 c H; eauto.
Qed.

Lemma chan_recv_facts h x : Full x ->
  Full (snd (chan_recv h x)) /\ eff (snd (chan_recv h x)) = eff x /\ streams (snd (chan_recv h x)) = streams x /\
  calls (snd (chan_recv h x)) = calls x /\
  (forall stv, fst (chan_recv h x) = Some stv -> cget h x = CFull stv).
Proof.
  intros F. unfold chan_recv. destruct (cget h x) eqn:Hc; cbn; s5; try exact F; try reflexivity; try (intros; discriminate).
  - intros ch yst0. rewrite (cget_nset _ h CDrained x) by reflexivity.
    destruct (N.eqb_spec ch h) as [->|Hne]; [discriminate|apply F].
  - intros stv E. now injection E as ->.
Qed.

Lemma submit_facts V h b x : Full x -> nget h (calls x) = None ->
  Full (submit V h b x) /\ eff (submit V h b x) = eff x /\ streams (submit V h b x) = streams x /\
  (forall yh0 c, nget yh0 (calls (submit V h b x)) = Some c ->
     (yh0 = h /\ call_bid c = b) \/ (yh0 <> h /\ nget yh0 (calls x) = Some c)) /\
  (exists c, nget h (calls (submit V h b x)) = Some c /\ call_bid c = b).
Proof.
  intros F Hn. unfold submit. rewrite Hn. destruct (vbid V (to_engine b)); cbn; s5; try reflexivity.
  - intros ch yst0. rewrite (cget_nset _ h CEmpty x) by reflexivity. destruct (ch =? h); [discriminate|apply F].
  - intros yh0 c. rewrite nget_nset. destruct (N.eqb_spec yh0 h) as [->|Hne]; [intros [= <-]; now left|now right].
  - exists (POffered b). now rewrite nget_nset_eq.
  - exact F.
  - intros yh0 c. rewrite nget_nset. destruct (N.eqb_spec yh0 h) as [->|Hne]; [intros [= <-]; now left|now right].
  - exists (PRefused b). now rewrite nget_nset_eq.
Qed.

From MevVerif Require Import model.PreconfProvider.
Arguments calldata keccak amt c : simpl never.

Section Machine.
Variable K : bytes -> bytes.
Variable V : validators.
Variable W : wiring.

Definition ok_gates (s : st) (h : N) (b : bid) : Prop :=
  exists role o a, nget h (arr s) = Some (role, o) /\ role = role_bidder /\ o_read o = Some b /\
                   o_verify o = VOk a /\ o_allow o = true.

(* what the engine side contributed when the provider-API service is the processor *)
Definition engine_ok (evs : list event) (b : bid) : Prop :=
  w_processor_api W = true ->
  vbid V (to_engine b) = true /\ exists sid, In (Lookup sid (b_dig b) status_accepted) evs.

Definition accepted (evs : list event) (s : st) (h : N) (b : bid) : Prop :=
  ok_gates s h b /\ engine_ok evs b /\ In (HTake h status_accepted) (heff s).

(* the settlement transaction of commitment c has been handed to the chain client *)
Definition sent_for (s : st) (h : N) (c : preconf) : Prop :=
  w_da_contract W = true /\
  exists amt, parse_bigint (b_amt (c_bid c)) = Some amt /\ In (HSend h (w_contract W) (calldata K amt c)) (heff s).

Record PInv (evs : list event) (s : st) : Prop := {
  pi_svc : Inv V (svc s);
  pi_full : Full (svc s);
  pi_deliv : forall ch d stv, In (EDeliver ch d stv) (eff (svc s)) -> exists sid, In (Lookup sid d stv) evs;
  pi_calling : forall sid ch d stv, In (sid, SCalling ch d stv) (streams (svc s)) -> In (Lookup sid d stv) evs;
  pi_arr : forall h ro, nget h (arr s) = Some ro -> nget h (hs s) <> None;
  pi_calls : forall h c, nget h (calls (svc s)) = Some c ->
      nget h (hs s) <> None /\ exists role o, nget h (arr s) = Some (role, o) /\ o_read o = Some (call_bid c);
  pi_insvc : forall h b auto, nget h (hs s) = Some (HInSvc b auto) ->
      ok_gates s h b /\
      (if auto then w_processor_api W = false
       else w_processor_api W = true /\ vbid V (to_engine b) = true);
  pi_late : forall h c, nget h (hs s) = Some (HStoring c) \/ nget h (hs s) = Some (HWriting c) ->
      accepted evs s h (c_bid c);
  pi_eff : forall e, In e (heff s) -> is_commit_effect e = true ->
      exists b, accepted evs s (eff_handler e) b /\ (forall h c, e = HWrite h c -> c_bid c = b);
  pi_storing : forall h c, nget h (hs s) = Some (HStoring c) -> sent_for s h c;
  pi_write : forall h c, In (HWrite h c) (heff s) -> w_da_contract W = true ->
      In (HStored h true) (heff s) /\ sent_for s h c;
  pi_to : forall h to cd, In (HSend h to cd) (heff s) -> to = w_contract W
}.

Lemma run_app evs e : run K V W (evs ++ [e]) = step K V W (run K V W evs) e.
Proof. unfold run. now rewrite fold_left_app. Qed.

Lemma pinv_init : PInv [] init.
Proof.
  constructor; cbn.
  - apply init_inv.
  - intros ch stv H. unfold cget in H. cbn in H. discriminate.
  - intros ch d stv [].
  - intros sid ch d stv [].
  - intros h ro H. discriminate.
  - intros h c H. discriminate.
  - intros h b auto H. discriminate.
  - intros h c [H|H]; discriminate.
  - intros e [].
  - intros h c H. discriminate.
  - intros h c [].
  - intros h to cd [].
Qed.

(* weakening: longer history *)
Lemma engine_ok_mono evs e b : engine_ok evs b -> engine_ok (evs ++ [e]) b.
Proof.
  intros H Hw. destruct (H Hw) as (Hv & sid & Hin). split; [exact Hv|]. exists sid. apply in_app_iff. now left.
Qed.


Definition arr_ext (s s' : st) : Prop := forall h ro, nget h (arr s) = Some ro -> nget h (arr s') = Some ro.
Definition heff_ext (s s' : st) : Prop := forall x, In x (heff s) -> In x (heff s').

Lemma gates_keep s s' h b : arr_ext s s' -> ok_gates s h b -> ok_gates s' h b.
Proof. intros Ha (role & o & a & H & R). exists role, o, a. split; [now apply Ha|exact R]. Qed.

Lemma accepted_keep evs e s s' h b :
  arr_ext s s' -> heff_ext s s' -> accepted evs s h b -> accepted (evs ++ [e]) s' h b.
Proof.
  intros Ha Hh (G & E & T). split; [|split].
  - eapply gates_keep; eauto.
  - now apply engine_ok_mono.
  - now apply Hh.
Qed.

Lemma arr_ext_refl s s' : arr s' = arr s -> arr_ext s s'.
Proof. intros E h ro. now rewrite E. Qed.

(* the service part of the invariant across one service operation *)
Lemma svc_part evs e s x :
  PInv evs s -> Inv V x -> Full x ->
  (forall ch d stv, In (EDeliver ch d stv) (eff x) ->
     In (EDeliver ch d stv) (eff (svc s)) \/ (exists sid, In (sid, SCalling ch d stv) (streams (svc s)))) ->
  (forall sid ch d stv, In (sid, SCalling ch d stv) (streams x) ->
     In (sid, SCalling ch d stv) (streams (svc s)) \/ e = Lookup sid d stv) ->
  (forall ch d stv, In (EDeliver ch d stv) (eff x) -> exists sid, In (Lookup sid d stv) (evs ++ [e])) /\
  (forall sid ch d stv, In (sid, SCalling ch d stv) (streams x) -> In (Lookup sid d stv) (evs ++ [e])).
Proof.
  intros P Ix Fx Dx Cx.
  assert (Wk : forall y, In y evs -> In y (evs ++ [e])) by (intros; apply in_app_iff; now left).
  split.
  - intros ch d stv H. destruct (Dx _ _ _ H) as [H1|(sid & H1)].
    + destruct (pi_deliv _ _ P _ _ _ H1) as (sid & H2). eauto.
    + exists sid. apply Wk. eapply pi_calling; eauto.
  - intros sid ch d stv H. destruct (Cx _ _ _ _ H) as [H1| ->].
    + apply Wk. eapply pi_calling; eauto.
    + apply in_app_iff. right. now left.
Qed.

(* a step that replaces the service state by the result of an operation that keeps the calls *)
Lemma pinv_svc_only evs e s x :
  PInv evs s -> Inv V x -> Full x -> DelivFrom (svc s) x ->
  (forall sid ch d stv, In (sid, SCalling ch d stv) (streams x) ->
     In (sid, SCalling ch d stv) (streams (svc s)) \/ e = Lookup sid d stv) ->
  CallsKeep (svc s) x ->
  PInv (evs ++ [e]) (set_svc x s).
Proof.
  intros P Ix Fx Dx Cx Kx. destruct (svc_part evs e s x P Ix Fx Dx Cx) as (D' & C').
  destruct P as [I F D C A Cl Is L E Qs Qw Qt].
  constructor; cbn; [exact Ix|exact Fx|exact D'|exact C'|exact A| | | | |exact Qs|exact Qw|exact Qt].
  - intros h c H. destruct (Kx _ _ H) as (c0 & H0 & Hb). destruct (Cl _ _ H0) as (Hn & role & o & Ha & Hr).
    split; [exact Hn|]. exists role, o. split; [exact Ha|congruence].
  - intros h b auto H. destruct (Is _ _ _ H) as (G & R). split; [exact G|exact R].
  - intros h c H. eapply accepted_keep; [apply arr_ext_refl; reflexivity|intros y Hy; exact Hy|apply L; exact H].
  - intros x0 Hin Hc. destruct (E _ Hin Hc) as (b & Hacc & Hw). exists b. split; [|exact Hw].
    eapply accepted_keep; [apply arr_ext_refl; reflexivity|intros y Hy; exact Hy|exact Hacc].
Qed.

Lemma pinv_weaken evs e s : PInv evs s -> PInv (evs ++ [e]) s.
Proof.
  intros P. replace s with (set_svc (svc s) s) by (destruct s; reflexivity).
  apply pinv_svc_only; try assumption; try apply P.
  - intros ch d stv H. now left.
  - intros sid ch d stv H. now left.
  - intros h c H. eauto.
Qed.

Lemma set_svc_id s : set_svc (svc s) s = s.
Proof. destruct s; reflexivity. Qed.

Lemma accepted_same evs s s' h b : arr s' = arr s -> heff_ext s s' -> accepted evs s h b -> accepted evs s' h b.
Proof.
  intros Ha Hh (G & E & T). split; [|split]; [|exact E|now apply Hh].
  eapply gates_keep; [apply arr_ext_refl; exact Ha|exact G].
Qed.

Definition eff_ok (s : st) (e0 : heffect) : Prop :=
  match e0 with
  | HWrite h c => w_da_contract W = true -> In (HStored h true) (heff s) /\ sent_for s h c
  | HSend h to cd => to = w_contract W
  | _ => True
  end.

Lemma pinv_add_eff evs s e0 :
  PInv evs s ->
  (is_commit_effect e0 = true ->
     exists b, accepted evs (add_heff e0 s) (eff_handler e0) b /\ (forall h c, e0 = HWrite h c -> c_bid c = b)) ->
  eff_ok s e0 ->
  PInv evs (add_heff e0 s).
Proof.
  intros [I F D C A Cl Is L E Qs Qw Qt] H0 H1.
  assert (Ext : heff_ext s (add_heff e0 s)) by (intros y Hy; now right).
  assert (SM : forall h c, sent_for s h c -> sent_for (add_heff e0 s) h c).
  { intros h c (Hd & amt & Hp & Hin). split; [exact Hd|]. exists amt. split; [exact Hp|now right]. }
  constructor; cbn; [exact I|exact F|exact D|exact C|exact A|exact Cl|exact Is| | | | |].
  - intros h c H. apply (accepted_same evs s (add_heff e0 s)); [reflexivity|exact Ext|apply L; exact H].
  - intros x0 [<-|Hin] Hc; [now apply H0|]. destruct (E _ Hin Hc) as (b & Hacc & Hw). exists b. split; [|exact Hw].
    apply (accepted_same evs s (add_heff e0 s)); [reflexivity|exact Ext|exact Hacc].
  - intros h c H. apply SM. now apply Qs.
  - intros h c [->|Hin] Hd.
    + cbn in H1. destruct (H1 Hd) as (H2 & H3). split; [now right|now apply SM].
    + destruct (Qw _ _ Hin Hd) as (H2 & H3). split; [now right|now apply SM].
  - intros h to cd [->|Hin]; [exact H1|now apply (Qt h to cd)].
Qed.

Definition state_ok (evs : list event) (s : st) (h : N) (v : hstate) : Prop :=
  match v with
  | HInSvc b auto => ok_gates s h b /\
      (if auto then w_processor_api W = false else w_processor_api W = true /\ vbid V (to_engine b) = true)
  | HStoring c => accepted evs s h (c_bid c) /\ sent_for s h c
  | HWriting c => accepted evs s h (c_bid c)
  | HDone _ => True
  end.

Lemma pinv_set_h evs s h v :
  PInv evs s -> nget h (hs s) <> None -> state_ok evs s h v -> PInv evs (set_h h v s).
Proof.
  intros [I F D C A Cl Is L E Qs Qw Qt] Hn Hv.
  constructor; cbn; [exact I|exact F|exact D|exact C| | | | | | |exact Qw|exact Qt].
  - intros h0 ro H. rewrite nget_nset. destruct (h0 =? h); [discriminate|apply (A _ _ H)].
  - intros h0 c H. destruct (Cl _ _ H) as (Hn0 & R). split; [|exact R].
    rewrite nget_nset. destruct (h0 =? h); [discriminate|exact Hn0].
  - intros h0 b auto. rewrite nget_nset. destruct (N.eqb_spec h0 h) as [->|Hne].
    + intros [= ->]. exact Hv.
    + intros H. apply (Is _ _ _ H).
  - intros h0 c. rewrite nget_nset. destruct (N.eqb_spec h0 h) as [->|Hne].
    + intros [[= ->]|[= ->]]; [exact (proj1 Hv)|exact Hv].
    + intros H. apply (L _ _ H).
  - intros x0 Hin Hc. apply (E _ Hin Hc).
  - intros h0 c. rewrite nget_nset. destruct (N.eqb_spec h0 h) as [->|Hne].
    + intros [= ->]. exact (proj2 Hv).
    + apply Qs.
Qed.

Lemma finish_eq h r s : finish h r s = add_heff (HReturn h r) (set_h h (HDone r) s).
Proof. reflexivity. Qed.

Lemma pinv_finish' evs s h r : PInv evs s -> nget h (hs s) <> None -> PInv evs (finish h r s).
Proof.
  intros P Hn. rewrite finish_eq. apply pinv_add_eff; [|discriminate|exact Logic.I].
  apply pinv_set_h; [exact P|exact Hn|exact Logic.I].
Qed.

(* ---- the events ---------------------------------------------------------------------------- *)
Lemma some_not_none {A} (o : option A) x : o = Some x -> o <> None.
Proof. intros -> ; discriminate. Qed.

Lemma pinv_on_status evs s h b stv k :
  PInv evs s -> nget h (hs s) <> None -> ok_gates s h b ->
  (stv = status_accepted -> engine_ok evs b) ->
  PInv evs (on_status K W h b stv k s).
Proof.
  intros P Hn G En. unfold on_status.
  set (s1 := add_heff (HTake h stv) s).
  assert (P1 : PInv evs s1) by (apply pinv_add_eff; [exact P|discriminate|exact Logic.I]).
  assert (Hn1 : nget h (hs s1) <> None) by exact Hn.
  destruct (stv =? status_rejected)%Z; [apply pinv_finish'; assumption|].
  destruct (Z.eqb_spec stv status_accepted) as [->|Hne]; [|apply pinv_finish'; assumption].
  assert (Acc : forall s', arr s' = arr s -> heff_ext s1 s' -> accepted evs s' h b).
  { intros s' Ha Hh. split; [|split].
    - eapply gates_keep; [apply arr_ext_refl; exact Ha|exact G].
    - apply En. reflexivity.
    - apply Hh. now left. }
  destruct k as [|d|d sg].
  - apply pinv_finish'; assumption.
  - apply pinv_finish'; [|exact Hn1]. apply pinv_add_eff; [exact P1| |exact Logic.I]. intros _. exists b. split; [|discriminate].
    apply Acc; [reflexivity|intros y Hy; now right].
  - set (c := {| c_bid := b; c_dig := d; c_sig := sg |}).
    set (s2 := add_heff (HSign h d) s1).
    assert (P2 : PInv evs s2).
    { apply pinv_add_eff; [exact P1| |exact Logic.I]. intros _. exists b. split; [|discriminate].
      apply Acc; [reflexivity|intros y Hy; now right]. }
    destruct (w_da_contract W) eqn:Hda.
    + destruct (parse_bigint (b_amt b)) as [amt|] eqn:Hp; [|apply pinv_finish'; assumption].
      apply pinv_set_h; [| exact Hn |].
      * apply pinv_add_eff; [exact P2| |reflexivity]. intros _. exists b. split; [|discriminate].
        apply Acc; [reflexivity|intros y Hy; right; now right].
      * unfold state_ok. split; [apply Acc; [reflexivity|intros y Hy; right; now right]|].
        split; [exact Hda|]. exists amt. split; [exact Hp|now left].
    + apply pinv_set_h; [| exact Hn |].
      * apply pinv_add_eff; [exact P2| |].
        -- intros _. exists b. split.
           ++ apply Acc; [reflexivity|intros y Hy; right; now right].
           ++ intros h0 c0 [= _ <-]. reflexivity.
        -- intros Hd. congruence.
      * unfold state_ok. apply Acc; [reflexivity|intros y Hy; right; now right].
Qed.

(* a new handler: arrival record and first control state *)
Definition with_arrival (h : N) (role : Z) (o : arrive_oracle) (v : hstate) (s : st) : st :=
  {| svc := svc s; hs := nset h v (hs s); arr := nset h (role, o) (arr s); heff := heff s |}.

Lemma pinv_arrival evs s h role o v :
  PInv evs s -> nget h (hs s) = None ->
  state_ok evs (with_arrival h role o v s) h v -> PInv evs (with_arrival h role o v s).
Proof.
  intros [I F D C A Cl Is L E Qs Qw Qt] Hn Hv.
  assert (Ha : nget h (arr s) = None).
  { destruct (nget h (arr s)) eqn:Ea; [|reflexivity]. exfalso. apply (A _ _ Ea). exact Hn. }
  assert (Ext : arr_ext s (with_arrival h role o v s)).
  { intros h1 ro H1. cbn. rewrite nget_nset. destruct (N.eqb_spec h1 h) as [->|Hne]; [congruence|exact H1]. }
  assert (Hx : heff_ext s (with_arrival h role o v s)) by (intros y Hy; exact Hy).
  constructor; cbn; [exact I|exact F|exact D|exact C| | | | | | |exact Qw|exact Qt].
  - intros h0 ro. rewrite !nget_nset. destruct (N.eqb_spec h0 h) as [->|Hne]; [discriminate|apply A].
  - intros h0 c H. destruct (Cl _ _ H) as (Hn0 & role0 & o0 & Ha0 & Hr0).
    assert (h0 <> h) by (intros ->; contradiction).
    rewrite !nget_nset_neq by congruence. split; [exact Hn0|]. eauto.
  - intros h0 b auto. rewrite nget_nset. destruct (N.eqb_spec h0 h) as [->|Hne].
    + intros [= ->]. exact Hv.
    + intros H. destruct (Is _ _ _ H) as (G & R). split; [|exact R]. eapply gates_keep; [exact Ext|exact G].
  - intros h0 c. rewrite nget_nset. destruct (N.eqb_spec h0 h) as [->|Hne].
    + intros [[= ->]|[= ->]]; [exact (proj1 Hv)|exact Hv].
    + intros H. destruct (L _ _ H) as (G & En & T). split; [|split; [exact En|exact T]].
      eapply gates_keep; [exact Ext|exact G].
  - intros x0 Hin Hc. destruct (E _ Hin Hc) as (b & (G & En & T) & Hw). exists b. split; [|exact Hw].
    split; [|split; [exact En|exact T]]. eapply gates_keep; [exact Ext|exact G].
  - intros h0 c. rewrite nget_nset. destruct (N.eqb_spec h0 h) as [->|Hne].
    + intros [= ->]. exact (proj2 Hv).
    + apply Qs.
Qed.

Lemma pinv_submit evs e s h b role o :
  PInv evs s -> nget h (calls (svc s)) = None -> nget h (hs s) <> None ->
  nget h (arr s) = Some (role, o) -> o_read o = Some b ->
  PInv (evs ++ [e]) (set_svc (submit V h b (svc s)) s).
Proof.
  intros P Hc Hn Ha Hr.
  destruct (submit_facts V h b (svc s) (pi_full _ _ P) Hc) as (F' & Ee & Es & Cs & _).
  assert (Wk : forall y, In y evs -> In y (evs ++ [e])) by (intros; apply in_app_iff; now left).
  pose proof (pinv_weaken evs e s P) as [I F D C A Cl Is L E Qs Qw Qt].
  constructor; cbn; [apply submit_inv; exact I|exact F'| | |exact A| |exact Is|exact L|exact E|exact Qs|exact Qw|exact Qt].
  - intros ch d stv. rewrite Ee. apply D.
  - intros sid ch d stv. rewrite Es. apply C.
  - intros h0 c H. destruct (Cs _ _ H) as [(-> & Hb)|(Hne & H0)].
    + split; [exact Hn|]. exists role, o. split; [exact Ha|congruence].
    + apply (Cl _ _ H0).
Qed.

Lemma pinv_step evs s e : PInv evs s -> PInv (evs ++ [e]) (step K V W s e).
Proof.
  intros P. pose proof (pinv_weaken evs e s P) as Pw.
  assert (Wk : forall y, In y evs -> In y (evs ++ [e])) by (intros; apply in_app_iff; now left).
  unfold step. destruct (panicked (svc s)); [exact Pw|].
  pose proof (pi_svc _ _ P) as I. pose proof (pi_full _ _ P) as F.
  destruct e as [h role o|h|h|sid d stv|sid|sid|h k|h|h ok|h ok].
  - (* Arrive *) unfold arrive.
    destruct (nget h (hs s)) eqn:Hh; [exact Pw|]. destruct (nget h (calls (svc s))) eqn:Hc; [exact Pw|].
    set (s0 := {| svc := svc s; hs := hs s; arr := nset h (role, o) (arr s); heff := heff s |}).
    assert (Fin : forall r, PInv (evs ++ [Arrive h role o]) (finish h r s0)).
    { intros r. change (finish h r s0) with (add_heff (HReturn h r) (with_arrival h role o (HDone r) s)).
      apply pinv_add_eff; [|discriminate|exact Logic.I]. apply pinv_arrival; [exact Pw|exact Hh|exact Logic.I]. }
    destruct (gate_class role o) as [r|] eqn:Hg; [apply Fin|].
    destruct (o_read o) as [b|] eqn:Hr; [|apply Fin].
    assert (G : forall v, ok_gates (with_arrival h role o v s) h b).
    { intros v. unfold gate_class in Hg. rewrite Hr in Hg.
      destruct (Z.eqb_spec role role_bidder) as [->|]; [|discriminate]. cbn in Hg.
      destruct (o_verify o) as [a|] eqn:Hv; [|discriminate]. destruct (o_allow o) eqn:Hal; [|discriminate].
      exists role_bidder, o, a. cbn. rewrite nget_nset_eq. auto. }
    destruct (w_processor_api W) eqn:Hw.
    + destruct (vbid V (to_engine b)) eqn:Hvb.
      * change (set_h h (HInSvc b false) (set_svc (submit V h b (svc s0)) s0))
          with (set_svc (submit V h b (svc s)) (with_arrival h role o (HInSvc b false) s)).
        apply (pinv_submit evs _ (with_arrival h role o (HInSvc b false) s) h b role o);
          [|exact Hc|cbn; rewrite nget_nset_eq; discriminate|cbn; apply nget_nset_eq|exact Hr].
        apply pinv_arrival; [exact P|exact Hh|]. split; [apply G|]. split; [exact Hw|exact Hvb].
      * change (finish h RFormat (set_svc (submit V h b (svc s0)) s0))
          with (add_heff (HReturn h RFormat) (set_svc (submit V h b (svc s)) (with_arrival h role o (HDone RFormat) s))).
        apply pinv_add_eff; [|discriminate|exact Logic.I].
        apply (pinv_submit evs _ (with_arrival h role o (HDone RFormat) s) h b role o);
          [|exact Hc|cbn; rewrite nget_nset_eq; discriminate|cbn; apply nget_nset_eq|exact Hr].
        apply pinv_arrival; [exact P|exact Hh|exact Logic.I].
    + change (set_h h (HInSvc b true) s0) with (with_arrival h role o (HInSvc b true) s).
      apply pinv_arrival; [exact Pw|exact Hh|]. split; [apply G|exact Hw].
  - (* EngineTake *) unfold engine_take. destruct (nget h (hs s)) as [[b [|]|c|c|r]|]; try exact Pw.
    destruct (take_facts h (svc s) F) as (F' & D' & C' & K').
    apply pinv_svc_only; [exact P|now apply take_inv|exact F'|exact D'| |exact K'].
    intros sid ch d stv H. left. now apply C'.
  - (* Abandon *) unfold abandon_h. destruct (nget h (hs s)) as [[b [|]|c|c|r]|] eqn:Hh; try exact Pw.
    destruct (nget h (calls (svc s))) as [[b0|b0|b0|b0]|]; try exact Pw.
    destruct (abandon_facts h (svc s) F) as (F' & D' & C' & K').
    apply pinv_finish'; [|cbn; rewrite Hh; discriminate].
    apply pinv_svc_only; [exact P|now apply abandon_inv|exact F'|exact D'| |exact K'].
    intros sid ch d stv H. left. now apply C'.
  - (* Lookup *) destruct (lookup_facts V sid d stv (svc s) F) as (F' & D' & K' & C').
    apply pinv_svc_only; [exact P|now apply lookup_inv|exact F'|exact D'| |exact K'].
    intros sid' ch d' stv' H. destruct (C' _ _ _ _ H) as [H1|(-> & -> & ->)]; [now left|now right].
  - (* Callback *) destruct (callback_facts sid (svc s) F) as (F' & D' & C' & K').
    apply pinv_svc_only; [exact P|now apply callback_inv|exact F'|exact D'| |exact K'].
    intros sid' ch d stv H. left. now apply C'.
  - (* RecvErr *) destruct (recv_err_facts sid (svc s) F) as (F' & D' & C' & K').
    apply pinv_svc_only; [exact P|now apply recv_err_inv|exact F'|exact D'| |exact K'].
    intros sid' ch d stv H. left. now apply C'.
  - (* TakeDecision *) unfold take_decision.
    destruct (nget h (hs s)) as [[b [|]|c|c|r]|] eqn:Hh; try exact Pw.
    + (* auto-accepting processor *)
      destruct (pi_insvc _ _ Pw _ _ _ Hh) as (G & Hw).
      apply pinv_on_status; [exact Pw|rewrite Hh; discriminate|exact G|]. intros _ Hapi. congruence.
    + destruct (nget h (calls (svc s))) as [[b0|b0|b0|b0]|] eqn:Hc; try exact Pw.
      destruct (chan_recv h (svc s)) as [[stv|] x] eqn:Hcr; [|exact Pw].
      destruct (chan_recv_facts h (svc s) F) as (F' & Ee & Es & Ec & Hfull). rewrite Hcr in *. cbn in F', Ee, Es, Ec, Hfull.
      destruct (pi_insvc _ _ P _ _ _ Hh) as (G & Hw & Hvb).
      apply pinv_on_status.
      * apply pinv_svc_only; [exact P| |exact F'| | |].
        -- pose proof (chan_recv_inv V h (svc s) I) as I'. rewrite Hcr in I'. exact I'.
        -- intros ch d st0 H. left. now rewrite <- Ee.
        -- intros sid ch d st0 H. left. now rewrite <- Es.
        -- intros h0 c H. rewrite Ec in H. eauto.
      * cbn. rewrite Hh. discriminate.
      * exact G.
      * intros -> _. split; [exact Hvb|].
        destruct (F _ _ (Hfull _ eq_refl)) as (d & Hd).
        destruct (pi_deliv _ _ P _ _ _ Hd) as (sid & Hl).
        destruct (inv_deliver_ok _ _ I _ _ _ Hd) as (_ & c & Hc' & _ & Hdig).
        rewrite Hc in Hc'. injection Hc' as <-. cbn in Hdig.
        destruct (pi_calls _ _ P _ _ Hc) as (_ & role & o & Ha & Hr). cbn in Hr.
        destruct G as (role' & o' & a & Ha' & _ & Hr' & _). rewrite Ha in Ha'. injection Ha' as <- <-.
        rewrite Hr in Hr'. injection Hr' as <-.
        exists sid. apply Wk. now rewrite Hdig.
  - (* DeadlineFire *) unfold deadline_fire. destruct (nget h (hs s)) as [[b [|]|c|c|r]|] eqn:Hh; try exact Pw.
    + apply pinv_finish'; [exact Pw|rewrite Hh; discriminate].
    + destruct (nget h (calls (svc s))) as [[b0|b0|b0|b0]|]; try exact Pw.
      apply pinv_finish'; [exact Pw|rewrite Hh; discriminate].
  - (* StoreRes *) unfold store_res. destruct (nget h (hs s)) as [[b a|c|c|r]|] eqn:Hh; try exact Pw.
    pose proof (pi_late _ _ Pw h c (or_introl Hh)) as Acc.
    pose proof (pi_storing _ _ Pw h c Hh) as (Hda & amt & Hp & Hsent).
    destruct ok.
    + apply pinv_set_h; [|cbn; rewrite Hh; discriminate|].
      * apply pinv_add_eff; [apply pinv_add_eff; [exact Pw|discriminate|exact Logic.I]| |].
        -- intros _. exists (c_bid c). split; [|intros h0 c0 [= _ <-]; reflexivity].
           eapply (accepted_same _ s); [reflexivity| |exact Acc]. intros y Hy. right. now right.
        -- intros _. split; [now left|]. split; [exact Hda|]. exists amt. split; [exact Hp|now right].
      * unfold state_ok. eapply (accepted_same _ s); [reflexivity| |exact Acc]. intros y Hy. right. now right.
    + apply pinv_finish'; [|cbn; rewrite Hh; discriminate]. apply pinv_add_eff; [exact Pw|discriminate|exact Logic.I].
  - (* WriteRes *) unfold write_res. destruct (nget h (hs s)) as [[b a|c|c|r]|] eqn:Hh; try exact Pw.
    apply pinv_finish'; [exact Pw|rewrite Hh; discriminate].
Qed.
Lemma run_pinv evs : PInv evs (run K V W evs).
Proof.
  induction evs as [|e evs IH] using rev_ind; [apply pinv_init|]. rewrite run_app. now apply pinv_step.
Qed.

(* arrival records come from Arrive events and are never rewritten *)
Lemma on_status_arr h b stv k s : arr (on_status K W h b stv k s) = arr s.
Proof.
  unfold on_status. destruct (stv =? status_rejected)%Z; [reflexivity|].
  destruct (stv =? status_accepted)%Z; [|reflexivity].
  destruct k; try reflexivity. destruct (w_da_contract W); [|reflexivity].
  destruct (parse_bigint (b_amt b)); reflexivity.
Qed.

Lemma arr_step s e h ro :
  nget h (arr (step K V W s e)) = Some ro -> nget h (arr s) = Some ro \/ e = Arrive h (fst ro) (snd ro).
Proof.
  unfold step. destruct (panicked (svc s)); [now left|].
  destruct e as [h0 role o|h0|h0|sid d stv|sid|sid|h0 k|h0|h0 ok|h0 ok]; try (now left).
  - unfold arrive. destruct (nget h0 (hs s)); [now left|]. destruct (nget h0 (calls (svc s))); [now left|].
    assert (E : forall x : unit, nget h (nset h0 (role, o) (arr s)) = Some ro ->
                nget h (arr s) = Some ro \/ Arrive h0 role o = Arrive h (fst ro) (snd ro)).
    { intros _. rewrite nget_nset. destruct (N.eqb_spec h h0) as [->|Hne]; [intros [= <-]; now right|now left]. }
    destruct (gate_class role o); [apply (E tt)|]. destruct (o_read o); [|apply (E tt)].
    destruct (w_processor_api W); [|apply (E tt)]. destruct (vbid V (to_engine b)); apply (E tt).
  - unfold engine_take. destruct (nget h0 (hs s)) as [[b [|]|c|c|r]|]; now left.
  - unfold abandon_h. destruct (nget h0 (hs s)) as [[b [|]|c|c|r]|]; try (now left).
    destruct (nget h0 (calls (svc s))) as [[b0|b0|b0|b0]|]; now left.
  - unfold take_decision. destruct (nget h0 (hs s)) as [[b [|]|c|c|r]|]; try (now left).
    + rewrite on_status_arr. now left.
    + destruct (nget h0 (calls (svc s))) as [[b0|b0|b0|b0]|]; try (now left).
      destruct (chan_recv h0 (svc s)) as [[stv|] x]; [|now left]. rewrite on_status_arr. now left.
  - unfold deadline_fire. destruct (nget h0 (hs s)) as [[b [|]|c|c|r]|]; try (now left).
    destruct (nget h0 (calls (svc s))) as [[b0|b0|b0|b0]|]; now left.
  - unfold store_res. destruct (nget h0 (hs s)) as [[b a|c|c|r]|]; try (now left). destruct ok; now left.
  - unfold write_res. destruct (nget h0 (hs s)) as [[b a|c|c|r]|]; now left.
Qed.

Lemma arr_origin evs h role o : nget h (arr (run K V W evs)) = Some (role, o) -> In (Arrive h role o) evs.
Proof.
  induction evs as [|e evs IH] using rev_ind; [discriminate|]. rewrite run_app. intros H.
  apply arr_step in H. apply in_app_iff. destruct H as [H| ->]; [left; now apply IH|right; now left].
Qed.

(* ---- C01 ------------------------------------------------------------------------------------ *)
Theorem gate evs e :
  In e (heff (run K V W evs)) -> is_commit_effect e = true ->
  exists role o b a,
    In (Arrive (eff_handler e) role o) evs /\
    role = role_bidder /\ o_read o = Some b /\ o_verify o = VOk a /\ o_allow o = true /\
    (w_processor_api W = true ->
       vbid V (to_engine b) = true /\ exists sid, In (Lookup sid (b_dig b) status_accepted) evs) /\
    In (HTake (eff_handler e) status_accepted) (heff (run K V W evs)) /\
    (forall h c, e = HWrite h c -> c_bid c = b).
Proof.
  intros Hin Hc. destruct (pi_eff _ _ (run_pinv evs) _ Hin Hc) as (b & ((role & o & a & Ha & R) & En & T) & Hw).
  exists role, o, b, a. split; [now apply arr_origin|]. unfold engine_ok in En. tauto.
Qed.

(* contrapositive, per refusing cause *)
Theorem refusal evs h role o :
  In (Arrive h role o) evs ->
  nget h (arr (run K V W evs)) = Some (role, o) ->
  (gate_class role o <> None \/
   (w_processor_api W = true /\
    forall b, o_read o = Some b ->
      vbid V (to_engine b) = false \/ (forall sid, ~ In (Lookup sid (b_dig b) status_accepted) evs))) ->
  forall e, In e (heff (run K V W evs)) -> eff_handler e = h -> is_commit_effect e = false.
Proof.
  intros _ Ha Hcause e Hin <-. destruct (is_commit_effect e) eqn:Hc; [|reflexivity]. exfalso.
  destruct (pi_eff _ _ (run_pinv evs) _ Hin Hc) as (b & ((role' & o' & a & Ha' & Hr & Hrd & Hv & Hal) & En & T) & Hw).
  rewrite Ha in Ha'. injection Ha' as <- <-.
  destruct Hcause as [Hg|(Hapi & Hb)].
  - apply Hg. unfold gate_class. rewrite Hr, Z.eqb_refl, Hrd, Hv, Hal. reflexivity.
  - destruct (En Hapi) as (Hvb & sid & Hl). destruct (Hb b Hrd) as [H1|H1]; [congruence|now apply (H1 sid)].
Qed.

(* ---- C07 / C01_order ------------------------------------------------------------------------- *)
Theorem write_after_store evs h c :
  In (HWrite h c) (heff (run K V W evs)) -> w_da_contract W = true ->
  In (HStored h true) (heff (run K V W evs)) /\
  exists amt, parse_bigint (b_amt (c_bid c)) = Some amt /\
              In (HSend h (w_contract W) (calldata K amt c)) (heff (run K V W evs)).
Proof.
  intros Hin Hd. destruct (pi_write _ _ (run_pinv evs) _ _ Hin Hd) as (H1 & _ & H2). split; [exact H1|exact H2].
Qed.

Theorem send_destination evs h to cd : In (HSend h to cd) (heff (run K V W evs)) -> to = w_contract W.
Proof. apply (pi_to _ _ (run_pinv evs)). Qed.

End Machine.

(* ---- the calldata decodes to the fields of the commitment -------------------------------------- *)
Lemma to_u64_lt z : to_u64 z < Abi.two64.
Proof.
  unfold to_u64, two64z, Abi.two64. pose proof (Z.mod_pos_bound z 18446744073709551616 eq_refl). lia.
Qed.

Lemma to_u64_id z : (0 <= z < 18446744073709551616)%Z -> to_u64 z = Z.to_N z.
Proof. intros H. unfold to_u64, two64z. now rewrite Z.mod_small. Qed.

Lemma store_args_tys amt c : map Abi.ty_of (store_args amt c) = store_tys.
Proof. reflexivity. Qed.

Theorem calldata_decodes K amt c :
  (4 <= length (K (Abi.method_sig store_name store_tys)))%nat ->
  wf_bytes (b_tx (c_bid c)) -> wf_bytes (b_sig (c_bid c)) -> wf_bytes (c_sig c) ->
  Abi.blen (Abi.encode (store_args amt c)) < Abi.two63 ->
  Abi.decode_call store_tys (calldata K amt c) =
  Some (Abi.selector K (Abi.method_sig store_name store_tys), store_args amt c).
Proof.
  intros Hk H1 H2 H3 Hl. unfold calldata. rewrite <- (store_args_tys amt c).
  apply decode_call_encode_call; [rewrite store_args_tys; exact Hk| |exact Hl].
  unfold store_args. repeat constructor; try apply to_u64_lt; assumption.
Qed.

Lemma amount_ok_parse s : Rules.amount_ok s = true ->
  exists v, parse_bigint s = Some (Z.of_N v) /\ 0 < v < Rules.uint64_bound.
Proof.
  unfold Rules.amount_ok. destruct (parse_dec s) as [v|] eqn:E; [|discriminate].
  rewrite andb_true_iff, !N.ltb_lt. intros Hv. exists v. split; [|exact Hv].
  destruct s as [|c r]; [discriminate|]. unfold parse_bigint.
  assert (Hd : is_digit c = true).
  { unfold parse_dec in E. destruct (all_digits (c :: r)) eqn:Ed; [|discriminate].
    cbn in Ed. now apply andb_true_iff in Ed. }
  destruct (N.eqb_spec c 43) as [->|_]; [discriminate|].
  destruct (N.eqb_spec c 45) as [->|_]; [discriminate|].
  now rewrite E.
Qed.

(* ---- the node's wiring (node.NewNode, provider branch), from gen/Generated.v -------------------- *)
Lemma node_wiring_api addr : w_processor_api (node_wiring addr) = true.
Proof. reflexivity. Qed.
Lemma node_wiring_da addr : w_da_contract (node_wiring addr) = true.
Proof. reflexivity. Qed.
Lemma node_wiring_contract addr : w_contract (node_wiring addr) = addr.
Proof. reflexivity. Qed.
Lemma store_name_text : store_name = bos "storeCommitment".
Proof. reflexivity. Qed.
Lemma deadline_literal : Generated.c01_deadline_ns = [5000000000%Z].
Proof. reflexivity. Qed.

(* the argument order of the three calls between the commitment and the chain client, as source text:
   handleBid -> StoreCommitment(ctx, bidAmt, uint64(BlockNumber), TxHash, uint64(DecayStart), uint64(DecayEnd),
   Bid.Signature, Signature); StoreCommitment -> Pack("storeCommitment", uint64(bid.Int64()), blockNumber, txHash,
   deacyStartTimeStamp, decayEndTimeStamp, bidSignature, commitmentSignature) with the arguments in that same
   order; Send(ctx, &TxRequest{To: &p.preconfContractAddr, CallData: callData}).  [store_args] lists the values
   in exactly this order; swapping two same-typed arguments in the source breaks these lemmas. *)
Lemma store_call_order :
  Generated.c07_store_call =
  [[bos "ctx"; bos "bidAmt"; bos "uint64(preConfirmation.Bid.BlockNumber)"; bos "preConfirmation.Bid.TxHash";
    bos "uint64(preConfirmation.Bid.DecayStartTimestamp)"; bos "uint64(preConfirmation.Bid.DecayEndTimestamp)";
    bos "preConfirmation.Bid.Signature"; bos "preConfirmation.Signature"]].
Proof. reflexivity. Qed.
Lemma pack_args_order :
  Generated.c07_pack_args =
  [[bos """storeCommitment"""; bos "uint64(bid.Int64())"; bos "blockNumber"; bos "txHash"; bos "deacyStartTimeStamp";
    bos "decayEndTimeStamp"; bos "bidSignature"; bos "commitmentSignature"]].
Proof. reflexivity. Qed.
(* the parameter list of StoreCommitment itself, in order: the names used in the Pack call above are bound to the
   caller's arguments in THIS order (swapping two same-typed parameter declarations breaks this lemma) *)
Lemma store_params_order :
  Generated.c07_store_params =
  [bos "ctx context.Context"; bos "bid *big.Int"; bos "blockNumber uint64"; bos "txHash string";
   bos "deacyStartTimeStamp uint64"; bos "decayEndTimeStamp uint64"; bos "bidSignature []byte";
   bos "commitmentSignature []byte"].
Proof. reflexivity. Qed.
Lemma send_args_wiring :
  Generated.c07_send_args =
  [[bos "ctx"; bos "&evmclient.TxRequest{ To: &p.preconfContractAddr, CallData: callData, }"]].
Proof. reflexivity. Qed.

Theorem gate_node K addr evs e :
  In e (heff (run K rules_validators (node_wiring addr) evs)) -> is_commit_effect e = true ->
  exists role o b a,
    In (Arrive (eff_handler e) role o) evs /\
    role = role_bidder /\ o_read o = Some b /\ o_verify o = VOk a /\ o_allow o = true /\
    provider_bid_ok (e_txs (to_engine b)) (e_amt (to_engine b)) (e_bn (to_engine b)) (e_dig (to_engine b))
                    (e_ds (to_engine b)) (e_de (to_engine b)) = true /\
    (exists sid, In (Lookup sid (b_dig b) status_accepted) evs) /\
    In (HTake (eff_handler e) status_accepted) (heff (run K rules_validators (node_wiring addr) evs)) /\
    (forall h c, e = HWrite h c -> c_bid c = b).
Proof.
  intros Hin Hc. destruct (gate K rules_validators (node_wiring addr) evs e Hin Hc)
    as (role & o & b & a & H1 & H2 & H3 & H4 & H5 & H6 & H7 & H8).
  destruct (H6 (node_wiring_api addr)) as (Hv & Hl).
  exists role, o, b, a. split; [exact H1|]. split; [exact H2|]. split; [exact H3|]. split; [exact H4|]. split; [exact H5|].
  split; [exact Hv|]. split; [exact Hl|]. split; [exact H7|exact H8].
Qed.

Theorem refusal_node K addr evs h role o :
  In (Arrive h role o) evs ->
  nget h (arr (run K rules_validators (node_wiring addr) evs)) = Some (role, o) ->
  (gate_class role o <> None \/
   forall b, o_read o = Some b ->
     vbid rules_validators (to_engine b) = false \/ (forall sid, ~ In (Lookup sid (b_dig b) status_accepted) evs)) ->
  forall e, In e (heff (run K rules_validators (node_wiring addr) evs)) -> eff_handler e = h -> is_commit_effect e = false.
Proof.
  intros H1 H2 H3. apply (refusal K rules_validators (node_wiring addr) evs h role o H1 H2).
  destruct H3 as [H3|H3]; [now left|right]. split; [apply node_wiring_api|exact H3].
Qed.

Theorem order_node K addr evs h c :
  In (HWrite h c) (heff (run K rules_validators (node_wiring addr) evs)) ->
  In (HStored h true) (heff (run K rules_validators (node_wiring addr) evs)) /\
  exists amt, parse_bigint (b_amt (c_bid c)) = Some amt /\
              In (HSend h addr (calldata K amt c)) (heff (run K rules_validators (node_wiring addr) evs)).
Proof.
  intros Hin. apply (write_after_store K rules_validators (node_wiring addr) evs h c Hin (node_wiring_da addr)).
Qed.

(* on the validated domain the decoded calldata is the commitment's own fields *)
Theorem args_validated K c amt :
  (4 <= length (K (Abi.method_sig store_name store_tys)))%nat ->
  vbid rules_validators (to_engine (c_bid c)) = true ->
  (b_bn (c_bid c) < 9223372036854775808)%Z -> (b_ds (c_bid c) < 9223372036854775808)%Z ->
  (b_de (c_bid c) < 9223372036854775808)%Z ->
  wf_bytes (b_tx (c_bid c)) -> wf_bytes (b_sig (c_bid c)) -> wf_bytes (c_sig c) ->
  Abi.blen (Abi.encode (store_args amt c)) < Abi.two63 ->
  parse_bigint (b_amt (c_bid c)) = Some amt ->
  (0 < amt < 18446744073709551616)%Z /\
  Abi.decode_call store_tys (calldata K amt c) =
  Some (Abi.selector K (Abi.method_sig store_name store_tys),
        [Abi.VUint64 (Z.to_N amt); Abi.VUint64 (Z.to_N (b_bn (c_bid c))); Abi.VString (b_tx (c_bid c));
         Abi.VUint64 (Z.to_N (b_ds (c_bid c))); Abi.VUint64 (Z.to_N (b_de (c_bid c)));
         Abi.VBytes (b_sig (c_bid c)); Abi.VBytes (c_sig c)]).
Proof.
  intros Hk Hv Hbn Hds Hde W1 W2 W3 Hl Hp.
  cbn in Hv. apply provider_bid_ok_spec in Hv.
  destruct Hv as (_ & Ha & Pbn & _ & Pds & Pde).
  apply amount_ok_spec, amount_ok_parse in Ha. destruct Ha as (v & Hpv & Hv0 & Hv1).
  rewrite Hp in Hpv. injection Hpv as ->. unfold Rules.uint64_bound in Hv1.
  split; [lia|].
  rewrite (calldata_decodes K (Z.of_N v) c Hk W1 W2 W3 Hl). unfold store_args.
  rewrite !to_u64_id by lia. reflexivity.
Qed.

(* ---- non-vacuity ------------------------------------------------------------------------------------ *)
Definition K0 : bytes -> bytes := fun _ => [1; 2; 3; 4].
Definition hash64 : bytes := repeat 97 64.
Definition bid0 : bid := {| b_tx := hash64; b_amt := [53]; b_bn := 7%Z; b_ds := 8%Z; b_de := 9%Z; b_dig := [9; 9]; b_sig := [5] |}.
Definition orc0 : arrive_oracle := {| o_read := Some bid0; o_verify := VOk [1]; o_allow := true |}.
Definition addr0 : bytes := repeat 7 20.
Definition accepted_run : list event :=
  [Arrive 1 2%Z orc0; EngineTake 1; Lookup 0 [9; 9] 1%Z; Callback 0; TakeDecision 1 (KOk [4; 4] [6]); StoreRes 1 true; WriteRes 1 true].

Example ex_accepted_path :
  let s := run K0 rules_validators (node_wiring addr0) accepted_run in
  nget 1 (hs s) = Some (HDone RWritten) /\
  rev (heff s) = [HTake 1 1%Z; HSign 1 [4; 4];
                  HSend 1 addr0 (calldata K0 5%Z {| c_bid := bid0; c_dig := [4; 4]; c_sig := [6] |});
                  HStored 1 true; HWrite 1 {| c_bid := bid0; c_dig := [4; 4]; c_sig := [6] |}; HReturn 1 RWritten].
Proof. vm_compute. split; reflexivity. Qed.

(* every refusing engine behaviour leaves no commitment effect *)
Example ex_reject_silence_late :
  let run' := run K0 rules_validators (node_wiring addr0) in
  filter is_commit_effect (heff (run' [Arrive 1 2%Z orc0; EngineTake 1; Lookup 0 [9; 9] 2%Z; Callback 0; TakeDecision 1 KFail])) = [] /\
  filter is_commit_effect (heff (run' [Arrive 1 2%Z orc0; EngineTake 1; DeadlineFire 1; Lookup 0 [9; 9] 1%Z; Callback 0;
                                       TakeDecision 1 (KOk [4] [6])])) = [] /\
  filter is_commit_effect (heff (run' [Arrive 1 2%Z orc0; Abandon 1; Lookup 0 [9; 9] 1%Z; Callback 0;
                                       TakeDecision 1 (KOk [4] [6])])) = [] /\
  filter is_commit_effect (heff (run' [Arrive 1 1%Z orc0; EngineTake 1; Lookup 0 [9; 9] 1%Z; Callback 0;
                                       TakeDecision 1 (KOk [4] [6])])) = [].
Proof. vm_compute. repeat split. Qed.

(* store failure: the bidder gets an error, nothing is written *)
Example ex_store_failure :
  let s := run K0 rules_validators (node_wiring addr0)
             [Arrive 1 2%Z orc0; EngineTake 1; Lookup 0 [9; 9] 1%Z; Callback 0; TakeDecision 1 (KOk [4; 4] [6]);
              StoreRes 1 false; WriteRes 1 true] in
  nget 1 (hs s) = Some (HDone RStore) /\ filter (fun e => match e with HWrite _ _ => true | _ => false end) (heff s) = [].
Proof. vm_compute. split; reflexivity. Qed.

(* why the wiring premise matters: with the auto-accepting processor (the default of the bidder branch)
   a commitment is produced although no engine decision exists *)
Example ex_noop_processor_refuted :
  let Wbad := {| w_processor_api := false; w_da_contract := true; w_contract := addr0 |} in
  let s := run K0 rules_validators Wbad [Arrive 1 2%Z orc0; TakeDecision 1 (KOk [4; 4] [6]); StoreRes 1 true; WriteRes 1 true] in
  nget 1 (hs s) = Some (HDone RWritten) /\ existsb is_commit_effect (heff s) = true.
Proof. vm_compute. split; reflexivity. Qed.
