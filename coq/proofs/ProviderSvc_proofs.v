(* Invariants and theorems about the provider-API service machine (model/ProviderSvc.v):
   C12 (forward, at_most_once, ignore, no_leak) and the facts the handleBid machine reuses. *)
From Coq Require Import List NArith ZArith Bool Lia.
From MevVerif Require Import lib.Bytes proofs.Bytes_proofs model.ProviderSvc.
Import ListNotations.
Open Scope N_scope.


(* --- association lists ---------------------------------------------------------------- *)
Lemma nget_In {A} k (l : list (N * A)) v : nget k l = Some v -> In (k, v) l.
Proof.
  induction l as [|[k' v'] r IH]; cbn; [discriminate|].
  destruct (N.eqb_spec k k') as [->|Hne].
  - intros [= ->]. now left.
  - intros H. right. now apply IH.
Qed.

Lemma In_ndel {A} k (l : list (N * A)) e : In e (ndel k l) -> In e l /\ fst e <> k.
Proof.
  unfold ndel. rewrite filter_In. intros [Hin Hk]. split; [exact Hin|].
  intros <-. now rewrite N.eqb_refl in Hk.
Qed.

Lemma nget_ndel_neq {A} k k' (l : list (N * A)) : k <> k' -> nget k' (ndel k l) = nget k' l.
Proof.
  intros Hne. unfold ndel. induction l as [|[k2 v2] r IH]; cbn; [reflexivity|].
  destruct (N.eqb_spec k k2) as [->|H2]; cbn.
  - destruct (N.eqb_spec k' k2) as [->|_]; [congruence|exact IH].
  - now rewrite IH.
Qed.

Lemma nget_nset_eq {A} k (v : A) l : nget k (nset k v l) = Some v.
Proof. unfold nset. cbn. now rewrite N.eqb_refl. Qed.

Lemma nget_nset_neq {A} k k' (v : A) l : k <> k' -> nget k' (nset k v l) = nget k' l.
Proof.
  intros Hne. unfold nset. cbn. destruct (N.eqb_spec k' k) as [->|_]; [congruence|].
  now apply nget_ndel_neq.
Qed.

Lemma nget_nset {A} k k' (v : A) l : nget k' (nset k v l) = if k' =? k then Some v else nget k' l.
Proof.
  destruct (N.eqb_spec k' k) as [->|Hne]; [apply nget_nset_eq|apply nget_nset_neq; congruence].
Qed.

Lemma pget_In d l ch : pget d l = Some ch -> In (d, ch) l.
Proof.
  induction l as [|[d' v'] r IH]; cbn; [discriminate|].
  destruct (bytes_eqb d d') eqn:E.
  - apply bytes_eqb_eq in E. subst. intros [= ->]. now left.
  - intros H. right. now apply IH.
Qed.

Lemma pget_None d l ch : pget d l = None -> ~ In (d, ch) l.
Proof.
  induction l as [|[d' v'] r IH]; cbn; [tauto|].
  destruct (bytes_eqb d d') eqn:E; [discriminate|].
  intros H [[= -> ->]|Hin]; [now rewrite bytes_eqb_refl in E|now apply IH].
Qed.

Lemma In_pdel d l e : In e (pdel d l) <-> In e l /\ fst e <> d.
Proof.
  unfold pdel. rewrite filter_In. split; intros [Hin Hk]; (split; [exact Hin|]).
  - intros <-. now rewrite bytes_eqb_refl in Hk.
  - destruct (bytes_eqb d (fst e)) eqn:E; [|reflexivity]. apply bytes_eqb_eq in E. congruence.
Qed.

Lemma pget_pdel_same d l : pget d (pdel d l) = None.
Proof.
  destruct (pget d (pdel d l)) as [ch|] eqn:E; [|reflexivity].
  apply pget_In, In_pdel in E. cbn in E. tauto.
Qed.

Definition vals (p : list (bytes * N)) : list N := map snd p.

Lemma NoDup_map_filter {A B} (f : A -> B) p l : NoDup (map f l) -> NoDup (map f (filter p l)).
Proof.
  induction l as [|a r IH]; cbn; [auto|]. intros H. inversion H as [|? ? Hn Hr]; subst.
  destruct (p a); cbn; [|auto]. constructor; [|auto].
  intros Hin. apply Hn. apply in_map_iff in Hin. destruct Hin as (y & Hy & Hf).
  apply filter_In in Hf. apply in_map_iff. exists y. tauto.
Qed.

Lemma vals_unique l a b c : NoDup (vals l) -> In (a, c) l -> In (b, c) l -> a = b.
Proof.
  induction l as [|[d v] r IH]; cbn; [tauto|]. intros H. inversion H as [|? ? Hn Hr]; subst.
  intros [[= -> ->]|Ha] [[= ->]|Hb]; auto.
  - exfalso. apply Hn. apply in_map_iff. now exists (b, c).
  - subst. exfalso. apply Hn. apply in_map_iff. now exists (a, c).
Qed.

Lemma In_vals ch l : In ch (vals l) <-> exists d, In (d, ch) l.
Proof.
  unfold vals. rewrite in_map_iff. split.
  - intros ([d c] & <- & Hin). now exists d.
  - intros (d & Hin). now exists (d, ch).
Qed.

Lemma vals_pdel_removed d l ch : NoDup (vals l) -> pget d l = Some ch -> ~ In ch (vals (pdel d l)).
Proof.
  intros Hnd Hg Hin. apply In_vals in Hin. destruct Hin as (d' & Hin). apply In_pdel in Hin.
  destruct Hin as [Hin Hne]. cbn in Hne. apply pget_In in Hg.
  apply Hne. eapply vals_unique; eauto.
Qed.

(* --- channels held by streams between lookup and callback ------------------------------- *)
Lemma In_calling ch l : In ch (calling l) <-> exists sid d st, In (sid, SCalling ch d st) l.
Proof.
  unfold calling. rewrite in_flat_map. split.
  - intros ([sid x] & Hin & Hc). cbn in Hc. destruct x as [|c d st|]; cbn in Hc; try tauto.
    destruct Hc as [->|[]]. now exists sid, d, st.
  - intros (sid & d & st & Hin). exists (sid, SCalling ch d st). split; [exact Hin|now left].
Qed.

Lemma calling_ndel_incl k l ch : In ch (calling (ndel k l)) -> In ch (calling l).
Proof.
  rewrite !In_calling. intros (sid & d & st & Hin). apply In_ndel in Hin. now exists sid, d, st.
Qed.

Lemma NoDup_app_iff {A} (a b : list A) :
  NoDup (a ++ b) <-> NoDup a /\ NoDup b /\ (forall x, In x a -> In x b -> False).
Proof.
  induction a as [|x a IH]; cbn.
  - split; [intros H; repeat split; [constructor|exact H|tauto]|tauto].
  - split.
    + intros H. inversion H as [|? ? Hn Hr]; subst. apply IH in Hr. destruct Hr as (Ha & Hb & Hd).
      repeat split; [constructor; [|exact Ha]|exact Hb|].
      * intros Hin. apply Hn. apply in_app_iff. now left.
      * intros y [->|Hy] Hyb; [apply Hn; apply in_app_iff; now right|eauto].
    + intros (Ha & Hb & Hd). inversion Ha as [|? ? Hn Hr]; subst. constructor.
      * intros Hin. apply in_app_iff in Hin. destruct Hin as [Hin|Hin]; [tauto|]. apply (Hd x); [now left|exact Hin].
      * apply IH. repeat split; auto. intros y Hy. apply Hd. now right.
Qed.

Lemma NoDup_flat_map_filter {A B} (f : A -> list B) p l : NoDup (flat_map f l) -> NoDup (flat_map f (filter p l)).
Proof.
  induction l as [|a r IH]; cbn; [auto|]. intros H.
  assert (Hr : NoDup (flat_map f r)) by (apply NoDup_app_iff in H; tauto).
  destruct (p a); cbn; [|auto].
  revert H. generalize (f a) as fa. induction fa as [|x fa IHfa]; cbn; intros H; [auto|].
  inversion H as [|? ? Hn Hrest]; subst. constructor; [|auto].
  intros Hin. apply Hn. apply in_app_iff in Hin. apply in_app_iff. destruct Hin as [Hin|Hin]; [now left|right].
  apply in_flat_map in Hin. destruct Hin as (y & Hy & Hx). apply filter_In in Hy.
  apply in_flat_map. exists y. tauto.
Qed.

Lemma NoDup_calling_ndel k l : NoDup (calling l) -> NoDup (calling (ndel k l)).
Proof. apply NoDup_flat_map_filter. Qed.

Lemma calling_ndel_removed sid l ch d st :
  NoDup (calling l) -> nget sid l = Some (SCalling ch d st) -> ~ In ch (calling (ndel sid l)).
Proof.
  induction l as [|[k v] r IH]; cbn; [discriminate|].
  intros Hnd. destruct (N.eqb_spec sid k) as [->|Hne]; cbn.
  - intros [= ->]. cbn in Hnd. inversion Hnd as [|? ? Hn Hr]; subst.
    intros Hin. apply Hn. eapply calling_ndel_incl. exact Hin.
  - intros Hg Hin.
    assert (Hr : NoDup (calling r)) by (apply NoDup_app_iff in Hnd; tauto).
    apply in_app_iff in Hin. destruct Hin as [Hin|Hin]; [|now apply (IH Hr Hg)].
    (* ch is in the head's contribution and also in r *)
    apply nget_In in Hg.
    assert (Hc : In ch (calling r)) by (apply In_calling; eauto).
    clear IH. destruct v as [|c d' st'|]; cbn in Hin; try tauto. destruct Hin as [->|[]].
    cbn in Hnd. inversion Hnd; subst. tauto.
Qed.


Arguments nset {A} k v l : simpl never.
Arguments ndel {A} k l : simpl never.
Arguments pdel d l : simpl never.

Definition registered (c : cstate) : Prop := match c with PRefused _ => False | _ => True end.
Definition live (c : cstate) : Prop := match c with POffered _ | PHanded _ => True | _ => False end.

Record Inv (V : validators) (s : svc) : Prop := {
  inv_nopanic : panicked s = false;
  inv_nd_pending : NoDup (vals (pending s));
  inv_nd_calling : NoDup (calling (streams s));
  inv_disj : forall ch, In ch (vals (pending s)) -> In ch (calling (streams s)) -> False;
  inv_pending_empty : forall ch, In ch (vals (pending s)) -> cget ch s = CEmpty;
  inv_calling_empty : forall ch, In ch (calling (streams s)) -> cget ch s = CEmpty;
  inv_owner : forall d ch, In (d, ch) (pending s) ->
      exists c, nget ch (calls s) = Some c /\ live c /\ call_digest c = d;
  inv_calling_ok : forall sid ch d st, In (sid, SCalling ch d st) (streams s) ->
      vresp V d st = true /\ exists c, nget ch (calls s) = Some c /\ registered c /\ call_digest c = d;
  inv_valid : forall h c, nget h (calls s) = Some c -> registered c ->
      exists b, (c = POffered b \/ c = PHanded b \/ c = PAbandoned b) /\ vbid V (to_engine b) = true;
  inv_deliv_chan : forall ch, In ch (delivered s) -> cget ch s <> CEmpty;
  inv_deliv_nd : NoDup (delivered s);
  inv_deliver_ok : forall ch d st, In (EDeliver ch d st) (eff s) ->
      vresp V d st = true /\ exists c, nget ch (calls s) = Some c /\ registered c /\ call_digest c = d;
  inv_engine_ok : forall h e, In (EEngine h e) (eff s) ->
      exists b, nget h (calls s) = Some (PHanded b) /\ e = to_engine b;
  inv_chan_call : forall ch, cget ch s <> CEmpty -> exists c, nget ch (calls s) = Some c /\ registered c
}.

Lemma init_inv V : Inv V init.
Proof.
  constructor; cbn; try reflexivity; try constructor; try (intros; tauto).
  all: unfold cget; cbn; intros; try discriminate; tauto.
Qed.

Lemma cget_with_chans ch k v s :
  cget ch (with_chans (nset k v (chans s)) s) = if ch =? k then v else cget ch s.
Proof. unfold cget. cbn. rewrite nget_nset. now destruct (ch =? k). Qed.

Lemma cget_nset ch k v s s' :
  chans s' = nset k v (chans s) -> cget ch s' = if ch =? k then v else cget ch s.
Proof. unfold cget. intros ->. rewrite nget_nset. now destruct (ch =? k). Qed.

Lemma cget_same ch s s' : chans s' = chans s -> cget ch s' = cget ch s.
Proof. unfold cget. now intros ->. Qed.

Lemma In_delivered ch s : In ch (delivered s) <-> exists d st, In (EDeliver ch d st) (eff s).
Proof.
  unfold delivered. rewrite in_flat_map. split.
  - intros (e & Hin & Hc). destruct e; cbn in Hc; try tauto. destruct Hc as [->|[]]. eauto.
  - intros (d & st & Hin). exists (EDeliver ch d st). split; [exact Hin|now left].
Qed.

Ltac inv_destruct H :=
  destruct H as [Hnp Hndp Hndc Hdisj Hpe Hce Hown Hcok Hval Hdc Hdnd Hdok Heok Hcc].

(* a call whose state changes among registered states with the same bid *)
Lemma submit_inv V h b s : Inv V s -> Inv V (submit V h b s).
Proof.
  intros I. unfold submit. destruct (nget h (calls s)) as [c0|] eqn:Hh; [exact I|].
  inv_destruct I.
  assert (Hfresh_p : ~ In h (vals (pending s))).
  { intros Hin. apply In_vals in Hin. destruct Hin as (d & Hin). apply Hown in Hin. destruct Hin as (c & Hc & _). congruence. }
  assert (Hfresh_c : ~ In h (calling (streams s))).
  { intros Hin. apply In_calling in Hin. destruct Hin as (sid & d & st & Hin). apply Hcok in Hin.
    destruct Hin as (_ & c & Hc & _). congruence. }
  assert (Hfresh_d : ~ In h (delivered s)).
  { intros Hin. apply In_delivered in Hin. destruct Hin as (d & st & Hin). apply Hdok in Hin.
    destruct Hin as (_ & c & Hc & _). congruence. }
  destruct (vbid V (to_engine b)) eqn:Hv.
  - constructor; cbn; auto.
    + constructor.
      * intros Hin. apply In_vals in Hin. destruct Hin as (d & Hin). apply In_pdel in Hin.
        apply Hfresh_p. apply In_vals. exists d. tauto.
      * now apply NoDup_map_filter.
    + intros ch [<-|Hin] Hc; [tauto|]. apply In_vals in Hin. destruct Hin as (d & Hin). apply In_pdel in Hin.
      apply (Hdisj ch); [apply In_vals; exists d; tauto|exact Hc].
    + intros ch Hin. unfold cget. cbn. rewrite nget_nset. destruct (N.eqb_spec ch h) as [->|Hne]; [reflexivity|].
      destruct Hin as [<-|Hin]; [congruence|]. apply In_vals in Hin. destruct Hin as (d & Hin). apply In_pdel in Hin.
      apply Hpe. apply In_vals. exists d. tauto.
    + intros ch Hin. unfold cget. cbn. rewrite nget_nset. destruct (N.eqb_spec ch h) as [->|Hne]; [reflexivity|].
      now apply Hce.
    + intros d ch [[= <- <-]|Hin].
      * exists (POffered b). rewrite nget_nset_eq. cbn. auto.
      * apply In_pdel in Hin. destruct Hin as [Hin _]. destruct (Hown _ _ Hin) as (c & Hc & Hl & Hd).
        exists c. rewrite nget_nset_neq; [auto|congruence].
    + intros sid ch d st Hin. destruct (Hcok _ _ _ _ Hin) as (Hr & c & Hc & Hreg & Hd). split; [exact Hr|].
      exists c. rewrite nget_nset_neq; [auto|congruence].
    + intros h' c. rewrite nget_nset. destruct (N.eqb_spec h' h) as [->|Hne].
      * intros [= <-] _. exists b. auto.
      * apply Hval.
    + intros ch Hin. unfold cget. cbn. rewrite nget_nset. destruct (N.eqb_spec ch h) as [->|Hne]; [tauto|].
      now apply Hdc.
    + intros ch d st Hin. destruct (Hdok _ _ _ Hin) as (Hr & c & Hc & Hreg & Hd). split; [exact Hr|].
      exists c. rewrite nget_nset_neq; [auto|congruence].
    + intros h' e Hin. destruct (Heok _ _ Hin) as (b' & Hc & He). exists b'. rewrite nget_nset_neq; [auto|congruence].
    + intros ch. unfold cget. cbn. rewrite !nget_nset. destruct (N.eqb_spec ch h) as [->|Hne]; [tauto|]. apply Hcc.
  - constructor; cbn; auto.
    + intros d ch Hin. destruct (Hown _ _ Hin) as (c & Hc & Hl & Hd).
      exists c. rewrite nget_nset_neq; [auto|congruence].
    + intros sid ch d st Hin. destruct (Hcok _ _ _ _ Hin) as (Hr & c & Hc & Hreg & Hd). split; [exact Hr|].
      exists c. rewrite nget_nset_neq; [auto|congruence].
    + intros h' c. rewrite nget_nset. destruct (N.eqb_spec h' h) as [->|Hne].
      * intros [= <-] []. 
      * apply Hval.
    + intros ch d st Hin. destruct (Hdok _ _ _ Hin) as (Hr & c & Hc & Hreg & Hd). split; [exact Hr|].
      exists c. rewrite nget_nset_neq; [auto|congruence].
    + intros h' e Hin. destruct (Heok _ _ Hin) as (b' & Hc & He). exists b'. rewrite nget_nset_neq; [auto|congruence].
    + intros ch Hne. destruct (Hcc ch Hne) as (c & Hc & Hreg). exists c. rewrite nget_nset_neq; [auto|congruence].
Qed.

(* re-labelling call h from c to c' (same bid, still registered) *)
Lemma relabel_calls V s h b c c' :
  Inv V s -> nget h (calls s) = Some c ->
  (c = POffered b) -> (c' = PHanded b \/ c' = PAbandoned b) ->
  let s' := with_calls (nset h c' (calls s)) s in
  (forall sid ch d st, In (sid, SCalling ch d st) (streams s') ->
      vresp V d st = true /\ exists c, nget ch (calls s') = Some c /\ registered c /\ call_digest c = d) /\
  (forall h0 c0, nget h0 (calls s') = Some c0 -> registered c0 ->
      exists b, (c0 = POffered b \/ c0 = PHanded b \/ c0 = PAbandoned b) /\ vbid V (to_engine b) = true) /\
  (forall ch d st, In (EDeliver ch d st) (eff s') ->
      vresp V d st = true /\ exists c, nget ch (calls s') = Some c /\ registered c /\ call_digest c = d) /\
  (forall h0 e, In (EEngine h0 e) (eff s') -> exists b, nget h0 (calls s') = Some (PHanded b) /\ e = to_engine b) /\
  (forall ch, cget ch s' <> CEmpty -> exists c, nget ch (calls s') = Some c /\ registered c).
Proof.
  intros I Hh -> Hc'. inv_destruct I. cbn.
  assert (Hreg' : registered c') by (destruct Hc' as [->| ->]; exact Logic.I).
  assert (Hdig' : call_digest c' = b_dig b) by (destruct Hc' as [->| ->]; reflexivity).
  repeat split.
  - now apply (Hcok sid ch d st).
  - destruct (Hcok _ _ _ _ H) as (_ & c & Hc & Hreg & Hd).
    destruct (N.eq_dec ch h) as [->|Hne].
    + exists c'. rewrite nget_nset_eq. rewrite Hh in Hc. injection Hc as <-. cbn in Hd. subst d. auto.
    + exists c. rewrite nget_nset_neq; [auto|congruence].
  - intros h0 c0. rewrite nget_nset. destruct (N.eqb_spec h0 h) as [->|Hne].
    + intros [= <-] _. exists b. destruct (Hval _ _ Hh Logic.I) as (b0 & Hb0 & Hv).
      assert (b0 = b) by (destruct Hb0 as [H|[H|H]]; congruence). subst b0.
      split; [tauto|exact Hv].
    + apply Hval.
  - now apply (Hdok ch d st).
  - destruct (Hdok _ _ _ H) as (_ & c & Hc & Hreg & Hd).
    destruct (N.eq_dec ch h) as [->|Hne].
    + exists c'. rewrite nget_nset_eq. rewrite Hh in Hc. injection Hc as <-. cbn in Hd. subst d. auto.
    + exists c. rewrite nget_nset_neq; [auto|congruence].
  - intros h0 e Hin. destruct (Heok _ _ Hin) as (b' & Hc & He). exists b'. split; [|exact He].
    rewrite nget_nset_neq; [exact Hc|]. intros <-. congruence.
  - intros ch Hne. destruct (Hcc ch Hne) as (c & Hc & Hreg).
    destruct (N.eq_dec ch h) as [->|Hne'].
    + exists c'. now rewrite nget_nset_eq.
    + exists c. rewrite nget_nset_neq; [auto|congruence].
Qed.

Lemma take_inv V h s : Inv V s -> Inv V (take h s).
Proof.
  intros I. unfold take. destruct (nget h (calls s)) as [[b|b|b|b]|] eqn:Hh; try exact I.
  destruct (relabel_calls V s h b (POffered b) (PHanded b) I Hh eq_refl (or_introl eq_refl))
    as (R1 & R2 & R3 & R4 & R5).
  inv_destruct I. constructor; cbn; auto.
  - intros d ch Hin. destruct (Hown _ _ Hin) as (c & Hc & Hl & Hd).
    destruct (N.eq_dec ch h) as [->|Hne].
    + exists (PHanded b). rewrite nget_nset_eq. rewrite Hh in Hc. injection Hc as <-. cbn in *. auto.
    + exists c. rewrite nget_nset_neq; [auto|congruence].
  - intros ch d st [Hin|Hin]; [discriminate|]. now apply R3.
  - intros h0 e [[= <- <-]|Hin].
    + exists b. now rewrite nget_nset_eq.
    + now apply R4.
Qed.

Lemma abandon_inv V h s : Inv V s -> Inv V (abandon h s).
Proof.
  intros I. unfold abandon. destruct (nget h (calls s)) as [[b|b|b|b]|] eqn:Hh; try exact I.
  destruct (relabel_calls V s h b (POffered b) (PAbandoned b) I Hh eq_refl (or_intror eq_refl))
    as (R1 & R2 & R3 & R4 & R5).
  inv_destruct I. constructor; cbn; auto.
  - now apply NoDup_map_filter.
  - intros ch Hin. apply In_vals in Hin. destruct Hin as (d & Hin). apply In_pdel in Hin.
    apply Hdisj. apply In_vals. exists d. tauto.
  - intros ch Hin. apply In_vals in Hin. destruct Hin as (d & Hin). apply In_pdel in Hin.
    apply Hpe. apply In_vals. exists d. tauto.
  - intros d ch Hin. apply In_pdel in Hin. destruct Hin as [Hin Hne]. cbn in Hne.
    destruct (Hown _ _ Hin) as (c & Hc & Hl & Hd).
    destruct (N.eq_dec ch h) as [->|Hne'].
    + exfalso. rewrite Hh in Hc. injection Hc as <-. cbn in Hd. congruence.
    + exists c. rewrite nget_nset_neq; [auto|congruence].
Qed.

Lemma lookup_inv V sid d st s : Inv V s -> Inv V (lookup V sid d st s).
Proof.
  intros I. unfold lookup. destruct (sget sid s) eqn:Hs; try exact I.
  assert (Hno : forall ch, In ch (calling (ndel sid (streams s))) -> In ch (calling (streams s)))
    by (intros ch; apply calling_ndel_incl).
  inv_destruct I.
  destruct (vresp V d st) eqn:Hv.
  - destruct (pget d (pending s)) as [ch|] eqn:Hp.
    + pose proof (pget_In _ _ _ Hp) as Hin0.
      constructor; cbn; auto.
      * now apply NoDup_map_filter.
      * unfold nset. cbn. constructor; [|now apply NoDup_calling_ndel].
        intros Hin. apply Hno in Hin. apply (Hdisj ch); [apply In_vals; eauto|exact Hin].
      * intros ch0 Hin Hc. unfold nset in Hc. cbn in Hc. destruct Hc as [<-|Hc].
        -- eapply vals_pdel_removed; eauto.
        -- apply In_vals in Hin. destruct Hin as (d0 & Hin). apply In_pdel in Hin.
           apply (Hdisj ch0); [apply In_vals; exists d0; tauto|now apply Hno].
      * intros ch0 Hin. apply In_vals in Hin. destruct Hin as (d0 & Hin). apply In_pdel in Hin.
        apply Hpe. apply In_vals. exists d0. tauto.
      * intros ch0 Hc. unfold nset in Hc. cbn in Hc. destruct Hc as [<-|Hc].
        -- apply Hpe. apply In_vals. eauto.
        -- apply Hce. now apply Hno.
      * intros d0 ch0 Hin. apply In_pdel in Hin. apply Hown. tauto.
      * intros sid0 ch0 d0 st0 Hin. unfold nset in Hin. cbn in Hin. destruct Hin as [[= <- <- <- <-]|Hin].
        -- split; [exact Hv|]. destruct (Hown _ _ Hin0) as (c & Hc & Hl & Hd). exists c.
           repeat split; auto. destruct c; cbn in *; tauto.
        -- apply In_ndel in Hin. apply (Hcok sid0). tauto.
    + constructor; cbn; auto.
      * intros ch d0 st0 [Hin|Hin]; [discriminate|]. now apply Hdok.
      * intros h e [Hin|Hin]; [discriminate|]. now apply Heok.
  - constructor; cbn; auto.
    + unfold nset. cbn. now apply NoDup_calling_ndel.
    + intros ch Hin Hc. unfold nset in Hc. cbn in Hc. apply (Hdisj ch); auto.
    + intros ch Hc. unfold nset in Hc. cbn in Hc. apply Hce; auto.
    + intros sid0 ch0 d0 st0 Hin. unfold nset in Hin. cbn in Hin. destruct Hin as [Hin|Hin]; [discriminate|].
      apply In_ndel in Hin. apply (Hcok sid0). tauto.
    + intros ch d0 st0 [Hin|Hin]; [discriminate|]. now apply Hdok.
    + intros h e [Hin|Hin]; [discriminate|]. now apply Heok.
Qed.

Lemma sget_In sid s ch d st : sget sid s = SCalling ch d st -> nget sid (streams s) = Some (SCalling ch d st).
Proof. unfold sget. destruct (nget sid (streams s)); [now intros ->|discriminate]. Qed.

Lemma callback_inv V sid s : Inv V s -> Inv V (callback sid s).
Proof.
  intros I. unfold callback. destruct (sget sid s) as [|ch d st|] eqn:Hs; try exact I.
  apply sget_In in Hs. pose proof (nget_In _ _ _ Hs) as Hin0.
  assert (Hno : forall ch, In ch (calling (ndel sid (streams s))) -> In ch (calling (streams s)))
    by (intros ch0; apply calling_ndel_incl).
  inv_destruct I.
  assert (Hch : In ch (calling (streams s))) by (apply In_calling; eauto).
  rewrite (Hce ch Hch).
  assert (Hgone : ~ In ch (calling (ndel sid (streams s)))) by (eapply calling_ndel_removed; eauto).
  constructor; cbn; auto.
  - unfold nset. cbn. now apply NoDup_calling_ndel.
  - intros ch0 Hin Hc. unfold nset in Hc. cbn in Hc. apply (Hdisj ch0); auto.
  - intros ch0 Hin. rewrite (cget_nset _ ch (CFull st) s) by reflexivity. destruct (N.eqb_spec ch0 ch) as [->|Hne].
    + exfalso. apply (Hdisj ch); auto.
    + now apply Hpe.
  - intros ch0 Hc. unfold nset in Hc at 1. cbn in Hc. rewrite (cget_nset _ ch (CFull st) s) by reflexivity. destruct (N.eqb_spec ch0 ch) as [->|Hne].
    + tauto.
    + apply Hce. auto.
  - intros sid0 ch0 d0 st0 Hin. unfold nset in Hin. cbn in Hin. destruct Hin as [Hin|Hin]; [discriminate|].
    apply In_ndel in Hin. apply (Hcok sid0). tauto.
  - intros ch0 [<-|Hin]; rewrite (cget_nset _ ch (CFull st) s) by reflexivity.
    + rewrite N.eqb_refl. discriminate.
    + destruct (N.eqb_spec ch0 ch) as [->|Hne]; [discriminate|]. now apply Hdc.
  - constructor; [|exact Hdnd]. intros Hin. apply Hdc in Hin. apply Hin. now apply Hce.
  - intros ch0 d0 st0 [[= <- <- <-]|Hin]; [|now apply Hdok]. apply (Hcok sid). exact Hin0.
  - intros h e [Hin|Hin]; [discriminate|]. now apply Heok.
  - intros ch0. rewrite (cget_nset _ ch (CFull st) s) by reflexivity. destruct (N.eqb_spec ch0 ch) as [->|Hne].
    + intros _. destruct (Hcok _ _ _ _ Hin0) as (_ & c & Hc & Hreg & _). eauto.
    + apply Hcc.
Qed.

Lemma recv_err_inv V sid s : Inv V s -> Inv V (recv_err sid s).
Proof.
  intros I. unfold recv_err. destruct (sget sid s) eqn:Hs; try exact I.
  assert (Hno : forall ch, In ch (calling (ndel sid (streams s))) -> In ch (calling (streams s)))
    by (intros ch; apply calling_ndel_incl).
  inv_destruct I. constructor; cbn; auto.
  - unfold nset. cbn. now apply NoDup_calling_ndel.
  - intros ch Hin Hc. unfold nset in Hc. cbn in Hc. apply (Hdisj ch); auto.
  - intros ch Hc. unfold nset in Hc. cbn in Hc. apply Hce; auto.
  - intros sid0 ch0 d0 st0 Hin. unfold nset in Hin. cbn in Hin. destruct Hin as [Hin|Hin]; [discriminate|].
    apply In_ndel in Hin. apply (Hcok sid0). tauto.
  - intros ch d0 st0 [Hin|Hin]; [discriminate|]. now apply Hdok.
  - intros h e [Hin|Hin]; [discriminate|]. now apply Heok.
Qed.

(* the consumer's receive keeps the invariant (used by the handleBid machine) *)
Lemma chan_recv_inv V h s : Inv V s -> Inv V (snd (chan_recv h s)).
Proof.
  intros I. unfold chan_recv. destruct (cget h s) as [|st|] eqn:Hc; try exact I. cbn [snd].
  inv_destruct I. constructor; cbn; auto.
  - intros ch Hin. rewrite (cget_nset _ h CDrained s) by reflexivity. destruct (N.eqb_spec ch h) as [->|Hne]; [|now apply Hpe].
    apply Hpe in Hin. congruence.
  - intros ch Hin. rewrite (cget_nset _ h CDrained s) by reflexivity. destruct (N.eqb_spec ch h) as [->|Hne]; [|now apply Hce].
    apply Hce in Hin. congruence.
  - intros ch Hin. rewrite (cget_nset _ h CDrained s) by reflexivity. destruct (N.eqb_spec ch h) as [->|Hne]; [discriminate|now apply Hdc].
  - intros ch. rewrite (cget_nset _ h CDrained s) by reflexivity. destruct (N.eqb_spec ch h) as [->|Hne]; [|apply Hcc].
    intros _. apply Hcc. congruence.
Qed.

Lemma step_inv V s e : Inv V s -> Inv V (step V s e).
Proof.
  intros I. unfold step. rewrite (inv_nopanic _ _ I).
  destruct e; [apply submit_inv|apply take_inv|apply abandon_inv|apply lookup_inv|apply callback_inv|apply recv_err_inv]; exact I.
Qed.

Lemma run_inv V evs : Inv V (run V evs).
Proof.
  unfold run. assert (H : forall s, Inv V s -> Inv V (fold_left (step V) evs s)).
  { induction evs as [|e r IH]; cbn; intros s Hs; [exact Hs|]. apply IH, step_inv, Hs. }
  apply H, init_inv.
Qed.

Arguments emitted s : simpl never.

Lemma run_app V evs e : run V (evs ++ [e]) = step V (run V evs) e.
Proof. unfold run. now rewrite fold_left_app. Qed.

Definition call_bid (c : cstate) : bid := match c with POffered b | PHanded b | PAbandoned b | PRefused b => b end.

(* history: where calls, deliveries and held decisions come from *)
Record Hist (evs : list event) (s : svc) : Prop := {
  hist_call : forall h c, nget h (calls s) = Some c -> In (Submit h (call_bid c)) evs;
  hist_calling : forall sid ch d st, In (sid, SCalling ch d st) (streams s) -> In (Lookup sid d st) evs;
  hist_deliver : forall ch d st, In (EDeliver ch d st) (eff s) -> exists sid, In (Lookup sid d st) evs;
  hist_full : forall ch st, cget ch s = CFull st -> exists d, In (EDeliver ch d st) (eff s);
  hist_engine_nd : NoDup (map fst (emitted s));
  hist_engine_handed : forall h e, In (EEngine h e) (eff s) -> exists b, nget h (calls s) = Some (PHanded b)
}.

Lemma In_emitted h e s : In (h, e) (emitted s) <-> In (EEngine h e) (eff s).
Proof.
  unfold emitted. rewrite <- in_rev, in_flat_map. split.
  - intros (x & Hin & Hc). destruct x; cbn in Hc; try tauto. destruct Hc as [[= <- <-]|[]]. exact Hin.
  - intros Hin. exists (EEngine h e). split; [exact Hin|now left].
Qed.

Lemma emitted_cons x s s' : eff s' = x :: eff s ->
  emitted s' = emitted s ++ match x with EEngine h b => [(h, b)] | _ => [] end.
Proof. unfold emitted. intros ->. cbn. rewrite rev_app_distr. f_equal. now destruct x. Qed.

Lemma hist_init : Hist [] init.
Proof. constructor; cbn; try (intros; tauto); try discriminate; try constructor. Qed.

Lemma hist_step V evs s e : Hist evs s -> Hist (evs ++ [e]) (step V s e).
Proof.
  intros [Hc Hs Hd Hf Hn Hh].
  assert (W : forall x, In x evs -> In x (evs ++ [e])) by (intros; apply in_app_iff; now left).
  assert (L : In e (evs ++ [e])) by (apply in_app_iff; right; now left).
  assert (Hd' : forall ch d st, In (EDeliver ch d st) (eff s) -> exists sid, In (Lookup sid d st) (evs ++ [e])).
  { intros ch d st Hin. destruct (Hd _ _ _ Hin) as (sid & H). eauto. }
  assert (Keep : Hist (evs ++ [e]) s).
  { constructor; [| |exact Hd'|exact Hf|exact Hn|exact Hh].
    - intros h c Hg. apply W. auto.
    - intros sid ch d st Hin. apply W. eauto. }
  (* goal solvers *)
  Ltac call_same W Hc := intros zz_h0 zz_c0 zz_Hg0; apply W; apply Hc; exact zz_Hg0.
  Ltac calling_same W Hs := intros zz_sid0 zz_ch0 zz_d0 zz_st0 zz_Hin; apply W; apply (Hs zz_sid0 zz_ch0); exact zz_Hin.
  Ltac calling_nset W Hs L := intros zz_sid0 zz_ch0 zz_d0 zz_st0 zz_Hin; unfold nset in zz_Hin; cbn in zz_Hin; destruct zz_Hin as [zz_Hin|zz_Hin];
     [first [discriminate | injection zz_Hin as <- <- <- <-; exact L] | apply In_ndel in zz_Hin; apply W; apply (Hs zz_sid0 zz_ch0); tauto].
  Ltac deliver_cons Hd' := intros zz_ch0 zz_d0 zz_st0 [zz_Hin|zz_Hin]; [discriminate|]; apply (Hd' _ _ _ zz_Hin).
  Ltac full_cons Hf := intros zz_ch0 zz_st0 zz_Hfull; destruct (Hf zz_ch0 zz_st0 zz_Hfull) as (zz_d0 & zz_H); exists zz_d0; right; exact zz_H.
  Ltac nd_cons Hn := erewrite emitted_cons by reflexivity; cbn; rewrite app_nil_r; exact Hn.
  Ltac handed_cons Hh := intros zz_h0 zz_e0 [zz_Hin|zz_Hin]; [discriminate|]; apply (Hh _ _ zz_Hin).
  Ltac handed_nset Hh := intros zz_h0 zz_e0 zz_Hin; destruct (Hh _ _ zz_Hin) as (zz_b0 & zz_Hb0); exists zz_b0; rewrite nget_nset_neq; [auto|congruence].
  unfold step. destruct (panicked s); [exact Keep|].
  destruct e as [h b|h|h|sid d st|sid|sid].
  - (* Submit *) unfold submit. destruct (nget h (calls s)) eqn:Hg; [exact Keep|].
    destruct (vbid V (to_engine b)).
    + constructor; cbn.
      * intros h0 c. rewrite nget_nset. destruct (N.eqb_spec h0 h) as [->|Hne]; [intros [= <-]; exact L|intros Hg0; apply W; auto].
      * calling_same W Hs.
      * exact Hd'.
      * intros ch st. rewrite (cget_nset _ h CEmpty s) by reflexivity. destruct (ch =? h); [discriminate|apply Hf].
      * exact Hn.
      * handed_nset Hh.
    + constructor; cbn.
      * intros h0 c. rewrite nget_nset. destruct (N.eqb_spec h0 h) as [->|Hne]; [intros [= <-]; exact L|intros Hg0; apply W; auto].
      * calling_same W Hs.
      * exact Hd'.
      * exact Hf.
      * exact Hn.
      * handed_nset Hh.
  - (* EngineTake *) unfold take. destruct (nget h (calls s)) as [[b|b|b|b]|] eqn:Hg; try exact Keep.
    constructor; cbn.
    + intros h0 c. rewrite nget_nset. destruct (N.eqb_spec h0 h) as [->|Hne]; [intros [= <-]; apply W; apply (Hc _ _ Hg)|intros Hg0; apply W; auto].
    + calling_same W Hs.
    + deliver_cons Hd'.
    + full_cons Hf.
    + erewrite emitted_cons by reflexivity. cbn. rewrite map_app. cbn.
      apply NoDup_app_iff. repeat split; [exact Hn|constructor; [tauto|constructor]|].
      intros x Hin [<-|[]]. apply in_map_iff in Hin. destruct Hin as ([h0 e0] & <- & Hin). cbn in *.
      apply In_emitted in Hin. destruct (Hh _ _ Hin) as (b0 & Hb0). congruence.
    + intros h0 e0 [[= <- <-]|Hin]; [exists b; now rewrite nget_nset_eq|].
      destruct (Hh _ _ Hin) as (b0 & Hb0). exists b0. rewrite nget_nset_neq; [auto|congruence].
  - (* Abandon *) unfold abandon. destruct (nget h (calls s)) as [[b|b|b|b]|] eqn:Hg; try exact Keep.
    constructor; cbn.
    + intros h0 c. rewrite nget_nset. destruct (N.eqb_spec h0 h) as [->|Hne]; [intros [= <-]; apply W; apply (Hc _ _ Hg)|intros Hg0; apply W; auto].
    + calling_same W Hs.
    + exact Hd'.
    + exact Hf.
    + exact Hn.
    + handed_nset Hh.
  - (* Lookup *) unfold lookup. destruct (sget sid s); try exact Keep.
    destruct (vresp V d st).
    + destruct (pget d (pending s)) as [ch|].
      * constructor; cbn; [call_same W Hc|calling_nset W Hs L|exact Hd'|exact Hf|exact Hn|exact Hh].
      * constructor; cbn; [call_same W Hc|calling_same W Hs|deliver_cons Hd'|full_cons Hf|nd_cons Hn|handed_cons Hh].
    + constructor; cbn; [call_same W Hc|calling_nset W Hs L|deliver_cons Hd'|full_cons Hf|nd_cons Hn|handed_cons Hh].
  - (* Callback *) unfold callback. destruct (sget sid s) as [|ch d st|] eqn:Hsg; try exact Keep.
    apply sget_In in Hsg. apply nget_In in Hsg.
    destruct (cget ch s) eqn:Hcg.
    + constructor; cbn; [call_same W Hc|calling_nset W Hs L| | |nd_cons Hn|handed_cons Hh].
      * intros ch0 d0 st0 [[= <- <- <-]|Hin]; [exists sid; apply W; eapply Hs; eauto|]. apply (Hd' _ _ _ Hin).
      * intros ch0 st0. rewrite (cget_nset _ ch (CFull st) s) by reflexivity.
        destruct (N.eqb_spec ch0 ch) as [->|Hne].
        -- intros [= <-]. exists d. now left.
        -- intros Hfull. destruct (Hf ch0 st0 Hfull) as (d0 & H). eauto.
    + constructor; cbn; [call_same W Hc|calling_nset W Hs L|exact Hd'|exact Hf|exact Hn|exact Hh].
    + constructor; cbn; [call_same W Hc|calling_nset W Hs L|exact Hd'|exact Hf|exact Hn|exact Hh].
  - (* RecvErr *) unfold recv_err. destruct (sget sid s); try exact Keep.
    constructor; cbn; [call_same W Hc|calling_nset W Hs L|deliver_cons Hd'|full_cons Hf|nd_cons Hn|handed_cons Hh].
Qed.

Lemma run_hist V evs : Hist evs (run V evs).
Proof.
  induction evs as [|e evs IH] using rev_ind; [apply hist_init|]. rewrite run_app. now apply hist_step.
Qed.


(* ---- C12_forward --------------------------------------------------------------------- *)
Theorem forward V evs h e :
  In (h, e) (emitted (run V evs)) ->
  exists b, In (Submit h b) evs /\ e = to_engine b /\ vbid V e = true.
Proof.
  intros Hin. apply In_emitted in Hin.
  pose proof (run_inv V evs) as I. pose proof (run_hist V evs) as H.
  destruct (inv_engine_ok _ _ I _ _ Hin) as (b & Hc & ->).
  exists b. split; [apply (hist_call _ _ H _ _ Hc)|]. split; [reflexivity|].
  destruct (inv_valid _ _ I _ _ Hc Logic.I) as (b' & Hb' & Hv).
  assert (b' = b) by (destruct Hb' as [E|[E|E]]; congruence). now subst.
Qed.

Theorem forward_once V evs : NoDup (map fst (emitted (run V evs))).
Proof. apply (hist_engine_nd _ _ (run_hist V evs)). Qed.

(* ---- C12_at_most_once ------------------------------------------------------------------ *)
Theorem at_most_once V evs :
  let s := run V evs in
  panicked s = false /\ NoDup (delivered s) /\
  forall ch d st, In (EDeliver ch d st) (eff s) ->
    vresp V d st = true /\ (exists sid, In (Lookup sid d st) evs) /\
    exists b, In (Submit ch b) evs /\ b_dig b = d /\ vbid V (to_engine b) = true.
Proof.
  cbn. pose proof (run_inv V evs) as I. pose proof (run_hist V evs) as H.
  split; [apply (inv_nopanic _ _ I)|]. split; [apply (inv_deliv_nd _ _ I)|].
  intros ch d st Hin. destruct (inv_deliver_ok _ _ I _ _ _ Hin) as (Hv & c & Hc & Hreg & Hd).
  split; [exact Hv|]. split; [apply (hist_deliver _ _ H _ _ _ Hin)|].
  exists (call_bid c). split; [apply (hist_call _ _ H _ _ Hc)|].
  destruct (inv_valid _ _ I _ _ Hc Hreg) as (b & Hb & Hvb).
  destruct Hb as [->|[->| ->]]; cbn in *; auto.
Qed.

(* a channel is written only in state CEmpty: the buffered send cannot block, the close cannot panic *)
Theorem callback_finds_empty V evs sid ch d st :
  sget sid (run V evs) = SCalling ch d st -> cget ch (run V evs) = CEmpty.
Proof.
  intros Hs. pose proof (run_inv V evs) as I. apply (inv_calling_empty _ _ I).
  apply sget_In, nget_In in Hs. apply In_calling. eauto.
Qed.

(* values readable from a channel are delivered decisions *)
Theorem full_delivered V evs ch st :
  cget ch (run V evs) = CFull st -> exists d, In (EDeliver ch d st) (eff (run V evs)).
Proof. apply (hist_full _ _ (run_hist V evs)). Qed.

(* ---- C12_ignore ------------------------------------------------------------------------ *)
Theorem ignore V s sid d st :
  panicked s = false -> sget sid s = SIdle -> vresp V d st = true -> pget d (pending s) = None ->
  let s' := step V s (Lookup sid d st) in
  pending s' = pending s /\ calls s' = calls s /\ chans s' = chans s /\ streams s' = streams s /\
  panicked s' = false /\ eff s' = EIgnore sid d st :: eff s.
Proof.
  intros Hp Hs Hv Hg. unfold step, lookup. rewrite Hp, Hs, Hv, Hg. cbn. tauto.
Qed.

(* an answered call owns no entry any more, so a second decision for its digest cannot reach it *)
Theorem answered_not_pending V evs ch :
  In ch (delivered (run V evs)) -> ~ In ch (vals (pending (run V evs))) /\ ~ In ch (calling (streams (run V evs))).
Proof.
  intros Hd. pose proof (run_inv V evs) as I. pose proof (inv_deliv_chan _ _ I _ Hd) as Hne.
  split; intros Hin; apply Hne; [apply (inv_pending_empty _ _ I)|apply (inv_calling_empty _ _ I)]; exact Hin.
Qed.

(* ---- C12_no_leak ------------------------------------------------------------------------- *)
Theorem no_leak V evs d h :
  In (d, h) (pending (run V evs)) ->
  exists b, (nget h (calls (run V evs)) = Some (POffered b) \/ nget h (calls (run V evs)) = Some (PHanded b)) /\ b_dig b = d.
Proof.
  intros Hin. destruct (inv_owner _ _ (run_inv V evs) _ _ Hin) as (c & Hc & Hl & Hd).
  destruct c as [b|b|b|b]; cbn in Hl; try tauto; exists b; cbn in Hd; auto.
Qed.

Theorem abandoned_no_entry V evs h b :
  nget h (calls (run V evs)) = Some (PAbandoned b) -> ~ In h (vals (pending (run V evs))).
Proof.
  intros Hc Hin. apply In_vals in Hin. destruct Hin as (d & Hin).
  destruct (no_leak _ _ _ _ Hin) as (b' & [E|E] & _); congruence.
Qed.

(* the abandon step itself: whatever entry stands under the digest of the abandoned call is removed *)
Theorem abandon_removes V s h b :
  panicked s = false -> nget h (calls s) = Some (POffered b) ->
  let s' := step V s (Abandon h) in
  pget (b_dig b) (pending s') = None /\ nget h (calls s') = Some (PAbandoned b) /\
  (forall d ch, d <> b_dig b -> (In (d, ch) (pending s') <-> In (d, ch) (pending s))).
Proof.
  intros Hp Hc. unfold step, abandon. rewrite Hp, Hc. cbn. split; [apply pget_pdel_same|].
  split; [apply nget_nset_eq|]. intros d ch Hne. rewrite In_pdel. cbn. tauto.
Qed.

(* entries never outnumber the live calls *)
Theorem pending_distinct V evs : NoDup (vals (pending (run V evs))).
Proof. apply (inv_nd_pending _ _ (run_inv V evs)). Qed.

(* ---- non-vacuity and the equal-digest cases, spelled out ----------------------------------- *)
Definition Vall : validators := {| vbid := fun _ => true; vresp := fun _ st => (st =? 1)%Z || (st =? 2)%Z |}.
Definition mkbid (tag : N) (d : bytes) : bid :=
  {| b_tx := [97]; b_amt := [48 + tag]; b_bn := 1%Z; b_ds := 1%Z; b_de := 1%Z; b_dig := d; b_sig := [] |}.
Definition dA : bytes := [1;2;3].
Definition dB : bytes := [4].

(* one bid, taken, accepted; a duplicate and an unknown decision are ignored, the stream lives *)
Example ex_normal :
  let s := run Vall [Submit 1 (mkbid 1 dA); EngineTake 1; Lookup 0 dA 1%Z; Callback 0;
                     Lookup 0 dA 1%Z; Callback 0; Lookup 0 dB 2%Z; Callback 0] in
  cget 1 s = CFull 1%Z /\ delivered s = [1] /\ pending s = [] /\ sget 0 s = SIdle /\
  emitted s = [(1, to_engine (mkbid 1 dA))] /\ panicked s = false.
Proof. vm_compute. repeat split. Qed.

(* equal digests: the second registration replaces the first; the decision reaches the second call only *)
Example ex_equal_digest_overwrite :
  let s := run Vall [Submit 1 (mkbid 1 dA); Submit 2 (mkbid 2 dA); EngineTake 1; EngineTake 2;
                     Lookup 0 dA 1%Z; Callback 0; Lookup 0 dA 1%Z; Callback 0] in
  cget 1 s = CEmpty /\ cget 2 s = CFull 1%Z /\ delivered s = [2] /\ pending s = [] /\ panicked s = false.
Proof. vm_compute. repeat split. Qed.

(* equal digests: the first call's abandon removes the entry of the second; the second gets nothing *)
Example ex_equal_digest_abandon :
  let s := run Vall [Submit 1 (mkbid 1 dA); Submit 2 (mkbid 2 dA); Abandon 1; EngineTake 2;
                     Lookup 0 dA 1%Z; Callback 0] in
  cget 2 s = CEmpty /\ delivered s = [] /\ pending s = [] /\ sget 0 s = SIdle /\ panicked s = false /\
  nget 1 (calls s) = Some (PAbandoned (mkbid 1 dA)) /\ nget 2 (calls s) = Some (PHanded (mkbid 2 dA)).
Proof. vm_compute. repeat split. Qed.

(* malformed decision: the service ends that stream, nothing is delivered; another stream still works *)
Example ex_bad_status :
  let s := run Vall [Submit 1 (mkbid 1 dA); EngineTake 1; Lookup 0 dA 0%Z; Lookup 0 dA 1%Z; Callback 0;
                     Lookup 7 dA 2%Z; Callback 7] in
  sget 0 s = SEnded /\ sget 7 s = SIdle /\ cget 1 s = CFull 2%Z /\ delivered s = [1].
Proof. vm_compute. repeat split. Qed.

(* two streams racing for the same digest: only one obtains the callback *)
Example ex_two_streams :
  let s := run Vall [Submit 1 (mkbid 1 dA); EngineTake 1; Lookup 0 dA 1%Z; Lookup 7 dA 2%Z; Callback 7; Callback 0] in
  cget 1 s = CFull 1%Z /\ delivered s = [1] /\ panicked s = false.
Proof. vm_compute. repeat split. Qed.

(* what the invariant excludes: were a callback invoked twice, the model does panic *)
Example ex_double_callback_panics :
  let s0 := run Vall [Submit 1 (mkbid 1 dA); EngineTake 1; Lookup 0 dA 1%Z; Callback 0] in
  panicked (callback 7 (with_streams (nset 7 (SCalling 1 dA 1%Z) (streams s0)) s0)) = true.
Proof. vm_compute. reflexivity. Qed.

(* ---- liveness of delivery, malformed decisions, and an instance under the published rules ------ *)
(* positive delivery: a well-formed decision whose digest has an entry reaches exactly that call's channel *)
Theorem delivered_step V evs sid d st ch :
  let s := run V evs in
  sget sid s = SIdle -> vresp V d st = true -> pget d (pending s) = Some ch ->
  let s' := step V (step V s (Lookup sid d st)) (Callback sid) in
  cget ch s' = CFull st /\ In (EDeliver ch d st) (eff s') /\ pget d (pending s') = None /\
  sget sid s' = SIdle /\ panicked s' = false /\
  (forall ch', ch' <> ch -> cget ch' s' = cget ch' s).
Proof.
  cbn. intros Hs Hv Hp. pose proof (run_inv V evs) as I. pose proof (inv_nopanic _ _ I) as Np.
  assert (He : cget ch (run V evs) = CEmpty).
  { apply (inv_pending_empty _ _ I). apply In_vals. exists d. now apply pget_In. }
  set (s := run V evs) in *.
  set (s1 := with_pending (pdel d (pending s)) (with_streams (nset sid (SCalling ch d st) (streams s)) s)).
  assert (E1 : step V s (Lookup sid d st) = s1).
  { unfold step, lookup. now rewrite Np, Hs, Hv, Hp. }
  rewrite E1.
  assert (Hs1 : sget sid s1 = SCalling ch d st) by (unfold sget, s1; cbn; now rewrite nget_nset_eq).
  set (s2 := add_eff (EDeliver ch d st)
               (with_chans (nset ch (CFull st) (chans s1)) (with_streams (nset sid SIdle (streams s1)) s1))).
  assert (E2 : step V s1 (Callback sid) = s2).
  { unfold step, callback. change (panicked s1) with (panicked s). rewrite Np, Hs1.
    change (cget ch s1) with (cget ch s). now rewrite He. }
  rewrite E2. split; [|split; [|split; [|split; [|split]]]].
  - rewrite (cget_nset _ ch (CFull st) s1) by reflexivity. now rewrite N.eqb_refl.
  - now left.
  - cbn. apply pget_pdel_same.
  - unfold sget. cbn. now rewrite nget_nset_eq.
  - exact Np.
  - intros ch' Hne. rewrite (cget_nset _ ch (CFull st) s1) by reflexivity.
    destruct (N.eqb_spec ch' ch); [congruence|reflexivity].
Qed.

(* a malformed decision ends that stream and touches nothing else *)
Theorem malformed_step V s sid d st :
  panicked s = false -> sget sid s = SIdle -> vresp V d st = false ->
  let s' := step V s (Lookup sid d st) in
  pending s' = pending s /\ chans s' = chans s /\ calls s' = calls s /\ sget sid s' = SEnded /\
  (forall x, x <> sid -> sget x s' = sget x s) /\ eff s' = EStreamEnd sid true :: eff s /\ panicked s' = false.
Proof.
  intros Hp Hs Hv. unfold step, lookup. rewrite Hp, Hs, Hv. cbn. split; [reflexivity|]. split; [reflexivity|]. split; [reflexivity|].
  split; [|split; [|split; [reflexivity|exact Hp]]].
  - unfold sget. cbn. now rewrite nget_nset_eq.
  - intros x Hx. unfold sget. cbn. rewrite nget_nset_neq by congruence. reflexivity.
Qed.

(* an ended stream processes nothing further *)
Theorem ended_stream_inert V s sid d st :
  sget sid s = SEnded -> step V s (Lookup sid d st) = s /\ step V s (Callback sid) = s.
Proof.
  intros Hs. unfold step, lookup, callback. rewrite Hs. destruct (panicked s); split; reflexivity.
Qed.

(* non-vacuity for the validator of the statements: the published rules accept this bid, and the whole
   life cycle runs under rules_validators *)
Definition rbid (tag : N) (d : bytes) : bid :=
  {| b_tx := repeat 97 64 ++ [44] ++ repeat 66 64; b_amt := [49; 48 + tag]; b_bn := 7%Z; b_ds := 8%Z; b_de := 9%Z;
     b_dig := d; b_sig := [] |}.
Example ex_rules_validators :
  vbid rules_validators (to_engine (rbid 1 [1; 2; 3])) = true /\
  vbid rules_validators (to_engine {| b_tx := [97]; b_amt := [49]; b_bn := 7%Z; b_ds := 8%Z; b_de := 9%Z; b_dig := [1]; b_sig := [] |}) = false /\
  let s := run rules_validators [Submit 1 (rbid 1 [1; 2; 3]); EngineTake 1; Lookup 0 [1; 2; 3] 2%Z; Callback 0;
                                 Lookup 0 [1; 2; 3] 1%Z; Callback 0; Lookup 0 [9] 3%Z] in
  cget 1 s = CFull 2%Z /\ delivered s = [1] /\ emitted s = [(1, to_engine (rbid 1 [1; 2; 3]))] /\
  pending s = [] /\ sget 0 s = SEnded /\ panicked s = false.
Proof. vm_compute. repeat split. Qed.

(* ---- counting form of at-most-once: deliveries of (d, st) never outnumber the decisions (d, st) ------ *)
Section Counting.
Variable V : validators.
Variable d : bytes.
Variable st : Z.

Definition is_deliv (e : effect) : bool :=
  match e with EDeliver _ d' st' => bytes_eqb d d' && (st =? st')%Z | _ => false end.
Definition is_call (v : sstate) : bool :=
  match v with SCalling _ d' st' => bytes_eqb d d' && (st =? st')%Z | _ => false end.
Definition is_look (e : event) : bool :=
  match e with Lookup _ d' st' => bytes_eqb d d' && (st =? st')%Z | _ => false end.
Definition cnt_deliv (s : svc) : nat := length (filter is_deliv (eff s)).
Definition cnt_call (l : list (N * sstate)) : nat := length (filter (fun e => is_call (snd e)) l).
Definition cnt_look (evs : list event) : nat := length (filter is_look evs).
Definition ind (b : bool) : nat := if b then 1%nat else 0%nat.

Lemma cnt_ndel_le k l : (cnt_call (ndel k l) <= cnt_call l)%nat.
Proof.
  unfold cnt_call, ndel. induction l as [|[k' v] r IH]; cbn; [lia|].
  destruct (negb (k =? k')); cbn; destruct (is_call v); cbn; lia.
Qed.

Lemma cnt_ndel_found k l v : nget k l = Some v -> (cnt_call (ndel k l) + ind (is_call v) <= cnt_call l)%nat.
Proof.
  unfold cnt_call, ndel. induction l as [|[k' v'] r IH]; cbn; [discriminate|].
  destruct (N.eqb_spec k k') as [->|Hne]; cbn.
  - intros [= ->]. fold (ndel k' r). pose proof (cnt_ndel_le k' r) as H. unfold cnt_call in H.
    destruct (is_call v); cbn; lia.
  - intros H. specialize (IH H). destruct (is_call v'); cbn; lia.
Qed.

Lemma cnt_nset k v l : cnt_call (nset k v l) = (ind (is_call v) + cnt_call (ndel k l))%nat.
Proof. unfold nset, cnt_call. cbn. destruct (is_call v); reflexivity. Qed.

Lemma sget_nget sid s : sget sid s <> SIdle -> nget sid (streams s) = Some (sget sid s).
Proof. unfold sget. destruct (nget sid (streams s)); [reflexivity|congruence]. Qed.

Definition CInv (evs : list event) (s : svc) : Prop := (cnt_deliv s + cnt_call (streams s) <= cnt_look evs)%nat.

Lemma cnt_look_app evs e : cnt_look (evs ++ [e]) = (cnt_look evs + ind (is_look e))%nat.
Proof. unfold cnt_look. rewrite filter_app, app_length. cbn. destruct (is_look e); reflexivity. Qed.

Lemma cinv_of evs s s' k new_eff new_streams :
  eff s' = new_eff ++ eff s -> streams s' = new_streams ->
  (length (filter is_deliv new_eff) + cnt_call new_streams <= cnt_call (streams s) + k)%nat ->
  CInv evs s -> (cnt_deliv s' + cnt_call (streams s') <= cnt_look evs + k)%nat.
Proof.
  unfold CInv, cnt_deliv. intros -> -> H1 H2. rewrite filter_app, app_length. lia.
Qed.

Lemma cinv_step evs s e : CInv evs s -> CInv (evs ++ [e]) (step V s e).
Proof.
  intros H. unfold CInv at 1. rewrite cnt_look_app. unfold step.
  assert (Same : forall s', eff s' = eff s -> streams s' = streams s ->
                 (cnt_deliv s' + cnt_call (streams s') <= cnt_look evs + ind (is_look e))%nat).
  { intros s' E1 E2. apply (cinv_of evs s s' _ [] (streams s)); [exact E1|exact E2|cbn; lia|exact H]. }
  destruct (panicked s); [now apply Same|].
  destruct e as [h b|h|h|sid d' st'|sid|sid]; cbn [is_look].
  - unfold submit. destruct (nget h (calls s)); [now apply Same|]. destruct (vbid V (to_engine b)); now apply Same.
  - unfold take. destruct (nget h (calls s)) as [[b|b|b|b]|]; try (now apply Same).
    apply (cinv_of evs s _ _ [EEngine h (to_engine b)] (streams s)); [reflexivity|reflexivity|cbn; lia|exact H].
  - unfold abandon. destruct (nget h (calls s)) as [[b|b|b|b]|]; now apply Same.
  - unfold lookup. destruct (sget sid s) eqn:Hs; try (now apply Same).
    pose proof (cnt_ndel_le sid (streams s)) as Hle.
    destruct (vresp V d' st').
    + destruct (pget d' (pending s)) as [ch|].
      * apply (cinv_of evs s _ _ [] (nset sid (SCalling ch d' st') (streams s))); [reflexivity|reflexivity| |exact H].
        rewrite cnt_nset. cbn [is_call filter length]. lia.
      * apply (cinv_of evs s _ _ [EIgnore sid d' st'] (streams s)); [reflexivity|reflexivity|cbn; lia|exact H].
    + apply (cinv_of evs s _ _ [EStreamEnd sid true] (nset sid SEnded (streams s))); [reflexivity|reflexivity| |exact H].
      rewrite cnt_nset. cbn [is_call ind filter is_deliv length]. lia.
  - unfold callback. destruct (sget sid s) as [|ch d' st'|] eqn:Hs; try (now apply Same).
    assert (Hg : nget sid (streams s) = Some (SCalling ch d' st')).
    { rewrite <- Hs. apply sget_nget. rewrite Hs. discriminate. }
    pose proof (cnt_ndel_found _ _ _ Hg) as Hf. cbn [is_call] in Hf.
    destruct (cget ch s).
    + apply (cinv_of evs s _ _ [EDeliver ch d' st'] (nset sid SIdle (streams s))); [reflexivity|reflexivity| |exact H].
      rewrite cnt_nset. cbn [is_call ind filter is_deliv]. destruct (bytes_eqb d d' && (st =? st')%Z); cbn [ind length] in *; lia.
    + apply (cinv_of evs s _ _ [] (nset sid SEnded (streams s))); [reflexivity|reflexivity| |exact H].
      rewrite cnt_nset. cbn [is_call ind filter length]. lia.
    + apply (cinv_of evs s _ _ [] (nset sid SEnded (streams s))); [reflexivity|reflexivity| |exact H].
      rewrite cnt_nset. cbn [is_call ind filter length]. lia.
  - unfold recv_err. destruct (sget sid s); try (now apply Same).
    pose proof (cnt_ndel_le sid (streams s)) as Hle.
    apply (cinv_of evs s _ _ [EStreamEnd sid false] (nset sid SEnded (streams s))); [reflexivity|reflexivity| |exact H].
    rewrite cnt_nset. cbn [is_call ind filter is_deliv length]. lia.
Qed.

Theorem deliveries_le_decisions evs : (cnt_deliv (run V evs) <= cnt_look evs)%nat.
Proof.
  assert (H : CInv evs (run V evs)).
  { induction evs as [|e evs IH] using rev_ind; [unfold CInv; cbn; lia|]. rewrite run_app. now apply cinv_step. }
  unfold CInv in H. lia.
Qed.
End Counting.
