(* Facts about the regenerated configuration tables of cmd/main.go (model/Config.v).  Every lemma closed by
   vm_compute is re-checked against the tables regenerated from the current source on every run. *)
From Coq Require Import String List NArith Bool.
From MevVerif Require Import lib.Bytes gen.Generated model.Config.
Import ListNotations.
Open Scope N_scope.

Lemma field_secret : flag_of_field (bos "Secret") = Some (bos "secret").
Proof. vm_compute. reflexivity. Qed.
Lemma field_peer_type : flag_of_field (bos "PeerType") = Some (bos "peer-type").
Proof. vm_compute. reflexivity. Qed.
Lemma field_preconf : flag_of_field (bos "PreconfContract") = Some (bos "preconf-contract").
Proof. vm_compute. reflexivity. Qed.
Lemma field_provreg : flag_of_field (bos "ProviderRegistryContract") = Some (bos "provider-registry-contract").
Proof. vm_compute. reflexivity. Qed.
Lemma field_bidreg : flag_of_field (bos "BidderRegistryContract") = Some (bos "bidder-registry-contract").
Proof. vm_compute. reflexivity. Qed.
Lemma field_rpc : flag_of_field (bos "RPCEndpoint") = Some (bos "settlement-rpc-endpoint").
Proof. vm_compute. reflexivity. Qed.

(* fields that are not a plain read of one flag are not resolved (so the interpretation is not "anything goes") *)
Lemma field_keysigner_unresolved : flag_of_field (bos "KeySigner") = None.
Proof. vm_compute. reflexivity. Qed.
Lemma field_unknown_unresolved : flag_of_field (bos "NoSuchField") = None.
Proof. vm_compute. reflexivity. Qed.

Definition spec_options (env : bytes -> bytes) : options :=
  {| o_secret := env (bos "secret");
     o_peer_type := env (bos "peer-type");
     o_preconf_contract := env (bos "preconf-contract");
     o_provider_registry_contract := env (bos "provider-registry-contract");
     o_bidder_registry_contract := env (bos "bidder-registry-contract");
     o_rpc_endpoint := env (bos "settlement-rpc-endpoint") |}.

(* for every assignment of values to flags, the options handed to node.NewNode carry each flag in its own field *)
Lemma launch_options_spec : forall env, launch_options env = Some (spec_options env).
Proof.
  intro env. unfold launch_options.
  rewrite field_secret, field_peer_type, field_preconf, field_provreg, field_bidreg, field_rpc.
  reflexivity.
Qed.

(* the six flags are pairwise different names: no field silently shares a flag with another *)
Fixpoint nodupb (l : list bytes) : bool :=
  match l with [] => true | a :: r => negb (existsb (bytes_eqb a) r) && nodupb r end.

Lemma config_flags_distinct :
  nodupb [bos "secret"; bos "peer-type"; bos "preconf-contract"; bos "provider-registry-contract";
          bos "bidder-registry-contract"; bos "settlement-rpc-endpoint"] = true.
Proof. vm_compute. reflexivity. Qed.

(* a contract field depends on its own flag only *)
Lemma preconf_contract_depends_on_its_flag_only : forall env env' o o',
  env (bos "preconf-contract") = env' (bos "preconf-contract") ->
  launch_options env = Some o -> launch_options env' = Some o' ->
  o_preconf_contract o = o_preconf_contract o'.
Proof.
  intros env env' o o' H H1 H2. rewrite launch_options_spec in H1, H2.
  injection H1 as <-. injection H2 as <-. exact H.
Qed.

(* node.NewNode turns exactly these three option fields into the three contract addresses *)
Lemma node_contract_wiring : node_contract_wiring_ok = true.
Proof. vm_compute. reflexivity. Qed.

(* the peer-type flag only takes the three role names *)
Lemma peer_type_choices :
  peer_type_action = Some (bos "stringInCheck(""peer-type"", []string{""bidder"", ""provider"", ""bootnode""})").
Proof. vm_compute. reflexivity. Qed.

(* end to end: flag -> options field -> address expression of node.NewNode *)
Lemma configured_contracts_from_flags : forall env, exists o,
  launch_options env = Some o
  /\ o_preconf_contract o = env (bos "preconf-contract")
  /\ o_provider_registry_contract o = env (bos "provider-registry-contract")
  /\ o_bidder_registry_contract o = env (bos "bidder-registry-contract")
  /\ node_contract_wiring_ok = true.
Proof.
  intro env. exists (spec_options env). rewrite launch_options_spec.
  split; [reflexivity|]. split; [reflexivity|]. split; [reflexivity|]. split; [reflexivity|]. exact node_contract_wiring.
Qed.

(* non-vacuity: a concrete environment *)
Example launch_example :
  let env := fun f => if bytes_eqb f (bos "preconf-contract") then bos "0xAA" else bos "other" in
  option_map o_preconf_contract (launch_options env) = Some (bos "0xAA")
  /\ option_map o_bidder_registry_contract (launch_options env) = Some (bos "other").
Proof. vm_compute. split; reflexivity. Qed.

Lemma key_signer_sources : key_signer_sources_ok = true.
Proof. vm_compute. reflexivity. Qed.

(* each contract flag is fed by its own environment variable; no two flags share one *)
Lemma contract_env_vars :
  map flag_env_of_var [bos "optionPreconfStoreAddr"; bos "optionProviderRegistryAddr"; bos "optionBidderRegistryAddr"] =
  [Some (bos "[]string{""MEV_COMMIT_PRECONF_ADDR""}");
   Some (bos "[]string{""MEV_COMMIT_PROVIDER_REGISTRY_ADDR""}");
   Some (bos "[]string{""MEV_COMMIT_BIDDER_REGISTRY_ADDR""}")].
Proof. vm_compute. reflexivity. Qed.

Lemma config_env_vars_distinct :
  match map flag_env_of_var [bos "optionSecret"; bos "optionPeerType"; bos "optionPreconfStoreAddr";
                             bos "optionProviderRegistryAddr"; bos "optionBidderRegistryAddr";
                             bos "optionSettlementRPCEndpoint"] with
  | [Some a; Some b; Some c; Some d; Some e; Some f] => nodupb [a; b; c; d; e; f]
  | _ => false
  end = true.
Proof. vm_compute. reflexivity. Qed.
