(* Signer.v: what a successful verification establishes (soundness), what the digests and
   therefore the signatures bind (reduction to an explicit collision), shape of emitted
   signatures, round trip of the node's own messages under explicit premises on the crypto
   oracle, the refutation of amount binding for the pre-fix code, and the signature
   malleation facts in an abstract prime-order group. *)
From Coq Require Import String List NArith ZArith Bool Lia ZifyN ZifyNat ZifyBool Znumtheory.
From MevVerif Require Import lib.Bytes lib.Keccak gen.Generated model.Eip712 model.Signer
  proofs.Bytes_proofs proofs.Keccak_proofs proofs.Eip712_proofs.
Import ListNotations.
Open Scope N_scope.

(* --- index 64 of a signature ---------------------------------------------------------- *)
Lemma set64_split (l1 l2 : bytes) v w :
  length l1 = 64%nat -> set64 (l1 ++ v :: l2) w = l1 ++ w :: l2.
Proof.
  intros H. unfold set64.
  rewrite firstn_app, H, Nat.sub_diag, firstn_O, app_nil_r.
  rewrite <- H at 1. rewrite firstn_all.
  replace 65%nat with (length l1 + 1)%nat by lia.
  rewrite skipn_app, Nat.add_comm, Nat.add_sub.
  rewrite skipn_all2 by lia. reflexivity.
Qed.

Lemma sig_split (sig : bytes) v :
  nth_error sig 64 = Some v -> exists l1 l2, sig = l1 ++ v :: l2 /\ length l1 = 64%nat.
Proof. apply nth_error_split. Qed.

Lemma sig65_split (sig : bytes) v :
  length sig = 65%nat -> nth_error sig 64 = Some v ->
  exists l1, sig = l1 ++ [v] /\ length l1 = 64%nat.
Proof.
  intros HL H. destruct (sig_split sig v H) as (l1 & l2 & -> & H1).
  rewrite app_length in HL. cbn [length] in HL.
  destruct l2; [|cbn [length] in HL; lia]. exists l1. split; [reflexivity|exact H1].
Qed.

Lemma firstn64_app (l1 l2 : bytes) : length l1 = 64%nat -> firstn 64 (l1 ++ l2) = l1.
Proof.
  intros H. rewrite firstn_app, H, Nat.sub_diag, firstn_O, app_nil_r.
  rewrite <- H. apply firstn_all.
Qed.

Lemma nth_error_64_app (l1 l2 : bytes) v : length l1 = 64%nat -> nth_error (l1 ++ v :: l2) 64 = Some v.
Proof. intros H. rewrite nth_error_app2 by lia. rewrite H. reflexivity. Qed.

Lemma v_to01_2728 v : (v = 0 \/ v = 1) -> v_to01 (v_to2728 v) = v.
Proof. intros [->| ->]; reflexivity. Qed.

Lemma v_to2728_shape v : (v = 0 \/ v = 1 \/ v = 27 \/ v = 28) -> v_to2728 v = 27 \/ v_to2728 v = 28.
Proof. intros [->|[->|[->| ->]]]; cbn; auto. Qed.

Section Sound.
  Variable K : bytes -> bytes.
  Variable cr : crypto.

  (* what eipVerify establishes: exactly this, nothing less *)
  Definition sig_valid (h sig addr : bytes) : Prop :=
    length sig = 65%nat /\
    exists v pk, nth_error sig 64 = Some v /\
      recover cr h (firstn 64 sig ++ [v_to01 v]) = Ok pk /\
      verify_rs cr pk h (firstn 64 sig) = true /\
      addr = addr_of cr pk.

  Lemma eip_verify_ok h e sig a :
    eip_verify cr h e sig = Ok a <-> (h = e /\ sig_valid h sig a).
  Proof.
    unfold eip_verify, sig_valid. split.
    - intros H.
      destruct (bytes_eqb h e) eqn:E; [|discriminate]. apply bytes_eqb_eq in E. cbn [negb] in H.
      destruct (Nat.eqb_spec (length sig) 65) as [L|L]; [|discriminate]. cbn [negb] in H.
      unfold eip_verify_core in H.
      destruct (nth_error sig 64) as [v|] eqn:Hv; [|discriminate].
      destruct (sig65_split sig v L Hv) as (l1 & -> & H1).
      rewrite (set64_split l1 [] v _ H1) in H.
      destruct (recover cr h (l1 ++ [v_to01 v])) as [pk| |] eqn:R; try discriminate.
      rewrite app_length in H. cbn [length] in H. rewrite H1 in H. cbn [Nat.add Nat.sub] in H.
      rewrite (firstn64_app l1 _ H1) in H.
      destruct (verify_rs cr pk h l1) eqn:V; [|discriminate]. injection H as <-.
      split; [exact E|]. split; [exact L|]. exists v, pk.
      rewrite (firstn64_app l1 _ H1). repeat split; assumption.
    - intros (E & L & v & pk & Hv & R & V & ->). subst e.
      rewrite bytes_eqb_refl. cbn [negb]. rewrite L. cbn [Nat.eqb negb].
      unfold eip_verify_core. rewrite Hv.
      destruct (sig65_split sig v L Hv) as (l1 & -> & H1).
      rewrite (firstn64_app l1 _ H1) in R, V.
      rewrite (set64_split l1 [] v _ H1), R.
      rewrite app_length. cbn [length]. rewrite H1. cbn [Nat.add Nat.sub].
      rewrite (firstn64_app l1 _ H1), V. reflexivity.
  Qed.

  (* never a panic, whatever the three byte strings are (repair c3de1fc), as long as the
     recovery library itself does not panic *)
  Lemma eip_verify_no_panic h e sig :
    (forall a b, recover cr a b <> Panic) -> eip_verify cr h e sig <> Panic.
  Proof.
    intros NP. unfold eip_verify.
    destruct (bytes_eqb h e); cbn [negb]; [|discriminate].
    destruct (Nat.eqb_spec (length sig) 65) as [L|L]; cbn [negb]; [|discriminate].
    unfold eip_verify_core.
    destruct (nth_error sig 64) as [v|] eqn:Hv.
    - specialize (NP h (set64 sig (v_to01 v))).
      destruct (recover cr h (set64 sig (v_to01 v))); try discriminate; [|contradiction].
      destruct (verify_rs cr a h _); discriminate.
    - apply nth_error_None in Hv. lia.
  Qed.

  Theorem verify_bid_sound b a :
    verify_bid K cr b = Ok a ->
    exists d sig, b_dig b = Some d /\ b_sig b = Some sig /\
      bid_hash K b = Ok d /\ sig_valid d sig a.
  Proof.
    unfold verify_bid, verify_bid_with. intros H.
    destruct (b_dig b) as [d|]; [|discriminate]. destruct (b_sig b) as [sig|]; [|discriminate].
    destruct (bid_hash K b) as [h| |] eqn:Hh; try discriminate.
    apply eip_verify_ok in H. destruct H as [-> HS].
    exists d, sig. split; [reflexivity|]. split; [reflexivity|]. split; [reflexivity|exact HS].
  Qed.

  Theorem verify_bid_complete b d sig a :
    b_dig b = Some d -> b_sig b = Some sig -> bid_hash K b = Ok d -> sig_valid d sig a ->
    verify_bid K cr b = Ok a.
  Proof.
    intros Hd Hs Hh HS. unfold verify_bid, verify_bid_with. rewrite Hd, Hs, Hh.
    apply eip_verify_ok. split; [reflexivity|exact HS].
  Qed.

  Theorem verify_preconf_sound c a :
    verify_preconf K cr c = Ok a ->
    exists b d sig, c_bid c = Some b /\ c_dig c = Some d /\ c_sig c = Some sig /\
      (exists a', verify_bid K cr b = Ok a') /\
      commitment_hash K c = Ok d /\ sig_valid d sig a.
  Proof.
    unfold verify_preconf. intros H.
    destruct (c_bid c) as [b|] eqn:Hb; [|discriminate].
    destruct (c_dig c) as [d|]; [|discriminate]. destruct (c_sig c) as [sig|]; [|discriminate].
    destruct (verify_bid K cr b) as [a'| |] eqn:Hv; try discriminate.
    destruct (commitment_hash K c) as [h| |] eqn:Hh; try discriminate.
    apply eip_verify_ok in H. destruct H as [-> HS].
    exists b, d, sig. split; [reflexivity|]. split; [reflexivity|]. split; [reflexivity|].
    split; [exists a'; exact Hv|]. split; [reflexivity|exact HS].
  Qed.

  Theorem verify_preconf_complete c b d sig a a' :
    c_bid c = Some b -> c_dig c = Some d -> c_sig c = Some sig ->
    verify_bid K cr b = Ok a' -> commitment_hash K c = Ok d -> sig_valid d sig a ->
    verify_preconf K cr c = Ok a.
  Proof.
    intros Hb Hd Hs Hv Hh HS. unfold verify_preconf. rewrite Hb, Hd, Hs, Hv, Hh.
    apply eip_verify_ok. split; [reflexivity|exact HS].
  Qed.

  Theorem verify_bid_iff b a :
    verify_bid K cr b = Ok a <->
    exists d sig, b_dig b = Some d /\ b_sig b = Some sig /\ bid_hash K b = Ok d /\ sig_valid d sig a.
  Proof.
    split; [apply verify_bid_sound|].
    intros (d & sig & Hd & Hs & Hh & HS). exact (verify_bid_complete b d sig a Hd Hs Hh HS).
  Qed.

  Theorem verify_preconf_iff c a :
    verify_preconf K cr c = Ok a <->
    exists b d sig, c_bid c = Some b /\ c_dig c = Some d /\ c_sig c = Some sig /\
      (exists a', verify_bid K cr b = Ok a') /\
      commitment_hash K c = Ok d /\ sig_valid d sig a.
  Proof.
    split; [apply verify_preconf_sound|].
    intros (b & d & sig & Hb & Hd & Hs & (a' & Hv) & Hh & HS).
    exact (verify_preconf_complete c b d sig a a' Hb Hd Hs Hv Hh HS).
  Qed.

  (* no hostile commitment panics the verifier (repairs c3de1fc, c47eaee) *)
  Lemma verify_bid_no_panic b :
    (forall x y, recover cr x y <> Panic) -> verify_bid K cr b <> Panic.
  Proof.
    intros NP. unfold verify_bid, verify_bid_with.
    destruct (b_dig b); [|discriminate]. destruct (b_sig b); [|discriminate].
    unfold bid_hash. destruct (parse_amount (b_amt b)); [|discriminate].
    destruct (amount_out_of_range z); [discriminate|]. apply eip_verify_no_panic, NP.
  Qed.

  Lemma verify_preconf_no_panic c :
    (forall x y, recover cr x y <> Panic) -> verify_preconf K cr c <> Panic.
  Proof.
    intros NP. unfold verify_preconf.
    destruct (c_bid c) as [b|] eqn:Hb; [|discriminate].
    destruct (c_dig c); [|discriminate]. destruct (c_sig c); [|discriminate].
    pose proof (verify_bid_no_panic b NP) as Hp.
    destruct (verify_bid K cr b); try discriminate; [|contradiction].
    unfold commitment_hash. rewrite Hb. destruct (parse_amount (b_amt b)); [|discriminate].
    destruct (amount_out_of_range z); [discriminate|]. apply eip_verify_no_panic, NP.
  Qed.

  (* --- binding ------------------------------------------------------------------------ *)
  (* the signed field VALUES: tx-hash bytes, the amount as an integer (two spellings of one
     integer are one value), the three int64 *)
  Definition same_bid_fields (b1 b2 : bid) : Prop :=
    b_tx b1 = b_tx b2 /\
    (exists A, parse_amount (b_amt b1) = Some A /\ parse_amount (b_amt b2) = Some A) /\
    b_bn b1 = b_bn b2 /\ b_ds b1 = b_ds b2 /\ b_de b1 = b_de b2.

  Definition int64_fields (b : bid) : Prop := int64 (b_bn b) /\ int64 (b_ds b) /\ int64 (b_de b).

  Lemma bid_hash_ok_parses b d : bid_hash K b = Ok d -> exists A, parse_amount (b_amt b) = Some A.
  Proof.
    unfold bid_hash. destruct (parse_amount (b_amt b)) as [A|]; [|discriminate]. eauto.
  Qed.

  Theorem bid_digest_binding b1 b2 d :
    int64_fields b1 -> int64_fields b2 ->
    bid_hash K b1 = Ok d -> bid_hash K b2 = Ok d ->
    same_bid_fields b1 b2 \/ collision_among K (bid_preimage_pairs K b1 b2).
  Proof.
    intros (I1 & I2 & I3) (I4 & I5 & I6) H1 H2.
    destruct (bid_hash_ok_parses b1 d H1) as [A1 P1].
    destruct (bid_hash_ok_parses b2 d H2) as [A2 P2].
    destruct (bid_hash_binding K b1 b2 A1 A2 d I1 I2 I3 I4 I5 I6 P1 P2 H1 H2)
      as [(Htx & HA & Hbn & Hds & Hde)|C]; [|right; exact C].
    left. subst A2. repeat split; try assumption. exists A1. split; assumption.
  Qed.

  (* two bids that both verify and present the same digest carry the same field values,
     or the two computations exhibit a collision of K *)
  Theorem verify_bid_binding b1 b2 a1 a2 :
    int64_fields b1 -> int64_fields b2 ->
    verify_bid K cr b1 = Ok a1 -> verify_bid K cr b2 = Ok a2 ->
    b_dig b1 = b_dig b2 ->
    same_bid_fields b1 b2 \/ collision_among K (bid_preimage_pairs K b1 b2).
  Proof.
    intros I1 I2 V1 V2 E.
    apply verify_bid_sound in V1. destruct V1 as (d1 & s1 & D1 & _ & H1 & _).
    apply verify_bid_sound in V2. destruct V2 as (d2 & s2 & D2 & _ & H2 & _).
    rewrite D1, D2 in E. injection E as <-.
    exact (bid_digest_binding b1 b2 d1 I1 I2 H1 H2).
  Qed.

  (* the anonymous form (implied; NOT informative at a real hash, see Eip712_proofs) *)
  Corollary verify_bid_binding_anon b1 b2 a1 a2 :
    int64_fields b1 -> int64_fields b2 ->
    verify_bid K cr b1 = Ok a1 -> verify_bid K cr b2 = Ok a2 ->
    b_dig b1 = b_dig b2 ->
    same_bid_fields b1 b2 \/ collision K.
  Proof.
    intros I1 I2 V1 V2 E. destruct (verify_bid_binding b1 b2 a1 a2 I1 I2 V1 V2 E) as [H|C];
      [left; exact H|right; exact (collision_among_collision K _ C)].
  Qed.

  (* a verifying bid presents the digest of exactly its own fields: the digest cannot be
     changed alone *)
  Theorem verify_bid_digest_determined b1 b2 a1 a2 :
    verify_bid K cr b1 = Ok a1 -> verify_bid K cr b2 = Ok a2 ->
    bid_hash K b1 = bid_hash K b2 -> b_dig b1 = b_dig b2.
  Proof.
    intros V1 V2 E.
    apply verify_bid_sound in V1. destruct V1 as (d1 & s1 & D1 & _ & H1 & _).
    apply verify_bid_sound in V2. destruct V2 as (d2 & s2 & D2 & _ & H2 & _).
    rewrite D1, D2. rewrite H1, H2 in E. congruence.
  Qed.

  Section FixedLength.
    Variable klen : nat.
    Hypothesis K_len : forall m, length (K m) = klen.

    Definition wf_bid (b : bid) : Prop := wf_bytes (obytes (b_dig b)) /\ wf_bytes (obytes (b_sig b)).

    Lemma commitment_hash_ok_parses c d :
      commitment_hash K c = Ok d -> exists b A, c_bid c = Some b /\ parse_amount (b_amt b) = Some A.
    Proof.
      unfold commitment_hash. destruct (c_bid c) as [b|]; [|discriminate].
      destruct (parse_amount (b_amt b)) as [A|] eqn:P; [|discriminate]. intros _.
      exists b, A. split; [reflexivity|exact P].
    Qed.

    Theorem commitment_digest_binding c1 c2 b1 b2 d :
      c_bid c1 = Some b1 -> c_bid c2 = Some b2 ->
      int64_fields b1 -> int64_fields b2 -> wf_bid b1 -> wf_bid b2 ->
      commitment_hash K c1 = Ok d -> commitment_hash K c2 = Ok d ->
      (same_bid_fields b1 b2 /\ obytes (b_dig b1) = obytes (b_dig b2) /\
       obytes (b_sig b1) = obytes (b_sig b2))
      \/ collision_among K (commitment_preimage_pairs K b1 b2).
    Proof.
      intros B1 B2 (I1 & I2 & I3) (I4 & I5 & I6) (W1 & W2) (W3 & W4) H1 H2.
      destruct (commitment_hash_ok_parses c1 d H1) as (b1' & A1 & B1' & P1).
      destruct (commitment_hash_ok_parses c2 d H2) as (b2' & A2 & B2' & P2).
      rewrite B1 in B1'. injection B1' as <-. rewrite B2 in B2'. injection B2' as <-.
      destruct (commitment_hash_binding K klen K_len c1 c2 b1 b2 A1 A2 d B1 B2 I1 I2 I3 I4 I5 I6
                  W1 W2 W3 W4 P1 P2 H1 H2)
        as [(Htx & HA & Hbn & Hds & Hde & Hd & Hs)|C]; [|right; exact C].
      left. subst A2. repeat split; try assumption. exists A1. split; assumption.
    Qed.

    Theorem verify_preconf_binding c1 c2 b1 b2 a1 a2 :
      c_bid c1 = Some b1 -> c_bid c2 = Some b2 ->
      int64_fields b1 -> int64_fields b2 -> wf_bid b1 -> wf_bid b2 ->
      verify_preconf K cr c1 = Ok a1 -> verify_preconf K cr c2 = Ok a2 ->
      c_dig c1 = c_dig c2 ->
      (same_bid_fields b1 b2 /\ obytes (b_dig b1) = obytes (b_dig b2) /\
       obytes (b_sig b1) = obytes (b_sig b2))
      \/ collision_among K (commitment_preimage_pairs K b1 b2).
    Proof.
      intros B1 B2 I1 I2 W1 W2 V1 V2 E.
      apply verify_preconf_sound in V1. destruct V1 as (b1' & d1 & s1 & _ & D1 & _ & _ & H1 & _).
      apply verify_preconf_sound in V2. destruct V2 as (b2' & d2 & s2 & _ & D2 & _ & _ & H2 & _).
      rewrite D1, D2 in E. injection E as <-.
      exact (commitment_digest_binding c1 c2 b1 b2 d1 B1 B2 I1 I2 W1 W2 H1 H2).
    Qed.
    Corollary verify_preconf_binding_anon c1 c2 b1 b2 a1 a2 :
      c_bid c1 = Some b1 -> c_bid c2 = Some b2 ->
      int64_fields b1 -> int64_fields b2 -> wf_bid b1 -> wf_bid b2 ->
      verify_preconf K cr c1 = Ok a1 -> verify_preconf K cr c2 = Ok a2 ->
      c_dig c1 = c_dig c2 ->
      (same_bid_fields b1 b2 /\ obytes (b_dig b1) = obytes (b_dig b2) /\
       obytes (b_sig b1) = obytes (b_sig b2))
      \/ collision K.
    Proof.
      intros B1 B2 I1 I2 W1 W2 V1 V2 E.
      destruct (verify_preconf_binding c1 c2 b1 b2 a1 a2 B1 B2 I1 I2 W1 W2 V1 V2 E) as [H|C];
        [left; exact H|right; exact (collision_among_collision K _ C)].
    Qed.
  End FixedLength.

  (* --- shape of emitted signatures (C03_v) ------------------------------------------------ *)
  Definition signer_shape : Prop :=
    forall h sg, sign cr h = Ok sg ->
      length sg = 65%nat /\ exists v, nth_error sg 64 = Some v /\ (v = 0 \/ v = 1 \/ v = 27 \/ v = 28).

  Definition shape_2728 (sig : bytes) : Prop :=
    length sig = 65%nat /\ (nth_error sig 64 = Some 27 \/ nth_error sig 64 = Some 28).

  Lemma sign_normalised_shape h sig :
    signer_shape -> sign_normalised cr h = Ok sig ->
    shape_2728 sig /\ exists sg, sign cr h = Ok sg /\ firstn 64 sig = firstn 64 sg.
  Proof.
    intros SH H. unfold sign_normalised in H.
    destruct (sign cr h) as [sg| |] eqn:S; try discriminate.
    destruct (SH h sg S) as (L & v & Hv & Hshape). rewrite Hv in H. injection H as <-.
    destruct (sig65_split sg v L Hv) as (l1 & -> & H1).
    rewrite (set64_split l1 [] v _ H1).
    split; [split|].
    - rewrite app_length. cbn [length]. lia.
    - rewrite (nth_error_64_app l1 [] _ H1).
      destruct (v_to2728_shape v Hshape) as [-> | ->]; auto.
    - eexists. split; [reflexivity|]. rewrite !(firstn64_app l1 _ H1). reflexivity.
  Qed.

  Theorem construct_bid_shape tx amt bn ds de b :
    signer_shape -> construct_bid K cr tx amt bn ds de = Ok b ->
    b_tx b = tx /\ b_amt b = amt /\ b_bn b = bn /\ b_ds b = ds /\ b_de b = de /\
    exists d sig sg, b_dig b = Some d /\ bid_hash K b = Ok d /\ b_sig b = Some sig /\
      sign_normalised cr d = Ok sig /\ sign cr d = Ok sg /\ firstn 64 sig = firstn 64 sg /\
      shape_2728 sig.
  Proof.
    intros SH H. unfold construct_bid in H.
    destruct (_ || _ || _); [discriminate|].
    set (b0 := {| b_tx := tx; b_amt := amt; b_bn := bn; b_ds := ds; b_de := de;
                  b_dig := None; b_sig := None |}) in *.
    destruct (bid_hash K b0) as [d| |] eqn:Hh; try discriminate.
    destruct (sign_normalised cr d) as [sig| |] eqn:Hs; try discriminate.
    injection H as <-. cbn [b_tx b_amt b_bn b_ds b_de b_dig b_sig].
    do 5 (split; [reflexivity|]).
    destruct (sign_normalised_shape d sig SH Hs) as (Hshape & sg & Hsg & Hrs).
    exists d, sig, sg. split; [reflexivity|]. split; [exact Hh|]. split; [reflexivity|].
    split; [exact Hs|]. split; [exact Hsg|]. split; [exact Hrs|exact Hshape].
  Qed.

  Theorem construct_preconf_shape ob c :
    signer_shape -> construct_preconf K cr ob = Ok c ->
    exists b d sig sg, ob = Some b /\ c_bid c = Some b /\ c_dig c = Some d /\
      commitment_hash K c = Ok d /\ c_sig c = Some sig /\
      sign_normalised cr d = Ok sig /\ sign cr d = Ok sg /\ firstn 64 sig = firstn 64 sg /\
      shape_2728 sig.
  Proof.
    intros SH H. unfold construct_preconf in H.
    destruct ob as [b|]; [|discriminate].
    destruct (verify_bid K cr b); try discriminate.
    set (c0 := {| c_bid := Some b; c_dig := None; c_sig := None; c_prov := [] |}) in *.
    destruct (commitment_hash K c0) as [d| |] eqn:Hh; try discriminate.
    destruct (sign_normalised cr d) as [sig| |] eqn:Hs; try discriminate.
    injection H as <-. cbn [c_bid c_dig c_sig].
    destruct (sign_normalised_shape d sig SH Hs) as (Hshape & sg & Hsg & Hrs).
    exists b, d, sig, sg. split; [reflexivity|]. split; [reflexivity|]. split; [reflexivity|].
    split; [exact Hh|]. split; [reflexivity|].
    split; [exact Hs|]. split; [exact Hsg|]. split; [exact Hrs|exact Hshape].
  Qed.

  (* the property sentence in one statement: for a bid in the uint64 domain the node stores,
     and hands to its key signer, exactly the EIP-712 hash of the typed-data message *)
  Theorem construct_bid_signs_eip712 tx amt bn ds de b A :
    signer_shape -> construct_bid K cr tx amt bn ds de = Ok b ->
    parse_amount amt = Some A -> u64 A -> u63 bn -> u63 ds -> u63 de ->
    let d := eip712_bid K tx (Z.to_N A) (Z.to_N bn) (Z.to_N ds) (Z.to_N de) in
    b_dig b = Some d /\
    exists sig sg, b_sig b = Some sig /\ sign cr d = Ok sg /\ sign_normalised cr d = Ok sig /\
      firstn 64 sig = firstn 64 sg /\ shape_2728 sig.
  Proof.
    intros SH H P HA Hbn Hds Hde d.
    destruct (construct_bid_shape tx amt bn ds de b SH H)
      as (E1 & E2 & E3 & E4 & E5 & d' & sig & sg & Hd & Hh & Hs & Hn & Hsg & Hrs & Hshape).
    assert (d' = d) as ->.
    { destruct (bid_hash_is_eip712 K b A) as [Hb _];
        try (rewrite ?E2, ?E3, ?E4, ?E5; assumption).
      rewrite Hb in Hh. rewrite E1, E3, E4, E5 in Hh. injection Hh as <-. reflexivity. }
    split; [exact Hd|]. exists sig, sg.
    split; [exact Hs|]. split; [exact Hsg|]. split; [exact Hn|]. split; [exact Hrs|exact Hshape].
  Qed.

  Theorem construct_preconf_signs_eip712 b c A :
    signer_shape -> construct_preconf K cr (Some b) = Ok c ->
    parse_amount (b_amt b) = Some A -> u64 A -> u63 (b_bn b) -> u63 (b_ds b) -> u63 (b_de b) ->
    let d := eip712_commitment K (b_tx b) (Z.to_N A) (Z.to_N (b_bn b)) (Z.to_N (b_ds b)) (Z.to_N (b_de b))
                               (obytes (b_dig b)) (obytes (b_sig b)) in
    c_bid c = Some b /\ c_dig c = Some d /\
    exists sig sg, c_sig c = Some sig /\ sign cr d = Ok sg /\ sign_normalised cr d = Ok sig /\
      firstn 64 sig = firstn 64 sg /\ shape_2728 sig.
  Proof.
    intros SH H P HA Hbn Hds Hde d.
    destruct (construct_preconf_shape (Some b) c SH H)
      as (b' & d' & sig & sg & Eb & Hb & Hd & Hh & Hs & Hn & Hsg & Hrs & Hshape).
    injection Eb as <-.
    assert (d' = d) as ->.
    { destruct (commitment_hash_is_eip712 K c b A Hb P HA Hbn Hds Hde) as [Hc _].
      rewrite Hc in Hh. injection Hh as <-. reflexivity. }
    split; [exact Hb|]. split; [exact Hd|]. exists sig, sg.
    split; [exact Hs|]. split; [exact Hsg|]. split; [exact Hn|]. split; [exact Hrs|exact Hshape].
  Qed.

  (* --- round trip of the node's own messages ------------------------------------------------ *)
  Section Roundtrip.
    Variable pk : bytes.                          (* the node's public key *)
    (* the signing library answers r||s||v with v in {0,1}; recovering from the hash and that
       answer gives the node's key, and r||s passes the low-S check *)
    Hypothesis recover_sign : forall h sg, sign cr h = Ok sg ->
      length sg = 65%nat /\
      (nth_error sg 64 = Some 0 \/ nth_error sg 64 = Some 1) /\
      recover cr h sg = Ok pk /\ verify_rs cr pk h (firstn 64 sg) = true.

    Lemma sign_normalised_valid h sig :
      sign_normalised cr h = Ok sig -> sig_valid h sig (addr_of cr pk).
    Proof.
      intros H. unfold sign_normalised in H.
      destruct (sign cr h) as [sg| |] eqn:S; try discriminate.
      destruct (recover_sign h sg S) as (L & Hv & R & V).
      assert (exists v, nth_error sg 64 = Some v /\ (v = 0 \/ v = 1)) as (v & Hv' & Hv01)
        by (destruct Hv as [Hv|Hv]; eauto).
      rewrite Hv' in H. injection H as <-.
      destruct (sig65_split sg v L Hv') as (l1 & -> & H1).
      rewrite (set64_split l1 [] v _ H1). rewrite (firstn64_app l1 _ H1) in V.
      split; [rewrite app_length; cbn [length]; lia|].
      exists (v_to2728 v), pk. rewrite (nth_error_64_app l1 [] _ H1), (firstn64_app l1 _ H1).
      rewrite (v_to01_2728 v Hv01). repeat split; assumption.
    Qed.

    Theorem construct_bid_verifies tx amt bn ds de b :
      construct_bid K cr tx amt bn ds de = Ok b -> verify_bid K cr b = Ok (addr_of cr pk).
    Proof.
      intros H. unfold construct_bid in H.
      destruct (_ || _ || _); [discriminate|].
      set (b0 := {| b_tx := tx; b_amt := amt; b_bn := bn; b_ds := ds; b_de := de;
                    b_dig := None; b_sig := None |}) in *.
      destruct (bid_hash K b0) as [d| |] eqn:Hh; try discriminate.
      destruct (sign_normalised cr d) as [sig| |] eqn:Hs; try discriminate.
      injection H as <-.
      eapply verify_bid_complete; try reflexivity.
      - exact Hh.
      - apply sign_normalised_valid, Hs.
    Qed.

    Theorem construct_preconf_verifies ob c :
      construct_preconf K cr ob = Ok c -> verify_preconf K cr c = Ok (addr_of cr pk).
    Proof.
      intros H. unfold construct_preconf in H.
      destruct ob as [b|]; [|discriminate].
      destruct (verify_bid K cr b) as [a'| |] eqn:Hv; try discriminate.
      set (c0 := {| c_bid := Some b; c_dig := None; c_sig := None; c_prov := [] |}) in *.
      destruct (commitment_hash K c0) as [d| |] eqn:Hh; try discriminate.
      destruct (sign_normalised cr d) as [sig| |] eqn:Hs; try discriminate.
      injection H as <-.
      eapply verify_preconf_complete; try reflexivity.
      - exact Hv.
      - exact Hh.
      - apply sign_normalised_valid, Hs.
    Qed.
  End Roundtrip.
End Sound.

(* --- sessions: the n-th verdict depends on the n-th message only ------------------------------- *)
Theorem session_stateless K cr (pre1 post1 pre2 post2 : list sig_call) (c : sig_call) :
  nth_error (sig_session K cr (pre1 ++ c :: post1)) (length pre1) = Some (sig_verdict K cr c) /\
  nth_error (sig_session K cr (pre1 ++ c :: post1)) (length pre1) =
  nth_error (sig_session K cr (pre2 ++ c :: post2)) (length pre2).
Proof.
  assert (H : forall pre post, nth_error (sig_session K cr (pre ++ c :: post)) (length pre) = Some (sig_verdict K cr c)).
  { intros pre post. unfold sig_session. rewrite map_app. cbn [map].
    rewrite nth_error_app2 by (rewrite map_length; lia).
    rewrite map_length, Nat.sub_diag. reflexivity. }
  split; [apply H|]. rewrite !H. reflexivity.
Qed.

(* in particular a forged bid is refused however often the genuine one was verified before *)
Corollary session_forgery_refused K cr (genuine forged : bid) (n : nat) e :
  verify_bid K cr forged = Err e ->
  nth_error (sig_session K cr (repeat (VBid genuine) n ++ [VBid forged])) n = Some (Err e).
Proof.
  intros H. pose proof (session_stateless K cr (repeat (VBid genuine) n) [] [] [] (VBid forged)) as [E _].
  rewrite repeat_length in E. rewrite E. cbn [sig_verdict]. rewrite H. reflexivity.
Qed.

(* --- non-vacuity: the premises on the crypto oracle are satisfiable ---------------------------- *)
Definition toy_crypto : crypto :=
  {| recover := fun _ _ => Ok [4];
     verify_rs := fun _ _ _ => true;
     addr_of := fun p => p;
     sign := fun _ => Ok (repeat 7 64 ++ [1]) |}.

Lemma toy_recover_sign : forall h sg, sign toy_crypto h = Ok sg ->
  length sg = 65%nat /\ (nth_error sg 64 = Some 0 \/ nth_error sg 64 = Some 1) /\
  recover toy_crypto h sg = Ok [4] /\ verify_rs toy_crypto [4] h (firstn 64 sg) = true.
Proof. intros h sg H. injection H as <-. repeat split. right. reflexivity. Qed.

Lemma toy_signer_shape : signer_shape toy_crypto.
Proof.
  intros h sg H. injection H as <-. split; [reflexivity|]. exists 1. split; [reflexivity|]. auto.
Qed.

(* with any K, the toy oracle signs and verifies the example bid and its commitment *)
Example toy_roundtrip (K : bytes -> bytes) :
  exists b c, construct_bid K toy_crypto (bos "0xkartik") (bos "5") 2 10 20 = Ok b /\
              verify_bid K toy_crypto b = Ok [4] /\
              construct_preconf K toy_crypto (Some b) = Ok c /\
              verify_preconf K toy_crypto c = Ok [4].
Proof.
  destruct (construct_bid K toy_crypto (bos "0xkartik") (bos "5") 2 10 20) as [b| |] eqn:E.
  2,3: (unfold construct_bid, bid_hash in E; cbn in E; discriminate).
  pose proof (construct_bid_verifies K toy_crypto [4] toy_recover_sign _ _ _ _ _ b E) as V.
  cbn [addr_of toy_crypto] in V.
  destruct (construct_preconf K toy_crypto (Some b)) as [c| |] eqn:E2.
  - exists b, c. repeat split; try assumption.
    apply (construct_preconf_verifies K toy_crypto [4] toy_recover_sign _ c E2).
  - exfalso. unfold construct_preconf in E2. rewrite V in E2.
    unfold commitment_hash in E2. cbn [c_bid] in E2.
    apply verify_bid_sound in V. destruct V as (d & s & _ & _ & Hh & _).
    unfold bid_hash in Hh. destruct (parse_amount (b_amt b)) as [A|]; [|discriminate].
    destruct (amount_out_of_range A); [discriminate|]. cbn in E2. discriminate.
  - exfalso. unfold construct_preconf in E2. rewrite V in E2.
    unfold commitment_hash in E2. cbn [c_bid] in E2.
    apply verify_bid_sound in V. destruct V as (d & s & _ & _ & Hh & _).
    unfold bid_hash in Hh. destruct (parse_amount (b_amt b)) as [A|]; [|discriminate].
    destruct (amount_out_of_range A); [discriminate|]. cbn in E2. discriminate.
Qed.

(* the one-length premise of the commitment binding holds for the executable Keccak-256 *)
Example binding_commitment_keccak (cr : crypto) :=
  verify_preconf_binding keccak256 cr 32%nat keccak256_length.

(* --- the snapshot code did not bind the amount (regression lemma for 7ab670a) ----------------- *)
Definition with_ds (b : bid) (d s : bytes) : bid :=
  {| b_tx := b_tx b; b_amt := b_amt b; b_bn := b_bn b; b_ds := b_ds b; b_de := b_de b;
     b_dig := Some d; b_sig := Some s |}.

Lemma bid_hash_v0_with_ds K b d s : bid_hash_v0 K (with_ds b d s) = bid_hash_v0 K b.
Proof. reflexivity. Qed.
Lemma bid_hash_with_ds K b d s : bid_hash K (with_ds b d s) = bid_hash K b.
Proof. reflexivity. Qed.

(* amounts 5 and 2^256+5 (and 5-2^256): for every hash function, every crypto library and
   every digest/signature pair the pre-fix verifier gave one and the same answer to the
   three bids -- so a signature made for amount 5 was accepted for the other two *)
Theorem verify_bid_v0_amount_refuted :
  exists b1 b2 b3 A1 A2 A3,
    parse_amount (b_amt b1) = Some A1 /\ parse_amount (b_amt b2) = Some A2 /\
    parse_amount (b_amt b3) = Some A3 /\ A1 <> A2 /\ A1 <> A3 /\
    (forall K cr d s,
       verify_bid_v0amt K cr (with_ds b2 d s) = verify_bid_v0amt K cr (with_ds b1 d s) /\
       verify_bid_v0amt K cr (with_ds b3 d s) = verify_bid_v0amt K cr (with_ds b1 d s)) /\
    (forall K, exists d s a, verify_bid_v0amt K toy_crypto (with_ds b1 d s) = Ok a).
Proof.
  exists refute_b1, refute_b2, refute_b3, 5%Z, (two256 + 5)%Z, (5 - two256)%Z.
  destruct refute_amounts as (P1 & P2 & P3).
  split; [exact P1|]. split; [exact P2|]. split; [exact P3|].
  split; [vm_compute; discriminate|]. split; [vm_compute; discriminate|].
  split.
  - intros K cr d s.
    destruct (bid_hash_v0_amount_refuted K) as (E2 & E3 & _).
    unfold verify_bid_v0amt, verify_bid_with. cbn [b_dig b_sig with_ds].
    change (bid_hash_v0 K (with_ds refute_b1 d s)) with (bid_hash_v0 K refute_b1).
    change (bid_hash_v0 K (with_ds refute_b2 d s)) with (bid_hash_v0 K refute_b2).
    change (bid_hash_v0 K (with_ds refute_b3 d s)) with (bid_hash_v0 K refute_b3).
    rewrite <- E2, <- E3. split; reflexivity.
  - intros K. destruct (bid_hash_v0_amount_refuted K) as (_ & _ & d & Hd).
    exists d, (repeat 7 64 ++ [28]), [4].
    unfold verify_bid_v0amt, verify_bid_with. cbn [b_dig b_sig with_ds].
    change (bid_hash_v0 K (with_ds refute_b1 d (repeat 7 64 ++ [28]))) with (bid_hash_v0 K refute_b1).
    rewrite Hd.
    apply eip_verify_ok. split; [reflexivity|]. split; [reflexivity|].
    exists 28, [4]. repeat split.
Qed.

(* the repaired verifier refuses the two aliases whatever the digest and signature are *)
Theorem verify_bid_amount_aliases_refused K cr d s :
  verify_bid K cr (with_ds refute_b2 d s) = Err E_AMOUNT /\
  verify_bid K cr (with_ds refute_b3 d s) = Err E_AMOUNT.
Proof.
  destruct (bid_hash_amount_aliases_refused K) as (E2 & E3 & _).
  unfold verify_bid, verify_bid_with. cbn [b_dig b_sig with_ds].
  rewrite !bid_hash_with_ds, E2, E3. split; reflexivity.
Qed.

(* the snapshot verifier crashed on short signatures and on commitments without a bid
   (regression lemmas for c3de1fc and c47eaee) *)
Lemma eip_verify_v0_short_panics cr h sig :
  (length sig <= 64)%nat -> eip_verify_v0 cr h h sig = Panic.
Proof.
  intros L. unfold eip_verify_v0, eip_verify_core. rewrite bytes_eqb_refl. cbn [negb].
  destruct (nth_error sig 64) eqn:E; [|reflexivity].
  assert (nth_error sig 64 <> None) as H by congruence. apply nth_error_Some in H. lia.
Qed.

Lemma verify_preconf_v0_nil_bid_panics K cr d s :
  verify_preconf_v0 K cr {| c_bid := None; c_dig := Some d; c_sig := Some s; c_prov := [] |} = Panic.
Proof. reflexivity. Qed.

(* ------------------------------------------------------------------------------------------- *)
(* Signature malleation in an abstract group of odd prime order n, written additively with
   points represented by their discrete logarithms modulo n (generator = 1).  A signature on
   hash z is (r, s, bit); the point R with abscissa r and parity bit has logarithm k, the
   other point with the same abscissa is -R (logarithm -k): flipping the bit negates R.
   Recovery computes Q = r^-1 (s R - z G).  Facts: flipping the bit changes the recovered
   key; (r, n-s, flipped bit) recovers the same key but is not low-S; (r, n-s, same bit)
   recovers a different key. *)
Section Malleation.
  Open Scope Z_scope.
  Variable n : Z.
  Hypothesis n_prime : prime n.
  Hypothesis n_odd : n mod 2 = 1.

  Variables r rinv s k z : Z.
  Hypothesis r_inv : (r * rinv) mod n = 1.
  Hypothesis s_range : 0 < s < n.
  Hypothesis k_range : 0 < k < n.

  (* logarithm of the recovered key from the point logarithm kk and the scalar ss *)
  Definition recovered (ss kk : Z) : Z := (rinv * (ss * kk - z)) mod n.

  Definition low_s (ss : Z) : Prop := 2 * ss <= n.      (* s <= n/2 *)

  Lemma n_gt_2 : 2 < n.
  Proof using n_prime n_odd. clear - n_prime n_odd.
    destruct n_prime as [H1 _].
    assert (n <> 2) by (intros ->; cbn in n_odd; discriminate). lia.
  Qed.

  Lemma not_div_small a : 0 < a < n -> ~ (n | a).
  Proof using Type. clear r_inv s_range k_range n_prime n_odd. intros Ha [q Hq]. assert (0 < q) by nia. nia. Qed.

  Lemma two_s_k_nonzero : ~ (n | 2 * (s * k)).
  Proof using n_prime n_odd s_range k_range. clear - n_prime n_odd s_range k_range.
    intros H. pose proof n_gt_2 as G.
    apply prime_mult in H; [|exact n_prime]. destruct H as [H|H].
    - apply (not_div_small 2); [lia|exact H].
    - apply prime_mult in H; [|exact n_prime]. destruct H as [H|H].
      + apply (not_div_small s s_range H).
      + apply (not_div_small k k_range H).
  Qed.

  (* multiplying a recovered key by r undoes rinv *)
  Lemma recovered_times_r ss kk : (r * recovered ss kk) mod n = (ss * kk - z) mod n.
  Proof using n_prime n_odd r_inv. clear - n_prime n_odd r_inv.
    unfold recovered. pose proof n_gt_2.
    rewrite Z.mul_mod_idemp_r by lia.
    rewrite Z.mul_assoc, <- Z.mul_mod_idemp_l by lia. rewrite r_inv, Z.mul_1_l. reflexivity.
  Qed.

  Lemma recovered_eq_inv s1 k1 s2 k2 :
    recovered s1 k1 = recovered s2 k2 -> (n | (s1 * k1 - s2 * k2)).
  Proof using n_prime n_odd r_inv. clear - n_prime n_odd r_inv.
    intros H. pose proof n_gt_2.
    assert (E : (s1 * k1 - z) mod n = (s2 * k2 - z) mod n)
      by (rewrite <- !recovered_times_r, H; reflexivity).
    apply Z.mod_divide; [lia|].
    replace (s1 * k1 - s2 * k2) with ((s1 * k1 - z) - (s2 * k2 - z)) by ring.
    rewrite Zminus_mod, E, Z.sub_diag. apply Z.mod_0_l. lia.
  Qed.

  (* flipping the recovery bit (R -> -R) changes the recovered key *)
  Theorem flip_bit_changes_key : recovered s (- k) <> recovered s k.
  Proof using n_prime n_odd r_inv s_range k_range. clear - n_prime n_odd r_inv s_range k_range.
    intros H. apply recovered_eq_inv in H. apply two_s_k_nonzero.
    destruct H as [q Hq]. exists (- q). lia.
  Qed.

  (* s -> n - s with the bit flipped recovers the same key ... *)
  Theorem malleated_same_key : recovered (n - s) (- k) = recovered s k.
  Proof using n_prime n_odd. clear - n_prime n_odd.
    unfold recovered. pose proof n_gt_2.
    replace (rinv * ((n - s) * - k - z)) with (rinv * (s * k - z) + (- (rinv * k)) * n) by ring.
    apply Z.mod_add. lia.
  Qed.

  (* ... but is refused by the low-S rule whenever the original passed it *)
  Theorem malleated_not_low_s : low_s s -> ~ low_s (n - s).
  Proof using n_odd. clear - n_odd.
    unfold low_s. intros H H'.
    assert (2 * s = n) by lia.
    assert (n mod 2 = 0) by (subst n; rewrite Z.mul_comm; apply Z.mod_mul; lia). lia.
  Qed.

  (* s -> n - s with the same bit recovers a different key *)
  Theorem malleated_same_bit_changes_key : recovered (n - s) k <> recovered s k.
  Proof using n_prime n_odd r_inv s_range k_range. clear - n_prime n_odd r_inv s_range k_range.
    intros H. apply recovered_eq_inv in H. apply two_s_k_nonzero.
    destruct H as [q Hq]. exists (k - q). lia.
  Qed.
End Malleation.

Theorem malleation_all : forall n : Z, prime n -> (n mod 2 = 1)%Z ->
  forall r rinv s k z : Z, ((r * rinv) mod n = 1)%Z -> (0 < s < n)%Z -> (0 < k < n)%Z ->
  recovered n rinv z s (- k) <> recovered n rinv z s k /\
  recovered n rinv z (n - s) (- k) = recovered n rinv z s k /\
  (low_s n s -> ~ low_s n (n - s)) /\
  recovered n rinv z (n - s) k <> recovered n rinv z s k.
Proof.
  intros n Hp Ho r rinv s k z Hr Hs Hk.
  exact (conj (flip_bit_changes_key n Hp Ho r rinv s k z Hr Hs Hk)
        (conj (malleated_same_key n Hp Ho rinv s k z)
        (conj (malleated_not_low_s n Ho s)
              (malleated_same_bit_changes_key n Hp Ho r rinv s k z Hr Hs Hk)))).
Qed.

(* non-vacuity of the malleation section: n = 7, r = 3 (inverse 5), s = 2, k = 4, z = 6 *)
Lemma prime_7 : prime 7.
Proof.
  apply prime_intro; [lia|]. intros m Hm.
  assert (m = 1 \/ m = 2 \/ m = 3 \/ m = 4 \/ m = 5 \/ m = 6)%Z as Hc by lia.
  destruct Hc as [->|[->|[->|[->|[->| ->]]]]]; apply Zgcd_1_rel_prime; reflexivity.
Qed.
Example malleation_instance :
  recovered 7 5 6 2 (-4) <> recovered 7 5 6 2 4 /\ recovered 7 5 6 (7 - 2) (-4) = recovered 7 5 6 2 4.
Proof.
  split.
  - apply (flip_bit_changes_key 7 prime_7 eq_refl 3 5 2 4 6 eq_refl); lia.
  - apply (malleated_same_key 7 prime_7 eq_refl 5 2 4 6).
Qed.

(* two more perturbations in the same abstract group: another digest (as a scalar modulo n), or
   another s, with everything else kept, recovers another key *)
Lemma digest_changes_key n (Hp : prime n) (Ho : (n mod 2 = 1)%Z) r rinv z1 z2 s k :
  ((r * rinv) mod n = 1)%Z ->
  recovered n rinv z1 s k = recovered n rinv z2 s k -> (z1 mod n = z2 mod n)%Z.
Proof.
  intros Hr H. pose proof (n_gt_2 n Hp Ho) as G.
  pose proof (recovered_times_r n Hp Ho r rinv z1 Hr s k) as E1.
  pose proof (recovered_times_r n Hp Ho r rinv z2 Hr s k) as E2.
  rewrite H in E1. rewrite E1 in E2.
  assert (D : ((z1 - z2) mod n = 0)%Z).
  { replace (z1 - z2)%Z with ((s * k - z2) - (s * k - z1))%Z by ring.
    rewrite Zminus_mod, E2, Z.sub_diag. apply Z.mod_0_l. lia. }
  apply Z.mod_divide in D; [|lia]. destruct D as [q Hq].
  replace z1 with (z2 + q * n)%Z by lia. apply Z.mod_add. lia.
Qed.

Lemma s_changes_key n (Hp : prime n) (Ho : (n mod 2 = 1)%Z) r rinv z s1 s2 k :
  ((r * rinv) mod n = 1)%Z -> (0 < k < n)%Z ->
  recovered n rinv z s1 k = recovered n rinv z s2 k -> (s1 mod n = s2 mod n)%Z.
Proof.
  intros Hr Hk H. pose proof (n_gt_2 n Hp Ho) as G.
  pose proof (recovered_eq_inv n Hp Ho r rinv z Hr s1 k s2 k H) as D.
  replace (s1 * k - s2 * k)%Z with ((s1 - s2) * k)%Z in D by ring.
  apply prime_mult in D; [|exact Hp]. destruct D as [D|D].
  - destruct D as [q Hq]. replace s1 with (s2 + q * n)%Z by lia. apply Z.mod_add. lia.
  - exfalso. exact (not_div_small n k Hk D).
Qed.

(* ------------------------------------------------------------------------------------------- *)
(* Spelling aliases (the documented reading of "field value"): these changes of BYTES of a
   valid message are NOT changes of a signed value and verify to the same address. *)
Definition with_amt (b : bid) (amt : bytes) : bid :=
  {| b_tx := b_tx b; b_amt := amt; b_bn := b_bn b; b_ds := b_ds b; b_de := b_de b;
     b_dig := b_dig b; b_sig := b_sig b |}.
Definition with_sig (b : bid) (s : bytes) : bid :=
  {| b_tx := b_tx b; b_amt := b_amt b; b_bn := b_bn b; b_ds := b_ds b; b_de := b_de b;
     b_dig := b_dig b; b_sig := Some s |}.

Section Aliases.
  Variable K : bytes -> bytes.
  Variable cr : crypto.

  (* any two spellings of one integer ("5", "05", "+5"; "0", "-0") *)
  Theorem amount_spelling_alias b amt' :
    parse_amount amt' = parse_amount (b_amt b) ->
    verify_bid K cr (with_amt b amt') = verify_bid K cr b.
  Proof.
    intros P. unfold verify_bid, verify_bid_with. cbn [b_dig b_sig with_amt].
    assert (E : bid_hash K (with_amt b amt') = bid_hash K b).
    { unfold bid_hash. cbn [b_amt with_amt]. rewrite P. reflexivity. }
    rewrite E. reflexivity.
  Qed.

  (* the recovery byte: 27 and 0 are one bit, 28 and 1 are one bit *)
  Theorem v_spelling_alias b rs v :
    length rs = 64%nat -> (v = 0 \/ v = 1) ->
    verify_bid K cr (with_sig b (rs ++ [v + 27])) = verify_bid K cr (with_sig b (rs ++ [v])).
  Proof.
    intros L Hv. unfold verify_bid, verify_bid_with. cbn [b_dig b_sig with_sig].
    destruct (b_dig b) as [d|]; [|reflexivity].
    change (bid_hash K (with_sig b (rs ++ [v + 27]))) with (bid_hash K b).
    change (bid_hash K (with_sig b (rs ++ [v]))) with (bid_hash K b).
    destruct (bid_hash K b) as [h| |]; try reflexivity.
    unfold eip_verify. destruct (bytes_eqb h d); cbn [negb]; [|reflexivity].
    rewrite !app_length, L. cbn [length Nat.add Nat.eqb negb].
    unfold eip_verify_core. rewrite !(nth_error_64_app rs [] _ L), !(set64_split rs [] _ _ L).
    assert (E : v_to01 (v + 27) = v_to01 v) by (destruct Hv as [-> | ->]; reflexivity).
    rewrite E. reflexivity.
  Qed.
End Aliases.

Example amount_alias_instance (K : bytes -> bytes) (cr : crypto) (d s : bytes) :
  bos "5" <> bos "05" /\ bos "5" <> bos "+5" /\
  verify_bid K cr (with_amt (with_ds refute_b1 d s) (bos "05")) = verify_bid K cr (with_ds refute_b1 d s) /\
  verify_bid K cr (with_amt (with_ds refute_b1 d s) (bos "+5")) = verify_bid K cr (with_ds refute_b1 d s).
Proof.
  split; [vm_compute; discriminate|]. split; [vm_compute; discriminate|].
  split; apply amount_spelling_alias; reflexivity.
Qed.

(* ------------------------------------------------------------------------------------------- *)
(* Signature and digest perturbations at the level of verify_bid, for ANY crypto record obeying
   three laws (proved below for the crypto record of the abstract group). *)
Section SigLaws.
  Variable K : bytes -> bytes.
  Variable cr : crypto.
  Variable neg_s : bytes -> bytes.          (* r||s  |->  r||(n-s) *)
  Variable zn : bytes -> Z.                 (* a digest as a scalar of the group *)

  Hypothesis law_flip : forall h rs pk pk', length rs = 64%nat ->
    recover cr h (rs ++ [0]) = Ok pk -> recover cr h (rs ++ [1]) = Ok pk' -> pk <> pk'.
  Hypothesis law_low_s : forall pk pk' h rs, length rs = 64%nat ->
    verify_rs cr pk h rs = true -> verify_rs cr pk' h (neg_s rs) = false.
  Hypothesis law_digest : forall d d' sig pk pk', zn d <> zn d' ->
    recover cr d sig = Ok pk -> recover cr d' sig = Ok pk' -> pk <> pk'.
  (* outside the proofs (truncated hash of the key): distinct keys have distinct addresses *)
  Hypothesis addr_inj : forall p q, addr_of cr p = addr_of cr q -> p = q.

  Lemma sig_valid_split h sig a :
    sig_valid cr h sig a -> exists rs v pk, sig = rs ++ [v] /\ length rs = 64%nat /\
      recover cr h (rs ++ [v_to01 v]) = Ok pk /\ verify_rs cr pk h rs = true /\ a = addr_of cr pk.
  Proof.
    intros (L & v & pk & Hv & R & V & ->).
    destruct (sig65_split sig v L Hv) as (l1 & -> & H1).
    rewrite (firstn64_app l1 _ H1) in R, V. exists l1, v, pk. repeat split; assumption.
  Qed.

  Lemma verify_with_sig b s a :
    verify_bid K cr (with_sig b s) = Ok a ->
    exists d, b_dig b = Some d /\ bid_hash K b = Ok d /\ sig_valid cr d s a.
  Proof.
    intros H. apply verify_bid_sound in H. destruct H as (d & s' & Hd & Hs & Hh & HS).
    cbn [b_sig with_sig] in Hs. injection Hs as <-. exists d.
    split; [exact Hd|]. split; [exact Hh|exact HS].
  Qed.

  (* (i) the recovery bit: a valid bid with the other bit is refused or names another address *)
  Theorem flipped_bit_not_same_address b rs v v' a a' :
    length rs = 64%nat -> v_to01 v = 0 -> v_to01 v' = 1 ->
    verify_bid K cr (with_sig b (rs ++ [v])) = Ok a ->
    verify_bid K cr (with_sig b (rs ++ [v'])) = Ok a' -> a' <> a.
  Proof.
    intros L E0 E1 V V'.
    apply verify_with_sig in V. destruct V as (d & Hd & Hh & HS).
    apply verify_with_sig in V'. destruct V' as (d' & Hd' & Hh' & HS').
    rewrite Hd in Hd'. injection Hd' as <-.
    apply sig_valid_split in HS. destruct HS as (rs1 & v1 & pk & E & L1 & R & _ & ->).
    apply sig_valid_split in HS'. destruct HS' as (rs2 & v2 & pk' & E' & L2 & R' & _ & ->).
    apply app_inj_tail in E. destruct E as [<- <-]. apply app_inj_tail in E'. destruct E' as [<- <-].
    rewrite E0 in R. rewrite E1 in R'.
    intros A. apply addr_inj in A. exact (law_flip d rs pk pk' L R R' (eq_sym A)).
  Qed.

  (* (ii) s -> n-s: refused outright, whatever recovery byte accompanies it *)
  Theorem negated_s_refused b rs v v' a :
    length rs = 64%nat ->
    verify_bid K cr (with_sig b (rs ++ [v])) = Ok a ->
    forall a', verify_bid K cr (with_sig b (neg_s rs ++ [v'])) <> Ok a'.
  Proof.
    intros L V a' V'.
    apply verify_with_sig in V. destruct V as (d & Hd & Hh & HS).
    apply verify_with_sig in V'. destruct V' as (d' & Hd' & Hh' & HS').
    rewrite Hd in Hd'. injection Hd' as <-.
    apply sig_valid_split in HS. destruct HS as (rs1 & v1 & pk & E & L1 & _ & Vr & _).
    apply sig_valid_split in HS'. destruct HS' as (rs2 & v2 & pk' & E' & L2 & _ & Vr' & _).
    apply app_inj_tail in E. destruct E as [<- <-]. apply app_inj_tail in E'. destruct E' as [<- <-].
    rewrite (law_low_s pk pk' d rs L Vr) in Vr'. discriminate.
  Qed.

  (* (iii) digest substitution: other field values, digest recomputed for them, the OLD
     signature.  It is refused or names another address -- unless the two digests are the same
     scalar of the group (a digest is reduced modulo n by ECDSA) or the named pre-images collide. *)
  Theorem digest_substitution b b' a a' d d' :
    int64_fields b -> int64_fields b' ->
    verify_bid K cr b = Ok a -> verify_bid K cr b' = Ok a' ->
    b_sig b' = b_sig b -> b_dig b = Some d -> b_dig b' = Some d' ->
    ~ same_bid_fields b b' ->
    a' <> a \/ (d <> d' /\ zn d = zn d') \/ collision_among K (bid_preimage_pairs K b b').
  Proof.
    intros I I' V V' ES Hd Hd' NS.
    destruct (list_eq_dec N.eq_dec d d') as [E|NE].
    - subst d'. destruct (verify_bid_binding K cr b b' a a' I I' V V') as [S|C];
        [congruence|contradiction|right; right; exact C].
    - destruct (Z.eq_dec (zn d) (zn d')) as [EZ|NZ]; [right; left; split; assumption|].
      left. apply verify_bid_sound in V. destruct V as (d1 & s1 & D1 & S1 & _ & HS).
      apply verify_bid_sound in V'. destruct V' as (d2 & s2 & D2 & S2 & _ & HS').
      rewrite Hd in D1. injection D1 as <-. rewrite Hd' in D2. injection D2 as <-.
      rewrite S1, S2 in ES. injection ES as ->.
      destruct HS as (_ & v & pk & Hv & R & _ & ->). destruct HS' as (_ & v' & pk' & Hv' & R' & _ & ->).
      rewrite Hv in Hv'. injection Hv' as <-.
      intros A. apply addr_inj in A. exact (law_digest d d' _ pk pk' NZ R R' (eq_sym A)).
  Qed.
End SigLaws.

(* The same three perturbations for COMMITMENTS: the commitment's own signature replaced / its
   digest recomputed for another embedded bid, through verify_preconf. *)
Definition with_csig (c : preconf) (s : bytes) : preconf :=
  {| c_bid := c_bid c; c_dig := c_dig c; c_sig := Some s; c_prov := c_prov c |}.

Section CommitmentLaws.
  Variable K : bytes -> bytes.
  Variable cr : crypto.
  Variable neg_s : bytes -> bytes.
  Variable zn : bytes -> Z.
  Variable klen : nat.
  Hypothesis K_len : forall m, length (K m) = klen.

  Hypothesis law_flip : forall h rs pk pk', length rs = 64%nat ->
    recover cr h (rs ++ [0]) = Ok pk -> recover cr h (rs ++ [1]) = Ok pk' -> pk <> pk'.
  Hypothesis law_low_s : forall pk pk' h rs, length rs = 64%nat ->
    verify_rs cr pk h rs = true -> verify_rs cr pk' h (neg_s rs) = false.
  Hypothesis law_digest : forall d d' sig pk pk', zn d <> zn d' ->
    recover cr d sig = Ok pk -> recover cr d' sig = Ok pk' -> pk <> pk'.
  Hypothesis addr_inj : forall p q, addr_of cr p = addr_of cr q -> p = q.

  Lemma verify_with_csig c s a :
    verify_preconf K cr (with_csig c s) = Ok a ->
    exists b d, c_bid c = Some b /\ c_dig c = Some d /\ commitment_hash K c = Ok d /\ sig_valid cr d s a.
  Proof.
    intros H. apply verify_preconf_sound in H.
    destruct H as (b & d & s' & Hb & Hd & Hs & _ & Hh & HS).
    cbn [c_sig with_csig] in Hs. injection Hs as <-. exists b, d.
    split; [exact Hb|]. split; [exact Hd|]. split; [exact Hh|exact HS].
  Qed.

  Theorem commitment_flipped_bit c rs v v' a a' :
    length rs = 64%nat -> v_to01 v = 0 -> v_to01 v' = 1 ->
    verify_preconf K cr (with_csig c (rs ++ [v])) = Ok a ->
    verify_preconf K cr (with_csig c (rs ++ [v'])) = Ok a' -> a' <> a.
  Proof.
    intros L E0 E1 V V'.
    apply verify_with_csig in V. destruct V as (b & d & _ & Hd & _ & HS).
    apply verify_with_csig in V'. destruct V' as (b' & d' & _ & Hd' & _ & HS').
    rewrite Hd in Hd'. injection Hd' as <-.
    apply (sig_valid_split cr) in HS. destruct HS as (rs1 & v1 & pk & E & L1 & R & _ & ->).
    apply (sig_valid_split cr) in HS'. destruct HS' as (rs2 & v2 & pk' & E' & L2 & R' & _ & ->).
    apply app_inj_tail in E. destruct E as [<- <-]. apply app_inj_tail in E'. destruct E' as [<- <-].
    rewrite E0 in R. rewrite E1 in R'.
    intros A. apply addr_inj in A. exact (law_flip d rs pk pk' L R R' (eq_sym A)).
  Qed.

  Theorem commitment_negated_s c rs v v' a :
    length rs = 64%nat ->
    verify_preconf K cr (with_csig c (rs ++ [v])) = Ok a ->
    forall a', verify_preconf K cr (with_csig c (neg_s rs ++ [v'])) <> Ok a'.
  Proof.
    intros L V a' V'.
    apply verify_with_csig in V. destruct V as (b & d & _ & Hd & _ & HS).
    apply verify_with_csig in V'. destruct V' as (b' & d' & _ & Hd' & _ & HS').
    rewrite Hd in Hd'. injection Hd' as <-.
    apply (sig_valid_split cr) in HS. destruct HS as (rs1 & v1 & pk & E & L1 & _ & Vr & _).
    apply (sig_valid_split cr) in HS'. destruct HS' as (rs2 & v2 & pk' & E' & L2 & _ & Vr' & _).
    apply app_inj_tail in E. destruct E as [<- <-]. apply app_inj_tail in E'. destruct E' as [<- <-].
    rewrite (law_low_s pk pk' d rs L Vr) in Vr'. discriminate.
  Qed.

  (* another embedded bid (other values, or other digest / signature bytes), the commitment digest
     recomputed for it, the OLD commitment signature *)
  Theorem commitment_digest_substitution c c' b b' a a' d d' :
    c_bid c = Some b -> c_bid c' = Some b' ->
    int64_fields b -> int64_fields b' -> wf_bid b -> wf_bid b' ->
    verify_preconf K cr c = Ok a -> verify_preconf K cr c' = Ok a' ->
    c_sig c' = c_sig c -> c_dig c = Some d -> c_dig c' = Some d' ->
    ~ (same_bid_fields b b' /\ obytes (b_dig b) = obytes (b_dig b') /\ obytes (b_sig b) = obytes (b_sig b')) ->
    a' <> a \/ (d <> d' /\ zn d = zn d') \/ collision_among K (commitment_preimage_pairs K b b').
  Proof.
    intros B B' I I' W W' V V' ES Hd Hd' NS.
    destruct (list_eq_dec N.eq_dec d d') as [E|NE].
    - subst d'. destruct (verify_preconf_binding K cr klen K_len c c' b b' a a' B B' I I' W W' V V') as [S|C];
        [congruence|contradiction|right; right; exact C].
    - destruct (Z.eq_dec (zn d) (zn d')) as [EZ|NZ]; [right; left; split; assumption|].
      left. apply verify_preconf_sound in V. destruct V as (b1 & d1 & s1 & _ & D1 & S1 & _ & _ & HS).
      apply verify_preconf_sound in V'. destruct V' as (b2 & d2 & s2 & _ & D2 & S2 & _ & _ & HS').
      rewrite Hd in D1. injection D1 as <-. rewrite Hd' in D2. injection D2 as <-.
      rewrite S1, S2 in ES. injection ES as ->.
      destruct HS as (_ & v & pk & Hv & R & _ & ->). destruct HS' as (_ & v' & pk' & Hv' & R' & _ & ->).
      rewrite Hv in Hv'. injection Hv' as <-.
      intros A. apply addr_inj in A. exact (law_digest d d' _ pk pk' NZ R R' (eq_sym A)).
  Qed.
End CommitmentLaws.

(* ------------------------------------------------------------------------------------------- *)
(* The crypto record of the abstract group: r and s are 32-byte big-endian integers, the point of
   abscissa r and recovery bit v has logarithm [lift r v] (the two points of one abscissa are
   opposite), keys are encoded as 32-byte logarithms, the address of a key is the key.  ECDSA
   verification accepts (r,s) under Q iff s is low and Q is one of the two recoverable keys.
   The three laws above hold for it. *)
Section GroupCrypto.
  Variable n : Z.
  Hypothesis n_prime : prime n.
  Hypothesis n_odd : (n mod 2 = 1)%Z.
  Hypothesis n_small : (n < 2 ^ 256)%Z.
  Variable rinv_of : Z -> Z.
  Hypothesis rinv_ok : forall r, (0 < r < n)%Z -> ((r * rinv_of r) mod n = 1)%Z.
  Variable lift : Z -> N -> option Z.
  Hypothesis lift_range : forall r v k, lift r v = Some k -> (0 < k < n)%Z.
  Hypothesis lift_opposite : forall r k k', lift r 0 = Some k -> lift r 1 = Some k' -> (k' = n - k)%Z.

  Definition zof (b : bytes) : Z := Z.of_N (unbe b).
  Definition enc (q : Z) : bytes := be 32 (Z.to_N q).
  Definition sig_r (rs : bytes) : Z := zof (firstn 32 rs).
  Definition sig_s (rs : bytes) : Z := zof (skipn 32 rs).
  Definition in_range (x : Z) : bool := ((0 <? x) && (x <? n))%Z.

  Definition g_recover (h sig : bytes) : outcome bytes :=
    let rs := firstn 64 sig in
    if in_range (sig_r rs) && in_range (sig_s rs) then
      match nth_error sig 64 with
      | Some v => match lift (sig_r rs) v with
                  | Some k => Ok (enc (recovered n (rinv_of (sig_r rs)) (zof h) (sig_s rs) k))
                  | None => Err 1
                  end
      | None => Err 1
      end
    else Err 1.
  Definition recovers (h sig pk : bytes) : bool :=
    match g_recover h sig with Ok p => bytes_eqb p pk | _ => false end.
  Definition g_verify (pk h rs : bytes) : bool :=
    ((2 * sig_s rs <=? n)%Z) && (recovers h (rs ++ [0]) pk || recovers h (rs ++ [1]) pk).
  Definition g_neg_s (rs : bytes) : bytes := firstn 32 rs ++ be 32 (Z.to_N (n - sig_s rs)).
  Definition g_zn (d : bytes) : Z := (zof d mod n)%Z.

  Definition group_crypto : crypto :=
    {| recover := g_recover; verify_rs := g_verify; addr_of := fun p => p; sign := fun _ => Err 0 |}.

  Lemma enc_inj a b : (0 <= a < n)%Z -> (0 <= b < n)%Z -> enc a = enc b -> a = b.
  Proof.
    intros Ha Hb H. unfold enc in H. apply be_inj in H.
    - apply Z2N.inj in H; lia.
    - change (256 ^ N.of_nat 32) with (Z.to_N (2 ^ 256)%Z). apply Z2N.inj_lt; lia.
    - change (256 ^ N.of_nat 32) with (Z.to_N (2 ^ 256)%Z). apply Z2N.inj_lt; lia.
  Qed.

  Lemma recovered_range rinv z s k : (0 <= recovered n rinv z s k < n)%Z.
  Proof. unfold recovered. apply Z.mod_pos_bound. pose proof (n_gt_2 n n_prime n_odd). lia. Qed.

  Lemma g_recover_inv h rs v pk : length rs = 64%nat ->
    g_recover h (rs ++ [v]) = Ok pk ->
    (0 < sig_r rs < n)%Z /\ (0 < sig_s rs < n)%Z /\
    exists k, lift (sig_r rs) v = Some k /\
              pk = enc (recovered n (rinv_of (sig_r rs)) (zof h) (sig_s rs) k).
  Proof.
    intros L H. unfold g_recover in H. rewrite (firstn64_app rs _ L), (nth_error_64_app rs [] v L) in H.
    destruct (in_range (sig_r rs) && in_range (sig_s rs)) eqn:R; [|discriminate].
    apply andb_true_iff in R as [R1 R2]. unfold in_range in R1, R2.
    apply andb_true_iff in R1 as [R1a R1b]. apply andb_true_iff in R2 as [R2a R2b].
    apply Z.ltb_lt in R1a, R1b, R2a, R2b.
    destruct (lift (sig_r rs) v) as [k|] eqn:Lk; [|discriminate]. injection H as <-.
    repeat split; try assumption. exists k. split; reflexivity.
  Qed.

  Lemma recovered_opp rinv z s k : recovered n rinv z s (n - k) = recovered n rinv z s (- k).
  Proof.
    unfold recovered. pose proof (n_gt_2 n n_prime n_odd).
    replace (rinv * (s * (n - k) - z))%Z with (rinv * (s * - k - z) + (rinv * s) * n)%Z by ring.
    apply Z.mod_add. lia.
  Qed.

  Lemma group_law_flip h rs pk pk' : length rs = 64%nat ->
    g_recover h (rs ++ [0]) = Ok pk -> g_recover h (rs ++ [1]) = Ok pk' -> pk <> pk'.
  Proof.
    intros L R0 R1 E.
    destruct (g_recover_inv h rs 0 pk L R0) as (Hr & Hs & k & Lk & ->).
    destruct (g_recover_inv h rs 1 pk' L R1) as (_ & _ & k' & Lk' & ->).
    pose proof (lift_opposite _ _ _ Lk Lk') as ->. pose proof (lift_range _ _ _ Lk) as Hk.
    apply enc_inj in E; try apply recovered_range.
    rewrite recovered_opp in E.
    exact (flip_bit_changes_key n n_prime n_odd (sig_r rs) (rinv_of (sig_r rs)) (sig_s rs) k (zof h)
             (rinv_ok _ Hr) Hs Hk (eq_sym E)).
  Qed.

  Lemma sig_s_neg rs : length rs = 64%nat -> (0 < sig_s rs < n)%Z ->
    sig_s (g_neg_s rs) = (n - sig_s rs)%Z.
  Proof.
    intros L Hs. unfold g_neg_s. unfold sig_s at 1.
    assert (L32 : length (firstn 32 rs) = 32%nat) by (rewrite firstn_length; lia).
    replace 32%nat with (length (firstn 32 rs) + 0)%nat at 1 by lia.
    rewrite skipn_app, Nat.add_comm, Nat.add_sub, skipn_all2 by lia. cbn [skipn app].
    unfold zof. rewrite unbe_be.
    - rewrite Z2N.id; lia.
    - change (256 ^ N.of_nat 32) with (Z.to_N (2 ^ 256)%Z). apply Z2N.inj_lt; lia.
  Qed.

  Lemma g_neg_s_length rs : length rs = 64%nat -> length (g_neg_s rs) = 64%nat.
  Proof. intros L. unfold g_neg_s. rewrite app_length, firstn_length, be_length. lia. Qed.

  Lemma group_law_low_s pk pk' h rs : length rs = 64%nat ->
    g_verify pk h rs = true -> g_verify pk' h (g_neg_s rs) = false.
  Proof.
    intros L V. unfold g_verify in V. apply andb_true_iff in V as [Vs Vr]. apply Z.leb_le in Vs.
    assert (Hs : (0 < sig_s rs < n)%Z).
    { apply orb_true_iff in Vr. unfold recovers in Vr.
      destruct Vr as [Vr|Vr];
        [destruct (g_recover h (rs ++ [0])) as [p| |] eqn:R; try discriminate;
           exact (proj1 (proj2 (g_recover_inv h rs 0 p L R)))
        |destruct (g_recover h (rs ++ [1])) as [p| |] eqn:R; try discriminate;
           exact (proj1 (proj2 (g_recover_inv h rs 1 p L R)))]. }
    unfold g_verify. rewrite (sig_s_neg rs L Hs).
    destruct (Z.leb_spec (2 * (n - sig_s rs)) n) as [H|H]; [|reflexivity].
    exfalso. exact (malleated_not_low_s n n_odd (sig_s rs) Vs H).
  Qed.

  Lemma group_law_digest d d' sig pk pk' : g_zn d <> g_zn d' ->
    g_recover d sig = Ok pk -> g_recover d' sig = Ok pk' -> pk <> pk'.
  Proof.
    intros NZ R R' E. unfold g_recover in R, R'.
    destruct (in_range (sig_r (firstn 64 sig)) && in_range (sig_s (firstn 64 sig))) eqn:Rg; [|discriminate].
    apply andb_true_iff in Rg as [R1 _]. unfold in_range in R1.
    apply andb_true_iff in R1 as [R1a R1b]. apply Z.ltb_lt in R1a, R1b.
    destruct (nth_error sig 64) as [v|]; [|discriminate].
    destruct (lift (sig_r (firstn 64 sig)) v) as [k|]; [|discriminate].
    injection R as <-. injection R' as <-.
    apply enc_inj in E; try apply recovered_range.
    apply NZ. unfold g_zn.
    exact (digest_changes_key n n_prime n_odd _ _ (zof d) (zof d') _ k (rinv_ok _ (conj R1a R1b)) E).
  Qed.

  (* the verify_bid-level theorems instantiated: no premise on the crypto record is left *)
  Theorem group_flipped_bit K b rs v v' a a' :
    length rs = 64%nat -> v_to01 v = 0 -> v_to01 v' = 1 ->
    verify_bid K group_crypto (with_sig b (rs ++ [v])) = Ok a ->
    verify_bid K group_crypto (with_sig b (rs ++ [v'])) = Ok a' -> a' <> a.
  Proof.
    apply (flipped_bit_not_same_address K group_crypto group_law_flip (fun p q H => H)).
  Qed.

  Theorem group_negated_s K b rs v v' a :
    length rs = 64%nat ->
    verify_bid K group_crypto (with_sig b (rs ++ [v])) = Ok a ->
    forall a', verify_bid K group_crypto (with_sig b (g_neg_s rs ++ [v'])) <> Ok a'.
  Proof. apply (negated_s_refused K group_crypto g_neg_s group_law_low_s). Qed.

  Theorem group_digest_substitution K b b' a a' d d' :
    int64_fields b -> int64_fields b' ->
    verify_bid K group_crypto b = Ok a -> verify_bid K group_crypto b' = Ok a' ->
    b_sig b' = b_sig b -> b_dig b = Some d -> b_dig b' = Some d' ->
    ~ same_bid_fields b b' ->
    a' <> a \/ (d <> d' /\ g_zn d = g_zn d') \/ collision_among K (bid_preimage_pairs K b b').
  Proof. apply (digest_substitution K group_crypto g_zn group_law_digest (fun p q H => H)). Qed.
  Theorem group_commitment_flipped_bit K c rs v v' a a' :
    length rs = 64%nat -> v_to01 v = 0 -> v_to01 v' = 1 ->
    verify_preconf K group_crypto (with_csig c (rs ++ [v])) = Ok a ->
    verify_preconf K group_crypto (with_csig c (rs ++ [v'])) = Ok a' -> a' <> a.
  Proof. apply (commitment_flipped_bit K group_crypto group_law_flip (fun p q H => H)). Qed.

  Theorem group_commitment_negated_s K c rs v v' a :
    length rs = 64%nat ->
    verify_preconf K group_crypto (with_csig c (rs ++ [v])) = Ok a ->
    forall a', verify_preconf K group_crypto (with_csig c (g_neg_s rs ++ [v'])) <> Ok a'.
  Proof. apply (commitment_negated_s K group_crypto g_neg_s group_law_low_s). Qed.

  Theorem group_commitment_digest_substitution K klen (K_len : forall m, length (K m) = klen)
          c c' b b' a a' d d' :
    c_bid c = Some b -> c_bid c' = Some b' ->
    int64_fields b -> int64_fields b' -> wf_bid b -> wf_bid b' ->
    verify_preconf K group_crypto c = Ok a -> verify_preconf K group_crypto c' = Ok a' ->
    c_sig c' = c_sig c -> c_dig c = Some d -> c_dig c' = Some d' ->
    ~ (same_bid_fields b b' /\ obytes (b_dig b) = obytes (b_dig b') /\ obytes (b_sig b) = obytes (b_sig b')) ->
    a' <> a \/ (d <> d' /\ g_zn d = g_zn d') \/ collision_among K (commitment_preimage_pairs K b b').
  Proof.
    apply (commitment_digest_substitution K group_crypto g_zn klen K_len group_law_digest (fun p q H => H)).
  Qed.
End GroupCrypto.

(* non-vacuity of the group instance: n = 7, inverses by Fermat, the point of abscissa r and bit 0
   has logarithm r.  With the constant hash (digest [], scalar 0) the signature (r,s) = (3,2)
   verifies with either recovery bit -- to two different keys, as the theorem says -- and its
   s-negation (3,5) is refused. *)
Definition rinv7 (r : Z) : Z := ((r ^ 5) mod 7)%Z.
Definition lift7 (r : Z) (v : N) : option Z :=
  if ((0 <? r) && (r <? 7))%Z then Some (if (v =? 0)%N then r else (7 - r)%Z) else None.
Definition crypto7 : crypto := group_crypto 7 rinv7 lift7.

Lemma group7_premises :
  prime 7 /\ (7 mod 2 = 1)%Z /\ (7 < 2 ^ 256)%Z /\
  (forall r, (0 < r < 7)%Z -> ((r * rinv7 r) mod 7 = 1)%Z) /\
  (forall r v k, lift7 r v = Some k -> (0 < k < 7)%Z) /\
  (forall r k k', lift7 r 0 = Some k -> lift7 r 1 = Some k' -> (k' = 7 - k)%Z).
Proof.
  split; [exact prime_7|]. split; [reflexivity|]. split; [reflexivity|]. split; [|split].
  - intros r Hr. assert (r = 1 \/ r = 2 \/ r = 3 \/ r = 4 \/ r = 5 \/ r = 6)%Z as Hc by lia.
    destruct Hc as [->|[->|[->|[->|[->| ->]]]]]; reflexivity.
  - intros r v k. unfold lift7.
    destruct ((0 <? r) && (r <? 7))%Z eqn:B; [|discriminate].
    apply andb_true_iff in B as [B1 B2]. apply Z.ltb_lt in B1, B2.
    destruct (v =? 0)%N; intros E;
      [assert (r = k) by congruence | assert ((7 - r)%Z = k) by congruence]; lia.
  - intros r k k'. unfold lift7.
    destruct ((0 <? r) && (r <? 7))%Z eqn:B; [|discriminate].
    change (0 =? 0)%N with true. change (1 =? 0)%N with false. cbv iota.
    intros E E'. assert (r = k) by congruence. assert ((7 - r)%Z = k') by congruence. lia.
Qed.

Definition sig7 (r s : N) (v : N) : bytes := be 32 r ++ be 32 s ++ [v].
Definition bid7 (sig : bytes) : bid :=
  {| b_tx := bos "t"; b_amt := bos "5"; b_bn := 2; b_ds := 10; b_de := 20;
     b_dig := Some []; b_sig := Some sig |}.
Example group7_instance :
  verify_bid Kconst crypto7 (bid7 (sig7 3 2 27)) = Ok (be 32 2) /\
  verify_bid Kconst crypto7 (bid7 (sig7 3 2 28)) = Ok (be 32 5) /\
  verify_bid Kconst crypto7 (bid7 (sig7 3 5 27)) = Err E_SIG /\
  verify_bid Kconst crypto7 (bid7 (sig7 3 5 28)) = Err E_SIG.
Proof. vm_compute. repeat split. Qed.

(* summaries used by Properties/C02.v *)
Theorem sig_perturbation_all :
  forall (K : bytes -> bytes) (cr : crypto) (neg_s : bytes -> bytes) (zn : bytes -> Z),
  (forall h rs pk pk', length rs = 64%nat ->
     recover cr h (rs ++ [0]) = Ok pk -> recover cr h (rs ++ [1]) = Ok pk' -> pk <> pk') ->
  (forall pk pk' h rs, length rs = 64%nat ->
     verify_rs cr pk h rs = true -> verify_rs cr pk' h (neg_s rs) = false) ->
  (forall d d' sig pk pk', zn d <> zn d' ->
     recover cr d sig = Ok pk -> recover cr d' sig = Ok pk' -> pk <> pk') ->
  (forall p q, addr_of cr p = addr_of cr q -> p = q) ->
  (forall b rs v v' a a', length rs = 64%nat -> v_to01 v = 0 -> v_to01 v' = 1 ->
     verify_bid K cr (with_sig b (rs ++ [v])) = Ok a ->
     verify_bid K cr (with_sig b (rs ++ [v'])) = Ok a' -> a' <> a) /\
  (forall b rs v v' a, length rs = 64%nat ->
     verify_bid K cr (with_sig b (rs ++ [v])) = Ok a ->
     forall a', verify_bid K cr (with_sig b (neg_s rs ++ [v'])) <> Ok a') /\
  (forall b b' a a' d d', int64_fields b -> int64_fields b' ->
     verify_bid K cr b = Ok a -> verify_bid K cr b' = Ok a' ->
     b_sig b' = b_sig b -> b_dig b = Some d -> b_dig b' = Some d' ->
     ~ same_bid_fields b b' ->
     a' <> a \/ (d <> d' /\ zn d = zn d') \/ collision_among K (bid_preimage_pairs K b b')).
Proof.
  intros K cr neg_s zn L1 L2 L3 AI. split; [|split].
  - intros b rs v v' a a'. exact (flipped_bit_not_same_address K cr L1 AI b rs v v' a a').
  - intros b rs v v' a. exact (negated_s_refused K cr neg_s L2 b rs v v' a).
  - intros b b' a a' d d'. exact (digest_substitution K cr zn L3 AI b b' a a' d d').
Qed.

Theorem group_perturbation_all : forall (n : Z), prime n -> (n mod 2 = 1)%Z -> (n < 2 ^ 256)%Z ->
  forall (rinv_of : Z -> Z), (forall r, (0 < r < n)%Z -> ((r * rinv_of r) mod n = 1)%Z) ->
  forall (lift : Z -> N -> option Z),
  (forall r v k, lift r v = Some k -> (0 < k < n)%Z) ->
  (forall r k k', lift r 0 = Some k -> lift r 1 = Some k' -> (k' = n - k)%Z) ->
  let cr := group_crypto n rinv_of lift in
  forall (K : bytes -> bytes),
  (forall b rs v v' a a', length rs = 64%nat -> v_to01 v = 0 -> v_to01 v' = 1 ->
     verify_bid K cr (with_sig b (rs ++ [v])) = Ok a ->
     verify_bid K cr (with_sig b (rs ++ [v'])) = Ok a' -> a' <> a) /\
  (forall b rs v v' a, length rs = 64%nat ->
     verify_bid K cr (with_sig b (rs ++ [v])) = Ok a ->
     forall a', verify_bid K cr (with_sig b (g_neg_s n rs ++ [v'])) <> Ok a').
Proof.
  intros n Hp Ho Hs rinv_of Hr lift Hl1 Hl2 cr K. split.
  - intros b rs v v' a a'. eapply group_flipped_bit; eassumption.
  - intros b rs v v' a. eapply group_negated_s; eassumption.
Qed.

Theorem malleation_digest_and_s : forall n : Z, prime n -> (n mod 2 = 1)%Z ->
  forall r rinv : Z, ((r * rinv) mod n = 1)%Z ->
  (forall z1 z2 s k, recovered n rinv z1 s k = recovered n rinv z2 s k -> (z1 mod n = z2 mod n)%Z) /\
  (forall z s1 s2 k, (0 < k < n)%Z ->
     recovered n rinv z s1 k = recovered n rinv z s2 k -> (s1 mod n = s2 mod n)%Z).
Proof.
  intros n Hp Ho r rinv Hr. split.
  - intros z1 z2 s k. exact (digest_changes_key n Hp Ho r rinv z1 z2 s k Hr).
  - intros z s1 s2 k Hk. exact (s_changes_key n Hp Ho r rinv z s1 s2 k Hr Hk).
Qed.

(* --- round A2 summaries ---------------------------------------------------------------------- *)
Definition different_commitment_content (b b' : bid) : Prop :=
  ~ (same_bid_fields b b' /\ obytes (b_dig b) = obytes (b_dig b') /\ obytes (b_sig b) = obytes (b_sig b')).

Theorem commitment_perturbation_all :
  forall (K : bytes -> bytes) (cr : crypto) (neg_s : bytes -> bytes) (zn : bytes -> Z) (klen : nat),
  (forall m, length (K m) = klen) ->
  (forall h rs pk pk', length rs = 64%nat ->
     recover cr h (rs ++ [0]) = Ok pk -> recover cr h (rs ++ [1]) = Ok pk' -> pk <> pk') ->
  (forall pk pk' h rs, length rs = 64%nat ->
     verify_rs cr pk h rs = true -> verify_rs cr pk' h (neg_s rs) = false) ->
  (forall d d' sig pk pk', zn d <> zn d' ->
     recover cr d sig = Ok pk -> recover cr d' sig = Ok pk' -> pk <> pk') ->
  (forall p q, addr_of cr p = addr_of cr q -> p = q) ->
  (forall c rs v v' a a', length rs = 64%nat -> v_to01 v = 0 -> v_to01 v' = 1 ->
     verify_preconf K cr (with_csig c (rs ++ [v])) = Ok a ->
     verify_preconf K cr (with_csig c (rs ++ [v'])) = Ok a' -> a' <> a) /\
  (forall c rs v v' a, length rs = 64%nat ->
     verify_preconf K cr (with_csig c (rs ++ [v])) = Ok a ->
     forall a', verify_preconf K cr (with_csig c (neg_s rs ++ [v'])) <> Ok a') /\
  (forall c c' b b' a a' d d',
     c_bid c = Some b -> c_bid c' = Some b' ->
     int64_fields b -> int64_fields b' -> wf_bid b -> wf_bid b' ->
     verify_preconf K cr c = Ok a -> verify_preconf K cr c' = Ok a' ->
     c_sig c' = c_sig c -> c_dig c = Some d -> c_dig c' = Some d' ->
     different_commitment_content b b' ->
     a' <> a \/ (d <> d' /\ zn d = zn d') \/ collision_among K (commitment_preimage_pairs K b b')).
Proof.
  intros K cr neg_s zn klen KL L1 L2 L3 AI. split; [|split].
  - intros c rs v v' a a'. exact (commitment_flipped_bit K cr L1 AI c rs v v' a a').
  - intros c rs v v' a. exact (commitment_negated_s K cr neg_s L2 c rs v v' a).
  - intros c c' b b' a a' d d'. exact (commitment_digest_substitution K cr zn klen KL L3 AI c c' b b' a a' d d').
Qed.

(* everything for the group record, bids and commitments, no premise on the library left *)
Theorem group_perturbation_full : forall (n : Z), prime n -> (n mod 2 = 1)%Z -> (n < 2 ^ 256)%Z ->
  forall (rinv_of : Z -> Z), (forall r, (0 < r < n)%Z -> ((r * rinv_of r) mod n = 1)%Z) ->
  forall (lift : Z -> N -> option Z),
  (forall r v k, lift r v = Some k -> (0 < k < n)%Z) ->
  (forall r k k', lift r 0 = Some k -> lift r 1 = Some k' -> (k' = n - k)%Z) ->
  let cr := group_crypto n rinv_of lift in
  forall (K : bytes -> bytes) (klen : nat), (forall m, length (K m) = klen) ->
  (* bids: digest substitution *)
  (forall b b' a a' d d', int64_fields b -> int64_fields b' ->
     verify_bid K cr b = Ok a -> verify_bid K cr b' = Ok a' ->
     b_sig b' = b_sig b -> b_dig b = Some d -> b_dig b' = Some d' ->
     ~ same_bid_fields b b' ->
     a' <> a \/ (d <> d' /\ g_zn n d = g_zn n d') \/ collision_among K (bid_preimage_pairs K b b')) /\
  (* commitments: recovery bit, s -> n-s, digest substitution *)
  (forall c rs v v' a a', length rs = 64%nat -> v_to01 v = 0 -> v_to01 v' = 1 ->
     verify_preconf K cr (with_csig c (rs ++ [v])) = Ok a ->
     verify_preconf K cr (with_csig c (rs ++ [v'])) = Ok a' -> a' <> a) /\
  (forall c rs v v' a, length rs = 64%nat ->
     verify_preconf K cr (with_csig c (rs ++ [v])) = Ok a ->
     forall a', verify_preconf K cr (with_csig c (g_neg_s n rs ++ [v'])) <> Ok a') /\
  (forall c c' b b' a a' d d',
     c_bid c = Some b -> c_bid c' = Some b' ->
     int64_fields b -> int64_fields b' -> wf_bid b -> wf_bid b' ->
     verify_preconf K cr c = Ok a -> verify_preconf K cr c' = Ok a' ->
     c_sig c' = c_sig c -> c_dig c = Some d -> c_dig c' = Some d' ->
     different_commitment_content b b' ->
     a' <> a \/ (d <> d' /\ g_zn n d = g_zn n d') \/ collision_among K (commitment_preimage_pairs K b b')).
Proof.
  intros n Hp Ho Hs rinv_of Hr lift Hl1 Hl2 cr K klen KL. split; [|split; [|split]].
  - intros b b' a a' d d'. eapply group_digest_substitution; eassumption.
  - intros c rs v v' a a'. eapply group_commitment_flipped_bit; eassumption.
  - intros c rs v v' a. eapply group_commitment_negated_s; eassumption.
  - intros c c' b b' a a' d d'. eapply group_commitment_digest_substitution; eassumption.
Qed.

(* round trip, naming the key signer's own address: [own] is what KeySigner.GetAddress() returns;
   the premise says the key recovered from the signer's answers is the key of that address *)
Theorem construct_bid_verifies_own K cr pk own :
  (forall h sg, sign cr h = Ok sg ->
     length sg = 65%nat /\ (nth_error sg 64 = Some 0 \/ nth_error sg 64 = Some 1) /\
     recover cr h sg = Ok pk /\ verify_rs cr pk h (firstn 64 sg) = true) ->
  addr_of cr pk = own ->
  forall tx amt bn ds de b,
  construct_bid K cr tx amt bn ds de = Ok b -> verify_bid K cr b = Ok own.
Proof. intros RS <- tx amt bn ds de b H. exact (construct_bid_verifies K cr pk RS tx amt bn ds de b H). Qed.

Theorem construct_preconf_verifies_own K cr pk own :
  (forall h sg, sign cr h = Ok sg ->
     length sg = 65%nat /\ (nth_error sg 64 = Some 0 \/ nth_error sg 64 = Some 1) /\
     recover cr h sg = Ok pk /\ verify_rs cr pk h (firstn 64 sg) = true) ->
  addr_of cr pk = own ->
  forall ob c,
  construct_preconf K cr ob = Ok c -> verify_preconf K cr c = Ok own.
Proof. intros RS <- ob c H. exact (construct_preconf_verifies K cr pk RS ob c H). Qed.

(* which amount spellings share a digest: exactly those that parse to the same integer (one
   direction here, for every K; the converse is the binding theorem) *)
Theorem amount_aliases_same_digest K b amt' :
  parse_amount amt' = parse_amount (b_amt b) ->
  bid_hash K (with_amt b amt') = bid_hash K b /\
  forall dg sg pv, commitment_hash K {| c_bid := Some (with_amt b amt'); c_dig := dg; c_sig := sg; c_prov := pv |} =
                   commitment_hash K {| c_bid := Some b; c_dig := dg; c_sig := sg; c_prov := pv |}.
Proof.
  intros P. split.
  - unfold bid_hash. cbn [b_amt with_amt]. rewrite P. reflexivity.
  - intros dg sg pv. unfold commitment_hash. cbn [c_bid b_amt with_amt]. rewrite P. reflexivity.
Qed.
