(* Provenance of every use of the node key by handleBid: each SignHash digest is the commitment hash the
   signer model computes for the bid the signing handler holds -- also when the commitment is never written
   (signer failure, store failure, write failure). *)
From Coq Require Import String List NArith ZArith Bool Lia.
From MevVerif Require Import lib.Bytes lib.Abi proofs.Bytes_proofs model.Eip712 model.Signer
  proofs.Eip712_proofs proofs.Signer_proofs.
From MevVerif Require Import model.Rules proofs.Rules_proofs model.ProviderSvc proofs.ProviderSvc_proofs
  model.PreconfProvider proofs.PreconfProvider_proofs proofs.PreconfProvider_traces proofs.PreconfProvider_signed
  proofs.Compose_provider.
Import ListNotations.
Open Scope N_scope.
Arguments nset {A} k v l : simpl never.
Arguments ndel {A} k l : simpl never.
Arguments calldata keccak amt c : simpl never.

Section SignProvenance.
  Variable K : bytes -> bytes.
  Variable V : validators.
  Variable W : wiring.

  (* handler h signed d when it consumed a ConstructPreConfirmation answer naming digest d while holding bid b *)
  Definition sign_from_decision (evs : list event) (h : N) (d : bytes) : Prop :=
    exists pre post auto b k,
      evs = pre ++ TakeDecision h k :: post /\
      nget h (hs (run K V W pre)) = Some (HInSvc b auto) /\
      (k = KSignFail d \/ exists sg, k = KOk d sg).

  Lemma sfd_snoc evs e h d : sign_from_decision evs h d -> sign_from_decision (evs ++ [e]) h d.
  Proof.
    intros (pre & post & auto & b & k & -> & H). exists pre, (post ++ [e]), auto, b, k.
    split; [now rewrite <- app_assoc|exact H].
  Qed.

  Lemma on_status_sign h b stv k s h' d :
    In (HSign h' d) (heff (on_status K W h b stv k s)) ->
    In (HSign h' d) (heff s) \/ (h' = h /\ (k = KSignFail d \/ exists sg, k = KOk d sg)).
  Proof.
    unfold on_status. destruct (stv =? status_rejected)%Z.
    { cbn. intros [H|[H|H]]; [discriminate|discriminate|now left]. }
    destruct (stv =? status_accepted)%Z.
    2:{ cbn. intros [H|[H|H]]; [discriminate|discriminate|now left]. }
    destruct k as [|d0|d0 sg0].
    - cbn. intros [H|[H|H]]; [discriminate|discriminate|now left].
    - cbn. intros [H|[H|[H|H]]]; [discriminate|injection H as <- <-; right; split; [reflexivity|now left]|discriminate|now left].
    - destruct (w_da_contract W).
      + destruct (parse_bigint (b_amt b)); cbn.
        * intros [H|[H|[H|H]]]; [discriminate|injection H as <- <-; right; split; [reflexivity|right; eauto]|discriminate|now left].
        * intros [H|[H|[H|H]]]; [discriminate|injection H as <- <-; right; split; [reflexivity|right; eauto]|discriminate|now left].
      + cbn. intros [H|[H|[H|H]]]; [discriminate|injection H as <- <-; right; split; [reflexivity|right; eauto]|discriminate|now left].
  Qed.

  Lemma step_sign s e h d :
    In (HSign h d) (heff (step K V W s e)) ->
    In (HSign h d) (heff s) \/
    exists k b auto, e = TakeDecision h k /\ nget h (hs s) = Some (HInSvc b auto) /\
                     (k = KSignFail d \/ exists sg, k = KOk d sg).
  Proof.
    unfold step. destruct (panicked (svc s)); [now left|].
    destruct e as [h0 role o|h0|h0|sid d0 stv|sid|sid|h0 k|h0|h0 ok|h0 ok]; try (now left).
    - unfold arrive. destruct (nget h0 (hs s)); [now left|]. destruct (nget h0 (calls (svc s))); [now left|].
      destruct (gate_class role o); [cbn; intros [H|H]; [discriminate|now left]|].
      destruct (o_read o); [|cbn; intros [H|H]; [discriminate|now left]].
      destruct (w_processor_api W); [|now left].
      destruct (vbid V (to_engine b)); [now left|cbn; intros [H|H]; [discriminate|now left]].
    - unfold engine_take. destruct (nget h0 (hs s)) as [[b [|]|c|c|r]|]; now left.
    - unfold abandon_h. destruct (nget h0 (hs s)) as [[b [|]|c|c|r]|]; try (now left).
      destruct (nget h0 (calls (svc s))) as [[b0|b0|b0|b0]|]; try (now left). cbn. intros [H|H]; [discriminate|now left].
    - unfold take_decision. destruct (nget h0 (hs s)) as [[b [|]|c|c|r]|] eqn:Hh; try (now left).
      + intros H. apply on_status_sign in H. destruct H as [H|(-> & Hk)]; [now left|]. right. exists k, b, true. auto.
      + destruct (nget h0 (calls (svc s))) as [[b0|b0|b0|b0]|]; try (now left).
        destruct (chan_recv h0 (svc s)) as [[stv|] x]; [|now left].
        intros H. apply on_status_sign in H. destruct H as [H|(-> & Hk)]; [now left|]. right. exists k, b, false. auto.
    - unfold deadline_fire. destruct (nget h0 (hs s)) as [[b [|]|c|c|r]|]; try (now left).
      + cbn. intros [H|H]; [discriminate|now left].
      + destruct (nget h0 (calls (svc s))) as [[b0|b0|b0|b0]|]; try (now left). cbn. intros [H|H]; [discriminate|now left].
    - unfold store_res. destruct (nget h0 (hs s)) as [[b a|c|c|r]|]; try (now left).
      destruct ok; cbn; [intros [H|[H|H]]|intros [H|[H|H]]]; try discriminate; now left.
    - unfold write_res. destruct (nget h0 (hs s)) as [[b a|c|c|r]|]; try (now left). cbn. intros [H|H]; [discriminate|now left].
  Qed.

  Theorem signed_from_decision evs h d :
    In (HSign h d) (heff (run K V W evs)) -> sign_from_decision evs h d.
  Proof.
    induction evs as [|e evs IH] using rev_ind; [intros []|].
    rewrite PreconfProvider_proofs.run_app. intros H. apply step_sign in H.
    destruct H as [H|(k & b & auto & -> & Hh & Hk)].
    - apply sfd_snoc. now apply IH.
    - exists evs, [], auto, b, k. auto.
  Qed.
End SignProvenance.

(* every digest handed to SignHash of the node key is the commitment hash of the bid that handler read from
   the wire, which passed the handler's gates *)
Theorem signed_digest_is_commitment_hash K cr addr evs h d :
  constructed_history K cr rules_validators (node_wiring addr) evs ->
  In (HSign h d) (heff (run K rules_validators (node_wiring addr) evs)) ->
  exists o b a,
    In (Arrive h role_bidder o) evs /\ o_read o = Some b /\ o_verify o = VOk a /\ o_allow o = true /\
    commitment_hash K (commit_stub (to_wire b)) = Ok d.
Proof.
  intros Hc Hin.
  destruct (signed_from_decision K rules_validators (node_wiring addr) evs h d Hin)
    as (pre & post & auto & b & k & Ee & Hh & Hk).
  pose proof (Hc pre h k post b auto Ee Hh) as Hkr.
  destruct (pi_insvc _ _ _ _ _ (run_pinv K rules_validators (node_wiring addr) pre) _ _ _ Hh)
    as ((role & o & a & Ha & Hr & Hrd & Hv & Hal) & _).
  exists o, b, a. subst role.
  split.
  { rewrite Ee. apply in_app_iff. left. now apply (arr_origin K rules_validators (node_wiring addr)). }
  split; [exact Hrd|]. split; [exact Hv|]. split; [exact Hal|].
  unfold kres in Hkr. destruct (verify_bid K cr (to_wire b)); try (destruct Hk as [Hk|(sg & Hk)]; congruence).
  destruct (commitment_hash K (commit_stub (to_wire b))) as [hh| |]; try (destruct Hk as [Hk|(sg & Hk)]; congruence).
  destruct (sign_normalised cr hh); destruct Hk as [Hk|(sg & Hk)]; congruence.
Qed.

(* non-vacuity: the accepting history of Compose_provider satisfies the premise and contains a signature *)
Example ex_signed_digest :
  constructed_history Compose_bidder.ex_K Signer_proofs.toy_crypto rules_validators (node_wiring (repeat 7 20)) ex_events /\
  existsb (fun e => match e with HSign _ _ => true | _ => false end) (heff ex_S) = true.
Proof.
  split; [apply ex_provider_premises|]. vm_compute. reflexivity.
Qed.
