(* Compositions of C11 (model/Registry.v) with its neighbours: C19 (model/Rules.v), C03 (big.Int.SetString of
   model/Eip712.v), C08 (model/EvmSend.v) and C04 (model/Handshake.v).  Kept apart from
   proofs/Compose_chain.v so that the closures of C08 and C10 do not contain the registry files. *)
From Coq Require Import List NArith ZArith Bool Lia.
From MevVerif Require Import lib.Bytes gen.Generated.
From MevVerif Require model.EvmSend proofs.EvmSend_proofs.
Import ListNotations.

Module ES := MevVerif.model.EvmSend.
Module ESP := MevVerif.proofs.EvmSend_proofs.

(* ================================================================================================== *)
(* C11 composed with its neighbours.  In model/Registry.v three things are oracle values: the verdict *)
(* of the request validator and the result of big.Int.SetString (RPC glue), the result of client.Send  *)
(* (RegisterProvider / PrepayAllowance), and -- seen from the handshake -- the answer of               *)
(* CheckProviderRegistered.  Each is instantiated below by the model that owns it.                     *)
(* ================================================================================================== *)
From Coq Require Import String.
From MevVerif Require lib.Abi model.Rules model.Eip712 model.Registry model.Handshake
  proofs.Rules_proofs proofs.Registry_proofs proofs.Handshake_proofs.

Module RG := MevVerif.model.Registry.
Module RGP := MevVerif.proofs.Registry_proofs.
Module RU := MevVerif.model.Rules.
Module HS := MevVerif.model.Handshake.
Module HSP := MevVerif.proofs.Handshake_proofs.

(* ---- (a) C11 o C19: the amount text of RegisterStake / PrepayAllowance ---------------------------- *)
Open Scope N_scope.

(* an all-digit spelling is read by big.Int.SetString(s, 10) as the same number *)
Lemma parse_amount_of_parse_dec s v : parse_dec s = Some v -> Eip712.parse_amount s = Some (Z.of_N v).
Proof.
  intros H. unfold Eip712.parse_amount.
  destruct s as [|c r]; [cbn in H; discriminate|].
  assert (Hd : is_digit c = true).
  { unfold parse_dec in H. destruct (all_digits (c :: r)) eqn:A; [|discriminate].
    cbn in A. apply andb_true_iff in A. tauto. }
  unfold is_digit in Hd.
  destruct (N.eqb_spec c 43) as [->|N1]; [cbn in Hd; discriminate|].
  destruct (N.eqb_spec c 45) as [->|N2]; [cbn in Hd; discriminate|].
  destruct c as [|p]; [rewrite H; reflexivity|].
  do 6 (destruct p as [p|p|]; try (rewrite H; reflexivity)); exfalso; (apply N1 + apply N2); reflexivity.
Qed.

(* the RPC method on the request's amount text: validator = the published rule of StakeRequest /
   PrepayRequest (model/Rules.v, the rule texts are compared with the compiled descriptors in every C19
   run), parser = big.Int.SetString(amount, 10) (model/Eip712.v part I) *)
Definition svc_register_text (kec : bytes -> bytes) (cfg : RG.registry) (reg owner amount : bytes)
           (s : RG.sendres) (w : RG.receiptres) (a : RG.callres) : list RG.effect * RG.svcres :=
  RG.svc_register kec cfg reg owner (RU.stake_ok amount) (Eip712.parse_amount amount) s w a.

Lemma accepted_amount_parses amount :
  RU.stake_ok amount = true ->
  Eip712.parse_amount amount = Some (Z.of_N (dec_value amount)) /\
  0 < dec_value amount < 18446744073709551616.
Proof.
  intros H. apply Rules_proofs.stake_ok_spec in H. destruct H as (Hne & Hd & Hv).
  split; [|exact Hv]. apply parse_amount_of_parse_dec. apply Rules_proofs.parse_dec_some. auto.
Qed.

(* The request is refused (nothing sent) exactly when the amount breaks the published rule -- the
   "cannot parse" refusal behind the validator is unreachable -- and otherwise the value of the one
   transaction sent is the number the text spells (positive, below 2^64). *)
Theorem rpc_amount_is_text kec cfg reg owner amount s w a :
  (RU.stake_ok amount = false ->
     svc_register_text kec cfg reg owner amount s w a = ([], RG.SvcInvalidArgument)) /\
  (RU.stake_ok amount = true ->
     0 < dec_value amount < 18446744073709551616 /\
     svc_register_text kec cfg reg owner amount s w a =
       RG.svc_register kec cfg reg owner true (Some (Z.of_N (dec_value amount))) s w a /\
     RG.sends (fst (svc_register_text kec cfg reg owner amount s w a)) =
       [{| RG.tx_to := reg; RG.tx_value := Some (Z.of_N (dec_value amount));
           RG.tx_data := Abi.selector kec (Abi.method_sig (RG.r_register cfg) []); RG.tx_gas := false |}]).
Proof.
  split; intros H; unfold svc_register_text.
  - rewrite H. reflexivity.
  - destruct (accepted_amount_parses amount H) as (Hp & Hv). rewrite H, Hp.
    split; [exact Hv|]. split; [reflexivity|].
    destruct (RGP.register_value kec cfg reg (Some (Z.of_N (dec_value amount))) s w) as (Hs & _ & _).
    unfold RG.svc_register. cbn [negb].
    destruct (RG.register kec cfg reg (Some (Z.of_N (dec_value amount))) s w) as [t1 r] eqn:E.
    cbn [fst] in Hs. destruct r as [u|c|]; cbn [fst]; try exact Hs.
    unfold RG.get_stake. destruct a as [|b]; [|destruct (Abi.decode_uint256 b)]; cbn [fst];
      unfold RG.sends in *; rewrite flat_map_app, Hs; reflexivity.
Qed.

(* ---- (b) C11 o C08: RegisterProvider / PrepayAllowance through the sender's Send -------------------- *)

(* the TxRequest as Send sees it: no gas limit, no gas price given (tx_gas = false for every request the
   registries build: C11_value) *)
Definition request_of (r : RG.txreq) : ES.request :=
  {| ES.gas_given := RG.tx_gas r; ES.price_given := RG.tx_gas r |}.
(* client.Send returns (hash, nil) exactly when the node took the transaction *)
Definition sendres_of (hash_of : N -> bytes) (r : ES.result) : RG.sendres :=
  match r with ES.Accepted n => RG.SHash (hash_of n) | _ => RG.SErr end.

(* A stake / prepay reports success only if its one transaction was accepted by the node under a nonce n
   of the sender -- every external call of that Send succeeded, the gas estimate and the price suggestion
   included, and n passed the in-flight window -- and was mined with status 1; the sender's counter then
   stands at n+1.  When Send fails the registry reports an error and the counter was not advanced past
   the nonce tried. *)
Theorem register_through_sender kec cfg reg amount hash_of ctr cf a w :
  let rq := request_of (RG.send_req kec cfg reg amount) in
  let sr := ES.send ctr cf rq a in
  (snd (RG.register kec cfg reg amount (sendres_of hash_of (snd sr)) w) = Ok tt ->
     exists n, snd sr = ES.Accepted n /\ w = RG.WReceipt 1 /\ fst sr = ((n + 1) mod ES.w64)%N /\
       ES.allow_nonce cf n = true /\
       ES.pending a <> None /\ ES.est_ok a = true /\ ES.tip_ok a = true /\ ES.price_ok a = true /\
       ES.sign_ok a = true /\ ES.submit_ok a = true) /\
  ((forall n, snd sr <> ES.Accepted n) ->
     snd (RG.register kec cfg reg amount (sendres_of hash_of (snd sr)) w) = Err 1 /\
     forall p, ES.pending a = Some p -> fst sr = fst (ES.get_nonce ctr p)).
Proof.
  intros rq sr. split.
  - intros H. apply RGP.register_status in H. destruct H as (h & Hs & Hw).
    destruct (snd sr) as [| m |n] eqn:E; try discriminate. exists n. split; [reflexivity|]. split; [exact Hw|].
    assert (Hsr : sr = (fst sr, ES.Accepted n)) by (rewrite <- E; destruct sr; reflexivity).
    destruct (ESP.send_needs_all_calls _ _ _ _ _ _ _ Hsr) as (H1 & H2 & H3 & H4 & H5 & H6).
    subst sr. unfold ES.send, ES.send_with in Hsr |- *.
    destruct (ES.pending a) as [p|]; [|congruence].
    destruct (ES.get_nonce ctr p) as [c1 m] eqn:G.
    destruct (ES.allow_nonce cf m) eqn:AL; cbn [negb] in *; [|discriminate].
    destruct (ES.new_tx_ok rq a); cbn [negb] in *; [|discriminate].
    destruct (ES.sign_ok a); cbn [negb] in *; [|discriminate].
    destruct (ES.submit_ok a); cbn [negb] in *; [|discriminate].
    cbn [fst snd] in *. injection Hsr as Hsr. subst m.
    unfold ES.get_nonce in G. injection G as G1 G2. rewrite G1 in G2. subst c1.
    rewrite G2. repeat split; auto; try (apply H2; reflexivity); try (apply H4; reflexivity).
  - intros Hn. split.
    + destruct (snd sr) as [| m |n] eqn:E; try reflexivity. exfalso. exact (Hn n eq_refl).
    + intros p Hp. subst sr. unfold ES.send, ES.send_with in *. rewrite Hp in *.
      destruct (ES.get_nonce ctr p) as [c1 m].
      destruct (negb (ES.allow_nonce cf m)); [reflexivity|].
      destruct (negb (ES.new_tx_ok rq a)); [reflexivity|].
      destruct (negb (ES.sign_ok a)); [reflexivity|].
      destruct (negb (ES.submit_ok a)); [reflexivity|].
      exfalso. exact (Hn m eq_refl).
Qed.

(* ---- (c) C11 o C04: the handshake's stake question is CheckProviderRegistered ------------------------ *)

(* register.CheckProviderRegistered(a) of the provider registry, with the answers the chain node gives to
   its two reads at the moment of the handshake (at most one question per handshake: C04_lookups) *)
Definition registry_check (kec : bytes -> bytes) (reg : bytes) (a_min a_stake : RG.callres) : bytes -> bool :=
  fun a => snd (RG.check kec RG.provider_registry reg a a_min a_stake).

(* A peer is registered or announced as a provider only if, during that very handshake, both reads of the
   provider registry succeeded and decoded and the stake read for the peer's proven address was at least
   the minimum; the two reads are minStake() and checkStake(A) on the configured contract.  Any failed or
   malformed read refuses the provider. *)
Theorem provider_enrolled_only_if_staked kec reg a_min a_stake c o wfail script has_notifier add A :
  HS.registered o = registry_check kec reg a_min a_stake ->
  In (HS.ERegister A HS.type_provider) (HS.inbound c o wfail script has_notifier add) \/
  In (HS.ENotify A HS.type_provider) (HS.inbound c o wfail script has_notifier add) ->
  HS.addr_of_pid o = HS.POk A /\ HS.lookups (HS.handle c o wfail script) = [A] /\
  (exists m s bm bs, a_min = RG.CBytes bm /\ a_stake = RG.CBytes bs /\
       Abi.decode_uint256 bm = Some m /\ Abi.decode_uint256 bs = Some s /\ m <= s) /\
  fst (RG.check kec RG.provider_registry reg A a_min a_stake) =
    [RG.ECall (RG.read_req kec reg (RG.r_min RG.provider_registry) []);
     RG.ECall (RG.read_req kec reg (RG.r_stake RG.provider_registry) [Abi.VAddress A])].
Proof.
  intros Ho H. destruct (HSP.responder_sound c o wfail script has_notifier add A HS.type_provider H)
    as (role & token & sig & ea & er & f1 & f2 & rest & _ & _ & _ & _ & Hp & Hs & _).
  destruct (Hs eq_refl) as (Hr & Hl). split; [exact Hp|]. split; [exact Hl|].
  rewrite Ho in Hr. unfold registry_check in Hr.
  apply RGP.check_spec in Hr. destruct Hr as (m & s & (bm & bs & -> & -> & E1 & E2) & Hle).
  split; [exists m, s, bm, bs; auto|].
  rewrite RGP.check_trace, E1. reflexivity.
Qed.

Theorem unreadable_registry_refuses_provider kec reg a_min a_stake c o wfail f1 rest token sig a :
  HS.registered o = registry_check kec reg a_min a_stake ->
  (a_min = RG.CErr \/ (exists b, a_min = RG.CBytes b /\ Abi.decode_uint256 b = None) \/
   a_stake = RG.CErr \/ (exists b, a_stake = RG.CBytes b /\ Abi.decode_uint256 b = None)) ->
  HS.as_req f1 = Some (HS.provider_string, token, sig) ->
  HS.verify o sig (HS.provider_string ++ token) = HS.VOk true a -> HS.addr_of_pid o = HS.POk a ->
  HS.res (HS.handle c o wfail (f1 :: rest)) = HS.Refuse HS.RStake.
Proof.
  intros Ho Hbad Hf Hv Hp. unfold HS.handle. rewrite Hf. unfold HS.verify_req, HS.signed_data.
  rewrite Hv, Hp, !Bytes_proofs.bytes_eqb_refl, Ho. unfold registry_check.
  rewrite (RGP.check_fail_closed kec RG.provider_registry reg a a_min a_stake Hbad). reflexivity.
Qed.

(* non-vacuity *)
Section Example11.
  Let kec : bytes -> bytes := fun m => firstn 4 (m ++ [1; 2; 3; 4]).
  Let reg : bytes := repeat 9 20.
  Example ex_rpc_amount :
    RU.stake_ok (bos "0250") = true /\
    svc_register_text kec RG.provider_registry reg (repeat 7 20) (bos "0250") (RG.SHash [5]) (RG.WReceipt 1)
      (RG.CBytes (be 32 250)) =
    ([RG.ESend {| RG.tx_to := reg; RG.tx_value := Some 250%Z;
                  RG.tx_data := Abi.selector kec (Abi.method_sig (RG.r_register RG.provider_registry) []);
                  RG.tx_gas := false |};
      RG.EWait [5];
      RG.ECall (RG.read_req kec reg (RG.r_stake RG.provider_registry) [Abi.VAddress (repeat 7 20)])],
     RG.SvcOk 250).
  Proof. split; vm_compute; reflexivity. Qed.

  Let ok (p : N) : ES.answers :=
    {| ES.pending := Some p; ES.est_ok := true; ES.tip_ok := true; ES.price_ok := true;
       ES.sign_ok := true; ES.submit_ok := true |}.
  Example ex_register_through_sender :
    snd (RG.register kec RG.provider_registry reg (Some 250%Z)
           (sendres_of (fun n => [n]) (snd (ES.send 0 0 (request_of (RG.send_req kec RG.provider_registry reg (Some 250%Z))) (ok 3))))
           (RG.WReceipt 1)) = Ok tt.
  Proof. vm_compute. reflexivity. Qed.

  Let cfgh : HS.config := {| HS.own_type := 2; HS.own_token := [5]; HS.own_addr := [9; 9]; HS.own_sig := [8] |}.
  Let orc : HS.oracles :=
    {| HS.verify := fun _ _ => HS.VOk true (repeat 7 20); HS.addr_of_pid := HS.POk (repeat 7 20);
       HS.registered := registry_check kec reg (RG.CBytes (be 32 100)) (RG.CBytes (be 32 250)) |}.
  Let req : HS.frame := {| HS.as_req := Some (HS.provider_string, [5], [7]); HS.as_resp := None |}.
  Let echo : HS.frame := {| HS.as_req := None; HS.as_resp := Some ([9; 9], HS.role_string 2) |}.
  Example ex_provider_enrolled :
    HS.inbound cfgh orc (fun _ => false) [req; echo] true HS.Added =
    [HS.ERegister (repeat 7 20) HS.type_provider; HS.ENotify (repeat 7 20) HS.type_provider].
  Proof. vm_compute. reflexivity. Qed.
End Example11.
