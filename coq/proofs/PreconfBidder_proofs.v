(* Proofs about model/PreconfBidder.v (property C05). *)
From Coq Require Import String List NArith ZArith Bool Lia.
From MevVerif Require Import lib.Bytes proofs.Bytes_proofs gen.Generated model.PreconfBidder.
Import ListNotations.
Open Scope N_scope.

(* --- facts about the source the model was written from (regenerated on every run) ---------- *)
Lemma c05_src_query : c05_getpeers_query = [[bos "topology.Query{Type: p2p.PeerTypeProvider}"]].
Proof. reflexivity. Qed.
Lemma c05_src_write : c05_write_args = [[bos "ctx"; bos "signedBid"]].
Proof. reflexivity. Qed.
Lemma c05_src_verify : c05_verify_args = [[bos "preConfirmation"]].
Proof. reflexivity. Qed.
Lemma c05_src_compares : c05_compares_bid = true.
Proof. reflexivity. Qed.
(* one buffer slot per provider; the address copy *)
Lemma c05_src_make : c05_make_args =
  [[bos "chan *preconfpb.PreConfirmation"; bos "len(providers)"]; [bos "[]byte"; bos "len(providerAddress)"]].
Proof. reflexivity. Qed.

(* the transport: Service.NewStream hands the caller's context to host.NewStream; stream.WriteMsg
   and stream.ReadMsg select on ctx.Done() (pkg/p2p/libp2p/libp2p.go, stream.go) *)
Lemma c05_src_transport :
  (c05_newstream_ctx, c05_newstream_hdr_w, c05_newstream_hdr_r) = (true, [[bos "ctx"; bos "headers"]], [[bos "ctx"]]) /\
  (c05_write_ctx, c05_write_ctx_err, c05_write_async, c05_write_make) = (true, true, true, [[bos "chan error"; bos "1"]]) /\
  (c05_read_ctx, c05_read_ctx_err, c05_read_async, c05_read_make) = (true, true, true, [[bos "chan result"; bos "1"]]).
Proof. repeat split; reflexivity. Qed.

(* --- decidable equalities ------------------------------------------------------------------ *)
Lemma bid_eqb_eq a b : bid_eqb a b = true <-> a = b.
Proof.
  unfold bid_eqb. rewrite !andb_true_iff, !bytes_eqb_eq, !Z.eqb_eq.
  destruct a, b; cbn. split.
  - intros [[[[[[[-> ->] ->] ->] ->] ->] ->] ->]. reflexivity.
  - intros H; inversion H; subst. repeat split.
Qed.

Lemma bid_eqb_refl a : bid_eqb a a = true.
Proof. apply bid_eqb_eq. reflexivity. Qed.

Lemma obid_eqb_eq a b : obid_eqb a b = true <-> a = b.
Proof.
  destruct a as [x|], b as [y|]; cbn; try (split; congruence).
  rewrite bid_eqb_eq. split; congruence.
Qed.

Lemma commitment_eqb_eq a b : commitment_eqb a b = true <-> a = b.
Proof.
  unfold commitment_eqb. rewrite !andb_true_iff, !bytes_eqb_eq, obid_eqb_eq.
  destruct a, b; cbn. split.
  - intros [[[[-> ->] ->] ->] ->]. reflexivity.
  - intros H; inversion H; subst. repeat split.
Qed.

Lemma commitment_eqb_refl a : commitment_eqb a a = true.
Proof. apply commitment_eqb_eq. reflexivity. Qed.

Lemma peer_type_eqb_eq a b : peer_type_eqb a b = true <-> a = b.
Proof. destruct a, b; cbn; split; congruence. Qed.

(* --- topology query ------------------------------------------------------------------------ *)
Lemma get_peers_spec ty view p : In p (get_peers ty view) <-> In p view /\ p_type p = ty.
Proof. unfold get_peers. rewrite filter_In, peer_type_eqb_eq. tauto. Qed.

(* --- maxima -------------------------------------------------------------------------------- *)
Lemma max_list_cons y l : max_list (y :: l) = N.max y (max_list l).
Proof. reflexivity. Qed.

Lemma max_list_ge l x : In x l -> x <= max_list l.
Proof.
  induction l as [|y l IH]; [intros []|]. rewrite max_list_cons.
  intros [->|H]; [lia|]. specialize (IH H). lia.
Qed.

Lemma max_list_bound l D : (forall x, In x l -> x <= D) -> max_list l <= D.
Proof.
  induction l as [|y l IH]; intros H; [cbn; lia|]. rewrite max_list_cons.
  assert (y <= D) by (apply H; left; reflexivity).
  assert (max_list l <= D) by (apply IH; intros; apply H; right; assumption). lia.
Qed.

Lemma max_list_in l : l <> [] -> In (max_list l) l.
Proof.
  induction l as [|y l IH]; [congruence|]. intros _. rewrite max_list_cons.
  destruct l as [|z l].
  - left. cbn. lia.
  - assert (H : In (max_list (z :: l)) (z :: l)) by (apply IH; congruence).
    destruct (N.max_spec y (max_list (z :: l))) as [[_ E]|[_ E]]; rewrite E;
      [right; exact H | left; reflexivity].
Qed.

(* --- one goroutine ------------------------------------------------------------------------- *)
Lemma finish_time_le D p : finish_time D p <= D.
Proof.
  unfold finish_time, arrives. destruct (p_reply p); try lia;
    destruct (p_time p <? D) eqn:E; try lia; apply N.ltb_lt in E; lia.
Qed.

Lemma arrives_lt D p : arrives D p = true -> p_time p < D /\ p_reply p <> RSilence.
Proof.
  unfold arrives. destruct (p_reply p); try discriminate; intros E; apply N.ltb_lt in E; split; congruence.
Qed.

Lemma finish_time_arrives D p : arrives D p = true -> finish_time D p = p_time p.
Proof. unfold finish_time. intros ->. reflexivity. Qed.

Lemma finish_time_late D p : arrives D p = false -> finish_time D p = D.
Proof. unfold finish_time. intros ->. reflexivity. Qed.

Lemma provider_run_addr cmp vf sent D p : g_addr (provider_run cmp vf sent D p) = p_addr p.
Proof.
  unfold provider_run. destruct (p_reply p); try reflexivity.
  destruct (arrives D p); [|reflexivity]. destruct (vf c); try reflexivity.
  destruct (cmp && _); reflexivity.
Qed.

Lemma provider_run_finish cmp vf sent D p : g_finish (provider_run cmp vf sent D p) = finish_time D p.
Proof.
  unfold provider_run. destruct (p_reply p); try reflexivity.
  destruct (arrives D p); [|reflexivity]. destruct (vf c); try reflexivity.
  destruct (cmp && _); reflexivity.
Qed.

Definition opens_stream (p : peer) : bool :=
  match p_reply p with RNewStreamErr => false | _ => true end.

Lemma provider_run_written cmp vf sent D p :
  g_written (provider_run cmp vf sent D p) = if opens_stream p then [sent] else [].
Proof.
  unfold provider_run, opens_stream. destruct (p_reply p); try reflexivity.
  destruct (arrives D p); [|reflexivity]. destruct (vf c); try reflexivity.
  destruct (cmp && _); reflexivity.
Qed.

(* the only way a goroutine hands a value over *)
Lemma provider_run_deliver cmp vf sent D p c :
  g_out (provider_run cmp vf sent D p) = GDeliver c ->
  exists c0 rest a, p_reply p = RFrames c0 rest /\ arrives D p = true /\ vf c0 = Ok a /\
                    c = set_prov c0 a /\ (cmp = true -> c_bid c0 = Some sent).
Proof.
  unfold provider_run. destruct (p_reply p) as [| | | | |c0 rest] eqn:R; try discriminate.
  destruct (arrives D p) eqn:A; [|discriminate].
  destruct (vf c0) as [a| |] eqn:V; try discriminate.
  destruct cmp; cbn [andb].
  - destruct (obid_eqb (c_bid c0) (Some sent)) eqn:E; cbn [negb]; [|discriminate].
    intros H; inversion H; subst. exists c0, rest, a. repeat split; auto.
    intros _. apply obid_eqb_eq. exact E.
  - intros H; inversion H; subst. exists c0, rest, a. repeat split; auto. discriminate.
Qed.

(* a provider "answers validly": a decodable frame arrives before the deadline, the signer
   accepts it and it embeds the bid that was sent *)
Definition answers_validly (o : oracles) (sent : bid) (D : N) (p : peer) : Prop :=
  exists c0 rest a, p_reply p = RFrames c0 rest /\ p_time p < D /\ verify o c0 = Ok a /\ c_bid c0 = Some sent.

(* the contribution of provider p to the result channel in the current code *)
Definition contribution (o : oracles) (sent : bid) (D : N) (p : peer) : list (N * commitment) :=
  delivery (provider_run true (verify o) sent D p).

Lemma contribution_length o sent D p : (length (contribution o sent D p) <= 1)%nat.
Proof. unfold contribution, delivery. destruct (g_out _); cbn; lia. Qed.

Lemma contribution_nothing o sent D p : ~ answers_validly o sent D p -> contribution o sent D p = [].
Proof.
  intros H. unfold contribution, delivery.
  destruct (g_out (provider_run true (verify o) sent D p)) eqn:G; try reflexivity.
  exfalso. apply H. apply provider_run_deliver in G.
  destruct G as (c0 & rest & a & R & A & V & _ & B).
  exists c0, rest, a. apply arrives_lt in A. intuition.
Qed.

Lemma contribution_valid o sent D p c0 rest a :
  p_reply p = RFrames c0 rest -> p_time p < D -> verify o c0 = Ok a -> c_bid c0 = Some sent ->
  contribution o sent D p = [(p_time p, set_prov c0 a)].
Proof.
  intros R T V B. unfold contribution, delivery.
  assert (A : arrives D p = true) by (unfold arrives; rewrite R; apply N.ltb_lt; exact T).
  rewrite provider_run_finish, (finish_time_arrives _ _ A).
  unfold provider_run. rewrite R, A, V, B. cbn [andb].
  replace (obid_eqb (Some sent) (Some sent)) with true by (symmetry; apply obid_eqb_eq; reflexivity).
  reflexivity.
Qed.

(* --- SendBid -------------------------------------------------------------------------------- *)
Lemma send_bid_gen_run cmp o a view D r :
  send_bid_gen cmp o a view D = SRun r ->
  exists sent, construct o a = Ok sent /\
    let provs := get_peers TProvider view in
    let gs := map (provider_run cmp (verify o) sent D) provs in
    provs <> [] /\ existsb crashed gs = false /\
    r = mkRun sent (map (fun g => (g_addr g, g_written g)) gs) (flat_map delivery gs)
              (max_list (map g_finish gs)).
Proof.
  unfold send_bid_gen. destruct (construct o a) as [sent| |]; try discriminate.
  destruct (get_peers TProvider view) as [|p ps] eqn:P; [discriminate|].
  destruct (existsb crashed _) eqn:C; [discriminate|].
  intros H; inversion H; subst. exists sent. cbn zeta. repeat split; auto. congruence.
Qed.

Lemma flat_map_map {A B C} (f : A -> B) (g : B -> list C) l :
  flat_map g (map f l) = flat_map (fun x => g (f x)) l.
Proof. induction l; cbn; congruence. Qed.

Theorem surface o a view D r :
  send_bid o a view D = SRun r ->
  construct o a = Ok (r_sent r) /\
  (forall t c, In (t, c) (r_delivered r) ->
     exists p c0 rest addr,
       In p view /\ p_type p = TProvider /\ p_reply p = RFrames c0 rest /\ p_time p < D /\ t = p_time p /\
       verify o c0 = Ok addr /\ c = set_prov c0 addr /\ c_prov c = addr /\ c_bid c = Some (r_sent r)) /\
  (exists contrib : peer -> list (N * commitment),
     r_delivered r = flat_map contrib (get_peers TProvider view) /\
     forall p, (length (contrib p) <= 1)%nat /\
               (~ answers_validly o (r_sent r) D p -> contrib p = []) /\
               (forall c0 rest addr, p_reply p = RFrames c0 rest -> p_time p < D ->
                  verify o c0 = Ok addr -> c_bid c0 = Some (r_sent r) ->
                  contrib p = [(p_time p, set_prov c0 addr)])).
Proof.
  intros H. apply send_bid_gen_run in H. destruct H as (sent & Cs & _ & _ & ->). cbn [r_sent r_delivered].
  split; [exact Cs|]. split.
  - intros t c HIn. rewrite flat_map_map in HIn. apply in_flat_map in HIn.
    destruct HIn as (p & Hp & Hd). apply get_peers_spec in Hp. destruct Hp as [Hv Ht].
    unfold delivery in Hd. destruct (g_out _) eqn:G; cbn in Hd; try tauto.
    destruct Hd as [Hd|[]]. inversion Hd; subst; clear Hd.
    rewrite provider_run_finish. apply provider_run_deliver in G.
    destruct G as (c0 & rest & addr & R & A & V & -> & B).
    exists p, c0, rest, addr. rewrite (finish_time_arrives _ _ A). apply arrives_lt in A.
    destruct A as [A1 A2]. assert (B' : c_bid c0 = Some sent) by (apply B; reflexivity).
    repeat split; auto.
  - exists (contribution o sent D). split; [rewrite flat_map_map; reflexivity|].
    intros p. split; [apply contribution_length|]. split; [apply contribution_nothing|].
    intros c0 rest addr. apply contribution_valid.
Qed.

(* under the premise that the signer does not look at the ProviderAddress field, the delivered
   value itself verifies, to the address it reports *)
Theorem surface_verified o a view D r :
  (forall c x, verify o (set_prov c x) = verify o c) ->
  send_bid o a view D = SRun r ->
  forall t c, In (t, c) (r_delivered r) ->
    verify o c = Ok (c_prov c) /\ c_bid c = Some (r_sent r) /\ t < D.
Proof.
  intros Hv H t c HIn. destruct (surface _ _ _ _ _ H) as (_ & S & _).
  destruct (S t c HIn) as (p & c0 & rest & addr & _ & _ & _ & T & -> & V & -> & Pa & B).
  rewrite Hv. cbn. auto.
Qed.

(* failing, stalling and garbage providers: each of these alone implies "contributes nothing" *)
Theorem silent o sent D p :
  (forall c rest, p_reply p <> RFrames c rest) \/ D <= p_time p \/
  (forall c rest, p_reply p = RFrames c rest -> forall addr, verify o c <> Ok addr) \/
  (forall c rest, p_reply p = RFrames c rest -> c_bid c <> Some sent) ->
  ~ answers_validly o sent D p.
Proof.
  intros H (c0 & rest & addr & R & T & V & B).
  destruct H as [H|[H|[H|H]]].
  - eapply H; eauto.
  - lia.
  - eapply H; eauto.
  - eapply H; eauto.
Qed.

Theorem fanout o a view D r :
  send_bid o a view D = SRun r ->
  construct o a = Ok (r_sent r) /\
  Forall2 (fun p ct => fst ct = p_addr p /\ snd ct = if opens_stream p then [r_sent r] else [])
          (get_peers TProvider view) (r_contacted r) /\
  (forall p, In p (get_peers TProvider view) <-> In p view /\ p_type p = TProvider).
Proof.
  intros H. apply send_bid_gen_run in H. destruct H as (sent & Cs & _ & _ & ->). cbn [r_sent r_contacted].
  split; [exact Cs|]. split; [|intros p; apply get_peers_spec].
  induction (get_peers TProvider view) as [|p ps IH]; cbn; constructor; auto.
  cbn. rewrite provider_run_addr, provider_run_written. auto.
Qed.

Theorem refused o a view D :
  send_bid o a view D = SErr <->
  (exists e, construct o a = Err e) \/ (exists s, construct o a = Ok s /\ get_peers TProvider view = []).
Proof.
  unfold send_bid, send_bid_gen. destruct (construct o a) as [sent|e|].
  - destruct (get_peers TProvider view) as [|p ps] eqn:P.
    + split; auto. intros _. right. exists sent. auto.
    + destruct (existsb crashed _); split; try discriminate;
        intros [[e He]|[s [_ Hs]]]; discriminate.
  - split; auto. intros _. left. eauto.
  - split; [discriminate|]. intros [[e He]|[s [Hs _]]]; discriminate.
Qed.

(* the call can only crash through the signer *)
Theorem no_crash o a view D :
  construct o a <> Panic -> (forall c, verify o c <> Panic) -> send_bid o a view D <> SPanic.
Proof.
  intros Hc Hv. unfold send_bid, send_bid_gen. destruct (construct o a) as [sent|e|]; try congruence.
  destruct (get_peers TProvider view) as [|p ps]; [congruence|].
  destruct (existsb crashed _) eqn:C; [|congruence].
  apply existsb_exists in C. destruct C as (g & Hg & Cg). apply in_map_iff in Hg.
  destruct Hg as (q & <- & _). exfalso. revert Cg. unfold crashed, provider_run.
  destruct (p_reply q); try discriminate. destruct (arrives D q); [|discriminate].
  destruct (verify o c) eqn:V; try discriminate.
  - destruct (true && _); discriminate.
  - exfalso. eapply Hv; eauto.
Qed.

Theorem termination o a view D r :
  send_bid o a view D = SRun r ->
  r_close r <= D /\
  (forall p, In p (get_peers TProvider view) -> finish_time D p <= r_close r) /\
  (exists p, In p (get_peers TProvider view) /\ r_close r = finish_time D p) /\
  (forall t c, In (t, c) (r_delivered r) -> t <= r_close r).
Proof.
  intros H. apply send_bid_gen_run in H. destruct H as (sent & Cs & Hne & _ & ->).
  cbn [r_close r_delivered]. cbn zeta in Hne.
  rewrite map_map.
  assert (E : map (fun x => g_finish (provider_run true (verify o) sent D x)) (get_peers TProvider view)
              = map (finish_time D) (get_peers TProvider view)).
  { apply map_ext. intros p. apply provider_run_finish. }
  rewrite E. repeat split.
  - apply max_list_bound. intros x Hx. apply in_map_iff in Hx. destruct Hx as (p & <- & _). apply finish_time_le.
  - intros p Hp. apply max_list_ge. apply in_map. exact Hp.
  - assert (Hm : In (max_list (map (finish_time D) (get_peers TProvider view)))
                    (map (finish_time D) (get_peers TProvider view))).
    { apply max_list_in. destruct (get_peers TProvider view); [congruence|discriminate]. }
    apply in_map_iff in Hm. destruct Hm as (p & Hp & HIn). exists p. auto.
  - intros t c HIn. rewrite flat_map_map in HIn. apply in_flat_map in HIn.
    destruct HIn as (p & Hp & Hd). unfold delivery in Hd.
    destruct (g_out _); cbn in Hd; try tauto. destruct Hd as [Hd|[]]. inversion Hd; subst.
    rewrite provider_run_finish. apply max_list_ge. apply in_map. exact Hp.
Qed.

(* what a provider's finishing time is *)
Lemma finish_time_spec D p :
  (p_reply p <> RSilence /\ p_time p < D /\ finish_time D p = p_time p) \/
  ((p_reply p = RSilence \/ D <= p_time p) /\ finish_time D p = D).
Proof.
  destruct (arrives D p) eqn:A.
  - left. destruct (arrives_lt _ _ A). rewrite (finish_time_arrives _ _ A). auto.
  - right. rewrite (finish_time_late _ _ A). split; auto.
    unfold arrives in A. destruct (p_reply p); auto; apply N.ltb_ge in A; auto.
Qed.

(* --- the code before 93c1731 ---------------------------------------------------------------- *)
Definition w_sent : bid := mkBid (bos "tx") (bos "5") 7 1 2 [1] [2] [].
Definition w_other : bid := mkBid (bos "tx") (bos "6") 7 1 2 [3] [4] [].
Definition w_frame : commitment := mkCommitment (Some w_other) [5] [6] [] [].
Definition w_oracles : oracles :=
  mkOracles (fun _ => Ok w_sent)
            (fun c => if bytes_eqb (c_sig c) [6] then Ok [9; 9] else Err 1).
Definition w_view : list peer := [mkPeer [1] TProvider (RFrames w_frame []) 1].
Definition w_args : call_args := mkArgs (bos "tx") (bos "5") 7 1 2.

Theorem surface_v0_refuted :
  exists o a view D r t c,
    send_bid_v0 o a view D = SRun r /\ In (t, c) (r_delivered r) /\
    verify o c = Ok (c_prov c) /\ c_bid c <> Some (r_sent r).
Proof.
  exists w_oracles, w_args, w_view, 2,
    (mkRun w_sent [([1], [w_sent])] [(1, set_prov w_frame [9; 9])] 1), 1, (set_prov w_frame [9; 9]).
  split; [vm_compute; reflexivity|]. split; [left; reflexivity|].
  split; [vm_compute; reflexivity|]. vm_compute. discriminate.
Qed.

(* the same provider contributes nothing in the code as it is now *)
Example surface_now_on_witness :
  send_bid w_oracles w_args w_view 2 = SRun (mkRun w_sent [([1], [w_sent])] [] 1).
Proof. vm_compute. reflexivity. Qed.

(* --- non-vacuity ----------------------------------------------------------------------------- *)
(* three providers: an honest one at time 1, one that answers for another bid at time 2, a
   silent one; one bidder; deadline 5: exactly the honest commitment is delivered at time 1,
   the bid is written three times and the channel closes at the deadline. *)
Definition e_frame : commitment := mkCommitment (Some w_sent) [5] [6] [7] [].
Definition e_view : list peer :=
  [mkPeer [1] TProvider (RFrames e_frame [w_frame]) 1; mkPeer [2] TProvider (RFrames w_frame []) 2;
   mkPeer [4] TBidder (RFrames e_frame []) 1; mkPeer [3] TProvider RSilence 0].
Definition e_run : run :=
  mkRun w_sent [([1], [w_sent]); ([2], [w_sent]); ([3], [w_sent])] [(1, set_prov e_frame [9; 9])] 5.

Example send_bid_example : send_bid w_oracles w_args e_view 5 = SRun e_run.
Proof. vm_compute. reflexivity. Qed.

Example w_oracles_ignore_prov : forall c x, verify w_oracles (set_prov c x) = verify w_oracles c.
Proof. reflexivity. Qed.

Example answers_validly_example : answers_validly w_oracles w_sent 5 (mkPeer [1] TProvider (RFrames e_frame [w_frame]) 1).
Proof. exists e_frame, [w_frame], [9; 9]. repeat split; try reflexivity. Qed.

Example silent_example : ~ answers_validly w_oracles w_sent 5 (mkPeer [2] TProvider (RFrames w_frame []) 2).
Proof.
  apply silent. right. right. right. intros c rest H. inversion H; subst. vm_compute. discriminate.
Qed.

(* all providers answered before the deadline: the channel closes at the last answer, not at D *)
Example early_close_example :
  send_bid w_oracles w_args [mkPeer [1] TProvider (RFrames e_frame []) 1; mkPeer [2] TProvider RReadErr 3] 9 =
  SRun (mkRun w_sent [([1], [w_sent]); ([2], [w_sent])] [(1, set_prov e_frame [9; 9])] 3).
Proof. vm_compute. reflexivity. Qed.

Example refused_example : send_bid w_oracles w_args [mkPeer [4] TBidder RSilence 0] 5 = SErr.
Proof. vm_compute. reflexivity. Qed.

(* ============================================================================================ *)
(* The executable checker of check/Check_C05.v (what is evaluated on the implementation's
   observations) against the propositions above.                                                *)
(* ============================================================================================ *)
From Coq Require Import Permutation.
From MevVerif Require Import check.Check_C05.

Section MultisetFacts.
  Context {A : Type} (eqb : A -> A -> bool).
  Context (eqb_eq : forall a b, eqb a b = true <-> a = b).

  Lemma remove1_some a l l' : remove1 eqb a l = Some l' -> Permutation l (a :: l').
  Proof.
    revert l'. induction l as [|y r IH]; cbn; intros l' H; [discriminate|].
    destruct (eqb a y) eqn:E.
    - apply eqb_eq in E. inversion H; subst. reflexivity.
    - destruct (remove1 eqb a r) as [r'|]; [|discriminate]. inversion H; subst.
      rewrite (IH r' eq_refl). apply perm_swap.
  Qed.

  Lemma remove1_in a l : In a l -> exists l', remove1 eqb a l = Some l'.
  Proof.
    induction l as [|y r IH]; cbn; [tauto|]. intros H.
    destruct (eqb a y) eqn:E; [eauto|].
    destruct H as [->|H]; [assert (eqb a a = true) by (apply eqb_eq; reflexivity); congruence|].
    destruct (IH H) as [r' ->]. eauto.
  Qed.

  Lemma sub_multiset_spec l1 l2 :
    sub_multiset eqb l1 l2 = true <-> exists l3, Permutation (l1 ++ l3) l2.
  Proof.
    revert l2. induction l1 as [|a r IH]; intros l2; cbn.
    - split; [intros _; exists l2; reflexivity | reflexivity].
    - split.
      + destruct (remove1 eqb a l2) as [l2'|] eqn:R; [|discriminate].
        intros H. apply IH in H. destruct H as [l3 H]. exists l3.
        rewrite (remove1_some _ _ _ R). constructor. exact H.
      + intros [l3 H].
        assert (Ha : In a l2) by (eapply Permutation_in; [exact H | left; reflexivity]).
        destruct (remove1_in _ _ Ha) as [l2' R]. rewrite R. apply IH. exists l3.
        apply Permutation_cons_inv with (a := a). rewrite H. apply remove1_some. exact R.
  Qed.

  Lemma perm_eqb_spec l1 l2 : perm_eqb eqb l1 l2 = true <-> Permutation l1 l2.
  Proof.
    unfold perm_eqb. rewrite andb_true_iff, Nat.eqb_eq, sub_multiset_spec. split.
    - intros [L [l3 H]]. assert (E : l3 = []).
      { apply Permutation_length in H. rewrite app_length in H. destruct l3; [reflexivity|cbn in H; lia]. }
      subst. rewrite app_nil_r in H. exact H.
    - intros H. split; [apply Permutation_length; exact H|]. exists []. rewrite app_nil_r. exact H.
  Qed.
End MultisetFacts.

Lemma list_eqb_eq {A} (eqb : A -> A -> bool) (H : forall a b, eqb a b = true <-> a = b) l1 l2 :
  list_eqb eqb l1 l2 = true <-> l1 = l2.
Proof.
  revert l2. induction l1 as [|x l1 IH]; destruct l2 as [|y l2]; cbn; try (split; congruence).
  rewrite andb_true_iff, H, IH. split; [intros [-> ->]; reflexivity | intros E; inversion E; auto].
Qed.

Lemma sub_flat_map {A B} (f g : A -> list B) l :
  (forall x, f x = [] \/ f x = g x) -> exists l3, Permutation (flat_map f l ++ l3) (flat_map g l).
Proof.
  intros H. induction l as [|x l [l3 IH]]; cbn; [exists []; reflexivity|].
  destruct (H x) as [E|E]; rewrite E.
  - exists (g x ++ l3). cbn. rewrite Permutation_app_swap_app. apply Permutation_app_head. exact IH.
  - exists l3. rewrite <- app_assoc. apply Permutation_app_head. exact IH.
Qed.

Lemma map_flat_map {A B C} (h : B -> C) (f : A -> list B) l :
  map h (flat_map f l) = flat_map (fun x => map h (f x)) l.
Proof. induction l; cbn; [reflexivity|]. rewrite map_app. congruence. Qed.

Lemma nodup_map_inj {A B} (f : A -> B) l p q :
  NoDup (map f l) -> In p l -> In q l -> f p = f q -> p = q.
Proof.
  induction l as [|x l IH]; cbn; [tauto|]. intros N Hp Hq E. inversion N; subst.
  destruct Hp as [->|Hp], Hq as [->|Hq]; auto.
  - exfalso. apply H1. rewrite E. apply in_map. exact Hq.
  - exfalso. apply H1. rewrite <- E. apply in_map. exact Hp.
Qed.

Lemma strip_set_prov c x : strip (set_prov c x) = strip c.
Proof. reflexivity. Qed.

Lemma app_nil2 {A} (a b : list A) : a = [] -> b = [] -> a ++ b = [].
Proof. intros -> ->. reflexivity. Qed.

Lemma clause_nil ok k : clause ok k = [] <-> ok = true.
Proof. destruct ok; cbn; split; congruence. Qed.

Lemma run_close o a view D r :
  send_bid o a view D = SRun r -> r_close r = max_list (map (finish_time D) (get_peers TProvider view)).
Proof.
  intros H. apply send_bid_gen_run in H. destruct H as (sent & _ & _ & _ & ->). cbn [r_close].
  rewrite map_map. f_equal. apply map_ext. intros p. apply provider_run_finish.
Qed.

Lemma run_delivered o a view D r :
  send_bid o a view D = SRun r ->
  r_delivered r = flat_map (contribution o (r_sent r) D) (get_peers TProvider view).
Proof.
  intros H. apply send_bid_gen_run in H. destruct H as (sent & _ & _ & _ & ->). cbn [r_delivered r_sent].
  rewrite flat_map_map. reflexivity.
Qed.


(* ============================================================================================ *)
(* The operational model ([send_bid_op]): context checks per operation.                          *)
(* ============================================================================================ *)
Lemma repo_transport_is_ctx : repo_transport = ctx_transport.
Proof. reflexivity. Qed.

Lemma leb0 D : (D <=? 0) = (D =? 0).
Proof. destruct D; reflexivity. Qed.

(* case analysis over the script, the transport flags and the position of the deadline *)
Ltac op_split tr D p :=
  destruct tr as [hn hw hr ps]; unfold provider_op, wait;
  cbn [ctx_newstream ctx_write ctx_read pick_send];
  rewrite ?N.ltb_antisym, <- ?leb0;
  destruct (p_reply p) eqn:R; destruct hn, hw, hr;
  destruct (D <=? 0) eqn:E0; destruct (D <=? p_time p) eqn:E1;
  cbn [andb orb negb]; rewrite ?N.ltb_antisym, ?E0, ?E1; cbn [andb orb negb].
Ltac op_rest :=
  repeat match goal with
         | |- context [match ?v ?c with Ok _ => _ | Err _ => _ | Panic => _ end] => destruct (v c) eqn:?V
         | |- context [if ?b then _ else _] => destruct b eqn:?
         end; cbn.

Lemma provider_op_addr cmp tr vf sent D p : x_addr (provider_op cmp tr vf sent D p) = p_addr p.
Proof. op_split tr D p; op_rest; reflexivity. Qed.

(* the stream is opened: the script does not make NewStream fail, and NewStream does not see an
   already expired context *)
Definition opens_stream_op (tr : transport) (D : N) (p : peer) : bool :=
  match p_reply p with
  | RNewStreamErr => false
  | _ => negb (ctx_newstream tr && (D =? 0))
  end.

Lemma provider_op_written cmp tr vf sent D p :
  x_written (provider_op cmp tr vf sent D p) = if opens_stream_op tr D p then [sent] else [].
Proof. unfold opens_stream_op. op_split tr D p; op_rest; reflexivity. Qed.

(* when a goroutine is finished, as a function of script, transport and deadline *)
Definition blocked (watches_ctx : bool) (D : N) (ev : option N) : time :=
  match wait watches_ctx D ev with Scripted t | CtxErr t => At t | Blocks => Never end.

Definition finish_op (tr : transport) (D : N) (p : peer) : time :=
  match p_reply p with
  | RNewStreamErr => blocked (ctx_newstream tr) D (Some (p_time p))
  | RWriteErr => if ctx_newstream tr && (D =? 0) then At 0 else blocked (ctx_write tr) D (Some (p_time p))
  | r => if (ctx_newstream tr || ctx_write tr) && (D =? 0) then At 0
         else blocked (ctx_read tr) D (match r with RSilence => None | _ => Some (p_time p) end)
  end.

Lemma eqb0_eq D : (D =? 0) = true -> D = 0.
Proof. apply N.eqb_eq. Qed.

Lemma provider_op_finish cmp tr vf sent D p :
  x_finish (provider_op cmp tr vf sent D p) = finish_op tr D p.
Proof.
  unfold finish_op, blocked. op_split tr D p; op_rest; try reflexivity;
    try (apply N.leb_le in E0; assert (D = 0) by lia; subst; reflexivity).
Qed.

(* on a transport whose three operations watch the context, every goroutine is finished by the
   deadline -- at its scripted event if that lies before D, else at D *)
Lemma finish_op_ctx tr D p :
  ctx_newstream tr = true -> ctx_write tr = true -> ctx_read tr = true ->
  finish_op tr D p = At (finish_time D p).
Proof.
  destruct tr as [hn hw hr ps]. cbn. intros -> -> ->.
  unfold finish_op, blocked, wait, finish_time, arrives. cbn [ctx_newstream ctx_write ctx_read andb orb].
  rewrite ?N.ltb_antisym, <- ?leb0.
  destruct (p_reply p); destruct (D <=? 0) eqn:E0; destruct (D <=? p_time p) eqn:E1; cbn; try reflexivity;
    apply N.leb_le in E0; assert (D = 0) by lia; subst; try reflexivity;
    apply N.leb_gt in E1; lia.
Qed.

(* the only way a goroutine hands a value over *)
Lemma provider_op_deliver cmp tr vf sent D p c :
  x_out (provider_op cmp tr vf sent D p) = GDeliver c ->
  exists c0 rest a, p_reply p = RFrames c0 rest /\ vf c0 = Ok a /\ c = set_prov c0 a /\
                    (cmp = true -> c_bid c0 = Some sent) /\
                    x_finish (provider_op cmp tr vf sent D p) = At (p_time p) /\
                    (p_time p < D \/ (ctx_read tr = false /\ pick_send tr = true)).
Proof.
  op_split tr D p; try discriminate;
    (destruct (vf c0) as [a| |] eqn:V; try discriminate);
    (destruct cmp; cbn [andb];
     [destruct (obid_eqb (c_bid c0) (Some sent)) eqn:B; cbn [negb]; try discriminate|]);
    try (destruct ps; cbn; try discriminate);
    intros H; inversion H; subst;
    match goal with R : p_reply p = RFrames ?f ?r |- _ => exists f, r, a end;
    (repeat split; auto; try discriminate; try (intros _; apply obid_eqb_eq; exact B);
     try (left; apply N.leb_gt; exact E1); try (right; split; reflexivity)).
Qed.

Lemma send_bid_op_run cmp tr o a view D r :
  send_bid_op_gen cmp tr o a view D = XRun r ->
  exists sent, construct o a = Ok sent /\
    let provs := get_peers TProvider view in
    let gs := map (provider_op cmp tr (verify o) sent D) provs in
    provs <> [] /\ existsb x_crashed gs = false /\
    r = mkXRun sent (map (fun g => (x_addr g, x_written g)) gs) (flat_map x_delivery gs)
               (tmax_list (map x_finish gs)).
Proof.
  unfold send_bid_op_gen. destruct (construct o a) as [sent| |]; try discriminate.
  destruct (get_peers TProvider view) as [|p ps] eqn:P; [discriminate|].
  destruct (existsb x_crashed _) eqn:C; [discriminate|].
  intros H; inversion H; subst. exists sent. cbn zeta. repeat split; auto. congruence.
Qed.

(* the contribution of provider p to the result channel *)
Definition contribution_op (tr : transport) (o : oracles) (sent : bid) (D : N) (p : peer) : list (N * commitment) :=
  x_delivery (provider_op true tr (verify o) sent D p).

Lemma contribution_op_length tr o sent D p : (length (contribution_op tr o sent D p) <= 1)%nat.
Proof. unfold contribution_op, x_delivery. destruct (x_out _); cbn; try lia. destruct (x_finish _); cbn; lia. Qed.

Lemma contribution_op_in tr o sent D p t c :
  In (t, c) (contribution_op tr o sent D p) ->
  exists c0 rest a, p_reply p = RFrames c0 rest /\ verify o c0 = Ok a /\ c = set_prov c0 a /\
                    c_bid c0 = Some sent /\ t = p_time p /\
                    (p_time p < D \/ (ctx_read tr = false /\ pick_send tr = true)).
Proof.
  unfold contribution_op, x_delivery.
  destruct (x_out (provider_op true tr (verify o) sent D p)) as [d| |] eqn:G; try (intros []).
  apply provider_op_deliver in G. destruct G as (f & rest & a & R & V & E & B & F & T).
  rewrite F. intros [H|[]]. inversion H; subst. exists f, rest, a. repeat split; auto.
Qed.

(* completeness, for an answer STRICTLY before the deadline: at the deadline itself the read
   loses against the context on a transport that watches it, and where it does not, the final
   select may drop the value ([pick_send]) *)
Lemma contribution_op_valid tr o sent D p c0 rest a :
  p_reply p = RFrames c0 rest -> p_time p < D -> verify o c0 = Ok a -> c_bid c0 = Some sent ->
  contribution_op tr o sent D p = [(p_time p, set_prov c0 a)].
Proof.
  intros R0 T V B. unfold contribution_op, x_delivery.
  assert (X0 : (D <=? 0) = false) by (apply N.leb_gt; lia).
  assert (X1 : (D <=? p_time p) = false) by (apply N.leb_gt; lia).
  op_split tr D p; try discriminate; inversion R0; subst; rewrite V, B;
    replace (obid_eqb (Some sent) (Some sent)) with true by (symmetry; apply obid_eqb_eq; reflexivity);
    cbn; reflexivity.
Qed.

Lemma contribution_op_nothing tr o sent D p :
  (ctx_read tr = true \/ pick_send tr = false) ->
  ~ answers_validly o sent D p -> contribution_op tr o sent D p = [].
Proof.
  intros Hc H. destruct (contribution_op tr o sent D p) as [|[t c] l] eqn:E; [reflexivity|].
  exfalso. apply H. assert (I : In (t, c) (contribution_op tr o sent D p)) by (rewrite E; left; reflexivity).
  apply contribution_op_in in I. destruct I as (c0 & rest & a & R & V & _ & B & _ & [T|[T1 T2]]).
  - exists c0, rest, a. auto.
  - destruct Hc; congruence.
Qed.

(* safety holds on every transport and for every resolution of the final select *)
Theorem op_surface tr o a view D r :
  send_bid_op tr o a view D = XRun r ->
  construct o a = Ok (xr_sent r) /\
  (forall t c, In (t, c) (xr_delivered r) ->
     exists p c0 rest addr,
       In p view /\ p_type p = TProvider /\ p_reply p = RFrames c0 rest /\ t = p_time p /\
       (ctx_read tr = true -> t < D) /\
       verify o c0 = Ok addr /\ c = set_prov c0 addr /\ c_prov c = addr /\ c_bid c = Some (xr_sent r)) /\
  (exists contrib : peer -> list (N * commitment),
     xr_delivered r = flat_map contrib (get_peers TProvider view) /\
     forall p, (length (contrib p) <= 1)%nat /\
               ((ctx_read tr = true \/ pick_send tr = false) ->
                ~ answers_validly o (xr_sent r) D p -> contrib p = []) /\
               (forall c0 rest addr, p_reply p = RFrames c0 rest -> p_time p < D ->
                  verify o c0 = Ok addr -> c_bid c0 = Some (xr_sent r) ->
                  contrib p = [(p_time p, set_prov c0 addr)])).
Proof.
  intros H. apply send_bid_op_run in H. destruct H as (sent & Cs & _ & _ & ->). cbn [xr_sent xr_delivered].
  split; [exact Cs|]. split.
  - intros t c HIn. rewrite flat_map_map in HIn. apply in_flat_map in HIn.
    destruct HIn as (p & Hp & Hd). apply get_peers_spec in Hp. destruct Hp as [Hv Ht].
    apply (contribution_op_in tr o sent D p t c) in Hd.
    destruct Hd as (c0 & rest & addr & R & V & -> & B & -> & T).
    exists p, c0, rest, addr. repeat split; auto.
    intros Hr. destruct T as [T|[T _]]; [exact T|congruence].
  - exists (contribution_op tr o sent D). split; [rewrite flat_map_map; reflexivity|].
    intros p. split; [apply contribution_op_length|]. split; [apply contribution_op_nothing|].
    intros c0 rest addr. apply contribution_op_valid.
Qed.

Theorem op_surface_verified tr o a view D r :
  (forall c x, verify o (set_prov c x) = verify o c) ->
  send_bid_op tr o a view D = XRun r ->
  forall t c, In (t, c) (xr_delivered r) ->
    verify o c = Ok (c_prov c) /\ c_bid c = Some (xr_sent r) /\ (ctx_read tr = true -> t < D).
Proof.
  intros Hv H t c HIn. destruct (op_surface _ _ _ _ _ _ H) as (_ & S & _).
  destruct (S t c HIn) as (p & c0 & rest & addr & _ & _ & _ & -> & T & V & -> & Pa & B).
  rewrite Hv. cbn. auto.
Qed.

Theorem op_fanout tr o a view D r :
  send_bid_op tr o a view D = XRun r ->
  construct o a = Ok (xr_sent r) /\
  Forall2 (fun p ct => fst ct = p_addr p /\ snd ct = if opens_stream_op tr D p then [xr_sent r] else [])
          (get_peers TProvider view) (xr_contacted r) /\
  (forall p, In p (get_peers TProvider view) <-> In p view /\ p_type p = TProvider).
Proof.
  intros H. apply send_bid_op_run in H. destruct H as (sent & Cs & _ & _ & ->). cbn [xr_sent xr_contacted].
  split; [exact Cs|]. split; [|intros p; apply get_peers_spec].
  induction (get_peers TProvider view) as [|p ps IH]; cbn; constructor; auto.
  cbn. rewrite provider_op_addr, provider_op_written. auto.
Qed.

Theorem op_refused tr o a view D :
  send_bid_op tr o a view D = XErr <->
  (exists e, construct o a = Err e) \/ (exists s, construct o a = Ok s /\ get_peers TProvider view = []).
Proof.
  unfold send_bid_op, send_bid_op_gen. destruct (construct o a) as [sent|e|].
  - destruct (get_peers TProvider view) as [|p ps] eqn:P.
    + split; auto. intros _. right. exists sent. auto.
    + destruct (existsb x_crashed _); split; try discriminate;
        intros [[e He]|[s [_ Hs]]]; discriminate.
  - split; auto. intros _. left. eauto.
  - split; [discriminate|]. intros [[e He]|[s [Hs _]]]; discriminate.
Qed.

Theorem op_no_crash tr o a view D :
  construct o a <> Panic -> (forall c, verify o c <> Panic) -> send_bid_op tr o a view D <> XPanic.
Proof.
  intros Hc Hv. unfold send_bid_op, send_bid_op_gen. destruct (construct o a) as [sent|e|]; try congruence.
  destruct (get_peers TProvider view) as [|p0 rest0]; [congruence|].
  destruct (existsb x_crashed _) eqn:C; [|congruence].
  apply existsb_exists in C. destruct C as (g & Hg & Cg). apply in_map_iff in Hg.
  destruct Hg as (q & <- & _). exfalso. revert Cg. unfold x_crashed.
  op_split tr D q; op_rest; try discriminate; intros _; eapply Hv; eauto.
Qed.

(* --- when the channel is closed ------------------------------------------------------------- *)
Lemma tmax_list_ats l : tmax_list (map At l) = At (max_list l).
Proof.
  induction l as [|x l IH]; [reflexivity|].
  change (tmax (At x) (tmax_list (map At l)) = At (N.max x (max_list l))). rewrite IH. reflexivity.
Qed.

Lemma tmax_list_never l : In Never l -> tmax_list l = Never.
Proof.
  induction l as [|x l IH]; [intros []|].
  change (tmax_list (x :: l)) with (tmax x (tmax_list l)).
  intros [->|H]; [reflexivity|]. rewrite (IH H). destruct x; reflexivity.
Qed.

(* on every transport: the channel is closed when the last goroutine is finished -- never, if one
   of them never is *)
Theorem op_close tr o a view D r :
  send_bid_op tr o a view D = XRun r ->
  xr_close r = tmax_list (map (finish_op tr D) (get_peers TProvider view)).
Proof.
  intros H. apply send_bid_op_run in H. destruct H as (sent & _ & _ & _ & ->). cbn [xr_close].
  rewrite map_map. f_equal. apply map_ext. intros p. apply provider_op_finish.
Qed.

(* termination, FROM the transport's context handling *)
Theorem op_termination tr o a view D r :
  ctx_newstream tr = true -> ctx_write tr = true -> ctx_read tr = true ->
  send_bid_op tr o a view D = XRun r ->
  exists T, xr_close r = At T /\ T <= D /\
    (forall p, In p (get_peers TProvider view) -> finish_op tr D p = At (finish_time D p) /\ finish_time D p <= T) /\
    (exists p, In p (get_peers TProvider view) /\ T = finish_time D p) /\
    (forall t c, In (t, c) (xr_delivered r) -> t < D /\ t <= T).
Proof.
  intros H1 H2 H3 H. pose proof (op_close _ _ _ _ _ _ H) as C.
  assert (E : map (finish_op tr D) (get_peers TProvider view) = map At (map (finish_time D) (get_peers TProvider view))).
  { rewrite map_map. apply map_ext. intros p. apply finish_op_ctx; assumption. }
  rewrite E, tmax_list_ats in C.
  exists (max_list (map (finish_time D) (get_peers TProvider view))). split; [exact C|].
  pose proof H as Hr. apply send_bid_op_run in Hr. destruct Hr as (sent & _ & Hne & _ & Er). cbn zeta in Hne.
  repeat split.
  - apply max_list_bound. intros x Hx. apply in_map_iff in Hx. destruct Hx as (p & <- & _). apply finish_time_le.
  - apply finish_op_ctx; assumption.
  - apply max_list_ge. apply in_map. assumption.
  - assert (Hm : In (max_list (map (finish_time D) (get_peers TProvider view)))
                    (map (finish_time D) (get_peers TProvider view))).
    { apply max_list_in. destruct (get_peers TProvider view); [congruence|discriminate]. }
    apply in_map_iff in Hm. destruct Hm as (p & Hp & HIn). exists p. auto.
  - destruct (op_surface _ _ _ _ _ _ H) as (_ & S & _).
    destruct (S t c H0) as (p & c0 & rest & addr & _ & _ & _ & -> & T & _). auto.
  - destruct (op_surface _ _ _ _ _ _ H) as (_ & S & _).
    destruct (S t c H0) as (p & c0 & rest & addr & Hv & Ht & R & -> & T & _).
    assert (Hp : In p (get_peers TProvider view)) by (apply get_peers_spec; auto).
    specialize (T H3).
    assert (F : finish_time D p = p_time p).
    { apply finish_time_arrives. unfold arrives. rewrite R. apply N.ltb_lt. exact T. }
    rewrite <- F. apply max_list_ge. apply in_map. exact Hp.
Qed.

(* ... and it does depend on it.  A ReadMsg that does not watch the context (seeded change C05-f)
   and a provider that takes the bid and stays silent: the channel is never closed.  A NewStream or
   WriteMsg that does not watch it and is blocked beyond the deadline: closed late. *)
Definition silent_view : list peer := [mkPeer [1] TProvider RSilence 0].
Theorem op_termination_needs_ctx :
  (exists r, send_bid_op (mkTransport true true false false) w_oracles w_args silent_view 5 = XRun r /\
             xr_close r = Never) /\
  (exists r, send_bid_op (mkTransport false true true false) w_oracles w_args
                         [mkPeer [1] TProvider RNewStreamErr 9] 5 = XRun r /\ xr_close r = At 9) /\
  (exists r, send_bid_op (mkTransport true false true false) w_oracles w_args
                         [mkPeer [1] TProvider RWriteErr 9] 5 = XRun r /\ xr_close r = At 9).
Proof. repeat split; eexists; split; vm_compute; reflexivity. Qed.

(* --- relation to the reading [send_bid] --------------------------------------------------- *)
Definition lift_run (r : run) : xrun :=
  mkXRun (r_sent r) (r_contacted r) (r_delivered r) (At (r_close r)).
Definition lift_result (s : result) : xresult :=
  match s with SErr => XErr | SPanic => XPanic | SRun r => XRun (lift_run r) end.
Definition lift_trace (g : gtrace) : otrace := mkO (g_addr g) (g_written g) (g_out g) (At (g_finish g)).

Lemma provider_op_is_run cmp vf sent D p :
  0 < D -> provider_op cmp ctx_transport vf sent D p = lift_trace (provider_run cmp vf sent D p).
Proof.
  intros HD. assert (X0 : (D <=? 0) = false) by (apply N.leb_gt; exact HD).
  unfold provider_run, finish_time, arrives, lift_trace, ctx_transport.
  generalize (mkTransport true true true false). intros tr.
Abort.

Lemma provider_op_is_run cmp vf sent D p :
  0 < D -> provider_op cmp ctx_transport vf sent D p = lift_trace (provider_run cmp vf sent D p).
Proof.
  intros HD. assert (X0 : (D <=? 0) = false) by (apply N.leb_gt; exact HD).
  unfold provider_op, wait, provider_run, finish_time, arrives, lift_trace, ctx_transport.
  cbn [ctx_newstream ctx_write ctx_read pick_send andb]. rewrite ?N.ltb_antisym.
  destruct (p_reply p) eqn:R; rewrite ?X0; destruct (D <=? p_time p) eqn:E1;
    cbn [andb orb negb]; rewrite ?N.ltb_antisym, ?E1; cbn [andb orb negb]; try reflexivity;
    destruct (vf c); try reflexivity; destruct (cmp && _); reflexivity.
Qed.

Lemma lift_lists gs :
  existsb x_crashed (map lift_trace gs) = existsb crashed gs /\
  map (fun g => (x_addr g, x_written g)) (map lift_trace gs) = map (fun g => (g_addr g, g_written g)) gs /\
  flat_map x_delivery (map lift_trace gs) = flat_map delivery gs /\
  tmax_list (map x_finish (map lift_trace gs)) = At (max_list (map g_finish gs)).
Proof.
  split; [|split; [|split]].
  - induction gs as [|g gs IH]; cbn; [reflexivity|]. rewrite IH. reflexivity.
  - rewrite map_map. reflexivity.
  - induction gs as [|g gs IH]; cbn; [reflexivity|]. rewrite IH. f_equal;
      try (unfold x_delivery, delivery; cbn; destruct (g_out g); reflexivity).
  - rewrite map_map. rewrite <- (map_map g_finish At). apply tmax_list_ats.
Qed.

Theorem op_is_send_bid o a view D :
  0 < D -> send_bid_op ctx_transport o a view D = lift_result (send_bid o a view D).
Proof.
  intros HD. unfold send_bid_op, send_bid_op_gen, send_bid, send_bid_gen.
  destruct (construct o a) as [sent| |]; try reflexivity.
  destruct (get_peers TProvider view) as [|p0 rest0]; [reflexivity|].
  assert (E : map (provider_op true ctx_transport (verify o) sent D) (p0 :: rest0) =
              map lift_trace (map (provider_run true (verify o) sent D) (p0 :: rest0))).
  { rewrite map_map. apply map_ext. intros q. apply provider_op_is_run. exact HD. }
  rewrite E.
  destruct (lift_lists (map (provider_run true (verify o) sent D) (p0 :: rest0))) as (L1 & L2 & L3 & L4).
  rewrite L1, L2, L3, L4. destruct (existsb crashed _); reflexivity.
Qed.

(* an already expired context: nothing is written, nothing delivered, closed at once *)
Theorem op_expired o a view r :
  send_bid_op ctx_transport o a view 0 = XRun r ->
  (forall ad ws, In (ad, ws) (xr_contacted r) -> ws = []) /\ xr_delivered r = [] /\ xr_close r = At 0.
Proof.
  intros H. pose proof (op_fanout _ _ _ _ _ _ H) as (_ & F & _).
  pose proof (op_termination ctx_transport _ _ _ _ _ eq_refl eq_refl eq_refl H) as (T & C & L & _ & _ & Dl).
  repeat split.
  - intros ad ws HIn. clear -F HIn. induction F as [|p ct ps cts [E1 E2] _ IH]; [destruct HIn|].
    destruct HIn as [->|HIn]; [|auto]. cbn in E2. unfold opens_stream_op in E2. cbn in E2.
    destruct (p_reply p); exact E2.
  - destruct (xr_delivered r) as [|[t c] l]; [reflexivity|]. destruct (Dl t c (or_introl eq_refl)). lia.
  - rewrite C. f_equal. lia.
Qed.

Lemma op_close_ctx tr o a view D r :
  ctx_newstream tr = true -> ctx_write tr = true -> ctx_read tr = true ->
  send_bid_op tr o a view D = XRun r ->
  xr_close r = At (max_list (map (finish_time D) (get_peers TProvider view))).
Proof.
  intros H1 H2 H3 H. rewrite (op_close _ _ _ _ _ _ H), <- tmax_list_ats, map_map. f_equal.
  apply map_ext. intros p. apply finish_op_ctx; assumption.
Qed.

Lemma op_delivered tr o a view D r :
  send_bid_op tr o a view D = XRun r ->
  xr_delivered r = flat_map (contribution_op tr o (xr_sent r) D) (get_peers TProvider view).
Proof.
  intros H. apply send_bid_op_run in H. destruct H as (sent & _ & _ & _ & ->). cbn [xr_delivered xr_sent].
  rewrite flat_map_map. reflexivity.
Qed.

(* ============================================================================================ *)
(* The executable checker of check/Check_C05.v against the propositions above.                   *)
(* ============================================================================================ *)

(* the checker is silent on everything the model can do on a transport that watches the context
   (given a signer that ignores the ProviderAddress field and a topology without duplicate
   addresses -- it is a map) *)
Theorem checker_sound tr o a view D r :
  ctx_newstream tr = true -> ctx_write tr = true -> ctx_read tr = true ->
  (forall c x, verify o (set_prov c x) = verify o c) ->
  NoDup (map p_addr (get_peers TProvider view)) ->
  send_bid_op tr o a view D = XRun r ->
  exists T, xr_close r = At T /\
    check_run (verify o) (xr_sent r) (get_peers TProvider view) D
              (xr_contacted r) (xr_delivered r) (Some T) = [].
Proof.
  intros H1 H2 H3 Hv Hn H.
  exists (max_list (map (finish_time D) (get_peers TProvider view))).
  split; [apply (op_close_ctx tr o a); assumption|]. unfold check_run.
  assert (SV := op_surface_verified _ _ _ _ _ _ Hv H).
  destruct (op_fanout _ _ _ _ _ _ H) as (_ & F & _).
  repeat (apply app_nil2; [apply clause_nil|]); [| | | | |apply clause_nil].
  - apply forallb_forall. intros [t c] HIn. destruct (SV t c HIn) as (_ & B & _).
    cbn. apply obid_eqb_eq. exact B.
  - apply forallb_forall. intros [t c] HIn. destruct (SV t c HIn) as (V & _). cbn. rewrite V. reflexivity.
  - apply forallb_forall. intros [t c] HIn. destruct (SV t c HIn) as (V & _). cbn. rewrite V.
    apply bytes_eqb_refl.
  - apply (sub_multiset_spec _ commitment_eqb_eq). rewrite (op_delivered _ _ _ _ _ _ H), map_flat_map.
    unfold candidates. apply sub_flat_map. intros p.
    pose proof (contribution_op_length tr o (xr_sent r) D p) as L.
    destruct (contribution_op tr o (xr_sent r) D p) as [|[t c] l] eqn:E; [left; reflexivity|].
    destruct l; [|cbn in L; lia]. right.
    assert (I : In (t, c) (contribution_op tr o (xr_sent r) D p)) by (rewrite E; left; reflexivity).
    apply contribution_op_in in I. destruct I as (c0 & rest & ad & R & _ & -> & _ & _ & [T|[T _]]); [|congruence].
    rewrite R. unfold arrives. rewrite R. apply N.ltb_lt in T. rewrite T. reflexivity.
  - apply andb_true_iff. split.
    + apply (perm_eqb_spec _ bytes_eqb_eq).
      replace (map fst (xr_contacted r)) with (map p_addr (get_peers TProvider view)); [reflexivity|].
      clear -F. induction F as [|p ct ps cts [E _] _ IH]; cbn; congruence.
    + apply forallb_forall. intros ct HIn.
      assert (Hp : exists p, In p (get_peers TProvider view) /\ fst ct = p_addr p /\
                             snd ct = if opens_stream_op tr D p then [xr_sent r] else []).
      { clear -F HIn. induction F as [|p ct' ps cts [E1 E2] _ IH]; [destruct HIn|].
        destruct HIn as [->|HIn]; [exists p; cbn; auto|].
        destruct (IH HIn) as (q & Hq & Eq). exists q. cbn. auto. }
      destruct Hp as (p & Hp & E1 & E2). unfold offered_ok.
      destruct (find (fun q => bytes_eqb (p_addr q) (fst ct)) (get_peers TProvider view)) as [q|] eqn:Fd.
      * apply find_some in Fd. destruct Fd as [Hq Eq]. apply bytes_eqb_eq in Eq.
        assert (q = p) by (eapply nodup_map_inj; eauto; congruence). subst q.
        rewrite E2. unfold opens_stream_op. rewrite H1. cbn [andb].
        destruct (p_reply p); try reflexivity; destruct (D =? 0); cbn; try rewrite bid_eqb_refl; reflexivity.
      * exfalso. eapply find_none in Fd; [|exact Hp]. cbn in Fd. rewrite E1, bytes_eqb_refl in Fd. discriminate.
  - apply N.eqb_refl.
Qed.

(* conversely, a silent checker means the observation has the property *)
Theorem checker_reflects vf sent provs D contacted delivered closed :
  check_run vf sent provs D contacted delivered closed = [] ->
  (forall t c, In (t, c) delivered -> vf c = Ok (c_prov c) /\ c_bid c = Some sent) /\
  (exists rest, Permutation (map (fun tc => strip (snd tc)) delivered ++ rest) (candidates D provs)) /\
  Permutation (map fst contacted) (map p_addr provs) /\
  (forall ad ws, In (ad, ws) contacted ->
     exists p, In p provs /\ p_addr p = ad /\ (ws = [] \/ ws = [sent]) /\
               (ws = [] -> p_reply p = RNewStreamErr \/ D = 0) /\
               (ws = [sent] -> p_reply p <> RNewStreamErr)) /\
  closed = Some (max_list (map (finish_time D) provs)).
Proof.
  unfold check_run. intros H.
  repeat match type of H with _ ++ _ = [] => apply app_eq_nil in H; destruct H as [?H H] end.
  repeat match goal with X : clause _ _ = [] |- _ => apply clause_nil in X end.
  rename H0 into Hbid, H1 into Hver, H2 into Haddr, H3 into Hsub, H4 into Hoff.
  apply andb_true_iff in Hoff. destruct Hoff as [Hperm Hoff].
  repeat split.
  - rewrite forallb_forall in Hver, Haddr. specialize (Hver _ H0). specialize (Haddr _ H0). cbn in *.
    destruct (vf c) as [x| |]; try discriminate. apply bytes_eqb_eq in Haddr. congruence.
  - rewrite forallb_forall in Hbid. specialize (Hbid _ H0). cbn in Hbid. apply obid_eqb_eq. exact Hbid.
  - apply (sub_multiset_spec _ commitment_eqb_eq). exact Hsub.
  - apply (perm_eqb_spec _ bytes_eqb_eq). exact Hperm.
  - intros ad ws HIn. rewrite forallb_forall in Hoff. specialize (Hoff _ HIn). unfold offered_ok in Hoff.
    cbn [fst snd] in Hoff.
    destruct (find (fun p => bytes_eqb (p_addr p) ad) provs) as [p|] eqn:Fd; [|discriminate].
    apply find_some in Fd. destruct Fd as [Hp E]. apply bytes_eqb_eq in E.
    exists p. split; [exact Hp|]. split; [exact E|].
    destruct ws as [|w ws]; cbn [fst snd] in Hoff.
    + split; [left; reflexivity|]. split; [|discriminate]. intros _.
      destruct (p_reply p); auto; right; apply N.eqb_eq; exact Hoff.
    + apply andb_true_iff in Hoff. destruct Hoff as [Hl Hr].
      apply (list_eqb_eq _ bid_eqb_eq) in Hl. split; [right; exact Hl|]. split; [discriminate|].
      intros _ R. rewrite R in Hr. discriminate.
  - destruct closed as [t|]; [|discriminate]. apply N.eqb_eq in H. congruence.
Qed.

Example checker_sound_example :
  check_run (verify w_oracles) w_sent (get_peers TProvider e_view) 5
            (r_contacted e_run) (r_delivered e_run) (Some (r_close e_run)) = [].
Proof. vm_compute. reflexivity. Qed.

(* and it does speak up: the value surfaced by the old code on the witness *)
Example checker_flags_v0 :
  check_run (verify w_oracles) w_sent (get_peers TProvider w_view) 2
            [([1], [w_sent])] [(1, set_prov w_frame [9; 9])] (Some 1) = ["surfaced:other-bid"%string].
Proof. vm_compute. reflexivity. Qed.

(* the operational model on the example of [send_bid_example]; and with an expired context *)
Example send_bid_op_example : send_bid_op ctx_transport w_oracles w_args e_view 5 = XRun (lift_run e_run).
Proof. vm_compute. reflexivity. Qed.
Example send_bid_op_expired_example :
  send_bid_op ctx_transport w_oracles w_args e_view 0 =
  XRun (mkXRun w_sent [([1], []); ([2], []); ([3], [])] [] (At 0)).
Proof. vm_compute. reflexivity. Qed.

(* The text asks for "at most one commitment per contacted provider", and that is what holds: one
   per stream.  SendBid does not require the recovered signer to be the peer it contacted, so two
   providers relaying the same commitment yield two deliveries reporting the same address. *)
Theorem same_address_twice :
  exists view r t1 t2 c,
    send_bid_op ctx_transport w_oracles w_args view 5 = XRun r /\
    xr_delivered r = [(t1, c); (t2, c)] /\ NoDup (map p_addr view).
Proof.
  exists [mkPeer [1] TProvider (RFrames e_frame []) 1; mkPeer [2] TProvider (RFrames e_frame []) 2].
  eexists. exists 1, 2, (set_prov e_frame [9; 9]). split; [vm_compute; reflexivity|]. split; [reflexivity|].
  repeat constructor; cbn; intuition discriminate.
Qed.

(* ============================================================================================ *)
(* Latencies: the deadline may overtake the opening of a stream or the write ([send_bid_lat]).     *)
(* ============================================================================================ *)
Ltac lat_step :=
  match goal with
  | |- context [if ?b then _ else _] =>
      let E := fresh "E" in destruct b eqn:E; cbn -[N.max N.add N.leb N.ltb]
  | |- context [match ?v ?c with Ok _ => _ | Err _ => _ | Panic => _ end] =>
      let V := fresh "V" in destruct (v c) eqn:V; cbn -[N.max N.add N.leb N.ltb]
  end.
Ltac lat_props :=
  repeat match goal with
         | H : (_ <=? _) = true |- _ => apply N.leb_le in H
         | H : (_ <=? _) = false |- _ => apply N.leb_gt in H
         | H : (_ <? _) = true |- _ => apply N.ltb_lt in H
         | H : (_ <? _) = false |- _ => apply N.ltb_ge in H
         end.
Ltac lat_open tr p :=
  destruct tr as [hn hw hr ps]; unfold provider_lat, wait_from;
  cbn [ctx_newstream ctx_write ctx_read pick_send];
  destruct (p_reply p) eqn:R; cbn -[N.max N.add N.leb N.ltb].

(* one goroutine on a transport whose three operations watch the context *)
Lemma provider_lat_ctx cmp tr lat vf sent D p :
  ctx_newstream tr = true -> ctx_write tr = true -> ctx_read tr = true ->
  let g := provider_lat cmp tr lat vf sent D p in
  l_addr g = p_addr p /\
  (exists T, l_finish g = At T /\ T <= D) /\
  (In OpWrite (l_ops g) -> open_d (lat p) < D /\ p_reply p <> RNewStreamErr) /\
  (In OpRead (l_ops g) -> open_d (lat p) + write_d (lat p) < D /\ p_reply p <> RWriteErr) /\
  (l_written g = [sent] <-> In OpWrite (l_ops g)) /\
  (l_written g = [] \/ l_written g = [sent]) /\
  (forall c, l_out g = GDeliver c -> In OpRead (l_ops g)).
Proof.
  intros H1 H2 H3. lat_open tr p; cbn in H1, H2, H3; subst hn hw hr; cbn -[N.max N.add N.leb N.ltb];
    repeat lat_step; lat_props;
    (repeat split; try (eexists; split; [reflexivity|lia]); cbn;
     try discriminate; try tauto; try (intros; intuition discriminate); try lia;
     try (intros [Hx|Hx]; try discriminate; intuition (try discriminate; try lia))).
Qed.

(* the only way a goroutine hands a value over, on every transport and for all latencies *)
Lemma provider_lat_deliver cmp tr lat vf sent D p c :
  l_out (provider_lat cmp tr lat vf sent D p) = GDeliver c ->
  exists c0 rest a t, p_reply p = RFrames c0 rest /\ vf c0 = Ok a /\ c = set_prov c0 a /\
                      (cmp = true -> c_bid c0 = Some sent) /\
                      l_finish (provider_lat cmp tr lat vf sent D p) = At t /\
                      (ctx_read tr = true -> t < D).
Proof.
  lat_open tr p; repeat lat_step; try discriminate;
    intros H; inversion H; subst;
    match goal with R : p_reply p = RFrames ?f ?r, V : vf ?f = Ok ?a |- _ => exists f, r, a end;
    eexists; (repeat split; try reflexivity; auto);
    try (intros ->; cbn [andb] in *);
    try match goal with
        | E : negb (obid_eqb _ _) = false |- _ =>
            apply negb_false_iff in E; apply obid_eqb_eq in E; exact E
        | E : true && negb (obid_eqb _ _) = false |- _ =>
            cbn in E; apply negb_false_iff in E; apply obid_eqb_eq in E; exact E
        end;
    try discriminate; lat_props; try lia.
Qed.

(* with all latencies 0 the model is the operational model of SendBid used everywhere above *)
Definition lat0 : peer -> latency := fun _ => mkLat 0 0.
Definition forget_ops (g : ltrace) : otrace := mkO (l_addr g) (l_written g) (l_out g) (l_finish g).
Definition forget_run (r : lrun) : xrun :=
  mkXRun (lr_sent r) (map (fun g => (l_addr g, l_written g)) (lr_traces r)) (lr_delivered r) (lr_close r).
Definition forget_result (s : lresult) : xresult :=
  match s with LErr => XErr | LPanic => XPanic | LRun r => XRun (forget_run r) end.

Lemma provider_lat0 cmp tr vf sent D p :
  forget_ops (provider_lat cmp tr lat0 vf sent D p) = provider_op cmp tr vf sent D p.
Proof.
  unfold forget_ops, provider_op, wait. lat_open tr p; unfold lat0; cbn -[N.max N.add N.leb N.ltb];
    rewrite ?N.max_0_l, ?N.add_0_l;
    repeat (lat_step; rewrite ?N.max_0_l, ?N.add_0_l); reflexivity.
Qed.

Theorem lat0_is_op tr o a view D :
  forget_result (send_bid_lat tr lat0 o a view D) = send_bid_op tr o a view D.
Proof.
  unfold send_bid_lat, send_bid_op, send_bid_op_gen.
  destruct (construct o a) as [sent| |]; try reflexivity.
  destruct (get_peers TProvider view) as [|p0 rest0]; [reflexivity|].
  assert (E : map (provider_op true tr (verify o) sent D) (p0 :: rest0) =
              map forget_ops (map (provider_lat true tr lat0 (verify o) sent D) (p0 :: rest0))).
  { rewrite map_map. apply map_ext. intros q. symmetry. apply provider_lat0. }
  rewrite E. generalize (map (provider_lat true tr lat0 (verify o) sent D) (p0 :: rest0)). intros gs.
  assert (C : existsb x_crashed (map forget_ops gs) = existsb l_crashed gs).
  { induction gs as [|g gs IH]; cbn; [reflexivity|]. rewrite IH. reflexivity. }
  rewrite C. destruct (existsb l_crashed gs); [reflexivity|]. clear C E. cbn. unfold forget_run. cbn. f_equal. f_equal.
  - rewrite map_map. reflexivity.
  - induction gs as [|g gs IH]; [reflexivity|]. cbn [flat_map map]. rewrite <- IH. f_equal.
  - rewrite map_map. f_equal.
Qed.

Lemma send_bid_lat_run tr lat o a view D r :
  send_bid_lat tr lat o a view D = LRun r ->
  exists sent, construct o a = Ok sent /\
    get_peers TProvider view <> [] /\
    r = mkLRun sent (map (provider_lat true tr lat (verify o) sent D) (get_peers TProvider view))
               (flat_map l_delivery (map (provider_lat true tr lat (verify o) sent D) (get_peers TProvider view)))
               (tmax_list (map l_finish (map (provider_lat true tr lat (verify o) sent D) (get_peers TProvider view)))).
Proof.
  unfold send_bid_lat. destruct (construct o a) as [sent| |]; try discriminate.
  destruct (get_peers TProvider view) as [|p0 rest0] eqn:P; [discriminate|].
  destruct (existsb l_crashed _); [discriminate|].
  intros H; inversion H; subst. exists sent. repeat split; congruence.
Qed.

Lemma tmax_list_bounded l D :
  (forall x, In x l -> exists t, x = At t /\ t <= D) -> exists T, tmax_list l = At T /\ T <= D.
Proof.
  induction l as [|x l IH]; intros H; [exists 0; split; [reflexivity|lia]|].
  change (tmax_list (x :: l)) with (tmax x (tmax_list l)).
  destruct (H x (or_introl eq_refl)) as (t & -> & Ht).
  destruct IH as (T & -> & HT); [intros y Hy; apply H; right; exact Hy|].
  exists (N.max t T). split; [reflexivity|lia].
Qed.

(* The deadline overtaking the opening of a stream or the write.  For every provider list, all
   latencies, all reply scripts and every deadline D, on a transport whose three operations watch
   the context: the channel is closed at some T <= D; every delivery is a verified commitment
   embedding the bid sent, made before D; and per provider (one trace each, in topology order) no
   operation follows one that had not completed by D -- WriteMsg is issued only if the stream was
   open before D, ReadMsg (hence verification and delivery) only if the write had completed before
   D; the bid is handed to WriteMsg exactly when WriteMsg is issued, and nothing else ever is. *)
Theorem fanout_deadline tr lat o a view D r :
  ctx_newstream tr = true -> ctx_write tr = true -> ctx_read tr = true ->
  send_bid_lat tr lat o a view D = LRun r ->
  construct o a = Ok (lr_sent r) /\
  (exists T, lr_close r = At T /\ T <= D) /\
  (forall t c, In (t, c) (lr_delivered r) ->
     t < D /\
     exists p c0 rest addr,
       In p view /\ p_type p = TProvider /\ p_reply p = RFrames c0 rest /\
       open_d (lat p) + write_d (lat p) < D /\
       verify o c0 = Ok addr /\ c = set_prov c0 addr /\ c_prov c = addr /\ c_bid c = Some (lr_sent r)) /\
  Forall2 (fun p g =>
             l_addr g = p_addr p /\
             (In OpWrite (l_ops g) -> open_d (lat p) < D /\ p_reply p <> RNewStreamErr) /\
             (In OpRead (l_ops g) -> open_d (lat p) + write_d (lat p) < D /\ p_reply p <> RWriteErr) /\
             (l_written g = [lr_sent r] <-> In OpWrite (l_ops g)) /\
             (l_written g = [] \/ l_written g = [lr_sent r]))
          (get_peers TProvider view) (lr_traces r).
Proof.
  intros H1 H2 H3 H. apply send_bid_lat_run in H. destruct H as (sent & Cs & Hne & ->).
  cbn [lr_sent lr_close lr_delivered lr_traces]. split; [exact Cs|]. split; [|split].
  - apply tmax_list_bounded. intros x Hx. apply in_map_iff in Hx. destruct Hx as (g & <- & Hg).
    apply in_map_iff in Hg. destruct Hg as (p & <- & _).
    destruct (provider_lat_ctx true tr lat (verify o) sent D p H1 H2 H3) as (_ & F & _). exact F.
  - intros t c HIn. apply in_flat_map in HIn. destruct HIn as (g & Hg & Hd).
    apply in_map_iff in Hg. destruct Hg as (p & <- & Hp). apply get_peers_spec in Hp. destruct Hp as [Hv Ht].
    unfold l_delivery in Hd.
    destruct (l_out (provider_lat true tr lat (verify o) sent D p)) as [d| |] eqn:G; try (destruct Hd).
    pose proof G as G'. apply provider_lat_deliver in G'.
    destruct G' as (c0 & rest & addr & t' & R & V & -> & B & F & T). rewrite F in Hd.
    destruct Hd as [Hd|[]]. inversion Hd; subst.
    destruct (provider_lat_ctx true tr lat (verify o) sent D p H1 H2 H3) as (_ & _ & _ & Rd & _ & _ & Dl).
    split; [apply T; exact H3|]. exists p, c0, rest, addr.
    destruct (Rd (Dl _ G)) as [Rd1 _]. repeat split; auto.
  - clear Hne. induction (get_peers TProvider view) as [|p ps0 IH]; cbn; constructor; auto.
    destruct (provider_lat_ctx true tr lat (verify o) sent D p H1 H2 H3) as (A & _ & W & Rd & Wr & Ws & _).
    split; [exact A|]. split; [exact W|]. split; [exact Rd|]. split; [exact Wr|exact Ws].
Qed.

(* non-vacuity: deadline 5; the first provider's stream opens at 2 and its write completes at 3, it
   answers at 4 and is delivered; the second one's stream opens only at 6: no write, no read; the
   third one's stream opens at 1 but the write would complete at 7: no read *)
Definition e_lat (p : peer) : latency :=
  if bytes_eqb (p_addr p) [1] then mkLat 2 1 else if bytes_eqb (p_addr p) [2] then mkLat 6 0 else mkLat 1 6.
Example fanout_deadline_example :
  send_bid_lat ctx_transport e_lat w_oracles w_args
    [mkPeer [1] TProvider (RFrames e_frame []) 4; mkPeer [2] TProvider (RFrames e_frame []) 1;
     mkPeer [3] TProvider (RFrames e_frame []) 1] 5 =
  LRun (mkLRun w_sent
         [mkL [1] [OpNewStream; OpWrite; OpRead; OpVerify] [w_sent] (GDeliver (set_prov e_frame [9; 9])) (At 4);
          mkL [2] [OpNewStream] [] GNothing (At 5);
          mkL [3] [OpNewStream; OpWrite] [w_sent] GNothing (At 5)]
         [(4, set_prov e_frame [9; 9])] (At 5)).
Proof. vm_compute. reflexivity. Qed.
