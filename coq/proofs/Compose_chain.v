(* Composition of the chain sender models: C08 (model/EvmSend.v: Send, getNonce, the nonce counter) with
   C10 (model/Cancel.v: CancelTx).

   In model/Cancel.v the answer of TransactionByHash is an oracle value.  CancelTx takes ANY transaction hash
   (it consults neither sentTxs nor the sender of the transaction found), so a cancellation of the combined
   machine either names, by position, one of the transactions this sender's Send calls got accepted so far
   ([k_target = Some i]: the node answers with that transaction, whose Nonce() is the nonce it was submitted
   with; fee fields and pending flag stay free), or targets any other transaction the node knows
   ([k_target = None]: the node answers with the free value [k_orig], any nonce, any sender).  Both calls run
   under the client mutex (c.mtx: gen/Generated.v records the Lock / deferred Unlock in Send and CancelTx,
   [calls_serialised_now]), so a history is a list of whole calls in the order in which they hold it.

   Frame fact of the combined machine: CancelTx never assigns c.nonce and never stores the monitor's
   lastConfirmedNonce, so a cancellation leaves the state of model/EvmSend.v unchanged.  It is tied to the
   source on every run: gen/Generated.v counts the assignments / ++ / -- of c.nonce inside CancelTx
   (c10_cancel_writes_nonce) and records whether CancelTx calls lastConfirmedNonce.Store
   (c10_cancel_touches_confirmed); the CancelTx step below consults [cancel_frame_ok], computed from these,
   and leaves the state alone only when it holds -- otherwise the state after a cancellation is an
   arbitrary value carried by the operation ([k_havoc]) and nothing below can be proved.  [cancel_frame_now]
   is the reflexivity fact the theorems rest on: a CancelTx that starts writing c.nonce breaks it. *)
From Coq Require Import List NArith ZArith Bool Lia.
From MevVerif Require Import lib.Bytes gen.Generated.
From MevVerif Require model.EvmSend model.Cancel proofs.EvmSend_proofs proofs.Cancel_proofs.
Import ListNotations.

Module ES := MevVerif.model.EvmSend.
Module CA := MevVerif.model.Cancel.
Module ESP := MevVerif.proofs.EvmSend_proofs.
Module CAP := MevVerif.proofs.Cancel_proofs.

(* ---- the frame of CancelTx, from the source ------------------------------------------------------------ *)
Definition cancel_frame_ok : bool :=
  (c10_cancel_writes_nonce =? 0)%N && negb c10_cancel_touches_confirmed.

Lemma cancel_frame_now : c10_cancel_writes_nonce = 0%N /\ c10_cancel_touches_confirmed = false.
Proof. split; reflexivity. Qed.

Lemma cancel_frame_ok_now : cancel_frame_ok = true.
Proof. unfold cancel_frame_ok. destruct cancel_frame_now as [-> ->]. reflexivity. Qed.

(* positive controls of the same extractor kind: the writes the sender model does have are seen -- Send
   increments c.nonce once (ES.send_with: c.nonce++), getNonce assigns it twice (ES.get_nonce: c1, c2) *)
Lemma sender_writes_now : c10_send_writes_nonce = 1%N /\ c10_getnonce_writes_nonce = 2%N.
Proof. split; reflexivity. Qed.

(* Send and CancelTx each hold c.mtx from their first statement to their return (regenerated from evmclient.go on
   every run; Cancel_proofs.cancel_serialised_now, EvmSend_proofs.send_serialised_now): the steps of the combined
   machine are whole calls *)
Definition calls_serialised : bool :=
  c10_cancel_locks && c10_cancel_unlocks && c08_send_locks && c08_send_unlocks.
Lemma calls_serialised_now : calls_serialised = true.
Proof.
  unfold calls_serialised. destruct CAP.cancel_serialised_now as [-> ->]. destruct ESP.send_serialised_now as [-> ->].
  reflexivity.
Qed.
(* what the CancelTx step consults *)
Definition machine_ok : bool := cancel_frame_ok && calls_serialised.
Lemma machine_ok_now : machine_ok = true.
Proof. unfold machine_ok. rewrite cancel_frame_ok_now, calls_serialised_now. reflexivity. Qed.

(* one CancelTx call: its target and the free answers *)
Record cancel_call := {
  k_target : option nat;      (* Some i: the i-th transaction accepted so far (oldest first); None: any other hash *)
  k_orig : CA.orig;           (* k_target = None: the transaction the node returns for that hash (any nonce) *)
  k_pending : bool;           (* isPending as the node reports it *)
  k_price : Z; k_fee : Z; k_tip : Z;   (* k_target = Some i: GasPrice(), GasFeeCap(), GasTipCap() of the target *)
  k_tipans : CA.tipans; k_priceans : CA.priceans;
  k_sign : bool; k_submit : bool;
  k_havoc : ES.st             (* the sender's state after the call, were CancelTx to write it *) }.

Inductive cop :=
| OSend (rq : ES.request) (a : ES.answers)
| OConf (v : N)
| ORestart
| OCancel (k : cancel_call).

(* what the node sees *)
Inductive cev :=
| ESend (e : ES.tev)
| ECancel (r : CA.cresult).

(* TransactionByHash(h): for h = the hash Send returned for its i-th accepted transaction the node answers with
   that transaction (a position that names nothing is an unknown hash); for any other hash with what the node
   knows under it *)
Definition lookup_of (acc : list N) (k : cancel_call) : CA.lookup :=
  match k_target k with
  | Some i =>
      match nth_error acc i with
      | Some n => CA.LFound (Some {| CA.o_nonce := Z.of_N n; CA.o_price := k_price k; CA.o_fee := k_fee k;
                                     CA.o_tip := k_tip k |}) (k_pending k)
      | None => CA.LErr true
      end
  | None => CA.LFound (Some (k_orig k)) (k_pending k)
  end.

(* every cancellation of the history names one of this sender's own accepted transactions *)
Definition own_targets (ops : list cop) : Prop := forall k, In (OCancel k) ops -> k_target k <> None.

Definition newly_accepted (e : ES.tev) : list N :=
  match e with ES.TSend _ (ES.Accepted n) => [n] | _ => [] end.

Definition send_op (o : cop) : list ES.op :=
  match o with
  | OSend rq a => [ES.Send rq a]
  | OConf v => [ES.Conf v]
  | ORestart => [ES.Restart]
  | OCancel _ => []
  end.
(* the history with the cancellations removed *)
Definition strip (ops : list cop) : list ES.op := flat_map send_op ops.

(* [acc]: nonces of the transactions accepted so far, oldest first (a history value: the hashes Send has
   returned); it survives a client restart, the transactions being known to the node *)
Fixpoint crun_gen (frame : bool) (cl : CA.client) (s : ES.st) (acc : list N) (ops : list cop) : list cev :=
  match ops with
  | [] => []
  | OCancel k :: r =>
      ECancel (CA.cancel cl (lookup_of acc k) (k_tipans k) (k_priceans k) (k_sign k) (k_submit k))
      :: crun_gen frame cl (if frame then s else k_havoc k) acc r
  | o :: r =>
      match send_op o with
      | [so] => let '(s', e) := ES.step_with ES.get_nonce s so in
                ESend e :: crun_gen frame cl s' (acc ++ newly_accepted e) r
      | _ => crun_gen frame cl s acc r
      end
  end.
(* the machine as the source is now: the flag is the one computed from gen/Generated.v (frame of CancelTx, and
   both calls under the mutex) *)
Definition crun (cl : CA.client) (ops : list cop) : list cev := crun_gen machine_ok cl ES.init [] ops.

Definition send_events (t : list cev) : list ES.tev :=
  flat_map (fun e => match e with ESend x => [x] | ECancel _ => [] end) t.

(* ---- cancellations are transparent for the sender ------------------------------------------------- *)

Lemma send_events_crun_gen cl ops : forall s acc,
  send_events (crun_gen true cl s acc ops) = ES.run_with ES.get_nonce s (strip ops).
Proof.
  induction ops as [|o r IH]; intros s acc; [reflexivity|].
  destruct o as [rq a|v| |k]; cbn [crun_gen send_op strip flat_map app].
  - cbn [ES.run_with]. destruct (ES.step_with ES.get_nonce s (ES.Send rq a)) as [s' e].
    cbn [send_events flat_map app]. f_equal. apply IH.
  - cbn [ES.run_with]. destruct (ES.step_with ES.get_nonce s (ES.Conf v)) as [s' e].
    cbn [send_events flat_map app]. f_equal. apply IH.
  - cbn [ES.run_with]. destruct (ES.step_with ES.get_nonce s ES.Restart) as [s' e].
    cbn [send_events flat_map app]. f_equal. apply IH.
  - cbn [send_events flat_map app]. apply IH.
Qed.

(* What the node sees of the Send calls of a history with cancellations is exactly what it sees of the
   same history without them: a cancellation (accepted, rejected, refused) consumes no nonce and leaves
   the counter where it was -- for ANY target, own or foreign.  Rests on [cancel_frame_now] and
   [calls_serialised_now] (through [machine_ok_now]). *)
Theorem cancel_transparent cl ops : send_events (crun cl ops) = ES.run ES.init (strip ops).
Proof. unfold crun. rewrite machine_ok_now. apply send_events_crun_gen. Qed.

Lemma send_events_app a b : send_events (a ++ b) = send_events a ++ send_events b.
Proof. apply flat_map_app. Qed.

(* ---- a replacement reuses a nonce this sender submitted earlier ----------------------------------- *)

Lemma accepted_cons e r : ES.accepted (e :: r) = newly_accepted e ++ ES.accepted r.
Proof. destruct e as [p [| |n]| |]; reflexivity. Qed.

Lemma own_targets_tl o r : own_targets (o :: r) -> own_targets r.
Proof. intros H k Hk. apply H. right. exact Hk. Qed.

Lemma reuse_from frame cl ops : own_targets ops -> forall s acc pre t b post,
  crun_gen frame cl s acc ops = pre ++ ECancel (CA.CSubmit t b) :: post ->
  exists n, In n (acc ++ ES.accepted (send_events pre)) /\ CA.x_nonce t = Z.of_N n.
Proof.
  induction ops as [|o r IH]; intros Own s acc pre t b post H.
  - destruct pre; discriminate.
  - pose proof (IH (own_targets_tl _ _ Own)) as IH'. clear IH. rename IH' into IH.
    assert (Hstep : forall so, send_op o = [so] ->
              crun_gen frame cl s acc (o :: r) =
              ESend (snd (ES.step_with ES.get_nonce s so)) ::
              crun_gen frame cl (fst (ES.step_with ES.get_nonce s so))
                        (acc ++ newly_accepted (snd (ES.step_with ES.get_nonce s so))) r).
    { intros so Hso. destruct o; cbn [send_op] in Hso; try discriminate; injection Hso as <-;
        cbn [crun_gen send_op]; destruct (ES.step_with _ _ _); reflexivity. }
    destruct o as [rq a|v| |k].
    1-3: (rewrite (Hstep _ eq_refl) in H; destruct pre as [|e0 pre']; [discriminate|];
          injection H as <- H; apply IH in H; destruct H as (n & Hin & Hn); exists n; split; [|exact Hn];
          cbn [send_events flat_map app]; rewrite accepted_cons, app_assoc; exact Hin).
    cbn [crun_gen] in H. destruct pre as [|e0 pre'].
    + injection H as H _. apply CAP.shape in H.
      destruct H as (o & sug & Hl & _ & _ & _ & Hn & _). unfold lookup_of in Hl.
      destruct (k_target k) as [i|] eqn:Et; [|exfalso; apply (Own k); [left; reflexivity|exact Et]].
      destruct (nth_error acc i) as [n|] eqn:E; [|discriminate].
      injection Hl as <- _. exists n. split; [|exact Hn]. apply in_or_app. left. eapply nth_error_In, E.
    + injection H as <- H. apply IH in H. destruct H as (n & Hin & Hn). exists n. split; [|exact Hn].
      cbn [send_events flat_map app]. exact Hin.
Qed.

Lemma cancel_shape_from frame cl ops : forall s acc t b,
  In (ECancel (CA.CSubmit t b)) (crun_gen frame cl s acc ops) ->
  CA.x_chain t = CA.chain cl /\ CA.x_to t = CA.owner cl /\
  CA.x_value t = 0%Z /\ CA.x_data t = [] /\ CA.x_gas t = 21000%Z.
Proof.
  induction ops as [|o r IH]; intros s acc t b Hin; [destruct Hin|].
  destruct o as [rq a|v| |k]; cbn [crun_gen send_op] in Hin.
  1-3: (destruct (ES.step_with _ _ _); destruct Hin as [Hin|Hin]; [discriminate|exact (IH _ _ _ _ Hin)]).
  destruct Hin as [Hin|Hin]; [|exact (IH _ _ _ _ Hin)].
  injection Hin as Hin. apply CAP.shape in Hin.
  destruct Hin as (o & sug & _ & _ & _ & _ & _ & H1 & H2 & H3 & H4 & H5 & _). repeat split; assumption.
Qed.

(* When every cancellation names one of the sender's own accepted transactions: every replacement that reaches the
   node carries the nonce of a transaction an earlier Send of this very history got accepted (so it opens no new
   nonce), goes to the client's own address with value 0, no data, gas 21000 and the client's chain id.  (The
   shape part holds for every target: [cancel_shape_any].) *)
Theorem cancel_reuses_submitted_nonce cl ops pre t b post :
  own_targets ops ->
  crun cl ops = pre ++ ECancel (CA.CSubmit t b) :: post ->
  (exists n, In n (ES.accepted (send_events pre)) /\ CA.x_nonce t = Z.of_N n) /\
  CA.x_chain t = CA.chain cl /\ CA.x_to t = CA.owner cl /\
  CA.x_value t = 0%Z /\ CA.x_data t = [] /\ CA.x_gas t = 21000%Z.
Proof.
  intros Own H. split; [exact (reuse_from _ cl ops Own ES.init [] pre t b post H)|].
  apply (cancel_shape_from machine_ok cl ops ES.init [] t b). unfold crun in H. rewrite H.
  apply in_or_app. right. left. reflexivity.
Qed.

(* for every target, own or foreign: the no-op shape of C10_shape, and the nonce of whatever the node returned *)
Theorem cancel_shape_any cl ops pre t b post :
  crun cl ops = pre ++ ECancel (CA.CSubmit t b) :: post ->
  CA.x_chain t = CA.chain cl /\ CA.x_to t = CA.owner cl /\
  CA.x_value t = 0%Z /\ CA.x_data t = [] /\ CA.x_gas t = 21000%Z.
Proof.
  intros H. apply (cancel_shape_from machine_ok cl ops ES.init [] t b). unfold crun in H. rewrite H.
  apply in_or_app. right. left. reflexivity.
Qed.

(* ---- the in-flight window covers replacements of own transactions, and only those ----------------------- *)

Lemma accepted_split l n : In n (ES.accepted l) -> exists a p b, l = a ++ ES.TSend p (ES.Accepted n) :: b.
Proof.
  induction l as [|e l IH]; [intros []|]. rewrite accepted_cons. intros H. apply in_app_or in H. destruct H as [H|H].
  - destruct e as [p [| |m]| |]; cbn in H; try tauto. destruct H as [->|[]]. exists [], p, l. reflexivity.
  - destruct (IH H) as (a & p & b & ->). exists (e :: a), p, b. reflexivity.
Qed.

Lemma confs_app a b : ES.confs (a ++ b) = ES.confs a ++ ES.confs b.
Proof. induction a as [|e a IH]; [reflexivity|]. destruct e as [p r| |]; cbn; rewrite ?IH; reflexivity. Qed.

Lemma max_list_app a b : ES.max_list (a ++ b) = N.max (ES.max_list a) (ES.max_list b).
Proof.
  induction a as [|x a IH]; cbn [app ES.max_list fold_right]; [rewrite N.max_0_l; reflexivity|].
  fold (ES.max_list (a ++ b)). fold (ES.max_list a). rewrite IH, N.max_assoc. reflexivity.
Qed.

(* With own targets every transaction that reaches the node -- by Send or by CancelTx -- carries a nonce at most
   1024 beyond the highest confirmed nonce the node had reported before it (C08_window extended to replacements). *)
Theorem cancel_window cl ops pre t b post :
  own_targets ops ->
  crun cl ops = pre ++ ECancel (CA.CSubmit t b) :: post ->
  (CA.x_nonce t <= Z.of_N (ES.max_list (ES.confs (send_events pre)) + 1024))%Z.
Proof.
  intros Own H. destruct (reuse_from _ cl ops Own ES.init [] pre t b post H) as (n & Hin & ->).
  cbn [app] in Hin. destruct (accepted_split _ _ Hin) as (a & p & b0 & Ea).
  pose proof (cancel_transparent cl ops) as T. unfold crun in H. unfold crun in T. rewrite H in T.
  rewrite send_events_app, Ea, <- app_assoc in T. cbn [app] in T. symmetry in T.
  pose proof (ESP.window ES.get_nonce (strip ops) a p (ES.Accepted n) n _ T eq_refl) as Hw.
  rewrite Ea, confs_app, max_list_app.
  pose proof (N.le_max_l (ES.max_list (ES.confs a)) (ES.max_list (ES.confs (ES.TSend p (ES.Accepted n) :: b0)))). lia.
Qed.

(* Without the premise both statements fail: a pending transaction of another sender (or of an earlier client on
   the same key) with a nonce far beyond everything this sender submitted and beyond the window is replaced
   under that nonce.  CancelTx has no sentTxs / sender test. *)
Lemma foreign_target_refuted :
  exists cl ops pre t post,
    ES.wf_ops (strip ops) /\ ~ own_targets ops /\
    crun cl ops = pre ++ ECancel (CA.CSubmit t true) :: post /\
    (forall n, In n (ES.accepted (send_events pre)) -> CA.x_nonce t <> Z.of_N n) /\
    (Z.of_N (ES.max_list (ES.confs (send_events pre)) + 1024) < CA.x_nonce t)%Z.
Proof.
  exists {| CA.owner := []; CA.chain := 1 |}.
  exists [OSend {| ES.gas_given := true; ES.price_given := true |}
                {| ES.pending := Some 5%N; ES.est_ok := true; ES.tip_ok := true; ES.price_ok := true;
                   ES.sign_ok := true; ES.submit_ok := true |};
          OCancel {| k_target := None;
                     k_orig := {| CA.o_nonce := 5000; CA.o_price := 1; CA.o_fee := 1; CA.o_tip := 1 |};
                     k_pending := true; k_price := 0; k_fee := 0; k_tip := 0;
                     k_tipans := CA.TipOk 1; k_priceans := CA.PriceErr; k_sign := true; k_submit := true;
                     k_havoc := ES.init |}].
  exists [ESend (ES.TSend (Some 5%N) (ES.Accepted 5%N))].
  exists {| CA.x_nonce := 5000; CA.x_chain := 1; CA.x_to := []; CA.x_value := 0; CA.x_data := []; CA.x_gas := 21000;
            CA.x_tip := 1; CA.x_fee := 2 |}.
  exists [].
  split; [repeat constructor|]. split.
  - intros Own. apply (Own _ (or_intror (or_introl eq_refl))). reflexivity.
  - split; [vm_compute; reflexivity|]. split.
    + intros n [<-|[]]. vm_compute. discriminate.
    + vm_compute. reflexivity.
Qed.

(* ---- the C08 clauses hold across cancellations ------------------------------------------------------ *)

(* Nonces of accepted Sends increase strictly whatever cancellations (of any target, accepted or not) lie
   between them: a cancellation does not make the sender reuse or skip a nonce. *)
Theorem monotone_across_cancels cl ops pre p1 n1 mid p2 n2 post :
  ES.wf_ops (strip ops) ->
  crun cl ops = pre ++ ESend (ES.TSend p1 (ES.Accepted n1)) :: mid ++ ESend (ES.TSend p2 (ES.Accepted n2)) :: post ->
  ES.no_restart (send_events mid) -> (n1 < n2)%N.
Proof.
  intros Hw H Hn. apply (f_equal send_events) in H. rewrite cancel_transparent in H.
  rewrite send_events_app in H. cbn [send_events flat_map app] in H. rewrite send_events_app in H.
  cbn [send_events flat_map app] in H. fold (send_events post) in H. fold (send_events mid) in H.
  exact (ESP.monotone _ _ _ _ _ _ _ _ Hw H Hn).
Qed.

(* ... and the next accepted nonce after a Send is exactly the larger of previous+1 and the highest pending
   answer since, however many cancellations of that (or any other) transaction were made in between: in
   particular previous+1 when the node reports nothing higher. *)
Theorem no_skip_across_cancels cl ops pre p1 n1 mid p2 n2 post :
  ES.wf_ops (strip ops) ->
  crun cl ops = pre ++ ESend (ES.TSend p1 (ES.Accepted n1)) :: mid ++ ESend (ES.TSend p2 (ES.Accepted n2)) :: post ->
  ES.no_restart (send_events mid) -> ES.accepted (send_events mid) = [] ->
  n2 = N.max (n1 + 1) (ES.max_list (ES.pendings (send_events mid ++ [ES.TSend p2 (ES.Accepted n2)]))).
Proof.
  intros Hw H Hn Ha. apply (f_equal send_events) in H. rewrite cancel_transparent in H.
  rewrite send_events_app in H. cbn [send_events flat_map app] in H. rewrite send_events_app in H.
  cbn [send_events flat_map app] in H. fold (send_events post) in H. fold (send_events mid) in H.
  exact (ESP.next_exact _ _ _ _ _ _ _ _ Hw H Hn Ha).
Qed.

(* The frame fact is needed: in the machine whose CancelTx step may write the sender's state (frame flag
   false) a cancellation that resets the counter makes the next Send reuse nonce 5. *)
Lemma frame_needed :
  exists cl ops,
    ES.wf_ops (strip ops) /\
    send_events (crun_gen false cl ES.init [] ops) <> ES.run ES.init (strip ops) /\
    ES.accepted (send_events (crun_gen false cl ES.init [] ops)) = [5; 5]%N.
Proof.
  exists {| CA.owner := []; CA.chain := 1 |}.
  exists [OSend {| ES.gas_given := true; ES.price_given := true |}
                {| ES.pending := Some 5%N; ES.est_ok := true; ES.tip_ok := true; ES.price_ok := true;
                   ES.sign_ok := true; ES.submit_ok := true |};
          OCancel {| k_target := Some 0%nat; k_orig := {| CA.o_nonce := 0; CA.o_price := 0; CA.o_fee := 0; CA.o_tip := 0 |}; k_pending := true; k_price := 1; k_fee := 1; k_tip := 1;
                     k_tipans := CA.TipOk 1; k_priceans := CA.PriceErr; k_sign := true; k_submit := true;
                     k_havoc := ES.init |};
          OSend {| ES.gas_given := true; ES.price_given := true |}
                {| ES.pending := Some 5%N; ES.est_ok := true; ES.tip_ok := true; ES.price_ok := true;
                   ES.sign_ok := true; ES.submit_ok := true |}].
  split; [repeat constructor|]. split; [vm_compute; discriminate|vm_compute; reflexivity].
Qed.

(* ---- non-vacuity ------------------------------------------------------------------------------------ *)
Section Example.
  Let cl : CA.client := {| CA.owner := repeat 7%N 20; CA.chain := 17864 |}.
  Let ok (p : N) : ES.answers :=
    {| ES.pending := Some p; ES.est_ok := true; ES.tip_ok := true; ES.price_ok := true;
       ES.sign_ok := true; ES.submit_ok := true |}.
  Let rq : ES.request := {| ES.gas_given := false; ES.price_given := false |}.
  Let kc (k : nat) : cancel_call :=
    {| k_target := Some k; k_orig := {| CA.o_nonce := 0; CA.o_price := 0; CA.o_fee := 0; CA.o_tip := 0 |}; k_pending := true; k_price := 10; k_fee := 10; k_tip := 2;
       k_tipans := CA.TipOk 3; k_priceans := CA.PriceErr; k_sign := true; k_submit := true;
       k_havoc := ES.init |}.
  (* two sends (nonces 5, 6), the first is cancelled twice, a third send gets nonce 7 *)
  Let ops : list cop := [OSend rq (ok 5); OSend rq (ok 5); OCancel (kc 0); OCancel (kc 0); OSend rq (ok 5); OCancel (kc 7)].
  Example ex_chain :
    ES.wf_ops (strip ops) /\
    map (fun e => match e with
                  | ESend (ES.TSend _ (ES.Accepted n)) => Some (Z.of_N n)
                  | ECancel (CA.CSubmit t true) => Some (CA.x_nonce t)
                  | _ => None end) (crun cl ops) = [Some 5; Some 6; Some 5; Some 5; Some 7; None]%Z.
  Proof. split; [repeat constructor|vm_compute; reflexivity]. Qed.
End Example.
