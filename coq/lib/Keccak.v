(* Executable Keccak-256 with the legacy 0x01 padding (go-ethereum crypto.Keccak256),
   64-bit lanes as [N], the 25-lane state as one constructor with 25 arguments, the round
   function fully unrolled (generated text, rotation amounts and masks as literals).
   It is only used to RUN models in the correspondence checks: every theorem of the
   development is proved for an arbitrary function keccak, so nothing proved depends on
   this file being Keccak; it is itself compared with go-ethereum on every C03 run.
   Definitions only; lemmas in proofs/Keccak_proofs.v. *)
From Coq Require Import List NArith.
From MevVerif Require Import lib.Bytes.
Import ListNotations.
Open Scope N_scope.

Inductive state :=
  St (a0 a1 a2 a3 a4 a5 a6 a7 a8 a9 a10 a11 a12 a13 a14 a15 a16 a17 a18 a19 a20 a21 a22 a23 a24 : N).

Definition st0 : state := St 0 0 0 0 0 0 0 0 0 0 0 0 0 0 0 0 0 0 0 0 0 0 0 0 0.

(* rotate left by n within 64 bits; k = 64 - n, m = 2^k - 1 (the bits that stay inside) *)
Definition rot (v n k m : N) : N := N.lor (N.shiftl (N.land v m) n) (N.shiftr v k).
Definition rot1 (v : N) : N := rot v 1 63 9223372036854775807.

Definition round (rc : N) (s : state) : state :=
  match s with
  | St a0 a1 a2 a3 a4 a5 a6 a7 a8 a9 a10 a11 a12 a13 a14 a15 a16 a17 a18 a19 a20 a21 a22 a23 a24 =>
    let c0 := N.lxor a0 (N.lxor a5 (N.lxor a10 (N.lxor a15 a20))) in
    let c1 := N.lxor a1 (N.lxor a6 (N.lxor a11 (N.lxor a16 a21))) in
    let c2 := N.lxor a2 (N.lxor a7 (N.lxor a12 (N.lxor a17 a22))) in
    let c3 := N.lxor a3 (N.lxor a8 (N.lxor a13 (N.lxor a18 a23))) in
    let c4 := N.lxor a4 (N.lxor a9 (N.lxor a14 (N.lxor a19 a24))) in
    let d0 := N.lxor c4 (rot1 c1) in
    let d1 := N.lxor c0 (rot1 c2) in
    let d2 := N.lxor c1 (rot1 c3) in
    let d3 := N.lxor c2 (rot1 c4) in
    let d4 := N.lxor c3 (rot1 c0) in
    let t0 := N.lxor a0 d0 in
    let t1 := N.lxor a1 d1 in
    let t2 := N.lxor a2 d2 in
    let t3 := N.lxor a3 d3 in
    let t4 := N.lxor a4 d4 in
    let t5 := N.lxor a5 d0 in
    let t6 := N.lxor a6 d1 in
    let t7 := N.lxor a7 d2 in
    let t8 := N.lxor a8 d3 in
    let t9 := N.lxor a9 d4 in
    let t10 := N.lxor a10 d0 in
    let t11 := N.lxor a11 d1 in
    let t12 := N.lxor a12 d2 in
    let t13 := N.lxor a13 d3 in
    let t14 := N.lxor a14 d4 in
    let t15 := N.lxor a15 d0 in
    let t16 := N.lxor a16 d1 in
    let t17 := N.lxor a17 d2 in
    let t18 := N.lxor a18 d3 in
    let t19 := N.lxor a19 d4 in
    let t20 := N.lxor a20 d0 in
    let t21 := N.lxor a21 d1 in
    let t22 := N.lxor a22 d2 in
    let t23 := N.lxor a23 d3 in
    let t24 := N.lxor a24 d4 in
    let b0 := t0 in
    let b1 := rot t6 44 20 1048575 in
    let b2 := rot t12 43 21 2097151 in
    let b3 := rot t18 21 43 8796093022207 in
    let b4 := rot t24 14 50 1125899906842623 in
    let b5 := rot t3 28 36 68719476735 in
    let b6 := rot t9 20 44 17592186044415 in
    let b7 := rot t10 3 61 2305843009213693951 in
    let b8 := rot t16 45 19 524287 in
    let b9 := rot t22 61 3 7 in
    let b10 := rot t1 1 63 9223372036854775807 in
    let b11 := rot t7 6 58 288230376151711743 in
    let b12 := rot t13 25 39 549755813887 in
    let b13 := rot t19 8 56 72057594037927935 in
    let b14 := rot t20 18 46 70368744177663 in
    let b15 := rot t4 27 37 137438953471 in
    let b16 := rot t5 36 28 268435455 in
    let b17 := rot t11 10 54 18014398509481983 in
    let b18 := rot t17 15 49 562949953421311 in
    let b19 := rot t23 56 8 255 in
    let b20 := rot t2 62 2 3 in
    let b21 := rot t8 55 9 511 in
    let b22 := rot t14 39 25 33554431 in
    let b23 := rot t15 41 23 8388607 in
    let b24 := rot t21 2 62 4611686018427387903 in
    let e0 := N.lxor rc (N.lxor b0 (N.ldiff b2 b1)) in
    let e1 := N.lxor b1 (N.ldiff b3 b2) in
    let e2 := N.lxor b2 (N.ldiff b4 b3) in
    let e3 := N.lxor b3 (N.ldiff b0 b4) in
    let e4 := N.lxor b4 (N.ldiff b1 b0) in
    let e5 := N.lxor b5 (N.ldiff b7 b6) in
    let e6 := N.lxor b6 (N.ldiff b8 b7) in
    let e7 := N.lxor b7 (N.ldiff b9 b8) in
    let e8 := N.lxor b8 (N.ldiff b5 b9) in
    let e9 := N.lxor b9 (N.ldiff b6 b5) in
    let e10 := N.lxor b10 (N.ldiff b12 b11) in
    let e11 := N.lxor b11 (N.ldiff b13 b12) in
    let e12 := N.lxor b12 (N.ldiff b14 b13) in
    let e13 := N.lxor b13 (N.ldiff b10 b14) in
    let e14 := N.lxor b14 (N.ldiff b11 b10) in
    let e15 := N.lxor b15 (N.ldiff b17 b16) in
    let e16 := N.lxor b16 (N.ldiff b18 b17) in
    let e17 := N.lxor b17 (N.ldiff b19 b18) in
    let e18 := N.lxor b18 (N.ldiff b15 b19) in
    let e19 := N.lxor b19 (N.ldiff b16 b15) in
    let e20 := N.lxor b20 (N.ldiff b22 b21) in
    let e21 := N.lxor b21 (N.ldiff b23 b22) in
    let e22 := N.lxor b22 (N.ldiff b24 b23) in
    let e23 := N.lxor b23 (N.ldiff b20 b24) in
    let e24 := N.lxor b24 (N.ldiff b21 b20) in
    St e0 e1 e2 e3 e4 e5 e6 e7 e8 e9 e10 e11 e12 e13 e14 e15 e16 e17 e18 e19 e20 e21 e22 e23 e24
  end.

Definition RC : list N := [
 0x0000000000000001; 0x0000000000008082; 0x800000000000808A; 0x8000000080008000;
 0x000000000000808B; 0x0000000080000001; 0x8000000080008081; 0x8000000000008009;
 0x000000000000008A; 0x0000000000000088; 0x0000000080008009; 0x000000008000000A;
 0x000000008000808B; 0x800000000000008B; 0x8000000000008089; 0x8000000000008003;
 0x8000000000008002; 0x8000000000000080; 0x000000000000800A; 0x800000008000000A;
 0x8000000080008081; 0x8000000000008080; 0x0000000080000001; 0x8000000080008008].

Definition keccakf (s : state) : state := fold_left (fun s rc => round rc s) RC s.

(* next little-endian 64-bit lane of the block, and the rest (a short rest reads as zeros;
   never the case after padding) *)
Definition lane8 (b0 b1 b2 b3 b4 b5 b6 b7 : N) : N :=
  b0 + 256 * (b1 + 256 * (b2 + 256 * (b3 + 256 * (b4 + 256 * (b5 + 256 * (b6 + 256 * b7)))))).
Definition take_lane (l : bytes) : N * bytes :=
  match l with
  | b0 :: b1 :: b2 :: b3 :: b4 :: b5 :: b6 :: b7 :: r => (lane8 b0 b1 b2 b3 b4 b5 b6 b7, r)
  | _ => (unle l, [])
  end.

(* xor the 17 rate lanes of one 136-byte block into the state, permute; returns the rest *)
Definition absorb (s : state) (l : bytes) : state * bytes :=
  match s with
  | St a0 a1 a2 a3 a4 a5 a6 a7 a8 a9 a10 a11 a12 a13 a14 a15 a16 a17 a18 a19 a20 a21 a22 a23 a24 =>
    let '(x0, l) := take_lane l in let '(x1, l) := take_lane l in let '(x2, l) := take_lane l in
    let '(x3, l) := take_lane l in let '(x4, l) := take_lane l in let '(x5, l) := take_lane l in
    let '(x6, l) := take_lane l in let '(x7, l) := take_lane l in let '(x8, l) := take_lane l in
    let '(x9, l) := take_lane l in let '(x10, l) := take_lane l in let '(x11, l) := take_lane l in
    let '(x12, l) := take_lane l in let '(x13, l) := take_lane l in let '(x14, l) := take_lane l in
    let '(x15, l) := take_lane l in let '(x16, l) := take_lane l in
    (keccakf (St (N.lxor a0 x0) (N.lxor a1 x1) (N.lxor a2 x2) (N.lxor a3 x3) (N.lxor a4 x4)
                 (N.lxor a5 x5) (N.lxor a6 x6) (N.lxor a7 x7) (N.lxor a8 x8) (N.lxor a9 x9)
                 (N.lxor a10 x10) (N.lxor a11 x11) (N.lxor a12 x12) (N.lxor a13 x13) (N.lxor a14 x14)
                 (N.lxor a15 x15) (N.lxor a16 x16) a17 a18 a19 a20 a21 a22 a23 a24), l)
  end.

Definition rate : N := 136.

(* multi-rate padding with the legacy domain byte 0x01 (not SHA-3's 0x06) *)
Definition pad (m : bytes) : bytes :=
  let q := rate - (N.of_nat (length m) mod rate) in
  if q =? 1 then m ++ [0x81] else m ++ 0x01 :: repeat 0 (N.to_nat (q - 2)) ++ [0x80].

Fixpoint absorb_all (fuel : nat) (s : state) (l : bytes) : state :=
  match fuel with
  | O => s
  | S f => match l with
           | [] => s
           | _ => let '(s', r) := absorb s l in absorb_all f s' r
           end
  end.

Definition squeeze (s : state) : bytes :=
  match s with
  | St a0 a1 a2 a3 _ _ _ _ _ _ _ _ _ _ _ _ _ _ _ _ _ _ _ _ _ => le 8 a0 ++ le 8 a1 ++ le 8 a2 ++ le 8 a3
  end.

Definition keccak256 (m : bytes) : bytes :=
  let p := pad m in
  squeeze (absorb_all (S (Nat.div (length m) 136)) st0 p).
