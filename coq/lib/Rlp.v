(* RLP (recursive length prefix) as go-ethereum's rlp package writes and reads it: item trees of byte
   strings and lists, minimal big-endian integers (0 = the empty string), short and long length
   prefixes.  The encoder refuses (None) a payload of 2^64 bytes or more (the length of the length
   must fit the prefix byte); the decoder reports every malformed input as an explicit error and works
   with fuel = length of the input (nesting depth) and list fuel = length of the list payload.
   Definitions only; lemmas live in proofs/Rlp_proofs.v. *)
From Coq Require Import List NArith Bool Arith.
From MevVerif Require Import lib.Bytes.
Import ListNotations.
Open Scope N_scope.

Inductive item := Str (b : bytes) | Lst (l : list item).

(* --- integers: big-endian without leading zero bytes ------------------------------------------- *)
Definition bytelen (n : N) : nat := N.to_nat ((N.size n + 7) / 8).
Definition be_min (n : N) : bytes := be (bytelen n) n.

Definition rlp_bytes (b : bytes) : item := Str b.
Definition rlp_uint (n : N) : item := Str (be_min n).
Definition rlp_list (l : list item) : item := Lst l.

(* --- length prefixes: base 0x80 for strings, 0xc0 for lists --------------------------------------- *)
Definition max_len : N := 18446744073709551616.   (* 2^64 *)

Definition prefix (base len : N) : option bytes :=
  if len <? 56 then Some [base + len]
  else if len <? max_len then
         let lb := be_min len in Some ((base + 55 + N.of_nat (length lb)) :: lb)
       else None.

Definition with_prefix (base : N) (body : bytes) : option bytes :=
  match prefix base (N.of_nat (length body)) with
  | Some p => Some (p ++ body)
  | None => None
  end.

(* a one-byte string below 0x80 is its own encoding *)
Definition single_low (s : bytes) : bool := match s with [c] => c <? 128 | _ => false end.

Definition enc_str (b : bytes) : option bytes :=
  match b with
  | [c] => if c <? 128 then Some [c] else with_prefix 128 b
  | _ => with_prefix 128 b
  end.

Fixpoint encode (v : item) : option bytes :=
  match v with
  | Str b => enc_str b
  | Lst l =>
      match (fix seq (l : list item) : option bytes :=
               match l with
               | [] => Some []
               | v :: r => match encode v, seq r with
                           | Some a, Some b => Some (a ++ b)
                           | _, _ => None
                           end
               end) l with
      | Some body => with_prefix 192 body
      | None => None
      end
  end.

Fixpoint encode_seq (l : list item) : option bytes :=
  match l with
  | [] => Some []
  | v :: r => match encode v, encode_seq r with
              | Some a, Some b => Some (a ++ b)
              | _, _ => None
              end
  end.

(* --- decoder ------------------------------------------------------------------------------------------ *)
Inductive rlp_err := EEmpty | ENotByte | EShort | ENonCanonical | ETrailing | EFuel.
Inductive res (A : Type) := ROk (a : A) | RErr (e : rlp_err).
Arguments ROk {A} a.
Arguments RErr {A} e.

Definition take (n : N) (l : bytes) : option (bytes * bytes) :=
  if N.of_nat (length l) <? n then None
  else Some (firstn (N.to_nat n) l, skipn (N.to_nat n) l).

(* one header: (is it a list, payload, what follows) *)
Definition header (l : bytes) : res (bool * bytes * bytes) :=
  match l with
  | [] => RErr EEmpty
  | p :: r =>
      if 256 <=? p then RErr ENotByte
      else if p <? 128 then ROk (false, [p], r)
      else
        let base := if p <? 192 then 128 else 192 in
        let k := p - base in
        if k <? 56 then
          match take k r with
          | None => RErr EShort
          | Some (s, r') =>
              if negb (192 <=? p) && single_low s then RErr ENonCanonical
              else ROk (192 <=? p, s, r')
          end
        else
          match take (k - 55) r with
          | None => RErr EShort
          | Some (lb, r1) =>
              let len := unbe lb in
              if negb (bytes_eqb (be_min len) lb) || (len <? 56) then RErr ENonCanonical
              else match take len r1 with
                   | None => RErr EShort
                   | Some (s, r') => ROk (192 <=? p, s, r')
                   end
          end
  end.

(* the items of a list payload, read with the item decoder [d] *)
Fixpoint seq (d : bytes -> res (item * bytes)) (n : nat) (l : bytes) : res (list item) :=
  match l with
  | [] => ROk []
  | _ :: _ =>
      match n with
      | O => RErr EFuel
      | S n' =>
          match d l with
          | RErr e => RErr e
          | ROk (v, r) =>
              match seq d n' r with
              | RErr e => RErr e
              | ROk vs => ROk (v :: vs)
              end
          end
      end
  end.

Fixpoint dec (fuel : nat) (l : bytes) : res (item * bytes) :=
  match fuel with
  | O => RErr EFuel
  | S f =>
      match header l with
      | RErr e => RErr e
      | ROk (k, s, r) =>
          if k then
            match seq (dec f) (length s) s with
            | RErr e => RErr e
            | ROk vs => ROk (Lst vs, r)
            end
          else ROk (Str s, r)
      end
  end.

Definition decode (l : bytes) : res item :=
  match dec (length l) l with
  | RErr e => RErr e
  | ROk (v, []) => ROk v
  | ROk (_, _ :: _) => RErr ETrailing
  end.

(* nesting depth: the number of list levels around the innermost item *)
Definition maxdepth_with (depth : item -> nat) (l : list item) : nat :=
  fold_right (fun x a => Nat.max (S (depth x)) a) 0%nat l.
Fixpoint depth (v : item) : nat :=
  match v with
  | Str _ => 0%nat
  | Lst l => maxdepth_with depth l
  end.
Definition maxdepth := maxdepth_with depth.
